(* Net/PipelineProofs.v — invariants of the pipelined-connection LTS (Net/Pipeline.v), for ALL reachable
   states: any number of exchange threads, any schedule of the atomic actions, any server behaviour. *)
From Mos Require Import Base.Prelude Net.Pipeline.
From Coq Require Import ZifyN ZifyNat ZifyBool.
Local Open Scope N_scope.

(* ---------- association lists ---------- *)
Lemma alookup_aupd_same {A} k (v : A) l :
  pl_alookup k (pl_aupd k v l) = match pl_alookup k l with Some _ => Some v | None => None end.
Proof.
  induction l as [|[k' v'] l IH]; cbn; auto.
  destruct (k =? k') eqn:E; cbn; rewrite E; auto.
Qed.

Lemma alookup_aupd_other {A} k k' (v : A) l : k' <> k -> pl_alookup k' (pl_aupd k v l) = pl_alookup k' l.
Proof.
  intros Hn. induction l as [|[k2 v2] l IH]; cbn; auto.
  destruct (k =? k2) eqn:E; cbn.
  - apply N.eqb_eq in E. subst. destruct (k' =? k2) eqn:E2; auto. apply N.eqb_eq in E2. congruence.
  - destruct (k' =? k2); auto.
Qed.

Lemma alookup_aremove_same {A} k (l : list (N * A)) : pl_alookup k (pl_aremove k l) = None.
Proof.
  induction l as [|[k' v'] l IH]; cbn; auto.
  destruct (k =? k') eqn:E; cbn; auto. rewrite E. auto.
Qed.

Lemma alookup_aremove_other {A} k k' (l : list (N * A)) : k' <> k -> pl_alookup k' (pl_aremove k l) = pl_alookup k' l.
Proof.
  intros Hn. induction l as [|[k2 v2] l IH]; cbn; auto.
  destruct (k =? k2) eqn:E; cbn.
  - apply N.eqb_eq in E. subst. destruct (k' =? k2) eqn:E2; auto. apply N.eqb_eq in E2. congruence.
  - destruct (k' =? k2); auto.
Qed.

Lemma in_snd_nodup {A B} (l : list (A * B)) a b w :
  NoDup (map snd l) -> In (a, w) l -> In (b, w) l -> a = b.
Proof.
  induction l as [|[x y] l IH]; cbn; [tauto|].
  intros Hnd [H1|H1] [H2|H2]; inversion Hnd; subst.
  - congruence.
  - inversion H1; subst. exfalso. apply H3. apply (in_map snd) in H2. exact H2.
  - inversion H2; subst. exfalso. apply H3. apply (in_map snd) in H1. exact H1.
  - eauto.
Qed.

Lemma in_mid_nodup (l : list pl_msg) a b :
  NoDup (map pl_mid l) -> In a l -> In b l -> pl_mid a = pl_mid b -> a = b.
Proof.
  induction l as [|x l IH]; cbn; [tauto|].
  intros Hnd [H1|H1] [H2|H2] E; inversion Hnd; subst; auto.
  - exfalso. apply H3. rewrite E. apply in_map. exact H2.
  - exfalso. apply H3. rewrite <- E. apply in_map. exact H1.
Qed.

(* ---------- thread table ---------- *)
Lemma tget_tput_same t th' s :
  pl_tget (pl_tput t th' s) t = match pl_tget s t with Some _ => Some th' | None => None end.
Proof. unfold pl_tget, pl_tput. cbn. apply alookup_aupd_same. Qed.

Lemma tget_tput_other t t' th' s : t' <> t -> pl_tget (pl_tput t th' s) t' = pl_tget s t'.
Proof. unfold pl_tget, pl_tput. cbn. apply alookup_aupd_other. Qed.

Lemma tget_tput_inv t t' th' s x :
  pl_tget (pl_tput t th' s) t' = Some x ->
  (t' = t /\ x = th' /\ exists th, pl_tget s t = Some th) \/ (t' <> t /\ pl_tget s t' = Some x).
Proof.
  destruct (N.eq_dec t' t) as [->|Hn].
  - rewrite tget_tput_same. destruct (pl_tget s t) eqn:E; [|discriminate].
    intros H. inversion H; subst. left. eauto.
  - rewrite tget_tput_other by auto. auto.
Qed.

(* ---------- the invariant ---------- *)
Definition active (p : pl_pc) : Prop :=
  match p with PlPAdded | PlPWaiting | PlPLeaving _ => True | _ => False end.

Definition pc_result (p : pl_pc) : option pl_result :=
  match p with PlPLeaving r | PlPEol r | PlPReturned r => Some r | _ => None end.

(* newest first: the newest id is next-1, each older one is one less, the oldest is q0 *)
Fixpoint alog_ok (q0 next : N) (l : list (N * N)) : Prop :=
  match l with
  | [] => next = q0
  | (_, w) :: r => next = w + 1 /\ alog_ok q0 w r
  end.

Definition thread_ok (s : pl_state) (t : N) (th : pl_thread) : Prop :=
  t < pl_nthreads s /\
  (forall w, pl_twid th = Some w -> In (t, w) (pl_alog s)) /\
  (pl_tpc th = PlPStart -> pl_twid th = None) /\
  (forall m, pl_tchan th = Some m -> pl_twid th = Some (pl_mhid m) /\ In m (pl_emitted s)) /\
  (forall r, pc_result (pl_tpc th) = Some (PlRMsg r) ->
     exists w, pl_twid th = Some w /\ In (pl_with_id r w) (pl_emitted s) /\ pl_mhid r = pl_cid th).

Definition rl_ok (s : pl_state) (r : pl_rloop) : Prop :=
  match r with
  | PlRIdle => True
  | PlRHold m => In m (pl_emitted s)
  | PlRSend m t => In m (pl_emitted s) /\ exists th, pl_tget s t = Some th /\ pl_twid th = Some (pl_mhid m)
  end.

Definition queue_ok (s : pl_state) (q : list (N * N)) : Prop :=
  forall w t, pl_alookup w q = Some t ->
    exists th, pl_tget s t = Some th /\ pl_twid th = Some w /\ active (pl_tpc th).

Record Inv (q0 : N) (s : pl_state) : Prop := {
  inv_next : pl_nextQid s <= 65536;
  inv_alog : alog_ok q0 (pl_nextQid s) (pl_alog s);
  inv_threads : forall t th, pl_tget s t = Some th -> thread_ok s t th;
  inv_log_wid : forall t w, In (t, w) (pl_alog s) -> exists th, pl_tget s t = Some th /\ pl_twid th = Some w;
  inv_queue : queue_ok s (pl_queue s);
  inv_rl : rl_ok s (pl_rl s);
  inv_mid : forall m, In m (pl_emitted s) -> pl_mid m < pl_nemit s;
  inv_mid_nodup : NoDup (map pl_mid (pl_emitted s))
}.

Lemma alog_ok_bounds q0 n l : alog_ok q0 n l -> q0 <= n /\ forall t w, In (t, w) l -> q0 <= w < n.
Proof.
  revert n. induction l as [|[t0 w0] l IH]; cbn; intros n H.
  - split; [lia|tauto].
  - destruct H as [-> H]. apply IH in H. destruct H as [H1 H2]. split; [lia|].
    intros t w [E|E]; [inversion E; subst; lia|]. apply H2 in E. lia.
Qed.

Lemma alog_ok_nodup q0 n l : alog_ok q0 n l -> NoDup (map snd l).
Proof.
  revert n. induction l as [|[t0 w0] l IH]; cbn; intros n H; [constructor|].
  destruct H as [-> H]. constructor; eauto.
  intros Hin. apply in_map_iff in Hin. destruct Hin as [[t w] [E Hin]]. cbn in E. subst.
  apply alog_ok_bounds in H. destruct H as [_ H]. apply H in Hin. lia.
Qed.

Lemma thread_ok_mono s s' t th :
  pl_nthreads s <= pl_nthreads s' -> incl (pl_alog s) (pl_alog s') -> incl (pl_emitted s) (pl_emitted s') ->
  thread_ok s t th -> thread_ok s' t th.
Proof.
  intros Hn Ha He (H1 & H2 & H3 & H4 & H5). repeat split; auto.
  - lia.
  - apply H4 in H. tauto.
  - apply He. apply H4 in H. tauto.
  - intros r Hr. destruct (H5 r Hr) as (w & ? & ? & ?). exists w. auto.
Qed.

Lemma wid_inj q0 s t1 t2 th1 th2 w :
  Inv q0 s -> pl_tget s t1 = Some th1 -> pl_tget s t2 = Some th2 ->
  pl_twid th1 = Some w -> pl_twid th2 = Some w -> t1 = t2.
Proof.
  intros I G1 G2 W1 W2.
  destruct (inv_threads _ _ I _ _ G1) as (_ & A1 & _).
  destruct (inv_threads _ _ I _ _ G2) as (_ & A2 & _).
  eapply in_snd_nodup; [eapply alog_ok_nodup, (inv_alog _ _ I)| |]; eauto.
Qed.

(* ---------- generic preservation lemmas ---------- *)
Lemma inv_init tcp q0 : q0 <= 65536 -> Inv q0 (pl_init tcp q0).
Proof.
  intros H. constructor; cbn; auto; try tauto; try discriminate.
  constructor.
Qed.

Lemma inv_set_closed q0 b s : Inv q0 s -> Inv q0 (pl_set_closed b s).
Proof. intros [A B C D E F G H]. constructor; auto. Qed.

Lemma inv_set_reserved q0 v s : Inv q0 s -> Inv q0 (pl_set_reserved v s).
Proof. intros [A B C D E F G H]. constructor; auto. Qed.

Lemma inv_set_rl q0 r s : Inv q0 s -> rl_ok s r -> Inv q0 (pl_set_rl r s).
Proof.
  intros [A B C D E F G H] R. constructor; auto.
Qed.

Lemma inv_set_queue q0 q s : Inv q0 s -> queue_ok s q -> Inv q0 (pl_set_queue q s).
Proof.
  intros [A B C D E F G H] R. constructor; auto.
Qed.

(* replacing one thread's record, wire id unchanged *)
Lemma inv_tput q0 s t th th' :
  Inv q0 s -> pl_tget s t = Some th -> pl_twid th' = pl_twid th -> thread_ok s t th' ->
  (forall w, pl_alookup w (pl_queue s) = Some t -> active (pl_tpc th')) ->
  Inv q0 (pl_tput t th' s).
Proof.
  intros I G W OK Q. destruct I as [A B C D E F Gm H].
  constructor; auto.
  - intros t' x Hx. apply tget_tput_inv in Hx.
    destruct Hx as [(-> & -> & _)|(Hn & Hx)].
    + eapply thread_ok_mono; [| | |exact OK]; cbn; auto using incl_refl. lia.
    + eapply thread_ok_mono; [| | |exact (C _ _ Hx)]; cbn; auto using incl_refl. lia.
  - intros t' w Hin. destruct (D _ _ Hin) as (x & Hx & Hw).
    destruct (N.eq_dec t' t) as [->|Hn].
    + exists th'. rewrite tget_tput_same, G. split; auto. rewrite W. congruence.
    + exists x. rewrite tget_tput_other by auto. auto.
  - intros w t' Hq. change (pl_queue (pl_tput t th' s)) with (pl_queue s) in Hq.
    destruct (E _ _ Hq) as (x & Hx & Hw & Ha).
    destruct (N.eq_dec t' t) as [->|Hn].
    + exists th'. rewrite tget_tput_same, G. repeat split; eauto. rewrite W. congruence.
    + exists x. rewrite tget_tput_other by auto. auto.
  - change (pl_rl (pl_tput t th' s)) with (pl_rl s). unfold rl_ok in *. destruct (pl_rl s) as [|m|m t']; auto.
    destruct F as (F1 & x & Hx & Hw). split; auto.
    destruct (N.eq_dec t' t) as [->|Hn].
    + exists th'. rewrite tget_tput_same, G. split; auto. rewrite W. congruence.
    + exists x. rewrite tget_tput_other by auto. auto.
Qed.

Lemma with_id_id m i : pl_with_id (pl_with_id m i) (pl_mhid m) = m.
Proof. destruct m; reflexivity. Qed.

Ltac usek4 K4 :=
  try (match goal with H : pl_tchan _ = Some _ |- _ => destruct (K4 _ H); assumption end).

(* ---------- every step preserves the invariant ---------- *)
Lemma step_inv q0 s l s' : Inv q0 s -> pl_step s l = Some s' -> Inv q0 s'.
Proof.
  intros I. destruct l; cbn [pl_step].
  - (* LSpawn *)
    intros H. inversion H; subst; clear H.
    assert (Hold : forall t th, pl_tget s t = Some th ->
              pl_tget (pl_set_nthreads (pl_nthreads s + 1)
                     (pl_set_threads ((pl_nthreads s, PlMkThread c None PlPStart None false) :: pl_threads s) s)) t = Some th).
    { intros t th G. pose proof (inv_threads _ _ I _ _ G) as (Hlt & _).
      unfold pl_tget. cbn. destruct (t =? pl_nthreads s) eqn:E; auto. apply N.eqb_eq in E. lia. }
    destruct I as [A B C D E F Gm H].
    constructor; auto.
    + intros t th G. unfold pl_tget in G. cbn in G.
      destruct (t =? pl_nthreads s) eqn:Et.
      * apply N.eqb_eq in Et. inversion G; subst. unfold thread_ok; cbn. repeat split; try discriminate. lia.
      * eapply thread_ok_mono; [| | |exact (C _ _ G)]; cbn; auto using incl_refl. lia.
    + intros t w Hin. destruct (D _ _ Hin) as (x & Hx & Hw). exists x. auto.
    + intros w t Hq. destruct (E _ _ Hq) as (x & Hx & Hw). exists x. auto.
    + unfold rl_ok in *. cbn [pl_rl pl_set_nthreads pl_set_threads]. destruct (pl_rl s); auto.
      destruct F as (F1 & x & Hx & Hw). split; [exact F1|]. exists x. split; auto.
  - (* LCancel *)
    destruct (pl_tget s t) as [th|] eqn:G; [|discriminate]. intros H; inversion H; subst; clear H.
    eapply inv_tput; eauto.
    + pose proof (inv_threads _ _ I _ _ G) as OK. exact OK.
    + intros w Hq. destruct (inv_queue _ _ I _ _ Hq) as (x & Hx & _ & Ha). rewrite G in Hx. inversion Hx; subst. exact Ha.
  - (* LReserve *)
    intros H; inversion H; subst; clear H. destruct (_ <? _); auto using inv_set_reserved.
  - (* LAdd *)
    destruct (pl_tget s t) as [th|] eqn:G; [|discriminate].
    destruct (pl_tpc th) eqn:P; try discriminate.
    set (s1 := if 0 <? pl_reserved s then pl_set_reserved (pl_reserved s - 1) s else s).
    assert (I1 : Inv q0 s1) by (unfold s1; destruct (_ <? _); auto using inv_set_reserved).
    assert (G1 : pl_tget s1 t = Some th) by (unfold s1; destruct (_ <? _); auto).
    assert (N1 : pl_nextQid s1 = pl_nextQid s) by (unfold s1; destruct (_ <? _); auto).
    assert (Q1 : pl_queue s1 = pl_queue s) by (unfold s1; destruct (_ <? _); auto).
    assert (A1 : pl_alog s1 = pl_alog s) by (unfold s1; destruct (_ <? _); auto).
    pose proof (inv_threads _ _ I1 _ _ G1) as (K1 & K2 & K3 & K4 & K5).
    pose proof (K3 P) as Wn.
    destruct (65535 <? pl_nextQid s) eqn:Eol.
    + (* errPipelineConnEoL *)
      intros H; inversion H; subst; clear H.
      eapply inv_tput; eauto.
      * unfold thread_ok; cbn. repeat split; auto; try discriminate; usek4 K4.
      * intros w Hq. destruct (inv_queue _ _ I1 _ _ Hq) as (x & Hx & Hw & _).
        rewrite G1 in Hx. inversion Hx; subst. congruence.
    + intros H; inversion H; subst; clear H.
      apply N.ltb_ge in Eol.
      assert (Hq : pl_nextQid s mod 65536 = pl_nextQid s) by (apply N.mod_small; lia).
      rewrite Hq. clear Hq.
      fold s1.
      set (q := pl_nextQid s).
      set (th' := pl_th_pc PlPAdded (pl_th_wid (Some q) th)).
      set (s2 := pl_set_alog ((t, q) :: pl_alog s) (pl_set_queue (pl_aset q t (pl_queue s)) (pl_set_nextQid (q + 1) s1))).
      assert (G2 : pl_tget s2 t = Some th) by exact G1.
      assert (Hother : forall t' x, t' <> t -> pl_tget s1 t' = Some x -> pl_tget (pl_tput t th' s2) t' = Some x).
      { intros t' x Hn Hx. rewrite tget_tput_other by auto. exact Hx. }
      assert (Hsame : pl_tget (pl_tput t th' s2) t = Some th').
      { rewrite tget_tput_same, G2. reflexivity. }
      destruct I1 as [A B C D E F Gm Hnd].
      constructor.
      * cbn. unfold q. lia.
      * cbn. split; [reflexivity|]. rewrite <- A1. unfold q. rewrite <- N1. exact B.
      * intros t' x Hx. apply tget_tput_inv in Hx.
        destruct Hx as [(-> & -> & _)|(Hn & Hx)].
        -- unfold thread_ok, th'; cbn. repeat split; auto; try discriminate.
           ++ intros w Hw. inversion Hw; subst. left. reflexivity.
           ++ destruct (K4 _ H) as [W _]. congruence.
           ++ destruct (K4 _ H) as [W _]. congruence.
        -- eapply thread_ok_mono; [| | |exact (C _ _ Hx)]; cbn; auto using incl_refl; try lia.
           rewrite A1. apply incl_tl, incl_refl.
      * intros t' w Hin. cbn in Hin. destruct Hin as [Hin|Hin].
        -- inversion Hin; subst. exists th'. split; auto.
        -- rewrite <- A1 in Hin. destruct (D _ _ Hin) as (x & Hx & Hw).
           destruct (N.eq_dec t' t) as [->|Hn]; [rewrite G1 in Hx; inversion Hx; subst; congruence|].
           exists x. auto.
      * intros w t' Hlk. change (pl_queue (pl_tput t th' s2)) with (pl_aset q t (pl_queue s)) in Hlk.
        unfold pl_aset in Hlk. cbn in Hlk.
        destruct (w =? q) eqn:Ew.
        -- apply N.eqb_eq in Ew. inversion Hlk; subst. exists th'. repeat split; auto.
        -- apply N.eqb_neq in Ew. rewrite alookup_aremove_other in Hlk by auto.
           rewrite <- Q1 in Hlk. destruct (E _ _ Hlk) as (x & Hx & Hw & Ha).
           destruct (N.eq_dec t' t) as [->|Hn]; [rewrite G1 in Hx; inversion Hx; subst; congruence|].
           exists x. auto.
      * change (pl_rl (pl_tput t th' s2)) with (pl_rl s1). unfold rl_ok in *.
        destruct (pl_rl s1) as [|m|m t']; auto.
        destruct F as (F1 & x & Hx & Hw). split; [exact F1|].
        destruct (N.eq_dec t' t) as [->|Hn]; [rewrite G1 in Hx; inversion Hx; subst; congruence|].
        exists x. auto.
      * exact Gm.
      * exact Hnd.
  - (* LWrite *)
    destruct (pl_tget s t) as [th|] eqn:G; [|discriminate].
    destruct (pl_tpc th) eqn:P; try discriminate.
    pose proof (inv_threads _ _ I _ _ G) as (K1 & K2 & K3 & K4 & K5).
    destruct ok.
    + destruct (pl_closed s); [discriminate|]. intros H; inversion H; subst; clear H.
      eapply inv_tput; eauto.
      * unfold thread_ok; cbn. repeat split; auto; try discriminate; usek4 K4.
      * intros; cbn; trivial.
    + intros H; inversion H; subst; clear H.
      eapply inv_tput; eauto.
      * unfold thread_ok; cbn. repeat split; auto; try discriminate; usek4 K4.
      * intros; cbn; trivial.
  - (* LRecv *)
    destruct (pl_closed s); [discriminate|]. destruct (i <? 65536); [|discriminate].
    destruct (pl_rl s) eqn:R; try discriminate. intros H; inversion H; subst; clear H.
    destruct I as [A B C D E F Gm Hnd].
    constructor; auto.
    + intros t th G. eapply thread_ok_mono; [| | |exact (C _ _ G)]; cbn; auto using incl_refl; try lia.
      apply incl_tl, incl_refl.
    + cbn. left. reflexivity.
    + cbn. intros m [<-|Hin]; cbn; [lia|]. apply Gm in Hin. lia.
    + cbn. constructor; auto. intros Hin. apply in_map_iff in Hin. destruct Hin as (m & Em & Hin).
      apply Gm in Hin. lia.
  - (* LGarbage *)
    destruct (pl_closed s); [discriminate|]. destruct (pl_rl s); try discriminate.
    intros H; inversion H; subst; clear H. destruct (pl_istcp s); auto using inv_set_closed.
  - (* LLookup *)
    destruct (pl_rl s) as [|m|m t] eqn:R; try discriminate. intros H; inversion H; subst; clear H.
    apply inv_set_rl; auto.
    pose proof (inv_rl _ _ I) as F. rewrite R in F. cbn in F.
    destruct (pl_alookup (pl_mhid m) (pl_queue s)) as [t|] eqn:Q; cbn; auto.
    destruct (inv_queue _ _ I _ _ Q) as (x & Hx & Hw & _). split; eauto.
  - (* LSend *)
    destruct (pl_rl s) as [|m|m t] eqn:R; try discriminate.
    destruct (pl_tget s t) as [th|] eqn:G; [|discriminate]. intros H; inversion H; subst; clear H.
    pose proof (inv_rl _ _ I) as F. rewrite R in F. cbn in F. destruct F as (F1 & x & Hx & Hw).
    rewrite G in Hx. inversion Hx; subst x; clear Hx.
    pose proof (inv_threads _ _ I _ _ G) as (K1 & K2 & K3 & K4 & K5).
    apply inv_set_rl; [|cbn; trivial].
    destruct (pl_tchan th) eqn:Ch; auto.
    eapply inv_tput; eauto.
    + unfold thread_ok; cbn. repeat split; auto.
      * inversion H; subst; auto.
      * inversion H; subst; auto.
    + intros w Hq. destruct (inv_queue _ _ I _ _ Hq) as (x & Hx & _ & Ha). rewrite G in Hx. inversion Hx; subst. exact Ha.
  - (* LTakeReply *)
    destruct (pl_tget s t) as [th|] eqn:G; [|discriminate].
    destruct (pl_tpc th) eqn:P; try discriminate.
    destruct (pl_tchan th) as [m|] eqn:Ch; [|discriminate]. intros H; inversion H; subst; clear H.
    pose proof (inv_threads _ _ I _ _ G) as (K1 & K2 & K3 & K4 & K5).
    destruct (K4 _ Ch) as [W Hin].
    eapply inv_tput; eauto.
    + unfold thread_ok; cbn. repeat split; auto; try discriminate; usek4 K4.
      intros r Hr. inversion Hr; subst. exists (pl_mhid m). rewrite with_id_id. auto.
    + intros; cbn; trivial.
  - (* LCtxArm *)
    destruct (pl_tget s t) as [th|] eqn:G; [|discriminate].
    destruct (pl_tpc th) eqn:P; try discriminate.
    destruct (pl_tcancel th); [|discriminate]. intros H; inversion H; subst; clear H.
    pose proof (inv_threads _ _ I _ _ G) as (K1 & K2 & K3 & K4 & K5).
    eapply inv_tput; eauto.
    + unfold thread_ok; cbn. repeat split; auto; try discriminate; usek4 K4.
    + intros; cbn; trivial.
  - (* LConnArm *)
    destruct (pl_tget s t) as [th|] eqn:G; [|discriminate].
    destruct (pl_tpc th) eqn:P; try discriminate.
    destruct (pl_closed s); [|discriminate]. intros H; inversion H; subst; clear H.
    pose proof (inv_threads _ _ I _ _ G) as (K1 & K2 & K3 & K4 & K5).
    eapply inv_tput; eauto.
    + unfold thread_ok; cbn. repeat split; auto; try discriminate; usek4 K4.
    + intros; cbn; trivial.
  - (* LDelete *)
    destruct (pl_tget s t) as [th|] eqn:G; [|discriminate].
    destruct (pl_tpc th) eqn:P; try discriminate.
    destruct (pl_twid th) as [w|] eqn:W; [|discriminate]. intros H; inversion H; subst; clear H.
    pose proof (inv_threads _ _ I _ _ G) as (K1 & K2 & K3 & K4 & K5).
    assert (QO : queue_ok s (pl_aremove w (pl_queue s))).
    { intros w' t' Hq. destruct (N.eq_dec w' w) as [->|Hn]; [rewrite alookup_aremove_same in Hq; discriminate|].
      rewrite alookup_aremove_other in Hq by auto. exact (inv_queue _ _ I _ _ Hq). }
    eapply inv_tput; [apply inv_set_queue; eauto|exact G|reflexivity| |].
    + unfold thread_ok. rewrite P in K5.
      destruct (_ && _); cbn; repeat split; auto; try discriminate; usek4 K4.
    + intros w' Hq. cbn in Hq.
      destruct (N.eq_dec w' w) as [->|Hn]; [rewrite alookup_aremove_same in Hq; discriminate|].
      rewrite alookup_aremove_other in Hq by auto.
      destruct (inv_queue _ _ I _ _ Hq) as (x & Hx & Hw & _). rewrite G in Hx. inversion Hx; subst. congruence.
  - (* LEolClose *)
    destruct (pl_tget s t) as [th|] eqn:G; [|discriminate].
    destruct (pl_tpc th) eqn:P; try discriminate. intros H; inversion H; subst; clear H.
    pose proof (inv_threads _ _ I _ _ G) as (K1 & K2 & K3 & K4 & K5).
    eapply inv_tput; [apply inv_set_closed; eauto|exact G|reflexivity| |].
    + unfold thread_ok. rewrite P in K5. cbn. repeat split; auto; try discriminate; usek4 K4.
    + intros w' Hq. cbn in Hq.
      destruct (inv_queue _ _ I _ _ Hq) as (x & Hx & _ & Ha). rewrite G in Hx. inversion Hx; subst.
      rewrite P in Ha. exact Ha.
  - (* LClose *)
    intros H; inversion H; subst; clear H. apply inv_set_closed; auto.
Qed.

Lemma run_inv q0 ls s s' : Inv q0 s -> pl_run ls s = Some s' -> Inv q0 s'.
Proof.
  revert s. induction ls as [|l ls IH]; cbn; intros s I H.
  - inversion H; subst; auto.
  - destruct (pl_step s l) eqn:E; [|discriminate]. eapply IH; [|exact H]. eapply step_inv; eauto.
Qed.

Definition reachable (tcp : bool) (q0 : N) (s : pl_state) : Prop :=
  exists ls, pl_run ls (pl_init tcp q0) = Some s.

Lemma reachable_inv tcp q0 s : q0 <= 65536 -> reachable tcp q0 s -> Inv q0 s.
Proof. intros H [ls R]. eapply run_inv; [apply inv_init; exact H|exact R]. Qed.

Lemma run_app ls1 ls2 s s1 s2 : pl_run ls1 s = Some s1 -> pl_run ls2 s1 = Some s2 -> pl_run (ls1 ++ ls2) s = Some s2.
Proof.
  revert s. induction ls1 as [|l ls1 IH]; cbn; intros s H1 H2.
  - inversion H1; subst; auto.
  - destruct (pl_step s l); [|discriminate]. eauto.
Qed.

Lemma reachable_run tcp q0 s ls s' : reachable tcp q0 s -> pl_run ls s = Some s' -> reachable tcp q0 s'.
Proof. intros [l0 R] H. exists (l0 ++ ls). eapply run_app; eauto. Qed.

(* ====================================================================================== *)
(* C05_ids_fresh                                                                          *)
(* ====================================================================================== *)
Fixpoint nseq (a : N) (n : nat) : list N :=
  match n with O => [] | S k => a :: nseq (a + 1) k end.

(* wire ids in the order they were assigned *)
Definition assigned_ids (s : pl_state) : list N := rev (map snd (pl_alog s)).

Lemma nseq_snoc a n : nseq a n ++ [a + N.of_nat n] = nseq a (S n).
Proof.
  revert a. induction n as [|n IH]; intros a.
  - cbn. f_equal. lia.
  - cbn [nseq app]. f_equal. specialize (IH (a + 1)). cbn [nseq] in IH. rewrite <- IH. f_equal. f_equal. lia.
Qed.

Lemma alog_ok_seq q0 n l :
  alog_ok q0 n l -> rev (map snd l) = nseq q0 (length l) /\ n = q0 + N.of_nat (length l).
Proof.
  revert n. induction l as [|[t w] l IH]; cbn [alog_ok map rev length snd]; intros n H.
  - split; [reflexivity|]. cbn. lia.
  - destruct H as [-> H]. destruct (IH _ H) as [E1 E2]. split.
    + rewrite E1. rewrite E2 at 1. apply nseq_snoc.
    + lia.
Qed.

Lemma nseq_in a n x : In x (nseq a n) -> a <= x < a + N.of_nat n.
Proof.
  revert a. induction n as [|n IH]; cbn [nseq]; intros a H; [destruct H|].
  destruct H as [<-|H]; [lia|]. apply IH in H. lia.
Qed.

Lemma nseq_nodup a n : NoDup (nseq a n).
Proof.
  revert a. induction n as [|n IH]; intros a; cbn [nseq]; constructor; auto.
  intros H. apply nseq_in in H. lia.
Qed.

Theorem ids_fresh tcp q0 s :
  q0 <= 65536 -> reachable tcp q0 s ->
  assigned_ids s = nseq q0 (length (pl_alog s)) /\
  pl_nextQid s = q0 + N.of_nat (length (pl_alog s)) /\
  pl_nextQid s <= 65536 /\
  (forall w, In w (assigned_ids s) -> q0 <= w <= 65535) /\
  NoDup (assigned_ids s).
Proof.
  intros Hq R. pose proof (reachable_inv _ _ _ Hq R) as I.
  destruct (alog_ok_seq _ _ _ (inv_alog _ _ I)) as [E1 E2].
  pose proof (inv_next _ _ I) as Hn.
  unfold assigned_ids. rewrite E1. repeat split; auto.
  - apply nseq_in in H. lia.
  - apply nseq_in in H. lia.
  - apply nseq_nodup.
Qed.

(* the id an exchange holds is the one logged for it, and two exchanges never hold the same id *)
Theorem ids_exchange tcp q0 s :
  q0 <= 65536 -> reachable tcp q0 s ->
  (forall t th w, pl_tget s t = Some th -> pl_twid th = Some w -> In w (assigned_ids s)) /\
  (forall t1 t2 th1 th2 w, pl_tget s t1 = Some th1 -> pl_tget s t2 = Some th2 ->
     pl_twid th1 = Some w -> pl_twid th2 = Some w -> t1 = t2).
Proof.
  intros Hq R. pose proof (reachable_inv _ _ _ Hq R) as I. split.
  - intros t th w G W. destruct (inv_threads _ _ I _ _ G) as (_ & K2 & _).
    unfold assigned_ids. rewrite <- in_rev. apply K2 in W. apply (in_map snd) in W. exact W.
  - intros. eapply wid_inj; eauto.
Qed.

(* the waiter table is never overwritten: the id addQueueC is about to assign has no entry *)
Theorem add_no_overwrite tcp q0 s :
  q0 <= 65536 -> reachable tcp q0 s -> forall w, pl_nextQid s <= w -> pl_alookup w (pl_queue s) = None.
Proof.
  intros Hq R w Hw. pose proof (reachable_inv _ _ _ Hq R) as I.
  destruct (pl_alookup w (pl_queue s)) as [t|] eqn:Q; auto.
  destruct (inv_queue _ _ I _ _ Q) as (x & Hx & Hwid & _).
  destruct (inv_threads _ _ I _ _ Hx) as (_ & K2 & _).
  apply K2 in Hwid. apply (alog_ok_bounds _ _ _ (inv_alog _ _ I)) in Hwid. lia.
Qed.

(* after the last id (65535) has been used addQueueC fails: nothing is assigned, nothing wraps *)
Theorem add_exhausted tcp q0 s t th :
  q0 <= 65536 -> reachable tcp q0 s -> pl_nextQid s = 65536 ->
  pl_tget s t = Some th -> pl_tpc th = PlPStart ->
  pl_status_available s = false /\
  exists s' th', pl_step s (PlLAdd t) = Some s' /\
    pl_tget s' t = Some th' /\ pl_tpc th' = PlPReturned PlRErrEoL /\ pl_twid th' = None /\
    pl_nextQid s' = 65536 /\ pl_alog s' = pl_alog s /\ pl_queue s' = pl_queue s.
Proof.
  intros Hq R Hn G P. pose proof (reachable_inv _ _ _ Hq R) as I.
  destruct (inv_threads _ _ I _ _ G) as (_ & _ & K3 & _).
  split.
  - unfold pl_status_available. rewrite Hn. apply N.leb_gt. lia.
  - cbn [pl_step]. rewrite G, P. rewrite Hn. cbn [N.ltb N.compare Pos.compare Pos.compare_cont].
    replace (65535 <? 65536) with true by reflexivity.
    eexists. eexists. split; [reflexivity|].
    rewrite tget_tput_same.
    assert (E : pl_tget (if 0 <? pl_reserved s then pl_set_reserved (pl_reserved s - 1) s else s) t = Some th)
      by (destruct (0 <? pl_reserved s); exact G).
    rewrite E. repeat split; cbn; auto; destruct (0 <? pl_reserved s); cbn; auto.
Qed.

(* ... and the exhausted connection retires itself when its last waiter leaves *)
Theorem retire_when_drained s t th r w :
  pl_nextQid s = 65536 -> pl_tget s t = Some th -> pl_tpc th = PlPLeaving r -> pl_twid th = Some w ->
  pl_queue s = [(w, t)] ->
  exists s1 s2, pl_step s (PlLDelete t) = Some s1 /\ pl_step s1 (PlLEolClose t) = Some s2 /\
    pl_closed s2 = true /\ pl_queue s2 = [] /\ pl_status_available s2 = false /\
    exists th2, pl_tget s2 t = Some th2 /\ pl_tpc th2 = PlPReturned r.
Proof.
  intros Hn G P W Q.
  set (s1 := pl_tput t (pl_th_pc (PlPEol r) th) (pl_set_queue [] s)).
  assert (S1 : pl_step s (PlLDelete t) = Some s1).
  { cbn [pl_step]. rewrite G, P, W, Q, Hn. cbn [pl_aremove]. rewrite N.eqb_refl. reflexivity. }
  assert (G1 : pl_tget s1 t = Some (pl_th_pc (PlPEol r) th)).
  { unfold s1. rewrite tget_tput_same. change (pl_tget (pl_set_queue [] s) t) with (pl_tget s t). rewrite G. reflexivity. }
  set (s2 := pl_tput t (pl_th_pc (PlPReturned r) (pl_th_pc (PlPEol r) th)) (pl_set_closed true s1)).
  assert (S2 : pl_step s1 (PlLEolClose t) = Some s2).
  { cbn [pl_step]. rewrite G1. reflexivity. }
  exists s1, s2. repeat split; auto.
  - unfold pl_status_available. cbn. rewrite Hn. apply N.leb_gt. lia.
  - eexists. split.
    + unfold s2. rewrite tget_tput_same. change (pl_tget (pl_set_closed true s1) t) with (pl_tget s1 t). rewrite G1. reflexivity.
    + reflexivity.
Qed.

(* ====================================================================================== *)
(* C05_delivery, C05_no_double                                                            *)
(* ====================================================================================== *)
Lemma with_id_back r w : pl_with_id (pl_with_id r w) (pl_mhid r) = r.
Proof. destruct r; reflexivity. Qed.

Theorem delivery tcp q0 s t th r :
  q0 <= 65536 -> reachable tcp q0 s ->
  pl_tget s t = Some th -> pc_result (pl_tpc th) = Some (PlRMsg r) ->
  exists w m, pl_twid th = Some w /\ In m (pl_emitted s) /\ pl_mhid m = w /\ pl_mhid m < 65536 /\ r = pl_with_id m (pl_cid th).
Proof.
  intros Hq R G P. pose proof (reachable_inv _ _ _ Hq R) as I.
  destruct (inv_threads _ _ I _ _ G) as (_ & K2 & _ & _ & K5).
  destruct (K5 _ P) as (w & W & Hin & Hc).
  exists w, (pl_with_id r w). repeat split; auto.
  - cbn. apply K2 in W. apply (alog_ok_bounds _ _ _ (inv_alog _ _ I)) in W.
    pose proof (inv_next _ _ I). lia.
  - rewrite <- Hc. symmetry. apply with_id_back.
Qed.

Theorem no_double tcp q0 s t1 t2 th1 th2 r1 r2 :
  q0 <= 65536 -> reachable tcp q0 s ->
  pl_tget s t1 = Some th1 -> pl_tget s t2 = Some th2 ->
  pc_result (pl_tpc th1) = Some (PlRMsg r1) -> pc_result (pl_tpc th2) = Some (PlRMsg r2) ->
  pl_mid r1 = pl_mid r2 -> t1 = t2.
Proof.
  intros Hq R G1 G2 P1 P2 E. pose proof (reachable_inv _ _ _ Hq R) as I.
  destruct (inv_threads _ _ I _ _ G1) as (_ & _ & _ & _ & K5).
  destruct (inv_threads _ _ I _ _ G2) as (_ & _ & _ & _ & L5).
  destruct (K5 _ P1) as (w1 & W1 & In1 & _). destruct (L5 _ P2) as (w2 & W2 & In2 & _).
  assert (Em : pl_with_id r1 w1 = pl_with_id r2 w2).
  { eapply in_mid_nodup; eauto using (inv_mid_nodup _ _ I). }
  assert (w1 = w2) by (inversion Em; auto). subst w2.
  eapply wid_inj; eauto.
Qed.

(* the one-slot channel never holds, and the read loop never forwards, a message for a foreign id *)
Theorem routing tcp q0 s :
  q0 <= 65536 -> reachable tcp q0 s ->
  (forall t th m, pl_tget s t = Some th -> pl_tchan th = Some m -> pl_twid th = Some (pl_mhid m) /\ In m (pl_emitted s)) /\
  (forall m t, pl_rl s = PlRSend m t -> exists th, pl_tget s t = Some th /\ pl_twid th = Some (pl_mhid m)).
Proof.
  intros Hq R. pose proof (reachable_inv _ _ _ Hq R) as I. split.
  - intros t th m G C. destruct (inv_threads _ _ I _ _ G) as (_ & _ & _ & K4 & _). auto.
  - intros m t E. pose proof (inv_rl _ _ I) as F. rewrite E in F. cbn in F. tauto.
Qed.

(* ====================================================================================== *)
(* C05_late_reply                                                                         *)
(* ====================================================================================== *)
(* Once exchange t has chosen its outcome ... *)
Definition decided (th : pl_thread) : Prop := pc_result (pl_tpc th) <> None.
(* ... and its deferred deleteQueueC has run *)
Definition left_queue (th : pl_thread) : Prop :=
  match pl_tpc th with PlPEol _ | PlPReturned _ => True | _ => False end.

(* what can never be undone by later steps *)
Definition ext (s s' : pl_state) : Prop :=
  incl (pl_emitted s) (pl_emitted s') /\ pl_nemit s <= pl_nemit s' /\
  forall t th, pl_tget s t = Some th ->
    exists th', pl_tget s' t = Some th' /\ pl_cid th' = pl_cid th /\
      (forall w, pl_twid th = Some w -> pl_twid th' = Some w) /\
      (forall r, pc_result (pl_tpc th) = Some r -> pc_result (pl_tpc th') = Some r) /\
      (left_queue th -> left_queue th').

Lemma ext_refl s : ext s s.
Proof. repeat split; auto using incl_refl; try lia. intros t th G. exists th. auto. Qed.

Lemma ext_trans a b c : ext a b -> ext b c -> ext a c.
Proof.
  intros (A1 & A2 & A3) (B1 & B2 & B3). repeat split.
  - eapply incl_tran; eauto.
  - lia.
  - intros t th G. destruct (A3 _ _ G) as (x & Gx & C1 & W1 & R1 & L1).
    destruct (B3 _ _ Gx) as (y & Gy & C2 & W2 & R2 & L2).
    exists y. repeat split; auto. congruence.
Qed.

Lemma ext_same s s' :
  pl_threads s' = pl_threads s -> pl_emitted s' = pl_emitted s -> pl_nemit s' = pl_nemit s -> ext s s'.
Proof.
  intros T E Nn. unfold ext, pl_tget. rewrite T, E, Nn. repeat split; auto using incl_refl; try lia.
  intros t th G. exists th. auto.
Qed.

Lemma ext_tput s t th th' :
  pl_tget s t = Some th -> pl_cid th' = pl_cid th ->
  (forall w, pl_twid th = Some w -> pl_twid th' = Some w) ->
  (forall r, pc_result (pl_tpc th) = Some r -> pc_result (pl_tpc th') = Some r) ->
  (left_queue th -> left_queue th') ->
  ext s (pl_tput t th' s).
Proof.
  intros G C W P L. split; [apply incl_refl|]. split; [cbn; lia|].
  intros t' x Gx. destruct (N.eq_dec t' t) as [->|Hn].
  - rewrite G in Gx. inversion Gx; subst x. exists th'. rewrite tget_tput_same, G. auto.
  - exists x. rewrite tget_tput_other by auto. auto.
Qed.

Ltac exttac P :=
  eapply ext_tput; eauto; unfold left_queue; try rewrite P; cbn; try discriminate; try tauto.

Lemma step_ext q0 s l s' : Inv q0 s -> pl_step s l = Some s' -> ext s s'.
Proof.
  intros I. destruct l; cbn [pl_step].
  - intros H; inversion H; subst; clear H. repeat split; cbn; auto using incl_refl; try lia.
    intros t th G. exists th. repeat split; auto.
    destruct (inv_threads _ _ I _ _ G) as (K1 & _).
    unfold pl_tget. cbn. destruct (t =? pl_nthreads s) eqn:E; auto. apply N.eqb_eq in E. lia.
  - destruct (pl_tget s t) as [th|] eqn:G; [|discriminate]. intros H; inversion H; subst; clear H.
    eapply ext_tput; eauto.
  - intros H; inversion H; subst; clear H. destruct (_ <? _); [apply ext_same; reflexivity|apply ext_refl].
  - destruct (pl_tget s t) as [th|] eqn:G; [|discriminate].
    destruct (pl_tpc th) eqn:P; try discriminate.
    destruct (inv_threads _ _ I _ _ G) as (_ & _ & K3 & _). pose proof (K3 P) as Wn.
    set (s1 := if 0 <? pl_reserved s then pl_set_reserved (pl_reserved s - 1) s else s).
    assert (E1 : ext s s1) by (unfold s1; destruct (_ <? _); [apply ext_same; reflexivity|apply ext_refl]).
    assert (G1 : pl_tget s1 t = Some th) by (unfold s1; destruct (_ <? _); auto).
    destruct (65535 <? pl_nextQid s).
    + intros H; inversion H; subst; clear H. eapply ext_trans; [exact E1|].
      exttac P.
    + intros H; inversion H; subst; clear H. eapply ext_trans; [exact E1|]. fold s1.
      eapply ext_trans; [|eapply ext_tput with (th := th)]; [apply ext_same; reflexivity|exact G1|reflexivity| | |].
      * rewrite Wn. discriminate.
      * rewrite P. discriminate.
      * unfold left_queue. rewrite P. tauto.
  - destruct (pl_tget s t) as [th|] eqn:G; [|discriminate].
    destruct (pl_tpc th) eqn:P; try discriminate.
    destruct ok.
    + destruct (pl_closed s); [discriminate|]. intros H; inversion H; subst; clear H.
      exttac P.
    + intros H; inversion H; subst; clear H.
      exttac P.
  - destruct (pl_closed s); [discriminate|]. destruct (i <? 65536); [|discriminate].
    destruct (pl_rl s); try discriminate. intros H; inversion H; subst; clear H.
    repeat split; cbn; try lia.
    + apply incl_tl, incl_refl.
    + intros t th G. exists th. auto.
  - destruct (pl_closed s); [discriminate|]. destruct (pl_rl s); try discriminate.
    intros H; inversion H; subst; clear H. destruct (pl_istcp s); [apply ext_same; reflexivity|apply ext_refl].
  - destruct (pl_rl s); try discriminate. intros H; inversion H; subst; clear H. apply ext_same; reflexivity.
  - destruct (pl_rl s) as [|m|m t]; try discriminate.
    destruct (pl_tget s t) as [th|] eqn:G; [|discriminate]. intros H; inversion H; subst; clear H.
    destruct (pl_tchan th).
    + apply ext_same; reflexivity.
    + eapply ext_trans; [eapply ext_tput with (th := th) (th' := pl_th_chan (Some m) th); eauto|].
      apply ext_same; reflexivity.
  - destruct (pl_tget s t) as [th|] eqn:G; [|discriminate].
    destruct (pl_tpc th) eqn:P; try discriminate.
    destruct (pl_tchan th); [|discriminate]. intros H; inversion H; subst; clear H.
    exttac P.
  - destruct (pl_tget s t) as [th|] eqn:G; [|discriminate].
    destruct (pl_tpc th) eqn:P; try discriminate.
    destruct (pl_tcancel th); [|discriminate]. intros H; inversion H; subst; clear H.
    exttac P.
  - destruct (pl_tget s t) as [th|] eqn:G; [|discriminate].
    destruct (pl_tpc th) eqn:P; try discriminate.
    destruct (pl_closed s); [|discriminate]. intros H; inversion H; subst; clear H.
    exttac P.
  - destruct (pl_tget s t) as [th|] eqn:G; [|discriminate].
    destruct (pl_tpc th) eqn:P; try discriminate.
    destruct (pl_twid th) as [w|] eqn:W; [|discriminate]. intros H; inversion H; subst; clear H.
    eapply ext_trans; [apply (ext_same s (pl_set_queue (pl_aremove w (pl_queue s)) s)); reflexivity|].
    eapply ext_tput; eauto.
    + rewrite P. cbn. intros r0 Hr. destruct (_ && _); exact Hr.
    + unfold left_queue. rewrite P. tauto.
  - destruct (pl_tget s t) as [th|] eqn:G; [|discriminate].
    destruct (pl_tpc th) eqn:P; try discriminate. intros H; inversion H; subst; clear H.
    eapply ext_trans; [apply (ext_same s (pl_set_closed true s)); reflexivity|].
    eapply ext_tput; eauto.
    + rewrite P. cbn. auto.
    + unfold left_queue. cbn. auto.
  - intros H; inversion H; subst; clear H. apply ext_same; reflexivity.
Qed.

Lemma run_ext q0 ls s s' : Inv q0 s -> pl_run ls s = Some s' -> ext s s'.
Proof.
  revert s. induction ls as [|l ls IH]; cbn; intros s I H.
  - inversion H; subst. apply ext_refl.
  - destruct (pl_step s l) as [s1|] eqn:E; [|discriminate].
    eapply ext_trans; [eapply step_ext; eauto|]. eapply IH; eauto. eapply step_inv; eauto.
Qed.

(* (a) discarded: after deleteQueueC the id has no waiter (and never will: ids are fresh), so getQueueC
       returns nil for any later message carrying it *)
Theorem late_reply_discarded tcp q0 s t th w :
  q0 <= 65536 -> reachable tcp q0 s ->
  pl_tget s t = Some th -> pl_twid th = Some w -> left_queue th ->
  forall ls s', pl_run ls s = Some s' -> pl_alookup w (pl_queue s') = None.
Proof.
  intros Hq R G W L ls s' Run.
  pose proof (reachable_inv _ _ _ Hq R) as I.
  pose proof (run_inv _ _ _ _ I Run) as I'.
  destruct (run_ext _ _ _ _ I Run) as (_ & _ & E3).
  destruct (E3 _ _ G) as (th' & G' & _ & W' & P' & L').
  destruct (pl_alookup w (pl_queue s')) as [t'|] eqn:Q; auto.
  destruct (inv_queue _ _ I' _ _ Q) as (x & Gx & Wx & Ax).
  assert (t' = t) by (eapply wid_inj; eauto). subst t'.
  rewrite G' in Gx. inversion Gx; subst x; clear Gx.
  apply L' in L. unfold left_queue in L. destruct (pl_tpc th'); cbn in *; contradiction.
Qed.

(* (b) a message instance received after exchange t decided (instance number >= nemit s), carrying t's
       wire id, is never returned by ANY exchange, whatever happens later *)
Theorem late_reply_never_returned tcp q0 s t th w :
  q0 <= 65536 -> reachable tcp q0 s ->
  pl_tget s t = Some th -> pl_twid th = Some w -> decided th ->
  forall ls s', pl_run ls s = Some s' ->
  forall m, In m (pl_emitted s') -> pl_nemit s <= pl_mid m -> pl_mhid m = w ->
  forall t' th' r, pl_tget s' t' = Some th' -> pc_result (pl_tpc th') = Some (PlRMsg r) -> pl_mid r <> pl_mid m.
Proof.
  intros Hq R G W D ls s' Run m Hm Hlate Hid t' th' r G' P' Emid.
  pose proof (reachable_inv _ _ _ Hq R) as I.
  pose proof (run_inv _ _ _ _ I Run) as I'.
  destruct (run_ext _ _ _ _ I Run) as (_ & _ & E3).
  destruct (E3 _ _ G) as (th1 & G1 & _ & W1 & P1 & _).
  destruct (inv_threads _ _ I' _ _ G') as (_ & _ & _ & _ & K5).
  destruct (K5 _ P') as (w' & Ww' & Hin' & _).
  assert (Em : pl_with_id r w' = m).
  { eapply in_mid_nodup; eauto using (inv_mid_nodup _ _ I'). }
  assert (w' = w) by (rewrite <- Hid, <- Em; reflexivity). subst w'.
  assert (t' = t) by (eapply wid_inj; eauto). subst t'.
  rewrite G1 in G'. inversion G'; subst th'; clear G'.
  unfold decided in D. destruct (pc_result (pl_tpc th)) as [r0|] eqn:P0; [|congruence].
  specialize (P1 _ eq_refl). rewrite P1 in P'. inversion P'; subst r0; clear P'.
  destruct (inv_threads _ _ I _ _ G) as (_ & _ & _ & _ & L5).
  destruct (L5 _ P0) as (w0 & Ww0 & Hin0 & _).
  apply (inv_mid _ _ I) in Hin0. cbn in Hin0. lia.
Qed.

(* ====================================================================================== *)
(* big_refines_small                                                                      *)
(* ====================================================================================== *)
Definition sched (s s' : pl_state) : Prop := exists ls, pl_run ls s = Some s'.

Lemma sched_refl s : sched s s. Proof. exists []. reflexivity. Qed.
Lemma sched_trans a b c : sched a b -> sched b c -> sched a c.
Proof. intros [l1 H1] [l2 H2]. exists (l1 ++ l2). eapply run_app; eauto. Qed.

Lemma sched_exec s l : sched s (pl_exec s l).
Proof.
  unfold pl_exec. destruct (pl_step s l) as [s'|] eqn:E; [|apply sched_refl].
  exists [l]. cbn. rewrite E. reflexivity.
Qed.

Lemma sched_fold {A} (f : pl_state -> A -> pl_state) (l : list A) :
  (forall s a, sched s (f s a)) -> forall s, sched s (fold_left f l s).
Proof.
  intros Hf. induction l as [|a l IH]; cbn; intros s; [apply sched_refl|].
  eapply sched_trans; [apply Hf|apply IH].
Qed.

Lemma sched_settle t s : sched s (pl_settle t s).
Proof. unfold pl_settle. apply sched_fold. apply sched_exec. Qed.

Lemma sched_settle_all s : sched s (pl_settle_all s).
Proof. unfold pl_settle_all. apply sched_fold. intros. apply sched_settle. Qed.

Lemma sched_do_emit i tag s : sched s (pl_do_emit i tag s).
Proof.
  unfold pl_do_emit.
  set (s1 := pl_exec (pl_exec s (PlLRecv i tag)) PlLLookup).
  assert (H1 : sched s s1) by (eapply sched_trans; apply sched_exec).
  assert (H2 : sched s (pl_exec s1 PlLSend)) by (eapply sched_trans; [exact H1|apply sched_exec]).
  destruct (pl_rl s1); auto. eapply sched_trans; [exact H2|apply sched_settle].
Qed.

Lemma sched_fail_close cl t s : sched s (pl_fail_close cl t s).
Proof.
  unfold pl_fail_close. destruct (cl && pl_write_failed s t); [|apply sched_refl].
  eapply sched_trans; [apply sched_exec|apply sched_settle_all].
Qed.

Lemma sched_big_step s e : sched s (pl_big_step s e).
Proof.
  destruct e; cbn [pl_big_step].
  - eapply sched_trans; [|apply sched_settle]. apply sched_fold. apply sched_exec.
  - destruct (pl_tget s k) as [th|]; [|apply sched_refl].
    destruct (pl_seen_wid th); [apply sched_do_emit|apply sched_refl].
  - apply sched_do_emit.
  - eapply sched_trans; [apply sched_exec|apply sched_settle_all].
  - eapply sched_trans; [apply sched_exec|apply sched_settle].
  - eapply sched_trans; [apply sched_exec|apply sched_settle_all].
  - eapply sched_trans; [|apply sched_fail_close].
    eapply sched_trans; [|apply sched_settle]. apply sched_fold. apply sched_exec.
  - destruct (pl_closed s); (eapply sched_trans; [|apply sched_settle]); apply sched_fold; apply sched_exec.
  - eapply sched_trans; [|apply sched_fail_close].
    eapply sched_trans; [|apply sched_settle]. apply sched_fold. apply sched_exec.
Qed.

(* every quiescent history's big-step result is reached by a schedule of the small-step system *)
Theorem big_refines_small tcp q0 evs : reachable tcp q0 (pl_run_history tcp q0 evs).
Proof.
  unfold reachable, pl_run_history. apply (sched_fold pl_big_step evs sched_big_step).
Qed.

(* ====================================================================================== *)
(* the end-of-life boundary under concurrency                                             *)
(* ====================================================================================== *)
(* one step either leaves the id counter and the assignment log alone, or (a successful addQueueC, only
   possible while nextQid <= 65535) assigns exactly nextQid *)
Lemma step_ids s l s' :
  pl_step s l = Some s' ->
  (pl_nextQid s' = pl_nextQid s /\ pl_alog s' = pl_alog s) \/
  (pl_nextQid s <= 65535 /\ pl_nextQid s' = pl_nextQid s + 1 /\
   exists t, pl_alog s' = (t, pl_nextQid s) :: pl_alog s).
Proof.
  destruct l; cbn [pl_step]; intros H;
    repeat match type of H with
           | context [match ?x with _ => _ end] => destruct x eqn:?; try discriminate
           end;
    try (inversion H; subst; clear H; left; split; reflexivity).
  (* the successful addQueueC (with and without a reservation to give back) *)
  all: inversion H; subst; clear H; right.
  all: match goal with E : (65535 <? _) = false |- _ => apply N.ltb_ge in E end.
  all: split; [assumption|].
  all: match goal with |- context [?a mod 65536] => replace (a mod 65536) with a by (symmetry; apply N.mod_small; lia) end.
  all: cbn; split; eauto.
Qed.

(* Once the counter has reached 65536 it stays there: under EVERY continuation — any number of threads,
   any interleaving of Reserve / Status / addQueueC / replies / cancels / closes — no further wire id is ever
   assigned (in particular none wraps to 0), and the pool sees the connection as unavailable. *)
Theorem exhausted_forever tcp q0 s :
  q0 <= 65536 -> reachable tcp q0 s -> pl_nextQid s = 65536 ->
  forall ls s', pl_run ls s = Some s' ->
    pl_nextQid s' = 65536 /\ pl_alog s' = pl_alog s /\ pl_status_available s' = false.
Proof.
  intros Hq R Hn ls. revert s R Hn. induction ls as [|l ls IH]; cbn [pl_run]; intros s R Hn s' Run.
  - inversion Run; subst. repeat split; auto. unfold pl_status_available. rewrite Hn. apply N.leb_gt. lia.
  - destruct (pl_step s l) as [s1|] eqn:E; [|discriminate].
    assert (R1 : reachable tcp q0 s1) by (eapply reachable_run with (ls := [l]); eauto; cbn; rewrite E; reflexivity).
    destruct (step_ids _ _ _ E) as [[N1 A1]|[Hle _]]; [|lia].
    destruct (IH s1 R1 (eq_trans N1 Hn) s' Run) as (X1 & X2 & X3).
    repeat split; auto. congruence.
Qed.

(* so: whoever calls addQueueC after that, however it got hold of the connection, gets EoL and no id *)
Theorem add_after_exhaustion tcp q0 s :
  q0 <= 65536 -> reachable tcp q0 s -> pl_nextQid s = 65536 ->
  forall ls s' t th, pl_run ls s = Some s' -> pl_tget s' t = Some th -> pl_tpc th = PlPStart ->
  exists s'' th', pl_step s' (PlLAdd t) = Some s'' /\
    pl_tget s'' t = Some th' /\ pl_tpc th' = PlPReturned PlRErrEoL /\ pl_twid th' = None /\
    pl_nextQid s'' = 65536 /\ pl_alog s'' = pl_alog s.
Proof.
  intros Hq R Hn ls s' t th Run G P.
  destruct (exhausted_forever _ _ _ Hq R Hn _ _ Run) as (N' & A' & _).
  pose proof (reachable_run _ _ _ _ _ R Run) as R'.
  destruct (add_exhausted _ _ _ _ _ Hq R' N' G P) as (_ & s'' & th' & S & G' & P' & W' & N'' & A'' & _).
  exists s'', th'. repeat split; auto. congruence.
Qed.

(* ====================================================================================== *)
(* write failures: the id stays consumed, ids are monotone whatever writes do              *)
(* ====================================================================================== *)
(* a write — successful or failed — touches neither the id counter, nor the assignment log, nor the waiter table *)
Lemma write_keeps_id s t ok s' :
  pl_step s (PlLWrite t ok) = Some s' ->
  pl_nextQid s' = pl_nextQid s /\ pl_alog s' = pl_alog s /\ pl_queue s' = pl_queue s /\ pl_closed s' = pl_closed s.
Proof.
  cbn [pl_step]. destruct (pl_tget s t) as [th|]; [|discriminate].
  destruct (pl_tpc th); try discriminate. destruct ok.
  - destruct (pl_closed s) eqn:C; [discriminate|]. intros H; inversion H; subst. repeat split; cbn; auto.
  - intros H; inversion H; subst. repeat split; cbn; auto.
Qed.

Lemma run_ids ls : forall s s', pl_run ls s = Some s' ->
  pl_nextQid s <= pl_nextQid s' /\ exists new, pl_alog s' = new ++ pl_alog s.
Proof.
  induction ls as [|l ls IH]; cbn; intros s s' H.
  - inversion H; subst. split; [lia|]. exists []. reflexivity.
  - destruct (pl_step s l) as [s1|] eqn:E; [|discriminate].
    destruct (IH _ _ H) as (M & new & A).
    destruct (step_ids _ _ _ E) as [(N1 & A1)|(_ & N1 & t & A1)].
    + split; [lia|]. exists new. congruence.
    + split; [lia|]. exists (new ++ [(t, pl_nextQid s)]). rewrite A, A1, <- app_assoc. reflexivity.
Qed.

(* an id that was ever assigned — whatever became of its exchange: write failed, cancelled, answered, connection
   closed — is never held by another exchange in any later state, and the counter never goes back *)
Theorem ids_never_reused tcp q0 s :
  q0 <= 65536 -> reachable tcp q0 s ->
  forall ls s', pl_run ls s = Some s' ->
    pl_nextQid s <= pl_nextQid s' /\
    (exists new, pl_alog s' = new ++ pl_alog s) /\
    NoDup (assigned_ids s') /\
    (forall t th w, pl_tget s t = Some th -> pl_twid th = Some w ->
       forall t' th', pl_tget s' t' = Some th' -> pl_twid th' = Some w -> t' = t).
Proof.
  intros Hq R ls s' H. pose proof (reachable_inv _ _ _ Hq R) as I.
  pose proof (reachable_run _ _ _ _ _ R H) as R'. pose proof (reachable_inv _ _ _ Hq R') as I'.
  destruct (run_ids _ _ _ H) as (M & A). repeat split; auto.
  - destruct (ids_fresh _ _ _ Hq R') as (_ & _ & _ & _ & Nd). exact Nd.
  - intros t th w G W t' th' G' W'.
    destruct (run_ext _ _ _ _ I H) as (_ & _ & E). destruct (E _ _ G) as (x & Gx & _ & Wx & _).
    eapply wid_inj; [exact I'| exact G' | exact Gx | exact W' | apply Wx; exact W].
Qed.

(* ====================================================================================== *)
(* the caller's id on every arm of the select                                             *)
(* ====================================================================================== *)
(* whatever arm an exchange left its select through: if it holds a message, that message carries the caller's id and
   is a received message with the exchange's own wire id *)
Theorem restored_id_every_arm tcp q0 s t th r :
  q0 <= 65536 -> reachable tcp q0 s ->
  pl_tget s t = Some th -> pc_result (pl_tpc th) = Some (PlRMsg r) ->
  pl_mhid r = pl_cid th /\
  exists w, pl_twid th = Some w /\ In (pl_with_id r w) (pl_emitted s).
Proof.
  intros Hq R G P. pose proof (reachable_inv _ _ _ Hq R) as I.
  destruct (inv_threads _ _ I _ _ G) as (_ & _ & _ & _ & K5).
  destruct (K5 _ P) as (w & W & E & C). split; auto. exists w. auto.
Qed.

(* in a state where BOTH arms are ready (written, reply in the channel, connection closed) each enabled arm leads to
   a state in which the exchange either holds the reply with the caller's id (reply arm) or holds no message at all
   (connection arm, context arm) *)
Theorem both_arms_ready tcp q0 s t th m :
  q0 <= 65536 -> reachable tcp q0 s ->
  pl_tget s t = Some th -> pl_tpc th = PlPWaiting -> pl_tchan th = Some m -> pl_closed s = true ->
  (exists s1 th1, pl_step s (PlLTakeReply t) = Some s1 /\ pl_tget s1 t = Some th1 /\
     pc_result (pl_tpc th1) = Some (PlRMsg (pl_with_id m (pl_cid th)))) /\
  (exists s2 th2, pl_step s (PlLConnArm t) = Some s2 /\ pl_tget s2 t = Some th2 /\
     pc_result (pl_tpc th2) = Some PlRErrClosed).
Proof.
  intros Hq R G P Ch Cl. split.
  - cbn [pl_step]. rewrite G, P, Ch. eexists. eexists. split; [reflexivity|].
    rewrite tget_tput_same, G. split; reflexivity.
  - cbn [pl_step]. rewrite G, P, Cl. eexists. eexists. split; [reflexivity|].
    rewrite tget_tput_same, G. split; reflexivity.
Qed.

Lemma sched_both_arms c tag cf s : sched s (pl_both_arms c tag cf s).
Proof.
  unfold pl_both_arms. cbv zeta.
  set (s1 := fold_left pl_exec _ s).
  assert (H1 : sched s s1) by (apply sched_fold; apply sched_exec).
  set (s2 := match pl_tget s1 (pl_nthreads s) with Some _ => _ | None => _ end).
  assert (H2 : sched s1 s2).
  { unfold s2. destruct (pl_tget s1 (pl_nthreads s)) as [th|]; [|apply sched_refl].
    destruct (pl_seen_wid th); [|apply sched_refl]. apply sched_fold. apply sched_exec. }
  eapply sched_trans; [exact H1|]. eapply sched_trans; [exact H2|].
  eapply sched_trans; [apply sched_exec|]. eapply sched_trans; [|apply sched_settle_all].
  destruct cf; [unfold pl_settle_conn_first; apply sched_fold; apply sched_exec|apply sched_settle].
Qed.

Theorem arms_refines_small tcp q0 evs c tag cf :
  reachable tcp q0 (pl_both_arms c tag cf (pl_run_history tcp q0 evs)).
Proof.
  destruct (big_refines_small tcp q0 evs) as [l0 R]. destruct (sched_both_arms c tag cf (pl_run_history tcp q0 evs)) as [l1 H].
  exists (l0 ++ l1). eapply run_app; eauto.
Qed.
