(* Net/Pipeline.v — model of ONE pipelined upstream connection
   (internal/upstream/transport/pipeline_conn.go: pipelineConn) with any number of exchange threads.

   Small-step LTS whose labelled steps are the ATOMIC ACTIONS of the Go code:

     exchange(ctx, m):                                   readLoop():
       respChan := make(chan *Msg, 1)                       for {
       qid, err := c.addQueueC(respChan)   -- LAdd            r := read one message   -- LRecv / LGarbage
       if err != nil { return err }                           ch := c.getQueueC(r.ID) -- LLookup (RLock'd map read)
       defer c.deleteQueueC(qid)           -- LDelete         if ch != nil {
       err = c.write(m, qid)               -- LWrite            select { case ch <- r: default: drop } -- LSend
       if err != nil { return err }                           } else { drop }
       select {                                             }
       case <-ctx.Done():   return Cause   -- LCtxArm
       case <-c.ctx.Done(): return Cause   -- LConnArm     deleteQueueC(qid): lock; delete(queue,qid);
       case r := <-respChan:                                   eol := nextQid>65535 && len(queue)==0; unlock
         r.Header.ID = be16(m); return r   -- LTakeReply      if eol { closeWithErr(EoL) }   -- LEolClose
       }

   The response channel belongs to the exchange (it is created by it and is only reachable through the
   queue entry or through a reference the read loop already fetched), so the model keeps the one-slot
   channel content inside the thread record and the waiter table maps  wire id |-> thread.
   The read loop may hold a fetched channel reference across a deleteQueueC (RSend m t), exactly as in Go.

   Environment (arbitrary, any time): new exchanges (LSpawn), context cancellation (LCancel), pool
   reservation (LReserve), write failure (LWrite t false), the server / network: ANY message with ANY
   16-bit id (LRecv id tag: out-of-order, duplicate, unsolicited, late; "never" = no step), undecodable
   bytes (LGarbage: aborts a TCP connection, is skipped on UDP), close for any reason (LClose: peer
   close, idle time-out, read error, pool eviction, transport Close).

   Coarsening, stated in docs/notes/C05.md: closeWithErr (flag under lock; cancelCause; net.Conn.Close)
   is ONE step that sets [closed]; [closed] stands for both the flag and c.ctx.Done().

   Ghost state (never read by a step's guard or by the non-ghost part of its effect):
     emitted/nemit — every message the read loop received, each with a unique instance number [mid];
     alog          — (thread, wire id) in order of assignment, newest first.

   Naming: everything is extracted into one flat OCaml module shared by all properties, so every type,
   field and function below is prefixed pl_ and every constructor Pl (PlLRecv, PlEvStart, ...); the comments
   use the short names (LRecv, queue, nextQid, ...).

   No proofs in this file (Net/PipelineProofs.v). *)
From Mos Require Import Base.Prelude.
Local Open Scope N_scope.

(* ---------- association lists (Go maps; thread table) ---------- *)
Fixpoint pl_alookup {A} (k : N) (l : list (N * A)) : option A :=
  match l with
  | [] => None
  | (k', v) :: r => if k =? k' then Some v else pl_alookup k r
  end.

Fixpoint pl_aremove {A} (k : N) (l : list (N * A)) : list (N * A) :=
  match l with
  | [] => []
  | (k', v) :: r => if k =? k' then pl_aremove k r else (k', v) :: pl_aremove k r
  end.

(* m[k] = v *)
Definition pl_aset {A} (k : N) (v : A) (l : list (N * A)) : list (N * A) := (k, v) :: pl_aremove k l.

(* replace the value of an existing key in place (first match; keys of the thread table are unique) *)
Fixpoint pl_aupd {A} (k : N) (v : A) (l : list (N * A)) : list (N * A) :=
  match l with
  | [] => []
  | (k', v') :: r => if k =? k' then (k', v) :: r else (k', v') :: pl_aupd k v r
  end.

(* ---------- data ---------- *)
(* a DNS message as far as C05 is concerned: ghost instance number, header id, payload tag *)
Record pl_msg := PlMkMsg { pl_mid : N; pl_mhid : N; pl_mtag : N }.
Definition pl_with_id (m : pl_msg) (i : N) : pl_msg := PlMkMsg (pl_mid m) i (pl_mtag m).

Inductive pl_result := PlRMsg (m : pl_msg) | PlRErrCtx | PlRErrClosed | PlRErrEoL | PlRErrWrite.

(* program counter of an exchange; Written and Waiting of the design coincide (no atomic action between
   the return of write and the select) *)
Inductive pl_pc :=
| PlPStart                    (* before addQueueC *)
| PlPAdded                    (* id assigned, queue entry present, query not yet written *)
| PlPWaiting                  (* written; blocked in select *)
| PlPLeaving (r : pl_result)     (* outcome chosen; deferred deleteQueueC pending *)
| PlPEol (r : pl_result)         (* deleteQueueC found eol = true; closeWithErr(EoL) pending *)
| PlPReturned (r : pl_result).

Record pl_thread := PlMkThread {
  pl_cid : N;                  (* caller's id = be16(m[0:2]) *)
  pl_twid : option N;          (* wire id assigned by addQueueC *)
  pl_tpc : pl_pc;
  pl_tchan : option pl_msg;       (* respChan, capacity 1 *)
  pl_tcancel : bool            (* ctx.Done() closed *)
}.

Inductive pl_rloop := PlRIdle | PlRHold (m : pl_msg) | PlRSend (m : pl_msg) (t : N).

Record pl_state := PlMkState {
  pl_istcp : bool;
  pl_nextQid : N;
  pl_reserved : N;
  pl_queue : list (N * N);          (* wire id |-> thread whose respChan is registered *)
  pl_closed : bool;
  pl_threads : list (N * pl_thread);   (* newest first; key = spawn number *)
  pl_nthreads : N;
  pl_rl : pl_rloop;
  pl_emitted : list pl_msg;            (* ghost, newest first *)
  pl_nemit : N;                     (* ghost *)
  pl_alog : list (N * N)            (* ghost, newest first: (thread, wire id) *)
}.

Definition pl_init (tcp : bool) (q0 : N) : pl_state :=
  PlMkState tcp q0 0 [] false [] 0 PlRIdle [] 0 [].

(* field updates *)
Definition pl_set_nextQid v s := PlMkState (pl_istcp s) v (pl_reserved s) (pl_queue s) (pl_closed s) (pl_threads s) (pl_nthreads s) (pl_rl s) (pl_emitted s) (pl_nemit s) (pl_alog s).
Definition pl_set_reserved v s := PlMkState (pl_istcp s) (pl_nextQid s) v (pl_queue s) (pl_closed s) (pl_threads s) (pl_nthreads s) (pl_rl s) (pl_emitted s) (pl_nemit s) (pl_alog s).
Definition pl_set_queue v s := PlMkState (pl_istcp s) (pl_nextQid s) (pl_reserved s) v (pl_closed s) (pl_threads s) (pl_nthreads s) (pl_rl s) (pl_emitted s) (pl_nemit s) (pl_alog s).
Definition pl_set_closed v s := PlMkState (pl_istcp s) (pl_nextQid s) (pl_reserved s) (pl_queue s) v (pl_threads s) (pl_nthreads s) (pl_rl s) (pl_emitted s) (pl_nemit s) (pl_alog s).
Definition pl_set_threads v s := PlMkState (pl_istcp s) (pl_nextQid s) (pl_reserved s) (pl_queue s) (pl_closed s) v (pl_nthreads s) (pl_rl s) (pl_emitted s) (pl_nemit s) (pl_alog s).
Definition pl_set_nthreads v s := PlMkState (pl_istcp s) (pl_nextQid s) (pl_reserved s) (pl_queue s) (pl_closed s) (pl_threads s) v (pl_rl s) (pl_emitted s) (pl_nemit s) (pl_alog s).
Definition pl_set_rl v s := PlMkState (pl_istcp s) (pl_nextQid s) (pl_reserved s) (pl_queue s) (pl_closed s) (pl_threads s) (pl_nthreads s) v (pl_emitted s) (pl_nemit s) (pl_alog s).
Definition pl_set_emitted v n s := PlMkState (pl_istcp s) (pl_nextQid s) (pl_reserved s) (pl_queue s) (pl_closed s) (pl_threads s) (pl_nthreads s) (pl_rl s) v n (pl_alog s).
Definition pl_set_alog v s := PlMkState (pl_istcp s) (pl_nextQid s) (pl_reserved s) (pl_queue s) (pl_closed s) (pl_threads s) (pl_nthreads s) (pl_rl s) (pl_emitted s) (pl_nemit s) v.

Definition pl_tget (s : pl_state) (t : N) : option pl_thread := pl_alookup t (pl_threads s).
Definition pl_tput (t : N) (th : pl_thread) (s : pl_state) : pl_state := pl_set_threads (pl_aupd t th (pl_threads s)) s.

Definition pl_th_pc (p : pl_pc) (th : pl_thread) := PlMkThread (pl_cid th) (pl_twid th) p (pl_tchan th) (pl_tcancel th).
Definition pl_th_wid (w : option N) (th : pl_thread) := PlMkThread (pl_cid th) w (pl_tpc th) (pl_tchan th) (pl_tcancel th).
Definition pl_th_chan (c : option pl_msg) (th : pl_thread) := PlMkThread (pl_cid th) (pl_twid th) (pl_tpc th) c (pl_tcancel th).
Definition pl_th_cancel (b : bool) (th : pl_thread) := PlMkThread (pl_cid th) (pl_twid th) (pl_tpc th) (pl_tchan th) b.

(* connpool.ConnStatus *)
Definition pl_status_closed (s : pl_state) : bool := pl_closed s.
Definition pl_status_available (s : pl_state) : bool := pl_nextQid s + pl_reserved s <=? 65535.

Inductive pl_label :=
| PlLSpawn (c : N)              (* a caller enters exchange with a query whose id is c *)
| PlLCancel (t : N)             (* the caller's context is cancelled / times out *)
| PlLReserve                    (* connpool picked the connection: Reserve() *)
| PlLAdd (t : N)                (* addQueueC *)
| PlLWrite (t : N) (ok : bool)  (* write: net.Conn.Write succeeded / failed *)
| PlLRecv (i tag : N)           (* read loop received a well-formed message with header id i *)
| PlLGarbage                    (* read loop received an undecodable message *)
| PlLLookup                     (* getQueueC(r.Header.ID) *)
| PlLSend                       (* select { case resChan <- r: default: } *)
| PlLTakeReply (t : N)          (* select arm: r := <-respChan *)
| PlLCtxArm (t : N)             (* select arm: <-ctx.Done() *)
| PlLConnArm (t : N)            (* select arm: <-c.ctx.Done() *)
| PlLDelete (t : N)             (* deferred deleteQueueC: critical section *)
| PlLEolClose (t : N)           (* deleteQueueC: closeWithErr(errPipelineConnEoL) *)
| PlLClose.                     (* closeWithErr for any other reason *)

Definition pl_is_nil {A} (l : list A) : bool := match l with [] => true | _ => false end.

Definition pl_step (s : pl_state) (l : pl_label) : option pl_state :=
  match l with
  | PlLSpawn c =>
      Some (pl_set_nthreads (pl_nthreads s + 1)
             (pl_set_threads ((pl_nthreads s, PlMkThread c None PlPStart None false) :: pl_threads s) s))
  | PlLCancel t =>
      match pl_tget s t with
      | Some th => Some (pl_tput t (pl_th_cancel true th) s)
      | None => None
      end
  | PlLReserve =>
      Some (if pl_nextQid s + pl_reserved s <? 65535 then pl_set_reserved (pl_reserved s + 1) s else s)
  | PlLAdd t =>
      match pl_tget s t with
      | Some th =>
          match pl_tpc th with
          | PlPStart =>
              let s1 := if 0 <? pl_reserved s then pl_set_reserved (pl_reserved s - 1) s else s in
              if 65535 <? pl_nextQid s then
                Some (pl_tput t (pl_th_pc (PlPReturned PlRErrEoL) th) s1)
              else
                let q := pl_nextQid s mod 65536 in                    (* qid := uint16(c.nextQid) *)
                Some (pl_tput t (pl_th_pc PlPAdded (pl_th_wid (Some q) th))
                       (pl_set_alog ((t, q) :: pl_alog s)
                         (pl_set_queue (pl_aset q t (pl_queue s))
                           (pl_set_nextQid (pl_nextQid s + 1) s1))))
          | _ => None
          end
      | None => None
      end
  | PlLWrite t ok =>
      match pl_tget s t with
      | Some th =>
          match pl_tpc th with
          | PlPAdded =>
              if ok then (if pl_closed s then None else Some (pl_tput t (pl_th_pc PlPWaiting th) s))
              else Some (pl_tput t (pl_th_pc (PlPLeaving PlRErrWrite) th) s)
          | _ => None
          end
      | None => None
      end
  | PlLRecv i tag =>
      if pl_closed s then None else
      if i <? 65536 then
        match pl_rl s with
        | PlRIdle =>
            let m := PlMkMsg (pl_nemit s) i tag in
            Some (pl_set_rl (PlRHold m) (pl_set_emitted (m :: pl_emitted s) (pl_nemit s + 1) s))
        | _ => None
        end
      else None
  | PlLGarbage =>
      if pl_closed s then None else
      match pl_rl s with
      | PlRIdle => Some (if pl_istcp s then pl_set_closed true s else s)
      | _ => None
      end
  | PlLLookup =>
      match pl_rl s with
      | PlRHold m =>
          Some (pl_set_rl (match pl_alookup (pl_mhid m) (pl_queue s) with Some t => PlRSend m t | None => PlRIdle end) s)
      | _ => None
      end
  | PlLSend =>
      match pl_rl s with
      | PlRSend m t =>
          match pl_tget s t with
          | Some th =>
              Some (pl_set_rl PlRIdle
                     (match pl_tchan th with
                      | None => pl_tput t (pl_th_chan (Some m) th) s
                      | Some _ => s                                 (* default: arm, message dropped *)
                      end))
          | None => None
          end
      | _ => None
      end
  | PlLTakeReply t =>
      match pl_tget s t with
      | Some th =>
          match pl_tpc th, pl_tchan th with
          | PlPWaiting, Some m =>
              Some (pl_tput t (pl_th_pc (PlPLeaving (PlRMsg (pl_with_id m (pl_cid th)))) (pl_th_chan None th)) s)
          | _, _ => None
          end
      | None => None
      end
  | PlLCtxArm t =>
      match pl_tget s t with
      | Some th =>
          match pl_tpc th with
          | PlPWaiting => if pl_tcancel th then Some (pl_tput t (pl_th_pc (PlPLeaving PlRErrCtx) th) s) else None
          | _ => None
          end
      | None => None
      end
  | PlLConnArm t =>
      match pl_tget s t with
      | Some th =>
          match pl_tpc th with
          | PlPWaiting => if pl_closed s then Some (pl_tput t (pl_th_pc (PlPLeaving PlRErrClosed) th) s) else None
          | _ => None
          end
      | None => None
      end
  | PlLDelete t =>
      match pl_tget s t with
      | Some th =>
          match pl_tpc th, pl_twid th with
          | PlPLeaving r, Some w =>
              let q' := pl_aremove w (pl_queue s) in
              let eol := (65535 <? pl_nextQid s) && pl_is_nil q' in
              Some (pl_tput t (pl_th_pc (if eol then PlPEol r else PlPReturned r) th) (pl_set_queue q' s))
          | _, _ => None
          end
      | None => None
      end
  | PlLEolClose t =>
      match pl_tget s t with
      | Some th =>
          match pl_tpc th with
          | PlPEol r => Some (pl_tput t (pl_th_pc (PlPReturned r) th) (pl_set_closed true s))
          | _ => None
          end
      | None => None
      end
  | PlLClose => Some (pl_set_closed true s)
  end.

(* The REJECTED design "a write that failed gives its wire id back" (nextQid-- after a failed write, assuming the id
   was the latest one assigned).  Only used by Props/C05.v to exhibit the schedule on which it reuses an id
   (C05_giveback_refuted). *)
Definition pl_gb_step (s : pl_state) (l : pl_label) : option pl_state :=
  match l, pl_step s l with
  | PlLWrite _ false, Some s' => Some (pl_set_nextQid (pl_nextQid s' - 1) s')
  | _, r => r
  end.

Fixpoint pl_gb_run (ls : list pl_label) (s : pl_state) : option pl_state :=
  match ls with
  | [] => Some s
  | l :: r => match pl_gb_step s l with Some s' => pl_gb_run r s' | None => None end
  end.

Fixpoint pl_run (ls : list pl_label) (s : pl_state) : option pl_state :=
  match ls with
  | [] => Some s
  | l :: r => match pl_step s l with Some s' => pl_run r s' | None => None end
  end.

(* ---------- deterministic big-step for quiescent histories ---------- *)
(* Each external event is followed by running every enabled internal action to completion.  The big step
   only ever moves through [step] ([exec] = take the step when enabled), so it is a schedule of the LTS by
   construction (big_refines_small). *)
Definition pl_exec (s : pl_state) (l : pl_label) : pl_state :=
  match pl_step s l with Some s' => s' | None => s end.

Definition pl_settle (t : N) (s : pl_state) : pl_state :=
  fold_left pl_exec [PlLTakeReply t; PlLCtxArm t; PlLConnArm t; PlLDelete t; PlLEolClose t] s.

Definition pl_settle_all (s : pl_state) : pl_state :=
  fold_left (fun s kt => pl_settle (fst kt) s) (pl_threads s) s.

Inductive pl_event :=
| PlEvStart (c : N)             (* a new exchange (thread number = number of earlier EvStart) *)
| PlEvReplyTo (k tag : N)       (* server emits a message carrying the wire id of exchange k *)
| PlEvEmitId (i tag : N)        (* server emits a message with header id i *)
| PlEvGarbage
| PlEvCancel (k : N)
| PlEvClose
| PlEvStartFail (c : N) (cl : bool) (* a new exchange whose net.Conn.Write FAILS.  cl = false: the connection stays open
                                   (EMSGSIZE for a query of 65508..65535 octets on a datagram socket; any write error on
                                   TCP / DoT); cl = true: write calls closeWithErr (any other error on a datagram socket) *)
| PlEvHold (c : N)              (* a new exchange that is assigned its id and then sits inside net.Conn.Write *)
| PlEvRelease (k : N) (ok cl : bool). (* the pending Write of exchange k returns: success / error (cl as above) *)

Definition pl_do_emit (i tag : N) (s : pl_state) : pl_state :=
  let s1 := pl_exec (pl_exec s (PlLRecv i tag)) PlLLookup in
  let tgt := match pl_rl s1 with PlRSend _ t => Some t | _ => None end in
  let s2 := pl_exec s1 PlLSend in
  match tgt with Some t => pl_settle t s2 | None => s2 end.

(* the wire id under which the SERVER has seen the query of an exchange: none while the exchange is still inside
   write, none when its write failed (or addQueueC refused) *)
Definition pl_seen_wid (th : pl_thread) : option N :=
  match pl_tpc th with
  | PlPStart | PlPAdded => None
  | PlPReturned PlRErrEoL | PlPReturned PlRErrWrite | PlPLeaving PlRErrWrite | PlPEol PlRErrWrite => None
  | _ => pl_twid th
  end.

(* exchange t left with a write error (its Write was attempted and failed) *)
Definition pl_write_failed (s : pl_state) (t : N) : bool :=
  match pl_tget s t with
  | Some th => match pl_tpc th with
               | PlPReturned PlRErrWrite | PlPLeaving PlRErrWrite | PlPEol PlRErrWrite => true
               | _ => false
               end
  | None => false
  end.

(* datagram socket, error other than EMSGSIZE: write itself closes the connection *)
Definition pl_fail_close (cl : bool) (t : N) (s : pl_state) : pl_state :=
  if cl && pl_write_failed s t then pl_settle_all (pl_exec s PlLClose) else s.

Definition pl_big_step (s : pl_state) (e : pl_event) : pl_state :=
  match e with
  | PlEvStart c =>
      let t := pl_nthreads s in
      pl_settle t (fold_left pl_exec [PlLSpawn c; PlLAdd t; PlLWrite t true; PlLWrite t false] s)
  | PlEvReplyTo k tag =>
      match pl_tget s k with
      | Some th => match pl_seen_wid th with Some w => pl_do_emit w tag s | None => s end
      | None => s
      end
  | PlEvEmitId i tag => pl_do_emit i tag s
  | PlEvGarbage => pl_settle_all (pl_exec s PlLGarbage)
  | PlEvCancel k => pl_settle k (pl_exec s (PlLCancel k))
  | PlEvClose => pl_settle_all (pl_exec s PlLClose)
  | PlEvStartFail c cl =>
      let t := pl_nthreads s in
      pl_fail_close cl t (pl_settle t (fold_left pl_exec [PlLSpawn c; PlLAdd t; PlLWrite t false] s))
  | PlEvHold c =>
      let t := pl_nthreads s in
      if pl_closed s then      (* the pool never hands out a closed connection: the call fails at once *)
        pl_settle t (fold_left pl_exec [PlLSpawn c; PlLAdd t; PlLWrite t false] s)
      else pl_settle t (fold_left pl_exec [PlLSpawn c; PlLAdd t] s)
  | PlEvRelease k ok cl =>
      pl_fail_close cl k
        (pl_settle k (fold_left pl_exec (if ok then [PlLWrite k true; PlLWrite k false] else [PlLWrite k false]) s))
  end.

Definition pl_run_history (tcp : bool) (q0 : N) (evs : list pl_event) : pl_state :=
  fold_left pl_big_step evs (pl_init tcp q0).

(* observable per exchange, oldest first: (result or still-waiting, wire id the server saw) *)
Inductive pl_outcome := PlOMsg (tag : N) (idok : bool) | PlOErr | PlOWait.

Definition pl_outcome_of (th : pl_thread) : pl_outcome * option N :=
  match pl_tpc th with
  | PlPReturned (PlRMsg m) | PlPLeaving (PlRMsg m) | PlPEol (PlRMsg m) => (PlOMsg (pl_mtag m) (pl_mhid m =? pl_cid th), pl_twid th)
  | PlPReturned PlRErrEoL | PlPReturned PlRErrWrite | PlPLeaving PlRErrWrite | PlPEol PlRErrWrite => (PlOErr, None)
  | PlPReturned _ | PlPLeaving _ | PlPEol _ => (PlOErr, pl_twid th)
  | PlPWaiting => (PlOWait, pl_twid th)
  | PlPStart | PlPAdded => (PlOWait, None)
  end.

Definition pl_outcomes (s : pl_state) : list (pl_outcome * option N) :=
  rev_append (map (fun kt => pl_outcome_of (snd kt)) (pl_threads s)) [].

Definition pl_history_outcomes (tcp : bool) (q0 : N) (evs : list pl_event) : list (pl_outcome * option N) * bool :=
  let s := pl_run_history tcp q0 evs in (pl_outcomes s, pl_closed s).

(* ---------- both select arms ready (kind pipeline_arms) ----------
   After the history [evs]: a new exchange writes its query, its Write returns LATE (it is written — pc Waiting — but
   has not run its select), the server's reply with its wire id is delivered into its channel, the connection is
   closed, and only then the exchange runs its select: the reply arm AND the connection arm are enabled.
   conn_first chooses the arm (Go picks at random).  Every step is pl_exec, so this is a schedule of the LTS. *)
Definition pl_settle_conn_first (t : N) (s : pl_state) : pl_state :=
  fold_left pl_exec [PlLConnArm t; PlLCtxArm t; PlLTakeReply t; PlLDelete t; PlLEolClose t] s.

Definition pl_both_arms (c tag : N) (conn_first : bool) (s : pl_state) : pl_state :=
  let t := pl_nthreads s in
  let s1 := fold_left pl_exec [PlLSpawn c; PlLAdd t; PlLWrite t true; PlLWrite t false] s in
  let s2 := match pl_tget s1 t with
            | Some th => match pl_seen_wid th with
                         | Some w => fold_left pl_exec [PlLRecv w tag; PlLLookup; PlLSend] s1
                         | None => s1
                         end
            | None => s1
            end in
  let s3 := pl_exec s2 PlLClose in
  pl_settle_all ((if conn_first then pl_settle_conn_first t else pl_settle t) s3).

Definition pl_arms_outcomes (tcp : bool) (q0 : N) (evs : list pl_event) (c tag : N) (conn_first : bool)
  : list (pl_outcome * option N) * bool :=
  let s := pl_both_arms c tag conn_first (pl_run_history tcp q0 evs) in (pl_outcomes s, pl_closed s).

(* The REJECTED variant "the connection arm looks into the channel and returns a reply that made it just before the
   close" WITHOUT restoring the id (the restore lives in the reply arm only).  Only for C05_conn_arm_reply_refuted. *)
Definition pl_ca_step (s : pl_state) (l : pl_label) : option pl_state :=
  match l with
  | PlLConnArm t =>
      match pl_tget s t with
      | Some th =>
          match pl_tpc th, pl_tchan th with
          | PlPWaiting, Some m =>
              if pl_closed s then Some (pl_tput t (pl_th_pc (PlPLeaving (PlRMsg m)) (pl_th_chan None th)) s) else None
          | _, _ => pl_step s l
          end
      | None => None
      end
  | _ => pl_step s l
  end.

Fixpoint pl_ca_run (ls : list pl_label) (s : pl_state) : option pl_state :=
  match ls with
  | [] => Some s
  | l :: r => match pl_ca_step s l with Some s' => pl_ca_run r s' | None => None end
  end.

(* ---------- executable oracle of the property on an observed run (used by the checks) ----------
   obs: per exchange (wire id the server saw for it, returned tag or none);  sent: (wire id, tag) the server
   emitted.  Holds iff every returned tag was emitted for the exchange's own wire id and no tag is returned
   twice (tags are unique per emitted instance in the harness). *)
Fixpoint pl_mem_pair (w t : N) (l : list (N * N)) : bool :=
  match l with [] => false | (a, b) :: r => ((a =? w) && (b =? t)) || pl_mem_pair w t r end.
Fixpoint pl_memN (x : N) (l : list N) : bool :=
  match l with [] => false | a :: r => (a =? x) || pl_memN x r end.

Fixpoint pl_oracle_go (obs : list (option N * option N)) (sent : list (N * N)) (seen : list N) : bool :=
  match obs with
  | [] => true
  | (_, None) :: r => pl_oracle_go r sent seen
  | (None, Some _) :: _ => false
  | (Some w, Some t) :: r => pl_mem_pair w t sent && negb (pl_memN t seen) && pl_oracle_go r sent (t :: seen)
  end.
Definition pl_oracle (obs : list (option N * option N)) (sent : list (N * N)) : bool := pl_oracle_go obs sent [].
