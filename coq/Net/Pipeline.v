(* Net/Pipeline.v — model of ONE pipelined upstream connection
   (internal/upstream/transport/pipeline_conn.go: pipelineConn) with any number of exchange threads.

   Small-step LTS whose labelled steps are the ATOMIC ACTIONS of the Go code:

     exchange(ctx, m):                                   readLoop():
       respChan := make(chan *Msg, 1)                       for {
       qid, err := c.addQueueC(respChan)   -- LAdd            r := read one message   -- LRecv / LGarbage
       if err != nil { return err }                           ch := c.getQueueC(r.ID) -- LLookup (RLock'd map read)
       defer c.deleteQueueC(qid)           -- LDelete         if ch != nil {
       err = c.write(m, qid)               -- LWrite            select { case ch <- r: default: drop } -- LSend
       if err != nil { return err }                           } else { drop }
       select {                                             }
       case <-ctx.Done():   return Cause   -- LCtxArm
       case <-c.ctx.Done(): return Cause   -- LConnArm     deleteQueueC(qid): lock; delete(queue,qid);
       case r := <-respChan:                                   eol := nextQid>65535 && len(queue)==0; unlock
         r.Header.ID = be16(m); return r   -- LTakeReply      if eol { closeWithErr(EoL) }   -- LEolClose
       }

   The response channel belongs to the exchange (it is created by it and is only reachable through the
   queue entry or through a reference the read loop already fetched), so the model keeps the one-slot
   channel content inside the thread record and the waiter table maps  wire id |-> thread.
   The read loop may hold a fetched channel reference across a deleteQueueC (RSend m t), exactly as in Go.

   Environment (arbitrary, any time): new exchanges (LSpawn), context cancellation (LCancel), pool
   reservation (LReserve), write failure (LWrite t false), the server / network: ANY message with ANY
   16-bit id (LRecv id tag: out-of-order, duplicate, unsolicited, late; "never" = no step), undecodable
   bytes (LGarbage: aborts a TCP connection, is skipped on UDP), close for any reason (LClose: peer
   close, idle time-out, read error, pool eviction, transport Close).

   Coarsening, stated in docs/notes/C05.md: closeWithErr (flag under lock; cancelCause; net.Conn.Close)
   is ONE step that sets [closed]; [closed] stands for both the flag and c.ctx.Done().

   Ghost state (never read by a step's guard or by the non-ghost part of its effect):
     emitted/nemit — every message the read loop received, each with a unique instance number [mid];
     alog          — (thread, wire id) in order of assignment, newest first.

   No proofs in this file (Net/PipelineProofs.v). *)
From Mos Require Import Base.Prelude.
Local Open Scope N_scope.

(* ---------- association lists (Go maps; thread table) ---------- *)
Fixpoint alookup {A} (k : N) (l : list (N * A)) : option A :=
  match l with
  | [] => None
  | (k', v) :: r => if k =? k' then Some v else alookup k r
  end.

Fixpoint aremove {A} (k : N) (l : list (N * A)) : list (N * A) :=
  match l with
  | [] => []
  | (k', v) :: r => if k =? k' then aremove k r else (k', v) :: aremove k r
  end.

(* m[k] = v *)
Definition aset {A} (k : N) (v : A) (l : list (N * A)) : list (N * A) := (k, v) :: aremove k l.

(* replace the value of an existing key in place (first match; keys of the thread table are unique) *)
Fixpoint aupd {A} (k : N) (v : A) (l : list (N * A)) : list (N * A) :=
  match l with
  | [] => []
  | (k', v') :: r => if k =? k' then (k', v) :: r else (k', v') :: aupd k v r
  end.

(* ---------- data ---------- *)
(* a DNS message as far as C05 is concerned: ghost instance number, header id, payload tag *)
Record pmsg := mkPmsg { mid : N; mhid : N; mtag : N }.
Definition with_id (m : pmsg) (i : N) : pmsg := mkPmsg (mid m) i (mtag m).

Inductive presult := RMsg (m : pmsg) | RErrCtx | RErrClosed | RErrEoL | RErrWrite.

(* program counter of an exchange; Written and Waiting of the design coincide (no atomic action between
   the return of write and the select) *)
Inductive xpc :=
| PStart                    (* before addQueueC *)
| PAdded                    (* id assigned, queue entry present, query not yet written *)
| PWaiting                  (* written; blocked in select *)
| PLeaving (r : presult)     (* outcome chosen; deferred deleteQueueC pending *)
| PEol (r : presult)         (* deleteQueueC found eol = true; closeWithErr(EoL) pending *)
| PReturned (r : presult).

Record pthread := mkPthread {
  cid : N;                  (* caller's id = be16(m[0:2]) *)
  twid : option N;          (* wire id assigned by addQueueC *)
  tpc : xpc;
  tchan : option pmsg;       (* respChan, capacity 1 *)
  tcancel : bool            (* ctx.Done() closed *)
}.

Inductive rloop := RIdle | RHold (m : pmsg) | RSend (m : pmsg) (t : N).

Record pstate := mkPstate {
  istcp : bool;
  nextQid : N;
  reserved : N;
  queue : list (N * N);          (* wire id |-> thread whose respChan is registered *)
  closed : bool;
  threads : list (N * pthread);   (* newest first; key = spawn number *)
  nthreads : N;
  rl : rloop;
  emitted : list pmsg;            (* ghost, newest first *)
  nemit : N;                     (* ghost *)
  alog : list (N * N)            (* ghost, newest first: (thread, wire id) *)
}.

Definition pinit (tcp : bool) (q0 : N) : pstate :=
  mkPstate tcp q0 0 [] false [] 0 RIdle [] 0 [].

(* field updates *)
Definition set_nextQid v s := mkPstate (istcp s) v (reserved s) (queue s) (closed s) (threads s) (nthreads s) (rl s) (emitted s) (nemit s) (alog s).
Definition set_reserved v s := mkPstate (istcp s) (nextQid s) v (queue s) (closed s) (threads s) (nthreads s) (rl s) (emitted s) (nemit s) (alog s).
Definition set_queue v s := mkPstate (istcp s) (nextQid s) (reserved s) v (closed s) (threads s) (nthreads s) (rl s) (emitted s) (nemit s) (alog s).
Definition set_closed v s := mkPstate (istcp s) (nextQid s) (reserved s) (queue s) v (threads s) (nthreads s) (rl s) (emitted s) (nemit s) (alog s).
Definition set_threads v s := mkPstate (istcp s) (nextQid s) (reserved s) (queue s) (closed s) v (nthreads s) (rl s) (emitted s) (nemit s) (alog s).
Definition set_nthreads v s := mkPstate (istcp s) (nextQid s) (reserved s) (queue s) (closed s) (threads s) v (rl s) (emitted s) (nemit s) (alog s).
Definition set_rl v s := mkPstate (istcp s) (nextQid s) (reserved s) (queue s) (closed s) (threads s) (nthreads s) v (emitted s) (nemit s) (alog s).
Definition set_emitted v n s := mkPstate (istcp s) (nextQid s) (reserved s) (queue s) (closed s) (threads s) (nthreads s) (rl s) v n (alog s).
Definition set_alog v s := mkPstate (istcp s) (nextQid s) (reserved s) (queue s) (closed s) (threads s) (nthreads s) (rl s) (emitted s) (nemit s) v.

Definition tget (s : pstate) (t : N) : option pthread := alookup t (threads s).
Definition tput (t : N) (th : pthread) (s : pstate) : pstate := set_threads (aupd t th (threads s)) s.

Definition th_pc (p : xpc) (th : pthread) := mkPthread (cid th) (twid th) p (tchan th) (tcancel th).
Definition th_wid (w : option N) (th : pthread) := mkPthread (cid th) w (tpc th) (tchan th) (tcancel th).
Definition th_chan (c : option pmsg) (th : pthread) := mkPthread (cid th) (twid th) (tpc th) c (tcancel th).
Definition th_cancel (b : bool) (th : pthread) := mkPthread (cid th) (twid th) (tpc th) (tchan th) b.

(* connpool.ConnStatus *)
Definition status_closed (s : pstate) : bool := closed s.
Definition status_available (s : pstate) : bool := nextQid s + reserved s <=? 65535.

Inductive plabel :=
| LSpawn (c : N)              (* a caller enters exchange with a query whose id is c *)
| LCancel (t : N)             (* the caller's context is cancelled / times out *)
| LReserve                    (* connpool picked the connection: Reserve() *)
| LAdd (t : N)                (* addQueueC *)
| LWrite (t : N) (ok : bool)  (* write: net.Conn.Write succeeded / failed *)
| LRecv (i tag : N)           (* read loop received a well-formed message with header id i *)
| LGarbage                    (* read loop received an undecodable message *)
| LLookup                     (* getQueueC(r.Header.ID) *)
| LSend                       (* select { case resChan <- r: default: } *)
| LTakeReply (t : N)          (* select arm: r := <-respChan *)
| LCtxArm (t : N)             (* select arm: <-ctx.Done() *)
| LConnArm (t : N)            (* select arm: <-c.ctx.Done() *)
| LDelete (t : N)             (* deferred deleteQueueC: critical section *)
| LEolClose (t : N)           (* deleteQueueC: closeWithErr(errPipelineConnEoL) *)
| LClose.                     (* closeWithErr for any other reason *)

Definition is_nil {A} (l : list A) : bool := match l with [] => true | _ => false end.

Definition pstep (s : pstate) (l : plabel) : option pstate :=
  match l with
  | LSpawn c =>
      Some (set_nthreads (nthreads s + 1)
             (set_threads ((nthreads s, mkPthread c None PStart None false) :: threads s) s))
  | LCancel t =>
      match tget s t with
      | Some th => Some (tput t (th_cancel true th) s)
      | None => None
      end
  | LReserve =>
      Some (if nextQid s + reserved s <? 65535 then set_reserved (reserved s + 1) s else s)
  | LAdd t =>
      match tget s t with
      | Some th =>
          match tpc th with
          | PStart =>
              let s1 := if 0 <? reserved s then set_reserved (reserved s - 1) s else s in
              if 65535 <? nextQid s then
                Some (tput t (th_pc (PReturned RErrEoL) th) s1)
              else
                let q := nextQid s mod 65536 in                    (* qid := uint16(c.nextQid) *)
                Some (tput t (th_pc PAdded (th_wid (Some q) th))
                       (set_alog ((t, q) :: alog s)
                         (set_queue (aset q t (queue s))
                           (set_nextQid (nextQid s + 1) s1))))
          | _ => None
          end
      | None => None
      end
  | LWrite t ok =>
      match tget s t with
      | Some th =>
          match tpc th with
          | PAdded =>
              if ok then (if closed s then None else Some (tput t (th_pc PWaiting th) s))
              else Some (tput t (th_pc (PLeaving RErrWrite) th) s)
          | _ => None
          end
      | None => None
      end
  | LRecv i tag =>
      if closed s then None else
      if i <? 65536 then
        match rl s with
        | RIdle =>
            let m := mkPmsg (nemit s) i tag in
            Some (set_rl (RHold m) (set_emitted (m :: emitted s) (nemit s + 1) s))
        | _ => None
        end
      else None
  | LGarbage =>
      if closed s then None else
      match rl s with
      | RIdle => Some (if istcp s then set_closed true s else s)
      | _ => None
      end
  | LLookup =>
      match rl s with
      | RHold m =>
          Some (set_rl (match alookup (mhid m) (queue s) with Some t => RSend m t | None => RIdle end) s)
      | _ => None
      end
  | LSend =>
      match rl s with
      | RSend m t =>
          match tget s t with
          | Some th =>
              Some (set_rl RIdle
                     (match tchan th with
                      | None => tput t (th_chan (Some m) th) s
                      | Some _ => s                                 (* default: arm, message dropped *)
                      end))
          | None => None
          end
      | _ => None
      end
  | LTakeReply t =>
      match tget s t with
      | Some th =>
          match tpc th, tchan th with
          | PWaiting, Some m =>
              Some (tput t (th_pc (PLeaving (RMsg (with_id m (cid th)))) (th_chan None th)) s)
          | _, _ => None
          end
      | None => None
      end
  | LCtxArm t =>
      match tget s t with
      | Some th =>
          match tpc th with
          | PWaiting => if tcancel th then Some (tput t (th_pc (PLeaving RErrCtx) th) s) else None
          | _ => None
          end
      | None => None
      end
  | LConnArm t =>
      match tget s t with
      | Some th =>
          match tpc th with
          | PWaiting => if closed s then Some (tput t (th_pc (PLeaving RErrClosed) th) s) else None
          | _ => None
          end
      | None => None
      end
  | LDelete t =>
      match tget s t with
      | Some th =>
          match tpc th, twid th with
          | PLeaving r, Some w =>
              let q' := aremove w (queue s) in
              let eol := (65535 <? nextQid s) && is_nil q' in
              Some (tput t (th_pc (if eol then PEol r else PReturned r) th) (set_queue q' s))
          | _, _ => None
          end
      | None => None
      end
  | LEolClose t =>
      match tget s t with
      | Some th =>
          match tpc th with
          | PEol r => Some (tput t (th_pc (PReturned r) th) (set_closed true s))
          | _ => None
          end
      | None => None
      end
  | LClose => Some (set_closed true s)
  end.

Fixpoint run (ls : list plabel) (s : pstate) : option pstate :=
  match ls with
  | [] => Some s
  | l :: r => match pstep s l with Some s' => run r s' | None => None end
  end.

(* ---------- deterministic big-step for quiescent histories ---------- *)
(* Each external event is followed by running every enabled internal action to completion.  The big step
   only ever moves through [step] ([exec] = take the step when enabled), so it is a schedule of the LTS by
   construction (big_refines_small). *)
Definition pexec (s : pstate) (l : plabel) : pstate :=
  match pstep s l with Some s' => s' | None => s end.

Definition settle (t : N) (s : pstate) : pstate :=
  fold_left pexec [LTakeReply t; LCtxArm t; LConnArm t; LDelete t; LEolClose t] s.

Definition settle_all (s : pstate) : pstate :=
  fold_left (fun s kt => settle (fst kt) s) (threads s) s.

Inductive pevent :=
| EvStart (c : N)             (* a new exchange (thread number = number of earlier EvStart) *)
| EvReplyTo (k tag : N)       (* server emits a message carrying the wire id of exchange k *)
| EvEmitId (i tag : N)        (* server emits a message with header id i *)
| EvGarbage
| EvCancel (k : N)
| EvClose.

Definition do_emit (i tag : N) (s : pstate) : pstate :=
  let s1 := pexec (pexec s (LRecv i tag)) LLookup in
  let tgt := match rl s1 with RSend _ t => Some t | _ => None end in
  let s2 := pexec s1 LSend in
  match tgt with Some t => settle t s2 | None => s2 end.

Definition big_step (s : pstate) (e : pevent) : pstate :=
  match e with
  | EvStart c =>
      let t := nthreads s in
      settle t (fold_left pexec [LSpawn c; LAdd t; LWrite t true; LWrite t false] s)
  | EvReplyTo k tag =>
      match tget s k with
      | Some th => match twid th with Some w => do_emit w tag s | None => s end
      | None => s
      end
  | EvEmitId i tag => do_emit i tag s
  | EvGarbage => settle_all (pexec s LGarbage)
  | EvCancel k => settle k (pexec s (LCancel k))
  | EvClose => settle_all (pexec s LClose)
  end.

Definition run_history (tcp : bool) (q0 : N) (evs : list pevent) : pstate :=
  fold_left big_step evs (pinit tcp q0).

(* observable per exchange, oldest first: (result or still-waiting, wire id the server saw) *)
Inductive poutcome := OMsg (tag : N) (idok : bool) | OErr | OWait.

Definition outcome_of (th : pthread) : poutcome * option N :=
  match tpc th with
  | PReturned (RMsg m) | PLeaving (RMsg m) | PEol (RMsg m) => (OMsg (mtag m) (mhid m =? cid th), twid th)
  | PReturned RErrEoL | PReturned RErrWrite | PLeaving RErrWrite | PEol RErrWrite => (OErr, None)
  | PReturned _ | PLeaving _ | PEol _ => (OErr, twid th)
  | PWaiting => (OWait, twid th)
  | PStart | PAdded => (OWait, None)
  end.

Definition outcomes (s : pstate) : list (poutcome * option N) :=
  rev_append (map (fun kt => outcome_of (snd kt)) (threads s)) [].

Definition history_outcomes (tcp : bool) (q0 : N) (evs : list pevent) : list (poutcome * option N) * bool :=
  let s := run_history tcp q0 evs in (outcomes s, closed s).

(* ---------- executable oracle of the property on an observed run (used by the checks) ----------
   obs: per exchange (wire id the server saw for it, returned tag or none);  sent: (wire id, tag) the server
   emitted.  Holds iff every returned tag was emitted for the exchange's own wire id and no tag is returned
   twice (tags are unique per emitted instance in the harness). *)
Fixpoint mem_pair (w t : N) (l : list (N * N)) : bool :=
  match l with [] => false | (a, b) :: r => ((a =? w) && (b =? t)) || mem_pair w t r end.
Fixpoint memN (x : N) (l : list N) : bool :=
  match l with [] => false | a :: r => (a =? x) || memN x r end.

Fixpoint pl_oracle_go (obs : list (option N * option N)) (sent : list (N * N)) (seen : list N) : bool :=
  match obs with
  | [] => true
  | (_, None) :: r => pl_oracle_go r sent seen
  | (None, Some _) :: _ => false
  | (Some w, Some t) :: r => mem_pair w t sent && negb (memN t seen) && pl_oracle_go r sent (t :: seen)
  end.
Definition pl_oracle (obs : list (option N * option N)) (sent : list (N * N)) : bool := pl_oracle_go obs sent [].
