(* Net/Streams.v — the stream capacity of ONE multiplexed connection (QUIC; HTTP/2) across exchanges (C14, round 4).

   quic_transport.go exchangeStream:  a worker goroutine writes the query, sends FIN and blocks in ReadMsgFromTCP(stream)
   (no read deadline); the caller selects on ctx.Done() and on the worker's result.  On ctx.Done() the caller calls
   stream.CancelRead + stream.CancelWrite: CancelRead is what unblocks the worker's read and tells the peer that the
   stream is finished on this side too.  The peer (quic-go: MaxIncomingStreams; HTTP/2: MAX_CONCURRENT_STREAMS) counts
   a stream against its limit until BOTH directions are finished and only then hands out new stream credit; OpenStream
   fails ("too many open streams") while the limit is reached.  The cached connection stays alive (keep-alive), so the
   count is carried from one exchange to the next for the life of the process.

   [cancels] = "the ctx.Done() branch cancels the read side".  The code is [true]; [false] is the refuted variant.
   No proofs in this file. *)
From Mos Require Import Base.Prelude.

Record sc_conn := mkSc { sc_cap : nat;       (* concurrent streams the peer allows *)
                         sc_open : nat }.    (* streams the peer still counts *)

Inductive sc_ev :=
| ScGood        (* the server answers: both directions finish, the stream is released *)
| ScAbandon.    (* lying length prefix / silence: the exchange ends at its deadline with the worker inside the read *)

(* one exchange: (reply?, connection afterwards) *)
Definition sc_exchange (cancels : bool) (c : sc_conn) (e : sc_ev) : bool * sc_conn :=
  if sc_open c <? sc_cap c then
    match e with
    | ScGood => (true, c)
    | ScAbandon => (false, if cancels then c else mkSc (sc_cap c) (S (sc_open c)))
    end
  else (false, c).   (* OpenStream fails; the connection is alive, so it is not replaced *)

Fixpoint sc_run (cancels : bool) (c : sc_conn) (es : list sc_ev) : list bool * sc_conn :=
  match es with
  | [] => ([], c)
  | e :: r => let x := sc_exchange cancels c e in
              let y := sc_run cancels (snd x) r in (fst x :: fst y, snd y)
  end.

(* the harness scenario: 2 good, k abandoned, n good *)
Definition sc_case (cancels : bool) (cap k n : nat) : list bool * list bool :=
  let r := fst (sc_run cancels (mkSc cap 0) (repeat ScGood 2 ++ repeat ScAbandon k ++ repeat ScGood n)) in
  (firstn k (skipn 2 r), skipn (2 + k) r).

(* =====================================================================================================================
   Round 6 — the release of the stream credit as an explicit step on EVERY exit of exchangeStream.

   A bidirectional stream counts against the peer's limit until BOTH directions are finished.  The client's send side
   is always finished by exchangeStream (stream.Close() = FIN after the query; CancelWrite on the ctx / write-error
   paths).  The direction server -> client is finished when
     - the server finishes it by itself: FIN (with the reply or later) or RESET_STREAM, or
     - the client aborts its receive side: stream.CancelRead = STOP_SENDING, which the server's QUIC stack answers with
       RESET_STREAM - whatever the server application does.
   exchangeStream has three exits, and the code calls CancelRead on each of them:
       reply read   : worker goroutine, after ReadMsgFromTCP returned a message
       read error   : worker goroutine, after ReadMsgFromTCP failed (reset, short / undecodable frame)
       ctx done     : the caller's select arm (the worker is still inside the read)
   [sc_policy] says on which exits the receive side is aborted; the code is [sc_code].

   What the server does with ITS side of a stream:  *)
Inductive sc_srv :=
| SvFin          (* complete reply, FIN with it *)
| SvNoFin        (* complete reply, the send side is left open for ever *)
| SvLateFin      (* complete reply, FIN some time later (after the exchanges that follow immediately) *)
| SvResetAfter   (* complete reply, RESET_STREAM some time later *)
| SvResetNow     (* RESET_STREAM instead of a reply: read error *)
| SvShort        (* a frame that ends early, then FIN: read error *)
| SvLie          (* lying length prefix, stream left open: the exchange ends at its deadline *)
| SvSilent.      (* nothing at all: the exchange ends at its deadline *)

Inductive sc_exit := ScxReply | ScxReadErr | ScxCtx.

Definition sc_exit_of (v : sc_srv) : sc_exit :=
  match v with
  | SvFin | SvNoFin | SvLateFin | SvResetAfter => ScxReply
  | SvResetNow | SvShort => ScxReadErr
  | SvLie | SvSilent => ScxCtx
  end.

(* when does the server finish its side without being asked? *)
Inductive sc_when := WNow | WLater | WNever.
Definition sc_server_finishes (v : sc_srv) : sc_when :=
  match v with
  | SvFin | SvResetNow | SvShort => WNow
  | SvLateFin | SvResetAfter => WLater
  | SvNoFin | SvLie | SvSilent => WNever
  end.

Record sc_policy := mkPol { pol_reply : bool; pol_err : bool; pol_ctx : bool }.
Definition sc_code : sc_policy := mkPol true true true.
Definition sc_only_on_error : sc_policy := mkPol false true true.     (* CancelRead only when the read failed *)
Definition sc_not_on_ctx : sc_policy := mkPol true true false.         (* the ctx arm leaves the read side alone *)

Definition sc_cancels (p : sc_policy) (x : sc_exit) : bool :=
  match x with ScxReply => pol_reply p | ScxReadErr => pol_err p | ScxCtx => pol_ctx p end.

(* the peer's account: streams it counts for ever / until some time has passed *)
Record sc_acct := mkAcct { sa_cap : nat; sa_stuck : nat; sa_pending : nat }.

Definition sc_used (a : sc_acct) : nat := sa_stuck a + sa_pending a.

(* THE RELEASE STEP: what the exit of one exchange leaves in the peer's account *)
Definition sc_release (p : sc_policy) (v : sc_srv) (a : sc_acct) : sc_acct :=
  if sc_cancels p (sc_exit_of v) then a                 (* STOP_SENDING: the server's stack resets, the credit returns *)
  else match sc_server_finishes v with
       | WNow => a
       | WLater => mkAcct (sa_cap a) (sa_stuck a) (S (sa_pending a))
       | WNever => mkAcct (sa_cap a) (S (sa_stuck a)) (sa_pending a)
       end.

Inductive sc_step2 :=
| Sx (v : sc_srv)    (* one exchange against a server behaving v *)
| SQuiet.            (* time passes: late FINs / resets arrive *)

(* one exchange: OpenStream fails when the peer's limit is used up (and the live connection is not replaced: all
   attempts of exchangePayload meet it); otherwise the outcome is the exit, then the release step *)
Definition sc_do (p : sc_policy) (a : sc_acct) (s : sc_step2) : option bool * sc_acct :=
  match s with
  | SQuiet => (None, mkAcct (sa_cap a) (sa_stuck a) 0)
  | Sx v =>
      if sc_used a <? sa_cap a
      then (Some (match sc_exit_of v with ScxReply => true | _ => false end), sc_release p v a)
      else (Some false, a)
  end.

Fixpoint sc_run2 (p : sc_policy) (a : sc_acct) (ss : list sc_step2) : list (option bool) * sc_acct :=
  match ss with
  | [] => ([], a)
  | s :: r => let x := sc_do p a s in
              let y := sc_run2 p (snd x) r in (fst x :: fst y, snd y)
  end.

(* the harness scenario (kind "streams"): 2 answered, k abandoned, a pause, n answered, a pause; the outcomes of the
   exchanges and the streams the server still counts at the end *)
Definition sc_case2 (p : sc_policy) (cap : nat) (answered abandoned : sc_srv) (k n : nat)
  : list bool * list bool * nat :=
  let steps := repeat (Sx answered) 2 ++ repeat (Sx abandoned) k ++ (match k with 0 => [] | _ => [SQuiet] end) ++
               repeat (Sx answered) n ++ [SQuiet] in
  let r := sc_run2 p (mkAcct cap 0 0) steps in
  let outs := flat_map (fun o => match o with Some b => [b] | None => [] end) (fst r) in
  (firstn k (skipn 2 outs), skipn (2 + k) outs, sc_used (snd r)).

(* =====================================================================================================================
   Round 9 — opening a stream when the peer's limit is used up.
   quic_transport.go exchangeConn: c.OpenStream() does not wait: without credit it fails at once ("too many open
   streams") and exchangePayload's retries fail the same way, so the exchange returns immediately.  A variant that
   WAITS for credit (OpenStreamSync) sits before the select on the caller's context, so what bounds the wait is the
   context it is given: the caller's (deadline [dl]) or the transport's (cancelled only by Close).
   [free_at] = when the peer hands out the next credit (None = never); time in any unit. *)
Inductive so_mode := SoNoWait | SoWaitCaller | SoWaitTransport.

(* when the open attempt returns; None = never *)
Definition so_returns (md : so_mode) (dl : nat) (free_at : option nat) : option nat :=
  match md with
  | SoNoWait => Some 0
  | SoWaitCaller => Some (match free_at with Some f => Nat.min f dl | None => dl end)
  | SoWaitTransport => free_at
  end.

Definition so_within (md : so_mode) (dl slack : nat) (free_at : option nat) : bool :=
  match so_returns md dl free_at with Some t => t <=? dl + slack | None => false end.
