(* Net/Streams.v — the stream capacity of ONE multiplexed connection (QUIC; HTTP/2) across exchanges (C14, round 4).

   quic_transport.go exchangeStream:  a worker goroutine writes the query, sends FIN and blocks in ReadMsgFromTCP(stream)
   (no read deadline); the caller selects on ctx.Done() and on the worker's result.  On ctx.Done() the caller calls
   stream.CancelRead + stream.CancelWrite: CancelRead is what unblocks the worker's read and tells the peer that the
   stream is finished on this side too.  The peer (quic-go: MaxIncomingStreams; HTTP/2: MAX_CONCURRENT_STREAMS) counts
   a stream against its limit until BOTH directions are finished and only then hands out new stream credit; OpenStream
   fails ("too many open streams") while the limit is reached.  The cached connection stays alive (keep-alive), so the
   count is carried from one exchange to the next for the life of the process.

   [cancels] = "the ctx.Done() branch cancels the read side".  The code is [true]; [false] is the refuted variant.
   No proofs in this file. *)
From Mos Require Import Base.Prelude.

Record sc_conn := mkSc { sc_cap : nat;       (* concurrent streams the peer allows *)
                         sc_open : nat }.    (* streams the peer still counts *)

Inductive sc_ev :=
| ScGood        (* the server answers: both directions finish, the stream is released *)
| ScAbandon.    (* lying length prefix / silence: the exchange ends at its deadline with the worker inside the read *)

(* one exchange: (reply?, connection afterwards) *)
Definition sc_exchange (cancels : bool) (c : sc_conn) (e : sc_ev) : bool * sc_conn :=
  if sc_open c <? sc_cap c then
    match e with
    | ScGood => (true, c)
    | ScAbandon => (false, if cancels then c else mkSc (sc_cap c) (S (sc_open c)))
    end
  else (false, c).   (* OpenStream fails; the connection is alive, so it is not replaced *)

Fixpoint sc_run (cancels : bool) (c : sc_conn) (es : list sc_ev) : list bool * sc_conn :=
  match es with
  | [] => ([], c)
  | e :: r => let x := sc_exchange cancels c e in
              let y := sc_run cancels (snd x) r in (fst x :: fst y, snd y)
  end.

(* the harness scenario: 2 good, k abandoned, n good *)
Definition sc_case (cancels : bool) (cap k n : nat) : list bool * list bool :=
  let r := fst (sc_run cancels (mkSc cap 0) (repeat ScGood 2 ++ repeat ScAbandon k ++ repeat ScGood n)) in
  (firstn k (skipn 2 r), skipn (2 + k) r).
