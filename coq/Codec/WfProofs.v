(* Codec/WfProofs.v — well-formedness of messages; every message the decoder accepts is well-formed. *)
From Mos Require Import Base.Prelude Codec.Name Codec.Msg Codec.NameProofs Codec.SafetyProofs.
From Coq Require Import ZifyN ZifyNat ZifyBool.

Definition u16 (v : N) : Prop := (v < 65536)%N.
Definition u32 (v : N) : Prop := (v < 4294967296)%N.

Definition wf_header (h : header) : Prop := u16 (h_id h) /\ (h_opcode h < 16)%N /\ (h_rcode h < 16)%N.
Definition wf_question (q : question) : Prop := wf_name (q_name q) /\ u16 (q_type q) /\ u16 (q_class q).

Definition wf_rdata (typ : N) (d : rdata) : Prop :=
  match kind_of_type typ, d with
  | KA, RA a => length a = 4 /\ bytes a
  | KAAAA, RAAAA a => length a = 16 /\ bytes a
  | KName, RName n => wf_name n
  | KSOA, RSOA ns mb a b c d e => wf_name ns /\ wf_name mb /\ u32 a /\ u32 b /\ u32 c /\ u32 d /\ u32 e
  | KMX, RMX p mx => u16 p /\ wf_name mx
  | KSRV, RSRV a b c t => u16 a /\ u16 b /\ u16 c /\ wf_name t
  | KRaw, RRaw dd => bytes dd /\ (N.of_nat (length dd) <= 65535)%N
  | _, _ => False
  end.

Definition wf_rr (r : rr) : Prop :=
  wf_name (r_name r) /\ u16 (r_type r) /\ u16 (r_class r) /\ u32 (r_ttl r) /\ wf_rdata (r_type r) (r_data r).

Definition count_ok {A} (l : list A) : Prop := (N.of_nat (length l) <= 65535)%N.

Definition wf_msg (m : msg) : Prop :=
  wf_header (m_hdr m) /\
  Forall wf_question (m_qs m) /\ Forall wf_rr (m_an m) /\ Forall wf_rr (m_ns m) /\ Forall wf_rr (m_ar m) /\
  count_ok (m_qs m) /\ count_ok (m_an m) /\ count_ok (m_ns m) /\ count_ok (m_ar m).

(* ---------- primitives return in-range values on byte lists ---------- *)
Lemma u16_at_ok msg off v o : bytes msg -> u16_at msg off = Ok (v, o) -> u16 v.
Proof.
  unfold u16_at. intros Hb. destruct (length msg <? off); [discriminate|].
  destruct (length msg - off <? 2); [discriminate|].
  destruct (get msg off) as [a|] eqn:Ea; [|discriminate].
  destruct (get msg (S off)) as [b|] eqn:Eb; [|discriminate].
  intros H. inversion H; subst. apply u16_of_lt; eapply bytes_get; eauto.
Qed.

Lemma u32_at_ok msg off v o : bytes msg -> u32_at msg off = Ok (v, o) -> u32 v.
Proof.
  unfold u32_at. intros Hb. destruct (length msg <? off); [discriminate|].
  destruct (length msg - off <? 4); [discriminate|].
  destruct (get msg off) as [a|] eqn:Ea; [|discriminate].
  destruct (get msg (S off)) as [b|] eqn:Eb; [|discriminate].
  destruct (get msg (S (S off))) as [c|] eqn:Ec; [|discriminate].
  destruct (get msg (S (S (S off)))) as [d|] eqn:Ed; [|discriminate].
  intros H. inversion H; subst. apply u32_of_lt; eapply bytes_get; eauto.
Qed.

Lemma bytes_at_ok msg off l s o : bytes msg -> bytes_at msg off l = Ok (s, o) -> bytes s /\ length s = l.
Proof.
  unfold bytes_at. intros Hb. destruct (length msg <? off); [discriminate|].
  destruct (length msg - off <? l); [discriminate|].
  destruct (slice msg off (off + l)) as [s'|] eqn:Es; [|discriminate].
  intros H. inversion H; subst. split; [eapply bytes_slice; eauto|].
  apply slice_len in Es. lia.
Qed.

(* inversion helper for [bind] *)
Lemma bind_ok {A B} (r : res A) (f : A -> res B) b : bind r f = Ok b -> exists a, r = Ok a /\ f a = Ok b.
Proof. destruct r; cbn; intros H; try discriminate. eauto. Qed.

Ltac inv_bind H :=
  let a := fresh "a" in let o := fresh "o" in let E := fresh "E" in
  apply bind_ok in H; destruct H as ([a o] & E & H); cbn beta iota in H.

Lemma unpack_question_wf msg off q o : bytes msg -> unpack_question msg off = Ok (q, o) -> wf_question q.
Proof.
  intros Hb H. unfold unpack_question in H.
  inv_bind H. inv_bind H. inv_bind H. inversion H; subst. cbn.
  repeat split; eauto using unpack_name_wf, u16_at_ok.
Qed.

Lemma check_len_ok {A} a b len (v w : A) : check_len a b len v = Ok w -> v = w.
Proof. unfold check_len. destruct (Nat.eqb _ _); intros H; inversion H; auto. Qed.

Lemma unpack_rdata_wf msg off typ len d o :
  bytes msg -> u16 len -> unpack_rdata msg off typ len = Ok (d, o) -> wf_rdata typ d.
Proof.
  intros Hb Hlen H. unfold unpack_rdata in H. unfold wf_rdata.
  destruct (kind_of_type typ).
  - destruct (len =? 4)%N; [|discriminate]. inv_bind H. inversion H; subst.
    apply bytes_at_ok in E; auto. tauto.
  - destruct (len =? 16)%N; [|discriminate]. inv_bind H. inversion H; subst.
    apply bytes_at_ok in E; auto. tauto.
  - inv_bind H. apply check_len_ok in H. inversion H; subst. eauto using unpack_name_wf.
  - do 7 inv_bind H. apply check_len_ok in H. inversion H; subst.
    repeat split; eauto using unpack_name_wf, u32_at_ok.
  - do 2 inv_bind H. apply check_len_ok in H. inversion H; subst.
    repeat split; eauto using unpack_name_wf, u16_at_ok.
  - do 4 inv_bind H. apply check_len_ok in H. inversion H; subst.
    repeat split; eauto using unpack_name_wf, u16_at_ok.
  - inv_bind H. inversion H; subst. apply bytes_at_ok in E; auto. destruct E as [E1 E2].
    split; [exact E1|]. unfold u16 in Hlen. lia.
Qed.

Lemma unpack_rr_wf msg off r o : bytes msg -> unpack_rr msg off = Ok (r, o) -> wf_rr r.
Proof.
  intros Hb H. unfold unpack_rr in H. do 6 inv_bind H. inversion H; subst. unfold wf_rr. cbn.
  repeat split; eauto using unpack_name_wf, u16_at_ok, u32_at_ok.
  eapply unpack_rdata_wf; eauto using u16_at_ok.
Qed.

Lemma unpack_qs_wf n : forall msg off qs o, bytes msg -> unpack_qs n msg off = Ok (qs, o) ->
  Forall wf_question qs /\ length qs = n.
Proof.
  induction n as [|n IH]; intros msg off qs o Hb H; cbn [unpack_qs] in H.
  - inversion H; subst. split; [constructor|reflexivity].
  - do 2 inv_bind H. inversion H; subst. apply IH in E0; auto. destruct E0 as [F L].
    split; [constructor; eauto using unpack_question_wf|cbn; lia].
Qed.

Lemma unpack_rrs_wf n : forall msg off rs o, bytes msg -> unpack_rrs n msg off = Ok (rs, o) ->
  Forall wf_rr rs /\ length rs = n.
Proof.
  induction n as [|n IH]; intros msg off rs o Hb H; cbn [unpack_rrs] in H.
  - inversion H; subst. split; [constructor|reflexivity].
  - do 2 inv_bind H. inversion H; subst. apply IH in E0; auto. destruct E0 as [F L].
    split; [constructor; eauto using unpack_rr_wf|cbn; lia].
Qed.

Lemma land15_lt w : (N.land w 15 < 16)%N.
Proof.
  change 15%N with (N.ones 4). rewrite N.land_ones. apply N.mod_lt. cbn. lia.
Qed.

Theorem unpack_msg_wf bs m : bytes bs -> unpack_msg bs = Ok m -> wf_msg m.
Proof.
  intros Hb H. unfold unpack_msg in H.
  apply bind_ok in H. destruct H as ([[h [[[qd an] ns] ar]] o0] & Eh & H). cbn beta iota in H.
  do 4 inv_bind H. inversion H; subst. clear H.
  unfold unpack_header in Eh. destruct (length bs <? 12); [discriminate|].
  do 6 inv_bind Eh. inversion Eh; subst. clear Eh.
  apply unpack_qs_wf in E; auto. apply unpack_rrs_wf in E0, E1, E2; auto.
  destruct E as [Fq Lq], E0 as [F0 L0], E1 as [F1 L1], E2 as [F2 L2].
  repeat match goal with H : u16_at _ _ = Ok _ |- _ => apply u16_at_ok in H; [|assumption] end.
  unfold wf_msg, wf_header, count_ok, u16 in *. cbn.
  repeat split; auto using land15_lt; lia.
Qed.
