(* Codec/CompressProofs.v — the compressed encoding round-trips (C02, compression ON) when no name has more than
   10 labels: the compression-table invariant.  Every table entry (suffix |-> p) points at a place of the output
   written so far from which the decoder reads exactly that suffix, using at most (labels - 1) pointer hops;
   the invariant is stable under appending (dec_app). *)
From Mos Require Import Base.Prelude Codec.Name Codec.Msg Codec.Spec Codec.NameProofs Codec.SafetyProofs
  Codec.WfProofs Codec.RoundtripProofs Codec.TruncProofs.
From Coq Require Import ZifyN ZifyNat ZifyBool.

(* ---------- pointer octets ---------- *)
Definition ptr_hi (p : nat) : N := (192 + N.of_nat p / 256)%N.
Definition ptr_lo (p : nat) : N := (N.of_nat p mod 256)%N.

Definition nrange (k : nat) : list N := map N.of_nat (seq 0 k).
Lemma in_nrange k v : (v < N.of_nat k)%N -> In v (nrange k).
Proof.
  intros H. unfold nrange. apply in_map_iff. exists (N.to_nat v). split; [apply N2Nat.id|].
  apply in_seq. lia.
Qed.

Definition ptr_ok_b (hi lo : N) : bool :=
  (N.land (192 + hi) 192 =? 192)%N &&
  (N.lor (N.shiftl (N.lxor (192 + hi) 192) 8) lo =? hi * 256 + lo)%N.

Lemma ptr_sweep : forallb (fun hi => forallb (fun lo => ptr_ok_b hi lo) (nrange 256)) (nrange 64) = true.
Proof. vm_compute. reflexivity. Qed.

Definition ptr_limit : nat := N.to_nat 16384.

Lemma ptr_ok p : p < ptr_limit ->
  N.land (ptr_hi p) 192 = 192%N /\ ptr_target (ptr_hi p) (ptr_lo p) = p /\ isbyte (ptr_hi p) /\ isbyte (ptr_lo p).
Proof.
  unfold ptr_limit. intros H. pose proof ptr_sweep as S. rewrite forallb_forall in S.
  assert (N.of_nat p / 256 < 64)%N as Hhi by (apply N.div_lt_upper_bound; lia).
  assert (N.of_nat p mod 256 < 256)%N as Hlo by (apply N.mod_lt; lia).
  specialize (S (N.of_nat p / 256)%N (in_nrange 64 _ Hhi)). rewrite forallb_forall in S.
  specialize (S (N.of_nat p mod 256)%N (in_nrange 256 _ Hlo)).
  unfold ptr_ok_b in S. apply andb_true_iff in S. destruct S as [S1 S2].
  apply N.eqb_eq in S1. apply N.eqb_eq in S2.
  unfold ptr_hi, ptr_lo, ptr_target, isbyte. rewrite S2.
  split; [exact S1|]. split; [|split; lia].
  pose proof (N.div_mod (N.of_nat p) 256). lia.
Qed.

Lemma ptr_limit_le p : (N.of_nat p <=? 16383)%N = true <-> p < ptr_limit.
Proof. unfold ptr_limit. rewrite N.leb_le. lia. Qed.

(* ---------- reading a name with its end offset ---------- *)
(* [dece msg p ls h e]: at p the decoder reads the labels ls using h pointer hops, and the in-place part
   (up to the terminator or the first pointer) ends at e *)
Inductive dece (msg : list N) : nat -> list (list N) -> nat -> nat -> Prop :=
| dece_end p : get msg p = Some 0%N -> dece msg p [] 0 (S p)
| dece_label p l ls h e :
    wf_label l ->
    get msg p = Some (N.of_nat (length l)) ->
    slice msg (S p) (S p + length l) = Some l ->
    dece msg (S p + length l) ls h e ->
    dece msg p (l :: ls) h e
| dece_ptr p c c1 ls h :
    N.land c 192 = 192%N ->
    get msg p = Some c -> get msg (S p) = Some c1 ->
    dec msg (ptr_target c c1) ls h ->
    dece msg p ls (S h) (S (S p)).

Lemma dece_dec msg p ls h e : dece msg p ls h e -> dec msg p ls h.
Proof. induction 1; [apply dec_end|apply dec_label|eapply dec_ptr]; eauto. Qed.

Lemma dece_app msg x p ls h e : dece msg p ls h e -> dece (msg ++ x) p ls h e.
Proof.
  induction 1.
  - apply dece_end. now apply get_app1.
  - apply dece_label; auto using get_app1, slice_app1.
  - eapply dece_ptr; eauto using get_app1, dec_app.
Qed.

(* after at least one pointer the returned offset is the saved one *)
Lemma dec_unpack_saved msg p ls h : dec msg p ls h ->
  forall fuel ptr newoff name,
    0 < ptr -> h + ptr <= 10 ->
    length name + length (raw ls) + 1 <= 255 ->
    length ls + h < fuel ->
    unpack_name_go fuel msg p ptr newoff name = Ok (name ++ raw ls, newoff).
Proof.
  induction 1 as [p Hi | p l ls h [Hwf Hwb] Hi Hs Hd IH | p c c1 ls h Hc Hi Hi1 Hd IH];
    intros fuel ptr newoff name Hp Hh Hn Hf.
  - destruct fuel as [|fuel]; [cbn in Hf; lia|]. cbn [unpack_name_go].
    pose proof (get_lt _ _ _ Hi) as Hlt.
    destruct (length msg <=? p) eqn:E; [apply Nat.leb_le in E; lia|].
    rewrite Hi. cbn. rewrite app_nil_r.
    destruct ptr; [lia|]. reflexivity.
  - destruct fuel as [|fuel]; [cbn in Hf; lia|]. cbn [unpack_name_go].
    pose proof (get_lt _ _ _ Hi) as Hlt.
    destruct (length msg <=? p) eqn:E; [apply Nat.leb_le in E; lia|].
    rewrite Hi. rewrite land192_small by lia. cbn [N.eqb].
    destruct (N.eqb (N.of_nat (length l)) 0) eqn:E0; [apply N.eqb_eq in E0; lia|].
    rewrite Nat2N.id.
    pose proof (slice_len _ _ _ _ Hs) as (_ & _ & Hle).
    destruct (length msg <? S p + length l) eqn:E1; [apply Nat.ltb_lt in E1; lia|].
    cbn [raw length] in Hn. rewrite app_length in Hn.
    destruct (255 <? length name + 1 + length l + 1) eqn:E2; [apply Nat.ltb_lt in E2; lia|].
    rewrite Hs.
    rewrite (IH fuel ptr newoff (name ++ N.of_nat (length l) :: l)).
    + f_equal. f_equal. cbn [raw]. rewrite <- app_assoc. reflexivity.
    + exact Hp.
    + lia.
    + rewrite app_length. cbn [length]. lia.
    + cbn [length] in Hf. lia.
  - destruct fuel as [|fuel]; [lia|]. cbn [unpack_name_go].
    pose proof (get_lt _ _ _ Hi) as Hlt. pose proof (get_lt _ _ _ Hi1) as Hlt1.
    destruct (length msg <=? p) eqn:E; [apply Nat.leb_le in E; lia|].
    rewrite Hi, Hc. cbn [N.eqb Pos.eqb].
    destruct (length msg <=? S p) eqn:E1; [apply Nat.leb_le in E1; lia|].
    rewrite Hi1.
    destruct (10 <? S ptr) eqn:E2; [apply Nat.ltb_lt in E2; lia|].
    destruct ptr; [lia|]. cbn [Nat.eqb].
    apply IH; lia.
Qed.

Lemma dece_unpack msg p ls h e : dece msg p ls h e ->
  forall fuel newoff name,
    h <= 10 ->
    length name + length (raw ls) + 1 <= 255 ->
    length ls + h < fuel ->
    unpack_name_go fuel msg p 0 newoff name = Ok (name ++ raw ls, e).
Proof.
  induction 1 as [p Hi | p l ls h e [Hwf Hwb] Hi Hs Hd IH | p c c1 ls h Hc Hi Hi1 Hd];
    intros fuel newoff name Hh Hn Hf.
  - destruct fuel as [|fuel]; [cbn in Hf; lia|]. cbn [unpack_name_go].
    pose proof (get_lt _ _ _ Hi) as Hlt.
    destruct (length msg <=? p) eqn:E; [apply Nat.leb_le in E; lia|].
    rewrite Hi. cbn. rewrite app_nil_r. reflexivity.
  - destruct fuel as [|fuel]; [cbn in Hf; lia|]. cbn [unpack_name_go].
    pose proof (get_lt _ _ _ Hi) as Hlt.
    destruct (length msg <=? p) eqn:E; [apply Nat.leb_le in E; lia|].
    rewrite Hi. rewrite land192_small by lia. cbn [N.eqb].
    destruct (N.eqb (N.of_nat (length l)) 0) eqn:E0; [apply N.eqb_eq in E0; lia|].
    rewrite Nat2N.id.
    pose proof (slice_len _ _ _ _ Hs) as (_ & _ & Hle).
    destruct (length msg <? S p + length l) eqn:E1; [apply Nat.ltb_lt in E1; lia|].
    cbn [raw length] in Hn. rewrite app_length in Hn.
    destruct (255 <? length name + 1 + length l + 1) eqn:E2; [apply Nat.ltb_lt in E2; lia|].
    rewrite Hs.
    rewrite (IH fuel newoff (name ++ N.of_nat (length l) :: l)).
    + f_equal. f_equal. cbn [raw]. rewrite <- app_assoc. reflexivity.
    + lia.
    + rewrite app_length. cbn [length]. lia.
    + cbn [length] in Hf. lia.
  - destruct fuel as [|fuel]; [lia|]. cbn [unpack_name_go].
    pose proof (get_lt _ _ _ Hi) as Hlt. pose proof (get_lt _ _ _ Hi1) as Hlt1.
    destruct (length msg <=? p) eqn:E; [apply Nat.leb_le in E; lia|].
    rewrite Hi, Hc. cbn [N.eqb Pos.eqb].
    destruct (length msg <=? S p) eqn:E1; [apply Nat.leb_le in E1; lia|].
    rewrite Hi1. cbn [Nat.eqb Nat.ltb Nat.leb].
    apply (dec_unpack_saved _ _ _ _ Hd); lia.
Qed.

Lemma dece_unpack_name msg p ls h e : dece msg p ls h e -> h <= 10 -> wf_labels ls ->
  unpack_name msg p = Ok (raw ls, e).
Proof.
  intros Hd Hh [Hf Hl]. unfold unpack_name.
  rewrite (dece_unpack _ _ _ _ _ Hd name_fuel p []); [reflexivity|exact Hh|cbn; lia|].
  pose proof (raw_len_ge ls Hf). pose proof name_fuel_big. lia.
Qed.
