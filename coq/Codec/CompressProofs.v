(* Codec/CompressProofs.v — the compressed encoding round-trips (C02, compression ON) when no name has more than
   10 labels: the compression-table invariant.  Every table entry (suffix |-> p) points at a place of the output
   written so far from which the decoder reads exactly that suffix, using at most (labels - 1) pointer hops;
   the invariant is stable under appending (dec_app). *)
From Mos Require Import Base.Prelude Codec.Name Codec.Msg Codec.Spec Codec.NameProofs Codec.SafetyProofs
  Codec.WfProofs Codec.RoundtripProofs Codec.TruncProofs.
From Coq Require Import ZifyN ZifyNat ZifyBool.

(* ---------- pointer octets ---------- *)
Definition ptr_hi (p : nat) : N := (192 + N.of_nat p / 256)%N.
Definition ptr_lo (p : nat) : N := (N.of_nat p mod 256)%N.

Definition nrange (k : nat) : list N := map N.of_nat (seq 0 k).
Lemma in_nrange k v : (v < N.of_nat k)%N -> In v (nrange k).
Proof.
  intros H. unfold nrange. apply in_map_iff. exists (N.to_nat v). split; [apply N2Nat.id|].
  apply in_seq. lia.
Qed.

Definition ptr_ok_b (hi lo : N) : bool :=
  (N.land (192 + hi) 192 =? 192)%N &&
  (N.lor (N.shiftl (N.lxor (192 + hi) 192) 8) lo =? hi * 256 + lo)%N.

Lemma ptr_sweep : forallb (fun hi => forallb (fun lo => ptr_ok_b hi lo) (nrange 256)) (nrange 64) = true.
Proof. vm_compute. reflexivity. Qed.

Definition ptr_limit : nat := N.to_nat 16384.

Lemma ptr_ok p : p < ptr_limit ->
  N.land (ptr_hi p) 192 = 192%N /\ ptr_target (ptr_hi p) (ptr_lo p) = p /\ isbyte (ptr_hi p) /\ isbyte (ptr_lo p).
Proof.
  unfold ptr_limit. intros H. pose proof ptr_sweep as S. rewrite forallb_forall in S.
  assert (N.of_nat p / 256 < 64)%N as Hhi by (apply N.div_lt_upper_bound; lia).
  assert (N.of_nat p mod 256 < 256)%N as Hlo by (apply N.mod_lt; lia).
  specialize (S (N.of_nat p / 256)%N (in_nrange 64 _ Hhi)). rewrite forallb_forall in S.
  specialize (S (N.of_nat p mod 256)%N (in_nrange 256 _ Hlo)).
  unfold ptr_ok_b in S. apply andb_true_iff in S. destruct S as [S1 S2].
  apply N.eqb_eq in S1. apply N.eqb_eq in S2.
  unfold ptr_hi, ptr_lo, ptr_target, isbyte. rewrite S2.
  split; [exact S1|]. split; [|split; lia].
  pose proof (N.div_mod (N.of_nat p) 256). lia.
Qed.

Lemma ptr_limit_le p : (N.of_nat p <=? 16383)%N = true <-> p < ptr_limit.
Proof. unfold ptr_limit. rewrite N.leb_le. lia. Qed.

(* ---------- reading a name with its end offset ---------- *)
(* [dece msg p ls h e]: at p the decoder reads the labels ls using h pointer hops, and the in-place part
   (up to the terminator or the first pointer) ends at e *)
Inductive dece (msg : list N) : nat -> list (list N) -> nat -> nat -> Prop :=
| dece_end p : get msg p = Some 0%N -> dece msg p [] 0 (S p)
| dece_label p l ls h e :
    wf_label l ->
    get msg p = Some (N.of_nat (length l)) ->
    slice msg (S p) (S p + length l) = Some l ->
    dece msg (S p + length l) ls h e ->
    dece msg p (l :: ls) h e
| dece_ptr p c c1 ls h :
    N.land c 192 = 192%N ->
    get msg p = Some c -> get msg (S p) = Some c1 ->
    dec msg (ptr_target c c1) ls h ->
    dece msg p ls (S h) (S (S p)).

Lemma dece_dec msg p ls h e : dece msg p ls h e -> dec msg p ls h.
Proof. induction 1; [apply dec_end|apply dec_label|eapply dec_ptr]; eauto. Qed.

Lemma dece_app msg x p ls h e : dece msg p ls h e -> dece (msg ++ x) p ls h e.
Proof.
  induction 1.
  - apply dece_end. now apply get_app1.
  - apply dece_label; auto using get_app1, slice_app1.
  - eapply dece_ptr; eauto using get_app1, dec_app.
Qed.

(* after at least one pointer the returned offset is the saved one *)
Lemma dec_unpack_saved msg p ls h : dec msg p ls h ->
  forall fuel ptr newoff name,
    0 < ptr -> h + ptr <= 127 ->
    length name + length (raw ls) + 1 <= 255 ->
    length ls + h < fuel ->
    unpack_name_go fuel msg p ptr newoff name = Ok (name ++ raw ls, newoff).
Proof.
  induction 1 as [p Hi | p l ls h [Hwf Hwb] Hi Hs Hd IH | p c c1 ls h Hc Hi Hi1 Hd IH];
    intros fuel ptr newoff name Hp Hh Hn Hf.
  - destruct fuel as [|fuel]; [cbn in Hf; lia|]. cbn [unpack_name_go].
    pose proof (get_lt _ _ _ Hi) as Hlt.
    destruct (length msg <=? p) eqn:E; [apply Nat.leb_le in E; lia|].
    rewrite Hi. cbn. rewrite app_nil_r.
    destruct ptr; [lia|]. reflexivity.
  - destruct fuel as [|fuel]; [cbn in Hf; lia|]. cbn [unpack_name_go].
    pose proof (get_lt _ _ _ Hi) as Hlt.
    destruct (length msg <=? p) eqn:E; [apply Nat.leb_le in E; lia|].
    rewrite Hi. rewrite land192_small by lia. cbn [N.eqb].
    destruct (N.eqb (N.of_nat (length l)) 0) eqn:E0; [apply N.eqb_eq in E0; lia|].
    rewrite Nat2N.id.
    pose proof (slice_len _ _ _ _ Hs) as (_ & _ & Hle).
    destruct (length msg <? S p + length l) eqn:E1; [apply Nat.ltb_lt in E1; lia|].
    cbn [raw length] in Hn. rewrite app_length in Hn.
    destruct (255 <? length name + 1 + length l + 1) eqn:E2; [apply Nat.ltb_lt in E2; lia|].
    rewrite Hs.
    rewrite (IH fuel ptr newoff (name ++ N.of_nat (length l) :: l)).
    + f_equal. f_equal. cbn [raw]. rewrite <- app_assoc. reflexivity.
    + exact Hp.
    + lia.
    + rewrite app_length. cbn [length]. lia.
    + cbn [length] in Hf. lia.
  - destruct fuel as [|fuel]; [lia|]. cbn [unpack_name_go].
    pose proof (get_lt _ _ _ Hi) as Hlt. pose proof (get_lt _ _ _ Hi1) as Hlt1.
    destruct (length msg <=? p) eqn:E; [apply Nat.leb_le in E; lia|].
    rewrite Hi, Hc. cbn [N.eqb Pos.eqb].
    destruct (length msg <=? S p) eqn:E1; [apply Nat.leb_le in E1; lia|].
    rewrite Hi1.
    destruct (127 <? S ptr) eqn:E2; [apply Nat.ltb_lt in E2; lia|].
    destruct ptr; [lia|]. cbn [Nat.eqb].
    apply IH; lia.
Qed.

Lemma dece_unpack msg p ls h e : dece msg p ls h e ->
  forall fuel newoff name,
    h <= 127 ->
    length name + length (raw ls) + 1 <= 255 ->
    length ls + h < fuel ->
    unpack_name_go fuel msg p 0 newoff name = Ok (name ++ raw ls, e).
Proof.
  induction 1 as [p Hi | p l ls h e [Hwf Hwb] Hi Hs Hd IH | p c c1 ls h Hc Hi Hi1 Hd];
    intros fuel newoff name Hh Hn Hf.
  - destruct fuel as [|fuel]; [cbn in Hf; lia|]. cbn [unpack_name_go].
    pose proof (get_lt _ _ _ Hi) as Hlt.
    destruct (length msg <=? p) eqn:E; [apply Nat.leb_le in E; lia|].
    rewrite Hi. cbn. rewrite app_nil_r. reflexivity.
  - destruct fuel as [|fuel]; [cbn in Hf; lia|]. cbn [unpack_name_go].
    pose proof (get_lt _ _ _ Hi) as Hlt.
    destruct (length msg <=? p) eqn:E; [apply Nat.leb_le in E; lia|].
    rewrite Hi. rewrite land192_small by lia. cbn [N.eqb].
    destruct (N.eqb (N.of_nat (length l)) 0) eqn:E0; [apply N.eqb_eq in E0; lia|].
    rewrite Nat2N.id.
    pose proof (slice_len _ _ _ _ Hs) as (_ & _ & Hle).
    destruct (length msg <? S p + length l) eqn:E1; [apply Nat.ltb_lt in E1; lia|].
    cbn [raw length] in Hn. rewrite app_length in Hn.
    destruct (255 <? length name + 1 + length l + 1) eqn:E2; [apply Nat.ltb_lt in E2; lia|].
    rewrite Hs.
    rewrite (IH fuel newoff (name ++ N.of_nat (length l) :: l)).
    + f_equal. f_equal. cbn [raw]. rewrite <- app_assoc. reflexivity.
    + lia.
    + rewrite app_length. cbn [length]. lia.
    + cbn [length] in Hf. lia.
  - destruct fuel as [|fuel]; [lia|]. cbn [unpack_name_go].
    pose proof (get_lt _ _ _ Hi) as Hlt. pose proof (get_lt _ _ _ Hi1) as Hlt1.
    destruct (length msg <=? p) eqn:E; [apply Nat.leb_le in E; lia|].
    rewrite Hi, Hc. cbn [N.eqb Pos.eqb].
    destruct (length msg <=? S p) eqn:E1; [apply Nat.leb_le in E1; lia|].
    rewrite Hi1. cbn [Nat.eqb Nat.ltb Nat.leb].
    apply (dec_unpack_saved _ _ _ _ Hd); lia.
Qed.

Lemma dece_unpack_name msg p ls h e : dece msg p ls h e -> h <= 127 -> wf_labels ls ->
  unpack_name msg p = Ok (raw ls, e).
Proof.
  intros Hd Hh [Hf Hl]. unfold unpack_name.
  rewrite (dece_unpack _ _ _ _ _ Hd name_fuel p []); [reflexivity|exact Hh|cbn; lia|].
  pose proof (raw_len_ge ls Hf). pose proof name_fuel_big. lia.
Qed.

(* ---------- what Name.pack writes with compression, as a function of the table it starts with ---------- *)
Definition ptr_bytes (p : nat) : list N := [ptr_hi p; ptr_lo p].

(* the octets of a name whose remaining labels are ls, looked up in the table t0 *)
Fixpoint cname (ls : list (list N)) (t0 : tbl) : list N :=
  match ls with
  | [] => [0%N]
  | l :: r => match tbl_find (raw ls) t0 with
              | Some p => ptr_bytes p
              | None => N.of_nat (length l) :: l ++ cname r t0
              end
  end.

(* the table entries the name adds (suffixes written in place at positions <= 16383), most recent first *)
Fixpoint centries (ls : list (list N)) (t0 : tbl) (pos : nat) : tbl :=
  match ls with
  | [] => []
  | l :: r => match tbl_find (raw ls) t0 with
              | Some _ => []
              | None => centries r t0 (pos + 1 + length l) ++
                        (if (N.of_nat pos <=? 16383)%N then [(raw ls, pos)] else [])
              end
  end.

Lemma list_eqb_len a : forall b, list_eqb a b = true -> length a = length b.
Proof. intros b H. apply list_eqb_eq in H. now subst. Qed.

(* entries whose keys are longer than k never answer a lookup of k *)
Lemma tbl_find_longer k own t0 : Forall (fun e => length k < length (fst e)) own ->
  tbl_find k (own ++ t0) = tbl_find k t0.
Proof.
  induction 1 as [|[k' p] own Hk _ IH]; cbn [app tbl_find]; [reflexivity|].
  destruct (list_eqb k k') eqn:E; [apply list_eqb_len in E; cbn in Hk; lia|exact IH].
Qed.

Lemma raw_cons_len l r : length (raw (l :: r)) = S (length l + length (raw r)).
Proof. cbn [raw length]. rewrite app_length. reflexivity. Qed.

Lemma pack_name_go_cname ls : Forall wf_label ls -> forall fuel off own t0 acc,
  length ls <= fuel ->
  Forall (fun e => length (raw ls) < length (fst e)) own ->
  pack_name_go fuel true (raw ls) off (own ++ t0) acc =
    Ok (acc ++ cname ls t0, centries ls t0 (off + length acc) ++ own ++ t0).
Proof.
  induction 1 as [|l ls [Hl Hb] Hls IH]; intros fuel off own t0 acc Hf Hown.
  - destruct fuel; reflexivity.
  - cbn [raw]. destruct fuel as [|fuel]; [cbn in Hf; lia|]. cbn [pack_name_go].
    assert ((N.of_nat (length l) =? 0)%N = false) as -> by (apply N.eqb_neq; lia).
    assert ((63 <? N.of_nat (length l))%N = false) as -> by (apply N.ltb_ge; lia).
    rewrite Nat2N.id.
    assert (length (l ++ raw ls) <? length l = false) as -> by (apply Nat.ltb_ge; rewrite app_length; lia).
    change (N.of_nat (length l) :: l ++ raw ls) with (raw (l :: ls)).
    rewrite (tbl_find_longer (raw (l :: ls)) own t0 Hown).
    cbn [cname centries]. destruct (tbl_find (raw (l :: ls)) t0) as [p|] eqn:Ef.
    + reflexivity.
    + cbn [raw]. rewrite skipn_app, skipn_all, Nat.sub_diag. cbn [skipn app].
      rewrite firstn_app, firstn_all, Nat.sub_diag. cbn [firstn]. rewrite app_nil_r.
      cbn [andb].
      set (here := off + length acc).
      set (own' := (if (N.of_nat here <=? 16383)%N then [(N.of_nat (length l) :: l ++ raw ls, here)] else []) ++ own).
      assert ((if (N.of_nat here <=? 16383)%N then (N.of_nat (length l) :: l ++ raw ls, here) :: own ++ t0 else own ++ t0)
              = own' ++ t0) as -> by (unfold own'; destruct (N.of_nat here <=? 16383)%N; reflexivity).
      rewrite (IH fuel off own' t0 (acc ++ N.of_nat (length l) :: l)).
      * f_equal. f_equal.
        -- rewrite <- app_assoc. reflexivity.
        -- rewrite app_length. cbn [length]. unfold own', here.
           replace (off + (length acc + S (length l))) with (off + length acc + 1 + length l) by lia.
           rewrite <- !app_assoc. reflexivity.
      * cbn in Hf. lia.
      * unfold own'. apply Forall_app. split.
        -- destruct (N.of_nat here <=? 16383)%N; constructor; [|constructor]. cbn [fst length].
           rewrite app_length. lia.
        -- eapply Forall_impl; [|exact Hown]. intros e He. cbn [raw length] in He. rewrite app_length in He. lia.
Qed.

Lemma pack_name_cname ls off t0 : wf_labels ls ->
  pack_name true (raw ls) off t0 = Ok (cname ls t0, centries ls t0 off ++ t0).
Proof.
  intros [Hf Hl]. unfold pack_name.
  assert (254 <? length (raw ls) = false) as -> by (apply Nat.ltb_ge; lia).
  pose proof (pack_name_go_cname ls Hf (length (raw ls)) off [] t0 [] (raw_len_ge ls Hf) (Forall_nil _)) as H.
  cbn [app length] in H. rewrite Nat.add_0_r in H. exact H.
Qed.

(* ---------- the compression-table invariant ---------- *)
Definition entry_ok (buf : list N) (e : list N * nat) : Prop :=
  exists ls h, fst e = raw ls /\ Forall wf_label ls /\ ls <> [] /\ snd e < ptr_limit /\
               dec buf (snd e) ls h /\ S h <= length ls.
Definition tbl_ok (buf : list N) (t : tbl) : Prop := Forall (entry_ok buf) t.

Lemma tbl_ok_app buf x t : tbl_ok buf t -> tbl_ok (buf ++ x) t.
Proof.
  unfold tbl_ok. apply Forall_impl. intros e (ls & h & H1 & H2 & H3 & H4 & H5 & H6).
  exists ls, h. repeat split; auto. now apply dec_app.
Qed.

Lemma tbl_find_in k t p : tbl_find k t = Some p -> In (k, p) t.
Proof.
  induction t as [|[k' p'] t IH]; cbn [tbl_find]; [discriminate|].
  destruct (list_eqb k k') eqn:E.
  - intros H. inversion H; subst. apply list_eqb_eq in E. subst. now left.
  - intros H. right. now apply IH.
Qed.

Lemma app_inv_len {A} (a b x y : list A) : length a = length b -> a ++ x = b ++ y -> a = b /\ x = y.
Proof.
  revert b; induction a as [|u a IH]; intros [|v b] Hl H; cbn in *; try discriminate; [auto|].
  inversion H; subst. destruct (IH b) as [-> ->]; auto.
Qed.

Lemma raw_inj a : Forall wf_label a -> forall b, Forall wf_label b -> raw a = raw b -> a = b.
Proof.
  induction 1 as [|l a [Hl _] _ IH]; intros b Hb H.
  - destruct b as [|m b]; [reflexivity|]. cbn in H. discriminate.
  - destruct b as [|m b]; [cbn in H; discriminate|]. inversion Hb as [|? ? [Hm _] Hb']; subst.
    cbn [raw] in H. inversion H as [[Hlen Happ]].
    assert (length l = length m) as Hll by lia.
    destruct (app_inv_len _ _ _ _ Hll Happ) as [-> Hr]. f_equal. now apply IH.
Qed.

Lemma get_mid pre x post i c : get x i = Some c -> get (pre ++ x ++ post) (length pre + i) = Some c.
Proof. intros H. rewrite get_app2. now apply get_app1. Qed.

Lemma cname_dece ls : Forall wf_label ls -> forall pre t0 post,
  tbl_ok pre t0 ->
  exists h, dece (pre ++ cname ls t0 ++ post) (length pre) ls h (length pre + length (cname ls t0)) /\
            h <= length ls /\
            (tbl_find (raw ls) t0 = None -> ls <> [] -> S h <= length ls) /\
            tbl_ok (pre ++ cname ls t0 ++ post) (centries ls t0 (length pre)).
Proof.
  induction 1 as [|l ls Hl Hls IH]; intros pre t0 post Ht.
  - exists 0. cbn [cname centries length]. split; [|split; [lia|split; [intros _ H; now contradiction H|constructor]]].
    replace (length pre + 1) with (S (length pre)) by lia. apply dece_end.
    replace (length pre) with (length pre + 0) at 1 by lia. apply get_mid. reflexivity.
  - cbn [cname centries]. destruct (tbl_find (raw (l :: ls)) t0) as [p|] eqn:Ef.
    + apply tbl_find_in in Ef. unfold tbl_ok in Ht. rewrite Forall_forall in Ht.
      destruct (Ht _ Ef) as (ls' & h' & H1 & H2 & H3 & H4 & H5 & H6). cbn [fst snd] in *.
      assert (ls' = l :: ls) as -> by (symmetry; apply raw_inj; auto).
      destruct (ptr_ok p H4) as (P1 & P2 & _ & _).
      exists (S h'). split; [|split; [exact H6|split; [discriminate|constructor]]].
      replace (length pre + length (ptr_bytes p)) with (S (S (length pre))) by (cbn; lia).
      eapply dece_ptr with (c := ptr_hi p) (c1 := ptr_lo p); [exact P1| | |].
      * replace (length pre) with (length pre + 0) at 1 by lia. apply get_mid. reflexivity.
      * replace (S (length pre)) with (length pre + 1) by lia. apply get_mid. reflexivity.
      * rewrite P2. apply dec_app. exact H5.
    + set (pre' := pre ++ N.of_nat (length l) :: l).
      assert (Hpre' : length pre' = length pre + 1 + length l) by (unfold pre'; rewrite app_length; cbn; lia).
      assert (HB : forall post, pre ++ (N.of_nat (length l) :: l ++ cname ls t0) ++ post = pre' ++ cname ls t0 ++ post).
      { intros. unfold pre'. rewrite <- !app_assoc. cbn. rewrite <- app_assoc. reflexivity. }
      rewrite HB.
      destruct (IH pre' t0 post (tbl_ok_app _ _ _ Ht)) as (h & D & Hh & _ & Hent).
      assert (Hd : dece (pre' ++ cname ls t0 ++ post) (length pre) (l :: ls) h (length pre' + length (cname ls t0))).
      { apply dece_label; [exact Hl| | |].
        - unfold pre'. rewrite <- app_assoc. replace (length pre) with (length pre + 0) at 1 by lia.
          rewrite get_app2. reflexivity.
        - unfold pre'.
          replace (S (length pre)) with (length (pre ++ [N.of_nat (length l)])) by (rewrite app_length; cbn; lia).
          replace ((pre ++ N.of_nat (length l) :: l) ++ cname ls t0 ++ post)
            with ((pre ++ [N.of_nat (length l)]) ++ l ++ (cname ls t0 ++ post)).
          + apply slice_mid.
          + rewrite <- !app_assoc. reflexivity.
        - replace (S (length pre) + length l) with (length pre') by lia. exact D. }
      exists h. split; [|split; [cbn; lia|split; [intros _ _; cbn; lia|]]].
      * cbn [length]. rewrite app_length. replace (length pre + S (length l + length (cname ls t0)))
          with (length pre' + length (cname ls t0)) by lia. exact Hd.
      * unfold tbl_ok. apply Forall_app. split.
        -- rewrite <- Hpre'. exact Hent.
        -- destruct (N.of_nat (length pre) <=? 16383)%N eqn:Ep; [|constructor].
           constructor; [|constructor]. exists (l :: ls), h. cbn [fst snd].
           split; [reflexivity|]. split; [constructor; assumption|]. split; [discriminate|].
           split; [now apply ptr_limit_le|]. split; [exact (dece_dec _ _ _ _ _ Hd)|cbn; lia].
Qed.

(* ---------- names ---------- *)
(* number of labels of a name (0 for a name that does not scan) *)
Definition name_depth (n : list N) : nat := match scan n with Ok ls => length ls | _ => 0 end.

Lemma wf_name_depth n : wf_name n -> exists ls, n = raw ls /\ wf_labels ls /\ name_depth n = length ls.
Proof.
  intros (ls & -> & Hw). exists ls. split; [reflexivity|]. split; [exact Hw|].
  unfold name_depth. now rewrite scan_raw.
Qed.

(* compressed-correct: packing x at the end of [pre] with a good table succeeds, keeps the table good for the longer
   buffer, and the decoder reads x' back from there, ending exactly after the octets written *)
Definition cc_name (n : list N) : Prop := forall pre t, tbl_ok pre t ->
  exists b t', pack_name true n (length pre) t = Ok (b, t') /\
    (forall post, tbl_ok (pre ++ b ++ post) t') /\
    (forall post, unpack_name (pre ++ b ++ post) (length pre) = Ok (n, length pre + length b)).

Lemma cc_name_ok n : wf_name n -> name_depth n <= 127 -> cc_name n.
Proof.
  intros Hw Hd pre t Ht. destruct (wf_name_depth n Hw) as (ls & -> & Hwl & Hdl). rewrite Hdl in Hd.
  rewrite (pack_name_cname ls (length pre) t Hwl). do 2 eexists. split; [reflexivity|].
  destruct Hwl as [Hf Hl]. split.
  - intros post. destruct (cname_dece ls Hf pre t post Ht) as (h & _ & _ & _ & He).
    unfold tbl_ok. apply Forall_app. split; [exact He|]. apply tbl_ok_app. exact Ht.
  - intros post. destruct (cname_dece ls Hf pre t post Ht) as (h & D & Hh & _ & _).
    eapply dece_unpack_name; [exact D|lia|split; assumption].
Qed.

(* ---------- questions ---------- *)
Lemma sub_at pre x post : sub (pre ++ x ++ post) (length pre) x.
Proof. exists pre, post. split; reflexivity. Qed.

Lemma sub_at2 a b x post : sub (a ++ (b ++ x ++ post)) (length a + length b) x.
Proof. exists (a ++ b), post. rewrite app_length, <- app_assoc. split; reflexivity. Qed.

Definition q_depth_ok (q : question) : Prop := name_depth (q_name q) <= 127.

Definition cc_question (q : question) : Prop := forall pre t, tbl_ok pre t ->
  exists b t', pack_question true q (length pre) t = Ok (b, t') /\
    (forall post, tbl_ok (pre ++ b ++ post) t') /\
    (forall post, unpack_question (pre ++ b ++ post) (length pre) = Ok (q, length pre + length b)).

Lemma cc_question_ok q : wf_question q -> q_depth_ok q -> cc_question q.
Proof.
  intros (Hn & Ht & Hc) Hd pre t Hok. destruct (cc_name_ok _ Hn Hd pre t Hok) as (nb & t1 & Hp & Htab & Hun).
  unfold pack_question. rewrite Hp. cbn [bind]. do 2 eexists. split; [reflexivity|]. split.
  - intros post. specialize (Htab (be16 (q_type q) ++ be16 (q_class q) ++ post)).
    rewrite <- !app_assoc. exact Htab.
  - intros post. unfold unpack_question. destruct q as [n ty cl]. cbn [q_name q_type q_class] in *.
    specialize (Hun (be16 ty ++ be16 cl ++ post)).
    replace (pre ++ (nb ++ be16 ty ++ be16 cl) ++ post) with (pre ++ nb ++ be16 ty ++ be16 cl ++ post)
      by (rewrite <- !app_assoc; reflexivity).
    rewrite Hun. cbn [bind].
    rewrite (sub_u16x _ _ (length pre + length nb) ty); [|apply sub_at2|exact Ht|reflexivity]. cbn [bind].
    rewrite (sub_u16x _ _ (length pre + length nb + 2) cl); [| |exact Hc|reflexivity].
    + cbn [bind]. f_equal. f_equal. rewrite !app_length, !be16_len. lia.
    + exists (pre ++ nb ++ be16 ty), post. rewrite !app_length, be16_len, <- !app_assoc. split; [reflexivity|lia].
Qed.

(* ---------- RDATA ---------- *)
Definition rdata_depth_ok (d : rdata) : Prop :=
  match d with
  | RName n => name_depth n <= 127
  | RSOA ns mb _ _ _ _ _ => name_depth ns <= 127 /\ name_depth mb <= 127
  | RMX _ mx => name_depth mx <= 127
  | RSRV _ _ _ tg => name_depth tg <= 127
  | _ => True
  end.

Definition cc_rdata (typ : N) (d : rdata) : Prop := forall pre t, tbl_ok pre t ->
  exists b t', pack_rdata true d (length pre) t = Ok (b, t') /\
    (forall post, tbl_ok (pre ++ b ++ post) t') /\
    (forall post, unpack_rdata (pre ++ b ++ post) (length pre) typ (rdlen_field d b) = Ok (d, length pre + length b)) /\
    (N.of_nat (length b) < 65536)%N.

Lemma name_len_small c n off t b t' : pack_name c n off t = Ok (b, t') -> length b <= 255.
Proof. intros H. apply pack_name_len in H. unfold name_pack_len in H. lia. Qed.

Lemma mod_small k : (N.of_nat k < 65536)%N -> N.to_nat (N.of_nat k mod 65536) = k.
Proof. intros H. rewrite N.mod_small by exact H. apply Nat2N.id. Qed.

Lemma cc_rdata_ok typ d : wf_rdata typ d -> rdata_depth_ok d -> cc_rdata typ d.
Proof.
  unfold wf_rdata, cc_rdata. destruct (kind_of_type typ) eqn:Ek, d; try contradiction;
    cbn [rdata_depth_ok pack_rdata rdlen_field]; intros Hw Hd pre t Hok; unfold unpack_rdata; rewrite Ek.
  - (* A *) destruct Hw as [Hl Hb]. do 2 eexists. split; [reflexivity|]. split; [intros; now apply tbl_ok_app|]. split; [|lia].
    intros post. cbn [N.eqb Pos.eqb].
    rewrite (sub_bytesx _ _ (length pre) 4 a); [|apply sub_at|reflexivity|auto]. cbn [bind]. reflexivity.
  - (* AAAA *) destruct Hw as [Hl Hb]. do 2 eexists. split; [reflexivity|]. split; [intros; now apply tbl_ok_app|]. split; [|lia].
    intros post. cbn [N.eqb Pos.eqb].
    rewrite (sub_bytesx _ _ (length pre) 16 a); [|apply sub_at|reflexivity|auto]. cbn [bind]. reflexivity.
  - (* NAME *) destruct (cc_name_ok _ Hw Hd pre t Hok) as (b & t1 & Hp & Htab & Hun).
    pose proof (name_len_small _ _ _ _ _ _ Hp) as Hlen.
    exists b, t1. split; [exact Hp|]. split; [exact Htab|]. split; [|lia].
    intros post. rewrite Hun. cbn [bind]. apply check_len_eq. rewrite mod_small by lia. lia.
  - (* SOA *) destruct Hw as (W1 & W2 & U1 & U2 & U3 & U4 & U5). destruct Hd as [D1 D2].
    destruct (cc_name_ok _ W1 D1 pre t Hok) as (b1 & t1 & Hp1 & Htab1 & Hun1). rewrite Hp1. cbn [bind].
    pose proof (Htab1 []) as Hok1. rewrite app_nil_r in Hok1.
    destruct (cc_name_ok _ W2 D2 (pre ++ b1) t1 Hok1) as (b2 & t2 & Hp2 & Htab2 & Hun2).
    rewrite app_length in Hp2. rewrite Hp2. cbn [bind].
    pose proof (name_len_small _ _ _ _ _ _ Hp1) as L1. pose proof (name_len_small _ _ _ _ _ _ Hp2) as L2.
    do 2 eexists. split; [reflexivity|]. split; [|split].
    + intros post. specialize (Htab2 (be32 serial ++ be32 refresh ++ be32 retry ++ be32 expire ++ be32 minttl ++ post)).
      rewrite <- !app_assoc in *. exact Htab2.
    + intros post.
      set (tail := be32 serial ++ be32 refresh ++ be32 retry ++ be32 expire ++ be32 minttl ++ post).
      replace (pre ++ (b1 ++ b2 ++ be32 serial ++ be32 refresh ++ be32 retry ++ be32 expire ++ be32 minttl) ++ post)
        with (pre ++ b1 ++ b2 ++ tail) by (unfold tail; rewrite <- !app_assoc; reflexivity).
      rewrite (Hun1 (b2 ++ tail)). cbn [bind].
      specialize (Hun2 tail). rewrite <- app_assoc, app_length in Hun2. rewrite Hun2. cbn [bind].
      set (o := length pre + length b1 + length b2).
      assert (S1 : forall k x rest front, length front = k ->
                sub (pre ++ b1 ++ b2 ++ front ++ x ++ rest) (o + k) x).
      { intros k x rest front Hk. exists (pre ++ b1 ++ b2 ++ front), rest.
        rewrite !app_length, <- !app_assoc. split; [reflexivity|unfold o; lia]. }
      unfold tail.
      rewrite (sub_u32x _ _ (o + 0) serial); [|apply (S1 0 _ _ []); reflexivity|exact U1|lia]. cbn [bind].
      rewrite (sub_u32x _ _ (o + 4) refresh); [|apply (S1 4 _ _ (be32 serial)); reflexivity|exact U2|lia]. cbn [bind].
      rewrite (sub_u32x _ _ (o + 8) retry);
        [|replace (be32 serial ++ be32 refresh ++ be32 retry ++ be32 expire ++ be32 minttl ++ post)
            with ((be32 serial ++ be32 refresh) ++ be32 retry ++ be32 expire ++ be32 minttl ++ post)
            by (rewrite <- !app_assoc; reflexivity); apply S1; reflexivity|exact U3|lia]. cbn [bind].
      rewrite (sub_u32x _ _ (o + 12) expire);
        [|replace (be32 serial ++ be32 refresh ++ be32 retry ++ be32 expire ++ be32 minttl ++ post)
            with ((be32 serial ++ be32 refresh ++ be32 retry) ++ be32 expire ++ be32 minttl ++ post)
            by (rewrite <- !app_assoc; reflexivity); apply S1; reflexivity|exact U4|lia]. cbn [bind].
      rewrite (sub_u32x _ _ (o + 16) minttl);
        [|replace (be32 serial ++ be32 refresh ++ be32 retry ++ be32 expire ++ be32 minttl ++ post)
            with ((be32 serial ++ be32 refresh ++ be32 retry ++ be32 expire) ++ be32 minttl ++ post)
            by (rewrite <- !app_assoc; reflexivity); apply S1; reflexivity|exact U5|lia]. cbn [bind].
      rewrite !app_length, !be32_len.
      rewrite check_len_eq; [f_equal; f_equal; unfold o; lia|].
      rewrite mod_small by lia. unfold o. lia.
    + rewrite !app_length, !be32_len. lia.
  - (* MX *) destruct Hw as [U W].
    assert (Hok2 : tbl_ok (pre ++ be16 pref) t) by now apply tbl_ok_app.
    destruct (cc_name_ok _ W Hd (pre ++ be16 pref) t Hok2) as (b1 & t1 & Hp & Htab & Hun).
    rewrite app_length, be16_len in Hp. rewrite Hp. cbn [bind].
    pose proof (name_len_small _ _ _ _ _ _ Hp) as L1.
    do 2 eexists. split; [reflexivity|]. split; [|split].
    + intros post. specialize (Htab post). rewrite <- !app_assoc in *. exact Htab.
    + intros post. replace (pre ++ (be16 pref ++ b1) ++ post) with (pre ++ be16 pref ++ b1 ++ post)
        by (rewrite <- !app_assoc; reflexivity).
      rewrite (sub_u16x _ _ (length pre) pref); [|apply sub_at|exact U|reflexivity]. cbn [bind].
      specialize (Hun post). rewrite <- app_assoc, app_length, be16_len in Hun. rewrite Hun. cbn [bind].
      rewrite app_length, be16_len. rewrite check_len_eq; [f_equal; f_equal; lia|]. rewrite mod_small by lia. lia.
    + rewrite app_length, be16_len. lia.
  - (* SRV *) destruct Hw as (U1 & U2 & U3 & W).
    set (front := be16 prio ++ be16 weight ++ be16 port).
    assert (Hfl : length front = 6) by reflexivity.
    assert (Hok2 : tbl_ok (pre ++ front) t) by now apply tbl_ok_app.
    destruct (cc_name_ok _ W Hd (pre ++ front) t Hok2) as (b1 & t1 & Hp & Htab & Hun).
    rewrite app_length, Hfl in Hp. rewrite Hp. cbn [bind].
    pose proof (name_len_small _ _ _ _ _ _ Hp) as L1.
    do 2 eexists. split; [reflexivity|]. split; [|split].
    + intros post. specialize (Htab post). unfold front in Htab. rewrite <- !app_assoc in *. exact Htab.
    + intros post.
      replace (pre ++ (be16 prio ++ be16 weight ++ be16 port ++ b1) ++ post)
        with (pre ++ be16 prio ++ be16 weight ++ be16 port ++ b1 ++ post) by (rewrite <- !app_assoc; reflexivity).
      rewrite (sub_u16x _ _ (length pre) prio); [|apply sub_at|exact U1|reflexivity]. cbn [bind].
      rewrite (sub_u16x _ _ (length pre + 2) weight); [|apply (sub_at2 pre (be16 prio))|exact U2|reflexivity]. cbn [bind].
      rewrite (sub_u16x _ _ (length pre + 2 + 2) port);
        [|exists (pre ++ be16 prio ++ be16 weight), (b1 ++ post); rewrite !app_length, !be16_len, <- !app_assoc;
          split; [reflexivity|lia]|exact U3|reflexivity]. cbn [bind].
      specialize (Hun post). unfold front in Hun. rewrite <- !app_assoc, app_length in Hun.
      replace (length pre + 2 + 2 + 2) with (length pre + length (be16 prio ++ be16 weight ++ be16 port)) by (change (length (be16 prio ++ be16 weight ++ be16 port)) with 6; lia).
      rewrite Hun. cbn [bind]. rewrite !app_length, !be16_len.
      rewrite check_len_eq; [f_equal; f_equal; cbn [length]; lia|]. rewrite mod_small by lia. cbn [length]. lia.
    + rewrite !app_length, !be16_len. lia.
  - (* raw *) destruct Hw as [Hb Hl].
    assert ((65535 <? N.of_nat (length data))%N = false) as -> by (apply N.ltb_ge; lia).
    do 2 eexists. split; [reflexivity|]. split; [intros; now apply tbl_ok_app|]. split; [|lia].
    intros post. rewrite mod_small by lia.
    rewrite (sub_bytesx _ _ (length pre) _ data); [|apply sub_at|reflexivity|reflexivity]. cbn [bind]. reflexivity.
Qed.

(* ---------- resource records ---------- *)
Definition rr_depth_ok (r : rr) : Prop := name_depth (r_name r) <= 127 /\ rdata_depth_ok (r_data r).

Definition cc_rr (r : rr) : Prop := forall pre t, tbl_ok pre t ->
  exists b t' r', pack_rr true r (length pre) t = Ok (b, t') /\
    (forall post, tbl_ok (pre ++ b ++ post) t') /\
    (forall post, unpack_rr (pre ++ b ++ post) (length pre) = Ok (r', length pre + length b)) /\
    rr_view r' = rr_view r.

Lemma rdlen_u16' d rb : (N.of_nat (length rb) < 65536)%N -> u16 (rdlen_field d rb).
Proof. unfold u16, rdlen_field. intros H. destruct d; try lia; rewrite N.mod_small; lia. Qed.

Lemma cc_rr_ok r : wf_rr r -> rr_depth_ok r -> cc_rr r.
Proof.
  intros (Wn & Wt & Wc & Wl & Wd) [Dn Dd] pre t Hok.
  destruct r as [name ty cl ttl rlen d]. cbn [r_name r_type r_class r_ttl r_data] in *.
  destruct (cc_name_ok _ Wn Dn pre t Hok) as (nb & t1 & Hp1 & Htab1 & Hun1).
  (* the RDATA octets depend only on the offset and the table, not on the header octets before them *)
  set (x0 := repeat 0%N 10).
  assert (Hok0 : tbl_ok (pre ++ nb ++ x0) t1) by (specialize (Htab1 x0); now rewrite app_nil_r in Htab1 || exact Htab1).
  assert (Hok0' : tbl_ok ((pre ++ nb) ++ x0) t1) by (rewrite <- app_assoc; specialize (Htab1 x0); exact Htab1 || exact Hok0).
  destruct (cc_rdata_ok ty d Wd Dd ((pre ++ nb) ++ x0) t1 Hok0') as (rb & t2 & Hp2 & _ & _ & Hsmall).
  rewrite !app_length in Hp2. change (length x0) with 10 in Hp2.
  set (x1 := be16 ty ++ be16 cl ++ be32 ttl ++ be16 (rdlen_field d rb)).
  assert (Hx1 : length x1 = 10) by reflexivity.
  assert (Hok1 : tbl_ok ((pre ++ nb) ++ x1) t1) by (rewrite <- app_assoc; exact (Htab1 x1)).
  destruct (cc_rdata_ok ty d Wd Dd ((pre ++ nb) ++ x1) t1 Hok1) as (rb' & t2' & Hp2' & Htab2 & Hun2 & _).
  rewrite !app_length, Hx1 in Hp2'. rewrite Hp2 in Hp2'. inversion Hp2'; subst rb' t2'. clear Hp2'.
  unfold pack_rr. cbn [r_name r_type r_class r_ttl r_data]. rewrite Hp1. cbn [bind]. rewrite Hp2. cbn [bind].
  exists (nb ++ be16 ty ++ be16 cl ++ be32 ttl ++ be16 (rdlen_field d rb) ++ rb), t2,
         (mkRR name ty cl ttl (rdlen_field d rb) d).
  split; [reflexivity|]. split; [|split; [|reflexivity]].
  - intros post. specialize (Htab2 post). unfold x1 in Htab2. rewrite <- !app_assoc in *. exact Htab2.
  - intros post. unfold unpack_rr.
    set (tail := be16 ty ++ be16 cl ++ be32 ttl ++ be16 (rdlen_field d rb) ++ rb ++ post).
    replace (pre ++ (nb ++ be16 ty ++ be16 cl ++ be32 ttl ++ be16 (rdlen_field d rb) ++ rb) ++ post)
      with (pre ++ nb ++ tail) by (unfold tail; rewrite <- !app_assoc; reflexivity).
    rewrite (Hun1 tail). cbn [bind]. set (o := length pre + length nb).
    assert (S1 : forall k x rest front, length front = k -> sub (pre ++ nb ++ front ++ x ++ rest) (o + k) x).
    { intros k x rest front Hk. exists (pre ++ nb ++ front), rest.
      rewrite !app_length, <- !app_assoc. split; [reflexivity|unfold o; lia]. }
    unfold tail.
    rewrite (sub_u16x _ _ (o + 0) ty); [|apply (S1 0 _ _ []); reflexivity|exact Wt|lia]. cbn [bind].
    rewrite (sub_u16x _ _ (o + 2) cl); [|apply (S1 2 _ _ (be16 ty)); reflexivity|exact Wc|lia]. cbn [bind].
    rewrite (sub_u32x _ _ (o + 4) ttl);
      [|replace (be16 ty ++ be16 cl ++ be32 ttl ++ be16 (rdlen_field d rb) ++ rb ++ post)
          with ((be16 ty ++ be16 cl) ++ be32 ttl ++ be16 (rdlen_field d rb) ++ rb ++ post)
          by (rewrite <- !app_assoc; reflexivity); apply S1; reflexivity|exact Wl|lia]. cbn [bind].
    rewrite (sub_u16x _ _ (o + 8) (rdlen_field d rb));
      [|replace (be16 ty ++ be16 cl ++ be32 ttl ++ be16 (rdlen_field d rb) ++ rb ++ post)
          with ((be16 ty ++ be16 cl ++ be32 ttl) ++ be16 (rdlen_field d rb) ++ rb ++ post)
          by (rewrite <- !app_assoc; reflexivity); apply S1; reflexivity|now apply rdlen_u16'|lia]. cbn [bind].
    specialize (Hun2 post). unfold x1 in Hun2. rewrite <- !app_assoc, !app_length in Hun2.
    rewrite !be16_len, be32_len in Hun2.
    match type of Hun2 with unpack_rdata _ ?o' _ _ = _ =>
      match goal with |- context [unpack_rdata _ ?og _ _] => replace og with o' by (unfold o; lia) end end.
    rewrite Hun2. cbn [bind]. f_equal. f_equal. rewrite !app_length, !be16_len, be32_len. lia.
Qed.

(* ---------- sections ---------- *)
Section CCList.
  Context {A V : Type} (plen : A -> nat) (pk : A -> nat -> tbl -> res (list N * tbl))
          (un : list N -> nat -> res (A * nat)) (P : A -> Prop) (vw : A -> V).
  Hypothesis Hlen : forall x off t b t', P x -> pk x off t = Ok (b, t') -> length b <= plen x.
  Hypothesis Hcc : forall x, P x -> forall pre t, tbl_ok pre t ->
    exists b t' x', pk x (length pre) t = Ok (b, t') /\
      (forall post, tbl_ok (pre ++ b ++ post) t') /\
      (forall post, un (pre ++ b ++ post) (length pre) = Ok (x', length pre + length b)) /\
      vw x' = vw x.

  Fixpoint unpack_list (n : nat) (msg : list N) (off : nat) : res (list A * nat) :=
    match n with
    | O => Ok ([], off)
    | S n' => do (x, o1) <- un msg off;
              do (xs, o2) <- unpack_list n' msg o1;
              Ok (x :: xs, o2)
    end.

  Lemma cc_list xs : Forall P xs -> forall pre t buflen, tbl_ok pre t ->
    length pre + sum_len plen xs <= buflen ->
    exists bs t' xs', pack_list plen pk None buflen xs (length pre) t = Ok (bs, t', length xs) /\
      (forall post, tbl_ok (pre ++ bs ++ post) t') /\
      (forall post, unpack_list (length xs) (pre ++ bs ++ post) (length pre) = Ok (xs', length pre + length bs)) /\
      map vw xs' = map vw xs /\ length bs <= sum_len plen xs.
  Proof.
    induction 1 as [|x xs Hx _ IH]; intros pre t buflen Hok Hfit.
    - exists [], t, []. cbn. repeat split; auto.
      + intros post. now apply tbl_ok_app.
      + intros post. f_equal. f_equal. lia.
    - cbn [sum_len fold_right] in Hfit. fold (sum_len plen xs) in Hfit.
      destruct (Hcc x Hx pre t Hok) as (b & t1 & x' & Hp & Htab & Hun & Hv).
      pose proof (Hlen _ _ _ _ _ Hx Hp) as Hb.
      assert (Hok1 : tbl_ok (pre ++ b) t1) by (specialize (Htab []); now rewrite app_nil_r in Htab).
      destruct (IH (pre ++ b) t1 buflen Hok1) as (bs & t2 & xs' & Hps & Htabs & Huns & Hvs & Hls).
      { rewrite app_length. lia. }
      rewrite app_length in Hps.
      exists (b ++ bs), t2, (x' :: xs'). cbn [pack_list over length]. rewrite Hp. cbn [bind].
      assert (buflen <? length pre + length b = false) as -> by (apply Nat.ltb_ge; lia).
      rewrite Hps. cbn [bind]. split; [reflexivity|]. split; [|split; [|split]].
      + intros post. specialize (Htabs post). rewrite <- !app_assoc in *. exact Htabs.
      + intros post. cbn [unpack_list].
        replace (pre ++ (b ++ bs) ++ post) with (pre ++ b ++ (bs ++ post)) by (rewrite <- !app_assoc; reflexivity).
        rewrite Hun. cbn [bind]. specialize (Huns post). rewrite <- app_assoc, app_length in Huns.
        rewrite Huns. cbn [bind]. f_equal. f_equal. rewrite app_length. lia.
      + cbn [map]. now rewrite Hv, Hvs.
      + cbn [sum_len fold_right]. fold (sum_len plen xs). rewrite app_length. lia.
  Qed.
End CCList.

Lemma unpack_qs_list n msg off : unpack_qs n msg off = unpack_list unpack_question n msg off.
Proof.
  revert off; induction n as [|n IH]; intros off; cbn [unpack_qs unpack_list]; [reflexivity|].
  destruct (unpack_question msg off) as [[q o]| | |]; cbn [bind]; try reflexivity; now rewrite IH.
Qed.
Lemma unpack_rrs_list n msg off : unpack_rrs n msg off = unpack_list unpack_rr n msg off.
Proof.
  revert off; induction n as [|n IH]; intros off; cbn [unpack_rrs unpack_list]; [reflexivity|].
  destruct (unpack_rr msg off) as [[q o]| | |]; cbn [bind]; try reflexivity; now rewrite IH.
Qed.

(* ---------- the whole message ---------- *)
Definition msg_depth_ok (m : msg) : Prop :=
  Forall q_depth_ok (m_qs m) /\ Forall rr_depth_ok (m_an m) /\ Forall rr_depth_ok (m_ns m) /\ Forall rr_depth_ok (m_ar m).

Lemma unpack_header_bytes h qd an ns ar rest : wf_header h -> u16 qd -> u16 an -> u16 ns -> u16 ar ->
  unpack_header (hdr_bytes (h_id h) (hdr_bits h) qd an ns ar ++ rest) = Ok (h, (qd, an, ns, ar), 12).
Proof.
  intros Hh Uq Ua Un Ur. destruct (hdr_roundtrip _ Hh) as (Hb16 & Hrt & _). destruct Hh as (Hid & _).
  set (msg := hdr_bytes (h_id h) (hdr_bits h) qd an ns ar ++ rest).
  assert (Hs : sub msg 0 (hdr_bytes (h_id h) (hdr_bits h) qd an ns ar)) by (exists [], rest; split; reflexivity).
  unfold hdr_bytes in Hs. split_sub Hs. norm.
  unfold unpack_header.
  assert (length msg <? 12 = false) as ->.
  { apply Nat.ltb_ge. unfold msg. rewrite app_length, hdr_bytes_len. lia. }
  rewrite (sub_u16x _ _ _ _ S Hid) by lia. cbn [bind].
  rewrite (sub_u16x _ _ _ _ S0 Hb16) by lia. cbn [bind].
  rewrite (sub_u16x _ _ _ _ S1 Uq) by lia. cbn [bind].
  rewrite (sub_u16x _ _ _ _ S2 Ua) by lia. cbn [bind].
  rewrite (sub_u16x _ _ _ _ S3 Un) by lia. cbn [bind].
  rewrite (sub_u16x _ _ _ _ Hs Ur) by lia. cbn [bind].
  rewrite Hrt. reflexivity.
Qed.

Definition cc_q_adapter q (Hq : wf_question q /\ q_depth_ok q) := cc_question_ok q (proj1 Hq) (proj2 Hq).

(* C02, compression ON: a well-formed message none of whose names has more than 10 labels is packed (into a buffer
   of Msg.Len octets) to wire data that decodes, whatever follows it, to a message with the same view *)
Theorem compressed_roundtrip m post : wf_msg m -> msg_depth_ok m ->
  exists out m', pack_msg (msg_len m) true 0 m = Ok out /\ unpack_msg (out ++ post) = Ok m' /\ view m' = view m /\
                 length out <= msg_len m.
Proof.
  intros (Hh & Fq & Fa & Fn & Fr & Cq & Ca & Cn & Cr) (Dq & Da & Dn & Dr).
  rewrite pack_msg_0. unfold pack_msg_nolimit. rewrite !too_many_false by assumption. cbn [orb].
  assert (msg_len m <? 12 = false) as -> by (apply Nat.ltb_ge; unfold msg_len; lia).
  set (hb := hdr_bytes (h_id (m_hdr m)) (hdr_bits (m_hdr m)) (N.of_nat (length (m_qs m)))
                       (N.of_nat (length (m_an m))) (N.of_nat (length (m_ns m))) (N.of_nat (length (m_ar m)))).
  assert (Hhb : length hb = 12) by apply hdr_bytes_len.
  assert (Hok0 : tbl_ok hb []) by constructor.
  (* questions *)
  assert (FQ : Forall (fun q => wf_question q /\ q_depth_ok q) (m_qs m)).
  { rewrite Forall_forall in *. intros q Hq. split; auto. }
  assert (FA : Forall (fun r => wf_rr r /\ rr_depth_ok r) (m_an m)) by (rewrite Forall_forall in *; intros r Hr; split; auto).
  assert (FN : Forall (fun r => wf_rr r /\ rr_depth_ok r) (m_ns m)) by (rewrite Forall_forall in *; intros r Hr; split; auto).
  assert (FR : Forall (fun r => wf_rr r /\ rr_depth_ok r) (m_ar m)) by (rewrite Forall_forall in *; intros r Hr; split; auto).
  assert (CCQ : forall x, (wf_question x /\ q_depth_ok x) -> forall pre t, tbl_ok pre t ->
            exists b t' x', pack_question true x (length pre) t = Ok (b, t') /\
              (forall post, tbl_ok (pre ++ b ++ post) t') /\
              (forall post, unpack_question (pre ++ b ++ post) (length pre) = Ok (x', length pre + length b)) /\ x' = x).
  { intros x [W D] pre t Hok. destruct (cc_question_ok x W D pre t Hok) as (b & t' & H1 & H2 & H3).
    exists b, t', x. auto. }
  assert (CCR : forall x, (wf_rr x /\ rr_depth_ok x) -> forall pre t, tbl_ok pre t ->
            exists b t' x', pack_rr true x (length pre) t = Ok (b, t') /\
              (forall post, tbl_ok (pre ++ b ++ post) t') /\
              (forall post, unpack_rr (pre ++ b ++ post) (length pre) = Ok (x', length pre + length b)) /\
              rr_view x' = rr_view x).
  { intros x [W D]. exact (cc_rr_ok x W D). }
  assert (LQ : forall x off t b t', (wf_question x /\ q_depth_ok x) -> pack_question true x off t = Ok (b, t') -> length b <= q_len x)
    by (intros; eapply pack_question_len; eauto).
  assert (LR : forall x off t b t', (wf_rr x /\ rr_depth_ok x) -> pack_rr true x off t = Ok (b, t') -> length b <= rr_len x)
    by (intros x off t b t' [W _] Hp; eapply pack_rr_len; eauto).
  unfold msg_len.
  destruct (cc_list q_len (pack_question true) unpack_question _ (fun q => q) LQ CCQ (m_qs m) FQ hb [] (msg_len m) Hok0)
    as (qb & t1 & qs' & Pq & Tq & Uq & Vq & Lq); [unfold msg_len; lia|].
  rewrite Hhb in Pq. unfold msg_len in Pq. rewrite Pq. cbn [bind].
  assert (Hok1 : tbl_ok (hb ++ qb) t1) by (specialize (Tq []); now rewrite app_nil_r in Tq).
  destruct (cc_list rr_len (pack_rr true) unpack_rr _ rr_view LR CCR (m_an m) FA (hb ++ qb) t1 (msg_len m) Hok1)
    as (ab & t2 & an' & Pa & Ta & Ua & Va & La); [rewrite app_length; unfold msg_len; lia|].
  rewrite app_length, Hhb in Pa. unfold msg_len in Pa. rewrite Pa. cbn [bind].
  assert (Hok2 : tbl_ok ((hb ++ qb) ++ ab) t2) by (specialize (Ta []); now rewrite app_nil_r in Ta).
  destruct (cc_list rr_len (pack_rr true) unpack_rr _ rr_view LR CCR (m_ns m) FN ((hb ++ qb) ++ ab) t2 (msg_len m) Hok2)
    as (nb & t3 & ns' & Pn & Tn & Un & Vn & Ln); [rewrite !app_length; unfold msg_len; lia|].
  rewrite !app_length, Hhb in Pn. unfold msg_len in Pn. rewrite Pn. cbn [bind].
  assert (Hok3 : tbl_ok (((hb ++ qb) ++ ab) ++ nb) t3) by (specialize (Tn []); now rewrite app_nil_r in Tn).
  destruct (cc_list rr_len (pack_rr true) unpack_rr _ rr_view LR CCR (m_ar m) FR (((hb ++ qb) ++ ab) ++ nb) t3 (msg_len m) Hok3)
    as (rb & t4 & ar' & Pr & Tr & Ur & Vr & Lr); [rewrite !app_length; unfold msg_len; lia|].
  rewrite !app_length, Hhb in Pr. unfold msg_len in Pr. rewrite Pr. cbn [bind].
  rewrite !Nat.eqb_refl. cbn [andb negb]. rewrite Nat.add_0_r, app_nil_r. fold hb.
  exists (hb ++ qb ++ ab ++ nb ++ rb), (mkMsg (m_hdr m) qs' an' ns' ar').
  split; [reflexivity|]. split; [|split].
  - unfold unpack_msg.
    replace ((hb ++ qb ++ ab ++ nb ++ rb) ++ post) with (hb ++ (qb ++ ab ++ nb ++ rb ++ post)) by (rewrite <- !app_assoc; reflexivity).
    unfold hb at 1. rewrite unpack_header_bytes by (auto using count_u16). cbn [bind]. rewrite !Nat2N.id. fold hb.
    rewrite unpack_qs_list.
    specialize (Uq (ab ++ nb ++ rb ++ post)). rewrite Hhb in Uq.
    replace (hb ++ qb ++ ab ++ nb ++ rb ++ post) with (hb ++ qb ++ (ab ++ nb ++ rb ++ post)) by reflexivity.
    rewrite Uq. cbn [bind]. rewrite unpack_rrs_list.
    specialize (Ua (nb ++ rb ++ post)). rewrite app_length, Hhb in Ua.
    replace ((hb ++ qb) ++ ab ++ nb ++ rb ++ post) with (hb ++ qb ++ ab ++ nb ++ rb ++ post) in Ua by (rewrite <- !app_assoc; reflexivity).
    rewrite Ua. cbn [bind]. rewrite unpack_rrs_list.
    specialize (Un (rb ++ post)). rewrite !app_length, Hhb in Un.
    replace (((hb ++ qb) ++ ab) ++ nb ++ rb ++ post) with (hb ++ qb ++ ab ++ nb ++ rb ++ post) in Un by (rewrite <- !app_assoc; reflexivity).
    rewrite Un. cbn [bind]. rewrite unpack_rrs_list.
    specialize (Ur post). rewrite !app_length, Hhb in Ur.
    replace ((((hb ++ qb) ++ ab) ++ nb) ++ rb ++ post) with (hb ++ qb ++ ab ++ nb ++ rb ++ post) in Ur by (rewrite <- !app_assoc; reflexivity).
    rewrite Ur. cbn [bind]. reflexivity.
  - unfold view. cbn [m_hdr m_qs m_an m_ns m_ar]. rewrite map_id in Vq. rewrite map_id in Vq. now rewrite Vq, Va, Vn, Vr.
  - rewrite !app_length, Hhb. lia.
Qed.

(* ---------- with a size limit: sections packed under a limit (C09, compression ON) ---------- *)
Section CCListLimit.
  Context {A V : Type} (plen : A -> nat) (pk : A -> nat -> tbl -> res (list N * tbl))
          (un : list N -> nat -> res (A * nat)) (P : A -> Prop) (vw : A -> V).
  Hypothesis Hlen : forall x off t b t', P x -> pk x off t = Ok (b, t') -> length b <= plen x.
  Hypothesis Hcc : forall x, P x -> forall pre t, tbl_ok pre t ->
    exists b t' x', pk x (length pre) t = Ok (b, t') /\
      (forall post, tbl_ok (pre ++ b ++ post) t') /\
      (forall post, un (pre ++ b ++ post) (length pre) = Ok (x', length pre + length b)) /\
      vw x' = vw x.

  Lemma cc_list_limit xs : Forall P xs -> forall limit pre t buflen, tbl_ok pre t ->
    length pre + sum_len plen xs <= buflen ->
    exists kept bs t' xs', sublist kept xs /\
      pack_list plen pk limit buflen xs (length pre) t = Ok (bs, t', length kept) /\
      (forall post, tbl_ok (pre ++ bs ++ post) t') /\
      (forall post, unpack_list un (length kept) (pre ++ bs ++ post) (length pre) = Ok (xs', length pre + length bs)) /\
      map vw xs' = map vw kept /\ length bs <= sum_len plen xs.
  Proof.
    induction 1 as [|x xs Hx _ IH]; intros limit pre t buflen Hok Hfit.
    - exists [], [], t, []. cbn. repeat split; auto.
      + constructor.
      + intros post. now apply tbl_ok_app.
      + intros post. f_equal. f_equal. lia.
    - cbn [sum_len fold_right] in Hfit. fold (sum_len plen xs) in Hfit. cbn [pack_list].
      destruct (over limit (length pre + plen x)).
      + destruct (IH limit pre t buflen Hok) as (kept & bs & t' & xs' & Hs & Hp & Ht & Hu & Hv & Hl); [lia|].
        exists kept, bs, t', xs'. repeat split; auto.
        * now constructor.
        * cbn [sum_len fold_right]. fold (sum_len plen xs). lia.
      + destruct (Hcc x Hx pre t Hok) as (b & t1 & x' & Hp & Htab & Hun & Hv).
        pose proof (Hlen _ _ _ _ _ Hx Hp) as Hb.
        assert (Hok1 : tbl_ok (pre ++ b) t1) by (specialize (Htab []); now rewrite app_nil_r in Htab).
        destruct (IH limit (pre ++ b) t1 buflen Hok1) as (kept & bs & t2 & xs' & Hs & Hps & Htabs & Huns & Hvs & Hls).
        { rewrite app_length. lia. }
        rewrite app_length in Hps.
        exists (x :: kept), (b ++ bs), t2, (x' :: xs'). rewrite Hp. cbn [bind].
        assert (buflen <? length pre + length b = false) as -> by (apply Nat.ltb_ge; lia).
        rewrite Hps. cbn [bind length]. split; [now constructor|]. split; [reflexivity|]. split; [|split; [|split]].
        * intros post. specialize (Htabs post). rewrite <- !app_assoc in *. exact Htabs.
        * intros post. cbn [unpack_list].
          replace (pre ++ (b ++ bs) ++ post) with (pre ++ b ++ (bs ++ post)) by (rewrite <- !app_assoc; reflexivity).
          rewrite Hun. cbn [bind]. specialize (Huns post). rewrite <- app_assoc, app_length in Huns.
          rewrite Huns. cbn [bind]. f_equal. f_equal. rewrite app_length. lia.
        * cbn [map]. now rewrite Hv, Hvs.
        * cbn [sum_len fold_right]. fold (sum_len plen xs). rewrite app_length. lia.
  Qed.
End CCListLimit.

Lemma pop_opt_depth m : Forall rr_depth_ok (m_ar m) ->
  Forall rr_depth_ok (snd (pop_opt (m_ar m))) /\ (forall o, fst (pop_opt (m_ar m)) = Some o -> rr_depth_ok o).
Proof.
  intros H. destruct (pop_opt (m_ar m)) as [o ar0] eqn:E. cbn [fst snd].
  destruct (pop_opt_facts rr_depth_ok _ _ _ H E) as (H1 & H2 & _). split; [exact H1|].
  intros x ->. now destruct (H2 x eq_refl).
Qed.

(* C09, compression ON: the size-limited compressed encoding decodes cleanly, whatever follows it, to a message whose
   header is the original one with TC := TC || (something omitted), whose questions / answers / authorities are
   (as views) order-preserving sublists of the original ones, and whose additionals are a sublist of the non-OPT
   additionals followed by the OPT record *)
Lemma unpack_list_snoc n1 : forall msg off xs1 o1 x o2, unpack_list unpack_rr n1 msg off = Ok (xs1, o1) ->
  unpack_rr msg o1 = Ok (x, o2) -> unpack_list unpack_rr (n1 + 1) msg off = Ok (xs1 ++ [x], o2).
Proof.
  induction n1 as [|n1 IHn]; intros msg off xs1 o1 x o2 H1 H2; cbn [unpack_list Nat.add] in *.
  - inversion H1; subst. rewrite H2. reflexivity.
  - destruct (unpack_rr msg off) as [[y oy]| | |]; cbn [bind] in *; try discriminate.
    destruct (unpack_list unpack_rr n1 msg oy) as [[ys oys]| | |] eqn:E; cbn [bind] in *; try discriminate.
    inversion H1; subst. rewrite (IHn _ _ _ _ _ _ E H2). reflexivity.
Qed.

Theorem compressed_truncated size m post : wf_msg m -> msg_depth_ok m -> 0 < size ->
  exists out m' kq ka kn kr,
    pack_msg (msg_len m) true size m = Ok out /\ unpack_msg (out ++ post) = Ok m' /\
    sublist kq (m_qs m) /\ sublist ka (m_an m) /\ sublist kn (m_ns m) /\ sublist kr (snd (pop_opt (m_ar m))) /\
    m_qs m' = kq /\ map rr_view (m_an m') = map rr_view ka /\ map rr_view (m_ns m') = map rr_view kn /\
    map rr_view (m_ar m') = map rr_view (kr ++ opt_list m) /\
    m_hdr m' = set_tc (m_hdr m) (h_tc (m_hdr m) ||
                 negb ((length kq =? length (m_qs m)) && (length ka =? length (m_an m)) &&
                       (length kn =? length (m_ns m)) && (length kr =? length (snd (pop_opt (m_ar m)))))).
Proof.
  intros Hw (Dq & Da & Dn & Dr) Hs. rewrite pack_msg_limit_eq by assumption.
  destruct (wf_pop m Hw) as (Far0 & Hopt' & Hnone & Hsum).
  destruct (pop_opt_depth m Dr) as (Dar0 & Dopt).
  destruct Hw as (Hh & Fq & Fa & Fn & Fr & Cq & Ca & Cn & Cr).
  unfold pack_msg_limit. rewrite !too_many_false by assumption. cbn [orb].
  assert (msg_len m <? 12 = false) as -> by (apply Nat.ltb_ge; unfold msg_len; lia).
  set (limit := limit_of size m). set (ar0 := snd (pop_opt (m_ar m))) in *.
  assert (FQ : Forall (fun q => wf_question q /\ q_depth_ok q) (m_qs m)) by (rewrite Forall_forall in *; intros q Hq; split; auto).
  assert (FA : Forall (fun r => wf_rr r /\ rr_depth_ok r) (m_an m)) by (rewrite Forall_forall in *; intros r Hr; split; auto).
  assert (FN : Forall (fun r => wf_rr r /\ rr_depth_ok r) (m_ns m)) by (rewrite Forall_forall in *; intros r Hr; split; auto).
  assert (FR : Forall (fun r => wf_rr r /\ rr_depth_ok r) ar0) by (rewrite Forall_forall in *; intros r Hr; split; auto).
  assert (CCQ : forall x, (wf_question x /\ q_depth_ok x) -> forall pre t, tbl_ok pre t ->
            exists b t' x', pack_question true x (length pre) t = Ok (b, t') /\
              (forall post, tbl_ok (pre ++ b ++ post) t') /\
              (forall post, unpack_question (pre ++ b ++ post) (length pre) = Ok (x', length pre + length b)) /\ x' = x).
  { intros x [W D] pre t Hok. destruct (cc_question_ok x W D pre t Hok) as (b & t' & H1 & H2 & H3). exists b, t', x. auto. }
  assert (CCR : forall x, (wf_rr x /\ rr_depth_ok x) -> forall pre t, tbl_ok pre t ->
            exists b t' x', pack_rr true x (length pre) t = Ok (b, t') /\
              (forall post, tbl_ok (pre ++ b ++ post) t') /\
              (forall post, unpack_rr (pre ++ b ++ post) (length pre) = Ok (x', length pre + length b)) /\
              rr_view x' = rr_view x).
  { intros x [W D]. exact (cc_rr_ok x W D). }
  assert (LQ : forall x off t b t', (wf_question x /\ q_depth_ok x) -> pack_question true x off t = Ok (b, t') -> length b <= q_len x)
    by (intros; eapply pack_question_len; eauto).
  assert (LR : forall x off t b t', (wf_rr x /\ rr_depth_ok x) -> pack_rr true x off t = Ok (b, t') -> length b <= rr_len x)
    by (intros x off t b t' [W _] Hp; eapply pack_rr_len; eauto).
  unfold opt_len in Hsum.
  (* the four sections, against ANY 12 header octets hb: the packing calls do not read the buffer *)
  assert (Sect : forall hb, length hb = 12 ->
    exists kq ka kn kr qb ab nb rb t1 t2 t3 t4 qs' an' ns' ar',
      sublist kq (m_qs m) /\ sublist ka (m_an m) /\ sublist kn (m_ns m) /\ sublist kr ar0 /\
      pack_list q_len (pack_question true) limit (msg_len m) (m_qs m) 12 [] = Ok (qb, t1, length kq) /\
      pack_list rr_len (pack_rr true) limit (msg_len m) (m_an m) (12 + length qb) t1 = Ok (ab, t2, length ka) /\
      pack_list rr_len (pack_rr true) limit (msg_len m) (m_ns m) (12 + length qb + length ab) t2 = Ok (nb, t3, length kn) /\
      pack_list rr_len (pack_rr true) limit (msg_len m) ar0 (12 + length qb + length ab + length nb) t3 = Ok (rb, t4, length kr) /\
      tbl_ok (hb ++ qb ++ ab ++ nb ++ rb) t4 /\
      12 + length qb + length ab + length nb + length rb <= 12 + sum_len q_len (m_qs m) + sum_len rr_len (m_an m) +
                                                            sum_len rr_len (m_ns m) + sum_len rr_len ar0 /\
      (forall post, unpack_list unpack_question (length kq) (hb ++ qb ++ ab ++ nb ++ rb ++ post) 12 = Ok (qs', 12 + length qb) /\
                    unpack_list unpack_rr (length ka) (hb ++ qb ++ ab ++ nb ++ rb ++ post) (12 + length qb) = Ok (an', 12 + length qb + length ab) /\
                    unpack_list unpack_rr (length kn) (hb ++ qb ++ ab ++ nb ++ rb ++ post) (12 + length qb + length ab) = Ok (ns', 12 + length qb + length ab + length nb) /\
                    unpack_list unpack_rr (length kr) (hb ++ qb ++ ab ++ nb ++ rb ++ post) (12 + length qb + length ab + length nb) = Ok (ar', 12 + length qb + length ab + length nb + length rb)) /\
      qs' = kq /\ map rr_view an' = map rr_view ka /\ map rr_view ns' = map rr_view kn /\ map rr_view ar' = map rr_view kr).
  { intros hb Hhb. assert (Hok0 : tbl_ok hb []) by constructor.
    destruct (cc_list_limit q_len (pack_question true) unpack_question _ (fun q => q) LQ CCQ (m_qs m) FQ limit hb [] (msg_len m) Hok0)
      as (kq & qb & t1 & qs' & Sq & Pq & Tq & Uq & Vq & Lq); [unfold msg_len; lia|].
    rewrite Hhb in Pq.
    assert (Hok1 : tbl_ok (hb ++ qb) t1) by (specialize (Tq []); now rewrite app_nil_r in Tq).
    destruct (cc_list_limit rr_len (pack_rr true) unpack_rr _ rr_view LR CCR (m_an m) FA limit (hb ++ qb) t1 (msg_len m) Hok1)
      as (ka & ab & t2 & an' & Sa & Pa & Ta & Ua & Va & La); [rewrite app_length; unfold msg_len; lia|].
    rewrite app_length, Hhb in Pa.
    assert (Hok2 : tbl_ok ((hb ++ qb) ++ ab) t2) by (specialize (Ta []); now rewrite app_nil_r in Ta).
    destruct (cc_list_limit rr_len (pack_rr true) unpack_rr _ rr_view LR CCR (m_ns m) FN limit ((hb ++ qb) ++ ab) t2 (msg_len m) Hok2)
      as (kn & nb & t3 & ns' & Sn & Pn & Tn & Un & Vn & Ln); [rewrite !app_length; unfold msg_len; lia|].
    rewrite !app_length, Hhb in Pn.
    assert (Hok3 : tbl_ok (((hb ++ qb) ++ ab) ++ nb) t3) by (specialize (Tn []); now rewrite app_nil_r in Tn).
    destruct (cc_list_limit rr_len (pack_rr true) unpack_rr _ rr_view LR CCR ar0 FR limit (((hb ++ qb) ++ ab) ++ nb) t3 (msg_len m) Hok3)
      as (kr & rb & t4 & ar' & Sr & Pr & Tr & Ur & Vr & Lr); [rewrite !app_length; unfold msg_len; lia|].
    rewrite !app_length, Hhb in Pr.
    exists kq, ka, kn, kr, qb, ab, nb, rb, t1, t2, t3, t4, qs', an', ns', ar'.
    split; [exact Sq|]. split; [exact Sa|]. split; [exact Sn|]. split; [exact Sr|].
    split; [exact Pq|]. split; [exact Pa|]. split; [exact Pn|]. split; [exact Pr|].
    split. { specialize (Tr []). rewrite app_nil_r, <- !app_assoc in Tr. exact Tr. }
    split; [lia|]. split.
    - intros post0.
      specialize (Uq (ab ++ nb ++ rb ++ post0)). rewrite Hhb in Uq.
      specialize (Ua (nb ++ rb ++ post0)). rewrite app_length, Hhb, <- !app_assoc in Ua.
      specialize (Un (rb ++ post0)). rewrite !app_length, Hhb, <- !app_assoc in Un.
      specialize (Ur post0). rewrite !app_length, Hhb, <- !app_assoc in Ur.
      repeat split; assumption.
    - rewrite map_id in Vq. rewrite map_id in Vq. repeat split; assumption. }
  (* fix the counts with a first instance, then build the real header from them *)
  destruct (Sect (repeat 0%N 12) eq_refl) as (kq0 & ka0 & kn0 & kr0 & qb & ab & nb & rb & t1 & t2 & t3 & t4 & _ & _ & _ & _ &
                                              _ & _ & _ & _ & Pq & Pa & Pn & Pr & _ & Lbody & _).
  rewrite Pq. cbn [bind]. rewrite Pa. cbn [bind]. rewrite Pn. cbn [bind]. rewrite Pr. cbn [bind].
  set (omitted := negb ((length kq0 =? length (m_qs m)) && (length ka0 =? length (m_an m)) &&
                        (length kn0 =? length (m_ns m)) && (length kr0 =? length ar0))).
  set (h' := set_tc (m_hdr m) (h_tc (m_hdr m) || omitted)).
  assert (Hh' : wf_header h') by (apply wf_header_set_tc; exact Hh).
  assert (Hbits : hdr_bits h' = if omitted then N.lor (hdr_bits (m_hdr m)) 512 else hdr_bits (m_hdr m)).
  { unfold h'. destruct omitted; [rewrite orb_true_r; symmetry; now apply hdr_bits_set_tc|rewrite orb_false_r, set_tc_same; reflexivity]. }
  assert (Hid : h_id h' = h_id (m_hdr m)) by (unfold h'; destruct (m_hdr m); reflexivity).
  rewrite <- Hbits, <- Hid.
  destruct (fst (pop_opt (m_ar m))) as [o|] eqn:Eo.
  - destruct (Hopt' o eq_refl) as [Wo Hlo]. pose proof (Dopt o eq_refl) as Do.
    set (hb := hdr_bytes (h_id h') (hdr_bits h') (N.of_nat (length kq0)) (N.of_nat (length ka0)) (N.of_nat (length kn0))
                         (N.of_nat (length kr0 + 1))).
    destruct (Sect hb (hdr_bytes_len _ _ _ _ _ _)) as (kq & ka & kn & kr & qb' & ab' & nb' & rb' & t1' & t2' & t3' & t4' &
        qs' & an' & ns' & ar' & Sq & Sa & Sn & Sr & Pq' & Pa' & Pn' & Pr' & Tall & _ & Uall & Vq & Va & Vn & Vr).
    rewrite Pq in Pq'. inversion Pq' as [[E1 E2 E3]]; subst qb' t1'.
    rewrite Pa in Pa'. inversion Pa' as [[E4 E5 E6]]; subst ab' t2'.
    rewrite Pn in Pn'. inversion Pn' as [[E7 E8 E9]]; subst nb' t3'.
    rewrite Pr in Pr'. inversion Pr' as [[E10 E11 E12]]; subst rb' t4'.
    assert (Hhb : length hb = 12) by apply hdr_bytes_len.
    assert (HokH4 : tbl_ok ((((hb ++ qb) ++ ab) ++ nb) ++ rb) t4) by (rewrite <- !app_assoc; exact Tall).
    destruct (cc_rr_ok o Wo Do ((((hb ++ qb) ++ ab) ++ nb) ++ rb) t4 HokH4) as (ob & t5 & o' & Po & _ & Uo & Vo).
    rewrite !app_length, Hhb in Po.
    replace (12 + length (qb ++ ab ++ nb ++ rb)) with (12 + length qb + length ab + length nb + length rb)
      by (rewrite !app_length; lia).
    rewrite Po. cbn [bind]. pose proof (pack_rr_len _ _ _ _ _ _ Wo Po) as Lo.
    match goal with |- context [if ?b then Err _ else _] => assert (b = false) as -> by (apply Nat.ltb_ge; unfold msg_len; lia) end.
    cbn [bind]. fold hb.
    exists (hb ++ (qb ++ ab ++ nb ++ rb) ++ ob), (mkMsg h' qs' an' ns' (ar' ++ [o'])), kq, ka, kn, kr.
    split; [reflexivity|]. split.
    + unfold unpack_msg.
      replace ((hb ++ (qb ++ ab ++ nb ++ rb) ++ ob) ++ post) with (hb ++ (qb ++ ab ++ nb ++ rb ++ ob ++ post))
        by (rewrite <- !app_assoc; reflexivity).
      unfold hb at 1. rewrite unpack_header_bytes; [|exact Hh'| | | |].
      2,3,4:(match goal with |- u16 (N.of_nat (length ?k)) => idtac end).
      2:{ unfold u16. rewrite E3. apply sublist_length in Sq. unfold count_ok in Cq. lia. }
      2:{ unfold u16. rewrite E6. apply sublist_length in Sa. unfold count_ok in Ca. lia. }
      2:{ unfold u16. rewrite E9. apply sublist_length in Sn. unfold count_ok in Cn. lia. }
      2:{ unfold u16. rewrite E12. apply sublist_length in Sr. unfold count_ok in Cr. lia. }
      cbn [bind]. rewrite !Nat2N.id. fold hb.
      destruct (Uall (ob ++ post)) as (Uq & Ua & Un & Ur).
      rewrite unpack_qs_list, E3, Uq. cbn [bind].
      rewrite unpack_rrs_list, E6, Ua. cbn [bind].
      rewrite unpack_rrs_list, E9, Un. cbn [bind].
      rewrite unpack_rrs_list, E12.
      specialize (Uo post). rewrite !app_length, Hhb, <- !app_assoc in Uo.
      rewrite (unpack_list_snoc _ _ _ _ _ _ _ Ur Uo). cbn [bind]. reflexivity.
    + cbn [m_hdr m_qs m_an m_ns m_ar]. unfold opt_list. rewrite Eo.
      split; [exact Sq|]. split; [exact Sa|]. split; [exact Sn|]. split; [exact Sr|].
      split; [exact Vq|]. split; [exact Va|]. split; [exact Vn|].
      split; [rewrite !map_app; cbn [map]; now rewrite Vr, Vo|].
      unfold h', omitted. rewrite E3, E6, E9, E12. reflexivity.
  - cbn [bind].
    set (hb := hdr_bytes (h_id h') (hdr_bits h') (N.of_nat (length kq0)) (N.of_nat (length ka0)) (N.of_nat (length kn0))
                         (N.of_nat (length kr0 + 0))).
    destruct (Sect hb (hdr_bytes_len _ _ _ _ _ _)) as (kq & ka & kn & kr & qb' & ab' & nb' & rb' & t1' & t2' & t3' & t4' &
        qs' & an' & ns' & ar' & Sq & Sa & Sn & Sr & Pq' & Pa' & Pn' & Pr' & Tall & _ & Uall & Vq & Va & Vn & Vr).
    rewrite Pq in Pq'. inversion Pq' as [[E1 E2 E3]]; subst qb' t1'.
    rewrite Pa in Pa'. inversion Pa' as [[E4 E5 E6]]; subst ab' t2'.
    rewrite Pn in Pn'. inversion Pn' as [[E7 E8 E9]]; subst nb' t3'.
    rewrite Pr in Pr'. inversion Pr' as [[E10 E11 E12]]; subst rb' t4'.
    fold hb.
    exists (hb ++ (qb ++ ab ++ nb ++ rb) ++ []), (mkMsg h' qs' an' ns' ar'), kq, ka, kn, kr.
    split; [reflexivity|]. split.
    + unfold unpack_msg.
      replace ((hb ++ (qb ++ ab ++ nb ++ rb) ++ []) ++ post) with (hb ++ (qb ++ ab ++ nb ++ rb ++ post))
        by (rewrite app_nil_r, <- !app_assoc; reflexivity).
      unfold hb at 1. rewrite unpack_header_bytes; [|exact Hh'| | | |].
      2:{ unfold u16. rewrite E3. apply sublist_length in Sq. unfold count_ok in Cq. lia. }
      2:{ unfold u16. rewrite E6. apply sublist_length in Sa. unfold count_ok in Ca. lia. }
      2:{ unfold u16. rewrite E9. apply sublist_length in Sn. unfold count_ok in Cn. lia. }
      2:{ unfold u16. rewrite Nat.add_0_r, E12. apply sublist_length in Sr. rewrite (Hnone eq_refl) in Sr. unfold count_ok in Cr. lia. }
      cbn [bind]. rewrite !Nat2N.id. fold hb.
      destruct (Uall post) as (Uq & Ua & Un & Ur).
      rewrite unpack_qs_list, E3, Uq. cbn [bind].
      rewrite unpack_rrs_list, E6, Ua. cbn [bind].
      rewrite unpack_rrs_list, E9, Un. cbn [bind].
      rewrite unpack_rrs_list, Nat.add_0_r, E12, Ur. cbn [bind]. reflexivity.
    + cbn [m_hdr m_qs m_an m_ns m_ar]. unfold opt_list. rewrite Eo, app_nil_r.
      split; [exact Sq|]. split; [exact Sa|]. split; [exact Sn|]. split; [exact Sr|].
      split; [exact Vq|]. split; [exact Va|]. split; [exact Vn|]. split; [exact Vr|].
      unfold h', omitted. rewrite E3, E6, E9, E12. reflexivity.
Qed.

(* ---------- the depth hypotheses are free: a well-formed name has at most 127 labels ---------- *)
(* (after the fix of finding K1 the decoder follows up to 127 pointers, one per label of the longest legal name) *)
Lemma raw_len_ge2 ls : Forall wf_label ls -> 2 * length ls <= length (raw ls).
Proof.
  induction 1 as [|l ls [Hl _] _ IH]; cbn [raw length]; [lia|]. rewrite app_length. lia.
Qed.

Lemma wf_name_depth_le n : wf_name n -> name_depth n <= 127.
Proof.
  intros Hw. destruct (wf_name_depth n Hw) as (ls & _ & (Hf & Hl) & ->).
  pose proof (raw_len_ge2 ls Hf). lia.
Qed.

Lemma wf_q_depth q : wf_question q -> q_depth_ok q.
Proof. intros (Hn & _). apply wf_name_depth_le, Hn. Qed.

Lemma wf_rdata_depth typ d : wf_rdata typ d -> rdata_depth_ok d.
Proof.
  unfold wf_rdata. destruct (kind_of_type typ), d; try contradiction; cbn [rdata_depth_ok]; try exact (fun _ => I).
  - apply wf_name_depth_le.
  - intros (H1 & H2 & _). split; apply wf_name_depth_le; assumption.
  - intros (_ & H). apply wf_name_depth_le, H.
  - intros (_ & _ & _ & H). apply wf_name_depth_le, H.
Qed.

Lemma wf_rr_depth r : wf_rr r -> rr_depth_ok r.
Proof.
  intros (Hn & _ & _ & _ & Hd). split; [apply wf_name_depth_le, Hn|]. eapply wf_rdata_depth, Hd.
Qed.

Lemma wf_msg_depth m : wf_msg m -> msg_depth_ok m.
Proof.
  intros (_ & Fq & Fa & Fn & Fr & _). unfold msg_depth_ok.
  split; [exact (Forall_impl _ wf_q_depth Fq)|].
  split; [exact (Forall_impl _ wf_rr_depth Fa)|].
  split; [exact (Forall_impl _ wf_rr_depth Fn)|exact (Forall_impl _ wf_rr_depth Fr)].
Qed.

(* C02, compression ON, unconditional: EVERY well-formed message packs (into a buffer of Msg.Len octets) to wire data
   that decodes, whatever follows it, to a message with the same view. *)
Theorem compressed_roundtrip_all m post : wf_msg m ->
  exists out m', pack_msg (msg_len m) true 0 m = Ok out /\ unpack_msg (out ++ post) = Ok m' /\ view m' = view m /\
                 length out <= msg_len m.
Proof. intros Hw. apply compressed_roundtrip; [exact Hw|apply wf_msg_depth, Hw]. Qed.

Theorem compressed_truncated_all size m post : wf_msg m -> 0 < size ->
  exists out m' kq ka kn kr,
    pack_msg (msg_len m) true size m = Ok out /\ unpack_msg (out ++ post) = Ok m' /\
    sublist kq (m_qs m) /\ sublist ka (m_an m) /\ sublist kn (m_ns m) /\ sublist kr (snd (pop_opt (m_ar m))) /\
    m_qs m' = kq /\ map rr_view (m_an m') = map rr_view ka /\ map rr_view (m_ns m') = map rr_view kn /\
    map rr_view (m_ar m') = map rr_view (kr ++ opt_list m) /\
    m_hdr m' = set_tc (m_hdr m) (h_tc (m_hdr m) ||
                 negb ((length kq =? length (m_qs m)) && (length ka =? length (m_an m)) &&
                       (length kn =? length (m_ns m)) && (length kr =? length (snd (pop_opt (m_ar m)))))).
Proof. intros Hw Hs. apply compressed_truncated; [exact Hw|apply wf_msg_depth, Hw|exact Hs]. Qed.
