(* Codec/SafetyProofs.v — the decoder is total: for EVERY list of octets, [unpack_msg] neither
   panics (no slice/index out of range) nor runs out of fuel (terminates, also on pointer loops). *)
From Mos Require Import Base.Prelude Codec.Name Codec.Msg Codec.NameProofs.

Lemma u16_at_good msg off : off <= length msg -> good msg (u16_at msg off).
Proof.
  intros H. unfold u16_at.
  assert (length msg <? off = false) as -> by (apply Nat.ltb_ge; lia).
  destruct (length msg - off <? 2) eqn:E; [exact I|]. apply Nat.ltb_ge in E.
  destruct (get_some msg off) as [a ->]; [lia|].
  destruct (get_some msg (S off)) as [b ->]; [lia|]. cbn. lia.
Qed.

Lemma u32_at_good msg off : off <= length msg -> good msg (u32_at msg off).
Proof.
  intros H. unfold u32_at.
  assert (length msg <? off = false) as -> by (apply Nat.ltb_ge; lia).
  destruct (length msg - off <? 4) eqn:E; [exact I|]. apply Nat.ltb_ge in E.
  destruct (get_some msg off) as [a ->]; [lia|].
  destruct (get_some msg (S off)) as [b ->]; [lia|].
  destruct (get_some msg (S (S off))) as [c ->]; [lia|].
  destruct (get_some msg (S (S (S off)))) as [d ->]; [lia|]. cbn. lia.
Qed.

Lemma bytes_at_good msg off l : off <= length msg -> good msg (bytes_at msg off l).
Proof.
  intros H. unfold bytes_at.
  assert (length msg <? off = false) as -> by (apply Nat.ltb_ge; lia).
  destruct (length msg - off <? l) eqn:E; [exact I|]. apply Nat.ltb_ge in E.
  destruct (slice_some msg off (off + l)) as [s ->]; [lia|lia|]. cbn. lia.
Qed.

Ltac step := apply bind_good; [ | intros ? ? _ ?; cbn beta iota ].

Lemma unpack_question_good msg off : good msg (unpack_question msg off).
Proof.
  unfold unpack_question.
  step; [apply unpack_name_good|].
  step; [now apply u16_at_good|].
  step; [now apply u16_at_good|].
  cbn. assumption.
Qed.

Lemma check_len_good {A} msg a b len (v : A) o : o <= length msg -> good msg (check_len a b len (v, o)).
Proof. intros H. unfold check_len. destruct (Nat.eqb _ _); cbn; auto. Qed.

Lemma unpack_rdata_good msg off typ len : off <= length msg -> good msg (unpack_rdata msg off typ len).
Proof.
  intros H. unfold unpack_rdata. destruct (kind_of_type typ).
  - destruct (len =? 4)%N; [|exact I]. step; [now apply bytes_at_good|]. cbn. assumption.
  - destruct (len =? 16)%N; [|exact I]. step; [now apply bytes_at_good|]. cbn. assumption.
  - step; [apply unpack_name_good|]. now apply check_len_good.
  - step; [apply unpack_name_good|].
    step; [apply unpack_name_good|].
    step; [now apply u32_at_good|].
    step; [now apply u32_at_good|].
    step; [now apply u32_at_good|].
    step; [now apply u32_at_good|].
    step; [now apply u32_at_good|].
    now apply check_len_good.
  - step; [now apply u16_at_good|].
    step; [apply unpack_name_good|]. now apply check_len_good.
  - step; [now apply u16_at_good|].
    step; [now apply u16_at_good|].
    step; [now apply u16_at_good|].
    step; [apply unpack_name_good|]. now apply check_len_good.
  - step; [now apply bytes_at_good|]. cbn. assumption.
Qed.

Lemma unpack_rr_good msg off : good msg (unpack_rr msg off).
Proof.
  unfold unpack_rr.
  step; [apply unpack_name_good|].
  step; [now apply u16_at_good|].
  step; [now apply u16_at_good|].
  step; [now apply u32_at_good|].
  step; [now apply u16_at_good|].
  step; [now apply unpack_rdata_good|].
  cbn. assumption.
Qed.

Lemma unpack_qs_good n : forall msg off, off <= length msg -> good msg (unpack_qs n msg off).
Proof.
  induction n as [|n IH]; intros msg off H; cbn [unpack_qs]; [cbn; exact H|].
  step; [apply unpack_question_good|].
  step; [now apply IH|]. cbn. assumption.
Qed.

Lemma unpack_rrs_good n : forall msg off, off <= length msg -> good msg (unpack_rrs n msg off).
Proof.
  induction n as [|n IH]; intros msg off H; cbn [unpack_rrs]; [cbn; exact H|].
  step; [apply unpack_rr_good|].
  step; [now apply IH|]. cbn. assumption.
Qed.

Lemma unpack_header_good msg : good msg (unpack_header msg).
Proof.
  unfold unpack_header. destruct (length msg <? 12) eqn:E; [exact I|]. apply Nat.ltb_ge in E.
  step; [apply u16_at_good; lia|].
  step; [now apply u16_at_good|].
  step; [now apply u16_at_good|].
  step; [now apply u16_at_good|].
  step; [now apply u16_at_good|].
  step; [now apply u16_at_good|].
  cbn. assumption.
Qed.

Lemma good_safe {A} msg (r : res (A * nat)) : good msg r -> safe r.
Proof. destruct r as [[a o]| | |]; cbn; intros H; split; congruence || contradiction. Qed.

Theorem unpack_msg_safe bs : safe (unpack_msg bs).
Proof.
  unfold unpack_msg.
  pose proof (unpack_header_good bs) as Hh.
  destruct (unpack_header bs) as [[[h [[[qd an] ns] ar]] o0]| | |]; cbn in Hh |- *;
    try (split; congruence); try contradiction.
  pose proof (unpack_qs_good (N.to_nat qd) bs o0 Hh) as H1.
  destruct (unpack_qs (N.to_nat qd) bs o0) as [[qs o1]| | |]; cbn in H1 |- *;
    try (split; congruence); try contradiction.
  pose proof (unpack_rrs_good (N.to_nat an) bs o1 H1) as H2.
  destruct (unpack_rrs (N.to_nat an) bs o1) as [[ans o2]| | |]; cbn in H2 |- *;
    try (split; congruence); try contradiction.
  pose proof (unpack_rrs_good (N.to_nat ns) bs o2 H2) as H3.
  destruct (unpack_rrs (N.to_nat ns) bs o2) as [[nss o3]| | |]; cbn in H3 |- *;
    try (split; congruence); try contradiction.
  pose proof (unpack_rrs_good (N.to_nat ar) bs o3 H3) as H4.
  destruct (unpack_rrs (N.to_nat ar) bs o3) as [[ars o4]| | |]; cbn in H4 |- *;
    try (split; congruence); try contradiction.
Qed.

(* name-level statement with the concrete fuel bound (termination on pointer loops) *)
Theorem unpack_name_terminates msg off fuel :
  381 < fuel -> safe (unpack_name_go fuel msg off 0 off []).
Proof.
  intros Hf. destruct (Nat.le_gt_cases off (length msg)) as [H|H].
  - eapply good_safe. apply unpack_name_go_good; cbn [length]; lia.
  - destruct fuel as [|f]; [lia|]. rewrite unpack_name_go_beyond by lia. split; congruence.
Qed.
