(* Codec/TruncProofs.v — Msg.Pack with a size limit (C09): totality on well-formed messages, the size
   bound (with and without compression), "nothing omitted when it fits", and — without compression —
   the exact octets written: the canonical encoding of the truncated message [trunc]. *)
From Mos Require Import Base.Prelude Codec.Name Codec.Msg Codec.Spec Codec.NameProofs Codec.SafetyProofs
  Codec.WfProofs Codec.RoundtripProofs.
From Coq Require Import ZifyN ZifyNat ZifyBool.

Lemma ok_pair_inj {A B} (a c : A) (b d : B) : @Ok (A * B) (a, b) = Ok (c, d) -> a = c /\ b = d.
Proof. intros H; inversion H; auto. Qed.

Lemma ok_inj {A} (a b : A) : Ok a = Ok b -> a = b.
Proof. intros H; inversion H; auto. Qed.

(* ---------- A. a packed name is never longer than its uncompressed form ---------- *)
Lemma pack_name_go_len fuel c : forall rest off t acc b t',
  pack_name_go fuel c rest off t acc = Ok (b, t') -> length b <= length acc + length rest + 1.
Proof.
  induction fuel as [|f IH]; intros rest off t acc b t' H.
  - destruct rest; cbn in H; [|discriminate]. inversion H; subst. rewrite app_length. cbn. lia.
  - destruct rest as [|ch tl]; cbn [pack_name_go] in H.
    + inversion H; subst. rewrite app_length. cbn. lia.
    + destruct (ch =? 0)%N eqn:E0; [discriminate|].
      destruct (63 <? ch)%N; [discriminate|].
      destruct (length tl <? N.to_nat ch) eqn:El; [discriminate|].
      apply Nat.ltb_ge in El. apply N.eqb_neq in E0.
      destruct (if c then tbl_find (ch :: tl) t else None) as [p|].
      * inversion H; subst. rewrite app_length. cbn [length]. lia.
      * apply IH in H. rewrite app_length in H. cbn [length] in H.
        rewrite firstn_length, skipn_length in H. cbn [length]. lia.
Qed.

Lemma pack_name_len c n off t b t' : pack_name c n off t = Ok (b, t') -> length b <= name_pack_len n.
Proof.
  unfold pack_name, name_pack_len. destruct (254 <? length n) eqn:E; [discriminate|].
  apply Nat.ltb_ge in E. intros H. apply pack_name_go_len in H. cbn [length] in H. lia.
Qed.

Lemma pack_question_len c q off t b t' : pack_question c q off t = Ok (b, t') -> length b <= q_len q.
Proof.
  unfold pack_question, q_len. destruct (pack_name c (q_name q) off t) as [[nb t1]| | |] eqn:E; cbn [bind]; try discriminate.
  intros H. apply ok_pair_inj in H as [<- <-]. apply pack_name_len in E. rewrite !app_length, !be16_len. lia.
Qed.

Lemma pack_rdata_len c typ d off t b t' : wf_rdata typ d ->
  pack_rdata c d off t = Ok (b, t') -> length b <= rdata_len d.
Proof.
  unfold wf_rdata. destruct (kind_of_type typ), d; try contradiction; cbn [pack_rdata rdata_len].
  - intros [Hl _] H. inversion H; subst. lia.
  - intros [Hl _] H. inversion H; subst. lia.
  - intros _ H. now apply pack_name_len in H.
  - intros _. destruct (pack_name c ns off t) as [[b1 t1]| | |] eqn:E1; cbn [bind]; try discriminate.
    destruct (pack_name c mbox (off + length b1) t1) as [[b2 t2]| | |] eqn:E2; cbn [bind]; try discriminate.
    intros H. apply ok_pair_inj in H as [<- <-]. apply pack_name_len in E1, E2. rewrite !app_length, !be32_len. lia.
  - intros _. destruct (pack_name c mx (off + 2) t) as [[b1 t1]| | |] eqn:E1; cbn [bind]; try discriminate.
    intros H. apply ok_pair_inj in H as [<- <-]. apply pack_name_len in E1. rewrite !app_length, !be16_len. lia.
  - intros _. destruct (pack_name c target (off + 6) t) as [[b1 t1]| | |] eqn:E1; cbn [bind]; try discriminate.
    intros H. apply ok_pair_inj in H as [<- <-]. apply pack_name_len in E1. rewrite !app_length, !be16_len. lia.
  - intros [_ Hl]. destruct (65535 <? N.of_nat (length data))%N; [discriminate|].
    intros H. apply ok_pair_inj in H as [<- <-]. lia.
Qed.

Lemma pack_rr_len c r off t b t' : wf_rr r -> pack_rr c r off t = Ok (b, t') -> length b <= rr_len r.
Proof.
  intros (_ & _ & _ & _ & Hd). unfold pack_rr, rr_len.
  destruct (pack_name c (r_name r) off t) as [[nb t1]| | |] eqn:E1; cbn [bind]; try discriminate.
  destruct (pack_rdata c (r_data r) (off + length nb + 10) t1) as [[rb t2]| | |] eqn:E2; cbn [bind]; try discriminate.
  intros H. apply ok_pair_inj in H as [<- <-]. apply pack_name_len in E1. eapply pack_rdata_len in E2; eauto.
  rewrite !app_length, !be16_len, be32_len. lia.
Qed.

(* ---------- B. packing a well-formed element never fails, compression or not ---------- *)
Lemma pack_name_go_total ls c : Forall wf_label ls -> forall fuel off t acc,
  length ls <= fuel -> exists b t', pack_name_go fuel c (raw ls) off t acc = Ok (b, t').
Proof.
  induction 1 as [|l ls [Hl Hb] _ IH]; intros fuel off t acc Hf.
  - destruct fuel; cbn; eauto.
  - cbn [raw]. destruct fuel as [|fuel]; [cbn in Hf; lia|]. cbn [pack_name_go].
    assert ((N.of_nat (length l) =? 0)%N = false) as -> by (apply N.eqb_neq; lia).
    assert ((63 <? N.of_nat (length l))%N = false) as -> by (apply N.ltb_ge; lia).
    rewrite Nat2N.id.
    assert (length (l ++ raw ls) <? length l = false) as -> by (apply Nat.ltb_ge; rewrite app_length; lia).
    destruct (if c then tbl_find _ t else None); [eauto|].
    rewrite skipn_app, skipn_all, Nat.sub_diag. cbn [skipn app].
    apply IH. cbn in Hf. lia.
Qed.

Lemma pack_name_total c n off t : wf_name n -> exists b t', pack_name c n off t = Ok (b, t').
Proof.
  intros (ls & -> & Hf & Hl). unfold pack_name.
  assert (254 <? length (raw ls) = false) as -> by (apply Nat.ltb_ge; lia).
  apply pack_name_go_total; auto. now apply raw_len_ge.
Qed.

Lemma pack_question_total c q off t : wf_question q -> exists b t', pack_question c q off t = Ok (b, t').
Proof.
  intros (Hn & _). unfold pack_question. destruct (pack_name_total c _ off t Hn) as (b & t' & ->). cbn. eauto.
Qed.

Lemma pack_rdata_total c typ d off t : wf_rdata typ d -> exists b t', pack_rdata c d off t = Ok (b, t').
Proof.
  unfold wf_rdata. destruct (kind_of_type typ), d; try contradiction; cbn [pack_rdata]; eauto.
  - intros H. now apply pack_name_total.
  - intros (H1 & H2 & _). destruct (pack_name_total c _ off t H1) as (b1 & t1 & ->). cbn [bind].
    destruct (pack_name_total c _ (off + length b1) t1 H2) as (b2 & t2 & ->). cbn [bind]. eauto.
  - intros (_ & H). destruct (pack_name_total c _ (off + 2) t H) as (b1 & t1 & ->). cbn [bind]. eauto.
  - intros (_ & _ & _ & H). destruct (pack_name_total c _ (off + 6) t H) as (b1 & t1 & ->). cbn [bind]. eauto.
  - intros (_ & H). assert ((65535 <? N.of_nat (length data))%N = false) as -> by (apply N.ltb_ge; lia). eauto.
Qed.

Lemma pack_rr_total c r off t : wf_rr r -> exists b t', pack_rr c r off t = Ok (b, t').
Proof.
  intros (Hn & _ & _ & _ & Hd). unfold pack_rr.
  destruct (pack_name_total c _ off t Hn) as (nb & t1 & ->). cbn [bind].
  destruct (pack_rdata_total c _ _ (off + length nb + 10) t1 Hd) as (rb & t2 & ->). cbn [bind]. eauto.
Qed.

(* ---------- C. one section ---------- *)
Section PackListFacts.
  Context {A : Type} (plen : A -> nat) (pk : A -> nat -> tbl -> res (list N * tbl)) (P : A -> Prop).
  Hypothesis Hlen : forall x off t b t', P x -> pk x off t = Ok (b, t') -> length b <= plen x.
  Hypothesis Htot : forall x off t, P x -> exists b t', pk x off t = Ok (b, t').

  Lemma pack_list_total xs : Forall P xs -> forall limit buflen off t,
    off + sum_len plen xs <= buflen -> exists bs t' k, pack_list plen pk limit buflen xs off t = Ok (bs, t', k).
  Proof.
    induction 1 as [|x xs Hx _ IH]; intros limit buflen off t Hfit; cbn [pack_list]; [eauto|].
    cbn [sum_len fold_right] in Hfit. fold (sum_len plen xs) in Hfit.
    destruct (over limit (off + plen x)).
    - apply IH. lia.
    - destruct (Htot x off t Hx) as (b & t1 & E). rewrite E. cbn [bind].
      pose proof (Hlen _ _ _ _ _ Hx E) as Hb.
      assert (buflen <? off + length b = false) as -> by (apply Nat.ltb_ge; lia).
      destruct (IH limit buflen (off + length b) t1) as (bs & t2 & k & ->); [lia|]. cbn [bind]. eauto.
  Qed.

  Lemma pack_list_facts xs : Forall P xs -> forall limit buflen off t bs t' k,
    pack_list plen pk limit buflen xs off t = Ok (bs, t', k) ->
    k <= length xs /\ length bs <= sum_len plen xs /\
    (forall s, limit = Some s -> off + length bs <= Nat.max off s) /\
    (forall s, limit = Some s -> off + sum_len plen xs <= s -> k = length xs) /\
    (limit = None -> k = length xs).
  Proof.
    induction 1 as [|x xs Hx _ IH]; intros limit buflen off t bs t' k H; cbn [pack_list] in H.
    - inversion H; subst. cbn. repeat split; intros; lia.
    - cbn [sum_len fold_right length]. fold (sum_len plen xs).
      destruct (over limit (off + plen x)) eqn:Eo.
      + apply IH in H. destruct H as (H1 & H2 & H3 & H4 & H5).
        split; [lia|]. split; [lia|]. split; [exact H3|]. split.
        * intros s -> Hs. cbn [over] in Eo. apply Nat.ltb_lt in Eo. lia.
        * intros ->. discriminate.
      + destruct (pk x off t) as [[b t1]| | |] eqn:E; cbn [bind] in H; try discriminate.
        pose proof (Hlen _ _ _ _ _ Hx E) as Hb.
        destruct (buflen <? off + length b); [discriminate|].
        destruct (pack_list plen pk limit buflen xs (off + length b) t1) as [[[bs' t2] k']| | |] eqn:E2;
          cbn [bind] in H; try discriminate.
        inversion H; subst. apply IH in E2. destruct E2 as (H1 & H2 & H3 & H4 & H5).
        rewrite app_length.
        split; [lia|]. split; [lia|]. split; [|split].
        * intros s ->. specialize (H3 s eq_refl). cbn [over] in Eo. apply Nat.ltb_ge in Eo. lia.
        * intros s -> Hs. rewrite (H4 s eq_refl); lia.
        * intros ->. rewrite H5; auto.
  Qed.
End PackListFacts.

(* what Pack keeps of one section when nothing is compressed: a function of the running offset *)
Fixpoint keep {A} (plen : A -> nat) (limit : option nat) (xs : list A) (off : nat) : list A :=
  match xs with
  | [] => []
  | x :: r => if over limit (off + plen x) then keep plen limit r off else x :: keep plen limit r (off + plen x)
  end.

Inductive sublist {A} : list A -> list A -> Prop :=
| sl_nil : sublist [] []
| sl_skip x l1 l2 : sublist l1 l2 -> sublist l1 (x :: l2)
| sl_keep x l1 l2 : sublist l1 l2 -> sublist (x :: l1) (x :: l2).

Lemma keep_sublist {A} (plen : A -> nat) limit xs : forall off, sublist (keep plen limit xs off) xs.
Proof.
  induction xs as [|x xs IH]; intros off; cbn [keep]; [constructor|].
  destruct (over limit (off + plen x)); constructor; apply IH.
Qed.

Lemma sublist_Forall {A} (P : A -> Prop) l1 l2 : sublist l1 l2 -> Forall P l2 -> Forall P l1.
Proof.
  induction 1 as [|x l1 l2 Hs IH|x l1 l2 Hs IH]; intros HF; [constructor| |]; inversion HF; subst; auto.
Qed.

Lemma sublist_length {A} (l1 l2 : list A) : sublist l1 l2 -> length l1 <= length l2.
Proof. induction 1; cbn; lia. Qed.

Lemma sublist_same_length {A} (l1 l2 : list A) : sublist l1 l2 -> length l1 = length l2 -> l1 = l2.
Proof.
  induction 1; intros Hl; [reflexivity| |].
  - apply sublist_length in H. cbn in Hl. lia.
  - f_equal. apply IHsublist. cbn in Hl. lia.
Qed.

Lemma sum_len_sublist {A} (f : A -> nat) l1 l2 : sublist l1 l2 -> sum_len f l1 <= sum_len f l2.
Proof. unfold sum_len. induction 1; cbn; lia. Qed.

Lemma keep_all {A} (plen : A -> nat) xs : forall s off, off + sum_len plen xs <= s -> keep plen (Some s) xs off = xs.
Proof.
  induction xs as [|x xs IH]; intros s off H; cbn [keep]; [reflexivity|].
  cbn [sum_len fold_right] in H. fold (sum_len plen xs) in H.
  cbn [over]. assert (s <? off + plen x = false) as -> by (apply Nat.ltb_ge; lia).
  f_equal. apply IH. lia.
Qed.

Lemma keep_none {A} (plen : A -> nat) xs off : keep plen None xs off = xs.
Proof. revert off; induction xs as [|x xs IH]; intros off; cbn; [reflexivity|]. now rewrite IH. Qed.

Lemma keep_bound {A} (plen : A -> nat) xs : forall s off,
  off + sum_len plen (keep plen (Some s) xs off) <= Nat.max off s.
Proof.
  induction xs as [|x xs IH]; intros s off; cbn [keep]; [cbn; lia|].
  cbn [over]. destruct (s <? off + plen x) eqn:E; [apply IH|].
  apply Nat.ltb_ge in E. cbn [sum_len fold_right]. fold (sum_len plen (keep plen (Some s) xs (off + plen x))).
  specialize (IH s (off + plen x)). lia.
Qed.

Lemma pack_list_keep {A} (plen : A -> nat) pk (bytes_of : A -> list N) (P : A -> Prop) :
  (forall x off t, P x -> pk x off t = Ok (bytes_of x, t)) ->
  (forall x, P x -> length (bytes_of x) = plen x) ->
  forall xs limit buflen off t, Forall P xs -> off + sum_len plen xs <= buflen ->
  pack_list plen pk limit buflen xs off t =
    Ok (flat_map bytes_of (keep plen limit xs off), t, length (keep plen limit xs off)).
Proof.
  intros Hpk Hbl xs. induction xs as [|x xs IH]; intros limit buflen off t HP Hfit; cbn [pack_list keep].
  - reflexivity.
  - inversion HP; subst. cbn [sum_len fold_right] in Hfit. fold (sum_len plen xs) in Hfit.
    destruct (over limit (off + plen x)).
    + apply IH; [assumption|lia].
    + rewrite Hpk by assumption. cbn [bind]. rewrite Hbl by assumption.
      assert (buflen <? off + plen x = false) as -> by (apply Nat.ltb_ge; lia).
      rewrite IH; [|assumption|lia]. cbn [bind flat_map length]. reflexivity.
Qed.

(* ---------- D. PopEDNS0 ---------- *)
Lemma set_nth_length {A} (l : list A) i v : length (set_nth l i v) = length l.
Proof. revert i; induction l as [|x l IH]; intros [|i]; cbn; auto. Qed.

Lemma set_nth_Forall {A} (P : A -> Prop) l i v : Forall P l -> P v -> Forall P (set_nth l i v).
Proof.
  revert i; induction l as [|x l IH]; intros [|i] H Hv; cbn; auto; inversion H; subst; constructor; auto.
Qed.

Lemma removelast_Forall {A} (P : A -> Prop) l : Forall P l -> Forall P (removelast l).
Proof.
  induction 1 as [|x l Hx Hl IH]; cbn; [constructor|]. destruct l; [constructor|]. constructor; auto.
Qed.

Lemma removelast_length {A} (l : list A) : length (removelast l) = length l - 1.
Proof. induction l as [|x l IH]; cbn; [reflexivity|]. destruct l; [reflexivity|]. cbn in *. lia. Qed.

Lemma pop_opt_facts (P : rr -> Prop) ar o ar0 : Forall P ar -> pop_opt ar = (o, ar0) ->
  Forall P ar0 /\ (forall x, o = Some x -> P x /\ S (length ar0) = length ar) /\ (o = None -> ar0 = ar).
Proof.
  intros HP. unfold pop_opt. destruct (last_opt_idx ar 0 None) as [i|].
  - destruct (nth_error ar i) as [x|] eqn:En.
    + destruct (rev ar) as [|lastr tl] eqn:Er.
      * intros H; inversion H; subst. repeat split; auto; intros; discriminate.
      * intros H; inversion H; subst. assert (In lastr ar) as Hin.
        { apply in_rev. rewrite Er. now left. }
        rewrite Forall_forall in HP. repeat split.
        -- apply removelast_Forall, set_nth_Forall; [now apply Forall_forall|auto].
        -- inversion H0; subst. apply HP. eapply nth_error_In; eauto.
        -- rewrite removelast_length, set_nth_length. apply nth_error_Some_lt in En || idtac.
           assert (i < length ar) by (apply nth_error_Some; congruence). lia.
        -- intros; discriminate.
    + intros H; inversion H; subst. repeat split; auto; intros; discriminate.
  - intros H; inversion H; subst. repeat split; auto; intros; discriminate.
Qed.

(* ---------- E. the whole message ---------- *)
Definition eff_size (size : nat) : nat := if size <? 512 then 512 else size.
Definition opt_len (m : msg) : nat :=
  match fst (pop_opt (m_ar m)) with Some o => rr_len o | None => 0 end.
Definition limit_of (size : nat) (m : msg) : option nat :=
  match fst (pop_opt (m_ar m)) with
  | Some o => if rr_len o <? eff_size size then Some (eff_size size - rr_len o) else None
  | None => Some (eff_size size)
  end.

(* Pack with size > 0, in the shape the proofs use *)
Definition pack_msg_limit (buflen : nat) (compress : bool) (size : nat) (m : msg) : res (list N) :=
  if too_many (m_qs m) || too_many (m_an m) || too_many (m_ns m) || too_many (m_ar m)
  then Err ETooMany else
  if buflen <? 12 then Err ESmallBuffer else
  let opt := fst (pop_opt (m_ar m)) in
  let ar := snd (pop_opt (m_ar m)) in
  let limit := limit_of size m in
  do (qb, t1, kq) <- pack_list q_len (pack_question compress) limit buflen (m_qs m) 12 [];
  do (ab, t2, ka) <- pack_list rr_len (pack_rr compress) limit buflen (m_an m) (12 + length qb) t1;
  do (nb, t3, kn) <- pack_list rr_len (pack_rr compress) limit buflen (m_ns m) (12 + length qb + length ab) t2;
  do (rb, t4, kr) <- pack_list rr_len (pack_rr compress) limit buflen ar
                               (12 + length qb + length ab + length nb) t3;
  let body := qb ++ ab ++ nb ++ rb in
  do (ob, ko) <- match opt with
                 | None => Ok ([], 0)
                 | Some o => do (b, _) <- pack_rr compress o (12 + length body) t4;
                             if buflen <? 12 + length body + length b then Err ESmallBuffer else Ok (b, 1)
                 end;
  let skipped := negb ((kq =? length (m_qs m)) && (ka =? length (m_an m)) && (kn =? length (m_ns m))
                       && (kr =? length ar)) in
  let bits := if skipped then N.lor (hdr_bits (m_hdr m)) 512 else hdr_bits (m_hdr m) in
  Ok (hdr_bytes (h_id (m_hdr m)) bits (N.of_nat kq) (N.of_nat ka) (N.of_nat kn) (N.of_nat (kr + ko))
      ++ body ++ ob).

Lemma pack_msg_limit_eq buflen c size m : 0 < size -> pack_msg buflen c size m = pack_msg_limit buflen c size m.
Proof.
  intros Hs. unfold pack_msg, pack_msg_limit, limit_of, eff_size.
  destruct (too_many (m_qs m) || too_many (m_an m) || too_many (m_ns m) || too_many (m_ar m)); [reflexivity|].
  assert (0 <? size = true) as Hs' by (apply Nat.ltb_lt; lia). rewrite Hs'. cbn [andb].
  destruct (size <? 512) eqn:E512.
  - destruct (buflen <? 12); [reflexivity|]. cbn [Nat.ltb Nat.leb].
    destruct (pop_opt (m_ar m)) as [opt ar]. cbn [fst snd]. reflexivity.
  - destruct (buflen <? 12); [reflexivity|]. rewrite Hs'.
    destruct (pop_opt (m_ar m)) as [opt ar]. cbn [fst snd]. reflexivity.
Qed.

(* ---------- F. PopEDNS0 keeps the multiset: sizes add up ---------- *)
Lemma set_nth_app1 {A} (pre l : list A) i v : i < length pre -> set_nth (pre ++ l) i v = set_nth pre i v ++ l.
Proof.
  revert i; induction pre as [|x pre IH]; intros i Hi; [cbn in Hi; lia|].
  destruct i; cbn; [reflexivity|]. f_equal. apply IH. cbn in Hi. lia.
Qed.

Lemma set_nth_last {A} (pre : list A) x : set_nth (pre ++ [x]) (length pre) x = pre ++ [x].
Proof. induction pre as [|y pre IH]; cbn; [reflexivity|]. now rewrite IH. Qed.

Lemma sum_len_app {A} (f : A -> nat) a b : sum_len f (a ++ b) = sum_len f a + sum_len f b.
Proof. unfold sum_len. induction a as [|x a IH]; cbn; [reflexivity|]. rewrite IH. lia. Qed.

Lemma sum_len_set_nth {A} (f : A -> nat) l : forall i v x, nth_error l i = Some x ->
  sum_len f (set_nth l i v) + f x = sum_len f l + f v.
Proof.
  unfold sum_len. induction l as [|y l IH]; intros [|i] v x H; cbn in *; try discriminate.
  - inversion H; subst. lia.
  - specialize (IH i v x H). lia.
Qed.

Lemma pop_opt_sum (f : rr -> nat) ar o ar0 : pop_opt ar = (Some o, ar0) -> sum_len f ar0 + f o = sum_len f ar.
Proof.
  unfold pop_opt. destruct (last_opt_idx ar 0 None) as [i|]; [|discriminate].
  destruct (nth_error ar i) as [x|] eqn:En; [|discriminate].
  destruct (rev ar) as [|lastr tl] eqn:Er; [discriminate|].
  intros H. inversion H; subst. clear H.
  assert (ar = rev tl ++ [lastr]) as Har.
  { rewrite <- (rev_involutive ar), Er. reflexivity. }
  set (pre := rev tl) in *. clearbody pre. subst ar.
  assert (i < length (pre ++ [lastr])) as Hi by (apply nth_error_Some; congruence).
  rewrite app_length in Hi. cbn in Hi.
  destruct (Nat.eq_dec i (length pre)) as [->|Hne].
  - rewrite set_nth_last, removelast_last.
    rewrite nth_error_app2, Nat.sub_diag in En by lia. cbn in En. inversion En; subst.
    rewrite sum_len_app. unfold sum_len at 3. cbn. lia.
  - rewrite set_nth_app1 by lia. rewrite removelast_last.
    rewrite nth_error_app1 in En by lia.
    pose proof (sum_len_set_nth f pre i lastr o En). rewrite sum_len_app. unfold sum_len at 3. cbn. lia.
Qed.

Lemma pop_opt_cases ar : (exists o ar0, pop_opt ar = (Some o, ar0)) \/ pop_opt ar = (None, ar).
Proof.
  unfold pop_opt. destruct (last_opt_idx ar 0 None); [|now right].
  destruct (nth_error ar n); [|now right]. destruct (rev ar); [now right|]. left; eauto.
Qed.

(* ---------- G. header bits ---------- *)
Lemma set_tc_same h : set_tc h (h_tc h) = h. Proof. destruct h; reflexivity. Qed.

Definition hdr_tc_ok (op rc : N) (r aa tc rd ra ad cd : bool) : bool :=
  let h := mkHeader 0 r op aa tc rd ra ad cd rc in
  (N.lor (hdr_bits h) 512 =? hdr_bits (set_tc h true))%N.

Lemma hdr_tc_sweep :
  forallb (fun op => forallb (fun rc => forallb (fun r => forallb (fun aa => forallb (fun tc =>
  forallb (fun rd => forallb (fun ra => forallb (fun ad => forallb (fun cd =>
    hdr_tc_ok op rc r aa tc rd ra ad cd) bools) bools) bools) bools) bools) bools) bools) n16) n16 = true.
Proof. vm_compute. reflexivity. Qed.

Lemma hdr_bits_set_tc h : wf_header h -> N.lor (hdr_bits h) 512 = hdr_bits (set_tc h true).
Proof.
  intros (_ & Ho & Hr). destruct h as [id r op aa tc rd ra ad cd rc]. cbn [h_opcode h_rcode] in *.
  pose proof hdr_tc_sweep as H.
  rewrite forallb_forall in H. specialize (H op (in_n16 _ Ho)).
  rewrite forallb_forall in H. specialize (H rc (in_n16 _ Hr)).
  rewrite forallb_forall in H. specialize (H r (in_bools _)).
  rewrite forallb_forall in H. specialize (H aa (in_bools _)).
  rewrite forallb_forall in H. specialize (H tc (in_bools _)).
  rewrite forallb_forall in H. specialize (H rd (in_bools _)).
  rewrite forallb_forall in H. specialize (H ra (in_bools _)).
  rewrite forallb_forall in H. specialize (H ad (in_bools _)).
  rewrite forallb_forall in H. specialize (H cd (in_bools _)).
  unfold hdr_tc_ok in H. apply N.eqb_eq in H. exact H.
Qed.

Lemma wf_header_set_tc h b : wf_header h -> wf_header (set_tc h b).
Proof. destruct h; unfold wf_header; cbn. auto. Qed.

(* ---------- H. Pack never fails on a well-formed message given a Len-sized buffer ---------- *)
Definition qlenH (c : bool) := fun x off t b t' (_ : wf_question x) H => pack_question_len c x off t b t' H.

Lemma wf_pop m : wf_msg m ->
  Forall wf_rr (snd (pop_opt (m_ar m))) /\
  (forall o, fst (pop_opt (m_ar m)) = Some o -> wf_rr o /\ S (length (snd (pop_opt (m_ar m)))) = length (m_ar m)) /\
  (fst (pop_opt (m_ar m)) = None -> snd (pop_opt (m_ar m)) = m_ar m) /\
  sum_len rr_len (snd (pop_opt (m_ar m))) + opt_len m = sum_len rr_len (m_ar m).
Proof.
  intros (_ & _ & _ & _ & Fr & _). unfold opt_len.
  destruct (pop_opt (m_ar m)) as [o ar0] eqn:E. cbn [fst snd].
  destruct (pop_opt_facts wf_rr _ _ _ Fr E) as (H1 & H2 & H3).
  split; [exact H1|]. split; [intros x ->; now apply H2|]. split; [exact H3|].
  destruct o as [o|].
  - now apply pop_opt_sum.
  - rewrite (H3 eq_refl). lia.
Qed.

Lemma pack_msg_limit_total buflen c size m : wf_msg m -> msg_len m <= buflen ->
  exists out, pack_msg_limit buflen c size m = Ok out.
Proof.
  intros Hw Hbuf. destruct (wf_pop m Hw) as (Far0 & Hopt & _ & Hsum).
  destruct Hw as (Hh & Fq & Fa & Fn & Fr & Cq & Ca & Cn & Cr).
  unfold pack_msg_limit. rewrite !too_many_false by assumption. cbn [orb].
  unfold msg_len in Hbuf.
  assert (buflen <? 12 = false) as -> by (apply Nat.ltb_ge; lia).
  set (limit := limit_of size m). set (ar0 := snd (pop_opt (m_ar m))) in *.
  destruct (pack_list_total q_len (pack_question c) wf_question (qlenH c) (pack_question_total c)
              (m_qs m) Fq limit buflen 12 []) as (qb & t1 & kq & Eq); [lia|].
  rewrite Eq. cbn [bind].
  destruct (pack_list_facts q_len (pack_question c) wf_question (qlenH c) (pack_question_total c) _ Fq _ _ _ _ _ _ _ Eq) as (_ & Lq & _).
  destruct (pack_list_total rr_len (pack_rr c) wf_rr (pack_rr_len c) (pack_rr_total c)
              (m_an m) Fa limit buflen (12 + length qb) t1) as (ab & t2 & ka & Ea); [lia|].
  rewrite Ea. cbn [bind].
  destruct (pack_list_facts rr_len (pack_rr c) wf_rr (pack_rr_len c) (pack_rr_total c) _ Fa _ _ _ _ _ _ _ Ea) as (_ & La & _).
  destruct (pack_list_total rr_len (pack_rr c) wf_rr (pack_rr_len c) (pack_rr_total c)
              (m_ns m) Fn limit buflen (12 + length qb + length ab) t2) as (nb & t3 & kn & En); [lia|].
  rewrite En. cbn [bind].
  destruct (pack_list_facts rr_len (pack_rr c) wf_rr (pack_rr_len c) (pack_rr_total c) _ Fn _ _ _ _ _ _ _ En) as (_ & Ln & _).
  destruct (pack_list_total rr_len (pack_rr c) wf_rr (pack_rr_len c) (pack_rr_total c)
              ar0 Far0 limit buflen (12 + length qb + length ab + length nb) t3) as (rb & t4 & kr & Er); [lia|].
  rewrite Er. cbn [bind].
  destruct (pack_list_facts rr_len (pack_rr c) wf_rr (pack_rr_len c) (pack_rr_total c) _ Far0 _ _ _ _ _ _ _ Er) as (_ & Lr & _).
  unfold opt_len in Hsum.
  destruct (fst (pop_opt (m_ar m))) as [o|] eqn:Eo.
  - destruct (Hopt o eq_refl) as [Wo _].
    destruct (pack_rr_total c o (12 + length (qb ++ ab ++ nb ++ rb)) t4 Wo) as (ob & t5 & Eob).
    rewrite Eob. cbn [bind]. pose proof (pack_rr_len c _ _ _ _ _ Wo Eob) as Lo.
    rewrite !app_length.
    assert (buflen <? 12 + (length qb + (length ab + (length nb + length rb))) + length ob = false) as ->
      by (apply Nat.ltb_ge; lia).
    cbn [bind]. eauto.
  - cbn [bind]. eauto.
Qed.

Lemma pack_msg_nolimit_total buflen c m : wf_msg m -> msg_len m <= buflen ->
  exists out, pack_msg_nolimit buflen c m = Ok out.
Proof.
  intros Hw Hbuf. destruct Hw as (Hh & Fq & Fa & Fn & Fr & Cq & Ca & Cn & Cr).
  unfold pack_msg_nolimit. rewrite !too_many_false by assumption. cbn [orb].
  unfold msg_len in Hbuf.
  assert (buflen <? 12 = false) as -> by (apply Nat.ltb_ge; lia).
  destruct (pack_list_total q_len (pack_question c) wf_question (qlenH c) (pack_question_total c)
              (m_qs m) Fq None buflen 12 []) as (qb & t1 & kq & Eq); [lia|].
  rewrite Eq. cbn [bind].
  destruct (pack_list_facts q_len (pack_question c) wf_question (qlenH c) (pack_question_total c) _ Fq _ _ _ _ _ _ _ Eq) as (_ & Lq & _).
  destruct (pack_list_total rr_len (pack_rr c) wf_rr (pack_rr_len c) (pack_rr_total c)
              (m_an m) Fa None buflen (12 + length qb) t1) as (ab & t2 & ka & Ea); [lia|].
  rewrite Ea. cbn [bind].
  destruct (pack_list_facts rr_len (pack_rr c) wf_rr (pack_rr_len c) (pack_rr_total c) _ Fa _ _ _ _ _ _ _ Ea) as (_ & La & _).
  destruct (pack_list_total rr_len (pack_rr c) wf_rr (pack_rr_len c) (pack_rr_total c)
              (m_ns m) Fn None buflen (12 + length qb + length ab) t2) as (nb & t3 & kn & En); [lia|].
  rewrite En. cbn [bind].
  destruct (pack_list_facts rr_len (pack_rr c) wf_rr (pack_rr_len c) (pack_rr_total c) _ Fn _ _ _ _ _ _ _ En) as (_ & Ln & _).
  destruct (pack_list_total rr_len (pack_rr c) wf_rr (pack_rr_len c) (pack_rr_total c)
              (m_ar m) Fr None buflen (12 + length qb + length ab + length nb) t3) as (rb & t4 & kr & Er); [lia|].
  rewrite Er. cbn [bind]. eauto.
Qed.

(* Msg.Pack(b, compression, size) with len(b) >= m.Len() never returns an error on a well-formed message *)
Theorem pack_msg_total buflen c size m : wf_msg m -> msg_len m <= buflen ->
  exists out, pack_msg buflen c size m = Ok out.
Proof.
  intros Hw Hb. destruct size as [|size].
  - rewrite pack_msg_0. now apply pack_msg_nolimit_total.
  - rewrite pack_msg_limit_eq by lia. now apply pack_msg_limit_total.
Qed.

(* ---------- I. the size bound and "nothing omitted when it fits" (compression on or off) ---------- *)
Lemma limit_of_some size m : opt_len m + 12 <= eff_size size ->
  limit_of size m = Some (eff_size size - opt_len m).
Proof.
  unfold limit_of, opt_len. destruct (fst (pop_opt (m_ar m))) as [o|]; intros H.
  - assert (rr_len o <? eff_size size = true) as -> by (apply Nat.ltb_lt; lia). reflexivity.
  - f_equal. lia.
Qed.

Tactic Notation "step_pack" hyp(H) ident(E) :=
  match type of H with
  | context [pack_list ?pl ?pk ?lim ?bl ?xs ?off ?t] =>
    destruct (pack_list pl pk lim bl xs off t) as [[[? ?] ?]| | |] eqn:E; cbn [bind] in H; try discriminate
  end.

Theorem pack_msg_size_bound buflen c size m out : wf_msg m -> 0 < size ->
  opt_len m + 12 <= eff_size size ->
  pack_msg buflen c size m = Ok out -> length out <= eff_size size.
Proof.
  intros Hw Hs Hopt H. rewrite pack_msg_limit_eq in H by assumption.
  destruct (wf_pop m Hw) as (Far0 & Hopt' & _ & _).
  destruct Hw as (Hh & Fq & Fa & Fn & Fr & _).
  unfold pack_msg_limit in H.
  destruct (too_many (m_qs m) || too_many (m_an m) || too_many (m_ns m) || too_many (m_ar m)); [discriminate|].
  destruct (buflen <? 12); [discriminate|].
  rewrite (limit_of_some size m Hopt) in H. set (s := eff_size size - opt_len m) in *.
  step_pack H Eq. step_pack H Ea. step_pack H En. step_pack H Er.
  destruct (pack_list_facts q_len (pack_question c) wf_question (qlenH c) (pack_question_total c) _ Fq _ _ _ _ _ _ _ Eq)
    as (_ & _ & Bq & _).
  destruct (pack_list_facts rr_len (pack_rr c) wf_rr (pack_rr_len c) (pack_rr_total c) _ Fa _ _ _ _ _ _ _ Ea)
    as (_ & _ & Ba & _).
  destruct (pack_list_facts rr_len (pack_rr c) wf_rr (pack_rr_len c) (pack_rr_total c) _ Fn _ _ _ _ _ _ _ En)
    as (_ & _ & Bn & _).
  destruct (pack_list_facts rr_len (pack_rr c) wf_rr (pack_rr_len c) (pack_rr_total c) _ Far0 _ _ _ _ _ _ _ Er)
    as (_ & _ & Br & _).
  specialize (Bq s eq_refl). specialize (Ba s eq_refl). specialize (Bn s eq_refl). specialize (Br s eq_refl).
  unfold opt_len in *.
  destruct (fst (pop_opt (m_ar m))) as [o|] eqn:Eo.
  - destruct (Hopt' o eq_refl) as [Wo _].
    match type of H with context [pack_rr c o ?off ?t] =>
      destruct (pack_rr c o off t) as [[ob t5]| | |] eqn:Eob; cbn [bind] in H; try discriminate end.
    pose proof (pack_rr_len c _ _ _ _ _ Wo Eob) as Lo.
    match type of H with context [if ?b then _ else _] => destruct b; cbn [bind] in H; try discriminate end.
    apply ok_inj in H; subst out. rewrite !app_length, hdr_bytes_len. lia.
  - cbn [bind] in H. apply ok_inj in H; subst out. rewrite !app_length, hdr_bytes_len. cbn [length]. lia.
Qed.

Theorem pack_msg_fits buflen c size m out : wf_msg m -> 0 < size ->
  msg_len m <= eff_size size ->
  pack_msg buflen c size m = Ok out ->
  exists body, out = hdr_bytes (h_id (m_hdr m)) (hdr_bits (m_hdr m)) (N.of_nat (length (m_qs m)))
                       (N.of_nat (length (m_an m))) (N.of_nat (length (m_ns m))) (N.of_nat (length (m_ar m))) ++ body.
Proof.
  intros Hw Hs Hfit H. rewrite pack_msg_limit_eq in H by assumption.
  destruct (wf_pop m Hw) as (Far0 & Hopt' & Hnone & Hsum).
  destruct Hw as (Hh & Fq & Fa & Fn & Fr & _).
  unfold pack_msg_limit in H. unfold msg_len in Hfit.
  destruct (too_many (m_qs m) || too_many (m_an m) || too_many (m_ns m) || too_many (m_ar m)); [discriminate|].
  destruct (buflen <? 12); [discriminate|].
  assert (opt_len m + 12 <= eff_size size) as Hopt by lia.
  rewrite (limit_of_some size m Hopt) in H. set (s := eff_size size - opt_len m) in *.
  step_pack H Eq. step_pack H Ea. step_pack H En. step_pack H Er.
  destruct (pack_list_facts q_len (pack_question c) wf_question (qlenH c) (pack_question_total c) _ Fq _ _ _ _ _ _ _ Eq)
    as (_ & Lq & _ & Kq & _).
  destruct (pack_list_facts rr_len (pack_rr c) wf_rr (pack_rr_len c) (pack_rr_total c) _ Fa _ _ _ _ _ _ _ Ea)
    as (_ & La & _ & Ka & _).
  destruct (pack_list_facts rr_len (pack_rr c) wf_rr (pack_rr_len c) (pack_rr_total c) _ Fn _ _ _ _ _ _ _ En)
    as (_ & Ln & _ & Kn & _).
  destruct (pack_list_facts rr_len (pack_rr c) wf_rr (pack_rr_len c) (pack_rr_total c) _ Far0 _ _ _ _ _ _ _ Er)
    as (_ & Lr & _ & Kr & _).
  rewrite (Kq s eq_refl) in H by lia. rewrite (Ka s eq_refl) in H by lia.
  rewrite (Kn s eq_refl) in H by lia. rewrite (Kr s eq_refl) in H by lia.
  rewrite !Nat.eqb_refl in H. cbn [andb negb] in H.
  unfold opt_len in *.
  destruct (fst (pop_opt (m_ar m))) as [o|] eqn:Eo.
  - destruct (Hopt' o eq_refl) as [Wo Hlen].
    match type of H with context [pack_rr c o ?off ?t] =>
      destruct (pack_rr c o off t) as [[ob t5]| | |] eqn:Eob; cbn [bind] in H; try discriminate end.
    match type of H with context [if ?b then _ else _] => destruct b; cbn [bind] in H; try discriminate end.
    apply ok_inj in H; subst out. eexists.
    replace (length (snd (pop_opt (m_ar m))) + 1) with (length (m_ar m)) by lia. reflexivity.
  - cbn [bind] in H. apply ok_inj in H; subst out. eexists. rewrite (Hnone eq_refl), Nat.add_0_r. reflexivity.
Qed.

(* ---------- J. without compression: the octets written are the canonical encoding of [trunc] ---------- *)
Definition opt_list (m : msg) : list rr := match fst (pop_opt (m_ar m)) with Some o => [o] | None => [] end.

Definition trunc (size : nat) (m : msg) : msg :=
  let ar0 := snd (pop_opt (m_ar m)) in
  let limit := limit_of size m in
  let qs := keep q_len limit (m_qs m) 12 in
  let an := keep rr_len limit (m_an m) (12 + sum_len q_len qs) in
  let ns := keep rr_len limit (m_ns m) (12 + sum_len q_len qs + sum_len rr_len an) in
  let ar := keep rr_len limit ar0 (12 + sum_len q_len qs + sum_len rr_len an + sum_len rr_len ns) in
  let omitted := negb ((length qs =? length (m_qs m)) && (length an =? length (m_an m)) &&
                       (length ns =? length (m_ns m)) && (length ar =? length ar0)) in
  mkMsg (set_tc (m_hdr m) (h_tc (m_hdr m) || omitted)) qs an ns (ar ++ opt_list m).

Lemma flat_map_len_q qs : Forall wf_question qs -> length (flat_map q_bytes qs) = sum_len q_len qs.
Proof. apply flat_map_len. exact q_bytes_len. Qed.
Lemma flat_map_len_rr rs : Forall wf_rr rs -> length (flat_map rr_bytes rs) = sum_len rr_len rs.
Proof. apply flat_map_len. exact rr_bytes_len. Qed.

Lemma keep_Forall {A} (P : A -> Prop) plen limit xs off : Forall P xs -> Forall P (keep plen limit xs off).
Proof. apply sublist_Forall, keep_sublist. Qed.

Lemma keep_sum {A} (plen : A -> nat) limit xs off : sum_len plen (keep plen limit xs off) <= sum_len plen xs.
Proof. apply sum_len_sublist, keep_sublist. Qed.

Theorem pack_msg_plain_trunc size m : wf_msg m -> 0 < size ->
  pack_msg (msg_len m) false size m = Ok (plain_bytes (trunc size m)).
Proof.
  intros Hw Hs. rewrite pack_msg_limit_eq by assumption.
  destruct (wf_pop m Hw) as (Far0 & Hopt' & Hnone & Hsum).
  destruct Hw as (Hh & Fq & Fa & Fn & Fr & Cq & Ca & Cn & Cr).
  unfold pack_msg_limit. rewrite !too_many_false by assumption. cbn [orb].
  assert (msg_len m <? 12 = false) as -> by (apply Nat.ltb_ge; unfold msg_len; lia).
  set (limit := limit_of size m). set (ar0 := snd (pop_opt (m_ar m))) in *.
  set (qs := keep q_len limit (m_qs m) 12).
  set (an := keep rr_len limit (m_an m) (12 + sum_len q_len qs)).
  set (ns := keep rr_len limit (m_ns m) (12 + sum_len q_len qs + sum_len rr_len an)).
  set (ar := keep rr_len limit ar0 (12 + sum_len q_len qs + sum_len rr_len an + sum_len rr_len ns)).
  pose proof (keep_sum q_len limit (m_qs m) 12) as Sq. fold qs in Sq.
  pose proof (keep_sum rr_len limit (m_an m) (12 + sum_len q_len qs)) as Sa. fold an in Sa.
  pose proof (keep_sum rr_len limit (m_ns m) (12 + sum_len q_len qs + sum_len rr_len an)) as Sn. fold ns in Sn.
  pose proof (keep_sum rr_len limit ar0 (12 + sum_len q_len qs + sum_len rr_len an + sum_len rr_len ns)) as Sr.
  fold ar in Sr.
  assert (Forall wf_question qs) as Wq by (now apply keep_Forall).
  assert (Forall wf_rr an) as Wa by (now apply keep_Forall).
  assert (Forall wf_rr ns) as Wn by (now apply keep_Forall).
  assert (Forall wf_rr ar) as Wr by (now apply keep_Forall).
  unfold msg_len.
  rewrite (pack_list_keep q_len (pack_question false) q_bytes wf_question
             (fun x off t H => pack_question_plain x off t H) q_bytes_len) by (auto; lia).
  cbn [bind]. fold qs. rewrite (flat_map_len_q qs Wq).
  rewrite (pack_list_keep rr_len (pack_rr false) rr_bytes wf_rr
             (fun x off t H => pack_rr_plain x off t H) rr_bytes_len) by (auto; lia).
  cbn [bind]. fold an. rewrite (flat_map_len_rr an Wa).
  rewrite (pack_list_keep rr_len (pack_rr false) rr_bytes wf_rr
             (fun x off t H => pack_rr_plain x off t H) rr_bytes_len) by (auto; lia).
  cbn [bind]. fold ns. rewrite (flat_map_len_rr ns Wn).
  rewrite (pack_list_keep rr_len (pack_rr false) rr_bytes wf_rr
             (fun x off t H => pack_rr_plain x off t H) rr_bytes_len) by (auto; lia).
  cbn [bind]. fold ar.
  assert (forall b, hdr_bits (set_tc (m_hdr m) (h_tc (m_hdr m) || b)) =
                    if b then N.lor (hdr_bits (m_hdr m)) 512 else hdr_bits (m_hdr m)) as Hbits.
  { intros [|]; [rewrite orb_true_r; symmetry; now apply hdr_bits_set_tc|rewrite orb_false_r, set_tc_same; reflexivity]. }
  unfold trunc, plain_bytes, opt_list, opt_len in *. fold ar0 limit qs an ns ar.
  cbn [m_hdr m_qs m_an m_ns m_ar]. rewrite Hbits.
  assert (h_id (set_tc (m_hdr m) (h_tc (m_hdr m) ||
            negb ((length qs =? length (m_qs m)) && (length an =? length (m_an m)) &&
                  (length ns =? length (m_ns m)) && (length ar =? length ar0)))) = h_id (m_hdr m)) as ->
    by (destruct (m_hdr m); reflexivity).
  destruct (fst (pop_opt (m_ar m))) as [o|] eqn:Eo.
  - destruct (Hopt' o eq_refl) as [Wo _]. rewrite pack_rr_plain by exact Wo. cbn [bind].
    rewrite !app_length, (flat_map_len_q qs Wq), (flat_map_len_rr an Wa), (flat_map_len_rr ns Wn),
      (flat_map_len_rr ar Wr), (rr_bytes_len o Wo).
    match goal with |- context [if ?b then Err _ else _] => assert (b = false) as -> by (apply Nat.ltb_ge; lia) end.
    cbn [bind length]. rewrite flat_map_app. cbn [flat_map].
    rewrite app_nil_r, <- !app_assoc. reflexivity.
  - cbn [bind length]. rewrite ?app_nil_r, ?Nat.add_0_r, <- ?app_assoc. reflexivity.
Qed.

Theorem trunc_wf size m : wf_msg m -> wf_msg (trunc size m).
Proof.
  intros Hw. destruct (wf_pop m Hw) as (Far0 & Hopt' & Hnone & _).
  destruct Hw as (Hh & Fq & Fa & Fn & Fr & Cq & Ca & Cn & Cr).
  unfold trunc, wf_msg. cbn [m_hdr m_qs m_an m_ns m_ar].
  split; [now apply wf_header_set_tc|].
  split; [now apply keep_Forall|]. split; [now apply keep_Forall|]. split; [now apply keep_Forall|].
  assert (forall A plen limit (xs : list A) off, length (keep plen limit xs off) <= length xs) as Hkl
    by (intros; apply sublist_length, keep_sublist).
  split.
  { apply Forall_app. split; [now apply keep_Forall|]. unfold opt_list.
    destruct (fst (pop_opt (m_ar m))) as [o|] eqn:Eo; [|constructor].
    destruct (Hopt' o eq_refl). constructor; [assumption|constructor]. }
  unfold count_ok in *.
  split; [specialize (Hkl _ q_len (limit_of size m) (m_qs m) 12); lia|].
  split; [match goal with |- context [keep rr_len ?l (m_an m) ?o] => specialize (Hkl _ rr_len l (m_an m) o) end; lia|].
  split; [match goal with |- context [keep rr_len ?l (m_ns m) ?o] => specialize (Hkl _ rr_len l (m_ns m) o) end; lia|].
  rewrite app_length. unfold opt_list.
  match goal with |- context [keep rr_len ?l (snd (pop_opt (m_ar m))) ?o] =>
    specialize (Hkl _ rr_len l (snd (pop_opt (m_ar m))) o) end.
  destruct (fst (pop_opt (m_ar m))) as [o|] eqn:Eo; cbn [length].
  - destruct (Hopt' o eq_refl). lia.
  - rewrite (Hnone eq_refl) in *. lia.
Qed.

(* the truncated output decodes cleanly: the header counts are the records present *)
Theorem trunc_decodes size m post : wf_msg m ->
  unpack_msg (plain_bytes (trunc size m) ++ post) = Ok (relen (trunc size m)).
Proof. intros Hw. apply unpack_plain. now apply trunc_wf. Qed.

Theorem trunc_sections size m :
  sublist (m_qs (trunc size m)) (m_qs m) /\ sublist (m_an (trunc size m)) (m_an m) /\
  sublist (m_ns (trunc size m)) (m_ns m) /\
  exists kept, m_ar (trunc size m) = kept ++ opt_list m /\ sublist kept (snd (pop_opt (m_ar m))).
Proof.
  unfold trunc. cbn [m_qs m_an m_ns m_ar]. repeat split; try apply keep_sublist.
  eexists. split; [reflexivity|apply keep_sublist].
Qed.

Definition omitted (m' m : msg) : bool :=
  negb ((length (m_qs m') =? length (m_qs m)) && (length (m_an m') =? length (m_an m)) &&
        (length (m_ns m') =? length (m_ns m)) && (length (m_ar m') =? length (m_ar m))).

Lemma trunc_ar_len size m :
  (length (m_ar (trunc size m)) =? length (m_ar m)) =
  (length (keep rr_len (limit_of size m) (snd (pop_opt (m_ar m)))
     (12 + sum_len q_len (m_qs (trunc size m)) + sum_len rr_len (m_an (trunc size m)) +
      sum_len rr_len (m_ns (trunc size m)))) =? length (snd (pop_opt (m_ar m)))).
Proof.
  unfold trunc. cbn [m_qs m_an m_ns m_ar]. rewrite app_length. unfold opt_list, pop_opt.
  destruct (last_opt_idx (m_ar m) 0 None) as [i|]; cbn [fst snd]; [|cbn [length]; now rewrite Nat.add_0_r].
  destruct (nth_error (m_ar m) i) as [x|] eqn:En; cbn [fst snd]; [|cbn [length]; now rewrite Nat.add_0_r].
  destruct (rev (m_ar m)) as [|lastr tl] eqn:Er; cbn [fst snd]; [cbn [length]; now rewrite Nat.add_0_r|].
  cbn [length]. rewrite removelast_length, set_nth_length.
  assert (i < length (m_ar m)) by (apply nth_error_Some; congruence).
  match goal with |- (?a + 1 =? ?b) = (?a =? ?b - 1) => destruct (Nat.eqb_spec (a + 1) b), (Nat.eqb_spec a (b - 1)); auto; lia end.
Qed.

(* TC is set iff something was omitted (or it was set already); every other header field is unchanged *)
Theorem trunc_header size m :
  m_hdr (trunc size m) = set_tc (m_hdr m) (h_tc (m_hdr m) || omitted (trunc size m) m).
Proof.
  unfold omitted. rewrite trunc_ar_len. unfold trunc. cbn [m_hdr m_qs m_an m_ns m_ar]. reflexivity.
Qed.

(* nothing is omitted when the uncompressed encoding already fits *)
Theorem trunc_fits size m : wf_msg m -> msg_len m <= eff_size size -> trunc size m =
  mkMsg (m_hdr m) (m_qs m) (m_an m) (m_ns m) (snd (pop_opt (m_ar m)) ++ opt_list m).
Proof.
  intros Hw Hfit. destruct (wf_pop m Hw) as (_ & _ & _ & Hsum). unfold msg_len in Hfit.
  assert (opt_len m + 12 <= eff_size size) as Hopt by lia.
  unfold trunc. rewrite (limit_of_some size m Hopt).
  rewrite (keep_all q_len (m_qs m)) by lia. rewrite (keep_all rr_len (m_an m)) by lia.
  rewrite (keep_all rr_len (m_ns m)) by lia. rewrite (keep_all rr_len (snd (pop_opt (m_ar m)))) by lia.
  rewrite !Nat.eqb_refl. cbn [andb negb]. rewrite orb_false_r, set_tc_same. reflexivity.
Qed.

(* a single question that fits next to the OPT record is always retained *)
Theorem trunc_question size m q : m_qs m = [q] -> 12 + q_len q + opt_len m <= eff_size size ->
  m_qs (trunc size m) = [q].
Proof.
  intros Hq Hfit. assert (opt_len m + 12 <= eff_size size) as Hopt by lia.
  unfold trunc. cbn [m_qs]. rewrite Hq, (limit_of_some size m Hopt). cbn [keep over].
  assert (eff_size size - opt_len m <? 12 + q_len q = false) as -> by (apply Nat.ltb_ge; lia). reflexivity.
Qed.

(* ---------- K. the executable oracle [spec_packsize] holds of the model's uncompressed output ---------- *)
Lemma subseq_tail {A} (f : A -> A -> bool) l : forall y ys, subseq f (y :: ys) l = true -> subseq f ys l = true.
Proof.
  induction l as [|z l IH]; intros y ys H; [cbn in H; discriminate|].
  destruct ys as [|w ws]; [reflexivity|]. cbn [subseq] in *.
  destruct (f y z).
  - destruct (f w z); [eapply IH; eauto|exact H].
  - apply IH in H. destruct (f w z); [eapply IH; eauto|exact H].
Qed.

Lemma subseq_sublist {A} (f : A -> A -> bool) (g : A -> A) l1 l2 :
  (forall x, f (g x) x = true) -> sublist l1 l2 -> subseq f (map g l1) l2 = true.
Proof.
  intros Hf. induction 1 as [|x l1 l2 Hs IH|x l1 l2 Hs IH]; cbn [map subseq].
  - reflexivity.
  - destruct (map g l1) as [|y ys] eqn:E; [reflexivity|]. cbn [subseq].
    destruct (f y x); [eapply subseq_tail; eauto|exact IH].
  - rewrite Hf. exact IH.
Qed.

Lemma eff_size_max size : eff_size size = Nat.max 512 size.
Proof. unfold eff_size. destruct (Nat.ltb_spec size 512); lia. Qed.

Lemma rr_eqb_set_len' r : rr_eqb (set_len r) r = true. Proof. apply rr_eqb_set_len. Qed.

Theorem spec_packsize_plain size m : wf_msg m -> 0 < size -> opt_len m + 12 <= eff_size size ->
  spec_packsize false size m (plain_bytes (trunc size m)) = true.
Proof.
  intros Hw Hs Hopt. unfold spec_packsize. rewrite <- eff_size_max.
  pose proof (trunc_decodes size m [] Hw) as Hd. rewrite app_nil_r in Hd.
  pose proof (pack_msg_size_bound (msg_len m) false size m _ Hw Hs Hopt (pack_msg_plain_trunc size m Hw Hs)) as Hb.
  pose proof (trunc_header size m) as Hh. pose proof (trunc_sections size m) as (Sq & Sa & Sn & kept & Ear & Skept).
  pose proof (trunc_fits size m Hw) as Hfit. pose proof (trunc_question size m) as Hq1.
  unfold opt_len, opt_list in *.
  destruct (pop_opt (m_ar m)) as [opt ar0] eqn:Ep. cbn [fst snd] in *.
  rewrite Hd. set (T := trunc size m) in *.
  assert (forall rs, length (map set_len rs) = length rs) as Hml by (intros; apply map_length).
  unfold relen. cbn [m_hdr m_qs m_an m_ns m_ar]. rewrite !Hml.
  apply andb_true_iff; split; [apply andb_true_iff; split; [apply andb_true_iff; split;
    [apply andb_true_iff; split; [apply andb_true_iff; split; [apply andb_true_iff; split; [apply andb_true_iff; split|]|]|]|]|]|].
  - apply orb_true_iff. right. apply Nat.leb_le. exact Hb.
  - apply header_eqb_eq. exact Hh.
  - rewrite <- (map_id (m_qs T)). apply subseq_sublist; [apply question_eqb_refl|exact Sq].
  - apply subseq_sublist; [apply rr_eqb_set_len|exact Sa].
  - apply subseq_sublist; [apply rr_eqb_set_len|exact Sn].
  - rewrite Ear. destruct opt as [o|].
    + rewrite map_app, rev_app_distr. cbn [map rev app]. rewrite rr_eqb_set_len. cbn [andb].
      rewrite rev_involutive. apply subseq_sublist; [apply rr_eqb_set_len|exact Skept].
    + rewrite app_nil_r. rewrite app_nil_r in Ear.
      pose proof (pop_opt_cases (m_ar m)) as [(o & a & E)|E]; rewrite E in Ep; inversion Ep; subst.
      apply subseq_sublist; [apply rr_eqb_set_len|exact Skept].
  - destruct (msg_len m <=? eff_size size) eqn:El; [|reflexivity]. cbn [negb orb].
    apply Nat.leb_le in El. specialize (Hfit El). rewrite Hfit. cbn [m_qs m_an m_ns m_ar].
    rewrite !Nat.eqb_refl. cbn [andb]. rewrite app_length.
    destruct opt as [o|]; cbn [length].
    * destruct (pop_opt_facts (fun _ => True) (m_ar m) (Some o) ar0) as (_ & H2 & _);
        [apply Forall_forall; auto|exact Ep|].
      destruct (H2 o eq_refl) as [_ Hl]. rewrite <- Hl.
      replace (length ar0 + 1) with (S (length ar0)) by lia. now rewrite Nat.eqb_refl.
    * pose proof (pop_opt_cases (m_ar m)) as [(o & a & E)|E]; rewrite E in Ep; inversion Ep; subst.
      now rewrite Nat.add_0_r, Nat.eqb_refl.
  - destruct (m_qs m) as [|q [|q2 qs]] eqn:Eq; try reflexivity.
    destruct (12 + q_len q + match opt with Some o => rr_len o | None => 0 end <=? eff_size size) eqn:El; [|reflexivity].
    cbn [negb orb]. apply Nat.leb_le in El. rewrite (Hq1 q eq_refl El). reflexivity.
Qed.
