(* Codec/NameProofs.v — facts about the name functions: totality/termination of the decoder,
   well-formedness of decoded names, the [dec] relation used by the round-trip proofs. *)
From Mos Require Import Base.Prelude Codec.Name.
From Coq Require Import ZifyN ZifyNat ZifyBool.

(* ---------- well-formed names ---------- *)
Definition wf_label (l : list N) : Prop := 1 <= length l <= 63 /\ bytes l.
Definition wf_labels (ls : list (list N)) : Prop := Forall wf_label ls /\ length (raw ls) <= 254.
Definition wf_name (n : list N) : Prop := exists ls, n = raw ls /\ wf_labels ls.

Lemma raw_app a b : raw (a ++ b) = raw a ++ raw b.
Proof. induction a as [|l a IH]; cbn; [reflexivity|]. rewrite IH, <- app_assoc. reflexivity. Qed.

Lemma raw_bytes ls : Forall wf_label ls -> bytes (raw ls).
Proof.
  induction 1 as [|l ls [Hl Hb] _ IH]; cbn; [constructor|].
  constructor; [unfold isbyte; lia|]. apply bytes_app; auto.
Qed.

Lemma wf_name_bytes n : wf_name n -> bytes n.
Proof. intros (ls & -> & H & _). now apply raw_bytes. Qed.

Lemma wf_name_len n : wf_name n -> length n <= 254.
Proof. intros (ls & -> & _ & H). exact H. Qed.

Lemma wf_name_nil : wf_name [].
Proof. exists []. repeat split; cbn; auto; lia. Qed.

(* ---------- land with 0xC0 ---------- *)
Lemma land192_small c : (c < 64)%N -> N.land c 192 = 0%N.
Proof.
  intros H. apply N.bits_inj_0. intros i. rewrite N.land_spec.
  destruct (N.ltb i 6) eqn:Ei.
  - apply N.ltb_lt in Ei. assert (N.testbit 192 i = false) as ->; [|now rewrite andb_false_r].
    assert (i = 0 \/ i = 1 \/ i = 2 \/ i = 3 \/ i = 4 \/ i = 5)%N as Hi by lia.
    destruct Hi as [->|[->|[->|[->|[->| ->]]]]]; reflexivity.
  - apply N.ltb_ge in Ei. assert (N.testbit c i = false) as ->; [|reflexivity].
    destruct (N.eq_dec c 0) as [->|Hnz]; [apply N.bits_0|].
    apply N.bits_above_log2.
    assert (N.log2 c < 6)%N; [|lia]. apply N.log2_lt_pow2; [lia|]. cbn. lia.
Qed.

Lemma land192_zero_small c : N.land c 192 = 0%N -> (c < 256)%N -> (c < 64)%N.
Proof.
  intros H Hc. destruct (N.ltb c 64) eqn:E; [now apply N.ltb_lt in E|]. apply N.ltb_ge in E. exfalso.
  (* c in 64..255: bit 6 or bit 7 is set *)
  assert (N.testbit c 6 = true \/ N.testbit c 7 = true) as Hb.
  { destruct (N.testbit c 7) eqn:E7; [now right|]. left.
    destruct (N.testbit c 6) eqn:E6; [reflexivity|]. exfalso.
    assert (c < 64)%N; [|lia].
    destruct (N.eq_dec c 0) as [->|Hnz]; [lia|].
    assert (N.log2 c < 6)%N; [|apply N.log2_lt_pow2 in H0; cbn in H0; lia].
    assert (N.log2 c < 8)%N by (apply N.log2_lt_pow2; cbn; lia).
    pose proof (N.bit_log2 c Hnz) as Hl.
    assert (N.log2 c = 6 \/ N.log2 c = 7 \/ N.log2 c < 6)%N as [Hq|[Hq|Hq]] by lia;
      [rewrite Hq in Hl; congruence | rewrite Hq in Hl; congruence | exact Hq]. }
  assert (forall i, N.testbit (N.land c 192) i = false) as Hz by (intros i; rewrite H; apply N.bits_0).
  destruct Hb as [Hb|Hb].
  - specialize (Hz 6%N). rewrite N.land_spec, Hb in Hz. discriminate.
  - specialize (Hz 7%N). rewrite N.land_spec, Hb in Hz. discriminate.
Qed.

(* ---------- unpack_name: never panics, never runs out of fuel ---------- *)
Definition good {A} (msg : list N) (r : res (A * nat)) : Prop :=
  match r with Ok (_, o) => o <= length msg | Err _ => True | Panic => False | OutOfFuel => False end.

Lemma bind_good {A B} msg (r : res (A * nat)) (f : A * nat -> res (B * nat)) :
  good msg r -> (forall a o, r = Ok (a, o) -> o <= length msg -> good msg (f (a, o))) -> good msg (bind r f).
Proof.
  destruct r as [[a o]| | |]; cbn; intros H Hf; auto.
Qed.

Lemma unpack_name_go_good fuel : forall msg curr ptr newoff name,
  newoff <= length msg -> ptr <= 127 -> length name <= 254 ->
  (127 - ptr) + (254 - length name) < fuel ->
  good msg (unpack_name_go fuel msg curr ptr newoff name).
Proof.
  induction fuel as [|fuel IH]; intros msg curr ptr newoff name Hn Hp Hl Hf; [lia|].
  cbn [unpack_name_go].
  destruct (length msg <=? curr) eqn:E0; [exact I|]. apply Nat.leb_gt in E0.
  destruct (get_some msg curr E0) as [c Hc]. rewrite Hc.
  destruct (N.land c 192 =? 0)%N eqn:Etop.
  - destruct (c =? 0)%N eqn:Ec0.
    + cbn. destruct (Nat.eqb ptr 0); lia.
    + destruct (length msg <? S curr + N.to_nat c) eqn:E1; [exact I|]. apply Nat.ltb_ge in E1.
      destruct (255 <? length name + 1 + N.to_nat c + 1) eqn:E2; [exact I|]. apply Nat.ltb_ge in E2.
      destruct (slice_some msg (S curr) (S curr + N.to_nat c)) as [seg Hs]; [lia|lia|].
      rewrite Hs. apply slice_len in Hs. destruct Hs as [Hs _].
      apply N.eqb_neq in Ec0.
      apply IH; auto; rewrite app_length; cbn [length]; lia.
  - destruct (N.land c 192 =? 192)%N eqn:Etop2; [|exact I].
    destruct (length msg <=? S curr) eqn:E1; [exact I|]. apply Nat.leb_gt in E1.
    destruct (get_some msg (S curr) E1) as [c1 Hc1]. rewrite Hc1.
    destruct (127 <? S ptr) eqn:E2; [exact I|]. apply Nat.ltb_ge in E2.
    apply IH; auto; [destruct (Nat.eqb ptr 0); lia | lia].
Qed.

Lemma unpack_name_go_beyond f msg off ptr newoff name :
  length msg <= off -> unpack_name_go (S f) msg off ptr newoff name = Err EBaseLen.
Proof.
  intros H. cbn [unpack_name_go].
  assert (length msg <=? off = true) as -> by (apply Nat.leb_le; lia). reflexivity.
Qed.

Lemma name_fuel_S : name_fuel = S 399. Proof. reflexivity. Qed.
Lemma name_fuel_big : 381 < name_fuel. Proof. unfold name_fuel. lia. Qed.
Global Opaque name_fuel.

Lemma unpack_name_good msg off : good msg (unpack_name msg off).
Proof.
  unfold unpack_name.
  destruct (Nat.le_gt_cases off (length msg)) as [H|H].
  - apply unpack_name_go_good; cbn [length]; try lia. pose proof name_fuel_big. lia.
  - (* off beyond the message: the very first test rejects *)
    rewrite name_fuel_S, unpack_name_go_beyond by lia. exact I.
Qed.

(* ---------- decoded names are well-formed ---------- *)
Lemma raw_snoc ls seg : raw (ls ++ [seg]) = raw ls ++ N.of_nat (length seg) :: seg.
Proof. rewrite raw_app. cbn. now rewrite app_nil_r. Qed.

Lemma unpack_name_go_wf fuel : forall msg curr ptr newoff ls n o,
  bytes msg -> wf_labels ls ->
  unpack_name_go fuel msg curr ptr newoff (raw ls) = Ok (n, o) ->
  wf_name n.
Proof.
  induction fuel as [|fuel IH]; intros msg curr ptr newoff ls n o Hb Hls H; [discriminate|].
  cbn [unpack_name_go] in H.
  destruct (length msg <=? curr) eqn:E0; [discriminate|].
  destruct (get msg curr) as [c|] eqn:Hc; [|discriminate].
  pose proof (bytes_get _ _ _ Hb Hc) as Hcb.
  destruct (N.land c 192 =? 0)%N eqn:Etop.
  - apply N.eqb_eq in Etop. apply land192_zero_small in Etop; [|exact Hcb].
    destruct (c =? 0)%N eqn:Ec0.
    + inversion H; subst. exists ls. split; [reflexivity|exact Hls].
    + apply N.eqb_neq in Ec0.
      destruct (length msg <? S curr + N.to_nat c) eqn:E1; [discriminate|].
      destruct (255 <? length (raw ls) + 1 + N.to_nat c + 1) eqn:E2; [discriminate|]. apply Nat.ltb_ge in E2.
      destruct (slice msg (S curr) (S curr + N.to_nat c)) as [seg|] eqn:Hs; [|discriminate].
      pose proof (bytes_slice _ _ _ _ Hb Hs) as Hsb.
      apply slice_len in Hs. destruct Hs as [Hs _].
      assert (c = N.of_nat (length seg)) as Hceq by lia.
      rewrite Hceq in H. rewrite <- raw_snoc in H.
      eapply IH; [exact Hb| |exact H].
      destruct Hls as [Hf Hlen]. split.
      * apply Forall_app. split; [exact Hf|]. constructor; [|constructor]. split; [lia|exact Hsb].
      * rewrite raw_snoc, app_length. cbn [length]. lia.
  - destruct (N.land c 192 =? 192)%N eqn:Etop2; [|discriminate].
    destruct (length msg <=? S curr) eqn:E1; [discriminate|].
    destruct (get msg (S curr)) as [c1|] eqn:Hc1; [|discriminate].
    destruct (127 <? S ptr) eqn:E2; [discriminate|].
    eapply IH; eauto.
Qed.

Lemma unpack_name_wf msg off n o : bytes msg -> unpack_name msg off = Ok (n, o) -> wf_name n.
Proof.
  unfold unpack_name. intros Hb H.
  eapply (unpack_name_go_wf _ msg off 0 off []); eauto.
  split; [constructor|cbn; lia].
Qed.

(* ---------- the scanner on well-formed names ---------- *)
Lemma scan_go_raw ls : Forall wf_label ls -> forall fuel, length ls <= fuel -> scan_go fuel (raw ls) = Ok ls.
Proof.
  induction 1 as [|l ls [Hl Hb] _ IH]; intros fuel Hf; [destruct fuel; reflexivity|].
  cbn [raw]. destruct fuel as [|fuel]; [cbn in Hf; lia|]. cbn [scan_go].
  assert ((N.of_nat (length l) =? 0)%N = false) as -> by (apply N.eqb_neq; lia).
  assert ((63 <? N.of_nat (length l))%N = false) as -> by (apply N.ltb_ge; lia).
  rewrite Nat2N.id.
  assert (length (l ++ raw ls) <? length l = false) as -> by (apply Nat.ltb_ge; rewrite app_length; lia).
  rewrite skipn_app, skipn_all, Nat.sub_diag. cbn [skipn app].
  rewrite IH by (cbn in Hf; lia). cbn.
  rewrite firstn_app, firstn_all, Nat.sub_diag. cbn. now rewrite app_nil_r.
Qed.

Lemma raw_len_ge ls : Forall wf_label ls -> length ls <= length (raw ls).
Proof.
  induction 1 as [|l ls [Hl _] _ IH]; cbn; [lia|]. rewrite app_length. lia.
Qed.

Lemma scan_raw ls : wf_labels ls -> scan (raw ls) = Ok ls.
Proof.
  intros [Hf Hl]. unfold scan.
  assert (254 <? length (raw ls) = false) as -> by (apply Nat.ltb_ge; lia).
  apply scan_go_raw; auto. now apply raw_len_ge.
Qed.

(* the scanner never panics nor runs out of fuel on any byte list *)
Lemma scan_go_total : forall fuel rest, length rest <= fuel -> safe (scan_go fuel rest).
Proof.
  induction fuel as [|fuel IH]; intros rest Hf.
  - destruct rest; [|cbn in Hf; lia]. cbn. split; congruence.
  - destruct rest as [|c tl]; [cbn; split; congruence|]. cbn [scan_go].
    destruct (c =? 0)%N; [split; congruence|].
    destruct (63 <? c)%N; [split; congruence|].
    destruct (length tl <? N.to_nat c) eqn:E; [split; congruence|].
    apply bind_safe.
    + apply IH. rewrite skipn_length. cbn in Hf. lia.
    + intros a _. split; congruence.
Qed.

Lemma scan_total n : safe (scan n).
Proof. unfold scan. destruct (254 <? length n); [split; congruence|]. apply scan_go_total. lia. Qed.

(* ---------- [dec]: reading labels at a position, following pointers ---------- *)
Inductive dec (msg : list N) : nat -> list (list N) -> nat -> Prop :=
| dec_end p : get msg p = Some 0%N -> dec msg p [] 0
| dec_label p l ls h :
    wf_label l ->
    get msg p = Some (N.of_nat (length l)) ->
    slice msg (S p) (S p + length l) = Some l ->
    dec msg (S p + length l) ls h ->
    dec msg p (l :: ls) h
| dec_ptr p c c1 ls h :
    N.land c 192 = 192%N ->
    get msg p = Some c -> get msg (S p) = Some c1 ->
    dec msg (ptr_target c c1) ls h ->
    dec msg p ls (S h).

Lemma dec_app msg x p ls h : dec msg p ls h -> dec (msg ++ x) p ls h.
Proof.
  induction 1.
  - apply dec_end. now apply get_app1.
  - apply dec_label; auto using get_app1, slice_app1.
  - eapply dec_ptr; eauto using get_app1.
Qed.

(* where the in-place part of a name read at p ends (terminator or first pointer) *)
Inductive dec_end_at (msg : list N) : nat -> nat -> Prop :=
| dea_end p : get msg p = Some 0%N -> dec_end_at msg p (S p)
| dea_label p c e : (0 < c < 64)%N -> get msg p = Some c -> dec_end_at msg (S p + N.to_nat c) e -> dec_end_at msg p e
| dea_ptr p c : N.land c 192 = 192%N -> get msg p = Some c -> dec_end_at msg p (S (S p)).

Lemma dec_unpack msg p ls h : dec msg p ls h ->
  forall fuel ptr newoff name,
    h + ptr <= 127 ->
    length name + length (raw ls) + 1 <= 255 ->
    length ls + h < fuel ->
    exists off', unpack_name_go fuel msg p ptr newoff name = Ok (name ++ raw ls, off').
Proof.
  induction 1 as [p Hi | p l ls h [Hwf Hwb] Hi Hs Hd IH | p c c1 ls h Hc Hi Hi1 Hd IH];
    intros fuel ptr newoff name Hh Hn Hf.
  - destruct fuel as [|fuel]; [cbn in Hf; lia|]. cbn [unpack_name_go].
    pose proof (get_lt _ _ _ Hi) as Hlt.
    destruct (length msg <=? p) eqn:E; [apply Nat.leb_le in E; lia|].
    rewrite Hi. cbn. rewrite app_nil_r. eauto.
  - destruct fuel as [|fuel]; [cbn in Hf; lia|]. cbn [unpack_name_go].
    pose proof (get_lt _ _ _ Hi) as Hlt.
    destruct (length msg <=? p) eqn:E; [apply Nat.leb_le in E; lia|].
    rewrite Hi. rewrite land192_small by lia. cbn [N.eqb].
    destruct (N.eqb (N.of_nat (length l)) 0) eqn:E0; [apply N.eqb_eq in E0; lia|].
    rewrite Nat2N.id.
    pose proof (slice_len _ _ _ _ Hs) as (_ & _ & Hle).
    destruct (length msg <? S p + length l) eqn:E1; [apply Nat.ltb_lt in E1; lia|].
    cbn [raw length] in Hn. rewrite app_length in Hn.
    destruct (255 <? length name + 1 + length l + 1) eqn:E2; [apply Nat.ltb_lt in E2; lia|].
    rewrite Hs.
    destruct (IH fuel ptr newoff (name ++ N.of_nat (length l) :: l)) as [off' Hoff'].
    + lia.
    + rewrite app_length. cbn [length]. lia.
    + cbn [length] in Hf. lia.
    + exists off'. eapply eq_trans; [exact Hoff'|]. f_equal. f_equal. cbn [raw]. rewrite <- app_assoc. reflexivity.
  - destruct fuel as [|fuel]; [lia|]. cbn [unpack_name_go].
    pose proof (get_lt _ _ _ Hi) as Hlt. pose proof (get_lt _ _ _ Hi1) as Hlt1.
    destruct (length msg <=? p) eqn:E; [apply Nat.leb_le in E; lia|].
    rewrite Hi, Hc. cbn [N.eqb Pos.eqb].
    destruct (length msg <=? S p) eqn:E1; [apply Nat.leb_le in E1; lia|].
    rewrite Hi1.
    destruct (127 <? S ptr) eqn:E2; [apply Nat.ltb_lt in E2; lia|].
    apply IH; lia.
Qed.

(* an uncompressed name written in place decodes to itself and ends right after its terminator *)
Lemma dec_inplace pre ls post : Forall wf_label ls ->
  dec (pre ++ raw ls ++ 0%N :: post) (length pre) ls 0.
Proof.
  intros H. revert pre. induction H as [|l ls Hl _ IH]; intros pre.
  - cbn [raw app]. apply dec_end. replace (length pre) with (length pre + 0) by lia.
    rewrite get_app2. reflexivity.
  - cbn [raw]. apply dec_label; auto.
    + replace (length pre) with (length pre + 0) at 1 by lia. rewrite get_app2. reflexivity.
    + replace (S (length pre)) with (length (pre ++ [N.of_nat (length l)])) by (rewrite app_length; cbn; lia).
      replace (pre ++ (N.of_nat (length l) :: l ++ raw ls) ++ 0%N :: post)
        with ((pre ++ [N.of_nat (length l)]) ++ l ++ (raw ls ++ 0%N :: post)).
      * apply slice_mid.
      * rewrite <- !app_assoc. cbn. now rewrite <- app_assoc.
    + specialize (IH (pre ++ N.of_nat (length l) :: l)).
      replace (S (length pre) + length l) with (length (pre ++ N.of_nat (length l) :: l))
        by (rewrite app_length; cbn; lia).
      replace (pre ++ (N.of_nat (length l) :: l ++ raw ls) ++ 0%N :: post)
        with ((pre ++ N.of_nat (length l) :: l) ++ raw ls ++ 0%N :: post); [exact IH|].
      rewrite <- !app_assoc. cbn. now rewrite <- app_assoc.
Qed.

(* exact end offset for an in-place (pointer-free) name *)
Lemma unpack_inplace_go ls : Forall wf_label ls -> forall pre post fuel name newoff,
  length name + length (raw ls) + 1 <= 255 ->
  length ls < fuel ->
  unpack_name_go fuel (pre ++ raw ls ++ 0%N :: post) (length pre) 0 newoff name
  = Ok (name ++ raw ls, length pre + length (raw ls) + 1).
Proof.
  induction 1 as [|l ls [Hl Hb] _ IH]; intros pre post fuel name newoff Hn Hf.
  - destruct fuel as [|fuel]; [lia|]. cbn [raw app unpack_name_go length].
    assert (length (pre ++ 0%N :: post) <=? length pre = false) as ->
        by (apply Nat.leb_gt; rewrite app_length; cbn; lia).
    replace (length pre) with (length pre + 0) at 1 by lia. rewrite get_app2. cbn.
    rewrite app_nil_r. f_equal. f_equal. lia.
  - destruct fuel as [|fuel]; [cbn in Hf; lia|]. cbn [raw] in *. cbn [unpack_name_go].
    set (msg := pre ++ (N.of_nat (length l) :: l ++ raw ls) ++ 0%N :: post).
    assert (Hlen : length msg = length pre + S (length l + length (raw ls)) + S (length post)).
    { unfold msg. rewrite !app_length. cbn [length]. rewrite !app_length. cbn [length]. lia. }
    assert (length msg <=? length pre = false) as -> by (apply Nat.leb_gt; lia).
    assert (get msg (length pre) = Some (N.of_nat (length l))) as ->.
    { unfold msg. replace (length pre) with (length pre + 0) at 1 by lia. rewrite get_app2. reflexivity. }
    rewrite land192_small by lia. cbn [N.eqb].
    destruct (N.eqb (N.of_nat (length l)) 0) eqn:E0; [apply N.eqb_eq in E0; lia|].
    rewrite Nat2N.id.
    assert (length msg <? S (length pre) + length l = false) as -> by (apply Nat.ltb_ge; lia).
    cbn [length] in Hn. rewrite app_length in Hn.
    destruct (255 <? length name + 1 + length l + 1) eqn:E2; [apply Nat.ltb_lt in E2; lia|].
    assert (slice msg (S (length pre)) (S (length pre) + length l) = Some l) as ->.
    { unfold msg.
      replace (S (length pre)) with (length (pre ++ [N.of_nat (length l)])) by (rewrite app_length; cbn; lia).
      replace (pre ++ (N.of_nat (length l) :: l ++ raw ls) ++ 0%N :: post)
        with ((pre ++ [N.of_nat (length l)]) ++ l ++ (raw ls ++ 0%N :: post)).
      - apply slice_mid.
      - rewrite <- !app_assoc. cbn. now rewrite <- app_assoc. }
    specialize (IH (pre ++ N.of_nat (length l) :: l) post fuel (name ++ N.of_nat (length l) :: l) newoff).
    replace (S (length pre) + length l) with (length (pre ++ N.of_nat (length l) :: l))
      by (rewrite app_length; cbn; lia).
    replace msg with ((pre ++ N.of_nat (length l) :: l) ++ raw ls ++ 0%N :: post)
      by (unfold msg; rewrite <- !app_assoc; cbn; now rewrite <- app_assoc).
    rewrite IH.
    + f_equal. f_equal.
      * rewrite <- app_assoc. reflexivity.
      * rewrite !app_length. cbn [length]. rewrite app_length. lia.
    + rewrite app_length. cbn [length]. lia.
    + cbn in Hf. lia.
Qed.

Lemma unpack_inplace pre n post : wf_name n ->
  unpack_name (pre ++ n ++ 0%N :: post) (length pre) = Ok (n, length pre + length n + 1).
Proof.
  intros (ls & -> & Hf & Hl). unfold unpack_name.
  rewrite (unpack_inplace_go ls Hf pre post name_fuel [] (length pre)).
  - reflexivity.
  - cbn. lia.
  - pose proof (raw_len_ge ls Hf). pose proof name_fuel_big. lia.
Qed.
