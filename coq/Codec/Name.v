(* Codec/Name.v — model of internal/dnsmsg/name.go: NameScanner, NameBuilder.unpack, Name.pack,
   ToLowerName, ToReadable/appendEscapedLabel, NameBuilder.ParseReadable/AppendLabel.
   A Go [Name] is the raw wire form without the terminating zero: len1 label1 len2 label2 ... *)
From Mos Require Import Base.Prelude.

(* raw name bytes of a label list *)
Fixpoint raw (ls : list (list N)) : list N :=
  match ls with [] => [] | l :: r => N.of_nat (length l) :: l ++ raw r end.

(* ---------------- NameScanner ---------------- *)
(* fuel: one unit per label; [length n] always suffices (see scan_fuel) *)
Fixpoint scan_go (fuel : nat) (rest : list N) : res (list (list N)) :=
  match rest with
  | [] => Ok []
  | c :: tl =>
    match fuel with
    | O => OutOfFuel
    | S f =>
      if (c =? 0)%N then Err EZeroSeg
      else if (63 <? c)%N then Err ELabelLen
      else let l := N.to_nat c in
           if length tl <? l then Err ELabelLen
           else do ls <- scan_go f (skipn l tl); Ok (firstn l tl :: ls)
    end
  end.

Definition scan (n : list N) : res (list (list N)) :=
  if 254 <? length n then Err ENameTooLong else scan_go (length n) n.

(* Name.PackLen *)
Definition name_pack_len (n : list N) : nat := S (Nat.min (length n) 254).

(* asciiToLower on one octet *)
Definition lower (c : N) : N := if (65 <=? c)%N && (c <=? 90)%N then (c + 32)%N else c.

(* ToLowerName on a name that scans (the only case the router produces); on a name that does not
   scan Go lower-cases the labels before the error and stops: modelled by [to_lower_prefix]. *)
Fixpoint to_lower_go (fuel : nat) (rest : list N) : list N :=
  match rest with
  | [] => []
  | c :: tl =>
    match fuel with
    | O => rest
    | S f =>
      if (c =? 0)%N then rest
      else if (63 <? c)%N then rest
      else let l := N.to_nat c in
           if length tl <? l then rest
           else c :: map lower (firstn l tl) ++ to_lower_go f (skipn l tl)
    end
  end.
Definition to_lower_name (n : list N) : list N :=
  if 254 <? length n then n else to_lower_go (length n) n.

(* ---------------- NameBuilder.unpack ---------------- *)
Definition ptr_target (c c1 : N) : nat := N.to_nat (N.lor (N.shiftl (N.lxor c 192) 8) c1).
Definition name_fuel : nat := 400.

(* cursors as in the Go code: curr = currOff, ptr = pointers followed, newoff = offset after the first
   pointer, name = bytes collected so far.  Returns (name, newOff). *)
Fixpoint unpack_name_go (fuel : nat) (msg : list N) (curr ptr newoff : nat) (name : list N)
  : res (list N * nat) :=
  match fuel with
  | O => OutOfFuel
  | S fuel' =>
    if length msg <=? curr then Err EBaseLen else
    match get msg curr with
    | None => Panic
    | Some c =>
      let curr1 := S curr in
      let top := N.land c 192 in
      if (top =? 0)%N then
        if (c =? 0)%N then Ok (name, if Nat.eqb ptr 0 then curr1 else newoff)
        else
          let cl := N.to_nat c in
          let endoff := curr1 + cl in
          if length msg <? endoff then Err ECalcLen else
          if 255 <? length name + 1 + cl + 1 then Err ENameTooLong else
          match slice msg curr1 endoff with
          | None => Panic
          | Some seg => unpack_name_go fuel' msg endoff ptr newoff (name ++ c :: seg)
          end
      else if (top =? 192)%N then
        if length msg <=? curr1 then Err EInvalidPtr else
        match get msg curr1 with
        | None => Panic
        | Some c1 =>
          let curr2 := S curr1 in
          let newoff' := if Nat.eqb ptr 0 then curr2 else newoff in
          let ptr' := S ptr in
          if 127 <? ptr' then Err ETooManyPtr else
          unpack_name_go fuel' msg (ptr_target c c1) ptr' newoff' name
        end
      else Err EReserved
    end
  end.

Definition unpack_name (msg : list N) (off : nat) : res (list N * nat) :=
  unpack_name_go name_fuel msg off 0 off [].

(* ---------------- Name.pack ---------------- *)
Fixpoint list_eqb (a b : list N) : bool :=
  match a, b with
  | [], [] => true
  | x :: a', y :: b' => (x =? y)%N && list_eqb a' b'
  | _, _ => false
  end.

(* the compression map: raw suffix bytes -> offset of its first occurrence *)
Definition tbl := list (list N * nat).
Fixpoint tbl_find (k : list N) (t : tbl) : option nat :=
  match t with
  | [] => None
  | (k', p) :: r => if list_eqb k k' then Some p else tbl_find k r
  end.

(* [off] = absolute offset at which this name starts; [acc] = bytes of this name emitted so far.
   The key of a suffix is the suffix *including* its leading length octet. *)
Fixpoint pack_name_go (fuel : nat) (compress : bool) (rest : list N) (off : nat) (t : tbl) (acc : list N)
  : res (list N * tbl) :=
  match rest with
  | [] => Ok (acc ++ [0%N], t)
  | c :: tl =>
    match fuel with
    | O => OutOfFuel
    | S f =>
      if (c =? 0)%N then Err EZeroSeg
      else if (63 <? c)%N then Err ELabelLen
      else let l := N.to_nat c in
           if length tl <? l then Err ELabelLen
           else
             match (if compress then tbl_find rest t else None) with
             | Some p => Ok (acc ++ [(192 + N.of_nat p / 256)%N; (N.of_nat p mod 256)%N], t)
             | None =>
               let here := off + length acc in
               let t' := if compress && (N.of_nat here <=? 16383)%N then (rest, here) :: t else t in
               pack_name_go f compress (skipn l tl) off t' (acc ++ c :: firstn l tl)
             end
    end
  end.

Definition pack_name (compress : bool) (n : list N) (off : nat) (t : tbl) : res (list N * tbl) :=
  if 254 <? length n then Err ENameTooLong else pack_name_go (length n) compress n off t [].

(* ---------------- ToReadable ---------------- *)
Definition is_printable (b : N) : bool :=
  ((97 <=? b) && (b <=? 122) || (65 <=? b) && (b <=? 90) || (48 <=? b) && (b <=? 57) || (b =? 45))%N.

(* three decimal digits *)
Definition ddd (b : N) : list N := [(48 + b / 100)%N; (48 + (b / 10) mod 10)%N; (48 + b mod 10)%N].

Definition escape_byte (b : N) : list N :=
  if is_printable b then [b]
  else if (b =? 46)%N then [92; 46]%N
  else if (b =? 92)%N then [92; 92]%N
  else 92%N :: ddd b.

Definition escape_label (l : list N) : list N := flat_map escape_byte l.

Fixpoint join_dot (ls : list (list N)) : list N :=
  match ls with
  | [] => []
  | [l] => l
  | l :: r => l ++ 46%N :: join_dot r
  end.

Definition to_readable (n : list N) : res (list N) :=
  match n with
  | [] => Ok [46%N]
  | _ => do ls <- scan n; Ok (join_dot (map escape_label ls))
  end.

(* ---------------- NameBuilder.ParseReadable ---------------- *)
Fixpoint index_byte (b : N) (s : list N) : option nat :=
  match s with
  | [] => None
  | c :: r => if (c =? b)%N then Some 0 else option_map S (index_byte b r)
  end.

(* AppendLabel: labelEnd = cur + 1 + l must not exceed 253 *)
Definition append_label (buf : list N) (s : list N) : res (list N) :=
  let l := length s in
  if l =? 0 then Err EZeroSeg
  else if 63 <? l then Err ELabelLen
  else if 253 <? length buf + 1 + l then Err ENameTooLong
  else Ok (buf ++ N.of_nat l :: s).

(* the loop of ParseReadable over the remaining text; an empty label (i = 0) swallows the whole rest *)
Fixpoint parse_readable_go (fuel : nat) (s : list N) (buf : list N) : res (list N) :=
  match s with
  | [] => Ok buf
  | _ =>
    match fuel with
    | O => OutOfFuel
    | S f =>
      let label := match index_byte 46 s with
                   | Some (S i) => firstn (S i) s
                   | _ => s
                   end in
      do buf' <- append_label buf label;
      parse_readable_go f (skipn (length label + 1) s) buf'
    end
  end.

Definition strip_dot (s : list N) : list N :=
  match rev s with
  | c :: r => if (c =? 46)%N then rev r else s
  | [] => s
  end.

(* empty input means the root (the documented meaning; the pinned code indexed s[-1]) *)
Definition parse_readable (s : list N) : res (list N) :=
  match s with
  | [] => Ok []
  | _ => let s' := strip_dot s in parse_readable_go (S (length s')) s' []
  end.
