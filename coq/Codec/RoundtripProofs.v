(* Codec/RoundtripProofs.v — the uncompressed encoding has exactly the advertised length and decodes
   back to the same content (C02, plain part); building blocks reused by the truncation proofs (C09). *)
From Mos Require Import Base.Prelude Codec.Name Codec.Msg Codec.Spec Codec.NameProofs Codec.SafetyProofs Codec.WfProofs.
From Coq Require Import ZifyN ZifyNat ZifyBool.

(* ---------- canonical (uncompressed) octets ---------- *)
Definition name_bytes (n : list N) : list N := n ++ [0%N].
Definition q_bytes (q : question) : list N := name_bytes (q_name q) ++ be16 (q_type q) ++ be16 (q_class q).
Definition rdata_bytes (d : rdata) : list N :=
  match d with
  | RA a => a
  | RAAAA a => a
  | RName n => name_bytes n
  | RSOA ns mb a b c d e => name_bytes ns ++ name_bytes mb ++ be32 a ++ be32 b ++ be32 c ++ be32 d ++ be32 e
  | RMX p mx => be16 p ++ name_bytes mx
  | RSRV a b c t => be16 a ++ be16 b ++ be16 c ++ name_bytes t
  | RRaw dd => dd
  end.
Definition rr_bytes (r : rr) : list N :=
  name_bytes (r_name r) ++ be16 (r_type r) ++ be16 (r_class r) ++ be32 (r_ttl r) ++
  be16 (rdlen_field (r_data r) (rdata_bytes (r_data r))) ++ rdata_bytes (r_data r).

(* ---------- "x occurs in msg at offset off" ---------- *)
Definition sub (msg : list N) (off : nat) (x : list N) : Prop :=
  exists pre post, msg = pre ++ x ++ post /\ length pre = off.

Lemma sub_app msg off a b : sub msg off (a ++ b) -> sub msg off a /\ sub msg (off + length a) b.
Proof.
  intros (pre & post & -> & <-). split.
  - exists pre, (b ++ post). now rewrite <- app_assoc.
  - exists (pre ++ a), post. rewrite app_length. split; [|reflexivity]. now rewrite <- !app_assoc.
Qed.

Lemma sub_whole pre x post : sub (pre ++ x ++ post) (length pre) x.
Proof. exists pre, post. auto. Qed.

Lemma sub_len msg off x : sub msg off x -> off + length x <= length msg.
Proof. intros (pre & post & -> & <-). rewrite !app_length. lia. Qed.

Lemma sub_get msg off x i c : sub msg off x -> get x i = Some c -> get msg (off + i) = Some c.
Proof.
  intros (pre & post & -> & <-) H. rewrite get_app2. now apply get_app1.
Qed.

Lemma sub_u16 msg off v : sub msg off (be16 v) -> u16 v -> u16_at msg off = Ok (v, off + 2).
Proof.
  intros Hs Hv. pose proof (sub_len _ _ _ Hs) as Hl. cbn [length be16] in Hl.
  unfold u16_at.
  assert (length msg <? off = false) as -> by (apply Nat.ltb_ge; lia).
  assert (length msg - off <? 2 = false) as -> by (apply Nat.ltb_ge; lia).
  pose proof (sub_get msg off (be16 v) 0 _ Hs eq_refl) as H0.
  pose proof (sub_get msg off (be16 v) 1 _ Hs eq_refl) as H1.
  rewrite Nat.add_0_r in H0. replace (off + 1) with (S off) in H1 by lia.
  rewrite H0, H1. unfold u16 in Hv. rewrite u16_be16 by exact Hv. f_equal. f_equal. lia.
Qed.

Lemma sub_u32 msg off v : sub msg off (be32 v) -> u32 v -> u32_at msg off = Ok (v, off + 4).
Proof.
  intros Hs Hv. pose proof (sub_len _ _ _ Hs) as Hl. cbn [length be32] in Hl.
  unfold u32_at.
  assert (length msg <? off = false) as -> by (apply Nat.ltb_ge; lia).
  assert (length msg - off <? 4 = false) as -> by (apply Nat.ltb_ge; lia).
  pose proof (sub_get msg off (be32 v) 0 _ Hs eq_refl) as H0.
  pose proof (sub_get msg off (be32 v) 1 _ Hs eq_refl) as H1.
  pose proof (sub_get msg off (be32 v) 2 _ Hs eq_refl) as H2.
  pose proof (sub_get msg off (be32 v) 3 _ Hs eq_refl) as H3.
  rewrite Nat.add_0_r in H0. replace (off + 1) with (S off) in H1 by lia.
  replace (off + 2) with (S (S off)) in H2 by lia. replace (off + 3) with (S (S (S off))) in H3 by lia.
  rewrite H0, H1, H2, H3. unfold u32 in Hv. rewrite u32_be32 by exact Hv. f_equal. f_equal. lia.
Qed.

Lemma sub_bytes msg off s : sub msg off s -> bytes_at msg off (length s) = Ok (s, off + length s).
Proof.
  intros Hs. pose proof (sub_len _ _ _ Hs) as Hl. unfold bytes_at.
  assert (length msg <? off = false) as -> by (apply Nat.ltb_ge; lia).
  assert (length msg - off <? length s = false) as -> by (apply Nat.ltb_ge; lia).
  destruct Hs as (pre & post & -> & <-). rewrite slice_mid. reflexivity.
Qed.

Lemma sub_name msg off n : sub msg off (name_bytes n) -> wf_name n ->
  unpack_name msg off = Ok (n, off + length n + 1).
Proof.
  intros (pre & post & -> & <-) Hw. unfold name_bytes. rewrite <- app_assoc. cbn [app].
  now apply unpack_inplace.
Qed.

(* ---------- lengths ---------- *)
Lemma name_pack_len_wf n : wf_name n -> name_pack_len n = length (name_bytes n).
Proof.
  intros H. apply wf_name_len in H. unfold name_pack_len, name_bytes. rewrite app_length. cbn. lia.
Qed.

Lemma q_bytes_len q : wf_question q -> length (q_bytes q) = q_len q.
Proof.
  intros (Hn & _). unfold q_bytes, q_len. rewrite !app_length, name_pack_len_wf by exact Hn. cbn. lia.
Qed.

Lemma rdata_bytes_len typ d : wf_rdata typ d -> length (rdata_bytes d) = rdata_len d.
Proof.
  unfold wf_rdata. destruct (kind_of_type typ), d; try contradiction; cbn [rdata_bytes rdata_len].
  - tauto.
  - tauto.
  - intros H. now rewrite name_pack_len_wf.
  - intros (H1 & H2 & _). rewrite !app_length, !name_pack_len_wf by assumption. cbn. lia.
  - intros (_ & H). rewrite !app_length, name_pack_len_wf by assumption. cbn. lia.
  - intros (_ & _ & _ & H). rewrite !app_length, name_pack_len_wf by assumption. cbn. lia.
  - intros (_ & H). lia.
Qed.

Lemma rr_bytes_len r : wf_rr r -> length (rr_bytes r) = rr_len r.
Proof.
  intros (Hn & _ & _ & _ & Hd). unfold rr_bytes, rr_len.
  rewrite !app_length, name_pack_len_wf, (rdata_bytes_len _ _ Hd) by exact Hn. cbn. lia.
Qed.

Lemma rdata_len_small typ d : wf_rdata typ d -> (N.of_nat (rdata_len d) < 65536)%N.
Proof.
  unfold wf_rdata. destruct (kind_of_type typ), d; try contradiction; cbn [rdata_len];
    unfold name_pack_len; intros; lia.
Qed.

(* ---------- packing without compression yields the canonical octets ---------- *)
Lemma pack_name_go_plain ls : Forall wf_label ls -> forall fuel off t acc,
  length ls <= fuel ->
  pack_name_go fuel false (raw ls) off t acc = Ok (acc ++ raw ls ++ [0%N], t).
Proof.
  induction 1 as [|l ls [Hl Hb] _ IH]; intros fuel off t acc Hf.
  - destruct fuel; reflexivity.
  - cbn [raw]. destruct fuel as [|fuel]; [cbn in Hf; lia|]. cbn [pack_name_go].
    assert ((N.of_nat (length l) =? 0)%N = false) as -> by (apply N.eqb_neq; lia).
    assert ((63 <? N.of_nat (length l))%N = false) as -> by (apply N.ltb_ge; lia).
    rewrite Nat2N.id.
    assert (length (l ++ raw ls) <? length l = false) as -> by (apply Nat.ltb_ge; rewrite app_length; lia).
    cbn [andb].
    rewrite skipn_app, skipn_all, Nat.sub_diag. cbn [skipn app].
    rewrite firstn_app, firstn_all, Nat.sub_diag. cbn [firstn]. rewrite app_nil_r.
    rewrite IH by (cbn in Hf; lia). f_equal. f_equal.
    rewrite <- !app_assoc. reflexivity.
Qed.

Lemma pack_name_plain n off t : wf_name n -> pack_name false n off t = Ok (name_bytes n, t).
Proof.
  intros (ls & -> & Hf & Hl). unfold pack_name.
  assert (254 <? length (raw ls) = false) as -> by (apply Nat.ltb_ge; lia).
  rewrite pack_name_go_plain; auto. now apply raw_len_ge.
Qed.

Lemma pack_question_plain q off t : wf_question q -> pack_question false q off t = Ok (q_bytes q, t).
Proof.
  intros (Hn & _). unfold pack_question. rewrite pack_name_plain by exact Hn. reflexivity.
Qed.

Lemma pack_rdata_plain typ d off t : wf_rdata typ d -> pack_rdata false d off t = Ok (rdata_bytes d, t).
Proof.
  unfold wf_rdata. destruct (kind_of_type typ), d; try contradiction; cbn [pack_rdata rdata_bytes].
  - reflexivity.
  - reflexivity.
  - intros H. now apply pack_name_plain.
  - intros (H1 & H2 & _). rewrite pack_name_plain by assumption. cbn [bind]. rewrite pack_name_plain by assumption. reflexivity.
  - intros (_ & H). rewrite pack_name_plain by assumption. reflexivity.
  - intros (_ & _ & _ & H). rewrite pack_name_plain by assumption. reflexivity.
  - intros (_ & H). assert ((65535 <? N.of_nat (length data))%N = false) as -> by (apply N.ltb_ge; lia).
    reflexivity.
Qed.

Lemma pack_rr_plain r off t : wf_rr r -> pack_rr false r off t = Ok (rr_bytes r, t).
Proof.
  intros (Hn & _ & _ & _ & Hd). unfold pack_rr.
  rewrite pack_name_plain by exact Hn. cbn [bind].
  rewrite (pack_rdata_plain _ _ _ _ Hd). reflexivity.
Qed.

(* ---------- decoding the canonical octets ---------- *)
(* variants with the offset equation as a side condition (closed by lia) *)
Lemma sub_u16x msg off off' v : sub msg off' (be16 v) -> u16 v -> off = off' -> u16_at msg off = Ok (v, off + 2).
Proof. intros H1 H2 ->. now apply sub_u16. Qed.
Lemma sub_u32x msg off off' v : sub msg off' (be32 v) -> u32 v -> off = off' -> u32_at msg off = Ok (v, off + 4).
Proof. intros H1 H2 ->. now apply sub_u32. Qed.
Lemma sub_namex msg off off' n : sub msg off' (name_bytes n) -> wf_name n -> off = off' ->
  unpack_name msg off = Ok (n, off + length n + 1).
Proof. intros H1 H2 ->. now apply sub_name. Qed.
Lemma sub_bytesx msg off off' l s : sub msg off' s -> off = off' -> l = length s ->
  bytes_at msg off l = Ok (s, off + length s).
Proof. intros H1 -> ->. now apply sub_bytes. Qed.

Lemma name_bytes_len n : length (name_bytes n) = length n + 1.
Proof. unfold name_bytes. rewrite app_length. reflexivity. Qed.

Ltac norm := repeat progress (rewrite ?app_length, ?name_bytes_len, ?be16_len, ?be32_len in * ).
Ltac split_sub H :=
  repeat match type of H with
         | sub _ _ (_ ++ _) => let S1 := fresh "S" in apply sub_app in H; destruct H as [S1 H]
         end.

Lemma decode_question msg off q : wf_question q -> sub msg off (q_bytes q) ->
  unpack_question msg off = Ok (q, off + length (q_bytes q)).
Proof.
  intros (Hn & Ht & Hc) Hs. unfold q_bytes in *. split_sub Hs. norm.
  unfold unpack_question.
  rewrite (sub_namex _ _ _ _ S Hn) by lia. cbn [bind].
  rewrite (sub_u16x _ _ _ _ S0 Ht) by lia. cbn [bind].
  rewrite (sub_u16x _ _ _ _ Hs Hc) by lia. cbn [bind].
  destruct q as [qn qt qc]. cbn [q_name q_type q_class] in *. f_equal. f_equal. lia.
Qed.

Lemma N_of_nat_mod_small k : (N.of_nat k < 65536)%N -> (N.of_nat k mod 65536 = N.of_nat k)%N.
Proof. intros H. apply N.mod_small. exact H. Qed.

Lemma check_len_eq {A} off o len (v : A) : off + N.to_nat len = o -> check_len off o len v = Ok v.
Proof. intros H. unfold check_len. replace (o - off) with (N.to_nat len) by lia. rewrite Nat.eqb_refl. reflexivity. Qed.

Lemma decode_rdata msg off typ d : wf_rdata typ d -> sub msg off (rdata_bytes d) ->
  unpack_rdata msg off typ (rdlen_field d (rdata_bytes d)) = Ok (d, off + length (rdata_bytes d)).
Proof.
  intros Hw Hs. pose proof (rdata_len_small _ _ Hw) as Hsmall.
  pose proof (rdata_bytes_len _ _ Hw) as Hlen.
  unfold wf_rdata in Hw. unfold unpack_rdata.
  destruct (kind_of_type typ), d; try contradiction; cbn [rdata_bytes rdlen_field rdata_len] in *.
  - destruct Hw as [Hl Hb]. cbn [N.eqb Pos.eqb]. rewrite (sub_bytesx _ _ _ _ _ Hs) by lia. reflexivity.
  - destruct Hw as [Hl Hb]. cbn [N.eqb Pos.eqb]. rewrite (sub_bytesx _ _ _ _ _ Hs) by lia. reflexivity.
  - norm. rewrite (sub_namex _ _ _ _ Hs Hw) by lia. cbn [bind].
    rewrite check_len_eq; [f_equal; f_equal; lia|]. rewrite N_of_nat_mod_small by lia. lia.
  - destruct Hw as (H1 & H2 & Ha & Hb & Hc & Hd & He). split_sub Hs. norm.
    rewrite (sub_namex _ _ _ _ S H1) by lia. cbn [bind].
    rewrite (sub_namex _ _ _ _ S0 H2) by lia. cbn [bind].
    rewrite (sub_u32x _ _ _ _ S1 Ha) by lia. cbn [bind].
    rewrite (sub_u32x _ _ _ _ S2 Hb) by lia. cbn [bind].
    rewrite (sub_u32x _ _ _ _ S3 Hc) by lia. cbn [bind].
    rewrite (sub_u32x _ _ _ _ S4 Hd) by lia. cbn [bind].
    rewrite (sub_u32x _ _ _ _ Hs He) by lia. cbn [bind].
    rewrite check_len_eq; [f_equal; f_equal; lia|]. rewrite N_of_nat_mod_small by lia. lia.
  - destruct Hw as (Hp & Hn). split_sub Hs. norm.
    rewrite (sub_u16x _ _ _ _ S Hp) by lia. cbn [bind].
    rewrite (sub_namex _ _ _ _ Hs Hn) by lia. cbn [bind].
    rewrite check_len_eq; [f_equal; f_equal; lia|]. rewrite N_of_nat_mod_small by lia. lia.
  - destruct Hw as (Ha & Hb & Hc & Hn). split_sub Hs. norm.
    rewrite (sub_u16x _ _ _ _ S Ha) by lia. cbn [bind].
    rewrite (sub_u16x _ _ _ _ S0 Hb) by lia. cbn [bind].
    rewrite (sub_u16x _ _ _ _ S1 Hc) by lia. cbn [bind].
    rewrite (sub_namex _ _ _ _ Hs Hn) by lia. cbn [bind].
    rewrite check_len_eq; [f_equal; f_equal; lia|]. rewrite N_of_nat_mod_small by lia. lia.
  - destruct Hw as (Hb & Hl). rewrite N_of_nat_mod_small by lia. rewrite Nat2N.id.
    rewrite (sub_bytes _ _ _ Hs). reflexivity.
Qed.

Lemma rdlen_u16 typ d : wf_rdata typ d -> u16 (rdlen_field d (rdata_bytes d)).
Proof.
  intros Hw. unfold u16. destruct d; cbn [rdlen_field]; try lia; apply N.mod_lt; lia.
Qed.

Definition set_len (r : rr) : rr :=
  mkRR (r_name r) (r_type r) (r_class r) (r_ttl r) (rdlen_field (r_data r) (rdata_bytes (r_data r))) (r_data r).

Lemma decode_rr msg off r : wf_rr r -> sub msg off (rr_bytes r) ->
  unpack_rr msg off = Ok (set_len r, off + length (rr_bytes r)).
Proof.
  intros (Hn & Ht & Hc & Htl & Hd) Hs. unfold rr_bytes in *. split_sub Hs. norm.
  unfold unpack_rr.
  rewrite (sub_namex _ _ _ _ S Hn) by lia. cbn [bind].
  rewrite (sub_u16x _ _ _ _ S0 Ht) by lia. cbn [bind].
  rewrite (sub_u16x _ _ _ _ S1 Hc) by lia. cbn [bind].
  rewrite (sub_u32x _ _ _ _ S2 Htl) by lia. cbn [bind].
  rewrite (sub_u16x _ _ _ _ S3 (rdlen_u16 _ _ Hd)) by lia. cbn [bind].
  match goal with |- context [unpack_rdata msg ?o _ _] =>
    replace o with (off + (length (r_name r) + 1) + 2 + 2 + 4 + 2) by lia end.
  rewrite (decode_rdata _ _ _ _ Hd Hs). cbn [bind].
  unfold set_len. f_equal. f_equal. lia.
Qed.

Lemma decode_qs qs : Forall wf_question qs -> forall msg off,
  sub msg off (flat_map q_bytes qs) ->
  unpack_qs (length qs) msg off = Ok (qs, off + length (flat_map q_bytes qs)).
Proof.
  induction 1 as [|q qs Hq _ IH]; intros msg off Hs; cbn [length unpack_qs flat_map].
  - f_equal. f_equal. cbn. lia.
  - cbn [flat_map] in Hs. apply sub_app in Hs. destruct Hs as [S1 S2].
    rewrite (decode_question _ _ _ Hq S1). cbn [bind].
    rewrite (IH _ _ S2). cbn [bind]. f_equal. f_equal. rewrite app_length. lia.
Qed.

Lemma decode_rrs rs : Forall wf_rr rs -> forall msg off,
  sub msg off (flat_map rr_bytes rs) ->
  unpack_rrs (length rs) msg off = Ok (map set_len rs, off + length (flat_map rr_bytes rs)).
Proof.
  induction 1 as [|r rs Hr _ IH]; intros msg off Hs; cbn [length unpack_rrs flat_map map].
  - f_equal. f_equal. cbn. lia.
  - cbn [flat_map] in Hs. apply sub_app in Hs. destruct Hs as [S1 S2].
    rewrite (decode_rr _ _ _ Hr S1). cbn [bind].
    rewrite (IH _ _ S2). cbn [bind]. f_equal. f_equal. rewrite app_length. lia.
Qed.

Lemma decode_qsx qs msg off off' : Forall wf_question qs -> sub msg off' (flat_map q_bytes qs) -> off = off' ->
  unpack_qs (length qs) msg off = Ok (qs, off + length (flat_map q_bytes qs)).
Proof. intros H1 H2 ->. now apply decode_qs. Qed.
Lemma decode_rrsx rs msg off off' : Forall wf_rr rs -> sub msg off' (flat_map rr_bytes rs) -> off = off' ->
  unpack_rrs (length rs) msg off = Ok (map set_len rs, off + length (flat_map rr_bytes rs)).
Proof. intros H1 H2 ->. now apply decode_rrs. Qed.

(* ---------- header bits round trip (finite sweep, lifted) ---------- *)
Definition n16 : list N := [0;1;2;3;4;5;6;7;8;9;10;11;12;13;14;15]%N.
Definition bools : list bool := [true; false].

Definition hdr_rt_ok (op rc : N) (r aa tc rd ra ad cd : bool) : bool :=
  let h := mkHeader 0 r op aa tc rd ra ad cd rc in
  let w := hdr_bits h in
  (w <? 65536)%N && header_eqb (hdr_of_bits 0 w) h &&
  header_eqb (hdr_of_bits 0 (N.lor w 512)) (set_tc h true).

Lemma hdr_rt_sweep :
  forallb (fun op => forallb (fun rc => forallb (fun r => forallb (fun aa => forallb (fun tc =>
  forallb (fun rd => forallb (fun ra => forallb (fun ad => forallb (fun cd =>
    hdr_rt_ok op rc r aa tc rd ra ad cd) bools) bools) bools) bools) bools) bools) bools) n16) n16 = true.
Proof. vm_compute. reflexivity. Qed.

Lemma in_n16 v : (v < 16)%N -> In v n16.
Proof.
  intros H. unfold n16.
  assert (v = 0 \/ v = 1 \/ v = 2 \/ v = 3 \/ v = 4 \/ v = 5 \/ v = 6 \/ v = 7 \/ v = 8 \/ v = 9 \/ v = 10 \/
          v = 11 \/ v = 12 \/ v = 13 \/ v = 14 \/ v = 15)%N as Hc by lia.
  cbn. intuition.
Qed.
Lemma in_bools b : In b bools. Proof. destruct b; cbn; auto. Qed.

Lemma hdr_rt op rc r aa tc rd ra ad cd : (op < 16)%N -> (rc < 16)%N -> hdr_rt_ok op rc r aa tc rd ra ad cd = true.
Proof.
  intros Ho Hr. pose proof hdr_rt_sweep as H.
  rewrite forallb_forall in H. specialize (H op (in_n16 _ Ho)).
  rewrite forallb_forall in H. specialize (H rc (in_n16 _ Hr)).
  rewrite forallb_forall in H. specialize (H r (in_bools _)).
  rewrite forallb_forall in H. specialize (H aa (in_bools _)).
  rewrite forallb_forall in H. specialize (H tc (in_bools _)).
  rewrite forallb_forall in H. specialize (H rd (in_bools _)).
  rewrite forallb_forall in H. specialize (H ra (in_bools _)).
  rewrite forallb_forall in H. specialize (H ad (in_bools _)).
  rewrite forallb_forall in H. exact (H cd (in_bools _)).
Qed.

Lemma list_eqb_eq a : forall b, list_eqb a b = true <-> a = b.
Proof.
  induction a as [|x a IH]; intros [|y b]; cbn; split; intros H; try reflexivity; try discriminate.
  - apply andb_true_iff in H. destruct H as [H1 H2]. apply N.eqb_eq in H1. apply IH in H2. congruence.
  - inversion H; subst. rewrite N.eqb_refl. cbn. now apply IH.
Qed.

Lemma header_eqb_eq a b : header_eqb a b = true <-> a = b.
Proof.
  unfold header_eqb, bool_eqb. destruct a, b; cbn. rewrite !andb_true_iff, !N.eqb_eq, !Bool.eqb_true_iff.
  split; [intuition congruence|]. intros H. inversion H; subst. tauto.
Qed.

(* hdr_bits does not look at the id *)
Lemma hdr_bits_id h : hdr_bits h = hdr_bits (mkHeader 0 (h_resp h) (h_opcode h) (h_aa h) (h_tc h) (h_rd h) (h_ra h) (h_ad h) (h_cd h) (h_rcode h)).
Proof. reflexivity. Qed.

Lemma hdr_of_bits_id id w : hdr_of_bits id w =
  let h := hdr_of_bits 0 w in mkHeader id (h_resp h) (h_opcode h) (h_aa h) (h_tc h) (h_rd h) (h_ra h) (h_ad h) (h_cd h) (h_rcode h).
Proof. reflexivity. Qed.

Lemma hdr_roundtrip h : wf_header h ->
  u16 (hdr_bits h) /\ hdr_of_bits (h_id h) (hdr_bits h) = h /\
  hdr_of_bits (h_id h) (N.lor (hdr_bits h) 512) = set_tc h true.
Proof.
  intros (_ & Ho & Hr). destruct h as [id r op aa tc rd ra ad cd rc]. cbn [h_opcode h_rcode h_id] in *.
  pose proof (hdr_rt op rc r aa tc rd ra ad cd Ho Hr) as H. unfold hdr_rt_ok in H.
  apply andb_true_iff in H. destruct H as [H H3]. apply andb_true_iff in H. destruct H as [H1 H2].
  apply N.ltb_lt in H1. apply header_eqb_eq in H2, H3.
  rewrite hdr_bits_id. cbn [h_resp h_opcode h_aa h_tc h_rd h_ra h_ad h_cd h_rcode].
  split; [exact H1|]. split.
  - rewrite hdr_of_bits_id, H2. reflexivity.
  - rewrite hdr_of_bits_id, H3. reflexivity.
Qed.

(* ---------- whole message, no size limit, no compression ---------- *)
Lemma pack_list_plain {A} (plen : A -> nat) pk (bytes_of : A -> list N) (P : A -> Prop) :
  (forall x off t, P x -> pk x off t = Ok (bytes_of x, t)) ->
  forall xs buflen off t, Forall P xs -> off + length (flat_map bytes_of xs) <= buflen ->
  pack_list plen pk None buflen xs off t = Ok (flat_map bytes_of xs, t, length xs).
Proof.
  intros Hpk xs. induction xs as [|x xs IH]; intros buflen off t HP Hfit; cbn [pack_list flat_map length].
  - reflexivity.
  - inversion HP; subst. cbn [over]. rewrite Hpk by assumption. cbn [bind].
    cbn [flat_map] in Hfit. rewrite app_length in Hfit.
    assert (buflen <? off + length (bytes_of x) = false) as -> by (apply Nat.ltb_ge; lia).
    rewrite IH; [reflexivity|assumption|lia].
Qed.

Lemma flat_map_len {A} (f : A -> list N) (g : A -> nat) (P : A -> Prop) xs :
  (forall x, P x -> length (f x) = g x) -> Forall P xs -> length (flat_map f xs) = sum_len g xs.
Proof.
  intros H. induction 1 as [|x xs Hx _ IH]; cbn; [reflexivity|]. rewrite app_length, H, IH; auto.
Qed.

Definition plain_bytes (m : msg) : list N :=
  hdr_bytes (h_id (m_hdr m)) (hdr_bits (m_hdr m)) (N.of_nat (length (m_qs m))) (N.of_nat (length (m_an m)))
            (N.of_nat (length (m_ns m))) (N.of_nat (length (m_ar m)))
  ++ flat_map q_bytes (m_qs m) ++ flat_map rr_bytes (m_an m) ++ flat_map rr_bytes (m_ns m)
  ++ flat_map rr_bytes (m_ar m).

Lemma hdr_bytes_len a b c d e f : length (hdr_bytes a b c d e f) = 12.
Proof. reflexivity. Qed.

Lemma plain_bytes_len m : wf_msg m -> length (plain_bytes m) = msg_len m.
Proof.
  intros (_ & Fq & Fa & Fn & Fr & _). unfold plain_bytes, msg_len.
  rewrite !app_length, hdr_bytes_len.
  rewrite (flat_map_len q_bytes q_len wf_question _ q_bytes_len Fq).
  rewrite (flat_map_len rr_bytes rr_len wf_rr _ rr_bytes_len Fa).
  rewrite (flat_map_len rr_bytes rr_len wf_rr _ rr_bytes_len Fn).
  rewrite (flat_map_len rr_bytes rr_len wf_rr _ rr_bytes_len Fr). lia.
Qed.

Lemma too_many_false {A} (l : list A) : count_ok l -> too_many l = false.
Proof. unfold count_ok, too_many. intros H. apply N.ltb_ge. lia. Qed.

(* Pack with size = 0: no OPT popping, no limit *)
Definition pack_msg_nolimit (buflen : nat) (compress : bool) (m : msg) : res (list N) :=
  if too_many (m_qs m) || too_many (m_an m) || too_many (m_ns m) || too_many (m_ar m)
  then Err ETooMany else
  if buflen <? 12 then Err ESmallBuffer else
  do (qb, t1, kq) <- pack_list q_len (pack_question compress) None buflen (m_qs m) 12 [];
  do (ab, t2, ka) <- pack_list rr_len (pack_rr compress) None buflen (m_an m) (12 + length qb) t1;
  do (nb, t3, kn) <- pack_list rr_len (pack_rr compress) None buflen (m_ns m) (12 + length qb + length ab) t2;
  do (rb, t4, kr) <- pack_list rr_len (pack_rr compress) None buflen (m_ar m)
                               (12 + length qb + length ab + length nb) t3;
  let body := qb ++ ab ++ nb ++ rb in
  let skipped := negb ((kq =? length (m_qs m)) && (ka =? length (m_an m)) && (kn =? length (m_ns m))
                       && (kr =? length (m_ar m))) in
  let bits := if skipped then N.lor (hdr_bits (m_hdr m)) 512 else hdr_bits (m_hdr m) in
  Ok (hdr_bytes (h_id (m_hdr m)) bits (N.of_nat kq) (N.of_nat ka) (N.of_nat kn) (N.of_nat (kr + 0))
      ++ body ++ []).

Lemma pack_msg_0 buflen c m : pack_msg buflen c 0 m = pack_msg_nolimit buflen c m.
Proof. reflexivity. Qed.

(* C02, packing half: with a buffer of the advertised length, Pack(b, false, 0) succeeds and writes
   exactly the canonical octets *)
Lemma pack_msg_plain m : wf_msg m -> pack_msg (msg_len m) false 0 m = Ok (plain_bytes m).
Proof.
  intros Hw. pose proof (plain_bytes_len m Hw) as Hlen.
  destruct Hw as (Hh & Fq & Fa & Fn & Fr & Cq & Ca & Cn & Cr).
  rewrite pack_msg_0. unfold pack_msg_nolimit. rewrite !too_many_false by assumption. cbn [orb].
  assert (msg_len m <? 12 = false) as -> by (apply Nat.ltb_ge; unfold msg_len; lia).
  unfold plain_bytes in Hlen. rewrite !app_length, hdr_bytes_len in Hlen.
  rewrite (pack_list_plain q_len (pack_question false) q_bytes wf_question
             (fun x off t H => pack_question_plain x off t H)) by (auto; lia).
  cbn [bind].
  rewrite (pack_list_plain rr_len (pack_rr false) rr_bytes wf_rr
             (fun x off t H => pack_rr_plain x off t H)) by (auto; lia).
  cbn [bind].
  rewrite (pack_list_plain rr_len (pack_rr false) rr_bytes wf_rr
             (fun x off t H => pack_rr_plain x off t H)) by (auto; lia).
  cbn [bind].
  rewrite (pack_list_plain rr_len (pack_rr false) rr_bytes wf_rr
             (fun x off t H => pack_rr_plain x off t H)) by (auto; lia).
  cbn [bind]. rewrite !Nat.eqb_refl. cbn [andb negb].
  unfold plain_bytes. rewrite Nat.add_0_r, app_nil_r. reflexivity.
Qed.

Definition relen (m : msg) : msg :=
  mkMsg (m_hdr m) (m_qs m) (map set_len (m_an m)) (map set_len (m_ns m)) (map set_len (m_ar m)).

Lemma count_u16 {A} (l : list A) : count_ok l -> u16 (N.of_nat (length l)).
Proof. unfold count_ok, u16. lia. Qed.

(* C02, decoding half: the canonical octets decode to the same message (RDLENGTH recomputed),
   whatever follows them *)
Lemma unpack_plain m post : wf_msg m -> unpack_msg (plain_bytes m ++ post) = Ok (relen m).
Proof.
  intros (Hh & Fq & Fa & Fn & Fr & Cq & Ca & Cn & Cr).
  destruct (hdr_roundtrip _ Hh) as (Hb16 & Hrt & _).
  set (msg := plain_bytes m ++ post).
  assert (Hs : sub msg 0 (plain_bytes m)) by (exists [], post; split; reflexivity).
  unfold plain_bytes, hdr_bytes in Hs. rewrite <- !app_assoc in Hs. split_sub Hs. norm.
  unfold unpack_msg, unpack_header.
  assert (length msg <? 12 = false) as ->.
  { apply Nat.ltb_ge. unfold msg, plain_bytes. rewrite !app_length, hdr_bytes_len. lia. }
  destruct Hh as (Hid & _).
  rewrite (sub_u16x _ _ _ _ S Hid) by lia. cbn [bind].
  rewrite (sub_u16x _ _ _ _ S0 Hb16) by lia. cbn [bind].
  rewrite (sub_u16x _ _ _ _ S1 (count_u16 _ Cq)) by lia. cbn [bind].
  rewrite (sub_u16x _ _ _ _ S2 (count_u16 _ Ca)) by lia. cbn [bind].
  rewrite (sub_u16x _ _ _ _ S3 (count_u16 _ Cn)) by lia. cbn [bind].
  rewrite (sub_u16x _ _ _ _ S4 (count_u16 _ Cr)) by lia. cbn [bind].
  rewrite !Nat2N.id.
  rewrite (decode_qsx _ _ _ _ Fq S5) by lia. cbn [bind].
  rewrite (decode_rrsx _ _ _ _ Fa S6) by lia. cbn [bind].
  rewrite (decode_rrsx _ _ _ _ Fn S7) by lia. cbn [bind].
  rewrite (decode_rrsx _ _ _ _ Fr Hs) by lia. cbn [bind].
  unfold relen. rewrite Hrt. reflexivity.
Qed.

Lemma view_relen m : view (relen m) = view m.
Proof.
  unfold view, relen. cbn. rewrite !map_map. reflexivity.
Qed.

(* ---------- the boolean oracle agrees ---------- *)
Lemma list_eqb_refl a : list_eqb a a = true. Proof. now apply list_eqb_eq. Qed.
Lemma question_eqb_refl q : question_eqb q q = true.
Proof. unfold question_eqb. now rewrite list_eqb_refl, !N.eqb_refl. Qed.
Lemma rdata_eqb_refl d : rdata_eqb d d = true.
Proof. destruct d; cbn; now rewrite ?list_eqb_refl, ?N.eqb_refl. Qed.
Lemma rr_eqb_set_len r : rr_eqb (set_len r) r = true.
Proof. unfold rr_eqb, set_len. cbn. now rewrite list_eqb_refl, !N.eqb_refl, rdata_eqb_refl. Qed.
Lemma header_eqb_refl h : header_eqb h h = true. Proof. now apply header_eqb_eq. Qed.
Lemma all2_refl {A} (f : A -> A -> bool) l : (forall x, f x x = true) -> all2 f l l = true.
Proof. intros H. induction l; cbn; auto. now rewrite H, IHl. Qed.
Lemma all2_set_len rs : all2 rr_eqb (map set_len rs) rs = true.
Proof. induction rs; cbn; auto. now rewrite rr_eqb_set_len, IHrs. Qed.

Lemma view_eqb_relen m : view_eqb (relen m) m = true.
Proof.
  unfold view_eqb, relen. cbn.
  now rewrite header_eqb_refl, (all2_refl _ _ question_eqb_refl), !all2_set_len.
Qed.

Theorem spec_pack_plain m : wf_msg m -> spec_pack false m (plain_bytes m) = true.
Proof.
  intros Hw. unfold spec_pack. rewrite <- (app_nil_r (plain_bytes m)) at 1.
  rewrite (unpack_plain m [] Hw). rewrite view_eqb_relen. cbn [orb andb].
  rewrite plain_bytes_len by assumption. apply Nat.eqb_refl.
Qed.
