(* Codec/Spec.v — executable statements of what C02 and C09 require of an encoder output.
   These boolean predicates are (i) what the property theorems conclude about [pack_msg] and
   (ii) the oracle the correspondence check evaluates on the bytes the implementation produced. *)
From Mos Require Import Base.Prelude Codec.Name Codec.Msg.

Definition bool_eqb (a b : bool) : bool := Bool.eqb a b.

Definition header_eqb (a b : header) : bool :=
  (h_id a =? h_id b)%N && bool_eqb (h_resp a) (h_resp b) && (h_opcode a =? h_opcode b)%N &&
  bool_eqb (h_aa a) (h_aa b) && bool_eqb (h_tc a) (h_tc b) && bool_eqb (h_rd a) (h_rd b) &&
  bool_eqb (h_ra a) (h_ra b) && bool_eqb (h_ad a) (h_ad b) && bool_eqb (h_cd a) (h_cd b) &&
  (h_rcode a =? h_rcode b)%N.

Definition question_eqb (a b : question) : bool :=
  list_eqb (q_name a) (q_name b) && (q_type a =? q_type b)%N && (q_class a =? q_class b)%N.

Definition rdata_eqb (a b : rdata) : bool :=
  match a, b with
  | RA x, RA y => list_eqb x y
  | RAAAA x, RAAAA y => list_eqb x y
  | RName x, RName y => list_eqb x y
  | RSOA n1 m1 a1 b1 c1 d1 e1, RSOA n2 m2 a2 b2 c2 d2 e2 =>
    list_eqb n1 n2 && list_eqb m1 m2 && (a1 =? a2)%N && (b1 =? b2)%N && (c1 =? c2)%N && (d1 =? d2)%N && (e1 =? e2)%N
  | RMX p1 x1, RMX p2 x2 => (p1 =? p2)%N && list_eqb x1 x2
  | RSRV a1 b1 c1 t1, RSRV a2 b2 c2 t2 => (a1 =? a2)%N && (b1 =? b2)%N && (c1 =? c2)%N && list_eqb t1 t2
  | RRaw x, RRaw y => list_eqb x y
  | _, _ => false
  end.

(* equality of records "modulo the stored RDLENGTH" *)
Definition rr_eqb (a b : rr) : bool :=
  list_eqb (r_name a) (r_name b) && (r_type a =? r_type b)%N && (r_class a =? r_class b)%N &&
  (r_ttl a =? r_ttl b)%N && rdata_eqb (r_data a) (r_data b).

Fixpoint all2 {A} (f : A -> A -> bool) (xs ys : list A) : bool :=
  match xs, ys with
  | [], [] => true
  | x :: xs', y :: ys' => f x y && all2 f xs' ys'
  | _, _ => false
  end.

Definition view_eqb (a b : msg) : bool :=
  header_eqb (m_hdr a) (m_hdr b) && all2 question_eqb (m_qs a) (m_qs b) &&
  all2 rr_eqb (m_an a) (m_an b) && all2 rr_eqb (m_ns a) (m_ns b) && all2 rr_eqb (m_ar a) (m_ar b).

(* C02: [out] decodes to the same content; without compression it has exactly the advertised length *)
Definition spec_pack (compress : bool) (m : msg) (out : list N) : bool :=
  match unpack_msg out with
  | Ok m' => view_eqb m' m && (compress || Nat.eqb (length out) (msg_len m))
  | _ => false
  end.

(* xs is a subsequence of ys (greedy matching is complete for subsequences) *)
Fixpoint subseq {A} (f : A -> A -> bool) (xs ys : list A) : bool :=
  match xs, ys with
  | [], _ => true
  | _ :: _, [] => false
  | x :: xs', y :: ys' => if f x y then subseq f xs' ys' else subseq f xs ys'
  end.

Definition set_tc (h : header) (tc : bool) : header :=
  mkHeader (h_id h) (h_resp h) (h_opcode h) (h_aa h) tc (h_rd h) (h_ra h) (h_ad h) (h_cd h) (h_rcode h).

(* C09: size limit, clean truncation.  [size] is the caller's limit (floor 512 applied here). *)
Definition spec_packsize (compress : bool) (size : nat) (m : msg) (out : list N) : bool :=
  let eff := Nat.max 512 size in
  let '(opt, ar0) := pop_opt (m_ar m) in
  let optlen := match opt with Some o => rr_len o | None => 0 end in
  match unpack_msg out with
  | Ok m' =>
    let omitted := negb (Nat.eqb (length (m_qs m')) (length (m_qs m)) &&
                         Nat.eqb (length (m_an m')) (length (m_an m)) &&
                         Nat.eqb (length (m_ns m')) (length (m_ns m)) &&
                         Nat.eqb (length (m_ar m')) (length (m_ar m))) in
    (* the size bound (meaningful when the OPT record itself leaves room) *)
    ((eff <? optlen + 12) || (length out <=? eff)) &&
    (* TC iff something was omitted (or TC was already set) *)
    header_eqb (m_hdr m') (set_tc (m_hdr m) (h_tc (m_hdr m) || omitted)) &&
    (* kept elements are unmodified and in their original relative order *)
    subseq question_eqb (m_qs m') (m_qs m) &&
    subseq rr_eqb (m_an m') (m_an m) &&
    subseq rr_eqb (m_ns m') (m_ns m) &&
    (* additionals: the OPT record is retained (as the last record); the others keep order *)
    match opt with
    | Some o =>
      match rev (m_ar m') with
      | last' :: rest' => rr_eqb last' o && subseq rr_eqb (rev rest') ar0
      | [] => false
      end
    | None => subseq rr_eqb (m_ar m') (m_ar m)
    end &&
    (* nothing omitted when the uncompressed encoding already fits *)
    (negb (msg_len m <=? eff) || negb omitted) &&
    (* a single question that fits next to the OPT record is always retained *)
    match m_qs m with
    | [q] => negb (12 + q_len q + optlen <=? eff) || Nat.eqb (length (m_qs m')) 1
    | _ => true
    end
  | _ => false
  end.
