(* Codec/Msg.v — model of internal/dnsmsg/{msg,question,rr,utils}.go: message types, Unpack, Pack
   (with compression and with the size limit / truncation), Len, PopEDNS0. *)
From Mos Require Import Base.Prelude Codec.Name.

(* ---------------- types ---------------- *)
Record header := mkHeader {
  h_id : N; h_resp : bool; h_opcode : N; h_aa : bool; h_tc : bool; h_rd : bool; h_ra : bool;
  h_ad : bool; h_cd : bool; h_rcode : N }.

Record question := mkQuestion { q_name : list N; q_type : N; q_class : N }.

Inductive rdata :=
| RA (a : list N)                     (* [4]byte *)
| RAAAA (a : list N)                  (* [16]byte *)
| RName (n : list N)                  (* CNAME, NS, PTR *)
| RSOA (ns mbox : list N) (serial refresh retry expire minttl : N)
| RMX (pref : N) (mx : list N)
| RSRV (prio weight port : N) (target : list N)
| RRaw (data : list N).               (* everything else, incl. OPT and TXT *)

Record rr := mkRR { r_name : list N; r_type : N; r_class : N; r_ttl : N; r_len : N; r_data : rdata }.

Record msg := mkMsg { m_hdr : header; m_qs : list question; m_an : list rr; m_ns : list rr; m_ar : list rr }.

Definition TypeA : N := 1.   Definition TypeNS : N := 2.   Definition TypeCNAME : N := 5.
Definition TypeSOA : N := 6. Definition TypePTR : N := 12. Definition TypeMX : N := 15.
Definition TypeAAAA : N := 28. Definition TypeSRV : N := 33. Definition TypeOPT : N := 41.

(* ---------------- header bits ---------------- *)
Definition b2n (b : bool) : N := if b then 1%N else 0%N.
Definition bit (w : N) (k : N) : bool := N.testbit w k.

Definition hdr_of_bits (id bits : N) : header :=
  mkHeader id (bit bits 15) (N.land (N.shiftr bits 11) 15) (bit bits 10) (bit bits 9) (bit bits 8)
           (bit bits 7) (bit bits 5) (bit bits 4) (N.land bits 15).

(* Header.Pack: uint16(OpCode)<<11 | uint16(RCode) | flags, all in uint16 arithmetic *)
Definition hdr_bits (h : header) : N :=
  N.lor (N.lor (N.lor (N.lor (N.lor (N.lor (N.lor (N.lor
    ((h_opcode h * 2048) mod 65536) (h_rcode h mod 65536))
    (b2n (h_ra h) * 128)) (b2n (h_rd h) * 256)) (b2n (h_tc h) * 512)) (b2n (h_aa h) * 1024))
    (b2n (h_resp h) * 32768)) (b2n (h_ad h) * 32)) (b2n (h_cd h) * 16).

(* ---------------- unpack primitives ---------------- *)
Definition u16_at (msg : list N) (off : nat) : res (N * nat) :=
  if length msg <? off then Panic
  else if length msg - off <? 2 then Err ESmallBuffer
  else match get msg off, get msg (S off) with
       | Some a, Some b => Ok (u16_of a b, S (S off))
       | _, _ => Panic
       end.

Definition u32_at (msg : list N) (off : nat) : res (N * nat) :=
  if length msg <? off then Panic
  else if length msg - off <? 4 then Err ESmallBuffer
  else match get msg off, get msg (S off), get msg (S (S off)), get msg (S (S (S off))) with
       | Some a, Some b, Some c, Some d => Ok (u32_of a b c d, S (S (S (S off))))
       | _, _, _, _ => Panic
       end.

Definition bytes_at (msg : list N) (off l : nat) : res (list N * nat) :=
  if length msg <? off then Panic
  else if length msg - off <? l then Err ESmallBuffer
  else match slice msg off (off + l) with
       | Some s => Ok (s, off + l)
       | None => Panic
       end.

Definition unpack_header (msg : list N) : res (header * (N * N * N * N) * nat) :=
  if length msg <? 12 then Err ESmallBuffer else
  do (id, o1) <- u16_at msg 0;
  do (bits, o2) <- u16_at msg o1;
  do (qd, o3) <- u16_at msg o2;
  do (an, o4) <- u16_at msg o3;
  do (ns, o5) <- u16_at msg o4;
  do (ar, o6) <- u16_at msg o5;
  Ok (hdr_of_bits id bits, (qd, an, ns, ar), o6).

Definition unpack_question (msg : list N) (off : nat) : res (question * nat) :=
  do (name, o1) <- unpack_name msg off;
  do (typ, o2) <- u16_at msg o1;
  do (cls, o3) <- u16_at msg o2;
  Ok (mkQuestion name typ cls, o3).

Inductive kind := KA | KAAAA | KName | KSOA | KMX | KSRV | KRaw.
Definition kind_of_type (t : N) : kind :=
  if (t =? 1)%N then KA else if (t =? 28)%N then KAAAA else if (t =? 15)%N then KMX
  else if (t =? 5)%N || (t =? 2)%N || (t =? 12)%N then KName
  else if (t =? 6)%N then KSOA else if (t =? 33)%N then KSRV else KRaw.

Definition check_len (start stop : nat) (len : N) {A} (v : A) : res A :=
  if Nat.eqb (stop - start) (N.to_nat len) then Ok v else Err EBodyLen.

Definition unpack_rdata (msg : list N) (off : nat) (typ len : N) : res (rdata * nat) :=
  match kind_of_type typ with
  | KA => if (len =? 4)%N then do (a, o) <- bytes_at msg off 4; Ok (RA a, o) else Err EBodyLen
  | KAAAA => if (len =? 16)%N then do (a, o) <- bytes_at msg off 16; Ok (RAAAA a, o) else Err EBodyLen
  | KName => do (n, o) <- unpack_name msg off; check_len off o len (RName n, o)
  | KSOA =>
    do (ns, o1) <- unpack_name msg off;
    do (mb, o2) <- unpack_name msg o1;
    do (ser, o3) <- u32_at msg o2;
    do (rfr, o4) <- u32_at msg o3;
    do (rty, o5) <- u32_at msg o4;
    do (exp, o6) <- u32_at msg o5;
    do (mtl, o7) <- u32_at msg o6;
    check_len off o7 len (RSOA ns mb ser rfr rty exp mtl, o7)
  | KMX =>
    do (pref, o1) <- u16_at msg off;
    do (mx, o2) <- unpack_name msg o1;
    check_len off o2 len (RMX pref mx, o2)
  | KSRV =>
    do (prio, o1) <- u16_at msg off;
    do (wt, o2) <- u16_at msg o1;
    do (port, o3) <- u16_at msg o2;
    do (tg, o4) <- unpack_name msg o3;
    check_len off o4 len (RSRV prio wt port tg, o4)
  | KRaw => do (d, o) <- bytes_at msg off (N.to_nat len); Ok (RRaw d, o)
  end.

Definition unpack_rr (msg : list N) (off : nat) : res (rr * nat) :=
  do (name, o1) <- unpack_name msg off;
  do (typ, o2) <- u16_at msg o1;
  do (cls, o3) <- u16_at msg o2;
  do (ttl, o4) <- u32_at msg o3;
  do (len, o5) <- u16_at msg o4;
  do (d, o6) <- unpack_rdata msg o5 typ len;
  Ok (mkRR name typ cls ttl len d, o6).

Fixpoint unpack_qs (n : nat) (msg : list N) (off : nat) : res (list question * nat) :=
  match n with
  | O => Ok ([], off)
  | S n' => do (q, o1) <- unpack_question msg off;
            do (qs, o2) <- unpack_qs n' msg o1;
            Ok (q :: qs, o2)
  end.

Fixpoint unpack_rrs (n : nat) (msg : list N) (off : nat) : res (list rr * nat) :=
  match n with
  | O => Ok ([], off)
  | S n' => do (r, o1) <- unpack_rr msg off;
            do (rs, o2) <- unpack_rrs n' msg o1;
            Ok (r :: rs, o2)
  end.

Definition unpack_msg (bs : list N) : res msg :=
  do (h, cnt, o0) <- unpack_header bs;
  let '(qd, an, ns, ar) := cnt in
  do (qs, o1) <- unpack_qs (N.to_nat qd) bs o0;
  do (ans, o2) <- unpack_rrs (N.to_nat an) bs o1;
  do (nss, o3) <- unpack_rrs (N.to_nat ns) bs o2;
  do (ars, o4) <- unpack_rrs (N.to_nat ar) bs o3;
  Ok (mkMsg h qs ans nss ars).

(* ---------------- lengths (no compression) ---------------- *)
Definition q_len (q : question) : nat := name_pack_len (q_name q) + 4.
Definition rdata_len (d : rdata) : nat :=
  match d with
  | RA _ => 4 | RAAAA _ => 16
  | RName n => name_pack_len n
  | RSOA ns mb _ _ _ _ _ => name_pack_len ns + name_pack_len mb + 20
  | RMX _ mx => 2 + name_pack_len mx
  | RSRV _ _ _ tg => 6 + name_pack_len tg
  | RRaw d => N.to_nat (N.min (N.of_nat (length d)) 65535)
  end.
Definition rr_len (r : rr) : nat := name_pack_len (r_name r) + 10 + rdata_len (r_data r).
Definition sum_len {A} (f : A -> nat) (l : list A) : nat := fold_right (fun x acc => f x + acc) 0 l.
Definition msg_len (m : msg) : nat :=
  12 + sum_len q_len (m_qs m) + sum_len rr_len (m_an m) + sum_len rr_len (m_ns m) + sum_len rr_len (m_ar m).

(* ---------------- pack ---------------- *)
Definition pack_question (compress : bool) (q : question) (off : nat) (t : tbl) : res (list N * tbl) :=
  do (nb, t1) <- pack_name compress (q_name q) off t;
  Ok (nb ++ be16 (q_type q) ++ be16 (q_class q), t1).

(* [off] = absolute offset of the first RDATA octet *)
Definition pack_rdata (compress : bool) (d : rdata) (off : nat) (t : tbl) : res (list N * tbl) :=
  match d with
  | RA a => Ok (a, t)
  | RAAAA a => Ok (a, t)
  | RName n => pack_name compress n off t
  | RSOA ns mb ser rfr rty exp mtl =>
    do (b1, t1) <- pack_name compress ns off t;
    do (b2, t2) <- pack_name compress mb (off + length b1) t1;
    Ok (b1 ++ b2 ++ be32 ser ++ be32 rfr ++ be32 rty ++ be32 exp ++ be32 mtl, t2)
  | RMX pref mx =>
    do (b1, t1) <- pack_name compress mx (off + 2) t;
    Ok (be16 pref ++ b1, t1)
  | RSRV prio wt port tg =>
    do (b1, t1) <- pack_name compress tg (off + 6) t;
    Ok (be16 prio ++ be16 wt ++ be16 port ++ b1, t1)
  | RRaw dd => if (65535 <? N.of_nat (length dd))%N then Err EResTooLong else Ok (dd, t)
  end.

(* the RDLENGTH octets written: the constant for A/AAAA, len(Data) for raw, the back-patched
   uint16(off)-uint16(dataStartOff) for the others *)
Definition rdlen_field (d : rdata) (rb : list N) : N :=
  match d with
  | RA _ => 4%N
  | RAAAA _ => 16%N
  | _ => (N.of_nat (length rb) mod 65536)%N
  end.

Definition pack_rr (compress : bool) (r : rr) (off : nat) (t : tbl) : res (list N * tbl) :=
  do (nb, t1) <- pack_name compress (r_name r) off t;
  do (rb, t2) <- pack_rdata compress (r_data r) (off + length nb + 10) t1;
  Ok (nb ++ be16 (r_type r) ++ be16 (r_class r) ++ be32 (r_ttl r) ++ be16 (rdlen_field (r_data r) rb) ++ rb, t2).

(* one section: elements that would cross the limit are skipped (and counted), the rest packed in order *)
Section PackList.
  Context {A : Type} (plen : A -> nat) (pk : A -> nat -> tbl -> res (list N * tbl)).
  Definition over (limit : option nat) (v : nat) : bool :=
    match limit with Some s => s <? v | None => false end.
  Fixpoint pack_list (limit : option nat) (buflen : nat) (xs : list A) (off : nat) (t : tbl)
    : res (list N * tbl * nat) :=
    match xs with
    | [] => Ok ([], t, 0)
    | x :: rest =>
      if over limit (off + plen x) then pack_list limit buflen rest off t
      else
        do (b, t1) <- pk x off t;
        if buflen <? off + length b then Err ESmallBuffer else
        do (bs, t2, k) <- pack_list limit buflen rest (off + length b) t1;
        Ok (b ++ bs, t2, S k)
    end.
End PackList.

(* PopEDNS0: last OPT of the additional section, removed by swap-with-last *)
Fixpoint last_opt_idx (ar : list rr) (i : nat) (best : option nat) : option nat :=
  match ar with
  | [] => best
  | r :: rest => last_opt_idx rest (S i) (if (r_type r =? TypeOPT)%N then Some i else best)
  end.

Fixpoint set_nth {A} (l : list A) (i : nat) (v : A) : list A :=
  match l, i with
  | [], _ => []
  | _ :: r, O => v :: r
  | x :: r, S j => x :: set_nth r j v
  end.

Definition pop_opt (ar : list rr) : option rr * list rr :=
  match last_opt_idx ar 0 None with
  | None => (None, ar)
  | Some i =>
    match nth_error ar i, rev ar with
    | Some o, lastr :: _ => (Some o, removelast (set_nth ar i lastr))
    | _, _ => (None, ar)
    end
  end.

Definition hdr_bytes (id bits qd an ns ar : N) : list N :=
  be16 id ++ be16 bits ++ be16 qd ++ be16 an ++ be16 ns ++ be16 ar.

Definition too_many {A} (l : list A) : bool := (65535 <? N.of_nat (length l))%N.

(* Msg.Pack(b, compression, size) with len(b) = buflen.  size = 0: no limit. *)
Definition pack_msg (buflen : nat) (compress : bool) (size : nat) (m : msg) : res (list N) :=
  if too_many (m_qs m) || too_many (m_an m) || too_many (m_ns m) || too_many (m_ar m)
  then Err ETooMany else
  let size1 := if (0 <? size) && (size <? 512) then 512 else size in
  if buflen <? 12 then Err ESmallBuffer else
  let '(opt, ar) := if 0 <? size1 then pop_opt (m_ar m) else (None, m_ar m) in
  let limit := if 0 <? size1 then
                 match opt with
                 | Some o => if rr_len o <? size1 then Some (size1 - rr_len o) else None
                 | None => Some size1
                 end
               else None in
  do (qb, t1, kq) <- pack_list q_len (pack_question compress) limit buflen (m_qs m) 12 [];
  do (ab, t2, ka) <- pack_list rr_len (pack_rr compress) limit buflen (m_an m) (12 + length qb) t1;
  do (nb, t3, kn) <- pack_list rr_len (pack_rr compress) limit buflen (m_ns m) (12 + length qb + length ab) t2;
  do (rb, t4, kr) <- pack_list rr_len (pack_rr compress) limit buflen ar
                               (12 + length qb + length ab + length nb) t3;
  let body := qb ++ ab ++ nb ++ rb in
  do (ob, ko) <- match opt with
                 | None => Ok ([], 0)
                 | Some o => do (b, _) <- pack_rr compress o (12 + length body) t4;
                             if buflen <? 12 + length body + length b then Err ESmallBuffer else Ok (b, 1)
                 end;
  let skipped := negb ((kq =? length (m_qs m)) && (ka =? length (m_an m)) && (kn =? length (m_ns m))
                       && (kr =? length ar)) in
  let bits := if skipped then N.lor (hdr_bits (m_hdr m)) 512 else hdr_bits (m_hdr m) in
  Ok (hdr_bytes (h_id (m_hdr m)) bits (N.of_nat kq) (N.of_nat ka) (N.of_nat kn) (N.of_nat (kr + ko))
      ++ body ++ ob).

(* what the round trip preserves: everything except the stored RDLENGTH (ignored when packing) *)
Definition rr_view (r : rr) := (r_name r, r_type r, r_class r, r_ttl r, r_data r).
Definition view (m : msg) := (m_hdr m, m_qs m, map rr_view (m_an m), map rr_view (m_ns m), map rr_view (m_ar m)).
