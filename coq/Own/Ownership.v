(* Own/Ownership.v — C20: ghost ownership of recyclable objects, as an executable small-step LTS.

   Every recyclable object (pool byte buffer, dnsmsg.Msg with its names, Question, RequestContext, cache
   entry) carries a ghost owner:   Fresh | Released | Owned thread   (Fresh/Released = "Free": in a pool).
   Threads are small programs whose instructions are the ATOMIC ACTIONS of the Go code, in the order the Go
   code performs them: pool get (acquire), read, write, release, goroutine hand-over, channel send/receive
   (ownership travels with the message), context/flag operations, lock/try-lock.  An adversarial ENVIRONMENT
   thread stands for "every other request": it may take any released pooled object out of the pool (and is
   then its owner, scribbling on it) and put it back, at any time.  An access by a thread that is not the
   owner is recorded in the sticky ghost field [viol]:
        1 = use after release (object is Free)      2 = not the owner (another thread / the environment /
        3 = bad release (double or foreign release)      a channel owns it)     4 = foreign data returned
   "Every reachable state" of [succs] = every interleaving at that granularity.

   This file contains definitions only (it must extract even if a proof breaks); proofs: OwnershipProofs.v. *)
From Mos Require Import Base.Prelude Codec.Msg.

(* ------------------------------------------------------------------ instructions *)
Inductive instr :=
| IAcq (o : nat)                 (* pool Get / New*: blocks unless o is free; then Owned self *)
| ITryAcq (o l : nat)            (* TryLock-like: if o is free take it, else goto l *)
| IRd (o : nat) | IWr (o : nat)  (* access: must be the owner *)
| IRel (o : nat)                 (* Release* / pool Put / Unlock: must be the owner *)
| IGive (o t : nat)              (* hand-over to thread t (go func(){..o..}, AsyncWrite, publish into the cache) *)
| ILend (o t : nat)              (* the owner lets thread t use o (a goroutine capturing the variable) but stays the owner:
                                    t may access o for as long as the owner has not released it *)
| IRdG (o e : nat)               (* guarded read: o is owned by the cache (CACHE) and self holds the lock object e *)
| IRelG (o e : nat)              (* guarded release of o by the holder of lock e *)
| ISend (c o : nat)              (* ch <- o : blocks while the channel is full; ownership moves into the channel *)
| ITrySend (c o l : nat)         (* select { case ch <- o: ; default: goto l } *)
| IRecvOrFlag (c f l : nat)      (* select { case r := <-ch: (r into the thread's register) ; case <-flag f: goto l } *)
| IRdR | IWrR | IRelR            (* access / release the object in the thread's register (last received) *)
| ISet (f v : nat)               (* flag/register write (cancel ctx, map insert/delete, field tag) *)
| IWait (f : nat)                (* blocks until flag f <> 0 (goroutine start) *)
| IIfEq (f v l : nat)            (* if flags[f] = v goto l *)
| IAssertNe (f v : nat)          (* ghost check: flags[f] = v is a foreign-data violation (4) *)
| IChoice (l : nat)              (* environment-decided branch (I/O error, ...): continue or goto l *)
| IGoto (l : nat)
| IHalt.

(* owner codes *)
Definition FRESH : nat := 0.       (* in a pool, never handed out in this own_run *)
Definition RELEASED : nat := 1.    (* back in a pool *)
Definition owned (t : nat) : nat := 2 + t.
(* pseudo-threads (kept small: the certificate check compares unary numbers); real threads are 0..2 *)
Definition ENV : nat := 3.         (* "another request" *)
Definition CACHE : nat := 4.       (* the cache backend as holder of published values *)
Definition CHAN (c : nat) : nat := 5 + c.
Definition is_free (w : nat) : bool := (w =? FRESH) || (w =? RELEASED).

Record mstate := mkSt {
  pcs : list nat; own : list nat; lent : list nat (* 0 = nobody, S t = borrower t *);
  chans : list (list nat); flags : list nat; regs : list nat; viol : nat }.

Record proto := mkProto {
  p_threads : list (list instr);
  p_own0 : list nat;          (* initial owner code per object *)
  p_env : list bool;          (* pooled objects the environment may recycle once released *)
  p_cap : list nat;           (* channel capacities *)
  p_flags0 : list nat }.

Fixpoint own_upd {A} (l : list A) (i : nat) (v : A) : list A :=
  match l, i with
  | [], _ => []
  | _ :: r, 0 => v :: r
  | x :: r, S k => x :: own_upd r k v
  end.

Definition own_init (P : proto) : mstate :=
  mkSt (map (fun _ => 0) (p_threads P)) (p_own0 P) (map (fun _ => 0) (p_own0 P)) (map (fun _ => []) (p_cap P)) (p_flags0 P)
       (map (fun _ => 0) (p_threads P)) 0.

Definition setpc (s : mstate) (t pc : nat) : mstate :=
  mkSt (own_upd (pcs s) t pc) (own s) (lent s) (chans s) (flags s) (regs s) (viol s).
Definition setown (s : mstate) (o w : nat) : mstate :=
  mkSt (pcs s) (own_upd (own s) o w) (lent s) (chans s) (flags s) (regs s) (viol s).
Definition setchan (s : mstate) (c : nat) (q : list nat) : mstate :=
  mkSt (pcs s) (own s) (lent s) (own_upd (chans s) c q) (flags s) (regs s) (viol s).
Definition setflag (s : mstate) (f v : nat) : mstate :=
  mkSt (pcs s) (own s) (lent s) (chans s) (own_upd (flags s) f v) (regs s) (viol s).
Definition setreg (s : mstate) (t o : nat) : mstate :=
  mkSt (pcs s) (own s) (lent s) (chans s) (flags s) (own_upd (regs s) t o) (viol s).
Definition setlent (s : mstate) (o b : nat) : mstate :=
  mkSt (pcs s) (own s) (own_upd (lent s) o b) (chans s) (flags s) (regs s) (viol s).
Definition flag_viol (s : mstate) (v : nat) : mstate :=
  mkSt (pcs s) (own s) (lent s) (chans s) (flags s) (regs s) (if viol s =? 0 then v else viol s).

Definition owner (s : mstate) (o : nat) : nat := nth o (own s) FRESH.
Definition flagv (s : mstate) (f : nat) : nat := nth f (flags s) 0.

(* access of o by t: fine iff t owns it, or t borrowed it from a thread that still owns it *)
Definition access (s : mstate) (t o : nat) : mstate :=
  let w := owner s o in
  if w =? owned t then s
  else if is_free w then flag_viol s 1
  else if (nth o (lent s) 0 =? S t) && (w <? owned ENV) then s
  else flag_viol s 2.
Definition release (s : mstate) (t o : nat) : mstate :=
  let w := owner s o in
  setown (if w =? owned t then s else flag_viol s 3) o RELEASED.
Definition gaccess (s : mstate) (t o e : nat) : mstate :=
  let w := owner s o in
  if (w =? owned CACHE) && (owner s e =? owned t) then s
  else if is_free w then flag_viol s 1 else flag_viol s 2.

Definition send (s : mstate) (t c o : nat) : mstate :=
  setchan (setown (access s t o) o (owned (CHAN c))) c (nth c (chans s) [] ++ [o]).

Definition tstep (P : proto) (s : mstate) (t : nat) : list mstate :=
  let pc := nth t (pcs s) 0 in
  match nth_error (nth t (p_threads P) []) pc with
  | None => []
  | Some i =>
    let adv s' := setpc s' t (S pc) in
    match i with
    | IAcq o => if is_free (owner s o) then [adv (setown s o (owned t))] else []
    | ITryAcq o l => if is_free (owner s o) then [adv (setown s o (owned t))] else [setpc s t l]
    | IRd o | IWr o => [adv (access s t o)]
    | IRel o => [adv (release s t o)]
    | IGive o t' => [adv (setown (access s t o) o (owned t'))]
    | ILend o t' => [adv (setlent (access s t o) o (S t'))]
    | IRdG o e => [adv (gaccess s t o e)]
    | IRelG o e => [adv (setown (gaccess s t o e) o RELEASED)]
    | ISend c o =>
        if length (nth c (chans s) []) <? nth c (p_cap P) 0 then [adv (send s t c o)] else []
    | ITrySend c o l =>
        if length (nth c (chans s) []) <? nth c (p_cap P) 0 then [adv (send s t c o)] else [setpc s t l]
    | IRecvOrFlag c f l =>
        (match nth c (chans s) [] with
         | o :: rest => [adv (setreg (setown (setchan s c rest) o (owned t)) t o)]
         | [] => []
         end) ++ (if flagv s f =? 0 then [] else [setpc s t l])
    | IRdR | IWrR => [adv (access s t (nth t (regs s) 0))]
    | IRelR => [adv (release s t (nth t (regs s) 0))]
    | ISet f v => [adv (setflag s f v)]
    | IWait f => if flagv s f =? 0 then [] else [adv s]
    | IIfEq f v l => if flagv s f =? v then [setpc s t l] else [adv s]
    | IAssertNe f v => [adv (if flagv s f =? v then flag_viol s 4 else s)]
    | IChoice l => [adv s; setpc s t l]
    | IGoto l => [setpc s t l]
    | IHalt => []
    end
  end.

(* the environment: takes a released pooled object, or puts back one it holds *)
Definition envstep (P : proto) (s : mstate) (o : nat) : list mstate :=
  if nth o (p_env P) false then
    if owner s o =? RELEASED then [setown s o (owned ENV)]
    else if owner s o =? owned ENV then [setown s o RELEASED] else []
  else [].

Definition succs (P : proto) (s : mstate) : list mstate :=
  flat_map (tstep P s) (seq 0 (length (p_threads P))) ++ flat_map (envstep P s) (seq 0 (length (p_own0 P))).

Definition bad (s : mstate) : bool := negb (viol s =? 0).

(* ------------------------------------------------------------------ schedules *)
Inductive pick := T (t k : nat) (* k-th alternative of thread t's next action *) | E (o : nat) (* environment toggles o *).

Fixpoint own_run (P : proto) (s : mstate) (sched : list pick) : option mstate :=
  match sched with
  | [] => Some s
  | T t k :: r =>
      if t <? length (p_threads P)
      then match nth_error (tstep P s t) k with Some s' => own_run P s' r | None => None end else None
  | E o :: r =>
      if o <? length (p_own0 P)
      then match envstep P s o with s' :: _ => own_run P s' r | [] => None end else None
  end.

(* ------------------------------------------------------------------ state equality, exploration, certificate check *)
Fixpoint leqb (a b : list nat) : bool :=
  match a, b with
  | [], [] => true
  | x :: a', y :: b' => if x =? y then leqb a' b' else false
  | _, _ => false
  end.
Fixpoint lleqb (a b : list (list nat)) : bool :=
  match a, b with
  | [], [] => true
  | x :: a', y :: b' => if leqb x y then lleqb a' b' else false
  | _, _ => false
  end.
(* written with [if] (not [&&]/[existsb]) so that evaluation by value stops at the first difference *)
Definition st_eqb (a b : mstate) : bool :=
  if leqb (pcs a) (pcs b) then if leqb (own a) (own b) then if leqb (flags a) (flags b) then
  if viol a =? viol b then if leqb (lent a) (lent b) then if leqb (regs a) (regs b) then lleqb (chans a) (chans b)
  else false else false else false else false else false else false.

Fixpoint mem (s : mstate) (l : list mstate) : bool :=
  match l with
  | [] => false
  | x :: r => if st_eqb s x then true else mem s r
  end.

Fixpoint add_new (xs seen todo : list mstate) : list mstate * list mstate :=
  match xs with
  | [] => (seen, todo)
  | x :: r => if mem x seen then add_new r seen todo else add_new r (x :: seen) (x :: todo)
  end.

(* worklist exploration; NOT trusted: its result is only a candidate for [check] *)
Fixpoint explore (P : proto) (fuel : nat) (seen todo : list mstate) : list mstate :=
  match fuel with
  | 0 => seen
  | S k => match todo with
           | [] => seen
           | s :: r => let '(seen', todo') := add_new (succs P s) seen r in explore P k seen' todo'
           end
  end.

Definition states (P : proto) : list mstate := explore P (200 * 200) [own_init P] [own_init P].

(* the certificate check: S contains the initial state, is closed under every step, and has no bad state *)
Definition check (P : proto) (S : list mstate) : bool :=
  mem (own_init P) S &&
  forallb (fun s => negb (bad s) && forallb (fun s' => mem s' S) (succs P s)) S.

(* ------------------------------------------------------------------ the protocols *)

(* handleServerReq(m, rc) (router.go): reads the query, works on a private copy q of the question, builds the
   response resp, stores it in rc, fixes the header from m, releases q.  Straight-line (no jumps). *)
Definition core (m rc q resp : nat) : list instr :=
  [ IRd m;                  (* header / question count tests *)
    IAcq q; IRd m; IWr q;   (* q := m.Questions[0].Copy() *)
    IRd q;                  (* rules, cache key, packReq(q) *)
    IAcq resp; IWr resp;    (* reply from cache / upstream (its own protocol) / makeEmptyResp *)
    IWr rc;                 (* rc.Response.Msg = resp *)
    IRd m; IWr resp;        (* EDNS0 + header fix-up from m *)
    IRel q ].               (* defer dnsmsg.ReleaseQuestion(q) *)

(* releaseRequestContext(rc): releases rc.Response.Msg, zeroes rc, puts it back *)
Definition release_rc (rc resp : nat) : list instr := [ IRd rc; IRel resp; IWr rc; IRel rc ].

(* (1a) UDP: server_udp.go startThread*/handleMsg/handleReq.  Threads: 0 read loop, 1 handler (pool.Go).
   Objects: 0 rb (the read loop's own receive buffer, reused by the next ReadBatch), 1 m, 2 rc, 3 q, 4 resp, 5 b. *)
Definition udp_rl (mreg : nat) : list instr :=
  [ IAcq 0; IWr 0;              (* ReadBatch fills the buffer *)
    IRd 0; IAcq 1; IWr mreg;    (* UnpackMsg(b): reads the datagram, writes only fresh memory (mreg = m) *)
    IAcq 2; IWr 2;              (* getRequestContext; rc.RemoteAddr = .. *)
    IGive 1 1; IGive 2 1; ISet 0 1;   (* pool.Go(func(){ .. m .. rc .. }) *)
    IWr 0; IRd 0;               (* next iteration: the buffer is overwritten while the handler runs *)
    IHalt ].
Definition udp_h (mreg : nat) : list instr :=
  [ IWait 0 ] ++ core mreg 2 3 4 ++
  [ IRd mreg;                   (* client UDP size: scan m.Additionals *)
    IRd 2; IRd 4; IAcq 5; IWr 5;(* mustHaveRespB -> packResp *)
    IRd 5; IRel 5 ] ++          (* writeResp; pool.ReleaseBuf(b) *)
  release_rc 2 4 ++             (* deferred, LIFO: releaseRequestContext(rc) first *)
  [ IRel 1; IHalt ].            (* then dnsmsg.ReleaseMsg(m) *)
Definition Pown_udp : proto :=
  mkProto [udp_rl 1; udp_h 1] [0;0;0;0;0;0] [false;true;true;true;true;true] [] [0].
(* what would happen if the decoded message aliased the receive buffer: the handler's reads of m become reads of rb *)
Definition Pown_udp_alias : proto :=
  mkProto [udp_rl 0; udp_h 0] [0;0;0;0;0;0] [false;true;true;true;true;true] [] [0].

(* (1b) TCP: server_tcp.go handleConn/handleReq + dnsutils.ReadMsgFromTCP.  Threads: 0 connection loop, 1 handler.
   Objects: 0 hdrBuf, 1 msgBuf, 2 m, 3 rc, 4 q, 5 resp, 6 buf. *)
Definition tcp_cl : list instr :=
  [ IAcq 0; IWr 0; IRd 0;       (* hdrBuf := GetBuf(2); ReadFull; length *)
    IAcq 1; IWr 1;              (* msgBuf := GetBuf(length); ReadFull *)
    IRd 1; IAcq 2; IWr 2;       (* UnpackMsg(msgBuf) *)
    IRel 1; IRel 0;             (* deferred ReleaseBuf(msgBuf), ReleaseBuf(hdrBuf) *)
    IAcq 3; IWr 3;              (* getRequestContext *)
    IGive 2 1; IGive 3 1; ISet 0 1;   (* go func(){ handleReq(c, m, rc) .. } *)
    IAcq 0; IWr 0; IRel 0;      (* next ReadMsgFromTCP: the buffers are recycled while the handler runs *)
    IHalt ].
Definition tcp_h : list instr :=
  [ IWait 0 ] ++ core 2 3 4 5 ++
  [ IRd 2; IRd 3; IRd 5; IAcq 6; IWr 6;   (* mustHaveRespB -> packRespTCP *)
    IRd 6; IRel 6;                        (* c.Write(buf); ReleaseBuf(buf) *)
    IRel 2 ] ++                           (* dnsmsg.ReleaseMsg(m) *)
  release_rc 3 5 ++ [ IHalt ].
Definition Pown_tcp : proto :=
  mkProto [tcp_cl; tcp_h] [0;0;0;0;0;0;0] [true;true;true;true;true;true;true] [] [0].

(* (1c) HTTP (net/http and fasthttp have the same shape): server_http_gohttp.go ServeHTTP/readReqMsg. One thread.
   Objects: 0 buf (base64 decode buffer), 1 m, 2 rc, 3 q, 4 resp, 5 msgBody. *)
Definition http_h : list instr :=
  [ IAcq 0; IWr 0; IRd 0; IAcq 1; IWr 1; IRel 0;   (* readReqMsg: decode, UnpackMsg(buf), deferred ReleaseBuf(buf) *)
    IAcq 2; IWr 2 ] ++ core 1 2 3 4 ++
  [ IRd 1; IRd 2; IRd 4; IAcq 5; IWr 5;            (* mustHaveRespB *)
    IRd 5;                                         (* w.Write(msgBody) *)
    IRel 5 ] ++ release_rc 2 4 ++ [ IRel 1; IHalt ].  (* defers, LIFO *)
Definition Pown_http : proto :=
  mkProto [http_h] [0;0;0;0;0;0] [true;true;true;true;true;true] [] [].

(* (2) gnet: server_tcp_gnet_linux.go OnTraffic.  Threads: 0 event loop, 1 handler goroutine.
   Objects: 0 elb (event-loop inbound buffer: valid only until OnTraffic returns), 1 m, 2 rc, 3 q, 4 resp, 5 buf.
   Flags: 0 handler started, 1 AsyncWrite queued.
   The handler releases m BEFORE mustHaveRespB(m, resp, ..); mustHaveRespB reads m again only in its fallback,
   i.e. only when packing resp failed: [pack_ok = false]. *)
Definition gnet_el : list instr :=
  [ IAcq 0; IWr 0;              (* the event loop reads the socket into its buffer *)
    IRd 0; IAcq 1; IWr 1;       (* c.Next(2), c.Next(l), UnpackMsg(body) *)
    IGive 1 1; ISet 0 1;        (* go func(){ .. m .. } ; OnTraffic returns *)
    IWr 0;                      (* the buffer is reused by the event loop *)
    IWait 1; IRd 5; IRel 5;     (* AsyncWrite: write buf, callback ReleaseBuf(buf) *)
    IHalt ].
Definition gnet_h (pack_ok : bool) : list instr :=
  [ IWait 0; IAcq 2; IWr 2 ] ++ core 1 2 3 4 ++      (* pcs 0..13 *)
  [ IRel 1;                                          (* 14: dnsmsg.ReleaseMsg(m)  — before the last possible use *)
    IRd 2; IRd 4; IAcq 5; IWr 5;                     (* 15..18: mustHaveRespB -> packRespTCP(resp) *)
    (if pack_ok then IGoto 22 else IChoice 22);      (* 19: err == nil -> return b *)
    IRd 1; IWr 5;                                    (* 20,21: fallback makeEmptyRespM(query = m, ..): reads the released m *)
    IGive 5 0; ISet 1 1 ] ++                         (* 22,23: c.AsyncWrite(buf, callback) *)
  release_rc 2 4 ++ [ IHalt ].
Definition Pown_gnet (pack_ok : bool) : proto :=
  mkProto [gnet_el; gnet_h pack_ok] [0;0;0;0;0;0] [false;true;true;true;true;true] [] [0;0].

(* (3) pipeline exchange: pipeline_conn.go exchange/readLoop/write.  Threads: 0 exchange caller, 1 read loop,
   2 the caller's context.  Objects: 0 write buffer, 1 reply r1, 2 a second reply r2 with the same id (duplicate or
   late).  Channel 0 = respChan (cap 1).  Flags: 0 ctx done, 1 queue[qid] registered.
   [double = true] is the mutant "the read loop releases a reply it also delivered". *)
Definition pipe_c : list instr :=
  [ ISet 1 1;                               (* 0: addQueueC *)
    IAcq 0; IWr 0; IRd 0; IRel 0;           (* 1..4: write: copy, set qid, c.Write, ReleaseBuf *)
    IRecvOrFlag 0 0 11;                     (* 5: select { r := <-respChan ; <-ctx.Done() } *)
    IWrR;                                   (* 6: r.Header.ID = .. *)
    ISet 1 0;                               (* 7: deferred deleteQueueC *)
    IRdR; IRelR; IHalt;                     (* 8..10: the caller uses the reply and releases it *)
    ISet 1 0; IHalt ].                      (* 11,12: ctx done: deferred deleteQueueC *)
Definition pipe_rl (double : bool) : list instr :=
  [ IAcq 1; IWr 1;                          (* 0,1: ReadMsgFromTCP -> UnpackMsg *)
    IIfEq 1 0 6;                            (* 2: getQueueC(id) == nil -> release *)
    ITrySend 0 1 6;                         (* 3: select { resChan <- r ; default: release } *)
    (if double then IGoto 6 else IGoto 7);  (* 4 *)
    IHalt;                                  (* 5: unused *)
    IRel 1;                                 (* 6: dnsmsg.ReleaseMsg(r) *)
    IAcq 2; IWr 2;                          (* 7,8: the next frame carries the same id *)
    IIfEq 1 0 13; ITrySend 0 2 13; IGoto 14; IHalt; IRel 2; IHalt ].
Definition pipe_x : list instr := [ ISet 0 1; IHalt ].
Definition Pown_pipeline (double : bool) : proto :=
  mkProto [pipe_c; pipe_rl double; pipe_x] [0;0;0] [true;true;true] [1] [0;0].

(* (4) reuse exchange: reuse_transport.go ExchangeContext/exchangeConnCtx/exchangeConn.  Threads: 0 caller,
   1 worker goroutine, 2 the caller's context.  Objects: 0 payload, 1 the worker's private copy (fixed code only),
   2 reply.  Channel 0 = resChan (cap 1).  Flags: 0 worker started, 1 ctx done. *)
Definition reuse_c_pinned : list instr :=
  [ IAcq 0; IWr 0;                          (* 0,1: payload := copyMsgWithLenHdr(m) *)
    ILend 0 1; ISet 0 1;                    (* 2,3: go func(){ exchangeConn(payload, c) .. }  — payload stays the caller's *)
    IRecvOrFlag 0 1 9;                      (* 4: select { r := <-resChan ; <-ctx.Done() } *)
    IRel 0; IRdR; IRelR; IHalt;             (* 5..8: deferred ReleaseBuf(payload); the caller uses and releases the reply *)
    IRel 0; IHalt ].                        (* 9,10: ctx done: return; deferred ReleaseBuf(payload) *)
Definition reuse_w_pinned : list instr :=
  [ IWait 0;
    IRd 0;                                  (* 1: c.c.Write(payload) *)
    IChoice 6;                              (* 2: write/read error: no reply message *)
    IAcq 2; IWr 2;                          (* 3,4: ReadMsgFromTCP *)
    ISend 0 2;                              (* 5: resChan <- res{m: resp} *)
    IHalt ].
Definition Pown_reuse_pinned : proto :=
  mkProto [reuse_c_pinned; reuse_w_pinned; [ISet 1 1; IHalt]] [0;0;0] [true;true;true] [1] [0;0].

Definition reuse_c_fixed : list instr :=
  [ IAcq 0; IWr 0;                          (* 0,1: payload := copyMsgWithLenHdr(m) *)
    IRd 0; IAcq 1; IWr 1;                   (* 2..4: payloadCopy := pool.CopyBuf(payload) *)
    IGive 1 1; ISet 0 1;                    (* 5,6: go func(){ defer ReleaseBuf(payloadCopy); exchangeConn(payloadCopy, c) .. } *)
    IRecvOrFlag 0 1 12;                     (* 7 *)
    IRel 0; IRdR; IRelR; IHalt;             (* 8..11 *)
    IRel 0; IHalt ].                        (* 12,13 *)
Definition reuse_w_fixed : list instr :=
  [ IWait 0;
    IRd 1;                                  (* 1: c.c.Write(payloadCopy) *)
    IChoice 6;                              (* 2 *)
    IAcq 2; IWr 2;                          (* 3,4 *)
    ISend 0 2;                              (* 5 *)
    IRel 1;                                 (* 6: deferred ReleaseBuf(payloadCopy) *)
    IHalt ].
Definition Pown_reuse_fixed : proto :=
  mkProto [reuse_c_fixed; reuse_w_fixed; [ISet 1 1; IHalt]] [0;0;0] [true;true;true] [1] [0;0].

(* (4q) QUIC exchange: quic_transport.go exchangeStream shares payload with its goroutine like the pinned reuse
   code, but the caller calls stream.CancelWrite before it returns, and quic-go's Write tests the cancel flag and
   copies its argument under the stream mutex.  Object 3 = the stream mutex (lock = acquire).  Flag 2 = cancelled. *)
Definition quic_c : list instr :=
  [ IAcq 0; IWr 0; ILend 0 1; ISet 0 1;
    IRecvOrFlag 0 1 9;                      (* 4 *)
    IRel 0; IRdR; IRelR; IHalt;             (* 5..8 *)
    IAcq 3; ISet 2 1; IRel 3;               (* 9..11: stream.CancelWrite: under the stream mutex *)
    IRel 0; IHalt ].                        (* 12: return; deferred ReleaseBuf(payload) *)
Definition quic_w : list instr :=
  [ IWait 0;
    IAcq 3; IIfEq 2 1 10; IRd 0; IRel 3;    (* 1..4: stream.Write(payload): mutex; cancelled? -> error; else copy *)
    IChoice 11;                             (* 5: I/O error *)
    IAcq 2; IWr 2; ISend 0 2; IHalt;        (* 6..9 *)
    IRel 3;                                 (* 10: Write returns the cancel error *)
    IHalt ].
Definition Pown_quic : proto :=
  mkProto [quic_c; quic_w; [ISet 1 1; IHalt]] [0;0;0;0] [true;false;true;false] [1] [0;0;0].

(* (4d) DoH exchange: doh_transport.go ExchangeContext/exchange.  Threads: 0 caller, 1 the round-trip goroutine,
   2 the caller's context.  Objects: 0 bp (pool copy of the query, id zeroed; released before the goroutine starts),
   1 rawQuery ("dns=<base64>"), 2 reply.  Channel 0 = resChan (cap 1).  Flags: 0 goroutine started, 1 ctx done.
   The goroutine runs under its OWN 6 s context, so it outlives a cancelled caller; net/http reads req.URL.RawQuery
   (an unsafe string over rawQuery) when it writes the request, i.e. only once a connection is ready — possibly
   long after the caller returned (slow dial / TLS handshake).
   [pooled = false] (the code as it is): rawQuery is make()-allocated: handed over to the goroutine, never released,
   never recycled (garbage-collected; the environment cannot take it).
   [pooled = true] (the "pooling optimisation" mutant): rawQuery = pool.GetBuf + defer pool.ReleaseBuf: the caller stays
   the owner, lends it to the goroutine and releases it on return. *)
Definition doh_c (pooled : bool) : list instr :=
  [ IAcq 0; IWr 0;                          (* 0,1: bp := copyMsg(q); bs[0], bs[1] = 0, 0 *)
    IAcq 1; IRd 0; IWr 1;                   (* 2..4: rawQuery := make / GetBuf; base64 encode bp into it *)
    IRel 0;                                 (* 5: pool.ReleaseBuf(bp) *)
    (if pooled then ILend 1 1 else IGive 1 1); ISet 0 1;   (* 6,7: go func(){ u.exchange(ctx6s, unsafeString(rawQuery)) } *)
    IRecvOrFlag 0 1 14;                     (* 8: select { res := <-resChan ; <-ctx.Done() } *)
    IWrR;                                   (* 9: r.Header.ID = id of q *)
    (if pooled then IRel 1 else IGoto 11);  (* 10: deferred ReleaseBuf(rawQuery) — mutant only *)
    IRdR; IRelR; IHalt;                     (* 11..13: the caller uses and releases the reply *)
    (if pooled then IRel 1 else IGoto 15);  (* 14: ctx done: return (mutant: deferred ReleaseBuf(rawQuery)) *)
    IHalt ].
Definition doh_w : list instr :=
  [ IWait 0;
    IChoice 7;                              (* 1: dial / handshake fails: no request is written *)
    IRd 1;                                  (* 2: connection ready: net/http writes the request line from RawQuery *)
    IChoice 7;                              (* 3: I/O error, bad status: no reply message *)
    IAcq 2; IWr 2;                          (* 4,5: read body, UnpackMsg *)
    ISend 0 2;                              (* 6: resChan <- res{r} *)
    IHalt ].
Definition Pown_doh (pooled : bool) : proto :=
  mkProto [doh_c pooled; doh_w; [ISet 1 1; IHalt]] [0;0;0] [true;pooled;true] [1] [0;0].

(* (5) cache entry recycling: internal/cache/mem.go Get/Store/releaseEntry.  The entry's fields are owned through
   its lock (lock = acquire the entry object 0; TryRLock = ITryAcq).  Threads: 0 Get(k1), 1 eviction of k1
   (otter unmaps, then the deletion listener runs releaseEntry), 2 Store(k2) that may get the recycled entry.
   Objects: 0 entry e (its lock), 1 v1 (value of k1, owned by the cache), 2 v2, 3 Get's private copy.
   Flags: 0 backend maps k1 -> e, 1 e.k (0 "", 1 k1, 2 k2), 2 e.v (0 nil, 1 v1, 2 v2), 3 e sits in cacheEntryPool,
   4 ghost: key of the value Get returned.
   [recheck = false] is the mutant "entry key re-check removed". *)
Definition cache_get (recheck : bool) : list instr :=
  [ IIfEq 0 0 17;                           (* 0: backend.Get(k1): miss *)
    ITryAcq 0 17;                           (* 1: e.l.TryRLock() fails: entry is being released *)
    IRd 0;                                  (* 2: read e.v, e.k *)
    IIfEq 2 0 16;                           (* 3: e.v == nil *)
    (if recheck then IIfEq 1 1 6 else IGoto 6);    (* 4: e.k == string(k) ? *)
    IGoto 16;                               (* 5: no: the entry was released or reused -> miss *)
    IIfEq 2 2 9;                            (* 6: which buffer does e.v point to *)
    IRdG 1 0; IGoto 10;                     (* 7,8: CopyBuf(e.v) reads v1 *)
    IRdG 2 0;                               (* 9: .. or v2 *)
    IAcq 3; IWr 3;                          (* 10,11: the private copy *)
    IIfEq 1 2 14; IGoto 15;                 (* 12,13 *)
    ISet 4 2;                               (* 14: ghost: the returned value is k2's *)
    IGoto 16;                               (* 15 *)
    IRel 0;                                 (* 16: RUnlock *)
    IAssertNe 4 2;                          (* 17: Get(k1) must not return k2's value *)
    IHalt ].
Definition cache_evict : list instr :=
  [ ISet 0 0;                               (* 0: otter removes k1 -> e from the map *)
    IAcq 0; IWr 0; ISet 1 0;                (* 1..3: releaseEntry: e.l.Lock(); e.k = "" *)
    IRelG 1 0; ISet 2 0;                    (* 4,5: ReleaseBuf(e.v); e.v = nil *)
    IRel 0;                                 (* 6: Unlock *)
    ISet 3 1;                               (* 7: cacheEntryPool.Put(e) *)
    IHalt ].
Definition cache_store : list instr :=
  [ IAcq 2; IWr 2;                          (* 0,1: vCopy := pool.CopyBuf(v) *)
    IWait 3; ISet 3 0;                      (* 2,3: e := newCacheEntry() gets the recycled entry *)
    IAcq 0; IWr 0; ISet 1 2; IGive 2 CACHE; ISet 2 2;   (* 4..8: Lock; e.k = k2; e.v = vCopy *)
    IRel 0;                                 (* 9: Unlock *)
    IHalt ].
Definition Pown_cache (recheck : bool) : proto :=
  mkProto [cache_get recheck; cache_evict; cache_store] [RELEASED; owned CACHE; 0; 0] [false;true;true;true] []
          [1;1;1;0;0].

(* ------------------------------------------------------------------ named protocols / schedules for the runner *)
Definition proto_of (n : nat) : proto :=
  match n with
  | 0 => Pown_reuse_pinned | 1 => Pown_reuse_fixed | 2 => Pown_quic
  | 3 => Pown_pipeline false | 4 => Pown_pipeline true
  | 5 => Pown_udp | 6 => Pown_tcp | 7 => Pown_http | 8 => Pown_gnet true | 9 => Pown_gnet false
  | 10 => Pown_cache true | 11 => Pown_cache false | 12 => Pown_udp_alias
  | 13 => Pown_doh false | _ => Pown_doh true
  end.

(* schedules of the stream-exchange protocols (caller 0, worker 1, context 2).  [n] = number of caller steps before the
   goroutine starts (pinned/QUIC 4, fixed 7); [sel] = pc offset does not matter: picks are positional. *)
Definition rep (p : pick) (n : nat) : list pick := repeat p n.

(* the worker writes and the reply arrives before the caller's context ends *)
Definition sched_reply_first (n wsteps : nat) : list pick :=
  rep (T 0 0) n ++ rep (T 1 0) wsteps ++ [T 0 0; T 0 0; T 0 0; T 0 0].
(* D14: context ends -> the caller returns and releases -> [the environment recycles] -> the worker's Write *)
Definition sched_cancel_before_write (n crel : nat) (envtake : bool) : list pick :=
  rep (T 0 0) n ++ [T 2 0; T 0 0] ++ rep (T 0 0) crel ++ (if envtake then [E 0] else []) ++ [T 1 0; T 1 0].
(* the worker writes first, then the context ends, the caller releases, the reply comes late *)
Definition sched_cancel_during_read (n crel wwrite wrest : nat) : list pick :=
  rep (T 0 0) n ++ rep (T 1 0) wwrite ++ [T 2 0; T 0 0] ++ rep (T 0 0) crel ++ rep (T 1 0) wrest.

(* verdict of protocol [p] under the named schedule [k]: Some viol code, or None if the schedule does not apply
   (a pick is not enabled).  p: 0 reuse pinned, 1 reuse fixed, 2 quic.
   k: 0 reply-first, 1 cancel-before-write, 2 cancel-before-write + environment recycles, 3 cancel-during-read *)
Definition stream_sched (p k : nat) : list pick :=
  match p, k with
  | 0, 0 => sched_reply_first 4 6 | 0, 1 => sched_cancel_before_write 4 1 false
  | 0, 2 => sched_cancel_before_write 4 1 true | 0, 3 => sched_cancel_during_read 4 1 2 4
  | 1, 0 => sched_reply_first 7 6 | 1, 1 => sched_cancel_before_write 7 1 false
  | 1, 2 => sched_cancel_before_write 7 1 true | 1, 3 => sched_cancel_during_read 7 1 2 5
  | 2, 0 => sched_reply_first 4 9 | 2, 1 => sched_cancel_before_write 4 4 false ++ rep (T 1 0) 2
  | 2, 2 => sched_cancel_before_write 4 4 true ++ rep (T 1 0) 2 | 2, 3 => sched_cancel_during_read 4 4 5 4
  | _, _ => []
  end.

Definition own_verdict (p k : nat) : option nat :=
  match own_run (proto_of p) (own_init (proto_of p)) (stream_sched p k) with
  | Some s => Some (viol s)
  | None => None
  end.

(* pipeline: 0 reply delivered then duplicate dropped; 1 context ends first, both replies dropped *)
Definition pipe_sched (k : nat) : list pick :=
  match k with
  | 0 => rep (T 0 0) 5 ++ rep (T 1 0) 5 ++ rep (T 0 0) 2 ++ rep (T 1 0) 5 ++ rep (T 0 0) 3
  | _ => rep (T 0 0) 5 ++ [T 2 0; T 0 0; T 0 0] ++ rep (T 1 0) 8
  end.
Definition pipe_verdict (double : bool) (k : nat) : option nat :=
  match own_run (Pown_pipeline double) (own_init (Pown_pipeline double)) (pipe_sched k) with
  | Some s => Some (viol s)
  | None => None
  end.

(* DoH (caller 0, goroutine 1, context 2): 0 reply-first; 1 context ends while the dial is pending -> the caller
   returns (and, in the pooled mutant, releases rawQuery) -> the connection becomes ready -> the request is written;
   2 the same with the environment recycling the released buffer in between; 3 the request is written first, the context
   ends while the reply is awaited, the reply arrives late *)
Definition doh_sched (pooled : bool) (k : nat) : list pick :=
  match k with
  | 0 => rep (T 0 0) 8 ++ rep (T 1 0) 7 ++ rep (T 0 0) 5
  | 1 => rep (T 0 0) 8 ++ [T 2 0; T 0 0; T 0 0] ++ [T 1 0; T 1 0; T 1 0]
  | 2 => rep (T 0 0) 8 ++ [T 2 0; T 0 0; T 0 0] ++ (if pooled then [E 1] else []) ++ [T 1 0; T 1 0; T 1 0]
  | _ => rep (T 0 0) 8 ++ [T 1 0; T 1 0; T 1 0] ++ [T 2 0; T 0 0; T 0 0] ++ rep (T 1 0) 4
  end.
Definition doh_verdict (pooled : bool) (k : nat) : option nat :=
  match own_run (Pown_doh pooled) (own_init (Pown_doh pooled)) (doh_sched pooled k) with
  | Some s => Some (viol s)
  | None => None
  end.

(* ------------------------------------------------------------------ decode copies: region annotation of UnpackMsg *)
(* Where the fields of a decoded message live.  [RBuf] = inside the receive buffer handed to UnpackMsg;
   [RFresh n] = the n-th block the decoder allocated.  The Go decoder (internal/dnsmsg) allocates:
     NewMsg()                          the Msg struct (msgPool)
     per question  NewQuestion()       + its Name: unpackName -> pool.GetBuf(1024)[:0] + append (name.go)
     per record    NewA()/NewRaw()/..  + owner Name (unpackName)
                   + names inside RDATA (unpackName) / RawResource.Data = copyBuf(msg[off:off+l]) (utils.go)
     fixed-size RDATA ([4]byte, [16]byte, integers) are stored by value inside the fresh struct.
   No field is a sub-slice of the input.  The tie to the code is the harness's poison-the-input-after-decode check. *)
Inductive region := RBuf | RFresh (n : nat).

Definition rdata_blocks (d : rdata) : nat :=
  match d with
  | RA _ | RAAAA _ => 0
  | RName _ => 1 | RSOA _ _ _ _ _ _ _ => 2 | RMX _ _ => 1 | RSRV _ _ _ _ => 1 | RRaw _ => 1
  end.
Definition rr_blocks (r : rr) : nat := 2 + rdata_blocks (r_data r).
Definition rrs_blocks (l : list rr) : nat := fold_right (fun r a => rr_blocks r + a) 0 l.
Definition msg_blocks (m : msg) : nat :=
  1 + 2 * length (m_qs m) + rrs_blocks (m_an m) + rrs_blocks (m_ns m) + rrs_blocks (m_ar m).
Definition decode_regions (m : msg) : list region := map RFresh (seq 0 (msg_blocks m)).

(* ------------------------------------------------------------------ round 4: fault paths and pooled OBJECTS *)
(* The objects of these protocols are pool byte buffers AND the sync.Pool structs of internal/dnsmsg (Msg, Question):
   a Question is an object of its own (it is released by ReleaseQuestion, also from inside ReleaseMsg), so "one
   *Question referenced by two messages" is visible as a second release of the same object.  All objects may be
   recycled by the environment once released. *)

(* (6) stream reader: dnsutils.ReadMsgFromTCP (net_io.go) and its caller, with the I/O errors decided by the
   environment.  One thread.  Objects: 0 hdrBuf, 1 msgBuf, 2 m.
   [dbl = false] the code as it is: both buffers are released by their deferred ReleaseBuf only.
   [dbl = true]  the variant "release the body buffer early in the read-error branch" (the defer stays). *)
Definition own4_sread (dbl : bool) : list instr :=
  [ IAcq 0; IWr 0;                          (* 0,1: hdrBuf := GetBuf(2); io.ReadFull(c, hdrBuf) *)
    IChoice 17;                             (* 2: the header read fails (EOF between messages, idle time-out) *)
    IRd 0;                                  (* 3: length := Uint16(hdrBuf) *)
    IAcq 1; IWr 1;                          (* 4,5: msgBuf := GetBuf(length); io.ReadFull(c, msgBuf): partial data written *)
    IChoice 15;                             (* 6: the body read fails (short body, reset inside a frame, deadline) *)
    IRd 1; IAcq 2; IWr 2;                   (* 7..9: UnpackMsg(msgBuf) *)
    IRel 1; IRel 0;                         (* 10,11: deferred ReleaseBuf(msgBuf), ReleaseBuf(hdrBuf) *)
    IRd 2; IRel 2; IHalt;                   (* 12..14: the caller uses the message and releases it *)
    (if dbl then IRel 1 else IGoto 16);     (* 15: error branch: [variant: pool.ReleaseBuf(msgBuf)]; return nil, n, err *)
    IRel 1;                                 (* 16: deferred ReleaseBuf(msgBuf) *)
    IRel 0;                                 (* 17: deferred ReleaseBuf(hdrBuf) *)
    IHalt ].
Definition Pown4_sread (dbl : bool) : proto :=
  mkProto [own4_sread dbl] [0;0;0] [true;true;true] [] [].

(* (7) UDP upstream with TCP fallback: upstream.go udpWithFallback.ExchangeContext and its caller (the caller owns
   and releases the message it is given: contract of transport.Transport).  One thread; both legs are exchanges of
   their own protocols ((3) and (4)), here they deliver a reply or fail (environment's choice).
   Objects: 0 r (reply of the UDP leg), 1 tr (reply of the TCP leg).
   [v = 0] the code as it is: a truncated r is released, the result of the TCP leg (reply or error) is returned;
   [v = 1] variant: r released, and when the TCP leg fails r is returned ("a truncated answer is better than none");
   [v = 2] variant: defer ReleaseMsg(r), TCP reply returned on success, fall through to return r on failure. *)
Definition own4_fallback (v : nat) : list instr :=
  [ IChoice 20;                             (* 0: the UDP leg fails: return nil, err *)
    IAcq 0; IWr 0;                          (* 1,2: r, err := u.u.ExchangeContext: the reply is ours now *)
    IRd 0;                                  (* 3: r.Header.Truncated *)
    IChoice 17;                             (* 4: not truncated: return r, nil *)
    (if v =? 2 then IGoto 6 else IRel 0);   (* 5: dnsmsg.ReleaseMsg(r)   [v = 2: deferred] *)
    IChoice 13;                             (* 6: the TCP leg fails *)
    IAcq 1; IWr 1;                          (* 7,8: tr := u.t.ExchangeContext *)
    (if v =? 2 then IRel 0 else IGoto 10);  (* 9: [v = 2: the deferred release runs at the return] *)
    IRd 1; IRel 1;                          (* 10,11: the caller uses tr and releases it *)
    IGoto 20;                               (* 12 *)
    (if v =? 0 then IGoto 20 else IGoto 14);(* 13: TCP leg failed: return nil, err   [variants: keep r] *)
    (if v =? 2 then IRel 0 else IGoto 15);  (* 14: [v = 2: the deferred release fires on the fall-through as well] *)
    IGoto 17;                               (* 15: return r, nil *)
    IHalt;                                  (* 16: unused *)
    IRd 0; IWr 0;                           (* 17,18: the caller checks id/question of the reply, writes its header *)
    IRel 0;                                 (* 19: ... and releases it *)
    IHalt ].
Definition Pown4_fallback (v : nat) : proto :=
  mkProto [own4_fallback v] [0;0] [true;true] [] [].

(* (8) hand-over of the REPLY in the reuse exchange (reuse_transport.go exchangeConnCtx, after the D14 fix) against the
   caller's cancellation.  Threads, objects, channel and flags as in (4): 0 caller, 1 worker, 2 the caller's context;
   objects 0 payload, 1 payloadCopy, 2 reply; flag 0 worker started, flag 1 ctx done.
   [rel = false] the code as it is: after resChan <- res{..} the worker only parks the connection; a reply nobody
   receives stays in the channel (garbage-collected, never recycled).
   [rel = true]  variant: "if resp != nil && ctxIsDone(ctx) { ReleaseMsg(resp) }" after the hand-over. *)
Definition own4_reuse_w (rel : bool) : list instr :=
  [ IWait 0;
    IRd 1;                                  (* 1: c.c.Write(payloadCopy) *)
    IChoice 9;                              (* 2: write/read error: no reply message *)
    IAcq 2; IWr 2;                          (* 3,4: ReadMsgFromTCP *)
    ISend 0 2;                              (* 5: resChan <- res{m: resp} *)
    (if rel then IIfEq 1 0 9 else IGoto 9); (* 6: t.releaseConn(c, err); [variant: ctxIsDone(ctx)?] *)
    IRel 2;                                 (* 7: [variant: dnsmsg.ReleaseMsg(resp)] *)
    IGoto 9;                                (* 8 *)
    IRel 1;                                 (* 9: deferred ReleaseBuf(payloadCopy) *)
    IHalt ].
(* the caller cancels its own context once it has returned (defer cancel()): thread 2 is that cancellation *)
Definition Pown4_reuse_reply (rel : bool) : proto :=
  mkProto [reuse_c_fixed; own4_reuse_w rel; [ISet 1 1; IHalt]] [0;0;0] [true;true;true] [1] [0;0].

(* (9) header-only replies: router.go makeEmptyRespM(m, rcode) inside a server handler (not-implemented queries, the
   fall-backs of handleServerReq / mustHaveRespB).  One thread.
   Objects: 0 m (the query Msg), 1 qm = m.Questions[0] (a pooled Question with its name), 2 resp, 3 qr (the reply's own
   copy of the question), 4 b (the packed reply).
   [share = false] the code as it is: resp.Questions = append(.., q.Copy()).
   [share = true]  variant: resp.Questions = append(.., m.Questions[0]): both messages reference qm. *)
Definition own4_emptyresp (share : bool) : list instr :=
  let q := if share then 1 else 3 in
  [ IAcq 0; IAcq 1; IWr 1; IWr 0;           (* 0..3: UnpackMsg: NewMsg, unpackQuestion -> NewQuestion, append *)
    IRd 0;                                  (* 4: header tests: the query is not implemented *)
    IAcq 2; IWr 2; IRd 0;                   (* 5..7: resp := NewMsg(); header fields from m *)
    IRd 1;                                  (* 8: for _, q := range m.Questions *)
    (if share then IGoto 12 else IAcq 3);   (* 9: q.Copy(): NewQuestion *)
    IWr 3;                                  (* 10: .. name copy, type, class *)
    IGoto 12;                               (* 11 *)
    IWr 2;                                  (* 12: resp.Questions = append(resp.Questions, ..) *)
    IRd 2; IRd q; IAcq 4; IWr 4;            (* 13..16: mustHaveRespB -> pack resp (reads its question) *)
    IRd 4; IRel 4;                          (* 17,18: write; ReleaseBuf(b) *)
    IRel q; IRel 2;                         (* 19,20: releaseRequestContext -> ReleaseMsg(resp): ReleaseQuestion, Put *)
    IRel 1; IRel 0;                         (* 21,22: ReleaseMsg(m): ReleaseQuestion(m.Questions[0]), Put *)
    IHalt ].
Definition Pown4_emptyresp (share : bool) : proto :=
  mkProto [own4_emptyresp share] [0;0;0;0;0] [true;true;true;true;true] [] [].

(* (10) prefetch: router.go handleReqMsg / handleReq / asyncSingleFlightPrefetch / doPrefetch.  Threads: 0 the request
   handler (cache hit in the last quarter of the entry's life), 1 the prefetch goroutine (it outlives the handler).
   Objects: 0 q (the handler's private copy of the question, released by its deferred ReleaseQuestion), 1 qCopy (the
   goroutine's own copy), 2 resp (the cached response).  Flag 0: goroutine started.
   [lazy = false] the code as it is: qCopy := q.Copy() BEFORE the go statement; the goroutine owns qCopy.
   [lazy = true]  variant: the copy is made inside the goroutine ("off the hot path"): q is only lent. *)
Definition own4_pf_h (lazy : bool) : list instr :=
  [ IAcq 0; IWr 0;                          (* 0,1: q := m.Questions[0].Copy(); defer ReleaseQuestion(q) *)
    IRd 0;                                  (* 2: rules, cache lookup: hit, needPrefetch *)
    IRd 0;                                  (* 3: keyForPrefetch(q, ..); reserve *)
    (if lazy then IGoto 7 else IAcq 1);     (* 4: qCopy := q.Copy() *)
    IRd 0; IWr 1;                           (* 5,6 *)
    (if lazy then ILend 0 1 else IGive 1 1);(* 7: go func(){ .. } *)
    ISet 0 1;                               (* 8 *)
    IAcq 2; IWr 2;                          (* 9,10: rc.Response.Msg = resp (unpacked from the cache) *)
    IRel 0;                                 (* 11: deferred ReleaseQuestion(q) *)
    IRd 2; IRel 2;                          (* 12,13: pack and write the response; releaseRequestContext *)
    IHalt ].
Definition own4_pf_g (lazy : bool) : list instr :=
  [ IWait 0;
    (if lazy then IRd 0 else IGoto 4);      (* 1: [variant: qCopy := q.Copy() here] *)
    (if lazy then IAcq 1 else IGoto 4);     (* 2 *)
    (if lazy then IWr 1 else IGoto 4);      (* 3 *)
    IRd 1;                                  (* 4: doPrefetch(qCopy, ..): packReq, forward, cache.Store *)
    IRel 1;                                 (* 5: dnsmsg.ReleaseQuestion(qCopy) *)
    IHalt ].
Definition Pown4_prefetch (lazy : bool) : proto :=
  mkProto [own4_pf_h lazy; own4_pf_g lazy] [0;0;0] [true;true;true] [] [0].

(* named protocols of round 4 (even = the code as it is, odd/other = the variants) *)
Definition own4_proto (n : nat) : proto :=
  match n with
  | 0 => Pown4_sread false | 1 => Pown4_sread true
  | 2 => Pown4_fallback 0 | 3 => Pown4_fallback 1 | 4 => Pown4_fallback 2
  | 5 => Pown4_reuse_reply false | 6 => Pown4_reuse_reply true
  | 7 => Pown4_emptyresp false | 8 => Pown4_emptyresp true
  | 9 => Pown4_prefetch false | _ => Pown4_prefetch true
  end.

Definition own4_t0 (ks : list nat) : list pick := map (T 0) ks.

(* schedules the harness replays.  [var] = the schedule is for a variant (extra steps of the variant / of the environment).
   sread:    0 frame read completely; 1 header read fails; 2 body read fails; 3 body read fails and another request takes
             the body buffer as soon as it is released
   fallback: 0 plain UDP reply; 1 truncated, TCP leg answers; 2 truncated, TCP leg fails; 3 UDP leg fails;
             4 = 2 with another request taking the released reply
   reply:    0 reply received, used, released, no cancellation; 1 reply received, THEN the context ends, then the worker's
             epilogue, then the caller uses and releases the reply; 2 the context ends first (caller gone), late reply
   empty:    0 the whole handler; 1 the same with another request taking each object as soon as it is released
   prefetch: 0 the goroutine runs as soon as it is started; 1 the handler returns (and releases its question) first;
             2 = 1 with another request taking the released question before the goroutine runs *)
Definition own4_sched (p k : nat) : list pick :=
  match p, k with
  | 0, 0 | 1, 0 => own4_t0 (repeat 0 14)
  | 0, 1 | 1, 1 => own4_t0 [0;0;1;0]
  | 0, 2 | 1, 2 => own4_t0 [0;0;0;0;0;0;1;0;0;0]
  | 0, 3 => own4_t0 [0;0;0;0;0;0;1;0;0] ++ [E 1] ++ own4_t0 [0]
  | 1, 3 => own4_t0 [0;0;0;0;0;0;1;0] ++ [E 1] ++ own4_t0 [0;0]
  | 2, 0 | 3, 0 | 4, 0 => own4_t0 [0;0;0;0;1;0;0;0]
  | 2, 1 | 3, 1 | 4, 1 => own4_t0 [0;0;0;0;0;0;0;0;0;0;0;0;0]
  | 2, 2 => own4_t0 [0;0;0;0;0;0;1;0]
  | 3, 2 | 4, 2 => own4_t0 [0;0;0;0;0;0;1;0;0;0;0;0;0]
  | 2, 3 | 3, 3 | 4, 3 => own4_t0 [1]
  | 2, 4 => own4_t0 [0;0;0;0;0;0] ++ [E 0] ++ own4_t0 [1;0]
  | 3, 4 => own4_t0 [0;0;0;0;0;0] ++ [E 0] ++ own4_t0 [1;0;0;0;0;0;0]
  | 4, 4 => own4_t0 [0;0;0;0;0;0;1;0;0] ++ [E 0] ++ own4_t0 [0;0;0;0]
  | 5, 0 | 6, 0 => rep (T 0 0) 7 ++ rep (T 1 0) 6 ++ rep (T 0 0) 4 ++ rep (T 1 0) 2
  | 5, 1 => rep (T 0 0) 7 ++ rep (T 1 0) 6 ++ [T 0 0; T 0 0] ++ [T 2 0] ++ rep (T 1 0) 2 ++ [T 0 0; T 0 0]
  | 6, 1 => rep (T 0 0) 7 ++ rep (T 1 0) 6 ++ [T 0 0; T 0 0] ++ [T 2 0] ++ rep (T 1 0) 4 ++ [T 0 0; T 0 0]
  | 5, 2 => rep (T 0 0) 7 ++ rep (T 1 0) 2 ++ [T 2 0; T 0 0; T 0 0] ++ rep (T 1 0) 6
  | 6, 2 => rep (T 0 0) 7 ++ rep (T 1 0) 2 ++ [T 2 0; T 0 0; T 0 0] ++ rep (T 1 0) 8
  | 7, 0 | 8, 0 => own4_t0 (repeat 0 (if p =? 7 then 23 else 21))
  | 7, 1 => own4_t0 (repeat 0 19) ++ [E 4] ++ own4_t0 [0] ++ [E 3] ++ own4_t0 [0] ++ [E 2] ++ own4_t0 [0] ++ [E 1] ++ own4_t0 [0]
  | 8, 1 => own4_t0 (repeat 0 17) ++ [E 4] ++ own4_t0 [0] ++ [E 1] ++ own4_t0 [0] ++ [E 2] ++ own4_t0 [0; 0]
  | 9, 0 => rep (T 0 0) 9 ++ rep (T 1 0) 4 ++ rep (T 0 0) 5
  | 10, 0 => rep (T 0 0) 7 ++ rep (T 1 0) 6 ++ rep (T 0 0) 5
  | 9, 1 => rep (T 0 0) 14 ++ rep (T 1 0) 4
  | 10, 1 => rep (T 0 0) 12 ++ rep (T 1 0) 6
  | 9, 2 => rep (T 0 0) 14 ++ [E 0] ++ rep (T 1 0) 4
  | 10, 2 => rep (T 0 0) 12 ++ [E 0] ++ rep (T 1 0) 6
  | _, _ => [T 9 0]
  end.

Definition own4_verdict (p k : nat) : option nat :=
  match own_run (own4_proto p) (own_init (own4_proto p)) (own4_sched p k) with
  | Some s => Some (viol s)
  | None => None
  end.
