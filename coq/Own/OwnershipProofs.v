(* Own/OwnershipProofs.v — proofs about the ownership LTSs of Own/Ownership.v.

   Method: certified model checking.  [check P S] (a boolean function) tests that the finite state list S contains
   the initial state, is CLOSED under every step of every thread and of the environment, and contains no state
   with a recorded violation.  [check_sound] proves (by induction over reachability) that such an S contains every
   reachable state, hence no reachable state — in ANY interleaving, of ANY length — has a violation.  The candidate
   S is computed by the untrusted [explore]; [vm_compute] evaluates the check.  This is an invariant over all
   reachable states, not a bounded exploration: closure is a fixed point. *)
From Coq Require Import FinFun.
From Mos Require Import Base.Prelude Codec.Msg Codec.WfProofs Own.Ownership.

(* ---------------- state equality is sound ---------------- *)
Lemma leqb_eq a : forall b, leqb a b = true -> a = b.
Proof.
  induction a as [|x a IH]; destruct b as [|y b]; cbn; try discriminate; auto.
  destruct (x =? y) eqn:E; [|discriminate]. apply Nat.eqb_eq in E. intros H. f_equal; auto.
Qed.

Lemma lleqb_eq a : forall b, lleqb a b = true -> a = b.
Proof.
  induction a as [|x a IH]; destruct b as [|y b]; cbn; try discriminate; auto.
  destruct (leqb x y) eqn:E; [|discriminate]. apply leqb_eq in E. intros H. f_equal; auto.
Qed.

Lemma st_eqb_eq a b : st_eqb a b = true -> a = b.
Proof.
  unfold st_eqb. destruct a, b; cbn.
  destruct (leqb pcs pcs0) eqn:E1; [|discriminate].
  destruct (leqb own own0) eqn:E2; [|discriminate].
  destruct (leqb flags flags0) eqn:E3; [|discriminate].
  destruct (viol =? viol0) eqn:E4; [|discriminate].
  destruct (leqb lent lent0) eqn:E5; [|discriminate].
  destruct (leqb regs regs0) eqn:E6; [|discriminate].
  intros E7.
  apply leqb_eq in E1, E2, E3, E5, E6. apply lleqb_eq in E7. apply Nat.eqb_eq in E4. congruence.
Qed.

Lemma mem_In s l : mem s l = true -> In s l.
Proof.
  induction l as [|x l IH]; cbn; [discriminate|].
  destruct (st_eqb s x) eqn:E; auto. apply st_eqb_eq in E. auto.
Qed.

(* ---------------- reachability = all interleavings ---------------- *)
Inductive reach (P : proto) : mstate -> Prop :=
| reach_init : reach P (own_init P)
| reach_step s s' : reach P s -> In s' (succs P s) -> reach P s'.

Lemma check_sound P S : check P S = true -> forall s, reach P s -> In s S /\ viol s = 0.
Proof.
  unfold check. intros H. apply andb_true_iff in H. destruct H as [Hi Hc].
  rewrite forallb_forall in Hc.
  assert (HS : forall s, In s S -> viol s = 0 /\ forall s', In s' (succs P s) -> In s' S).
  { intros s Hs. specialize (Hc s Hs). apply andb_true_iff in Hc. destruct Hc as [Hb Hn]. split.
    - unfold bad in Hb. rewrite negb_involutive in Hb. now apply Nat.eqb_eq in Hb.
    - intros s' Hs'. rewrite forallb_forall in Hn. apply mem_In. now apply Hn. }
  intros s Hr. induction Hr as [|s s' Hr IH Hin].
  - apply mem_In in Hi. destruct (HS _ Hi) as [Hv _]. split; assumption.
  - destruct IH as [HinS _]. destruct (HS s HinS) as [_ Hn]. specialize (Hn s' Hin).
    destruct (HS _ Hn) as [Hv _]. split; assumption.
Qed.

Definition safe_proto (P : proto) : Prop := forall s, reach P s -> viol s = 0.

Lemma certified P : check P (states P) = true -> safe_proto P.
Proof. intros H s Hr. exact (proj2 (check_sound P _ H s Hr)). Qed.

(* a schedule that runs is a real execution *)
Inductive reach_from (P : proto) (s0 : mstate) : mstate -> Prop :=
| rf_refl : reach_from P s0 s0
| rf_step s s' : reach_from P s0 s -> In s' (succs P s) -> reach_from P s0 s'.

Lemma reach_from_trans P a b c : reach_from P a b -> reach_from P b c -> reach_from P a c.
Proof. intros Hab Hbc. induction Hbc; auto. eapply rf_step; eauto. Qed.

Lemma reach_from_init P s : reach_from P (own_init P) s -> reach P s.
Proof.
  intros H. remember (own_init P) as s0 eqn:E. induction H as [|s s' H IH Hin]; subst; [constructor|].
  eapply reach_step; [apply IH; reflexivity|exact Hin].
Qed.

Lemma run_T P s t k r :
  own_run P s (T t k :: r) =
  if t <? length (p_threads P)
  then match nth_error (tstep P s t) k with Some s' => own_run P s' r | None => None end else None.
Proof. reflexivity. Qed.

Lemma run_E P s o r :
  own_run P s (E o :: r) =
  if o <? length (p_own0 P)
  then match envstep P s o with s' :: _ => own_run P s' r | [] => None end else None.
Proof. reflexivity. Qed.

Lemma run_reach_from P sched : forall s s', own_run P s sched = Some s' -> reach_from P s s'.
Proof.
  induction sched as [|p r IH]; intros s s' H.
  - cbn in H. inversion H; subst. constructor.
  - destruct p as [t k|o]; [rewrite run_T in H|rewrite run_E in H].
    + destruct (t <? length (p_threads P)) eqn:Ht; [|discriminate]. apply Nat.ltb_lt in Ht.
      destruct (nth_error (tstep P s t) k) as [s1|] eqn:E; [|discriminate].
      apply nth_error_In in E.
      eapply reach_from_trans; [|apply IH; exact H].
      eapply rf_step; [constructor|]. unfold succs. apply in_or_app. left. apply in_flat_map.
      exists t. split; auto. apply in_seq. lia.
    + destruct (o <? length (p_own0 P)) eqn:Ho; [|discriminate]. apply Nat.ltb_lt in Ho.
      destruct (envstep P s o) as [|s1 l] eqn:E; [discriminate|].
      eapply reach_from_trans; [|apply IH; exact H].
      eapply rf_step; [constructor|]. unfold succs. apply in_or_app. right. apply in_flat_map.
      exists o. split; [apply in_seq; lia|]. rewrite E. now left.
Qed.

Lemma run_reach P sched s : own_run P (own_init P) sched = Some s -> reach P s.
Proof. intros H. apply reach_from_init. eapply run_reach_from; eauto. Qed.

(* ---------------- certificates: every reachable state of each protocol of the (fixed) tree is violation-free ---------------- *)
Lemma udp_safe : safe_proto Pown_udp.           Proof. apply certified. vm_compute. reflexivity. Qed.
Lemma tcp_safe : safe_proto Pown_tcp.           Proof. apply certified. vm_compute. reflexivity. Qed.
Lemma http_safe : safe_proto Pown_http.         Proof. apply certified. vm_compute. reflexivity. Qed.
Lemma gnet_safe : safe_proto (Pown_gnet true).  Proof. apply certified. vm_compute. reflexivity. Qed.
Lemma pipeline_safe : safe_proto (Pown_pipeline false). Proof. apply certified. vm_compute. reflexivity. Qed.
Lemma reuse_fixed_safe : safe_proto Pown_reuse_fixed.   Proof. apply certified. vm_compute. reflexivity. Qed.
Lemma quic_safe : safe_proto Pown_quic.         Proof. apply certified. vm_compute. reflexivity. Qed.
Lemma cache_safe : safe_proto (Pown_cache true). Proof. apply certified. vm_compute. reflexivity. Qed.
Lemma doh_safe : safe_proto (Pown_doh false).   Proof. apply certified. vm_compute. reflexivity. Qed.

(* the recycling protocols as they are in the tree after the D14 fix *)
Definition protocols : list proto :=
  [Pown_udp; Pown_tcp; Pown_http; Pown_gnet true; Pown_pipeline false; Pown_reuse_fixed; Pown_quic; Pown_cache true;
   Pown_doh false].

Lemma protocols_safe P : In P protocols -> safe_proto P.
Proof.
  unfold protocols. cbn. intros H.
  repeat (destruct H as [<-|H]; [first [exact udp_safe|exact tcp_safe|exact http_safe|exact gnet_safe|exact pipeline_safe
                                        |exact reuse_fixed_safe|exact quic_safe|exact cache_safe|exact doh_safe]|]).
  contradiction.
Qed.

Lemma no_use_after_release P s : In P protocols -> reach P s -> viol s <> 1.
Proof. intros HP Hr. rewrite (protocols_safe P HP s Hr). discriminate. Qed.

Lemma single_owner P s : In P protocols -> reach P s -> viol s <> 2 /\ viol s <> 3.
Proof. intros HP Hr. rewrite (protocols_safe P HP s Hr). split; discriminate. Qed.

Lemma no_foreign_data P s : In P protocols -> reach P s -> viol s <> 4.
Proof. intros HP Hr. rewrite (protocols_safe P HP s Hr). discriminate. Qed.

(* what the ghost field means: an access by a thread that neither owns nor validly borrows the object is recorded *)
Lemma access_records s t o :
  viol s = 0 -> owner s o <> owned t ->
  ~ (nth o (lent s) 0 = S t /\ owner s o < owned ENV /\ is_free (owner s o) = false) ->
  viol (access s t o) = (if is_free (owner s o) then 1 else 2).
Proof.
  intros Hv Hne Hb. unfold access.
  destruct (owner s o =? owned t) eqn:E; [apply Nat.eqb_eq in E; contradiction|].
  destruct (is_free (owner s o)) eqn:F; [cbn; now rewrite Hv|].
  destruct ((nth o (lent s) 0 =? S t) && (owner s o <? owned ENV)) eqn:B.
  - apply andb_true_iff in B. destruct B as [B1 B2]. apply Nat.eqb_eq in B1. apply Nat.ltb_lt in B2.
    exfalso. apply Hb. auto.
  - cbn. now rewrite Hv.
Qed.

Lemma release_records s t o : viol s = 0 -> owner s o <> owned t -> viol (release s t o) = 3.
Proof.
  intros Hv Hne. unfold release.
  destruct (owner s o =? owned t) eqn:E; [apply Nat.eqb_eq in E; contradiction|]. cbn. now rewrite Hv.
Qed.

(* ---------------- D14: the pinned reuse exchange ---------------- *)
(* caller: acquire, fill, lend to the goroutine, start it; context ends; select takes the Done arm; the deferred
   ReleaseBuf(payload) runs; the worker wakes up and Write(payload) reads the released buffer *)
Definition d14_schedule : list pick := sched_cancel_before_write 4 1 false.
Definition d14_schedule_env : list pick := sched_cancel_before_write 4 1 true.

Lemma reuse_pinned_refuted :
  (exists s, own_run Pown_reuse_pinned (own_init Pown_reuse_pinned) d14_schedule = Some s /\ reach Pown_reuse_pinned s /\ viol s = 1) /\
  (exists s, own_run Pown_reuse_pinned (own_init Pown_reuse_pinned) d14_schedule_env = Some s /\ reach Pown_reuse_pinned s /\ viol s = 2).
Proof.
  split.
  - destruct (own_run Pown_reuse_pinned (own_init Pown_reuse_pinned) d14_schedule) as [s|] eqn:E; [|vm_compute in E; discriminate].
    exists s. split; auto. split; [eapply run_reach; eauto|].
    vm_compute in E. inversion E. reflexivity.
  - destruct (own_run Pown_reuse_pinned (own_init Pown_reuse_pinned) d14_schedule_env) as [s|] eqn:E; [|vm_compute in E; discriminate].
    exists s. split; auto. split; [eapply run_reach; eauto|].
    vm_compute in E. inversion E. reflexivity.
Qed.

(* the same schedules on the fixed protocol (three more caller steps for the private copy) are harmless *)
Lemma reuse_fixed_same_schedules :
  own_verdict 1 1 = Some 0 /\ own_verdict 1 2 = Some 0.
Proof. vm_compute. auto. Qed.

(* ---------------- gnet: the read of the released query needs a pack failure ---------------- *)
Lemma gnet_fallback_unreachable :
  (forall (buflen : nat) (compress : bool) (size : nat) (m : msg),
      wf_msg m -> msg_len m <= buflen -> exists out, pack_msg buflen compress size m = Ok out) ->
  forall (resp : msg) (size : nat), wf_msg resp ->
  safe_proto (Pown_gnet (is_ok (pack_msg (msg_len resp) true size resp))).
Proof.
  intros Htotal resp size Hwf.
  destruct (Htotal (msg_len resp) true size resp Hwf (le_n _)) as [out ->]. cbn. exact gnet_safe.
Qed.

Lemma gnet_pack_failure_reads_released :
  exists s, reach (Pown_gnet false) s /\ viol s = 1.
Proof.
  set (sched := repeat (T 0 0) 7 ++ repeat (T 1 0) 21).
  destruct (own_run (Pown_gnet false) (own_init (Pown_gnet false)) sched) as [s|] eqn:E; [|vm_compute in E; discriminate].
  exists s. split; [eapply run_reach; eauto|]. vm_compute in E. inversion E. reflexivity.
Qed.

(* ---------------- decode copies ---------------- *)
Lemma decode_regions_fresh (bs : list N) (m : msg) :
  unpack_msg bs = Ok m ->
  ~ In RBuf (decode_regions m) /\ NoDup (decode_regions m) /\ length (decode_regions m) = msg_blocks m.
Proof.
  intros _. unfold decode_regions. split; [|split].
  - intros H. apply in_map_iff in H. destruct H as [n [H _]]. discriminate.
  - apply Injective_map_NoDup; [|apply seq_NoDup]. intros a b H. now inversion H.
  - now rewrite map_length, seq_length.
Qed.

(* why it matters: if the decoded message lived in the receive buffer, the UDP handler would read memory that the
   read loop is overwriting with the next datagram *)
Lemma udp_alias_refuted : exists s, reach Pown_udp_alias s /\ viol s = 2.
Proof.
  set (sched := repeat (T 0 0) 10 ++ repeat (T 1 0) 2).
  destruct (own_run Pown_udp_alias (own_init Pown_udp_alias) sched) as [s|] eqn:E; [|vm_compute in E; discriminate].
  exists s. split; [eapply run_reach; eauto|]. vm_compute in E. inversion E. reflexivity.
Qed.

(* ---------------- the other two mechanisms are load-bearing ---------------- *)
(* cache: without the key re-check, Get(k1) can return the value stored for k2 in the recycled entry *)
Lemma cache_recheck_needed : exists s, reach (Pown_cache false) s /\ viol s = 4.
Proof.
  set (sched := [T 0 0] ++ repeat (T 1 0) 8 ++ repeat (T 2 0) 10 ++ repeat (T 0 0) 13).
  destruct (own_run (Pown_cache false) (own_init (Pown_cache false)) sched) as [s|] eqn:E; [|vm_compute in E; discriminate].
  exists s. split; [eapply run_reach; eauto|]. vm_compute in E. inversion E. reflexivity.
Qed.

(* pipeline: a read loop that releases a reply it also delivered breaks single ownership *)
Lemma pipeline_double_release_refuted : exists s, reach (Pown_pipeline true) s /\ viol s = 3.
Proof.
  destruct (own_run (Pown_pipeline true) (own_init (Pown_pipeline true)) (pipe_sched 0)) as [s|] eqn:E; [|vm_compute in E; discriminate].
  exists s. split; [eapply run_reach; eauto|]. vm_compute in E. inversion E. reflexivity.
Qed.

(* ---------------- DoH: rawQuery must not come from the pool ---------------- *)
(* caller: copy the query, build rawQuery, release the copy, start the round-trip goroutine; the context ends while the dial
   is pending; the select takes the Done arm; the deferred ReleaseBuf(rawQuery) of the pooled variant runs; [another request
   takes the buffer;] the connection becomes ready and net/http writes the request from the released buffer *)
Definition doh_schedule : list pick := doh_sched true 1.
Definition doh_schedule_env : list pick := doh_sched true 2.

Lemma doh_pooled_refuted :
  (exists s, own_run (Pown_doh true) (own_init (Pown_doh true)) doh_schedule = Some s /\ reach (Pown_doh true) s /\ viol s = 1) /\
  (exists s, own_run (Pown_doh true) (own_init (Pown_doh true)) doh_schedule_env = Some s /\ reach (Pown_doh true) s /\ viol s = 2).
Proof.
  split.
  - destruct (own_run (Pown_doh true) (own_init (Pown_doh true)) doh_schedule) as [s|] eqn:E; [|vm_compute in E; discriminate].
    exists s. split; auto. split; [eapply run_reach; eauto|]. vm_compute in E. inversion E. reflexivity.
  - destruct (own_run (Pown_doh true) (own_init (Pown_doh true)) doh_schedule_env) as [s|] eqn:E; [|vm_compute in E; discriminate].
    exists s. split; auto. split; [eapply run_reach; eauto|]. vm_compute in E. inversion E. reflexivity.
Qed.

(* the same orderings on the code as it is (make-allocated rawQuery handed over to the goroutine) are harmless *)
Lemma doh_current_same_schedules :
  doh_verdict false 0 = Some 0 /\ doh_verdict false 1 = Some 0 /\ doh_verdict false 2 = Some 0 /\ doh_verdict false 3 = Some 0.
Proof. vm_compute. auto. Qed.

(* ---------------- round 4: fault paths and pooled objects ---------------- *)
(* the code as it is: every reachable state of each protocol is violation-free (certified check, all interleavings with
   the recycling environment) *)
Lemma own4_sread_safe : safe_proto (Pown4_sread false).       Proof. apply certified. vm_compute. reflexivity. Qed.
Lemma own4_fallback_safe : safe_proto (Pown4_fallback 0).     Proof. apply certified. vm_compute. reflexivity. Qed.
Lemma own4_reuse_reply_safe : safe_proto (Pown4_reuse_reply false). Proof. apply certified. vm_compute. reflexivity. Qed.
Lemma own4_emptyresp_safe : safe_proto (Pown4_emptyresp false). Proof. apply certified. vm_compute. reflexivity. Qed.
Lemma own4_prefetch_safe : safe_proto (Pown4_prefetch false).   Proof. apply certified. vm_compute. reflexivity. Qed.

Definition protocols4 : list proto :=
  [Pown4_sread false; Pown4_fallback 0; Pown4_reuse_reply false; Pown4_emptyresp false; Pown4_prefetch false].

Lemma protocols4_safe P s : In P protocols4 -> reach P s -> viol s = 0.
Proof.
  unfold protocols4. cbn. intros H.
  repeat (destruct H as [<-|H]; [first [apply own4_sread_safe|apply own4_fallback_safe|apply own4_reuse_reply_safe
                                        |apply own4_emptyresp_safe|apply own4_prefetch_safe]|]).
  contradiction.
Qed.

(* a named schedule that runs to a violation is a reachable violating state *)
Lemma own4_witness p k c :
  own4_verdict p k = Some c ->
  exists s, own_run (own4_proto p) (own_init (own4_proto p)) (own4_sched p k) = Some s /\ reach (own4_proto p) s /\ viol s = c.
Proof.
  unfold own4_verdict. intros H.
  destruct (own_run (own4_proto p) (own_init (own4_proto p)) (own4_sched p k)) as [s|] eqn:E; [|discriminate].
  exists s. split; [reflexivity|]. split; [eapply run_reach; eauto|]. now inversion H.
Qed.

(* (6) the body buffer released in the read-error branch AND by the defer: a double release as soon as the body read
   fails; when another request has taken the buffer in between, its buffer is pulled from under it *)
Lemma own4_sread_double_release_refuted :
  (exists s, own_run (Pown4_sread true) (own_init (Pown4_sread true)) (own4_sched 1 2) = Some s /\ reach (Pown4_sread true) s /\ viol s = 3) /\
  (exists s, own_run (Pown4_sread true) (own_init (Pown4_sread true)) (own4_sched 1 3) = Some s /\ reach (Pown4_sread true) s /\ viol s = 3).
Proof. split; [apply (own4_witness 1 2)|apply (own4_witness 1 3)]; vm_compute; reflexivity. Qed.

(* (7) both "keep the truncated answer when the TCP leg fails" variants hand the caller a released message: it is read
   after its release (1), or — when another request took it meanwhile — while it belongs to that request (2) *)
Lemma own4_fallback_returns_released_refuted :
  (exists s, own_run (Pown4_fallback 1) (own_init (Pown4_fallback 1)) (own4_sched 3 2) = Some s /\ reach (Pown4_fallback 1) s /\ viol s = 1) /\
  (exists s, own_run (Pown4_fallback 1) (own_init (Pown4_fallback 1)) (own4_sched 3 4) = Some s /\ reach (Pown4_fallback 1) s /\ viol s = 2) /\
  (exists s, own_run (Pown4_fallback 2) (own_init (Pown4_fallback 2)) (own4_sched 4 2) = Some s /\ reach (Pown4_fallback 2) s /\ viol s = 1) /\
  (exists s, own_run (Pown4_fallback 2) (own_init (Pown4_fallback 2)) (own4_sched 4 4) = Some s /\ reach (Pown4_fallback 2) s /\ viol s = 2).
Proof.
  repeat split; [apply (own4_witness 3 2)|apply (own4_witness 3 4)|apply (own4_witness 4 2)|apply (own4_witness 4 4)];
    vm_compute; reflexivity.
Qed.

(* (8) "the context is done" does not mean "the caller left without the reply": reply received, then the context ends,
   then the worker's epilogue releases a message the caller owns *)
Lemma own4_reuse_reply_release_refuted :
  exists s, own_run (Pown4_reuse_reply true) (own_init (Pown4_reuse_reply true)) (own4_sched 6 1) = Some s /\
            reach (Pown4_reuse_reply true) s /\ viol s = 3.
Proof. apply (own4_witness 6 1). vm_compute. reflexivity. Qed.

(* (9) one Question referenced by the query and by the reply is released with both *)
Lemma own4_emptyresp_shared_question_refuted :
  exists s, own_run (Pown4_emptyresp true) (own_init (Pown4_emptyresp true)) (own4_sched 8 0) = Some s /\
            reach (Pown4_emptyresp true) s /\ viol s = 3.
Proof. apply (own4_witness 8 0). vm_compute. reflexivity. Qed.

(* (10) a prefetch goroutine that copies the handler's question itself reads it after the handler's deferred release
   (1), or — another request took the recycled Question — reads that request's question (2) *)
Lemma own4_prefetch_lazy_copy_refuted :
  (exists s, own_run (Pown4_prefetch true) (own_init (Pown4_prefetch true)) (own4_sched 10 1) = Some s /\
             reach (Pown4_prefetch true) s /\ viol s = 1) /\
  (exists s, own_run (Pown4_prefetch true) (own_init (Pown4_prefetch true)) (own4_sched 10 2) = Some s /\
             reach (Pown4_prefetch true) s /\ viol s = 2).
Proof. split; [apply (own4_witness 10 1)|apply (own4_witness 10 2)]; vm_compute; reflexivity. Qed.

(* the same named schedules on the code as it is *)
Lemma own4_current_same_schedules :
  map (own4_verdict 0) [0;1;2;3] = [Some 0; Some 0; Some 0; Some 0] /\
  map (own4_verdict 2) [0;1;2;3;4] = [Some 0; Some 0; Some 0; Some 0; Some 0] /\
  map (own4_verdict 5) [0;1;2] = [Some 0; Some 0; Some 0] /\
  map (own4_verdict 7) [0;1] = [Some 0; Some 0] /\
  map (own4_verdict 9) [0;1;2] = [Some 0; Some 0; Some 0].
Proof. vm_compute. repeat split. Qed.
