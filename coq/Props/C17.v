(* C17 — peers are reached and authenticated exactly as configured.
   Only statements; proofs live in Net/AddrProofs.v.  Model: Net/Addr.v (NewUpstream's address handling,
   net.SplitHostPort / JoinHostPort re-implemented) and Net/TlsCfg.v (makeTlsConfig + handshake decision rule
   with crypto/x509 as oracles).

   Address grammar (boolean predicates of Net/Addr.v, quantified over ALL strings that satisfy them):
     host   HV4 s   non-empty, digits and '.'
            HDom s  non-empty, letters, digits, '-', '_', '.'
            HV6 v   hex digits, ':' and '.', at least two ':'  — every textual shape of an IPv6 literal (and more);
                    written "[v]" in a URL
     port   1..5 digits, optional
     scheme omitted (udp) or one of scheme_table: udp tcp tls https http h3 quic doq tcp+pipeline tls+pipeline
     path   with an explicit scheme: nothing or anything starting with '/', '?' or '#' *)
From Mos Require Import Base.Prelude Net.Addr Net.TlsCfg Net.AddrProofs Net.UpCfg Net.UpCfgProofs Net.UpRouter Net.UpRouterProofs Net.UpHistory Net.UpHistoryProofs Net.SockOpts Net.SockOptsProofs Net.DohStatus Net.DohStatusProofs.
From Coq Require Import String Ascii.

Definition s2l (s : string) : list N := map N_of_ascii (list_ascii_of_string s).

(* --- dial target, network, SNI, Host: no dial_addr ------------------------------------------------------- *)
(* For EVERY address of the grammar x every accepted scheme x port presence: NewUpstream succeeds, the transport is
   the one the scheme names (pipeline / h3 flags included), the dial target is join(host, port or the scheme's
   default 53/853/443/80), the network is tcp (stream schemes) or udp, the TLS server name is the URL host with
   brackets and port removed — for a bracketed IPv6 literal the inner text exactly — and the HTTP Host is the URL
   authority as written. *)
Theorem C17_dial_target : forall st k h p path,
  scheme_entry st k -> path_ok st path -> wf_host h = true -> wf_port_opt p = true ->
  let sc := fst (fst k) in let h3 := snd k in
  exists ep, endpoint_of (url_of st h p path) [] = Ok ep /\
    ep_scheme ep = sc /\ ep_pipeline ep = snd (fst k) /\ ep_h3 ep = h3 /\
    ep_dial ep = join_host_port (host_name h) (port_or_default sc p) /\
    ep_net ep = expected_net sc h3 /\
    ep_sni ep = (if uses_tls sc then Some (host_name h) else None) /\
    ep_host ep = (if uses_http sc then Some (authority h p) else None).
Proof. exact dial_target. Qed.
Print Assumptions C17_dial_target.

(* the dial target of the theorem above denotes exactly that host and that port (SplitHostPort inverts it) *)
Theorem C17_target_denotes : forall h port,
  wf_host h = true -> forallb is_digit port = true ->
  split_host_port (join_host_port (host_name h) port) = Some (host_name h, port).
Proof. exact split_join. Qed.
Print Assumptions C17_target_denotes.

(* default ports, as the property names them *)
Theorem C17_default_ports :
  default_port SUdp = s2l "53" /\ default_port STcp = s2l "53" /\ default_port STls = s2l "853" /\
  default_port SQuic = s2l "853" /\ default_port SHttps = s2l "443" /\ default_port SHttp = s2l "80".
Proof. repeat split. Qed.
Print Assumptions C17_default_ports.

(* the bracket trim keeps the inner text of ANY bracketed string (this is what D10 broke) *)
Theorem C17_bracket_text_preserved : forall v : list N,
  try_trim_brackets (ch_lbr :: v ++ [ch_rbr]) = v.
Proof. exact trim_bracketed. Qed.
Print Assumptions C17_bracket_text_preserved.

(* --- dial_addr override --------------------------------------------------------------------------------- *)
(* dial_addr = IP or domain with optional port (IPv6: bare without port, "[v6]:port" with one): the dial target is
   that address, with the scheme's default port added when it has none; SNI and Host still derive from the URL. *)
Theorem C17_dial_target_override : forall st k h p path dh dpo,
  scheme_entry st k -> path_ok st path -> wf_host h = true -> wf_port_opt p = true ->
  wf_host dh = true -> wf_port_opt dpo = true ->
  let sc := fst (fst k) in let h3 := snd k in
  exists ep, endpoint_of (url_of st h p path) (dial_text dh dpo) = Ok ep /\
    ep_dial ep = join_host_port (host_name dh) (port_or_default sc dpo) /\
    ep_net ep = expected_net sc h3 /\
    ep_sni ep = (if uses_tls sc then Some (host_name h) else None) /\
    ep_host ep = (if uses_http sc then Some (authority h p) else None).
Proof. exact dial_target_override. Qed.
Print Assumptions C17_dial_target_override.

(* dial_addr = '@name': the address is passed on untouched and, on stream schemes (tcp, tls, http, https and
   their pipeline variants), the network is unix (abstract socket) *)
Theorem C17_dial_target_unix : forall st k h p path d,
  scheme_entry st k -> path_ok st path -> wf_host h = true -> wf_port_opt p = true ->
  wf_unix d = true ->
  let sc := fst (fst k) in let h3 := snd k in
  exists ep, endpoint_of (url_of st h p path) d = Ok ep /\
    ep_dial ep = d /\
    ep_net ep = (if is_stream sc h3 then NUnix else NUdp) /\
    ep_sni ep = (if uses_tls sc then Some (host_name h) else None) /\
    ep_host ep = (if uses_http sc then Some (authority h p) else None).
Proof. exact dial_target_unix. Qed.
Print Assumptions C17_dial_target_unix.

(* ... and the bracketed IPv6 override WITHOUT a port ("[::1]"): the dial target is the literal itself with the
   scheme's default port (finding K5: before the fix the brackets were kept and doubled, "[[::1]]:853"). *)
Theorem C17_dial_target_override_bracketed : forall st k h p path v,
  scheme_entry st k -> path_ok st path -> wf_host h = true -> wf_port_opt p = true ->
  wf_host (HV6 v) = true ->
  let sc := fst (fst k) in let h3 := snd k in
  exists ep, endpoint_of (url_of st h p path) (ch_lbr :: v ++ [ch_rbr]) = Ok ep /\
    ep_dial ep = join_host_port v (default_port sc) /\
    ep_net ep = expected_net sc h3 /\
    ep_sni ep = (if uses_tls sc then Some (host_name h) else None) /\
    ep_host ep = (if uses_http sc then Some (authority h p) else None).
Proof. exact dial_target_override_bracketed. Qed.
Print Assumptions C17_dial_target_override_bracketed.

Example C17_dial_addr_brackets_example :
  exists ep, endpoint_of (s2l "tls://localhost") (s2l "[::1]") = Ok ep /\ ep_dial ep = s2l "[::1]:853".
Proof. eexists. split; vm_compute; reflexivity. Qed.

(* --- EVERY socket an upstream may open ------------------------------------------------------------------ *)
(* An upstream opens more than one socket: every transport re-dials its primary socket for each new connection, and
   a udp upstream additionally retries a truncated (TC=1) reply over TCP.  [ep_sockets] lists every (network,
   address) pair the upstream can hand to a dialer.  For ANY accepted address and ANY dial_addr: the list is the
   primary socket plus, for the udp transport only, one tcp socket — and every one of them is given [ep_dial]. *)
Theorem C17_every_socket : forall addr da ep,
  endpoint_of addr da = Ok ep ->
  ep_sockets ep =
    (ep_net ep, ep_dial ep) :: match ep_scheme ep with SUdp => [(NTcp, ep_dial ep)] | _ => [] end /\
  forall s, In s (ep_sockets ep) ->
    snd s = ep_dial ep /\ (fst s = ep_net ep \/ (ep_scheme ep = SUdp /\ fst s = NTcp)).
Proof. intros addr da ep H. split; [exact (sockets_shape _ _ _ H)|exact (sockets_same_target _ _ _ H)]. Qed.
Print Assumptions C17_every_socket.

(* On the grammar, no dial_addr: the primary socket exists, a udp upstream has its tcp retry socket, and EVERY
   socket is dialled to join(host, port or default) on the transport's network (tcp for the retry). *)
Theorem C17_all_sockets : forall st k h p path,
  scheme_entry st k -> path_ok st path -> wf_host h = true -> wf_port_opt p = true ->
  let sc := fst (fst k) in let h3 := snd k in
  let target := join_host_port (host_name h) (port_or_default sc p) in
  exists ep, endpoint_of (url_of st h p path) [] = Ok ep /\
    In (expected_net sc h3, target) (ep_sockets ep) /\
    (sc = SUdp -> In (NTcp, target) (ep_sockets ep)) /\
    forall s, In s (ep_sockets ep) ->
      snd s = target /\ (fst s = expected_net sc h3 \/ (sc = SUdp /\ fst s = NTcp)).
Proof. exact all_sockets. Qed.
Print Assumptions C17_all_sockets.

(* With a dial_addr override: EVERY socket — the tcp retry of a udp upstream included — goes to the override (with
   the scheme's default port when it has none); none goes to the URL host. *)
Theorem C17_all_sockets_override : forall st k h p path dh dpo,
  scheme_entry st k -> path_ok st path -> wf_host h = true -> wf_port_opt p = true ->
  wf_host dh = true -> wf_port_opt dpo = true ->
  let sc := fst (fst k) in let h3 := snd k in
  let target := join_host_port (host_name dh) (port_or_default sc dpo) in
  exists ep, endpoint_of (url_of st h p path) (dial_text dh dpo) = Ok ep /\
    In (expected_net sc h3, target) (ep_sockets ep) /\
    (sc = SUdp -> In (NTcp, target) (ep_sockets ep)) /\
    forall s, In s (ep_sockets ep) ->
      snd s = target /\ (fst s = expected_net sc h3 \/ (sc = SUdp /\ fst s = NTcp)).
Proof. exact all_sockets_override. Qed.
Print Assumptions C17_all_sockets_override.

Example C17_example_sockets :
  (match endpoint_of (s2l "udp://127.0.0.2:5353") (s2l "127.0.0.1:53") with
   | Ok ep => Some (ep_sockets ep) | _ => None end) =
    Some [(NUdp, s2l "127.0.0.1:53"); (NTcp, s2l "127.0.0.1:53")] /\
  (match endpoint_of (s2l "dns.example") (s2l "::1") with
   | Ok ep => Some (ep_sockets ep) | _ => None end) =
    Some [(NUdp, s2l "[::1]:53"); (NTcp, s2l "[::1]:53")] /\
  (match endpoint_of (s2l "tls+pipeline://dns.example") (s2l "192.0.2.1") with
   | Ok ep => Some (ep_sockets ep) | _ => None end) = Some [(NTcp, s2l "192.0.2.1:853")] /\
  (match endpoint_of (s2l "h3://dns.example/q") [] with
   | Ok ep => Some (ep_sockets ep) | _ => None end) = Some [(NUdp, s2l "dns.example:443")].
Proof. vm_compute. repeat split. Qed.

(* --- certificate verification ---------------------------------------------------------------------------- *)
(* crypto/x509 (chain building, name matching, validity period) are oracles; the theorems are the decision rule
   that makeTlsConfig + crypto/tls build around them. *)

(* upstream (client) side: an exchange can proceed only if verification is explicitly disabled or the server's
   certificate chains to the configured CA (system roots when none is configured), matches the server name and is
   within its validity period *)
Theorem C17_verify : forall (cert : Type) (chains_to : ca_pool -> cert -> bool)
    (name_matches : cert -> list N -> bool) (time_valid : cert -> bool) o sni peer,
  upstream_exchange_ok cert chains_to name_matches time_valid o sni peer = true ->
  o_insecure o = true \/
  exists k, peer = Some k /\
    chains_to (if o_ca o then ConfiguredCA else SystemRoots) k = true /\
    name_matches k sni = true /\ time_valid k = true.
Proof. exact verify_client_side. Qed.
Print Assumptions C17_verify.

(* listener side with verify_client_cert: served => the client presented a certificate chaining to the configured CA *)
Theorem C17_verify_listener : forall (cert : Type) (chains_to : ca_pool -> cert -> bool) (time_valid : cert -> bool) o peer,
  o_verify_client o = true ->
  listener_serves cert chains_to time_valid o peer = true ->
  exists k, peer = Some k /\ chains_to ConfiguredCA k = true /\ time_valid k = true.
Proof. exact verify_listener_side. Qed.
Print Assumptions C17_verify_listener.

(* makeTlsConfig: ClientAuth = RequireAndVerifyClientCert and ClientCAs = the configured CA  iff  verify_client_cert
   (this is what D11 broke: the option was never read) *)
Theorem C17_client_auth_iff : forall o rc c,
  make_tls_config o rc = Ok c ->
  (c_client_auth c = RequireAndVerifyClientCert /\ c_client_cas c = Some ConfiguredCA) <-> o_verify_client o = true.
Proof. exact client_auth_iff. Qed.
Print Assumptions C17_client_auth_iff.

(* the remaining options are carried over as configured *)
Theorem C17_tls_config_fields : forall o rc c,
  make_tls_config o rc = Ok c ->
  c_insecure c = o_insecure o /\ c_roots c = (if o_ca o then ConfiguredCA else SystemRoots) /\
  c_has_cert c = o_cert_key o /\ (rc = true -> o_cert_key o = true) /\
  (o_verify_client o = true -> o_ca o = true).
Proof. exact tls_config_fields. Qed.
Print Assumptions C17_tls_config_fields.

(* --- a configured ca REPLACES the system roots ----------------------------------------------------------- *)
(* Whatever the machine's system store trusts (chains_to SystemRoots is unconstrained): with `ca` configured and
   verification on, a server certificate that does not chain to the configured ca is refused ... *)
Theorem C17_ca_exclusive : forall (cert : Type) (chains_to : ca_pool -> cert -> bool)
    (name_matches : cert -> list N -> bool) (time_valid : cert -> bool) o sni k,
  o_ca o = true -> o_insecure o = false -> chains_to ConfiguredCA k = false ->
  upstream_exchange_ok cert chains_to name_matches time_valid o sni (Some k) = false.
Proof. exact ca_exclusive_upstream. Qed.
Print Assumptions C17_ca_exclusive.

(* ... and so is a client certificate on a listener with verify_client_cert *)
Theorem C17_ca_exclusive_listener : forall (cert : Type) (chains_to : ca_pool -> cert -> bool)
    (time_valid : cert -> bool) o k,
  o_verify_client o = true -> chains_to ConfiguredCA k = false ->
  listener_serves cert chains_to time_valid o (Some k) = false.
Proof. exact ca_exclusive_listener. Qed.
Print Assumptions C17_ca_exclusive_listener.

(* "system roots only by default": with no ca configured the decision is x509 verification against the system roots *)
Theorem C17_system_roots_default : forall (cert : Type) (chains_to : ca_pool -> cert -> bool)
    (name_matches : cert -> list N -> bool) (time_valid : cert -> bool) o sni k,
  o_ca o = false -> o_verify_client o = false -> o_insecure o = false ->
  upstream_exchange_ok cert chains_to name_matches time_valid o sni (Some k) =
    (chains_to SystemRoots k && time_valid k && name_matches k sni).
Proof. exact system_roots_default. Qed.
Print Assumptions C17_system_roots_default.

(* makeTlsConfig, field by field (what the tlscfg kind compares with the real tls.Config): RootCAs is the configured
   ca ALONE or nil (system roots); ClientCAs is the configured ca alone or nil *)
Theorem C17_tls_config_pools : forall o rc,
  tls_config_view o rc =
    if rc && negb (o_cert_key o) then None
    else if o_verify_client o && negb (o_ca o) then None
    else Some (o_insecure o, (if o_ca o then ConfiguredCA else SystemRoots), o_cert_key o,
               (if o_verify_client o then RequireAndVerifyClientCert else NoClientCert),
               (if o_verify_client o then Some ConfiguredCA else None)).
Proof. exact tls_config_pools. Qed.
Print Assumptions C17_tls_config_pools.

(* --- the ROUTER's mapping: upstream config entry -> upstream (round 3) ------------------------------------ *)
(* Net/UpCfg.v models router.initUpstream + NewUpstream:  {tag, addr, dial_addr, tls{ca, cert/key,
   insecure_skip_verify}}  ->  upstream.Opt{DialAddr, TLSConfig}  ->  (endpoint, the tls.Config of the handshakes).
   [scheme_spelling st k]: the lower-cased text of [st] is one of the ten scheme texts (url.Parse lower-cases the
   scheme, so "TLS", "Tls+Pipeline", "DoQ", "H3" ... are all accepted). *)

(* The letter case of the scheme is immaterial to NewUpstream: every theorem above carries over to every spelling. *)
Theorem C17_scheme_case_insensitive : forall st k h p path d,
  scheme_spelling st k -> wf_host h = true -> wf_port_opt p = true -> wf_path path = true ->
  endpoint_of (url_of (Some st) h p path) d = endpoint_of (url_of (Some (map to_lower st)) h p path) d /\
  endpoint_of (url_of (Some st) h p path) d =
    Ok (endpoint_core (fst (fst k)) (snd (fst k)) (snd k) (authority h p) d).
Proof.
  intros st k h p path d Hs W Wp Wpath.
  split; [exact (scheme_case_insensitive st k h p path d Hs W Wp Wpath)
         |exact (endpoint_of_spelling st k h p path d Hs W Wp Wpath)].
Qed.
Print Assumptions C17_scheme_case_insensitive.

(* For ANY config entry the router accepts: dial_addr reaches NewUpstream unchanged, a TLS based transport gets
   exactly makeTlsConfig(entry.tls) — verification flag, root pool (configured ca alone, or system roots when none),
   client certificate — and a plain transport gets no tls.Config. *)
Theorem C17_upstream_config_mapping : forall c u,
  upc_init_upstream c = Ok u ->
  endpoint_of (upc_addr c) (upc_dial_addr c) = Ok (uu_ep u) /\
  (uses_tls (ep_scheme (uu_ep u)) = false -> uu_tls u = None) /\
  (uses_tls (ep_scheme (uu_ep u)) = true ->
     exists t, uu_tls u = Some t /\ make_tls_config (upc_tls c) false = Ok t /\
       c_insecure t = o_insecure (upc_tls c) /\
       c_roots t = (if o_ca (upc_tls c) then ConfiguredCA else SystemRoots) /\
       c_has_cert t = o_cert_key (upc_tls c)).
Proof. exact upc_mapping. Qed.
Print Assumptions C17_upstream_config_mapping.

(* For EVERY spelling of EVERY TLS based scheme (tls, tls+pipeline, https, h3, quic, doq; any letter case) x every
   address of the grammar x ANY dial_addr x every TLS option set: an exchange through the upstream the router builds
   proceeds iff the server presents a certificate and either insecure_skip_verify is set or the certificate chains
   to exactly the configured CA (system roots iff none is configured), is time-valid and matches the URL host. *)
Theorem C17_upstream_every_tls_spelling : forall (cert : Type) (chains_to : ca_pool -> cert -> bool)
    (name_matches : cert -> list N -> bool) (time_valid : cert -> bool) st k h p path tag da o peer,
  scheme_spelling st k -> uses_tls (fst (fst k)) = true ->
  wf_path path = true -> wf_host h = true -> wf_port_opt p = true ->
  tag <> [] -> (o_verify_client o = true -> o_ca o = true) ->
  upc_exchange_ok cert chains_to name_matches time_valid
    {| upc_tag := tag; upc_addr := url_of (Some st) h p path; upc_dial_addr := da; upc_tls := o |} peer =
  match peer with
  | None => false
  | Some c => o_insecure o ||
              (chains_to (if o_ca o then ConfiguredCA else SystemRoots) c && time_valid c &&
               name_matches c (host_name h))
  end.
Proof. exact upc_every_tls_spelling. Qed.
Print Assumptions C17_upstream_every_tls_spelling.

(* ... and the plain transports (udp, tcp, tcp+pipeline, http) perform no authentication whatever the TLS options *)
Theorem C17_upstream_plain_spelling : forall (cert : Type) (chains_to : ca_pool -> cert -> bool)
    (name_matches : cert -> list N -> bool) (time_valid : cert -> bool) st k h p path tag da o peer,
  scheme_spelling st k -> uses_tls (fst (fst k)) = false ->
  wf_path path = true -> wf_host h = true -> wf_port_opt p = true ->
  tag <> [] -> (o_verify_client o = true -> o_ca o = true) ->
  upc_exchange_ok cert chains_to name_matches time_valid
    {| upc_tag := tag; upc_addr := url_of (Some st) h p path; upc_dial_addr := da; upc_tls := o |} peer = true.
Proof. exact upc_plain_spelling. Qed.
Print Assumptions C17_upstream_plain_spelling.

(* dial_addr of the entry reaches EVERY socket of the upstream unchanged (default port added when it has none), for
   every spelling of every scheme; the server name still derives from the URL host. *)
Theorem C17_upstream_dial_addr : forall st k h p path tag dh dpo o,
  scheme_spelling st k -> wf_path path = true -> wf_host h = true -> wf_port_opt p = true ->
  wf_host dh = true -> wf_port_opt dpo = true ->
  tag <> [] -> (o_verify_client o = true -> o_ca o = true) ->
  let sc := fst (fst k) in let h3 := snd k in
  let target := join_host_port (host_name dh) (port_or_default sc dpo) in
  exists u,
    upc_init_upstream {| upc_tag := tag; upc_addr := url_of (Some st) h p path;
                         upc_dial_addr := dial_text dh dpo; upc_tls := o |} = Ok u /\
    ep_dial (uu_ep u) = target /\
    In (expected_net sc h3, target) (ep_sockets (uu_ep u)) /\
    (forall s, In s (ep_sockets (uu_ep u)) -> snd s = target) /\
    ep_sni (uu_ep u) = (if uses_tls sc then Some (host_name h) else None).
Proof. exact upc_dial_addr_override. Qed.
Print Assumptions C17_upstream_dial_addr.

(* without dial_addr every socket goes to the host and port of addr (or the scheme's default port) *)
Theorem C17_upstream_no_dial_addr : forall st k h p path tag o,
  scheme_spelling st k -> wf_path path = true -> wf_host h = true -> wf_port_opt p = true ->
  tag <> [] -> (o_verify_client o = true -> o_ca o = true) ->
  let sc := fst (fst k) in let h3 := snd k in
  let target := join_host_port (host_name h) (port_or_default sc p) in
  exists u,
    upc_init_upstream {| upc_tag := tag; upc_addr := url_of (Some st) h p path;
                         upc_dial_addr := []; upc_tls := o |} = Ok u /\
    ep_dial (uu_ep u) = target /\
    In (expected_net sc h3, target) (ep_sockets (uu_ep u)) /\
    (forall s, In s (ep_sockets (uu_ep u)) -> snd s = target).
Proof. exact upc_no_dial_addr. Qed.
Print Assumptions C17_upstream_no_dial_addr.

(* non-vacuity, both polarities, on the instance the upcfg kind runs (certificate kinds of the harness) *)
Example C17_example_upcfg :
  let o ca ck ins := {| o_ca := ca; o_cert_key := ck; o_insecure := ins; o_verify_client := false |} in
  scheme_spelling (s2l "TLS+Pipeline") (STls, true, false) /\ scheme_spelling (s2l "DoQ") (SQuic, false, false) /\
  scheme_spelling (s2l "H3") (SHttps, false, true) /\ ~ scheme_spelling (s2l "tls+") (STls, false, false) /\
  (* ca configured on a tls+pipeline upstream: a certificate of the configured ca is accepted, one that chains to
     a system root only is refused *)
  upc_case (s2l "tls+pipeline://upc17.test") (s2l "127.0.0.1:853") (o true false false) (Some CValid) false =
    Some (true, true, s2l "127.0.0.1:853") /\
  upc_case (s2l "tls+pipeline://upc17.test") (s2l "127.0.0.1:853") (o true false false) (Some CSysRoot) false =
    Some (false, true, s2l "127.0.0.1:853") /\
  upc_case (s2l "DOQ://upc17.test") (s2l "[::1]:8853") (o true false false) (Some CSysRoot) false =
    Some (false, true, s2l "[::1]:8853") /\
  upc_case (s2l "Tls://127.0.0.1:8853") [] (o false false false) (Some CSysRoot) false =
    Some (true, true, s2l "127.0.0.1:8853") /\
  upc_case (s2l "QUIC://127.0.0.1:8853") [] (o true false true) (Some CSelfSigned) false =
    Some (true, true, s2l "127.0.0.1:8853") /\
  (* the client certificate of the entry *)
  upc_case (s2l "tls+pipeline://upc17.test") (s2l "127.0.0.1:853") (o true true false) (Some CValid) true =
    Some (true, true, s2l "127.0.0.1:853") /\
  upc_case (s2l "tls+pipeline://upc17.test") (s2l "127.0.0.1:853") (o true false false) (Some CValid) true =
    Some (false, true, s2l "127.0.0.1:853") /\
  (* plain transport; unknown scheme; missing addr *)
  upc_case (s2l "TCP+pipeline://upc17.test") (s2l "127.0.0.1:53") (o true false false) None false =
    Some (true, false, s2l "127.0.0.1:53") /\
  upc_case (s2l "tls+pipe://upc17.test") [] (o true false false) None false = None /\
  upc_case [] [] (o false false false) None false = None.
Proof.
  cbv zeta. repeat split; try (vm_compute; tauto); try reflexivity.
  intros H. vm_compute in H. repeat (destruct H as [H|H]; [discriminate H|]). exact H.
Qed.

(* --- non-vacuity ---------------------------------------------------------------------------------------- *)
Definition show (r : res endpoint) : option (netw * list N * option (list N) * option (list N)) :=
  match r with Ok e => Some (ep_net e, ep_dial e, ep_sni e, ep_host e) | _ => None end.

Example C17_example_v6 :
  show (endpoint_of (s2l "tls://[2001:db8::1]") []) =
    Some (NTcp, s2l "[2001:db8::1]:853", Some (s2l "2001:db8::1"), None) /\
  show (endpoint_of (s2l "https://[2001:db8::1]:8443/dns-query") (s2l "192.0.2.1")) =
    Some (NTcp, s2l "192.0.2.1:443", Some (s2l "2001:db8::1"), Some (s2l "[2001:db8::1]:8443")) /\
  show (endpoint_of (s2l "8.8.8.8") []) = Some (NUdp, s2l "8.8.8.8:53", None, None) /\
  show (endpoint_of (s2l "tcp+pipeline://dns.example") (s2l "@resolver")) =
    Some (NUnix, s2l "@resolver", None, None) /\
  show (endpoint_of (s2l "h3://dns.example/q") (s2l "::1")) =
    Some (NUdp, s2l "[::1]:443", Some (s2l "dns.example"), Some (s2l "dns.example")) /\
  show (endpoint_of (s2l "ftp://dns.example") []) = None.
Proof. vm_compute. repeat split. Qed.

(* the hypotheses of C17_dial_target are met by a non-trivial instance *)
Example C17_example_hyps :
  scheme_entry (Some (s2l "tls+pipeline")) (STls, true, false) /\
  path_ok (Some (s2l "tls+pipeline")) [] /\
  wf_host (HV6 (s2l "2001:db8::ffff:192.0.2.1")) = true /\ wf_host (HV6 (s2l "::")) = true /\
  wf_host (HDom (s2l "dns.example")) = true /\ wf_host (HV4 (s2l "127.0.0.1")) = true /\
  wf_port_opt (Some (s2l "65535")) = true /\ wf_host (HV6 (s2l "1:2")) = false /\ wf_port (s2l "123456") = false.
Proof. vm_compute. repeat split; auto 12. Qed.

(* the decision rule is not trivially false/true: with the harness' certificate kinds *)
Example C17_example_tls :
  let o ca ck ins vc := {| o_ca := ca; o_cert_key := ck; o_insecure := ins; o_verify_client := vc |} in
  tls_upstream_case (o true false false false) (Some CValid) = true /\
  tls_upstream_case (o true false false false) (Some CWrongName) = false /\
  tls_upstream_case (o true false false false) (Some CExpired) = false /\
  tls_upstream_case (o false false false false) (Some CValid) = false /\
  tls_upstream_case (o false false true false) (Some CSelfSigned) = true /\
  tls_listener_case (o true true false true) (Some CValid) = true /\
  tls_listener_case (o true true false true) None = false /\
  tls_listener_case (o true true false true) (Some CUnknownCA) = false /\
  tls_listener_case (o true true false false) None = true /\
  tls_listener_starts (o false true false true) = false /\
  (* chains to a system root, not to the configured ca: refused when a ca is configured, accepted by default *)
  tls_upstream_case (o true false false false) (Some CSysRoot) = false /\
  tls_upstream_case (o false false false false) (Some CSysRoot) = true /\
  tls_upstream_case (o false false false false) (Some CSysRootWrongName) = false /\
  tls_listener_case (o true true false true) (Some CSysRoot) = false.
Proof. vm_compute. repeat split. Qed.

(* --- the HTTP Host / :authority of a DoH upstream (round 4) ----------------------------------------------- *)
(* For EVERY spelling of every scheme x EVERY address of the grammar — IPv4, domain, bracketed IPv6 literal of any
   shape, port absent or ANY port of 1..5 digits (the scheme's default port written out included: wf_port "443",
   see C17_host_default_port_kept) — x ANY dial_addr: the HTTP Host (HTTP/1.1 Host header, h2 / h3 :authority) of
   a DoH upstream (http, https, h3) is the URL authority exactly as written in the configuration, brackets and
   port included; the other transports have none.  The TLS server name is the bare host. *)
Theorem C17_http_host_is_authority : forall st k h p path d,
  scheme_spelling st k -> wf_path path = true -> wf_host h = true -> wf_port_opt p = true ->
  let sc := fst (fst k) in
  exists ep, endpoint_of (url_of (Some st) h p path) d = Ok ep /\
    ep_host ep = (if uses_http sc then Some (authority h p) else None) /\
    ep_sni ep = (if uses_tls sc then Some (host_name h) else None).
Proof. exact http_host_any. Qed.
Print Assumptions C17_http_host_is_authority.

(* the scheme's default port, when written out, stays in the Host: "[v6]:443" is never shortened to "[v6]" or "v6" *)
Theorem C17_host_default_port_kept : forall st k h path d,
  scheme_spelling st k -> uses_http (fst (fst k)) = true -> wf_path path = true -> wf_host h = true ->
  let sc := fst (fst k) in
  wf_port_opt (Some (default_port sc)) = true /\
  exists ep, endpoint_of (url_of (Some st) h (Some (default_port sc)) path) d = Ok ep /\
    ep_host ep = Some (host_text h ++ ch_colon :: default_port sc).
Proof.
  intros st k h path d Hs Hh Wp W sc. split; [exact (default_port_wf sc)|].
  exact (http_host_default_port st k h path d Hs Hh Wp W).
Qed.
Print Assumptions C17_host_default_port_kept.

(* the same through the router: the upstream initUpstream builds from a config entry *)
Theorem C17_upstream_http_host : forall st k h p path tag da o,
  scheme_spelling st k -> wf_path path = true -> wf_host h = true -> wf_port_opt p = true ->
  tag <> [] -> (o_verify_client o = true -> o_ca o = true) ->
  let sc := fst (fst k) in
  exists u,
    upc_init_upstream {| upc_tag := tag; upc_addr := url_of (Some st) h p path; upc_dial_addr := da; upc_tls := o |} = Ok u /\
    ep_host (uu_ep u) = (if uses_http sc then Some (authority h p) else None).
Proof. exact upc_http_host. Qed.
Print Assumptions C17_upstream_http_host.

(* the IPv6 literal with the default port written out is an instance of the grammar, and its Host keeps both *)
Example C17_example_host_default_port :
  wf_host (HV6 (s2l "2001:db8::53")) = true /\ wf_port_opt (Some (s2l "443")) = true /\
  url_of (Some (s2l "https")) (HV6 (s2l "2001:db8::53")) (Some (s2l "443")) (s2l "/dns-query") =
    s2l "https://[2001:db8::53]:443/dns-query" /\
  show (endpoint_of (s2l "https://[2001:db8::53]:443/dns-query") (s2l "127.0.0.1:8443")) =
    Some (NTcp, s2l "127.0.0.1:8443", Some (s2l "2001:db8::53"), Some (s2l "[2001:db8::53]:443")) /\
  show (endpoint_of (s2l "http://[::1]:80/dns-query") []) =
    Some (NTcp, s2l "[::1]:80", None, Some (s2l "[::1]:80")) /\
  show (endpoint_of (s2l "H3://[2001:db8::53]:443/dns-query") []) =
    Some (NUdp, s2l "[2001:db8::53]:443", Some (s2l "2001:db8::53"), Some (s2l "[2001:db8::53]:443")) /\
  show (endpoint_of (s2l "https://[2001:db8::53]/dns-query") []) =
    Some (NTcp, s2l "[2001:db8::53]:443", Some (s2l "2001:db8::53"), Some (s2l "[2001:db8::53]")) /\
  show (endpoint_of (s2l "https://dns.example:443/dns-query") []) =
    Some (NTcp, s2l "dns.example:443", Some (s2l "dns.example"), Some (s2l "dns.example:443")) /\
  show (endpoint_of (s2l "tls://[2001:db8::53]:853") []) =
    Some (NTcp, s2l "[2001:db8::53]:853", Some (s2l "2001:db8::53"), None).
Proof. vm_compute. repeat split. Qed.

(* --- SEVERAL upstreams in one router (round 6) ------------------------------------------------------------ *)
(* Net/UpRouter.v models the loop of run(): initUpstream applied to the entries of `upstreams:` in order; the only
   thing an entry sees of the others is their tags (dup tag).  [upr_init_router cs] = the (tag, upstream) list. *)

(* INDEPENDENCE.  The mapping of a list of entries is the map of the single-entry mapping: the i-th upstream of a
   started router is exactly what initUpstream makes of the i-th entry ALONE — its own dial_addr, its own
   makeTlsConfig(entry.tls): insecure_skip_verify, ca, cert/key of an entry never reach another entry, whatever the
   entries before or after it are and whichever TLS fields they share. *)
Theorem C17_upstreams_independent : forall cs us,
  upr_init_router cs = Ok us ->
  List.length us = List.length cs /\
  (forall i c, nth_error cs i = Some c ->
     exists u, nth_error us i = Some (upc_tag c, u) /\ upc_init_upstream c = Ok u) /\
  map (fun tu : list N * upc_upstream => Ok (snd tu)) us = map upc_init_upstream cs /\
  map fst us = map upc_tag cs.
Proof.
  intros cs us H. destruct (upstreams_independent cs us H) as [A B]. destruct (upstreams_are_map cs us H) as [C D].
  repeat split; assumption.
Qed.
Print Assumptions C17_upstreams_independent.

(* the router starts iff the tags are pairwise distinct and every entry is accepted alone *)
Theorem C17_router_starts_iff : forall cs,
  is_ok (upr_init_router cs) = true <->
  NoDup (map upc_tag cs) /\ forall c, In c cs -> is_ok (upc_init_upstream c) = true.
Proof. exact router_starts_iff. Qed.
Print Assumptions C17_router_starts_iff.

(* ... hence the handshake verdict of EVERY upstream of a router equals the verdict of its own entry alone
   (C17_upstream_every_tls_spelling then gives it in closed form: exactly the entry's ca / system roots,
   unless the ENTRY's insecure_skip_verify) *)
Theorem C17_upstreams_independent_verdict : forall (cert : Type) (chains_to : ca_pool -> cert -> bool)
    (name_matches : cert -> list N -> bool) (time_valid : cert -> bool) cs i c peer,
  is_ok (upr_init_router cs) = true -> nth_error cs i = Some c ->
  upr_exchange_ok cert chains_to name_matches time_valid cs i peer =
  upc_exchange_ok cert chains_to name_matches time_valid c peer.
Proof. exact upstreams_independent_verdict. Qed.
Print Assumptions C17_upstreams_independent_verdict.

(* the instance the uprouter kind runs: the per-entry results of a router are the results of the entries alone *)
Theorem C17_upstreams_independent_case : forall es vs,
  upr_case es = Some vs -> map Some vs = map upr_case_alone es.
Proof. exact upr_case_independent. Qed.
Print Assumptions C17_upstreams_independent_case.

(* REFUTED for a mapping with shared state: a client tls.Config cache keyed by the ca / cert / key files only
   (upr_shared_router).  "tls://a" with insecure_skip_verify listed before the strict "tls://b" (same — absent —
   files): the upstream built for b is NOT initUpstream(b), it accepts a self-signed server that b alone refuses;
   in the other order the skip-verify upstream refuses what it alone accepts. *)
Theorem C17_shared_tls_state_refuted :
  (exists us u, upr_shared_router [upr_w_lan; upr_w_public] = Ok us /\
     nth_error us 1 = Some (upc_tag upr_w_public, u) /\
     upc_init_upstream upr_w_public <> Ok u /\
     upr_verdict u (Some CSelfSigned) false = true /\
     upr_case_alone (upr_w_public, (Some CSelfSigned, false)) = Some (false, s2l "b:853")) /\
  (exists us u, upr_shared_router [upr_w_public; upr_w_lan] = Ok us /\
     nth_error us 1 = Some (upc_tag upr_w_lan, u) /\
     upr_verdict u (Some CSelfSigned) false = false /\
     upr_case_alone (upr_w_lan, (Some CSelfSigned, false)) = Some (true, s2l "a:853")).
Proof. exact shared_tls_state_refuted. Qed.
Print Assumptions C17_shared_tls_state_refuted.

(* ... while with ONE entry per router the shared design is indistinguishable from the real one: the difference is
   only observable with at least two entries in one router *)
Theorem C17_shared_tls_state_needs_two : forall c,
  match upr_shared_router [c], upr_init_router [c] with
  | Ok a, Ok b => a = b
  | Ok _, _ | _, Ok _ => False
  | _, _ => True
  end.
Proof. exact shared_single_entry_same. Qed.
Print Assumptions C17_shared_tls_state_needs_two.

Example C17_example_uprouter :
  let o ca ins := {| o_ca := ca; o_cert_key := false; o_insecure := ins; o_verify_client := false |} in
  let e tag addr ca ins := {| upc_tag := tag; upc_addr := addr; upc_dial_addr := s2l "127.0.0.1:8853";
                              upc_tls := o ca ins |} in
  (* skip-verify first, strict second, and the other way round: each keeps its own verdict *)
  upr_case [(e (s2l "lan") (s2l "tls://lan.test") false true, (Some CSelfSigned, false));
            (e (s2l "pub") (s2l "DoQ://dns.test") false false, (Some CSelfSigned, false));
            (e (s2l "pin") (s2l "tls+pipeline://dns.test") true false, (Some CValid, false));
            (e (s2l "sys") (s2l "https://dns.test/q") false false, (Some CValid, false))] =
    Some [(true, s2l "127.0.0.1:8853"); (false, s2l "127.0.0.1:8853"); (true, s2l "127.0.0.1:8853");
          (false, s2l "127.0.0.1:8853")] /\
  upr_case [(e (s2l "pub") (s2l "tls://dns.test") true false, (Some CSelfSigned, false));
            (e (s2l "lan") (s2l "tls://lan.test") true true, (Some CSelfSigned, false))] =
    Some [(false, s2l "127.0.0.1:8853"); (true, s2l "127.0.0.1:8853")] /\
  (* duplicate tag: the router does not start *)
  upr_case [(e (s2l "u") (s2l "tls://a.test") false false, (None, false)); (e (s2l "u") (s2l "udp://b.test") false false, (None, false))] = None.
Proof. vm_compute. repeat split. Qed.

(* SEVERAL TLS listeners in one router: each listener serves / refuses exactly as the same listener alone
   (its own verify_client_cert, its own ca), and the router starts iff every listener starts alone *)
Theorem C17_listeners_independent : forall es vs,
  lsr_case es = Some vs -> vs = map (fun e => tls_listener_case (fst e) (snd e)) es.
Proof. exact lsr_case_independent. Qed.
Print Assumptions C17_listeners_independent.

Theorem C17_listeners_start_iff : forall es,
  (exists vs, lsr_case es = Some vs) <-> forall e, In e es -> tls_listener_starts (fst e) = true.
Proof. exact lsr_starts_iff. Qed.
Print Assumptions C17_listeners_start_iff.

Example C17_example_lsrouter :
  let o ca vc := {| o_ca := ca; o_cert_key := true; o_insecure := false; o_verify_client := vc |} in
  lsr_case [(o true false, None); (o true true, None); (o true true, Some CValid); (o false false, Some CSelfSigned)] =
    Some [true; false; true; true] /\
  lsr_case [(o true true, None); (o true false, None)] = Some [false; true] /\
  lsr_case [(o true false, None); (o false true, None)] = None.
Proof. vm_compute. repeat split. Qed.

(* --- HISTORIES: what an upstream keeps between connections (round 7) ------------------------------------- *)
(* Net/UpHistory.v: [upr_history p us [] steps peer] = the verdicts of a sequence of exchanges — step i is a NEW
   connection of the i-th upstream of the process to ONE server presenting [peer] — under a TLS resumption policy:
   SessNone (the code: the client tls.Config has no session cache), SessPerUpstream, SessShared (one cache for all
   upstreams; crypto/tls keys it by server name and does not re-verify the chain on resumption). *)

(* HISTORY INDEPENDENCE (extends C17_upstreams_independent_verdict to sequences): without resumption state, and also
   with one session cache per upstream, every step's verdict is the verdict of that step's OWN ENTRY ALONE
   (upc_exchange_ok of the entry: exactly its ca / system roots unless its insecure_skip_verify) — whatever
   exchanges any entry performed before. *)
Theorem C17_history_independent : forall (cert : Type) (chains_to : ca_pool -> cert -> bool)
    (name_matches : cert -> list N -> bool) (time_valid : cert -> bool) p cs us steps peer,
  p = SessNone \/ p = SessPerUpstream ->
  upr_init_router cs = Ok us ->
  (forall i, In i steps -> (i < List.length cs)%nat) ->
  upr_history cert chains_to name_matches time_valid p us [] steps peer =
  map (fun i => match nth_error cs i with
                | Some c => upc_exchange_ok cert chains_to name_matches time_valid c peer
                | None => false end) steps.
Proof. exact history_independent_router. Qed.
Print Assumptions C17_history_independent.

(* the same over the upstreams of SEVERAL routers of one process (any list of built upstreams) *)
Theorem C17_history_independent_process : forall (cert : Type) (chains_to : ca_pool -> cert -> bool)
    (name_matches : cert -> list N -> bool) (time_valid : cert -> bool) p us steps peer,
  p = SessNone \/ p = SessPerUpstream ->
  upr_history cert chains_to name_matches time_valid p us [] steps peer =
  map (fun i => match nth_error us i with
                | Some (_, u) => upr_accepts cert chains_to name_matches time_valid u peer
                | None => false end) steps.
Proof. exact history_independent. Qed.
Print Assumptions C17_history_independent_process.

(* REFUTED for a shared resumption state: entries "good" (configured ca) and "pinned" (other trust) for the same
   server name, server certificate of the configured ca: pinned refuses, good exchanges, and then pinned — on a new
   connection — exchanges too (one router, or two routers of one process); with no cache / a cache per upstream it
   keeps refusing. *)
Theorem C17_shared_resumption_refuted :
  upr_history_case SessShared [[uph_w_good; uph_w_pinned]] [1%nat; 0%nat; 1%nat] (Some CValid) = Some [false; true; true] /\
  upr_history_case SessShared [[uph_w_good]; [uph_w_pinned]] [1%nat; 0%nat; 1%nat] (Some CValid) = Some [false; true; true] /\
  upr_history_case SessNone [[uph_w_good; uph_w_pinned]] [1%nat; 0%nat; 1%nat] (Some CValid) = Some [false; true; false] /\
  upr_history_case SessPerUpstream [[uph_w_good; uph_w_pinned]] [1%nat; 0%nat; 1%nat; 0%nat; 1%nat] (Some CValid) =
    Some [false; true; false; true; false].
Proof. exact shared_resumption_refuted. Qed.
Print Assumptions C17_shared_resumption_refuted.

(* --- NAMES are resolved per connection (round 7) ---------------------------------------------------------- *)
(* The dial target is the TEXT host:port (ep_dial).  [rs_env]: at connection number k, the addresses a host text
   denotes.  For every URL of the grammar (a domain name in particular) x every scheme: constructing the upstream
   does not consult the environment at all, and the k-th connection goes to what the host denotes AT CONNECTION k,
   on the URL's port (or the scheme's default) ... *)
Theorem C17_resolved_per_connection : forall st k h p path env n,
  scheme_entry st k -> path_ok st path -> wf_host h = true -> wf_port_opt p = true ->
  let sc := fst (fst k) in
  exists ep, rs_new_upstream env (url_of st h p path) [] = Ok ep /\
    rs_conn_targets env ep n = map (fun a => join_host_port a (port_or_default sc p)) (env n (host_name h)).
Proof. exact resolved_per_connection. Qed.
Print Assumptions C17_resolved_per_connection.

(* ... and likewise for a dial_addr that is a name *)
Theorem C17_resolved_per_connection_override : forall st k h p path dh dpo env n,
  scheme_entry st k -> path_ok st path -> wf_host h = true -> wf_port_opt p = true ->
  wf_host dh = true -> wf_port_opt dpo = true ->
  let sc := fst (fst k) in
  exists ep, rs_new_upstream env (url_of st h p path) (dial_text dh dpo) = Ok ep /\
    rs_conn_targets env ep n = map (fun a => join_host_port a (port_or_default sc dpo)) (env n (host_name dh)).
Proof. exact resolved_per_connection_override. Qed.
Print Assumptions C17_resolved_per_connection_override.

(* REFUTED for "resolve once, at construction": the name moves from 127.0.0.1 to 127.0.0.2 — connection 2 goes to
   127.0.0.2:853, the resolve-once mapping still says 127.0.0.1:853; and a name that does not resolve at construction
   makes the resolve-once construction fail where the real one succeeds and connects later. *)
Theorem C17_resolve_once_refuted :
  (exists ep, rs_new_upstream rs_w_move rs_w_url [] = Ok ep /\
     rs_conn_targets rs_w_move ep 2 = [s2l "127.0.0.2:853"] /\
     rs_once_targets rs_w_move ep 2 = [s2l "127.0.0.1:853"] /\
     rs_once_targets rs_w_move ep 2 <> rs_conn_targets rs_w_move ep 2) /\
  (is_ok (rs_new_upstream rs_w_late rs_w_url []) = true /\ is_ok (rs_once_new_upstream rs_w_late rs_w_url []) = false /\
   rs_case rs_w_url [] rs_w_name (fun k => match k with O => [] | _ => [rs_w_a1] end) 1 = Some [s2l "127.0.0.1:853"]).
Proof. exact resolve_once_refuted. Qed.
Print Assumptions C17_resolve_once_refuted.

(* --- socket options reach every socket (round 8) ---------------------------------------------------------- *)
(* controlSocket: EVERY configured option (so_reuseport, so_rcvbuf, so_sndbuf, so_mark, so_bindtodevice) is applied
   to EVERY socket of EVERY ip network the Control callback is called with (tcp4 tcp6 udp4 udp6); TCP_USER_TIMEOUT
   (5000 ms from listen() / initUpstream) is meaningful for tcp only: applied to tcp4 / tcp6, never to udp. *)
Theorem C17_sockopts_all_networks : forall o n,
  ska_reuseport (sko_control o n) = sko_reuseport o /\
  (sko_rcvbuf o <> 0%N -> ska_rcvbuf (sko_control o n) = Some (sko_rcvbuf o)) /\
  (sko_sndbuf o <> 0%N -> ska_sndbuf (sko_control o n) = Some (sko_sndbuf o)) /\
  (sko_mark o <> 0%N -> ska_mark (sko_control o n) = Some (sko_mark o)) /\
  (sko_dev o <> [] -> ska_dev (sko_control o n) = Some (sko_dev o)) /\
  (sko_utimeout o <> 0%N -> sko_is_tcp n = true -> ska_utimeout (sko_control o n) = Some (sko_utimeout o)) /\
  (sko_is_tcp n = false -> ska_utimeout (sko_control o n) = None).
Proof. exact sockopts_all_networks. Qed.
Print Assumptions C17_sockopts_all_networks.

Theorem C17_sockopts_nothing_else : forall o n,
  (sko_rcvbuf o = 0%N -> ska_rcvbuf (sko_control o n) = None) /\
  (sko_sndbuf o = 0%N -> ska_sndbuf (sko_control o n) = None) /\
  (sko_mark o = 0%N -> ska_mark (sko_control o n) = None) /\
  (sko_dev o = [] -> ska_dev (sko_control o n) = None) /\
  (sko_utimeout o = 0%N -> ska_utimeout (sko_control o n) = None).
Proof. exact sockopts_nothing_else. Qed.
Print Assumptions C17_sockopts_nothing_else.

(* REFUTED for a white list of network names that misses "tcp4": IPv4 TCP sockets lose so_mark and so_bindtodevice *)
Theorem C17_sockopts_whitelist_refuted :
  ska_mark (sko_control_whitelist sko_w SkoTcp4) = None /\ ska_dev (sko_control_whitelist sko_w SkoTcp4) = None /\
  ska_mark (sko_control sko_w SkoTcp4) = Some 7%N /\ ska_dev (sko_control sko_w SkoTcp4) = Some (s2l "lo") /\
  sko_control_whitelist sko_w SkoTcp6 = sko_control sko_w SkoTcp6 /\
  sko_control_whitelist sko_w SkoUdp4 = sko_control sko_w SkoUdp4.
Proof. exact sockopts_whitelist_refuted. Qed.
Print Assumptions C17_sockopts_whitelist_refuted.

(* --- a DoH exchange is ONE request (round 8) -------------------------------------------------------------- *)
(* For every world of servers and every URL: the exchange requests the configured URL and nothing else, and uses
   the answer iff its status is 200; any other status — a 3xx with a Location in particular — fails the exchange. *)
Theorem C17_doh_one_request_per_exchange : forall w url,
  fst (doh_exchange w url) = [url] /\
  snd (doh_exchange w url) = (if N.eqb (da_status (w url)) 200 then Ok (da_body (w url)) else Err EOther) /\
  (doh_is_redirect (da_status (w url)) = true -> is_ok (snd (doh_exchange w url)) = false).
Proof.
  intros w url. destruct (doh_one_request w url) as [A B]. split; [exact A|]. split; [exact B|].
  exact (doh_redirect_fails w url).
Qed.
Print Assumptions C17_doh_one_request_per_exchange.

(* REFUTED for an exchange that follows redirects (http.Client): "https://a/q" answered 302 -> "http://b/q": a
   second request goes to the CLEARTEXT URL of another authority and its body is taken as the answer *)
Theorem C17_doh_follow_redirects_refuted :
  doh_exchange_follow 10 doh_w_world doh_w_url = ([doh_w_url; doh_w_loc], Ok [42%N]) /\
  doh_exchange doh_w_world doh_w_url = ([doh_w_url], Err EOther).
Proof. exact doh_follow_refuted. Qed.
Print Assumptions C17_doh_follow_redirects_refuted.

(* the stream sockets a router opens itself — listen() and the connections of its upstreams (initUpstream) — carry
   TCP_USER_TIMEOUT = 5000 ms in addition to every configured option *)
Theorem C17_router_sockets_user_timeout : forall o n,
  sko_is_tcp n = true ->
  ska_utimeout (sko_router_control o n) = Some 5000%N /\
  ska_mark (sko_router_control o n) = ska_mark (sko_control o n) /\
  ska_dev (sko_router_control o n) = ska_dev (sko_control o n) /\
  ska_reuseport (sko_router_control o n) = sko_reuseport o.
Proof. exact router_sockets. Qed.
Print Assumptions C17_router_sockets_user_timeout.
