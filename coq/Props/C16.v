(* C16 — a truncated UDP upstream reply is retried over TCP.
   Only statements; proofs live in Net/Fallback.v. *)
From Mos Require Import Base.Prelude Net.Fallback.

(* TC on the UDP leg: the result is exactly the TCP leg's outcome (success or failure) for the same
   query, with exactly one TCP attempt — never the truncated UDP message. *)
Theorem C16_tc : forall (Q R : Type) (tc : R -> bool) (udp tcp : Q -> option R) (q : Q) (r : R),
  udp q = Some r -> tc r = true ->
  exchange tc udp tcp q = (tcp q, [EvUdp q; EvTcp q]).
Proof. exact @exchange_tc. Qed.
Print Assumptions C16_tc.

(* no TC: the reply is returned as received and no TCP attempt is made *)
Theorem C16_no_tc : forall (Q R : Type) (tc : R -> bool) (udp tcp : Q -> option R) (q : Q) (r : R),
  udp q = Some r -> tc r = false ->
  exchange tc udp tcp q = (Some r, [EvUdp q]).
Proof. exact @exchange_no_tc. Qed.
Print Assumptions C16_no_tc.

(* a failing UDP leg fails the exchange without a TCP attempt *)
Theorem C16_udp_fail : forall (Q R : Type) (tc : R -> bool) (udp tcp : Q -> option R) (q : Q),
  udp q = None -> exchange tc udp tcp q = (None, [EvUdp q]).
Proof. exact @exchange_udp_fail. Qed.
Print Assumptions C16_udp_fail.

(* characterisation of every returned message *)
Theorem C16_result : forall (Q R : Type) (tc : R -> bool) (udp tcp : Q -> option R) (q : Q) (r' : R),
  fst (exchange tc udp tcp q) = Some r' ->
  (udp q = Some r' /\ tc r' = false /\ tcp_attempts (snd (exchange tc udp tcp q)) = 0) \/
  (exists r, udp q = Some r /\ tc r = true /\ tcp q = Some r' /\
             tcp_attempts (snd (exchange tc udp tcp q)) = 1).
Proof. exact @exchange_result. Qed.
Print Assumptions C16_result.

Theorem C16_same_query : forall (Q R : Type) (tc : R -> bool) (udp tcp : Q -> option R) (q : Q) e,
  In e (snd (exchange tc udp tcp q)) -> e = EvUdp q \/ e = EvTcp q.
Proof. exact @exchange_same_query. Qed.
Print Assumptions C16_same_query.

(* non-vacuity: a truncated UDP reply with a failing TCP leg yields failure, not the UDP message *)
Example C16_example :
  fb_run (Some (true, 12%N)) None = (None, 1) /\
  fb_run (Some (true, 12%N)) (Some (false, 2%N)) = (Some (false, 2%N), 1) /\
  fb_run (Some (false, 1%N)) (Some (false, 2%N)) = (Some (false, 1%N), 0).
Proof. vm_compute. auto. Qed.
