(* C10 — rules are first-match and a query reaches only the selected upstream.
   Only statements; proofs in Router/RouterProofs.v. *)
From Mos Require Import Base.Prelude Codec.Name Codec.Msg Codec.WfProofs Codec.RoundtripProofs
  Router.Rules Router.Edns Router.Router Router.RouterSpec Router.RouterProofs
  Router.StartOrder Router.StartOrderProofs.

(* The selected rule is the FIRST rule in configured order whose condition holds. *)
Theorem C10_first_match : forall matches (rules : list rule) (name : list N) (i : nat) (r : rule),
  select matches rules name = Some (i, r) <->
  nth_error rules i = Some r /\ applies matches r name = true /\
  forall j r', j < i -> nth_error rules j = Some r' -> applies matches r' name = false.
Proof.
  intros. split; [apply select_first_match|]. intros (H1 & H2 & H3). now apply select_complete.
Qed.
Print Assumptions C10_first_match.

Theorem C10_no_match : forall matches (rules : list rule) (name : list N),
  select matches rules name = None -> forall r, In r rules -> applies matches r name = false.
Proof. exact select_none. Qed.
Print Assumptions C10_no_match.

(* no condition always holds; 'reverse' negates the domain condition *)
Theorem C10_condition : forall matches (r : rule) (name : list N),
  (ru_cond r = None -> applies matches r name = true) /\
  (forall s rev, ru_cond r = Some (s, rev) ->
     applies matches r name = if rev then negb (matches s name) else matches s name).
Proof. intros. split; [apply applies_no_cond|apply applies_cond]. Qed.
Print Assumptions C10_condition.

(* reject before forward; REFUSED when no rule applies or the rule has no action *)
Theorem C10_decision : forall matches (rules : list rule) (name : list N),
  match decide matches rules name with
  | ARefused => select matches rules name = None \/
                exists i r, select matches rules name = Some (i, r) /\ ru_reject r = 0%N /\ ru_forward r = None
  | AReject rc => exists i r, select matches rules name = Some (i, r) /\ ru_reject r = rc /\ (0 < rc)%N
  | AForward u => exists i r, select matches rules name = Some (i, r) /\ ru_reject r = 0%N /\ ru_forward r = Some u
  end.
Proof. exact decide_table. Qed.
Print Assumptions C10_decision.

(* A client query causes at most one upstream query, only when the decision is "forward to u", only to u, and it
   is exactly packReq of the lower-cased question.  (C03_table gives: reject / refused / unsupported => none.) *)
Theorem C10_effects : forall matches rules ecs up (m : msg) (client : addr),
  length (snd (handle matches rules ecs up m client)) <= 1 /\
  forall u w, In (EQuery u w) (snd (handle matches rules ecs up m client)) ->
    unsupported m = false /\ exists q qs, m_qs m = q :: qs /\
      decide matches rules (q_name (lower_q q)) = AForward u /\ w = pack_req ecs (lower_q q) client.
Proof. exact handle_effects. Qed.
Print Assumptions C10_effects.

(* The forwarded wire data decodes to: RD=1, exactly that question (lower-cased name, same class and type), no
   answers/authorities, one OPT record. *)
Theorem C10_forwarded_question : forall (e : bool) (q : question) (a : addr), wf_question q -> wf_addr a ->
  exists w, pack_req e (lower_q q) a = Ok w /\ unpack_msg w = Ok (relen (req_msg e (lower_q q) a)) /\
            m_qs (relen (req_msg e (lower_q q) a)) = [lower_q q] /\
            h_rd (m_hdr (relen (req_msg e (lower_q q) a))) = true.
Proof.
  intros e q a Hq Ha. destruct (pack_req_decodes e (lower_q q) a (lower_q_wf q Hq) Ha) as (w & H1 & H2).
  exists w. repeat split; assumption.
Qed.
Print Assumptions C10_forwarded_question.

(* A configuration that loads has unique, non-empty upstream and domain-set tags, non-empty upstream addresses, and
   every rule's domain-set / upstream reference resolves (an unknown or repeated tag is a load error). *)
Theorem C10_load_strict : forall (c : raw_config) (rules : list rule), load c = inr rules ->
  NoDup (map fst (rc_upstreams c)) /\ NoDup (rc_sets c) /\
  (forall t a, In (t, a) (rc_upstreams c) -> t <> [] /\ a <> []) /\ (forall t, In t (rc_sets c) -> t <> []) /\
  length rules = length (rc_rules c) /\
  Forall (rule_resolved (length (rc_upstreams c)) (length (rc_sets c))) rules.
Proof. exact load_strict. Qed.
Print Assumptions C10_load_strict.

(* non-vacuity: three rules, the second is the first that applies *)
Example C10_example :
  let rules := [mkRule (Some (0, false)) 3 None; mkRule (Some (0, true)) 0 (Some 1); mkRule None 0 (Some 0)] in
  decide (fun _ _ => false) rules [1; 97]%N = AForward 1 /\ decide (fun _ _ => true) rules [1; 97]%N = AReject 3 /\
  load (mkRawConfig [([117]%N, [49]%N)] [[115]%N] [mkRawRule false [115]%N 0 [120]%N]) = inl LUnknownUpstream.
Proof. vm_compute. auto. Qed.

(* Start-up order.  The listener goroutines read r.rules and the domain-set matchers without synchronising with run():
   a query sees whatever has been initialised when it arrives.  run() loads the domain sets, builds the rules and only
   then starts the servers ([so_run_prog]); a query may arrive after ANY prefix of it ([firstn j]).  Whatever the prefix:
   either nobody is listening yet (the query is lost, the client retries), or the decision is exactly the one of the
   completely configured router - the rule decision of C10_first_match / C10_decision over the complete rule list and
   the completely loaded sets.  (Tie: kind startrace - clients already sending while run() loads slow domain sets.) *)
Theorem C10_startup_order : forall matches nsets (rules : list rule) nservers j (name : list N),
  so_rules_ok nsets rules = true ->
  let s := so_exec (firstn j (so_run_prog nsets rules nservers)) in
  so_decide matches s name = None \/ so_decide matches s name = Some (decide matches rules name).
Proof. exact so_run_order_safe. Qed.
Print Assumptions C10_startup_order.

(* the order matters: with the servers started first (the seeded change C10-K) there is a configuration, a moment and
   a query that is answered REFUSED although the configured rules forward it *)
Theorem C10_servers_first_refuted :
  exists matches nsets rules nservers j name,
    so_rules_ok nsets rules = true /\
    so_decide matches (so_exec (firstn j (so_servers_first_prog nsets rules nservers))) name = Some ARefused /\
    decide matches rules name = AForward 0.
Proof.
  exists (fun _ _ => false), 0, [mkRule None 0 (Some 0)], 1, 2, [1; 97]%N. vm_compute. auto.
Qed.
Print Assumptions C10_servers_first_refuted.

(* non-vacuity: two sets, three rules, two servers: after the whole of run() the listener answers with the complete
   decision; in the middle of it nobody listens *)
Example C10_startup_example :
  let rules := [mkRule (Some (1, false)) 3 None; mkRule None 0 (Some 0)] in
  let m := fun i (_ : list N) => Nat.eqb i 1 in
  so_rules_ok 2 rules = true /\
  so_decide m (so_exec (so_run_prog 2 rules 2)) [1; 97]%N = Some (AReject 3) /\
  so_decide m (so_exec (firstn 4 (so_run_prog 2 rules 2))) [1; 97]%N = None.
Proof. vm_compute. auto. Qed.
