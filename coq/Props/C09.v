(* C09 — responses respect the transport size limit and truncate well-formedly.
   Only statements; proofs in Codec/TruncProofs.v.  [pack_msg buflen compress size m] is Msg.Pack into a buffer of
   buflen octets; size > 0 is the caller's limit (floor 512: [eff_size]).  [opt_len m] is the packed size of the OPT
   record PopEDNS0 finds (0 when there is none); every response the router builds carries its own 11-octet OPT or
   none, so the side condition [opt_len m + 12 <= eff_size size] always holds there. *)
From Mos Require Import Base.Prelude Codec.Name Codec.Msg Codec.Spec Codec.NameProofs Codec.SafetyProofs
  Codec.WfProofs Codec.RoundtripProofs Codec.TruncProofs Codec.CompressProofs Router.Rules Router.Edns Router.Router Router.RouterProofs.

(* Packing a well-formed message (hence: any decoded message, C01_decode_wf) into a buffer of Msg.Len octets never
   fails — with or without compression, with or without a size limit. *)
Theorem C09_pack_total : forall (buflen : nat) (compress : bool) (size : nat) (m : msg),
  wf_msg m -> msg_len m <= buflen -> exists out, pack_msg buflen compress size m = Ok out.
Proof. exact pack_msg_total. Qed.
Print Assumptions C09_pack_total.

(* The size bound, compression on or off: the output never exceeds max(512, size). *)
Theorem C09_size : forall (buflen : nat) (compress : bool) (size : nat) (m : msg) (out : list N),
  wf_msg m -> 0 < size -> opt_len m + 12 <= eff_size size ->
  pack_msg buflen compress size m = Ok out -> length out <= eff_size size.
Proof. exact pack_msg_size_bound. Qed.
Print Assumptions C09_size.

Theorem C09_eff_size : forall size, eff_size size = Nat.max 512 size.
Proof. exact eff_size_max. Qed.
Print Assumptions C09_eff_size.

(* Nothing is omitted and TC is not added when the uncompressed encoding already fits (compression on or off):
   the header written carries the original flag word and the full section counts. *)
Theorem C09_fits_untouched : forall (buflen : nat) (compress : bool) (size : nat) (m : msg) (out : list N),
  wf_msg m -> 0 < size -> msg_len m <= eff_size size ->
  pack_msg buflen compress size m = Ok out ->
  exists body, out = hdr_bytes (h_id (m_hdr m)) (hdr_bits (m_hdr m)) (N.of_nat (length (m_qs m)))
                       (N.of_nat (length (m_an m))) (N.of_nat (length (m_ns m))) (N.of_nat (length (m_ar m))) ++ body.
Proof. exact pack_msg_fits. Qed.
Print Assumptions C09_fits_untouched.

(* Without compression the octets written are exactly the canonical encoding of the truncated message [trunc] ... *)
Theorem C09_plain_exact : forall (size : nat) (m : msg), wf_msg m -> 0 < size ->
  pack_msg (msg_len m) false size m = Ok (plain_bytes (trunc size m)).
Proof. exact pack_msg_plain_trunc. Qed.
Print Assumptions C09_plain_exact.

(* ... which decodes cleanly (the section counts equal the records present), whatever follows it, ... *)
Theorem C09_wellformed : forall (size : nat) (m : msg) (trailing : list N), wf_msg m ->
  unpack_msg (plain_bytes (trunc size m) ++ trailing) = Ok (relen (trunc size m)) /\ wf_msg (trunc size m).
Proof. intros size m post Hw. split; [now apply trunc_decodes|now apply trunc_wf]. Qed.
Print Assumptions C09_wellformed.

(* ... keeps questions, answers and authorities unmodified in their original relative order, retains the OPT record
   (as the last additional), ... *)
Theorem C09_order_kept : forall (size : nat) (m : msg),
  sublist (m_qs (trunc size m)) (m_qs m) /\ sublist (m_an (trunc size m)) (m_an m) /\
  sublist (m_ns (trunc size m)) (m_ns m) /\
  exists kept, m_ar (trunc size m) = kept ++ opt_list m /\ sublist kept (snd (pop_opt (m_ar m))).
Proof. exact trunc_sections. Qed.
Print Assumptions C09_order_kept.

(* ... sets TC iff something was omitted (or TC was set already) and changes no other header field, ... *)
Theorem C09_tc_iff : forall (size : nat) (m : msg),
  m_hdr (trunc size m) = set_tc (m_hdr m) (h_tc (m_hdr m) || omitted (trunc size m) m).
Proof. exact trunc_header. Qed.
Print Assumptions C09_tc_iff.

(* ... and always retains a single question that fits next to the OPT record. *)
Theorem C09_question_kept : forall (size : nat) (m : msg) (q : question),
  m_qs m = [q] -> 12 + q_len q + opt_len m <= eff_size size -> m_qs (trunc size m) = [q].
Proof. exact trunc_question. Qed.
Print Assumptions C09_question_kept.

(* The executable oracle that the correspondence check evaluates on the implementation's output holds of the
   model's uncompressed output, for every message and limit. *)
Theorem C09_oracle_plain : forall (size : nat) (m : msg), wf_msg m -> 0 < size -> opt_len m + 12 <= eff_size size ->
  spec_packsize false size m (plain_bytes (trunc size m)) = true.
Proof. exact spec_packsize_plain. Qed.
Print Assumptions C09_oracle_plain.

(* The listeners' limits: a UDP response never exceeds max(512, the size the client advertised in its (last) OPT
   record) — 512 when the query has no OPT — nor the 65507 octets a datagram can carry (fix D20: a larger response used
   to be packed untruncated and could not be sent at all), a DoH body never exceeds 65535 octets, and a TCP/DoT/DoQ frame is one
   2-octet prefix equal to the body length followed by a body of at most 65535 octets.  (r is any well-formed response
   whose OPT record, if any, is small: the router's own OPT is 11 octets.) *)
Theorem C09_listener_limits : forall (l : listener) (q r : msg), wf_msg r -> opt_len r + 12 <= 512 ->
  (512 <= client_udp_size q)%N /\ (has_opt q = false -> client_udp_size q = 512%N) /\
  (client_udp_size q <= N.max 512 (advertised_size q))%N /\ (client_udp_size q <= 65507)%N /\
  exists b, respond l q r = [b] /\
            match l with
            | LUdp => length b <= N.to_nat (client_udp_size q)
            | LHttp => length b <= max_size
            | LTcp => exists body, b = be16n (length body) ++ body /\ length body <= max_size
            end.
Proof.
  intros l q r Hw Ho. split; [apply client_udp_size_ge|]. split; [apply client_udp_size_no_opt|].
  split; [apply client_udp_size_le|]. split; [apply client_udp_size_le|now apply respond_size].
Qed.
Print Assumptions C09_listener_limits.

(* The refusal path (limiter / per-connection concurrency limit): udpServer.handleMsg and handleConn pack the REFUSED
   response with size 0, i.e. WITHOUT a limit.  That is safe because makeEmptyRespM copies at most one question: the
   response is one message of at most 271 octets on UDP and DoH (below 512) and one correctly prefixed frame on the
   stream listeners, whatever the refused query looked like (many questions, long names, any sections). *)
Theorem C09_refusal_small : forall (l : listener) (q : msg), wf_msg q ->
  exists b, refuse l q = [b] /\
            match l with
            | LTcp => exists body, b = be16n (length body) ++ body /\ length body <= max_size
            | _ => length b <= 271
            end.
Proof. exact refuse_size. Qed.
Print Assumptions C09_refusal_small.

(* With compression ON (what the listeners use), for EVERY well-formed message: the
   size-limited encoding decodes cleanly, whatever follows it — the header counts are the records present —, to a
   message whose header is the original with TC := TC || (something omitted), whose questions, answers and
   authorities are order-preserving sublists of the original ones (records compared by view: everything except the
   stored RDLENGTH), and whose additionals are a sublist of the non-OPT additionals followed by the OPT record.
   (The size bound, totality and "fits untouched" above already hold with compression.) *)
Theorem C09_compressed_wellformed : forall (size : nat) (m : msg) (trailing : list N),
  wf_msg m -> 0 < size ->
  exists out m' kq ka kn kr,
    pack_msg (msg_len m) true size m = Ok out /\ unpack_msg (out ++ trailing) = Ok m' /\
    sublist kq (m_qs m) /\ sublist ka (m_an m) /\ sublist kn (m_ns m) /\ sublist kr (snd (pop_opt (m_ar m))) /\
    m_qs m' = kq /\ map rr_view (m_an m') = map rr_view ka /\ map rr_view (m_ns m') = map rr_view kn /\
    map rr_view (m_ar m') = map rr_view (kr ++ opt_list m) /\
    m_hdr m' = set_tc (m_hdr m) (h_tc (m_hdr m) ||
                 negb ((length kq =? length (m_qs m)) && (length ka =? length (m_an m)) &&
                       (length kn =? length (m_ns m)) && (length kr =? length (snd (pop_opt (m_ar m)))))).
Proof. exact compressed_truncated_all. Qed.
Print Assumptions C09_compressed_wellformed.

(* non-vacuity: 60 A records at limit 512 are truncated to 28 with TC set, 11-octet OPT retained *)
Definition ex_rr (i : N) : rr := mkRR [1; 97]%N 1 1 60 4 (RA [10; 0; 0; i]%N).
Definition ex_opt : rr := mkRR [] 41 1232 0 0 (RRaw []).
Definition ex_msg : msg :=
  mkMsg (mkHeader 7 true 0 false false true true false false 0) [mkQuestion [1; 97]%N 1 1]
        (map (fun i => ex_rr (N.of_nat i)) (seq 0 60)) [] [ex_opt].
Example C09_example :
  length (m_an (trunc 512 ex_msg)) = 28 /\ h_tc (m_hdr (trunc 512 ex_msg)) = true /\
  m_ar (trunc 512 ex_msg) = [ex_opt] /\ length (plain_bytes (trunc 512 ex_msg)) = 506 /\ msg_len ex_msg = 1050.
Proof. vm_compute. repeat split. Qed.
