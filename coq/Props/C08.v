(* C08 — cached answers age correctly and expire on time.
   Only statements; the model is Cache/CachePolicy.v, the proofs live in Cache/CachePolicyProofs.v.

   Reading guide.  Times and durations are ns (Z); [mx] is cacheCtl.maximumTtl (= init_max_ttl of the configured
   seconds); a history is any list of Tick / Store / StoreAt / Get / Collect / Evict events cp_run from the empty backend;
   the "fetch instant" of the property is the cp_entry's storedTime (time.Now() inside cacheCtl.Store, as the property's
   anchor says).  [EvStore s eps k (Some m) true] is a Store call at wall time s of the upstream response m under key k
   whose value packed successfully.  [EvStoreAt now s x k m nx] is MemoryCache.Store(k, storedTime = s, expireTime = x, m,
   nx) called at wall time now - what cacheCtl.Get does when it promotes a redis hit into the memory cache with the
   ORIGINAL storedTime / expireTime (s far in the past).  [hit_src mx evs k m s x]: m was supplied for k by a Store
   event at s (then x = s + lifetime of m) or by a StoreAt event with exactly these s and x. *)
From Mos Require Import Base.Prelude Codec.Msg Cache.CachePolicy Cache.CachePolicyProofs Cache.CacheTier Cache.CacheTierProofs.
Local Open Scope Z_scope.

(* ------------------------------------------------------------------ TTL ageing *)

(* SubtractTTL, for ALL messages and deltas: per record, OPT is untouched, every other record changes only in its TTL,
   which becomes max 1 (ttl - delta); header, questions and section lengths are unchanged. *)
Theorem C08_subtract_ttl : forall (delta : N) (m : msg),
  Forall2 (fun r r' => if cp_is_opt r then r' = r else r' = set_ttl r (N.max 1 (r_ttl r - delta)))
          (rrs m) (rrs (subtract_ttl delta m)) /\
  m_hdr (subtract_ttl delta m) = m_hdr m /\ m_qs (subtract_ttl delta m) = m_qs m /\
  length (m_an (subtract_ttl delta m)) = length (m_an m) /\
  length (m_ns (subtract_ttl delta m)) = length (m_ns m) /\
  length (m_ar (subtract_ttl delta m)) = length (m_ar m).
Proof. exact subtract_ttl_spec. Qed.
Print Assumptions C08_subtract_ttl.

(* In EVERY history, a cache hit at time t returns the response m that some Store / StoreAt event of that history
   supplied for that key with storedTime s (never a truncated one through cacheCtl.Store), aged by delta = uint32(whole
   seconds of t - s): every non-OPT record has ttl' = max 1 (ttl - delta) - hence <= max 1 (upstream ttl - whole seconds
   elapsed since the ORIGINAL fetch, also for a promoted entry) -, OPT records and everything else are untouched; and
   delta is exactly floor((t - s) / 1 s) while 0 <= t - s < 2^32 s. *)
Theorem C08_ttl_bound : forall mx clk0 evs t k st' m' s x,
  cachectl_get (fst (cp_run mx (init_state clk0) evs)) t k = (st', OHit m' s x) ->
  exists m,
    ((exists eps, In (EvStore s eps k (Some m) true) evs /\ h_tc (m_hdr m) = false /\ x = s + msg_lifetime mx m) \/
     (exists now nx, In (EvStoreAt now s x k m nx) evs)) /\
    m' = subtract_ttl (elapsed_secs t s) m /\
    Forall2 (fun r r' => if cp_is_opt r then r' = r
                         else r' = set_ttl r (N.max 1 (r_ttl r - elapsed_secs t s))) (rrs m) (rrs m') /\
    m_hdr m' = m_hdr m /\ m_qs m' = m_qs m /\
    (0 <= t - s < two32 * SECOND -> Z.of_N (elapsed_secs t s) = (t - s) / SECOND).
Proof. exact hit_ttl_bound. Qed.
Print Assumptions C08_ttl_bound.

(* one record of an aged message, spelled out *)
Theorem C08_ttl_record : forall delta r r', rr_aged delta r r' ->
  (cp_is_opt r = true -> r' = r) /\
  (cp_is_opt r = false -> r_ttl r' = N.max 1 (r_ttl r - delta) /\ (r_ttl r' <= N.max 1 (r_ttl r - delta))%N /\ (1 <= r_ttl r')%N) /\
  r_name r' = r_name r /\ r_type r' = r_type r /\ r_class r' = r_class r /\ r_len r' = r_len r /\ r_data r' = r_data r.
Proof. exact rr_aged_bound. Qed.
Print Assumptions C08_ttl_record.

(* ------------------------------------------------------------------ lifetime table *)

(* GetMinimalTTL: the smallest TTL over the non-OPT records of all three sections (OPT excluded), a uint32 *)
Theorem C08_min_ttl : forall m u,
  get_minimal_ttl m = (u, true) ->
  (u <= u32max)%N /\
  (forall r, In r (rrs m) -> cp_is_opt r = false -> (u <= r_ttl r)%N) /\
  ((exists r, In r (rrs m) /\ cp_is_opt r = false /\ r_ttl r = u) \/
   (u = u32max /\ exists r, In r (rrs m) /\ cp_is_opt r = false)).
Proof. exact get_minimal_ttl_some. Qed.
Print Assumptions C08_min_ttl.

Theorem C08_min_ttl_none : forall m u,
  get_minimal_ttl m = (u, false) -> u = 0%N /\ forall r, In r (rrs m) -> cp_is_opt r = true.
Proof. exact get_minimal_ttl_none. Qed.
Print Assumptions C08_min_ttl_none.

(* no overflow: time.Duration(u) * time.Second is exact in int64 for every uint32 u (2^32 - 1 included) *)
Theorem C08_no_overflow : forall u, (u <= u32max)%N ->
  dur_of_secs u = Z.of_N u * SECOND /\ 0 <= dur_of_secs u < 9223372036854775808.
Proof. intros u H. split; [exact (dur_of_secs_exact u H)|exact (dur_of_secs_range u H)]. Qed.
Print Assumptions C08_no_overflow.

(* the lifetime the Store switch computes, in closed form, for every rcode / record presence / uint32 min TTL / maximum *)
Theorem C08_lifetime_exact : forall rcode has u mx, (u <= u32max)%N ->
  lifetime rcode has u mx =
  Z.min mx (Z.max SECOND
    (if (rcode =? RCodeNameError)%N then (if has then Z.min (30 * SECOND) (Z.of_N u * SECOND) else 30 * SECOND)
     else if (rcode =? RCodeServerFailure)%N then (if has then Z.min (1 * SECOND) (Z.of_N u * SECOND) else 1 * SECOND)
     else if (rcode =? RCodeSuccess)%N then (if has then Z.of_N u * SECOND else 30 * SECOND)
     else (if has then Z.min (5 * SECOND) (Z.of_N u * SECOND) else 5 * SECOND))).
Proof. exact lifetime_exact. Qed.
Print Assumptions C08_lifetime_exact.

(* The property's table, for ALL messages (any TTL vector incl. 0 and 2^32-1, any rcode) and any positive maximum:
   0 < L <= maximum; >= 1 s when the maximum is; <= 30 s for NXDOMAIN and for record-less answers (OPT does not count
   as a record); <= 1 s for SERVFAIL; <= 5 s for the other error codes; for NOERROR with records no larger than the
   (1 s-floored) TTL of ANY of its non-OPT records, i.e. the smallest one. *)
Theorem C08_lifetime_table : forall mx m, 0 < mx ->
  let L := msg_lifetime mx m in
  let rcode := h_rcode (m_hdr m) in
  0 < L <= mx /\
  (SECOND <= mx -> SECOND <= L) /\
  (rcode = RCodeNameError -> L <= 30 * SECOND) /\
  (rcode = RCodeServerFailure -> L <= 1 * SECOND) /\
  (rcode <> RCodeSuccess -> rcode <> RCodeNameError -> rcode <> RCodeServerFailure -> L <= 5 * SECOND) /\
  ((forall r, In r (rrs m) -> cp_is_opt r = true) -> L <= 30 * SECOND) /\
  (rcode = RCodeSuccess -> forall r, In r (rrs m) -> cp_is_opt r = false -> L <= Z.max SECOND (Z.of_N (r_ttl r) * SECOND)).
Proof. exact msg_lifetime_table. Qed.
Print Assumptions C08_lifetime_table.

(* the configured maximum: default 6 h when the setting is absent / <= 0; always a positive whole number of seconds
   (for every setting whose product with 10^9 fits int64), so every lifetime is a whole number of seconds >= 1 s *)
Theorem C08_max_ttl_config : forall c, -9223372036 <= c <= 9223372036 ->
  (c <= 0 -> init_max_ttl c = 6 * 3600 * SECOND) /\
  (0 < c -> init_max_ttl c = c * SECOND) /\
  SECOND <= init_max_ttl c /\ init_max_ttl c mod SECOND = 0 /\
  forall m, msg_lifetime (init_max_ttl c) m mod SECOND = 0 /\ SECOND <= msg_lifetime (init_max_ttl c) m.
Proof.
  intros c H. destruct (init_max_ttl_whole c H) as [H1 H2].
  split; [intros; apply init_max_ttl_default; lia|].
  split; [intros; apply init_max_ttl_conf; lia|].
  split; [exact H1|]. split; [exact H2|].
  intros m. split; [apply msg_lifetime_whole; exact H2|apply msg_lifetime_ge_1s; exact H1].
Qed.
Print Assumptions C08_max_ttl_config.

(* ------------------------------------------------------------------ expiry *)

(* Clock model (ev_ok / hist_ok): at every Store the backend call happens less than 1 s after time.Now(), the otter
   clock (whole seconds, published by a 1 s ticker) is not ahead of the wall clock and clock + TTL does not wrap
   uint32; at every Get the clock lags the wall clock by less than [lag].  otter's ticker gives lag = 1 s (+ scheduling
   jitter) when times are counted from the ticker's phase, and < 2 s from any origin.
   Then in EVERY history a hit at time t on an cp_entry stored at s with lifetime L has t < s + L + lag:
   nothing is served at t >= s + L + 2 s.  (Rounding the TTL up to whole clock seconds costs nothing extra because
   otter expires at expiration <= now.) *)
Theorem C08_expiry : forall lag mx clk0 evs t k st' m' s x,
  lag <= 2 * SECOND -> SECOND <= mx ->
  hist_ok lag mx (init_state clk0) (evs ++ [EvGet t k]) ->
  cachectl_get (fst (cp_run mx (init_state clk0) evs)) t k = (st', OHit m' s x) ->
  t < x + 2 * SECOND /\
  exists m, (exists eps, In (EvStore s eps k (Some m) true) evs /\ h_tc (m_hdr m) = false /\
                         x = s + msg_lifetime mx m /\ t < s + msg_lifetime mx m + 2 * SECOND) \/
            (exists now nx, In (EvStoreAt now s x k m nx) evs).
Proof.
  intros lag mx clk0 evs t k st' m' s x Hlag Hmx Hok H.
  destruct (hit_before_expiry lag mx clk0 evs t k st' m' s x Hmx Hok H) as (Ht & m & Hs).
  assert (Ht2 : t < x + 2 * SECOND) by (apply Z.lt_le_trans with (x + lag); [exact Ht|apply Zplus_le_compat_l; exact Hlag]).
  split; [exact Ht2|]. exists m. destruct Hs as [(eps & Hin & Htc & Hx)|Hat]; [left|right; exact Hat].
  exists eps. rewrite <- Hx. auto.
Qed.
Print Assumptions C08_expiry.

(* the same with the lag kept as a parameter (lag = 1 s: the ideal ticker) *)
Theorem C08_expiry_lag : forall lag mx clk0 evs t k st' m' s x,
  SECOND <= mx ->
  hist_ok lag mx (init_state clk0) (evs ++ [EvGet t k]) ->
  cachectl_get (fst (cp_run mx (init_state clk0) evs)) t k = (st', OHit m' s x) ->
  t < x + lag /\ exists m, hit_src mx evs k m s x.
Proof. exact hit_before_expiry. Qed.
Print Assumptions C08_expiry_lag.

(* The promotion clause (round 2).  MemoryCache.Store takes storedTime and expireTime as separate inputs; the lifetime
   it hands to the backend is time.Until(expireTime).  So an entry stored with ANY storedTime - in particular the
   original fetch instant of an answer promoted from redis long after it was fetched - is never served at or after
   expireTime + 2 s.  hist_ok asks of a StoreAt only that the call is not made 1 s or more after expireTime and that the
   backend clock is not ahead of the wall clock; it says nothing about storedTime. *)
Theorem C08_expiry_any_stored : forall lag mx clk0 evs t k st' m' s x,
  lag <= 2 * SECOND -> SECOND <= mx ->
  hist_ok lag mx (init_state clk0) (evs ++ [EvGet t k]) ->
  cachectl_get (fst (cp_run mx (init_state clk0) evs)) t k = (st', OHit m' s x) ->
  forall now m nx, In (EvStoreAt now s x k m nx) evs -> t < x + 2 * SECOND.
Proof.
  intros lag mx clk0 evs t k st' m' s x Hlag Hmx Hok H now m nx Hin.
  apply Z.lt_le_trans with (x + lag); [exact (store_at_expiry lag mx clk0 evs t k st' m' s x Hmx Hok H now m nx Hin)|].
  apply Zplus_le_compat_l. exact Hlag.
Qed.
Print Assumptions C08_expiry_any_stored.

(* ... and the variant that restarts the lifetime at promotion (ttl := expireTime - storedTime, equal to
   time.Until(expireTime) only when storedTime = now) is REFUTED: with storedTime 10 s in the past the entry it
   creates is still live under an ideal clock (lag < 1 s) 9.5 s after expireTime, and it violates the invariant
   (entry_clk) on which C08_expiry rests. *)
Theorem C08_restarted_lifetime_refuted :
  exists clk now stored expire clk' t v,
    Z.of_N clk * SECOND <= now /\ - SECOND < expire - now /\ stored <= now /\
    t - SECOND < Z.of_N clk' * SECOND /\
    has_expired clk' (mkEntry stored expire v true (otter_expiration clk (expire - stored))) = false /\
    expire + 2 * SECOND <= t /\
    ~ entry_clk (mkEntry stored expire v true (otter_expiration clk (expire - stored))).
Proof. exact restarted_lifetime_serves_stale. Qed.
Print Assumptions C08_restarted_lifetime_refuted.

(* a promotion is set-if-absent: it never displaces what the memory cache already holds for the key (C08_negative_nx
   below covers it: neg_keeps has a StoreAt clause) *)

(* ------------------------------------------------------------------ the two-tier cache: memory + shared redis (round 2) *)

(* Model Cache/CacheTier.v: cacheCtl with both backends.  Store writes the memory cache and (asynchronously, SET [NX] PX)
   redis; Get asks the memory cache, then redis, and PROMOTES a redis hit into the memory cache with the instants read
   from redis (the original ones, cut to whole Unix seconds); the memory cache and redis may lose any key at any time
   (CtDrop: eviction / restart; CtRedisDrop), other proxy instances write the same redis (CtForeign).
   In EVERY such history (clock assumptions as before, ct_hist_ok; nothing assumed about foreign stores or drops), a hit
   at wall time t - from either tier, however late in its life the answer was copied into the memory cache - reports
   an expireTime x with t < x + 2 s. *)
Theorem C08_tier_expiry : forall lag mx clk0 evs t k st' m' s x,
  SECOND <= lag <= 2 * SECOND -> SECOND <= mx ->
  ct_hist_ok lag mx (ct_init clk0) (evs ++ [CtGet t k]) ->
  ct_get (fst (ct_run mx (ct_init clk0) evs)) t k = (st', OHit m' s x) ->
  t < x + 2 * SECOND.
Proof.
  intros lag mx clk0 evs t k st' m' s x [Hl1 Hl2] Hmx Hok H.
  apply Z.lt_le_trans with (x + lag); [exact (ct_hit_before_expiry lag mx clk0 evs t k st' m' s x Hmx Hl1 Hok H)|].
  apply Zplus_le_compat_l. exact Hl2.
Qed.
Print Assumptions C08_tier_expiry.

(* ... and (s, x) are the instants of an answer m that this proxy stored for this key at s0 (then s = s0, x = s0 + lifetime,
   or both cut to the whole second when the answer came back through redis) or that another instance stored; the served
   message is m aged by the whole seconds since s.  So x <= s0 + lifetime and s <= s0: with C08_tier_expiry nothing is
   served at s0 + lifetime + 2 s or later, and every served TTL is <= max 1 (ttl - whole seconds since the fetch). *)
Theorem C08_tier_ttl_bound : forall mx clk0 evs t k st' m' s x,
  ct_get (fst (ct_run mx (ct_init clk0) evs)) t k = (st', OHit m' s x) ->
  exists m,
    ((exists s0 eps, In (CtStore s0 eps k (Some m) true) evs /\ h_tc (m_hdr m) = false /\
        ((s = s0 /\ x = s0 + msg_lifetime mx m) \/ (s = unix_floor s0 /\ x = unix_floor (s0 + msg_lifetime mx m)))) \/
     (exists now s0 x0 nx, In (CtForeign now s0 x0 k m nx) evs /\ s = unix_floor s0 /\ x = unix_floor x0)) /\
    m' = subtract_ttl (elapsed_secs t s) m /\
    Forall2 (fun r r' => if cp_is_opt r then r' = r
                         else r' = set_ttl r (N.max 1 (r_ttl r - elapsed_secs t s))) (rrs m) (rrs m') /\
    m_hdr m' = m_hdr m /\ m_qs m' = m_qs m /\
    (0 <= t - s < two32 * SECOND -> Z.of_N (elapsed_secs t s) = (t - s) / SECOND).
Proof. exact ct_hit_ttl_bound. Qed.
Print Assumptions C08_tier_ttl_bound.

Theorem C08_unix_floor : forall t, unix_floor t <= t < unix_floor t + SECOND.
Proof. intros t. split; [apply unix_floor_le|apply unix_floor_gt]. Qed.
Print Assumptions C08_unix_floor.

(* ------------------------------------------------------------------ round 4: set-if-absent in BOTH tiers *)

(* [ctc_store hm] / [ctc_get hm] / [ctc_run hm]: cacheCtl with the redis backend and, iff hm, a memory backend
   (hm = true is the two-tier system of C08_tier_expiry: ctc_run true = ct_run).
   A Store of an error response (rcode <> 0) is set-if-absent in both tiers: it leaves the memory tier exactly as it was
   when that holds a node for the key (live, or expired and uncollected), and it leaves the redis tier exactly as it
   was when that holds a live value for the key - in every state, for every configuration. *)
Theorem C08_tier_negative_nx : forall hm mx st t eps k m pk,
  negative m = true ->
  let st1 := fst (ctc_store hm mx st t eps k (Some m) pk) in
  (forall e, cp_find k (st_map (ct_mem st)) = Some e -> ct_mem st1 = ct_mem st) /\
  (forall e, ct_rfind k (ct_red st) = Some e -> t + eps < re_dead e -> ct_red st1 = ct_red st).
Proof. exact tier_negative_keeps. Qed.
Print Assumptions C08_tier_negative_nx.

(* ... at every step of EVERY history (stores, lookups with promotion, drops in either tier, foreign stores, ticks) *)
Theorem C08_tier_negative_nx_history : forall hm mx evs st, ct_steps_sat (ct_neg_keeps hm mx) hm mx st evs.
Proof. exact tier_negative_nx_history. Qed.
Print Assumptions C08_tier_negative_nx_history.

Theorem C08_tier_config_true : forall mx evs st, ctc_run true mx st evs = ct_run mx st evs.
Proof. exact ctc_run_true. Qed.
Print Assumptions C08_tier_config_true.

(* redis-only configuration, as the client sees it: while redis holds a live answer for the key, storing an error
   response for that key changes the result of no later lookup (of any key, at any time) *)
Theorem C08_redis_only_error_invisible : forall mx st t eps k m pk e,
  negative m = true -> ct_rfind k (ct_red st) = Some e -> t + eps < re_dead e ->
  forall t2 k2, snd (ctc_get false (fst (ctc_store false mx st t eps k (Some m) pk)) t2 k2) = snd (ctc_get false st t2 k2).
Proof. exact redis_only_error_invisible. Qed.
Print Assumptions C08_redis_only_error_invisible.

(* redis-only configuration, expiry: no clock assumption is needed (redis expires on the wall clock; the reported
   expireTime is the true one cut to the whole second) *)
Theorem C08_redis_only_expiry : forall mx clk0 evs t k st' m' s x,
  ctc_get false (fst (ctc_run false mx (ct_init clk0) evs)) t k = (st', OHit m' s x) -> t < x + SECOND.
Proof. exact redis_only_hit_before_expiry. Qed.
Print Assumptions C08_redis_only_expiry.

(* ------------------------------------------------------------------ round 6: the command stream of the redis tier *)

(* What the redis tier SENDS.  [ct_store_cmd mx t eps k resp pk] is the command setLoop builds for a cacheCtl.Store at
   wall time t whose AsyncStore runs eps later.  Whenever a command is sent at all, the response is present, not
   truncated and packed, and the command is
        SET key value [NX]  PX p
   with NX iff the response is an error response (rcode <> 0), and p the whole milliseconds of (policy lifetime - eps):
   EVERY SET carries a PX, and that PX is the lifetime of the policy table (C08_lifetime_table) - for plain and for
   set-if-absent stores alike. *)
Theorem C08_tier_store_command : forall mx t eps k resp pk c,
  ct_store_cmd mx t eps k resp pk = Some c ->
  exists m px, resp = Some m /\ h_tc (m_hdr m) = false /\ pk = true /\
    c = RSet k (negative m) (Some px) /\ 10 < px /\
    px * MILLI <= msg_lifetime mx m - eps < (px + 1) * MILLI.
Proof. exact store_cmd_shape. Qed.
Print Assumptions C08_tier_store_command.

(* ... and the redis tier of the model after a Store IS the server having executed exactly that command (SET [NX] PX
   semantics: [redis_exec]), in both configurations: C08_tier_expiry / C08_redis_only_expiry / C08_tier_negative_nx are
   statements about the effect of this command stream on a server that honours NX and PX. *)
Theorem C08_tier_store_is_command : forall hm mx st t eps k resp pk forever,
  ct_red (fst (ctc_store hm mx st t eps k resp pk)) =
  match ct_store_cmd mx t eps k resp pk with
  | None => ct_red st
  | Some c =>
    match resp with
    | Some m => redis_exec (ct_red st) (t + eps) (unix_floor t) (unix_floor (t + msg_lifetime mx m)) m c forever
    | None => ct_red st
    end
  end.
Proof. exact store_red_is_exec. Qed.
Print Assumptions C08_tier_store_is_command.

(* a key written by the command of a Store is gone from the server before fetch + lifetime *)
Theorem C08_tier_command_expiry : forall mx t eps k m pk c r forever e t2,
  0 <= eps -> ct_store_cmd mx t eps k (Some m) pk = Some c ->
  redis_lookup (redis_exec r (t + eps) (unix_floor t) (unix_floor (t + msg_lifetime mx m)) m c forever) t2 k = Some e ->
  re_msg e = m -> ct_rfind k r = None ->
  t2 < t + msg_lifetime mx m.
Proof. exact store_cmd_deadline. Qed.
Print Assumptions C08_tier_command_expiry.

(* REFUTED: a tier whose set-if-absent store sends  SET key value NX  WITHOUT PX.  On a server that (like redis) keeps
   a key without expiry for ever - beyond every horizon [forever] - the (error) answer is served at every later time:
   in particular lifetime + 2 s after the fetch, whatever the lifetime of the policy table was. *)
Theorem C08_nx_without_px_refuted : forall r now s x v k forever t2,
  ct_rfind k r = None -> now <= t2 < now + forever ->
  redis_lookup (redis_exec r now s x v (RSet k true None) forever) t2 k = Some (mkREntry s x v (now + forever)).
Proof. exact nx_without_px_serves_forever. Qed.
Print Assumptions C08_nx_without_px_refuted.

(* ------------------------------------------------------------------ never cached *)

(* an absent (nil) or truncated response: Store returns before touching the backend, in every cp_state *)
Theorem C08_not_cached : forall mx st t eps k resp pk,
  cacheable resp = false -> cachectl_store mx st t eps k resp pk = (st, OSkipped).
Proof. exact store_not_cacheable. Qed.
Print Assumptions C08_not_cached.

(* conversely, whenever a Store changes the backend the response was present and not truncated *)
Theorem C08_store_effect : forall mx st t eps k resp pk st' o,
  cachectl_store mx st t eps k resp pk = (st', o) -> st' <> st -> cacheable resp = true.
Proof. exact store_effect. Qed.
Print Assumptions C08_store_effect.

(* router level: of all the ways a request can end (rejected by a rule, cache hit, miss + failed exchange, miss + reply)
   only "miss + the exchange returned a decoded reply" calls Store, with exactly that reply; same for prefetch *)
Theorem C08_only_success_stores : forall p a,
  handle_req_store p = Some a -> exists m, p = PathMiss (UpReply m) /\ a = Some m.
Proof. exact handle_req_store_only_success. Qed.
Print Assumptions C08_only_success_stores.

Theorem C08_prefetch_only_success_stores : forall u a,
  prefetch_store u = Some a -> exists m, u = UpReply m /\ a = Some m.
Proof. exact prefetch_store_only_success. Qed.
Print Assumptions C08_prefetch_only_success_stores.

(* ------------------------------------------------------------------ error responses never displace an cp_entry *)

(* In EVERY history, at EVERY cp_step: a Store of a response with rcode <> 0 onto a key that has an cp_entry (live, or even
   expired but not yet collected) leaves the whole backend cp_state unchanged. *)
Theorem C08_negative_nx : forall mx evs st, steps_sat neg_keeps mx st evs.
Proof. exact negative_nx_history. Qed.
Print Assumptions C08_negative_nx.

(* ... and is invisible to the entire future: deleting that Store from the history changes no later output *)
Theorem C08_negative_noop : forall mx st t eps k m pk e evs,
  negative m = true -> cp_find k (st_map st) = Some e ->
  exists o, cp_run mx st (EvStore t eps k (Some m) pk :: evs) =
            (fst (cp_run mx st evs), o :: snd (cp_run mx st evs)) /\ (o = OSkipped \/ o = OKept (msg_lifetime mx m)).
Proof. exact negative_store_noop. Qed.
Print Assumptions C08_negative_noop.

(* ------------------------------------------------------------------ non-vacuity *)
Definition ex_hdr (rcode : N) (tc : bool) : header := mkHeader 7 true 0 false tc true true false false rcode.
Definition ex_rr (typ ttl : N) : rr := mkRR [1; 97]%N typ 1 ttl 4 (RA [1; 2; 3; 4]%N).
Definition ex_opt : rr := mkRR [] TypeOPT 1232 32768 0 (RRaw []).
Definition ex_msg (rcode : N) (tc : bool) (ttls : list N) : msg :=
  mkMsg (ex_hdr rcode tc) [] (map (ex_rr 1) ttls) [] [ex_opt].
Definition H6 : Z := 6 * 3600 * SECOND.
Definition ttls_of (m : msg) : list N := map r_ttl (rrs m).

(* lifetime table on boundary TTLs: 0 -> 1 s; 2^32-1 -> capped at 6 h (no overflow); NXDOMAIN/record-less 30 s;
   SERVFAIL 1 s; REFUSED 5 s; the OPT TTL (32768) never counts *)
Example C08_example_lifetimes :
  msg_lifetime H6 (ex_msg 0 false [0]%N) = 1 * SECOND /\
  msg_lifetime H6 (ex_msg 0 false [4294967295; 2147483648]%N) = H6 /\
  msg_lifetime (init_max_ttl 0) (ex_msg 0 false [4294967295]%N) = 21600 * SECOND /\
  msg_lifetime (init_max_ttl 4294967296) (ex_msg 0 false [4294967295]%N) = 4294967295 * SECOND /\
  msg_lifetime H6 (ex_msg 0 false [300; 7; 4294967295]%N) = 7 * SECOND /\
  msg_lifetime H6 (ex_msg 0 false []) = 30 * SECOND /\
  msg_lifetime H6 (ex_msg 3 false []) = 30 * SECOND /\
  msg_lifetime H6 (ex_msg 3 false [300]%N) = 30 * SECOND /\
  msg_lifetime H6 (ex_msg 3 false [10]%N) = 10 * SECOND /\
  msg_lifetime H6 (ex_msg 2 false [300]%N) = 1 * SECOND /\
  msg_lifetime H6 (ex_msg 5 false [300]%N) = 5 * SECOND /\
  msg_lifetime (3 * SECOND) (ex_msg 5 false [300]%N) = 3 * SECOND.
Proof. vm_compute. repeat split. Qed.

(* a history: clock 5; positive answer (TTLs 0, 3, 2^32-1 + OPT) stored at 5.2 s, lifetime 1 s... here TTL 3 only *)
Definition ex_pos : msg := ex_msg 0 false [3; 10; 4294967295]%N.
Definition ex_nx : msg := ex_msg 3 false [].
Definition ms (x : Z) : Z := x * 1000000.
Definition ex_hist : list event :=
  [ EvTick 5; EvStore (ms 5200) 1000 1 (Some ex_pos) true;
    EvGet (ms 5900) 1;                                     (* hit, delta 0 *)
    EvStore (ms 6000) 1000 1 (Some ex_nx) true;            (* error response: kept *)
    EvTick 6; EvTick 7; EvGet (ms 7300) 1;                 (* hit, delta 2: TTLs 1, 8, 2^32-3; OPT 32768 untouched *)
    EvTick 8; EvGet (ms 8250) 1;                           (* clock 8 = 5 + 3: expired -> miss; the node stays *)
    EvStore (ms 8300) 1000 1 (Some ex_nx) true;            (* expired but uncollected: set-if-absent still refuses *)
    EvCollect 1;                                           (* otter's cleanup removes the expired node *)
    EvStore (ms 8350) 1000 1 (Some ex_nx) true;            (* now absent: the error response is stored, 30 s *)
    EvStore (ms 8400) 1000 1 (Some ex_pos) true;           (* a positive answer replaces it *)
    EvStore (ms 8500) 1000 1 (Some (ex_msg 0 true [3]%N)) true;  (* truncated: skipped *)
    EvStore (ms 8600) 1000 1 None true;                    (* failed exchange never reaches Store; nil is skipped *)
    EvGet (ms 8700) 1 ].

Definition show (o : out) : list Z :=
  match o with
  | OTick => [0] | OEvicted => [1] | OSkipped => [2] | OStored L => [3; L / SECOND] | OKept L => [4; L / SECOND]
  | OMiss => [5] | OHit m s x => 6 :: s / 1000000 :: x / 1000000 :: map Z.of_N (ttls_of m)
  end.

Example C08_example_history :
  map show (snd (cp_run H6 (init_state 0) ex_hist)) =
  [ [0]; [3; 3]; [6; 5200; 8200; 3; 10; 4294967295; 32768]; [4; 30]; [0]; [0];
    [6; 5200; 8200; 1; 8; 4294967293; 32768]; [0]; [5]; [4; 30]; [1]; [3; 30]; [3; 3]; [2]; [2];
    [6; 8400; 11400; 3; 10; 4294967295; 32768] ] /\
  hist_ok SECOND H6 (init_state 0) ex_hist.
Proof. split; [vm_compute; reflexivity|]. apply hist_okb_sound. vm_compute. reflexivity. Qed.

(* promotion: at wall time 100.3 s (clock 100) an answer fetched at 40 s with lifetime 62 s (expire = 102 s) is put into
   the memory cache with its ORIGINAL instants; served at 101.4 s aged by 61 whole seconds (TTLs 300 -> 239, 70 -> 9);
   gone at 102.6 s (clock 102) although only 2.3 s have passed since it entered the memory cache; hist_ok holds *)
Definition ex_promo_hist : list event :=
  [ EvTick 100; EvStoreAt (ms 100300) (ms 40000) (ms 102000) 1 (ex_msg 0 false [300; 70]%N) true;
    EvTick 101; EvGet (ms 101400) 1;
    EvStoreAt (ms 101500) (ms 101500) (ms 901500) 1 ex_nx true;     (* set-if-absent onto a present key: kept *)
    EvTick 102; EvGet (ms 102600) 1 ].

Example C08_example_promotion :
  map show (snd (cp_run H6 (init_state 0) ex_promo_hist)) =
  [ [0]; [3; 1]; [0]; [6; 40000; 102000; 239; 9; 32768]; [4; 800]; [0]; [5] ] /\
  hist_ok SECOND H6 (init_state 0) ex_promo_hist.
Proof. split; [vm_compute; reflexivity|]. apply hist_okb_sound. vm_compute. reflexivity. Qed.

(* two-tier history (Unix phase 0.25 s): a TTL-6 answer stored at 1000.25 s (memory + redis); the memory cache loses it at
   1004.6 s; the Get at 1004.9 s is a redis hit and is promoted with stored = 1000 s, expire = 1006 s (aged by 4 s:
   TTLs 6 -> 2, 300 -> 296); at 1005.6 s the promoted entry is served from memory; at 1008.75 s (clock 1008) nothing is
   served although the entry entered the memory cache only 3.85 s earlier; ct_hist_ok holds *)
Definition ex_tier_hist : list ct_event :=
  [ CtTick 1000; CtStore (ms 1000250) 1000 1 (Some (ex_msg 0 false [6; 300]%N)) true;
    CtTick 1004; CtDrop 1; CtGet (ms 1004900) 1;
    CtTick 1005; CtGet (ms 1005600) 1;
    CtTick 1008; CtGet (ms 1008750) 1 ].

Example C08_example_tier :
  map show (snd (ct_run H6 (ct_init 0) ex_tier_hist)) =
  [ [0]; [3; 6]; [0]; [1]; [6; 1000000; 1006000; 2; 296; 32768]; [0]; [6; 1000000; 1006000; 1; 295; 32768]; [0]; [5] ] /\
  ct_hist_ok SECOND H6 (ct_init 0) ex_tier_hist.
Proof. split; [vm_compute; reflexivity|]. apply ct_hist_okb_sound. vm_compute. reflexivity. Qed.

(* the clock assumption is what bounds the serving time: with a stuck clock (no Tick) the same cp_entry is served forever *)
Example C08_example_stuck_clock :
  map show (snd (cp_run H6 (init_state 5) [EvStore (ms 5200) 1000 1 (Some ex_pos) true; EvGet (ms 999000) 1])) =
  [ [3; 3]; [6; 5200; 8200; 1; 1; 4294966302; 32768] ].
Proof. vm_compute. reflexivity. Qed.

(* router level *)
Example C08_example_router :
  handle_req_store (PathMiss UpFail) = None /\ handle_req_store PathHit = None /\
  handle_req_store (PathMiss (UpReply ex_nx)) = Some (Some ex_nx) /\ prefetch_store UpFail = None.
Proof. repeat split. Qed.

(* Observation outside the property's reach in this sandbox (no redis): MemoryCache.Store called with an expireTime
   2 s or more in the PAST (only the redis-promotion path of cacheCtl.Get can do that, with clock skew between hosts)
   hands otter a negative TTL, which getTTL converts to a wrapped uint32: while otter's clock is still below the
   overshoot (first seconds of the process) the cp_entry is effectively immortal; later it is expired at once.
   Reproduced on the real MemoryCache (docs/notes/C08.md).  cacheCtl.Store itself always passes L - eps > 0. *)
Example C08_observation_past_expiry :
  otter_expiration 0 (-3 * SECOND - 1000) = 4294967294%N /\
  has_expired 4294967293 (mkEntry 0 0 ex_nx true (otter_expiration 0 (-3 * SECOND - 1000))) = false /\
  has_expired 3 (mkEntry 0 0 ex_nx true (otter_expiration 3 (-3 * SECOND - 1000))) = true.
Proof. vm_compute. repeat split. Qed.

(* round 4, redis-only: a TTL-60 answer is stored at 1000.25 s; SERVFAIL, NXDOMAIN and REFUSED answers for the same key are
   stored while it is alive (SET ... NX: refused); the positive answer keeps being served.  The same error stored as a
   PLAIN SET (what another writer without NX does: CtForeign ... false) displaces it: set-if-absent is what protects. *)
Definition ex_pos60 : msg := ex_msg 0 false [60]%N.
Example C08_example_redis_negative :
  map show (snd (ctc_run false H6 (ct_init 0)
    [ CtStore (ms 1000250) 1000 1 (Some ex_pos60) true;
      CtStore (ms 1000500) 1000 1 (Some (ex_msg 2 false [])) true;
      CtStore (ms 1000600) 1000 1 (Some ex_nx) true;
      CtStore (ms 1000700) 1000 1 (Some (ex_msg 5 false [7]%N)) true;
      CtGet (ms 1002300) 1;
      CtForeign (ms 1002400) (ms 1002400) (ms 1007400) 1 (ex_msg 5 false []) false;
      CtGet (ms 1002900) 1 ])) =
  [ [3; 60]; [3; 1]; [3; 30]; [3; 5]; [6; 1000000; 1060000; 58; 32768]; [0]; [6; 1002000; 1007000; 32768] ].
Proof. vm_compute. reflexivity. Qed.

(* OBSERVATION (memory + redis; not claimed either way by the per-tier theorems): when the memory copy of a live positive
   answer has been lost (eviction) and an error response for the key is stored before the next lookup promoted the redis
   copy again, the memory tier has no node for the key, so the error IS stored there, and lookups are served the error
   from memory although redis still holds the live positive answer.  Reproduced on the real cacheCtl (docs/notes/C08.md,
   round 4). *)
Example C08_observation_cross_tier :
  map show (snd (ctc_run true H6 (ct_init 0)
    [ CtTick 1000; CtStore (ms 1000250) 1000 1 (Some ex_pos60) true;
      CtDrop 1;
      CtStore (ms 1000500) 1000 1 (Some (ex_msg 5 false [])) true;
      CtGet (ms 1000900) 1 ])) =
  [ [0]; [3; 60]; [1]; [3; 5]; [6; 1000500; 1005500; 32768] ].
Proof. vm_compute. reflexivity. Qed.

(* round 6: the commands of one positive and three error answers (default maximum): SET PX 59999 / SET NX PX 999 (SERVFAIL)
   / SET NX PX 29999 (NXDOMAIN) / SET NX PX 4999 (REFUSED); a SERVFAIL stored NX without PX is still there an hour later *)
Definition show_cmd (c : option redis_cmd) : list Z :=
  match c with
  | Some (RSet _ nx (Some p)) => [if nx then 1 else 0; p]
  | Some (RSet _ nx None) => [if nx then 1 else 0; -1]
  | _ => []
  end.
Example C08_example_commands :
  map (fun m => show_cmd (ct_store_cmd H6 (ms 1000250) 1000 1 (Some m) true))
      [ex_pos60; ex_msg 2 false []; ex_nx; ex_msg 5 false [7]%N; ex_msg 0 true [60]%N] =
  [ [0; 59999]; [1; 999]; [1; 29999]; [1; 4999]; [] ] /\
  (exists e, redis_lookup (redis_exec [] (ms 1000250) (ms 1000000) (ms 1001000) (ex_msg 2 false []) (RSet 1 true None)
                                      (24 * 3600 * SECOND)) (ms 4600250) 1 = Some e) /\
  redis_lookup (redis_exec [] (ms 1000250) (ms 1000000) (ms 1001000) (ex_msg 2 false []) (RSet 1 true (Some 999))
                           (24 * 3600 * SECOND)) (ms 1001250) 1 = None.
Proof. vm_compute. split; [reflexivity|]. split; [eexists; reflexivity|reflexivity]. Qed.
