(* C03 — every query gets exactly one matching response whatever the upstream does (the handler logic).
   Only statements; proofs in Router/RouterProofs.v.  [handle matches rules ecs up m client] is the model of
   handleServerReq/handleReqMsg/handleReq/forward: [matches] evaluates domain sets, [up u w] is what upstream #u's
   exchange returns for wire query w: a decoded reply ([UReply]) or a failure ([UFail]: error, undecodable reply,
   connection failure, silence until the deadline — the transports turn all of these into an error, C14/C01).
   [respond l m r] is mustHaveRespB + the listener's single write. *)
From Mos Require Import Base.Prelude Codec.Name Codec.Msg Codec.WfProofs Router.Rules Router.Edns Router.Router Router.RouterSpec
  Router.RouterProofs Cache.CachePolicy Router.Cached Router.CachedProofs.

(* The response carries the query's ID, opcode and RD bit, QR=1 and RA=1 — for every query, configuration,
   upstream behaviour and client address. *)
Theorem C03_header : forall matches rules ecs up (m : msg) (client : addr),
  let r := fst (handle matches rules ecs up m client) in
  h_id (m_hdr r) = h_id (m_hdr m) /\ h_opcode (m_hdr r) = h_opcode (m_hdr m) /\ h_resp (m_hdr r) = true /\
  h_ra (m_hdr r) = true /\ h_rd (m_hdr r) = h_rd (m_hdr m).
Proof. exact handle_header. Qed.
Print Assumptions C03_header.

(* Unsupported queries (QR=1, RD=0, opcode <> QUERY, question count <> 1): NOTIMP, at most the first question
   copied, no records, nothing forwarded. *)
Theorem C03_unsupported : forall matches rules ecs up (m : msg) (client : addr), unsupported m = true ->
  let r := fst (handle matches rules ecs up m client) in
  h_rcode (m_hdr r) = RCodeNotImp /\ m_qs r = firstn 1 (m_qs m) /\ m_an r = [] /\ m_ns r = [] /\ m_ar r = [] /\
  snd (handle matches rules ecs up m client) = [].
Proof. exact handle_unsupported. Qed.
Print Assumptions C03_unsupported.

(* Supported queries: REFUSED when no rule serves it, the rule's rcode for a reject rule, SERVFAIL when the selected
   upstream fails (or the deadline passes: same branch) or replies to another question than the one asked, otherwise
   the upstream's reply relayed (rcode, flags, sections).  Locally generated responses carry exactly the query's
   question, lower-cased. *)
Theorem C03_table : forall matches rules ecs up (m : msg) (client : addr) (q : question) (qs : list question),
  unsupported m = false -> m_qs m = q :: qs ->
  let r := fst (handle matches rules ecs up m client) in let eff := snd (handle matches rules ecs up m client) in
  match decide matches rules (q_name (lower_q q)) with
  | ARefused => h_rcode (m_hdr r) = RCodeRefused /\ m_qs r = [lower_q q] /\ m_an r = [] /\ m_ns r = [] /\ eff = []
  | AReject rc => h_rcode (m_hdr r) = rc /\ m_qs r = [lower_q q] /\ m_an r = [] /\ m_ns r = [] /\ eff = []
  | AForward u =>
    match pack_req ecs (lower_q q) client with
    | Ok w =>
      eff = [EQuery u (Ok w)] /\
      match up u (Ok w) with
      | UFail => h_rcode (m_hdr r) = RCodeServFail /\ m_qs r = [lower_q q] /\ m_an r = [] /\ m_ns r = []
      | UReply rep =>
        if reply_question_ok (lower_q q) rep then
          h_rcode (m_hdr r) = h_rcode (m_hdr rep) /\ m_qs r = m_qs rep /\
          m_an r = m_an rep /\ m_ns r = m_ns rep /\
          h_aa (m_hdr r) = h_aa (m_hdr rep) /\ h_tc (m_hdr r) = h_tc (m_hdr rep) /\
          h_ad (m_hdr r) = h_ad (m_hdr rep) /\ h_cd (m_hdr r) = h_cd (m_hdr rep)
        else h_rcode (m_hdr r) = RCodeServFail /\ m_qs r = [lower_q q] /\ m_an r = [] /\ m_ns r = []
      end
    | _ => h_rcode (m_hdr r) = RCodeServFail /\ eff = []
    end
  end.
Proof. exact handle_table. Qed.
Print Assumptions C03_table.

(* Exactly one response is written per query on every listener kind — also for queries refused by the limiter or
   by the per-connection concurrency limit (the response is produced by a total function: no upstream outcome and
   no deadline checkpoint can leave the handler without one). *)
Theorem C03_one_write : forall (l : listener) (q r : msg), length (respond l q r) = 1 /\ length (refuse l q) = 1.
Proof. intros. split; [apply respond_one|apply refuse_one]. Qed.
Print Assumptions C03_one_write.

(* The question clause, for EVERY query, configuration and upstream behaviour: the response carries no question, or
   exactly one, equal ASCII-case-insensitively to the query's first question.  (Before the fix of finding K4 this was
   refuted: a reply carrying a foreign question was relayed verbatim; [forward] now treats it as a failed exchange.) *)
Theorem C03_question : forall matches rules ecs up (m : msg) (client : addr),
  match m_qs (fst (handle matches rules ecs up m client)), m_qs m with
  | [], _ => True
  | [qr], q :: _ => q_eq_ci qr q = true
  | _, _ => False
  end.
Proof. exact handle_question. Qed.
Print Assumptions C03_question.

(* [q_eq_ci] folds wire-format names octet-wise; on well-formed names that is ToLowerName (label-wise folding) *)
Theorem C03_fold_is_label_fold : forall n, Codec.NameProofs.wf_name n -> to_lower_name n = map lower n.
Proof. exact to_lower_name_wf_fold. Qed.
Print Assumptions C03_fold_is_label_fold.

(* the former K4 witness: a reply about b. to a query about a. is now answered SERVFAIL with the query's question *)
Definition k4_query : msg :=
  mkMsg (mkHeader 7 false 0 false false true false false false 0) [mkQuestion [1; 97]%N 1 1] [] [] [].
Definition k4_reply : msg :=
  mkMsg (mkHeader 7 true 0 false false true true false false 0) [mkQuestion [1; 98]%N 1 1]
        [mkRR [1; 98]%N 1 1 60 4 (RA [6; 6; 6; 6]%N)] [] [].
Example C03_k4_example :
  let r := fst (handle (fun _ _ => false) [mkRule None 0 (Some 0)] false (fun _ _ => UReply k4_reply) k4_query ANone) in
  h_rcode (m_hdr r) = 2%N /\ m_qs r = [mkQuestion [1; 97]%N 1 1] /\ m_an r = [].
Proof. vm_compute. auto. Qed.

(* The same clauses on a CACHING proxy (Router/Cached.v: the request path composed with cacheCtl.Get/Store and the
   prefetch), in every state reachable by any history of (decoded, hence well-formed) requests, prefetches, clock ticks,
   collections and evictions: the header fix-up and the question clause hold for EVERY response, also one served from
   cache (the entry was stored under the key of a question its own question section matches, and the real cache key
   [real_ckey] determines the question: cache_key_injective); and a request makes at most one upstream query, none when
   it is served from cache, and only a cache hit starts a prefetch. *)
Theorem C03_cached : forall matches rules ecs up (mark : addr -> list N) maxttl,
  (forall u w r, up u w = UReply r -> count_opt (m_ar r) <= 1) ->
  (forall c, bytes (mark c)) ->
  forall (clk : N) (evs : list cev) (t ts eps : Z) (m : msg) (client : addr),
  Forall cev_wf evs -> wf_msg m ->
  let st := fst (crun matches rules ecs up (real_ckey mark) maxttl (init_state clk) evs) in
  let o := snd (handle_c matches rules ecs up (real_ckey mark) maxttl st t ts eps m client) in
  let r := co_resp o in
  (h_id (m_hdr r) = h_id (m_hdr m) /\ h_opcode (m_hdr r) = h_opcode (m_hdr m) /\ h_resp (m_hdr r) = true /\
   h_ra (m_hdr r) = true /\ h_rd (m_hdr r) = h_rd (m_hdr m)) /\
  match m_qs r, m_qs m with
  | [], _ => True
  | [qr], q :: _ => q_eq_ci qr q = true
  | _, _ => False
  end /\
  (co_cached o = true -> co_eff o = []) /\ length (co_eff o) <= 1 /\ (co_prefetch o = true -> co_cached o = true).
Proof.
  intros matches rules ecs up mark maxttl H1 Hm clk evs t ts eps m client Hev Hwm st o r.
  pose proof (real_ckey_inj mark Hm) as Hinj.
  assert (Hi : cinv ecs up (real_ckey mark) st)
    by (apply (crun_inv matches rules ecs up (real_ckey mark) maxttl H1 Hinj _ Hev); apply cinv_init).
  split; [apply (handle_c_header matches rules ecs up (real_ckey mark) maxttl)|].
  split; [apply (handle_c_question matches rules ecs up (real_ckey mark) maxttl H1 Hinj _ _ _ _ _ _ Hi Hwm)|].
  apply (handle_c_effects matches rules ecs up (real_ckey mark) maxttl H1 Hinj _ _ _ _ _ _ Hi Hwm).
Qed.
Print Assumptions C03_cached.

(* non-vacuity: a forwarded query whose upstream fails gets SERVFAIL with its own lower-cased question *)
Example C03_example :
  let m := mkMsg (mkHeader 9 false 0 false false true false false false 0) [mkQuestion [1; 65]%N 1 1] [] [] [] in
  let r := fst (handle (fun _ _ => false) [mkRule None 0 (Some 0)] false (fun _ _ => UFail) m ANone) in
  h_rcode (m_hdr r) = 2%N /\ m_qs r = [mkQuestion [1; 97]%N 1 1] /\ h_id (m_hdr r) = 9%N.
Proof. vm_compute. auto. Qed.

(* ---- multi_routes UDP listener: the response leaves from the address the query was sent to (internal/udpcmsg) ------
   A client of a UDP listener (a connected socket, or any resolver that checks the source) matches a response by its
   source address: on a wildcard listener of a multi-homed host the response "matches" only when it leaves from the
   local address the query arrived at.  [cm_enc ms] is ancillary data as the kernel builds it (any list of control
   messages, padded); [cm_kernel_src] is what the kernel reads from the ancillary data of sendmsg. *)
From Mos Require Import Net.Cmsg Net.CmsgProofs.

(* ParseLocalAddr terminates on every octet string *)
Theorem C03_cmsg_parse_total : forall oob : list N, cm_parse oob <> CmFuel.
Proof. exact cm_parse_total. Qed.
Print Assumptions C03_cmsg_parse_total.

(* on kernel-built ancillary data: the destination address of the FIRST PKTINFO message, whatever else is there, and
   never a read past the slice *)
Theorem C03_cmsg_parse_kernel : forall ms : list cm_msg, Forall cm_wf1 ms ->
  cm_parse (cm_enc ms) = cm_first_pktinfo ms /\ cm_parse (cm_enc ms) <> CmUnsafe.
Proof.
  intros ms H. rewrite (cm_parse_kernel ms H). split; [reflexivity|]. apply cm_first_pktinfo_safe.
Qed.
Print Assumptions C03_cmsg_parse_kernel.

(* CmsgPktInfo: one message of CmsgSize octets naming the unmapped address as source, interface index 0 — for every
   valid address and whatever the recycled buffer held *)
Theorem C03_cmsg_pktinfo : forall (b : list N) (a : cm_addr), cm_valid a ->
  exists c, cm_pktinfo b a = Some c /\ cm_kernel_src c = Some (cm_unmap a, 0%N) /\ length c = cm_size a.
Proof. exact cm_pktinfo_kernel. Qed.
Print Assumptions C03_cmsg_pktinfo.

(* the composition the UDP server performs (handleMsg -> writeResp) *)
Theorem C03_cmsg_reply_from_query_dst : forall (b : list N) (ms : list cm_msg) (d : cm_addr),
  Forall cm_wf1 ms -> cm_first_pktinfo ms = CmOk d -> cm_valid d ->
  exists c, cm_reply_oob b (cm_enc ms) = Some c /\ cm_kernel_src c = Some (cm_unmap d, 0%N).
Proof. exact cm_reply_from_query_dst. Qed.
Print Assumptions C03_cmsg_reply_from_query_dst.

Theorem C03_cmsg_reply_none : forall (b : list N) (ms : list cm_msg),
  Forall cm_wf1 ms -> cm_first_pktinfo ms = CmOk CmNone -> cm_reply_oob b (cm_enc ms) = None.
Proof. exact cm_reply_none. Qed.
Print Assumptions C03_cmsg_reply_none.

(* partial: on octets that are NOT kernel-built (a tail of 1..15 octets after a message) the header cast of
   unix.ParseOneSocketControlMessage reads past the slice (ParseLocalAddr tests len(oob), not len(remain)); the kernel
   never produces such data, so no property of the proxy depends on it *)
Theorem C03_cmsg_tail_unsafe_refuted : exists oob : list N, cm_parse oob = CmUnsafe.
Proof. eexists. exact cm_parse_unsafe_witness. Qed.
Print Assumptions C03_cmsg_tail_unsafe_refuted.

Example C03_cmsg_example :
  Forall cm_wf1 cm_ex_ms /\ cm_first_pktinfo cm_ex_ms = CmOk (Cm4 [10; 1; 2; 3]%N) /\ cm_valid (Cm4 [10; 1; 2; 3]%N).
Proof. exact cm_ex_ms_ok. Qed.
