(* C18 — shutdown and failed start-up are orderly.
   Only statements; the models are Net/Shutdown.v and Router/Startup.v, the proofs Net/ShutdownProofs.v and
   Router/StartupProofs.v.  "Reachable" = reached from the initial state by ANY finite sequence of labels
   (any number of dial starts / completions, releases, idle timers, exchange starts, cancellations and
   Close calls, in any order).  "Returns promptly" is timed by the harness, not proved. *)
From Mos Require Import Base.Prelude Net.Shutdown Net.ShutdownProofs Net.ShutdownOwn Net.ShutdownOwnProofs
  Router.Startup Router.StartupProofs Router.StartupInit Router.StartupInitProofs.

(* ------------------------------------------------------------------------------------------------
   Close is total and idempotent: it is always enabled, marks the transport closed, and a second Close
   changes nothing (reuse transport, pipeline transport); router.close is once-only. *)
Theorem C18_close_idempotent :
  (forall s, exists s', r_step s RClose = Some s' /\ rs_closed s' = true /\ r_step s' RClose = Some s') /\
  (forall s, exists s', sdp_step s PClose = Some s' /\ ps_closed s' = true /\ sdp_step s' PClose = Some s') /\
  (forall r, snd (close (fst (close r))) = ([], false)).
Proof.
  split; [|split].
  - intros s. destruct (r_close_total s) as [s' [H1 H2]]. exists s'. repeat split; auto.
    eapply r_close_idempotent; eauto.
  - intros s. destruct (sdp_close_total s) as [s' [H1 H2]]. exists s'. repeat split; auto.
    eapply sdp_close_idempotent; eauto.
  - exact close_once.
Qed.
Print Assumptions C18_close_idempotent.

(* ------------------------------------------------------------------------------------------------
   No leak, reuse transport: in every reachable state after Close every connection that was ever
   registered (or dialled too late) is closed; the only connections a counting dialer can still see open
   are the results of dials that have returned but not yet run their completion step, and that step is
   enabled, closes the connection itself and registers nothing. *)
Theorem C18_no_leak : forall ls s,
  r_run r_init ls = Some s -> rs_closed s = true ->
  (forall k, In k (rs_conns s) -> rc_open k = false) /\
  r_open_count s = length (filter is_returned (rs_tasks s)) /\
  (forall t k, nth_error (rs_tasks s) t = Some k -> rt_stage k = RsReturned ->
     exists s', r_step s (RRegister t) = Some s' /\
                rs_conns s' = rs_conns s ++ [rconn_late] /\
                (forall k', In k' (rs_conns s') -> rc_open k' = false) /\
                (exists k', nth_error (rs_tasks s') t = Some k' /\ rt_stage k' = RsDeliver None) /\
                length (filter is_returned (rs_tasks s')) < length (filter is_returned (rs_tasks s))).
Proof.
  intros ls s H Cl. split; [eapply r_no_leak; eauto|]. split; [eapply r_open_after_close; eauto|].
  intros t k Ek Sk. eapply r_late_dial; eauto.
Qed.
Print Assumptions C18_no_leak.

(* No leak, pipeline transport (connpool): in every reachable state after Pool.Close, a connection that is
   still open is no longer in the open pool and has a closer that is already past "mark closed" (PsCloseB:
   its next step closes the net.Conn) or a pending closer started by the pool's idle trimming / the read loop
   (PsCloseA: two steps).  Those steps are enabled and close it.  Late dial results are closed by their own
   completion step (they enter the table closed: see sdp_step PDialFinish). *)
Theorem C18_no_leak_pipeline : forall ls s,
  sdp_run sdp_init ls = Some s -> ps_closed s = true ->
  forall c k0, nth_error (ps_conns s) c = Some k0 -> pc_open k0 = true ->
    (pc_closed k0 = true /\ has_stage (ps_tasks s) (PsCloseB c)) \/
    (pc_closed k0 = false /\ has_stage (ps_tasks s) (PsCloseA c)).
Proof. exact sdp_no_leak. Qed.
Print Assumptions C18_no_leak_pipeline.

Theorem C18_pipeline_closer_progress : forall s t k c k0,
  nth_error (ps_tasks s) t = Some k -> nth_error (ps_conns s) c = Some k0 ->
  (pt_stage k = PsCloseB c ->
     exists s', sdp_step s (PCloseB t) = Some s' /\
                exists k', nth_error (ps_conns s') c = Some k' /\ pc_open k' = false) /\
  (pt_stage k = PsCloseA c -> pc_closed k0 = false ->
     exists s', sdp_run s [PCloseA t; PCloseB t] = Some s' /\
                exists k', nth_error (ps_conns s') c = Some k' /\ pc_open k' = false).
Proof. exact sdp_closer_progress. Qed.
Print Assumptions C18_pipeline_closer_progress.

(* ------------------------------------------------------------------------------------------------
   Fail, not hang (reuse transport): in every reachable closed state, a caller that is still waiting
   reaches an error by at most two enabled steps, none of which needs the peer or the caller's own
   deadline (dial failure = the transport context cancelled by Close, RIoClosed = the connection was closed
   locally); no caller can be handed a reply any more; a new exchange fails at its first step. *)
Theorem C18_fail_not_hang : forall ls s,
  r_run r_init ls = Some s -> rs_closed s = true ->
  (forall t k, nth_error (rs_tasks s) t = Some k -> rt_res k = None ->
     length (r_fail_path s t) <= 2 /\
     exists s', r_run s (r_fail_path s t) = Some s' /\ r_result s' t = Some false) /\
  (forall l s' t, r_step s l = Some s' -> r_result s t <> Some true -> r_result s' t <> Some true) /\
  (exists s', r_run s [RSpawn; RGetIdle (length (rs_tasks s)) None] = Some s' /\
              r_result s' (length (rs_tasks s)) = Some false).
Proof.
  intros ls s H Cl. pose proof (r_reachable_inv _ _ H) as HI. split; [|split].
  - intros t k Ek R. split; [apply r_fail_path_short|]. eapply r_fail_not_hang; eauto.
  - intros l s' t Hs. eapply r_no_success_after_close; eauto.
  - apply r_new_exchange_fails. exact Cl.
Qed.
Print Assumptions C18_fail_not_hang.

(* Fail, not hang (pipeline transport), partial: after Pool.Close every pending dial call already carries a
   result, so every caller waiting on a dial is woken with an error or a connection; a new exchange fails at
   its first step.
   Full statement (not proved): every caller blocked in pipelineConn.exchange after Pool.Close reaches an
   error by enabled internal steps — this follows informally from C18_no_leak_pipeline (the connection is
   closed or has a pending closer whose last step cancels pc.ctx) and is exercised by the harness. *)
Theorem C18_fail_not_hang_pipeline_partial : forall ls s,
  sdp_run sdp_init ls = Some s -> ps_closed s = true ->
  (forall d dd, nth_error (ps_dials s) d = Some dd -> pd_result dd <> None) /\
  (exists s', sdp_run s [PSpawn; SdGet (length (ps_tasks s)) GNew] = Some s' /\
              sdp_result s' (length (ps_tasks s)) = Some false).
Proof.
  intros ls s H Cl. split; [eapply sdp_dials_resolved; eauto|apply sdp_new_exchange_fails; exact Cl].
Qed.
Print Assumptions C18_fail_not_hang_pipeline_partial.

(* ------------------------------------------------------------------------------------------------
   Start-up: for EVERY step list and EVERY failing position k (all earlier steps succeeded, at most one
   cache step), run reports the error of step k after invoking exactly [expected pre]: cancel, the limiter,
   then the closer of every earlier upstream, the cache, every earlier listener — in that order, each
   exactly once (no duplicates), nothing that is not a registered closer; and run never calls a nil closer,
   whatever the step list. *)
Theorem C18_startup_release : forall pre s post,
  all_ok pre = true -> s_ok s = false -> cache_once pre = true ->
  run (pre ++ s :: post) = Failed (length pre) (expected pre) /\
  NoDup (expected pre) /\
  (forall i c, i < length pre -> closer_of i (s_kind (nth i pre dstep)) = Some c -> In c (expected pre)) /\
  (forall c, In c (expected pre) ->
     c = CCancel \/ c = CLimiter \/
     exists i, i < length pre /\ closer_of i (s_kind (nth i pre dstep)) = Some c).
Proof.
  intros pre s post Hok Hs Hc. split; [now apply startup_release|]. split; [apply expected_nodup|].
  split; [intros i c; apply expected_complete|apply expected_sound].
Qed.
Print Assumptions C18_startup_release.

Theorem C18_startup_never_panics : forall steps k c, run steps <> Panicked k c.
Proof. exact run_never_panics. Qed.
Print Assumptions C18_startup_never_panics.

(* a router that started is released completely by its first close and not at all by a second one *)
Theorem C18_router_close : forall steps,
  all_ok steps = true -> cache_once steps = true ->
  exists r, run steps = Started r /\ snd (close r) = (expected steps, false) /\
            snd (close (fst (close r))) = ([], false).
Proof. exact started_close. Qed.
Print Assumptions C18_router_close.

(* the pinned tree (before the D13 fix): a failing listener after any successful prefix is a nil-closer call *)
Theorem C18_startup_pinned_refuted : forall pre s post,
  all_ok pre = true -> s_ok s = false -> s_kind s = SServer ->
  exists c, run_pinned (pre ++ s :: post) = Panicked (length pre) c.
Proof. exact run_pinned_panics. Qed.
Print Assumptions C18_startup_pinned_refuted.

(* ------------------------------------------------------------------------------------------------
   Close terminates for every upstream kind with a stack of depth 3 (and any larger one); the h3 upstream
   delegates to its extra closer exactly once and not to itself. *)
Theorem C18_doh_close : forall k n,
  (exists l, close_calls false (3 + n) (upstream_closee k) = Ok l /\ In (upstream_closee k) l) /\
  close_calls false (3 + n) (upstream_closee KH3) = Ok [CeDoH true; CeExtra].
Proof. intros k n. split; [apply close_terminates|apply close_h3_delegates]. Qed.
Print Assumptions C18_doh_close.

(* the pinned tree (before the D12 fix): no stack depth suffices *)
Theorem C18_doh_close_pinned_refuted : forall fuel, close_calls true fuel (upstream_closee KH3) = OutOfFuel.
Proof. exact close_pinned_diverges. Qed.
Print Assumptions C18_doh_close_pinned_refuted.

(* every upstream kind closes in an orderly way: later exchanges fail, no socket stays open, in-flight
   exchanges fail at Close (the table of Shutdown.v compared with the real upstreams by kind upclose; which
   parts an upstream owns and closes is the composite model below) *)
Theorem C18_upstream_close : forall k, up_orderly true k = true.
Proof. exact up_orderly_all. Qed.
Print Assumptions C18_upstream_close.

(* the tree before the K6a / K6c / K6d fixes: true for udp/tcp/tls (+pipeline), false for https, h3, quic *)
Theorem C18_upstream_close_pinned_refuted :
  (forall k, In k [KUdp; KTcp; KTcpPipeline; KTls; KTlsPipeline] -> up_orderly false k = true) /\
  up_orderly false KHttps = false /\ up_orderly false KH3 = false /\ up_orderly false KQuic = false.
Proof. split; [intros k; apply up_orderly_classic|exact up_orderly_refuted]. Qed.
Print Assumptions C18_upstream_close_pinned_refuted.

(* ------------------------------------------------------------------------------------------------
   The upstream as a composite of the transports / sockets it owns (Net/ShutdownOwn.v).
   "Reachable" = reached from uo_new k by ANY sequence of steps of the owned parts (every label of the reuse,
   pipeline and quic transition systems except their Close, and dial / busy / idle / drop of the library parts)
   and Close() calls of the upstream, in any order, any number of each. *)

(* Close of the upstream closes EVERY owned part, from any state whatsoever; a second Close changes no part and
   no effective-close count *)
Theorem C18_upstream_closes_all_owned : forall k s,
  length s = length (uo_owned k) ->
  Forall (fun x => uo_comp_closed (us_comp x) = true) (uo_close k s) /\
  map us_comp (uo_close k (uo_close k s)) = map us_comp (uo_close k s) /\
  map us_eff (uo_close k (uo_close k s)) = map us_eff (uo_close k s).
Proof.
  intros k s L. split; [exact (uo_close_all_closed k s L)|exact (uo_close_idempotent k s L)].
Qed.
Print Assumptions C18_upstream_closes_all_owned.

(* exactly once: in every reachable state, every owned part is closed iff the upstream's Close has been called,
   and it made its open -> closed transition exactly once however many Close calls there were *)
Theorem C18_upstream_close_exactly_once : forall k ls s,
  uo_run k (uo_new k) ls = Some s ->
  length s = length (uo_owned k) /\
  forall x, In x s ->
    uo_comp_closed (us_comp x) = existsb uo_is_close ls /\
    us_eff x = if existsb uo_is_close ls then 1 else 0.
Proof.
  intros k ls s H. destruct (uo_reachable_inv k ls s H) as [L F]. split; [exact L|].
  intros x Hin. rewrite Forall_forall in F. exact (F x Hin).
Qed.
Print Assumptions C18_upstream_close_exactly_once.

(* a Close program closes exactly the parts it names: a part that is not named (and was open) stays open.
   This is why [uo_close_prog] has to name every owned part - a Close that closes one leg twice and the other
   never (u.u.Close(); u.u.Close()) leaves the other leg open. *)
Theorem C18_close_program_exact : forall prog s j x x',
  nth_error s j = Some x -> nth_error (uo_close_with prog s) j = Some x' ->
  (uo_comp_closed (us_comp x') = true <-> In j prog \/ uo_comp_closed (us_comp x) = true) /\
  (~ In j prog -> x' = x).
Proof.
  intros prog s j x x' Hx Hx'. split; [exact (uo_close_with_exact prog s j x x' Hx Hx')|].
  destruct (uo_close_with_spec prog s j x Hx) as (y & Ey & _ & Hout). rewrite Hx' in Ey.
  inversion Ey; subst y. exact Hout.
Qed.
Print Assumptions C18_close_program_exact.

Theorem C18_close_program_covers : forall k,
  (forall j, j < length (uo_owned k) -> In j (uo_close_prog k)) /\ NoDup (uo_close_prog k).
Proof. intros k. split; [intros j; apply uo_prog_covers_in|apply uo_prog_nodup]. Qed.
Print Assumptions C18_close_program_covers.

(* no leak, whole upstream: in every reachable state after Close, every owned part is closed and is a reachable
   CLOSED state of its own transition system, so the per-transport theorems above hold for each leg:
   reuse leg - every registered connection is closed, what is still open are returned-not-yet-registered dials
   (C18_no_leak); pipeline leg - an open connection has a pending closer (C18_no_leak_pipeline); quic - no table
   connection is open (C18_no_leak_quic); library parts (tracker, quic.Transport, socket) hold nothing. *)
Theorem C18_upstream_no_leak : forall k ls s,
  uo_run k (uo_new k) ls = Some s -> existsb uo_is_close ls = true ->
  length s = length (uo_owned k) /\
  forall x, In x s ->
    uo_comp_closed (us_comp x) = true /\ us_eff x = 1 /\
    match us_comp x with
    | UcReuse rs =>
        (exists ls', r_run r_init ls' = Some rs) /\
        (forall kc, In kc (rs_conns rs) -> rc_open kc = false) /\
        r_open_count rs = length (filter is_returned (rs_tasks rs))
    | UcPipe ps =>
        (exists ls', sdp_run sdp_init ls' = Some ps) /\
        forall c k0, nth_error (ps_conns ps) c = Some k0 -> pc_open k0 = true ->
          (pc_closed k0 = true /\ has_stage (ps_tasks ps) (PsCloseB c)) \/
          (pc_closed k0 = false /\ has_stage (ps_tasks ps) (PsCloseA c))
    | UcQuic qs =>
        (exists ls', sdq_run sdq_init ls' = Some qs) /\
        (forall kc, In kc (sq_conns qs) -> qc_open kc = false) /\
        sdq_open_count qs = length (filter qd_holds_raw (sq_calls qs))
    | UcLib l => ul_idle l + ul_busy l = 0
    end.
Proof.
  intros k ls s H Cl. destruct (uo_no_leak k ls s H Cl) as [L F]. split; [exact L|]. intros x Hin.
  destruct (F x Hin) as (C & E & R). split; [exact C|]. split; [exact E|].
  pose proof (uo_reachable_parts k ls s H) as P. rewrite Forall_forall in P. specialize (P x Hin).
  unfold uo_slot_reach in P. destruct (us_comp x); cbn in *; auto.
Qed.
Print Assumptions C18_upstream_no_leak.

(* what the harness replays (kind upown: a plan of answered / in-flight exchanges, then Close, Close, each
   followed by quiescence of the legs) is a
   schedule of the composite system, so the theorems above apply to every state the correspondence check visits *)
Theorem C18_plan_refines_composite : forall k mux ps s hs,
  uo_plan_run k mux (uo_new k) ps [] = Some (s, hs) ->
  (exists ls, uo_run k (uo_new k) ls = Some (uo_close_settled k s) /\ existsb uo_is_close ls = true) /\
  (exists ls, uo_run k (uo_new k) ls = Some (uo_close_settled k (uo_close_settled k s)) /\
              existsb uo_is_close ls = true).
Proof. exact uo_plan_then_close. Qed.
Print Assumptions C18_plan_refines_composite.

(* ------------------------------------------------------------------------------------------------
   the quiescent histories the harness replays are schedules of the small-step systems, so the theorems
   above apply to every state the correspondence check visits *)
Theorem C18_big_refines_small :
  (forall h es s, r_bigs h r_init es = Some s -> exists ls, r_run r_init ls = Some s) /\
  (forall h m es s, sdp_bigs h m sdp_init es = Some s -> exists ls, sdp_run sdp_init ls = Some s).
Proof. split; [intros h es s; apply r_bigs_refines|intros h m es s; apply sdp_bigs_refines]. Qed.
Print Assumptions C18_big_refines_small.

(* ------------------------------------------------------------------------------------------------
   QuicTransport (Net/Shutdown.v Part 5): the cached connection, the single dialing call and its waiters. *)
Theorem C18_close_idempotent_quic : forall s,
  exists s', sdq_step s SqClose = Some s' /\ sq_closed s' = true /\ sdq_step s' SqClose = Some s'.
Proof.
  intros s. destruct (sdq_close_total s) as [s' [H1 H2]]. exists s'. repeat split; auto.
  eapply sdq_close_idempotent; eauto.
Qed.
Print Assumptions C18_close_idempotent_quic.

(* No leak, QUIC: in every reachable state after Close no connection of the table is open; what a counting
   dialer can still see open are exactly the results of a dial that returned but whose call has not completed
   (QdGot true: before the critical section, QdLate true: after it).  Completing the call is enabled from every
   stage, never touches the tasks, publishes a result, and - the transport being closed - puts a dialled
   connection into the table CLOSED: the completion step itself closes the late connection. *)
Theorem C18_no_leak_quic : forall ls s,
  sdq_run sdq_init ls = Some s -> sq_closed s = true ->
  (forall k, In k (sq_conns s) -> qc_open k = false) /\
  sdq_open_count s = length (filter qd_holds_raw (sq_calls s)) /\
  (forall d dd, nth_error (sq_calls s) d = Some dd ->
     exists s', sdq_run s (sdq_complete_path s d) = Some s' /\
                sq_closed s' = true /\
                (forall k, In k (sq_conns s') -> qc_open k = false) /\
                (exists dd', nth_error (sq_calls s') d = Some dd' /\ qd_stage dd' = QdEnd /\ qd_holds_raw dd' = false) /\
                match qd_stage dd with
                | QdGot true | QdLate true => sq_conns s' = sq_conns s ++ [{| qc_open := false |}]
                | _ => sq_conns s' = sq_conns s
                end).
Proof.
  intros ls s H Cl. destruct (sdq_no_leak _ _ H Cl) as [A B]. split; [exact A|]. split; [exact B|].
  intros d dd Ed. pose proof (sdq_reachable_inv _ _ H) as HI.
  pose proof (Forall_nth_error _ _ _ _ (q_calls _ HI) Ed) as (D1 & _).
  destruct (sdq_complete s d dd Ed D1) as (s' & Hrun & _ & Hcl & (dd' & Ed' & Sd' & _) & Hconns).
  exists s'. split; [exact Hrun|]. split; [congruence|]. split.
  - apply sdq_closed_all_closed; [eapply sdq_run_inv; eauto|congruence].
  - split; [|apply Hconns; exact Cl]. exists dd'. repeat split; auto. unfold qd_holds_raw. now rewrite Sd'.
Qed.
Print Assumptions C18_no_leak_quic.

(* every waiter of a dialing call is woken by the call's completion (in every reachable state, closed or not):
   after the completion path its wake-up step is enabled and takes it to an exchange on the new connection or to
   an error - nobody is left waiting on call.done *)
Theorem C18_quic_waiters_woken : forall ls s t k d,
  sdq_run sdq_init ls = Some s -> nth_error (sq_tasks s) t = Some k -> qt_stage k = QsWait d ->
  exists s' s'' k', sdq_run s (sdq_complete_path s d) = Some s' /\
                    sdq_step s' (SqWake t) = Some s'' /\
                    nth_error (sq_tasks s'') t = Some k' /\
                    ((exists c, qt_stage k' = QsHas c true) \/ (qt_stage k' = QsDone /\ qt_res k' <> None)).
Proof.
  intros ls s t k d H Ek Sk. pose proof (sdq_reachable_inv _ _ H) as HI.
  destruct (sdq_waiters_woken s t k d HI Ek Sk) as (s' & s'' & k' & A & B & C & D & _).
  exists s', s'', k'. auto.
Qed.
Print Assumptions C18_quic_waiters_woken.

(* fail, not hang (QUIC): in every reachable closed state every caller still waiting reaches an error by enabled
   steps; a new exchange fails at its first step *)
Theorem C18_fail_not_hang_quic : forall ls s,
  sdq_run sdq_init ls = Some s -> sq_closed s = true ->
  (forall t k, nth_error (sq_tasks s) t = Some k -> qt_res k = None ->
     exists path s', sdq_run s path = Some s' /\ sdq_result s' t = Some false) /\
  (exists s', sdq_run s [SqSpawn; SqGet (length (sq_tasks s))] = Some s' /\
              sdq_result s' (length (sq_tasks s)) = Some false).
Proof.
  intros ls s H Cl. pose proof (sdq_reachable_inv _ _ H) as HI. split.
  - intros t k Ek R. eapply sdq_fail_not_hang; eauto.
  - now apply sdq_new_exchange_fails.
Qed.
Print Assumptions C18_fail_not_hang_quic.

Theorem C18_big_refines_small_quic : forall h es s,
  sdq_bigs h sdq_init es = Some s -> exists ls, sdq_run sdq_init ls = Some s.
Proof. intros h es s. apply sdq_bigs_refines. Qed.
Print Assumptions C18_big_refines_small_quic.

(* ------------------------------------------------------------------------------------------------
   Start-up, inside a component's init (Router/StartupInit.v): an init is a program check* ; acquire ;
   (check | acquire)* ; register; a statement can fail after something was acquired, and what the init holds
   then is in no table of the router, so the deferred r.close(err) cannot reach it. *)

(* a program loses nothing, wherever it fails, iff it is "safe": every statement that can fail while the init
   holds something releases it on its error path, and nothing is held when the init returns *)
Theorem C18_init_safe_iff : forall p,
  si_safeb p = true <-> forall f, si_lost (fst (si_exec p 0 f si_st0)) = [].
Proof. exact si_safe_iff. Qed.
Print Assumptions C18_init_safe_iff.

(* the init program of every component kind of run() is safe (the code with the round-4 fixes) *)
Theorem C18_init_programs_safe : forall k, si_safeb (si_prog_of false k) = true.
Proof. exact si_progs_safe. Qed.
Print Assumptions C18_init_programs_safe.

(* every acquired resource is either registered (hence released by close) or released on the error path:
   for EVERY configuration (list of components, any kinds, any number) and EVERY failing statement of every init,
   after a failed run() nothing is lost, held or registered and every resource that was acquired has been
   released exactly once; after a successful run() every resource is registered exactly once, nothing has been
   released, and close releases each exactly once *)
Theorem C18_init_no_leak : forall (items : list si_item) f st r,
  si_run (map (fun it => si_prog_of false (fst it)) items) f = (st, r) ->
  si_lost st = [] /\ si_held st = [] /\
  (r <> None -> si_regd st = [] /\ forall id, id < si_next st -> si_count id (si_freed st) = 1) /\
  (r = None -> si_freed st = [] /\
               (forall id, id < si_next st -> si_count id (si_regd st) = 1) /\
               si_regd (si_close st) = [] /\
               forall id, id < si_next st -> si_count id (si_freed (si_close st)) = 1).
Proof. intros items f st r H. eapply si_run_no_leak; [apply si_progs_all_safe|exact H]. Qed.
Print Assumptions C18_init_no_leak.

(* whatever the programs: after a failed run() each acquired resource is released exactly once or lost *)
Theorem C18_init_accounting : forall comps f st k,
  si_run comps f = (st, Some k) ->
  si_held st = [] /\ si_regd st = [] /\
  forall id, id < si_next st -> si_count id (si_freed st) + si_count id (si_lost st) = 1.
Proof. exact si_run_accounting. Qed.
Print Assumptions C18_init_accounting.

(* "check after build without release" is refuted: the program with the duplicate-tag check behind NewUpstream
   (and the two programs of the tree before the round-4 fixes) is unsafe, and a second quic / h3 upstream with a
   duplicate tag leaves one UDP socket open after the failed run() *)
Theorem C18_init_check_after_build_refuted :
  si_safeb (si_prog_up_check_after_build SiUpSock) = false /\
  si_safeb (si_prog_of true (SiKUp SiUpSock)) = false /\
  si_safeb (si_prog_of true (SiKCache true true false)) = false /\
  exists st, si_run [si_prog_of false (SiKUp SiUpLazy); si_prog_up_check_after_build SiUpSock] (Some (1, 4))
             = (st, Some 1) /\ si_socks (si_lost st) = 1 /\ si_regd st = [] /\ length (si_freed st) = 1.
Proof.
  destruct si_progs_pinned_unsafe as (A & B & C). repeat split; auto.
  eexists. split; [vm_compute; reflexivity|]. repeat split.
Qed.
Print Assumptions C18_init_check_after_build_refuted.

(* configuration errors are reported: a fault that is an error (si_fault_stmt) makes run() fail at that
   component, for every component kind; in particular a listener that needs a certificate and has none, only a
   cert, only a key, an unreadable / garbage / mismatching pair, a bad ca file or verify_client_cert without ca *)
Theorem C18_config_fault_reported : forall k f j,
  In k si_all_kinds -> si_fault_stmt k f = Some j ->
  snd (si_run [si_prog_of false k] (Some (0, j))) = Some 0.
Proof. exact si_fault_reported. Qed.
Print Assumptions C18_config_fault_reported.

Theorem C18_bad_cert_is_error : forall s f,
  In s [SiSrvTls; SiSrvHttps; SiSrvQuic] ->
  In f [SfNoCert; SfCertOnly; SfKeyOnly; SfCertMissing; SfCertGarbage; SfMismatch; SfCaMissing; SfCaGarbage; SfVccNoCa] ->
  si_fault_stmt (SiKSrv s) f <> None.
Proof.
  intros s f Hs Hf. pose proof si_bad_cert_is_error as A. rewrite forallb_forall in A. specialize (A s Hs).
  rewrite forallb_forall in A. specialize (A f Hf). destruct (si_fault_stmt (SiKSrv s) f); [discriminate|discriminate].
Qed.
Print Assumptions C18_bad_cert_is_error.

(* ------------------------------------------------------------------------------------------------
   "Address in use" when the address is held by ANOTHER INSTANCE of the router (same listener).  The property
   names address in use as a start-up error; sharing an address between two instances is legitimate only when
   the listener's sockets carry SO_REUSEPORT ([si_must_refuse]: configured explicitly, or implied by udp.threads >= 2).
   The code ([si_refuses]) refuses the second instance for the metrics endpoint and for every listener kind - udp
   with threads <= 1, tcp, gnet, http, fasthttp, tls, https, quic - unless so_reuseport is configured (quic ignores it
   and always refuses). *)
Theorem C18_second_instance_refused : forall k rp,
  In k si_all_kinds -> si_must_refuse k rp = true ->
  si_refuses k rp = true /\
  exists j, si_fault_stmt k (SfHeldByRouter rp) = Some j /\
            snd (si_run [si_prog_of false k] (Some (0, j))) = Some 0.
Proof.
  intros k rp Hk Hm. pose proof (si_must_refuse_holds k rp Hm) as R. split; [exact R|].
  unfold si_refuses in R. destruct (si_fault_stmt k (SfHeldByRouter rp)) as [j|] eqn:E; [|discriminate].
  exists j. split; [reflexivity|]. eapply si_fault_reported; eauto.
Qed.
Print Assumptions C18_second_instance_refused.

(* ... and only there: the code refuses a second instance exactly where the sockets carry no SO_REUSEPORT.  A udp
   listener with udp.threads >= 2 sets SO_REUSEPORT on its sockets (startUdpServer: that is how it opens several
   sockets on one address), so a further instance shares the address whether or not so_reuseport is configured: the
   kernel reports no error, and there is no start-up error to report.  (With udp.threads <= 1 the option is set only
   when configured: the seeded change C18-I, `threads >= 1`, breaks exactly this.) *)
Theorem C18_second_instance_exact : forall k rp, si_refuses k rp = si_must_refuse k rp.
Proof. exact si_refuses_iff_must. Qed.
Print Assumptions C18_second_instance_exact.

Theorem C18_udp_threads_imply_reuseport : forall rp,
  si_must_refuse (SiKSrv SiSrvUdpN) rp = false /\ si_refuses (SiKSrv SiSrvUdpN) rp = false.
Proof. exact si_udp_threads_shares. Qed.
Print Assumptions C18_udp_threads_imply_reuseport.

(* ------------------------------------------------------------------------------------------------
   Closers and their peers: closeImpl calls the closers in order; "returns without waiting for its peers" is a
   property of each closer kind.  No closer of the code waits for its peers (the fasthttp one waits at most a fixed
   grace period), so for EVERY configuration and EVERY behaviour of the connected clients router.close returns and
   has called every closer. *)
Theorem C18_close_returns_whatever_peers : forall (items : list (si_kind * bool)),
  si_close_walk (si_closers items) = (length (si_closers items), true) /\
  forall k w, si_closer_wait k = Some w -> w <> SiWaitPeers.
Proof. intros items. split; [apply si_close_always_returns|apply si_closer_wait_not_peers]. Qed.
Print Assumptions C18_close_returns_whatever_peers.

(* in general: close returns for every peer behaviour iff no closer waits for its peers *)
Theorem C18_close_returns_iff_no_peer_wait : forall cl : list si_wait,
  si_no_peer_wait cl = true <->
  forall stuck : list bool, length stuck = length cl -> snd (si_close_walk (combine cl stuck)) = true.
Proof.
  intros cl. split.
  - intros H stuck L. assert (map fst (combine cl stuck) = cl) as E.
    { clear H. revert stuck L. induction cl as [|w tl IH]; intros [|b st] L; cbn in *; try discriminate; auto.
      f_equal. apply IH. lia. }
    rewrite si_close_walk_no_wait; [reflexivity|now rewrite E].
  - intros H. destruct (si_no_peer_wait cl) eqn:E; [reflexivity|]. exfalso.
    specialize (H (map (fun _ => true) cl)). rewrite map_length in H. specialize (H eq_refl).
    clear - E H. induction cl as [|w tl IH]; cbn in *; [discriminate|].
    destruct w; cbn in *; try discriminate;
      destruct (si_close_walk (combine tl (map (fun _ => true) tl))) as [n b] eqn:W; cbn in *; subst; auto.
Qed.
Print Assumptions C18_close_returns_iff_no_peer_wait.

(* a closer that waits for its peers is refuted by one stuck peer: the metrics endpoint closed with
   http.Server.Shutdown(context.Background()) is closer number 0; with a client stuck in the middle of a request
   close never returns and none of the closers behind it (the DNS listeners) is called *)
Theorem C18_closer_waiting_for_peers_refuted : forall post,
  si_close_walk (map (fun w => (w, true)) (SiWaitPeers :: post)) = (0, false).
Proof. intros post. exact (si_close_walk_blocks [] post eq_refl). Qed.
Print Assumptions C18_closer_waiting_for_peers_refuted.

(* ------------------------------------------------------------------------------------------------
   Round 8.  A dial that fails AFTER the TCP connect releases the socket: the dial closure of a tls upstream is
   the program connect ; handshake ; return.  With tlsConn.Close() on a failed handshake it is safe, so for every
   failing statement nothing is lost; without it the handshake failing on its own loses the socket. *)
Theorem C18_failed_handshake_releases :
  si_safeb (si_prog_dial_tls true) = true /\
  forall f, si_lost (fst (si_exec (si_prog_dial_tls true) 0 f si_st0)) = [].
Proof. split; [reflexivity|]. apply si_safe_iff. reflexivity. Qed.
Print Assumptions C18_failed_handshake_releases.

Theorem C18_failed_handshake_leak_refuted :
  si_safeb (si_prog_dial_tls false) = false /\
  si_socks (si_lost (fst (si_exec (si_prog_dial_tls false) 0 (Some 1) si_st0))) = 1.
Proof. split; reflexivity. Qed.
Print Assumptions C18_failed_handshake_leak_refuted.

(* cacheCtl.Close closes every tier the cache owns, each once, whatever an earlier tier's Close returned *)
Theorem C18_cache_closes_all_tiers : forall mem redis,
  si_cache_close false (si_cache_tiers mem redis) = si_cache_tiers mem redis /\
  NoDup (si_cache_tiers mem redis) /\ si_cache_left false mem redis = [].
Proof. exact si_cache_close_all. Qed.
Print Assumptions C18_cache_closes_all_tiers.

(* returning the first tier's Close() result ends the program there: with both tiers redis stays open *)
Theorem C18_cache_close_early_return_refuted : si_cache_left true true true = [SiTierRedis].
Proof. exact si_cache_close_early_leaves. Qed.
Print Assumptions C18_cache_close_early_return_refuted.

(* ---------------- non-vacuity ---------------- *)
(* Close while a dial is in flight whose result arrives later: the late connection is closed on arrival,
   the waiting caller gets an error, nothing stays open *)
Example C18_example_late_dial :
  match r_bigs false r_init [XSpawn; XClose; XDialOk 0; XClose; XSpawn] with
  | Some s => (rs_closed s, r_open_count s, r_result s 0, r_result s 1, length (rs_conns s))
  | None => (false, 99, None, None, 0)
  end = (true, 0, Some false, Some false, 1).
Proof. vm_compute. reflexivity. Qed.

(* an idle connection, an in-flight exchange on a reused connection and a new exchange at Close *)
Example C18_example_inflight :
  match r_bigs true r_init [XSpawn; XDialOk 0; XReply 0; XSpawn; XClose; XSpawn] with
  | Some s => (r_open_count s, r_result s 0, r_result s 1, r_result s 3)
  | None => (99, None, None, None)
  end = (0, Some true, Some false, Some false).
Proof. vm_compute. reflexivity. Qed.

Example C18_example_pipeline :
  match sdp_bigs false 1 sdp_init [XSpawn; XSpawn; XDialOk 0; XReply 0; XClose; XDialOk 1] with
  | Some s => (ps_closed s, sdp_open_count s, sdp_result s 0, sdp_result s 1)
  | None => (false, 99, None, None)
  end = (true, 0, Some true, Some false).
Proof. vm_compute. reflexivity. Qed.

(* metrics listener, 2 upstreams, 1 set, 1 rule, cache, 3 servers, the third server fails (position 9) *)
Example C18_example_startup :
  run (cfg_steps true 2 1 1 3 (Some 9)) = Failed 9 [CCancel; CLimiter; CUp 2; CUp 3; CCache 6; CSrv 1; CSrv 7; CSrv 8] /\
  (exists c, run_pinned (cfg_steps true 2 1 1 3 (Some 9)) = Panicked 9 c) /\
  startup_oracle (cfg_steps true 2 1 1 3 (Some 9)) (run (cfg_steps true 2 1 1 3 (Some 9))) = true.
Proof. vm_compute. repeat split. eexists. reflexivity. Qed.

(* QUIC: Close while the dial is in flight, the dial then SUCCEEDS: the late connection is closed by the
   call's completion, the waiter gets an error, nothing stays open; a second Close and a new exchange are fine *)
Example C18_example_quic_late_dial :
  match sdq_bigs false sdq_init [XSpawn; XSpawn; XClose; XDialOk 0; XClose; XSpawn] with
  | Some s => (sq_closed s, sdq_open_count s, sdq_result s 0, sdq_result s 1, sdq_result s 2, length (sq_conns s))
  | None => (false, 99, None, None, None, 0)
  end = (true, 0, Some false, Some false, Some false, 1).
Proof. vm_compute. reflexivity. Qed.

(* a udp upstream: one answered fallback query (idle TCP connection), one fallback query in flight on a second
   TCP connection, one UDP query in flight; Close: both legs closed, each exactly once, nothing open, both
   in-flight exchanges fail, a new exchange fails on either leg; a second Close changes nothing *)
Example C18_example_udp_owns_two :
  match uo_plan_run KUdp true (uo_new KUdp) [UoPlTc; UoPlTcMute; UoPlTc; UoPlMute] [] with
  | Some (s, hs) =>
      let s1 := uo_close_settled KUdp s in
      let s2 := uo_close_settled KUdp s1 in
      (uo_sockets KUdp true s, uo_sockets KUdp false s, map (uo_result s) hs,
       uo_all_closed s1, uo_all_eff_once s1, uo_sockets KUdp true s1, uo_sockets KUdp false s1,
       map (uo_result s1) hs, uo_new_fails KUdp s1 0, uo_new_fails KUdp s1 1,
       (uo_all_closed s2, uo_all_eff_once s2, map us_calls s2))
  | None => (0, 0, [], false, false, 9, 9, [], false, false, (false, false, []))
  end = (1, 2, [None; None], true, true, 0, 0, [Some false; Some false], true, true, (true, true, [2; 2])).
Proof. vm_compute. reflexivity. Qed.

(* the same state closed by a program that names the UDP leg twice and the TCP fallback leg never: the fallback
   leg stays open with its two connections, its in-flight exchange keeps waiting, a new exchange on it succeeds *)
Example C18_example_missed_leg :
  match uo_plan_run KUdp true (uo_new KUdp) [UoPlTc; UoPlTcMute; UoPlTc; UoPlMute] [] with
  | Some (s, hs) =>
      let s1 := uo_settle KUdp (uo_close_with [0; 0] s) in
      (uo_all_closed s1, uo_sockets KUdp true s1, uo_sockets KUdp false s1, map (uo_result s1) hs,
       uo_new_fails KUdp s1 0, uo_new_fails KUdp s1 1)
  | None => (true, 0, 0, [], true, true)
  end = (false, 0, 2, [None; Some false], true, false).
Proof. vm_compute. reflexivity. Qed.

(* quic: the QuicTransport, the quic.Transport and the UDP socket are all closed, each once *)
Example C18_example_quic_owns_three :
  match uo_plan_run KQuic true (uo_new KQuic) [UoPlOk; UoPlMute] [] with
  | Some (s, hs) =>
      let s1 := uo_close_settled KQuic s in
      (uo_sockets KQuic true s, length s1, uo_all_closed s1, uo_all_eff_once s1, uo_sockets KQuic true s1,
       map (uo_result s1) hs, uo_new_fails KQuic s1 0)
  | None => (0, 0, false, false, 9, [], false)
  end = (1, 3, true, true, 0, [Some false], true).
Proof. vm_compute. reflexivity. Qed.

(* metrics, a udp and a quic upstream, memory cache + marker, a udp and a quic listener, then a tls listener with
   only a cert: run() reports the error of item 7 and everything acquired on the way (metrics listener, quic
   upstream with its socket, the memory cache, two listeners) is released *)
Example C18_example_init_half_cert :
  let items := [(SiKMetrics, None); (SiKUp SiUpLazy, None); (SiKUp SiUpSock, None); (SiKSet, None);
                (SiKCache true false true, None); (SiKSrv SiSrvUdp, None); (SiKSrv SiSrvQuic, None);
                (SiKSrv SiSrvTls, Some SfCertOnly)] in
  si_first_fault items 0 = Some (7, 1) /\ si_observe false items = (true, 0, false) /\
  (let '(st, r) := si_run (map (fun it => si_prog_of false (fst it)) items) (si_first_fault items 0) in
   (r, length (si_freed st), si_socks (si_freed st))) = (Some 7, 7, 4).
Proof. vm_compute. repeat split. Qed.

(* the tree before the fix: memory cache then a bad redis url - the memory cache (goroutines) is lost *)
Example C18_example_init_cache_pinned :
  si_observe true [(SiKCache true true false, Some SfBadRedis); (SiKSrv SiSrvUdp, None)] = (true, 0, true) /\
  si_observe false [(SiKCache true true false, Some SfBadRedis); (SiKSrv SiSrvUdp, None)] = (true, 0, false).
Proof. vm_compute. split; reflexivity. Qed.
