(* C05 — multiplexed upstream replies reach exactly the exchange that asked.
   Only statements; model in Net/Pipeline.v, proofs in Net/PipelineProofs.v.

   [reachable tcp q0 s]: s is reached from the initial state of ONE pipelined connection (first wire id q0;
   the real code has q0 = 0, the correspondence check also starts connections near 65535) by ANY finite
   sequence of atomic actions: any number of exchange threads, any interleaving, any server behaviour
   (LRecv carries any 16-bit id at any time), any cancellation / close placement.
   [tget s t = Some th]: exchange (thread) t exists with record th; [twid th] its wire id;
   [pc_result (tpc th) = Some (RMsg r)]: it has chosen to return message r (select arm taken or later). *)
From Mos Require Import Base.Prelude Net.Pipeline Net.PipelineProofs Net.PipelineBuf Net.PipelineBufProofs.
Local Open Scope N_scope.

(* ids assigned on a connection are q0, q0+1, q0+2, … in order of assignment (for the real q0 = 0:
   0,1,2,…), never above 65535, never reused; nextQid counts them *)
Theorem C05_ids_fresh : forall tcp q0 s,
  q0 <= 65536 -> reachable tcp q0 s ->
  assigned_ids s = nseq q0 (length (pl_alog s)) /\
  pl_nextQid s = q0 + N.of_nat (length (pl_alog s)) /\
  pl_nextQid s <= 65536 /\
  (forall w, In w (assigned_ids s) -> q0 <= w <= 65535) /\
  NoDup (assigned_ids s).
Proof. exact ids_fresh. Qed.
Print Assumptions C05_ids_fresh.

(* the id an exchange holds is one of the assigned ones, and no two exchanges ever hold the same id *)
Theorem C05_ids_exchange : forall tcp q0 s,
  q0 <= 65536 -> reachable tcp q0 s ->
  (forall t th w, pl_tget s t = Some th -> pl_twid th = Some w -> In w (assigned_ids s)) /\
  (forall t1 t2 th1 th2 w, pl_tget s t1 = Some th1 -> pl_tget s t2 = Some th2 ->
     pl_twid th1 = Some w -> pl_twid th2 = Some w -> t1 = t2).
Proof. exact ids_exchange. Qed.
Print Assumptions C05_ids_exchange.

(* addQueueC never overwrites a waiter: every id >= nextQid has no entry in the waiter table *)
Theorem C05_add_no_overwrite : forall tcp q0 s,
  q0 <= 65536 -> reachable tcp q0 s -> forall w, pl_nextQid s <= w -> pl_alookup w (pl_queue s) = None.
Proof. exact add_no_overwrite. Qed.
Print Assumptions C05_add_no_overwrite.

(* after id 65535 has been assigned (65536 assignments when q0 = 0) addQueueC fails with EoL: no id is
   assigned, the counter does not move (never wraps), and the pool sees the connection as unavailable *)
Theorem C05_ids_exhausted : forall tcp q0 s t th,
  q0 <= 65536 -> reachable tcp q0 s -> pl_nextQid s = 65536 ->
  pl_tget s t = Some th -> pl_tpc th = PlPStart ->
  pl_status_available s = false /\
  exists s' th', pl_step s (PlLAdd t) = Some s' /\
    pl_tget s' t = Some th' /\ pl_tpc th' = PlPReturned PlRErrEoL /\ pl_twid th' = None /\
    pl_nextQid s' = 65536 /\ pl_alog s' = pl_alog s /\ pl_queue s' = pl_queue s.
Proof. exact add_exhausted. Qed.
Print Assumptions C05_ids_exhausted.

(* the end-of-life boundary under concurrency: once nextQid has reached 65536 it stays there under EVERY
   continuation (any number of threads, any interleaving of Reserve / Status / addQueueC / replies / cancels /
   closes): no further wire id is ever assigned — in particular none wraps to 0 — and Status says unavailable.
   Whatever Reserve/Status told the callers that were handed the connection while ids were left is irrelevant. *)
Theorem C05_exhausted_forever : forall tcp q0 s,
  q0 <= 65536 -> reachable tcp q0 s -> pl_nextQid s = 65536 ->
  forall ls s', pl_run ls s = Some s' ->
    pl_nextQid s' = 65536 /\ pl_alog s' = pl_alog s /\ pl_status_available s' = false.
Proof. exact exhausted_forever. Qed.
Print Assumptions C05_exhausted_forever.

(* ... so every later addQueueC, by any thread, fails with EoL and assigns nothing *)
Theorem C05_add_after_exhaustion : forall tcp q0 s,
  q0 <= 65536 -> reachable tcp q0 s -> pl_nextQid s = 65536 ->
  forall ls s' t th, pl_run ls s = Some s' -> pl_tget s' t = Some th -> pl_tpc th = PlPStart ->
  exists s'' th', pl_step s' (PlLAdd t) = Some s'' /\
    pl_tget s'' t = Some th' /\ pl_tpc th' = PlPReturned PlRErrEoL /\ pl_twid th' = None /\
    pl_nextQid s'' = 65536 /\ pl_alog s'' = pl_alog s.
Proof. exact add_after_exhaustion. Qed.
Print Assumptions C05_add_after_exhaustion.

(* the exhausted connection is retired: when its last waiter leaves, deleteQueueC closes it *)
Theorem C05_retired : forall s t th r w,
  pl_nextQid s = 65536 -> pl_tget s t = Some th -> pl_tpc th = PlPLeaving r -> pl_twid th = Some w ->
  pl_queue s = [(w, t)] ->
  exists s1 s2, pl_step s (PlLDelete t) = Some s1 /\ pl_step s1 (PlLEolClose t) = Some s2 /\
    pl_closed s2 = true /\ pl_queue s2 = [] /\ pl_status_available s2 = false /\
    exists th2, pl_tget s2 t = Some th2 /\ pl_tpc th2 = PlPReturned r.
Proof. exact retire_when_drained. Qed.
Print Assumptions C05_retired.

(* if exchange t returns message r then the read loop received (so the server sent) a message instance m
   whose header id is the wire id assigned to t, and r is m with the caller's original id restored *)
Theorem C05_delivery : forall tcp q0 s t th r,
  q0 <= 65536 -> reachable tcp q0 s ->
  pl_tget s t = Some th -> pc_result (pl_tpc th) = Some (PlRMsg r) ->
  exists w m, pl_twid th = Some w /\ In m (pl_emitted s) /\ pl_mhid m = w /\ pl_mhid m < 65536 /\
              r = pl_with_id m (pl_cid th).
Proof. exact delivery. Qed.
Print Assumptions C05_delivery.

(* no received message instance is returned by two exchanges *)
Theorem C05_no_double : forall tcp q0 s t1 t2 th1 th2 r1 r2,
  q0 <= 65536 -> reachable tcp q0 s ->
  pl_tget s t1 = Some th1 -> pl_tget s t2 = Some th2 ->
  pc_result (pl_tpc th1) = Some (PlRMsg r1) -> pc_result (pl_tpc th2) = Some (PlRMsg r2) ->
  pl_mid r1 = pl_mid r2 -> t1 = t2.
Proof. exact no_double. Qed.
Print Assumptions C05_no_double.

(* in flight, too: a response channel only ever holds, and the read loop only ever forwards to a channel,
   a received message whose id is that exchange's wire id *)
Theorem C05_routing : forall tcp q0 s,
  q0 <= 65536 -> reachable tcp q0 s ->
  (forall t th m, pl_tget s t = Some th -> pl_tchan th = Some m -> pl_twid th = Some (pl_mhid m) /\ In m (pl_emitted s)) /\
  (forall m t, pl_rl s = PlRSend m t -> exists th, pl_tget s t = Some th /\ pl_twid th = Some (pl_mhid m)).
Proof. exact routing. Qed.
Print Assumptions C05_routing.

(* late replies, (a): once the deferred deleteQueueC of exchange t has run, its wire id has no waiter in
   any later state, so getQueueC returns nil for every later message carrying it (it is discarded) *)
Theorem C05_late_reply_discarded : forall tcp q0 s t th w,
  q0 <= 65536 -> reachable tcp q0 s ->
  pl_tget s t = Some th -> pl_twid th = Some w -> left_queue th ->
  forall ls s', pl_run ls s = Some s' -> pl_alookup w (pl_queue s') = None.
Proof. exact late_reply_discarded. Qed.
Print Assumptions C05_late_reply_discarded.

(* late replies, (b): a message instance received after exchange t chose its outcome (returned, was
   cancelled, …) and carrying t's wire id is never returned by ANY exchange, whatever happens later —
   even if it still lands in t's stale channel between the cancel and the deleteQueueC *)
Theorem C05_late_reply : forall tcp q0 s t th w,
  q0 <= 65536 -> reachable tcp q0 s ->
  pl_tget s t = Some th -> pl_twid th = Some w -> decided th ->
  forall ls s', pl_run ls s = Some s' ->
  forall m, In m (pl_emitted s') -> pl_nemit s <= pl_mid m -> pl_mhid m = w ->
  forall t' th' r, pl_tget s' t' = Some th' -> pc_result (pl_tpc th') = Some (PlRMsg r) -> pl_mid r <> pl_mid m.
Proof. exact late_reply_never_returned. Qed.
Print Assumptions C05_late_reply.

(* the histories replayed by the correspondence check are schedules of the LTS the theorems cover *)
Theorem C05_big_refines_small : forall tcp q0 evs, reachable tcp q0 (pl_run_history tcp q0 evs).
Proof. exact big_refines_small. Qed.
Print Assumptions C05_big_refines_small.

(* ---------- non-vacuity ---------- *)
(* out-of-order + duplicate + unsolicited + late-after-cancel replies: exchanges 0,1,2 (caller ids 500,
   501,500) get wire ids 0,1,2; the server answers 1 before 0, repeats both, sends an unknown id 7;
   exchange 2 is cancelled and its reply arrives late; exchange 3 then gets id 3 and ITS reply. *)
Definition ex_history : list pl_event :=
  [PlEvStart 500; PlEvStart 501; PlEvStart 500;
   PlEvReplyTo 1 11; PlEvReplyTo 0 12; PlEvReplyTo 1 13; PlEvReplyTo 0 14; PlEvEmitId 7 15;
   PlEvCancel 2; PlEvReplyTo 2 16; PlEvStart 502; PlEvEmitId 2 17; PlEvReplyTo 3 18].

Example C05_example_history :
  pl_history_outcomes true 0 ex_history =
  ([(PlOMsg 12 true, Some 0); (PlOMsg 11 true, Some 1); (PlOErr, Some 2); (PlOMsg 18 true, Some 3)], false).
Proof. vm_compute. reflexivity. Qed.

(* the hypotheses of C05_delivery / C05_late_reply are met in that run *)
Example C05_example_delivery :
  let s := pl_run_history true 0 ex_history in
  exists th r, pl_tget s 3 = Some th /\ pc_result (pl_tpc th) = Some (PlRMsg r) /\ pl_mtag r = 18 /\ pl_mhid r = 502 /\
               pl_twid th = Some 3 /\ length (pl_emitted s) = 8%nat.
Proof. vm_compute. eexists. eexists. repeat split; reflexivity. Qed.

(* a small-step schedule that is NOT quiescent: the late reply to the cancelled exchange 0 lands in its
   stale channel between the ctx arm and the deferred delete; it is never returned, and exchange 1 gets
   the next id *)
Definition ex_schedule : list pl_label :=
  [PlLSpawn 9; PlLAdd 0; PlLWrite 0 true; PlLCancel 0; PlLCtxArm 0; PlLRecv 0 77; PlLLookup; PlLSend; PlLDelete 0;
   PlLSpawn 9; PlLAdd 1; PlLWrite 1 true; PlLRecv 0 78; PlLLookup; PlLRecv 1 79; PlLLookup; PlLSend; PlLTakeReply 1; PlLDelete 1].

Example C05_example_schedule :
  match pl_run ex_schedule (pl_init false 0) with
  | Some s => pl_outcomes s = [(PlOErr, Some 0); (PlOMsg 79 true, Some 1)] /\ pl_queue s = [] /\ pl_nextQid s = 2
  | None => False
  end.
Proof. vm_compute. auto. Qed.

(* id exhaustion: a connection whose next id is 65534 serves two more exchanges, refuses the third, and
   retires itself when the last waiter leaves *)
Example C05_example_exhaustion :
  pl_history_outcomes true 65534 [PlEvStart 1; PlEvStart 2; PlEvStart 3; PlEvReplyTo 0 5; PlEvReplyTo 1 6] =
  ([(PlOMsg 5 true, Some 65534); (PlOMsg 6 true, Some 65535); (PlOErr, None)], true).
Proof. vm_compute. reflexivity. Qed.

(* two callers racing at the boundary: one id (65535) is left; BOTH callers are handed the connection (Status
   says available to each, Reserve does not count the last slot); the loser of the addQueueC race gets EoL and
   no id, nothing wraps to 0, and a stale reply carrying id 0 — the answer to the connection's first, long
   abandoned exchange — is dropped instead of satisfying anybody *)
Definition ex_race_prefix : list pl_label :=
  [PlLSpawn 7; PlLSpawn 8; PlLReserve; PlLReserve].
Definition ex_race_rest : list pl_label :=
  [PlLAdd 1; PlLAdd 0; PlLWrite 1 true; PlLRecv 0 99; PlLLookup; PlLRecv 65535 5; PlLLookup; PlLSend;
   PlLTakeReply 1; PlLDelete 1; PlLEolClose 1].

Example C05_example_boundary_race :
  match pl_run ex_race_prefix (pl_init true 65535) with
  | Some s1 =>
      pl_status_available s1 = true /\
      match pl_run ex_race_rest s1 with
      | Some s2 => pl_outcomes s2 = [(PlOErr, None); (PlOMsg 5 true, Some 65535)] /\
                   pl_nextQid s2 = 65536 /\ pl_closed s2 = true /\ pl_status_available s2 = false /\
                   map snd (pl_alog s2) = [65535]
      | None => False
      end
  | None => False
  end.
Proof. vm_compute. repeat split; reflexivity. Qed.

(* ====================================================================================================== *)
(* The callers' payload slices and the octets on the wire (Net/PipelineBuf.v, Net/PipelineBufProofs.v).    *)
(*                                                                                                        *)
(* [plb_reachable tcp q0 heap s]: s is reached from a connection whose callers own the slices [heap]       *)
(* (buffer id |-> octets, each at least 2 octets when used) by ANY finite sequence of the buffer-level     *)
(* actions: any number of exchanges, ANY NUMBER OF THEM CALLED WITH THE SAME SLICE, any interleaving of     *)
(* spawn / addQueueC / copy / Write / read loop / select arms / delete / close, any server behaviour.      *)
(* [plb_tbuf s] exchange |-> its slice; [plb_wire s] (exchange, octets handed to net.Conn.Write).          *)
(* ====================================================================================================== *)

(* pipelineConn.write as a function of (m, qid): the caller's slice comes back as it went in, and what is handed
   to net.Conn.Write is (TCP: 2-octet length header, then) the 2 octets of qid followed by m[2:] *)
Theorem C05_write_private_copy : forall tcp m qid,
  (2 <= length m)%nat ->
  snd (plb_write tcp m qid) = m /\
    fst (plb_write tcp m qid) = plb_frame tcp (plb_id_octets qid ++ skipn 2 m).
Proof. exact write_fun. Qed.
Print Assumptions C05_write_private_copy.

(* the caller's payload is never modified: in every reachable state every slice holds the octets it held when
   the connection was created ("ExchangeContext MUST NOT keep or modify m"), however many exchanges share it *)
Theorem C05_payload_untouched : forall tcp q0 heap s,
  q0 <= 65536 -> plb_reachable tcp q0 heap s -> plb_heap s = heap.
Proof. exact payload_untouched. Qed.
Print Assumptions C05_payload_untouched.

(* the wire carries assigned_id ++ tail(payload): whatever exchange t handed to net.Conn.Write is the wire id
   ASSIGNED TO t (one of the connection's assigned ids, <= 65535) followed by the tail of t's own payload, and
   a server reading the transaction id of those octets reads exactly that id *)
Theorem C05_wire_bytes : forall tcp q0 heap s t w,
  q0 <= 65536 -> plb_reachable tcp q0 heap s -> In (t, w) (plb_wire s) ->
  exists th wid b m,
    pl_tget (plb_core s) t = Some th /\ pl_twid th = Some wid /\
    In wid (assigned_ids (plb_core s)) /\ wid <= 65535 /\
    pl_alookup t (plb_tbuf s) = Some b /\ pl_alookup b heap = Some m /\
    w = plb_frame tcp (plb_id_octets wid ++ skipn 2 m) /\ plb_wire_id tcp w = wid.
Proof. exact wire_bytes. Qed.
Print Assumptions C05_wire_bytes.

(* none duplicated: an exchange writes at most once, and two writes whose octets carry the same transaction id
   are the same write of the same exchange — the server never sees one id in the queries of two exchanges *)
Theorem C05_wire_once : forall tcp q0 heap s,
  q0 <= 65536 -> plb_reachable tcp q0 heap s ->
  NoDup (map fst (plb_wire s)) /\
    forall t1 w1 t2 w2, In (t1, w1) (plb_wire s) -> In (t2, w2) (plb_wire s) ->
    plb_wire_id tcp w1 = plb_wire_id tcp w2 -> t1 = t2 /\ w1 = w2.
Proof. exact wire_once. Qed.
Print Assumptions C05_wire_once.

(* none missing: an exchange that is past a successful write (waiting for its reply, or returned / cancelled /
   closed after it) has its query on the wire — with C05_wire_bytes: under its own assigned id *)
Theorem C05_wire_complete : forall tcp q0 heap s t th,
  q0 <= 65536 -> plb_reachable tcp q0 heap s ->
  pl_tget (plb_core s) t = Some th -> plb_sent th -> exists w, In (t, w) (plb_wire s).
Proof. exact wire_complete. Qed.
Print Assumptions C05_wire_complete.

(* the caller's original id is restored: the reply arm reads the id from the shared slice when the reply arrives
   (r.Header.ID = be16(m)); because no action writes to a slice, that is the id the caller put there — also
   when other exchanges were handed the same slice *)
Theorem C05_restored_id : forall tcp q0 heap s t th r b m,
  q0 <= 65536 -> plb_reachable tcp q0 heap s ->
  pl_tget (plb_core s) t = Some th -> pc_result (pl_tpc th) = Some (PlRMsg r) ->
  pl_alookup t (plb_tbuf s) = Some b -> pl_alookup b heap = Some m ->
  pl_mhid r = plb_be16 m.
Proof. exact restored_id. Qed.
Print Assumptions C05_restored_id.

(* the buffer-level system is a refinement of Net/Pipeline.v: all theorems above this block hold for its runs
   (fresh ids, delivery, no double delivery, late replies), in particular with shared slices *)
Theorem C05_buf_refines : forall tcp q0 heap s,
  q0 <= 65536 -> plb_reachable tcp q0 heap s -> reachable tcp q0 (plb_core s).
Proof. exact buf_refines. Qed.
Print Assumptions C05_buf_refines.

(* the runs replayed by the correspondence check (kind pipeline_shared: sequential reuse of a slice, then a burst
   of exchanges that are all inside write at the same time, several of them with the same slice) are schedules
   of that system *)
Theorem C05_shared_run_reachable : forall tcp q0 heap warm bs,
  plb_reachable tcp q0 heap (plb_shared_run tcp q0 heap warm bs).
Proof. exact shared_run_reachable. Qed.
Print Assumptions C05_shared_run_reachable.

(* ---------- non-vacuity ---------- *)
Definition ex_pay (id x : N) : list N := [id / 256; id mod 256; 1; 0; 0; 1; 0; 0; 0; 0; 0; 0; x].
Definition ex_heap : list (N * list N) := [(0, ex_pay 666 7); (1, ex_pay 5 9)].

(* slice 0 (caller id 666) is used once alone and then by three of four concurrent exchanges, slice 1 (caller id
   5, equal to a wire id of the burst) by the fourth: ids 0..4 on the wire, each in front of the right tail,
   every exchange gets a reply with its caller's id, slices unchanged *)
Example C05_example_shared :
  plb_observe (plb_shared_run false 0 ex_heap 1 [0; 0; 1; 0]) =
  ([(PlOMsg 1 true, Some 0); (PlOMsg 2 true, Some 1); (PlOMsg 3 true, Some 2); (PlOMsg 4 true, Some 3);
    (PlOMsg 5 true, Some 4)], false,
   [(0, ex_pay 0 7); (1, ex_pay 1 7); (2, ex_pay 2 7); (3, ex_pay 3 9); (4, ex_pay 4 7)],
   ex_heap).
Proof. vm_compute. reflexivity. Qed.

(* the same over TCP framing next to the end of the id space *)
Example C05_example_shared_tcp :
  plb_observe (plb_shared_run true 65534 ex_heap 0 [0; 0]) =
  ([(PlOMsg 1 true, Some 65534); (PlOMsg 2 true, Some 65535)], true,
   [(0, 0 :: 13 :: ex_pay 65534 7); (1, 0 :: 13 :: ex_pay 65535 7)], ex_heap).
Proof. vm_compute. reflexivity. Qed.

(* Why the copy is necessary.  The design "write the wire id into the caller's slice, send the slice, put the old
   id back" (plb_ip_step: PlbIpSet / PlbIpWrite / PlbIpRestore instead of copy / write) is indistinguishable for a
   sequential caller, but with two exchanges on ONE slice this schedule — both inside write together — puts wire
   id 1 on the wire twice and the assigned id 0 never (exchange 0 waits for ever), leaves the caller's slice with
   id 0 instead of 666, and exchange 1 returns its reply with id 0 instead of the caller's 666. *)
Definition ex_ip_schedule : list plb_ip_label :=
  [PlbIpOther (PlbLSpawn 0); PlbIpOther (PlbLSpawn 0);
   PlbIpOther (PlbLCore (PlLAdd 0)); PlbIpOther (PlbLCore (PlLAdd 1));
   PlbIpSet 0; PlbIpSet 1; PlbIpWrite 0; PlbIpWrite 1; PlbIpRestore 0; PlbIpRestore 1;
   PlbIpOther (PlbLCore (PlLRecv 1 50)); PlbIpOther (PlbLCore PlLLookup); PlbIpOther (PlbLCore PlLSend);
   PlbIpOther (PlbLTake 1); PlbIpOther (PlbLCore (PlLDelete 1))].

Theorem C05_inplace_write_refuted :
  exists s, plb_ip_run ex_ip_schedule (plb_init false 0 ex_heap) = Some s /\
    plb_observe s =
    ([(PlOWait, Some 0); (PlOMsg 50 false, Some 1)], false,
     [(0, ex_pay 1 7); (1, ex_pay 1 7)],
     [(0, ex_pay 0 7); (1, ex_pay 5 9)]).
Proof. eexists. split; vm_compute; reflexivity. Qed.
Print Assumptions C05_inplace_write_refuted.

(* ====================================================================================================== *)
(* Write failures.  [PlLWrite t false] is an ENVIRONMENT outcome of the write step: net.Conn.Write may fail *)
(* for any exchange at any time (EMSGSIZE for a query of 65508..65535 octets on a datagram socket — the    *)
(* connection stays open; any error on TCP / DoT), also while other exchanges are in flight.  It is one of  *)
(* the labels of [reachable] / [pl_run], so every theorem above already covers histories with failed       *)
(* writes; the statements below say explicitly what a failed write may NOT do.                             *)
(* ====================================================================================================== *)

(* a write, successful or failed, leaves the id counter, the assignment log and the waiter table alone: the id
   of an exchange whose write failed stays consumed *)
Theorem C05_write_keeps_id : forall s t ok s',
  pl_step s (PlLWrite t ok) = Some s' ->
  pl_nextQid s' = pl_nextQid s /\ pl_alog s' = pl_alog s /\ pl_queue s' = pl_queue s /\ pl_closed s' = pl_closed s.
Proof. exact write_keeps_id. Qed.
Print Assumptions C05_write_keeps_id.

(* ids are never reused during a connection's life, whatever writes do: along EVERY continuation (any
   interleaving of failed and successful writes with addQueueC, replies, cancels, closes) the counter never
   decreases, the assignment log only grows, assigned ids stay pairwise distinct, and an id that was ever
   assigned to exchange t — even if t's write failed and t is long gone — is never held by another exchange *)
Theorem C05_ids_never_reused : forall tcp q0 s,
  q0 <= 65536 -> reachable tcp q0 s ->
  forall ls s', pl_run ls s = Some s' ->
    pl_nextQid s <= pl_nextQid s' /\
    (exists new, pl_alog s' = new ++ pl_alog s) /\
    NoDup (assigned_ids s') /\
    (forall t th w, pl_tget s t = Some th -> pl_twid th = Some w ->
       forall t' th', pl_tget s' t' = Some th' -> pl_twid th' = Some w -> t' = t).
Proof. exact ids_never_reused. Qed.
Print Assumptions C05_ids_never_reused.

(* a history with failed writes between live exchanges (the events replayed by the correspondence check):
   exchange 1 is assigned id 1 and sits in Write, exchange 2 takes id 2 and is written, exchange 1's Write
   fails, exchange 3 takes id 3 (NOT 2), the late reply to 2 goes to 2, the reply to 3 to 3; a sequential
   failing exchange consumes id 4; exchange 5 gets id 5 *)
Example C05_example_write_failure :
  pl_history_outcomes false 0
    [PlEvStart 100; PlEvReplyTo 0 1; PlEvHold 101; PlEvStart 102; PlEvRelease 1 false false; PlEvStart 103;
     PlEvReplyTo 2 7; PlEvReplyTo 3 8; PlEvStartFail 104 false; PlEvStart 105; PlEvReplyTo 5 9] =
  ([(PlOMsg 1 true, Some 0); (PlOErr, None); (PlOMsg 7 true, Some 2); (PlOMsg 8 true, Some 3);
    (PlOErr, None); (PlOMsg 9 true, Some 5)], false).
Proof. vm_compute. reflexivity. Qed.

(* Why the id must stay consumed.  The design "a failed write gives its id back" (pl_gb_step: nextQid-- after a
   failed write) is harmless sequentially, but on this schedule — exchange 0's write fails after exchange 1 took
   the next id — exchange 2 is assigned id 1 AGAIN while exchange 1 still waits on it: the waiter table entry of
   exchange 1 is overwritten, the server's reply to exchange 1 (tag 50) is returned by exchange 2, and exchange 1
   waits for ever. *)
Definition ex_gb_schedule : list pl_label :=
  [PlLSpawn 7; PlLAdd 0; PlLSpawn 8; PlLAdd 1; PlLWrite 1 true; PlLWrite 0 false; PlLDelete 0;
   PlLSpawn 9; PlLAdd 2; PlLWrite 2 true; PlLRecv 1 50; PlLLookup; PlLSend; PlLTakeReply 2; PlLDelete 2].

Theorem C05_giveback_refuted :
  exists s, pl_gb_run ex_gb_schedule (pl_init false 0) = Some s /\
    pl_outcomes s = [(PlOErr, None); (PlOWait, Some 1); (PlOMsg 50 true, Some 1)] /\
    map snd (pl_alog s) = [1; 1; 0] /\ pl_queue s = [].
Proof. eexists. split; [vm_compute; reflexivity|]. vm_compute. repeat split; reflexivity. Qed.
Print Assumptions C05_giveback_refuted.

(* the faithful model on the same schedule up to the reply: exchange 2 gets the fresh id 2, and the reply to id 1
   reaches exchange 1 *)
Example C05_example_no_giveback :
  match pl_run [PlLSpawn 7; PlLAdd 0; PlLSpawn 8; PlLAdd 1; PlLWrite 1 true; PlLWrite 0 false; PlLDelete 0;
                PlLSpawn 9; PlLAdd 2; PlLWrite 2 true; PlLRecv 1 50; PlLLookup; PlLSend; PlLTakeReply 1; PlLDelete 1]
              (pl_init false 0) with
  | Some s => map snd (pl_alog s) = [2; 1; 0] /\
              pl_outcomes s = [(PlOErr, None); (PlOMsg 50 true, Some 1); (PlOWait, Some 2)]
  | None => False
  end.
Proof. vm_compute. split; reflexivity. Qed.

(* a write error other than EMSGSIZE on a datagram socket closes the connection from inside write: the waiting
   exchange 0 leaves with an error, nothing is assigned afterwards that could collide *)
Example C05_example_write_failure_close :
  pl_history_outcomes false 0 [PlEvStart 1; PlEvHold 2; PlEvStart 3; PlEvRelease 1 false true; PlEvStart 4] =
  ([(PlOErr, Some 0); (PlOErr, None); (PlOErr, Some 2); (PlOErr, None)], true).
Proof. vm_compute. reflexivity. Qed.

(* ====================================================================================================== *)
(* Both select arms ready.  The exchange's Write may return late: the query is on the wire, the exchange has not  *)
(* run its select; meanwhile the read loop delivers the reply into its channel AND the connection is closed.       *)
(* In the LTS that is a state (pc Waiting, channel full, closed) in which LTakeReply and LConnArm are both         *)
(* enabled - one of the schedules [reachable] quantifies over.                                                    *)
(* ====================================================================================================== *)

(* every message an exchange returns has the caller's id restored, whatever arm of the select it left through, and is
   a message the read loop received under the exchange's own wire id *)
Theorem C05_restored_id_every_arm : forall tcp q0 s t th r,
  q0 <= 65536 -> reachable tcp q0 s ->
  pl_tget s t = Some th -> pc_result (pl_tpc th) = Some (PlRMsg r) ->
  pl_mhid r = pl_cid th /\
  exists w, pl_twid th = Some w /\ In (pl_with_id r w) (pl_emitted s).
Proof. exact restored_id_every_arm. Qed.
Print Assumptions C05_restored_id_every_arm.

(* with both arms ready, the reply arm returns the reply WITH the caller's id and the connection arm returns no
   message (an error): no arm returns a message with another id *)
Theorem C05_both_arms_ready : forall tcp q0 s t th m,
  q0 <= 65536 -> reachable tcp q0 s ->
  pl_tget s t = Some th -> pl_tpc th = PlPWaiting -> pl_tchan th = Some m -> pl_closed s = true ->
  (exists s1 th1, pl_step s (PlLTakeReply t) = Some s1 /\ pl_tget s1 t = Some th1 /\
     pc_result (pl_tpc th1) = Some (PlRMsg (pl_with_id m (pl_cid th)))) /\
  (exists s2 th2, pl_step s (PlLConnArm t) = Some s2 /\ pl_tget s2 t = Some th2 /\
     pc_result (pl_tpc th2) = Some PlRErrClosed).
Proof. exact both_arms_ready. Qed.
Print Assumptions C05_both_arms_ready.

(* the runs of kind pipeline_arms are schedules of the LTS *)
Theorem C05_arms_refines_small : forall tcp q0 evs c tag cf,
  reachable tcp q0 (pl_both_arms c tag cf (pl_run_history tcp q0 evs)).
Proof. exact arms_refines_small. Qed.
Print Assumptions C05_arms_refines_small.

(* non-vacuity: caller id 666, wire id 1; reply arm: M with id restored; connection arm: error *)
Example C05_example_both_arms :
  pl_arms_outcomes true 0 [PlEvStart 9; PlEvReplyTo 0 4] 666 50 false = ([(PlOMsg 4 true, Some 0); (PlOMsg 50 true, Some 1)], true) /\
  pl_arms_outcomes true 0 [PlEvStart 9; PlEvReplyTo 0 4] 666 50 true = ([(PlOMsg 4 true, Some 0); (PlOErr, Some 1)], true).
Proof. vm_compute. split; reflexivity. Qed.

(* Why the restore must sit on every path that returns a message.  The variant "the connection arm returns a reply
   that made it just before the close" (pl_ca_step) returns, on the both-arms-ready schedule, the reply with the WIRE
   id 0 instead of the caller's 666. *)
Theorem C05_conn_arm_reply_refuted :
  exists s th r, pl_ca_run [PlLSpawn 666; PlLAdd 0; PlLWrite 0 true; PlLRecv 0 50; PlLLookup; PlLSend; PlLClose; PlLConnArm 0]
                   (pl_init true 0) = Some s /\
    pl_tget s 0 = Some th /\ pl_tpc th = PlPLeaving (PlRMsg r) /\ pl_cid th = 666 /\ pl_mhid r = 0 /\ pl_mtag r = 50.
Proof. eexists. eexists. eexists. split; [vm_compute; reflexivity|]. vm_compute. repeat split; reflexivity. Qed.
Print Assumptions C05_conn_arm_reply_refuted.
