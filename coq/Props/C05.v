(* C05 — multiplexed upstream replies reach exactly the exchange that asked.
   Only statements; model in Net/Pipeline.v, proofs in Net/PipelineProofs.v.

   [reachable tcp q0 s]: s is reached from the initial state of ONE pipelined connection (first wire id q0;
   the real code has q0 = 0, the correspondence check also starts connections near 65535) by ANY finite
   sequence of atomic actions: any number of exchange threads, any interleaving, any server behaviour
   (LRecv carries any 16-bit id at any time), any cancellation / close placement.
   [tget s t = Some th]: exchange (thread) t exists with record th; [twid th] its wire id;
   [pc_result (tpc th) = Some (RMsg r)]: it has chosen to return message r (select arm taken or later). *)
From Mos Require Import Base.Prelude Net.Pipeline Net.PipelineProofs.
Local Open Scope N_scope.

(* ids assigned on a connection are q0, q0+1, q0+2, … in order of assignment (for the real q0 = 0:
   0,1,2,…), never above 65535, never reused; nextQid counts them *)
Theorem C05_ids_fresh : forall tcp q0 s,
  q0 <= 65536 -> reachable tcp q0 s ->
  assigned_ids s = nseq q0 (length (pl_alog s)) /\
  pl_nextQid s = q0 + N.of_nat (length (pl_alog s)) /\
  pl_nextQid s <= 65536 /\
  (forall w, In w (assigned_ids s) -> q0 <= w <= 65535) /\
  NoDup (assigned_ids s).
Proof. exact ids_fresh. Qed.
Print Assumptions C05_ids_fresh.

(* the id an exchange holds is one of the assigned ones, and no two exchanges ever hold the same id *)
Theorem C05_ids_exchange : forall tcp q0 s,
  q0 <= 65536 -> reachable tcp q0 s ->
  (forall t th w, pl_tget s t = Some th -> pl_twid th = Some w -> In w (assigned_ids s)) /\
  (forall t1 t2 th1 th2 w, pl_tget s t1 = Some th1 -> pl_tget s t2 = Some th2 ->
     pl_twid th1 = Some w -> pl_twid th2 = Some w -> t1 = t2).
Proof. exact ids_exchange. Qed.
Print Assumptions C05_ids_exchange.

(* addQueueC never overwrites a waiter: every id >= nextQid has no entry in the waiter table *)
Theorem C05_add_no_overwrite : forall tcp q0 s,
  q0 <= 65536 -> reachable tcp q0 s -> forall w, pl_nextQid s <= w -> pl_alookup w (pl_queue s) = None.
Proof. exact add_no_overwrite. Qed.
Print Assumptions C05_add_no_overwrite.

(* after id 65535 has been assigned (65536 assignments when q0 = 0) addQueueC fails with EoL: no id is
   assigned, the counter does not move (never wraps), and the pool sees the connection as unavailable *)
Theorem C05_ids_exhausted : forall tcp q0 s t th,
  q0 <= 65536 -> reachable tcp q0 s -> pl_nextQid s = 65536 ->
  pl_tget s t = Some th -> pl_tpc th = PlPStart ->
  pl_status_available s = false /\
  exists s' th', pl_step s (PlLAdd t) = Some s' /\
    pl_tget s' t = Some th' /\ pl_tpc th' = PlPReturned PlRErrEoL /\ pl_twid th' = None /\
    pl_nextQid s' = 65536 /\ pl_alog s' = pl_alog s /\ pl_queue s' = pl_queue s.
Proof. exact add_exhausted. Qed.
Print Assumptions C05_ids_exhausted.

(* the end-of-life boundary under concurrency: once nextQid has reached 65536 it stays there under EVERY
   continuation (any number of threads, any interleaving of Reserve / Status / addQueueC / replies / cancels /
   closes): no further wire id is ever assigned — in particular none wraps to 0 — and Status says unavailable.
   Whatever Reserve/Status told the callers that were handed the connection while ids were left is irrelevant. *)
Theorem C05_exhausted_forever : forall tcp q0 s,
  q0 <= 65536 -> reachable tcp q0 s -> pl_nextQid s = 65536 ->
  forall ls s', pl_run ls s = Some s' ->
    pl_nextQid s' = 65536 /\ pl_alog s' = pl_alog s /\ pl_status_available s' = false.
Proof. exact exhausted_forever. Qed.
Print Assumptions C05_exhausted_forever.

(* ... so every later addQueueC, by any thread, fails with EoL and assigns nothing *)
Theorem C05_add_after_exhaustion : forall tcp q0 s,
  q0 <= 65536 -> reachable tcp q0 s -> pl_nextQid s = 65536 ->
  forall ls s' t th, pl_run ls s = Some s' -> pl_tget s' t = Some th -> pl_tpc th = PlPStart ->
  exists s'' th', pl_step s' (PlLAdd t) = Some s'' /\
    pl_tget s'' t = Some th' /\ pl_tpc th' = PlPReturned PlRErrEoL /\ pl_twid th' = None /\
    pl_nextQid s'' = 65536 /\ pl_alog s'' = pl_alog s.
Proof. exact add_after_exhaustion. Qed.
Print Assumptions C05_add_after_exhaustion.

(* the exhausted connection is retired: when its last waiter leaves, deleteQueueC closes it *)
Theorem C05_retired : forall s t th r w,
  pl_nextQid s = 65536 -> pl_tget s t = Some th -> pl_tpc th = PlPLeaving r -> pl_twid th = Some w ->
  pl_queue s = [(w, t)] ->
  exists s1 s2, pl_step s (PlLDelete t) = Some s1 /\ pl_step s1 (PlLEolClose t) = Some s2 /\
    pl_closed s2 = true /\ pl_queue s2 = [] /\ pl_status_available s2 = false /\
    exists th2, pl_tget s2 t = Some th2 /\ pl_tpc th2 = PlPReturned r.
Proof. exact retire_when_drained. Qed.
Print Assumptions C05_retired.

(* if exchange t returns message r then the read loop received (so the server sent) a message instance m
   whose header id is the wire id assigned to t, and r is m with the caller's original id restored *)
Theorem C05_delivery : forall tcp q0 s t th r,
  q0 <= 65536 -> reachable tcp q0 s ->
  pl_tget s t = Some th -> pc_result (pl_tpc th) = Some (PlRMsg r) ->
  exists w m, pl_twid th = Some w /\ In m (pl_emitted s) /\ pl_mhid m = w /\ pl_mhid m < 65536 /\
              r = pl_with_id m (pl_cid th).
Proof. exact delivery. Qed.
Print Assumptions C05_delivery.

(* no received message instance is returned by two exchanges *)
Theorem C05_no_double : forall tcp q0 s t1 t2 th1 th2 r1 r2,
  q0 <= 65536 -> reachable tcp q0 s ->
  pl_tget s t1 = Some th1 -> pl_tget s t2 = Some th2 ->
  pc_result (pl_tpc th1) = Some (PlRMsg r1) -> pc_result (pl_tpc th2) = Some (PlRMsg r2) ->
  pl_mid r1 = pl_mid r2 -> t1 = t2.
Proof. exact no_double. Qed.
Print Assumptions C05_no_double.

(* in flight, too: a response channel only ever holds, and the read loop only ever forwards to a channel,
   a received message whose id is that exchange's wire id *)
Theorem C05_routing : forall tcp q0 s,
  q0 <= 65536 -> reachable tcp q0 s ->
  (forall t th m, pl_tget s t = Some th -> pl_tchan th = Some m -> pl_twid th = Some (pl_mhid m) /\ In m (pl_emitted s)) /\
  (forall m t, pl_rl s = PlRSend m t -> exists th, pl_tget s t = Some th /\ pl_twid th = Some (pl_mhid m)).
Proof. exact routing. Qed.
Print Assumptions C05_routing.

(* late replies, (a): once the deferred deleteQueueC of exchange t has run, its wire id has no waiter in
   any later state, so getQueueC returns nil for every later message carrying it (it is discarded) *)
Theorem C05_late_reply_discarded : forall tcp q0 s t th w,
  q0 <= 65536 -> reachable tcp q0 s ->
  pl_tget s t = Some th -> pl_twid th = Some w -> left_queue th ->
  forall ls s', pl_run ls s = Some s' -> pl_alookup w (pl_queue s') = None.
Proof. exact late_reply_discarded. Qed.
Print Assumptions C05_late_reply_discarded.

(* late replies, (b): a message instance received after exchange t chose its outcome (returned, was
   cancelled, …) and carrying t's wire id is never returned by ANY exchange, whatever happens later —
   even if it still lands in t's stale channel between the cancel and the deleteQueueC *)
Theorem C05_late_reply : forall tcp q0 s t th w,
  q0 <= 65536 -> reachable tcp q0 s ->
  pl_tget s t = Some th -> pl_twid th = Some w -> decided th ->
  forall ls s', pl_run ls s = Some s' ->
  forall m, In m (pl_emitted s') -> pl_nemit s <= pl_mid m -> pl_mhid m = w ->
  forall t' th' r, pl_tget s' t' = Some th' -> pc_result (pl_tpc th') = Some (PlRMsg r) -> pl_mid r <> pl_mid m.
Proof. exact late_reply_never_returned. Qed.
Print Assumptions C05_late_reply.

(* the histories replayed by the correspondence check are schedules of the LTS the theorems cover *)
Theorem C05_big_refines_small : forall tcp q0 evs, reachable tcp q0 (pl_run_history tcp q0 evs).
Proof. exact big_refines_small. Qed.
Print Assumptions C05_big_refines_small.

(* ---------- non-vacuity ---------- *)
(* out-of-order + duplicate + unsolicited + late-after-cancel replies: exchanges 0,1,2 (caller ids 500,
   501,500) get wire ids 0,1,2; the server answers 1 before 0, repeats both, sends an unknown id 7;
   exchange 2 is cancelled and its reply arrives late; exchange 3 then gets id 3 and ITS reply. *)
Definition ex_history : list pl_event :=
  [PlEvStart 500; PlEvStart 501; PlEvStart 500;
   PlEvReplyTo 1 11; PlEvReplyTo 0 12; PlEvReplyTo 1 13; PlEvReplyTo 0 14; PlEvEmitId 7 15;
   PlEvCancel 2; PlEvReplyTo 2 16; PlEvStart 502; PlEvEmitId 2 17; PlEvReplyTo 3 18].

Example C05_example_history :
  pl_history_outcomes true 0 ex_history =
  ([(PlOMsg 12 true, Some 0); (PlOMsg 11 true, Some 1); (PlOErr, Some 2); (PlOMsg 18 true, Some 3)], false).
Proof. vm_compute. reflexivity. Qed.

(* the hypotheses of C05_delivery / C05_late_reply are met in that run *)
Example C05_example_delivery :
  let s := pl_run_history true 0 ex_history in
  exists th r, pl_tget s 3 = Some th /\ pc_result (pl_tpc th) = Some (PlRMsg r) /\ pl_mtag r = 18 /\ pl_mhid r = 502 /\
               pl_twid th = Some 3 /\ length (pl_emitted s) = 8%nat.
Proof. vm_compute. eexists. eexists. repeat split; reflexivity. Qed.

(* a small-step schedule that is NOT quiescent: the late reply to the cancelled exchange 0 lands in its
   stale channel between the ctx arm and the deferred delete; it is never returned, and exchange 1 gets
   the next id *)
Definition ex_schedule : list pl_label :=
  [PlLSpawn 9; PlLAdd 0; PlLWrite 0 true; PlLCancel 0; PlLCtxArm 0; PlLRecv 0 77; PlLLookup; PlLSend; PlLDelete 0;
   PlLSpawn 9; PlLAdd 1; PlLWrite 1 true; PlLRecv 0 78; PlLLookup; PlLRecv 1 79; PlLLookup; PlLSend; PlLTakeReply 1; PlLDelete 1].

Example C05_example_schedule :
  match pl_run ex_schedule (pl_init false 0) with
  | Some s => pl_outcomes s = [(PlOErr, Some 0); (PlOMsg 79 true, Some 1)] /\ pl_queue s = [] /\ pl_nextQid s = 2
  | None => False
  end.
Proof. vm_compute. auto. Qed.

(* id exhaustion: a connection whose next id is 65534 serves two more exchanges, refuses the third, and
   retires itself when the last waiter leaves *)
Example C05_example_exhaustion :
  pl_history_outcomes true 65534 [PlEvStart 1; PlEvStart 2; PlEvStart 3; PlEvReplyTo 0 5; PlEvReplyTo 1 6] =
  ([(PlOMsg 5 true, Some 65534); (PlOMsg 6 true, Some 65535); (PlOErr, None)], true).
Proof. vm_compute. reflexivity. Qed.

(* two callers racing at the boundary: one id (65535) is left; BOTH callers are handed the connection (Status
   says available to each, Reserve does not count the last slot); the loser of the addQueueC race gets EoL and
   no id, nothing wraps to 0, and a stale reply carrying id 0 — the answer to the connection's first, long
   abandoned exchange — is dropped instead of satisfying anybody *)
Definition ex_race_prefix : list pl_label :=
  [PlLSpawn 7; PlLSpawn 8; PlLReserve; PlLReserve].
Definition ex_race_rest : list pl_label :=
  [PlLAdd 1; PlLAdd 0; PlLWrite 1 true; PlLRecv 0 99; PlLLookup; PlLRecv 65535 5; PlLLookup; PlLSend;
   PlLTakeReply 1; PlLDelete 1; PlLEolClose 1].

Example C05_example_boundary_race :
  match pl_run ex_race_prefix (pl_init true 65535) with
  | Some s1 =>
      pl_status_available s1 = true /\
      match pl_run ex_race_rest s1 with
      | Some s2 => pl_outcomes s2 = [(PlOErr, None); (PlOMsg 5 true, Some 65535)] /\
                   pl_nextQid s2 = 65536 /\ pl_closed s2 = true /\ pl_status_available s2 = false /\
                   map snd (pl_alog s2) = [65535]
      | None => False
      end
  | None => False
  end.
Proof. vm_compute. repeat split; reflexivity. Qed.
