(* C19 — prefetch is single-flight and never delays a cache hit.
   Only statements; the model is Router/Prefetch.v, proofs are in Router/PrefetchProofs.v.

   Reading guide.  [p_run hash ls (p_init t0) = Some s] says: s is reached from the empty router (clock t0)
   by the schedule ls of atomic actions of ANY number of hit threads (PlArrive/PlHit), refresh threads
   (PlRef), and of the environment (clock PlTick, upstream PlUp with an arbitrary outcome after an arbitrary
   delay, backend eviction PlEvict / expiry PlExpire, miss-path stores PlEnvStore).  [hash] is
   keyForPrefetch as a function of the cache key (question, client group); the theorems hold for every
   such function, injective or not. *)
From Mos Require Import Base.Prelude Cache.Netlist Router.Prefetch Router.PrefetchProofs
  Router.PrefetchGroups Router.PrefetchGroupsProofs Router.PrefetchCost Router.PrefetchCostProofs.
Local Open Scope Z_scope.

(* ------------------------------------------------------------------ single flight *)

(* In every reachable state, two refresh threads that are both between reserve and done (pc <> RfFin)
   and carry the same 64-bit prefetch key are the same thread. *)
Theorem C19_single_flight : forall (hash : N -> N) s j1 j2 r1 r2,
  (exists t0 ls, p_run hash ls (p_init t0) = Some s) ->
  nth_error (p_refs s) j1 = Some r1 -> nth_error (p_refs s) j2 = Some r2 ->
  r_pc r1 <> RfFin -> r_pc r2 <> RfFin -> r_key r1 = r_key r2 -> j1 = j2.
Proof. exact single_flight. Qed.
Print Assumptions C19_single_flight.

(* a fortiori per (question, client group), because key = hash (question, group).  Collision direction:
   two DIFFERENT questions with equal hashes also share one flight (C19_single_flight applies to them):
   collisions can only suppress a refresh, never add one (see C19_example_collision). *)
Theorem C19_single_flight_per_question : forall (hash : N -> N) s j1 j2 r1 r2,
  (exists t0 ls, p_run hash ls (p_init t0) = Some s) ->
  nth_error (p_refs s) j1 = Some r1 -> nth_error (p_refs s) j2 = Some r2 ->
  r_pc r1 <> RfFin -> r_pc r2 <> RfFin -> r_q r1 = r_q r2 -> j1 = j2.
Proof. exact single_flight_question. Qed.
Print Assumptions C19_single_flight_per_question.

(* counting form, and: the in-flight set is exactly the set of keys held by running refresh threads *)
Theorem C19_single_flight_count : forall (hash : N -> N) s k,
  (exists t0 ls, p_run hash ls (p_init t0) = Some s) ->
  (length (filter (ref_holds k) (p_refs s)) <= 1)%nat /\
  (In k (p_inflight s) <-> length (filter (ref_holds k) (p_refs s)) = 1%nat).
Proof. intros hash s k R. split; [exact (single_flight_count hash s k R)|exact (inflight_exact hash s k R)]. Qed.
Print Assumptions C19_single_flight_count.

(* prefetchCtl alone: any op sequence keeps the queue a set; reserve succeeds iff the key is absent *)
Theorem C19_ctl : forall ops k q,
  (forall k', (length (filter (N.eqb k') (snd (pfctl_run ops []))) <= 1)%nat) /\
  (In k q -> p_reserve k q = (q, false)) /\ (~ In k q -> p_reserve k q = (k :: q, true)) /\
  ~ In k (p_done k q).
Proof.
  intros ops k q. split; [|split; [|split]].
  - apply (ctl_run_set_like ops []). intros k'. cbn. lia.
  - apply reserve_spec.
  - apply reserve_spec.
  - apply not_In_remove.
Qed.
Print Assumptions C19_ctl.

(* ------------------------------------------------------------------ the hit is never delayed *)

(* From EVERY state in which hit thread i holds a looked-up entry e (pc after the lookup), the thread
   reaches "responded with e" by at most three steps, all its own (the schedule is PlHit i repeated):
   it needs no step of any refresh thread and none of the environment — in particular it never waits
   for the upstream, whatever the refresh for its key is doing. *)
Theorem C19_hit_nonblocking : forall (hash : N -> N) s i h e,
  nth_error (p_hits s) i = Some h ->
  (h_pc h = HWindow e \/ h_pc h = HReserve e \/ h_pc h = HRespond e) ->
  exists n s' h', (n <= 3)%nat /\ p_run hash (repeat (PlHit i) n) s = Some s' /\
                  nth_error (p_hits s') i = Some h' /\ h_pc h' = HDone e /\ h_q h' = h_q h.
Proof. exact hit_nonblocking. Qed.
Print Assumptions C19_hit_nonblocking.

(* no action of the hit path has a guard on another thread: the next action is always enabled *)
Theorem C19_hit_never_blocked : forall (hash : N -> N) s i h,
  nth_error (p_hits s) i = Some h -> (forall e, h_pc h <> HDone e) -> h_pc h <> HMiss ->
  exists s', p_step hash s (PlHit i) = Some s'.
Proof. exact hit_never_blocked. Qed.
Print Assumptions C19_hit_never_blocked.

(* Round 2: the two theorems above speak about ONE action (always enabled) and about a thread that already
   holds its entry.  The next two make the clause "the hit is answered immediately from cache ... no matter how
   many ..." explicit for the WHOLE hit path and for ANY amount of background work:

   From EVERY state s — reachable or not, hence in particular every reachable one; with any number of refresh
   threads in p_refs s (0, 64, 65, 10^6, all stalled in RfWait, ...) and any in-flight set — a hit thread about
   to look up a present entry e runs to "responded with e" by hit_steps (p_now s) e <= 4 actions that are all
   its own.  The spawn of the refresh is part of the reserve action (one atomic, unguarded step: there is no
   separate "hand the job to a worker" step that a full worker pool / a bounded errgroup / a channel without
   buffer could disable).  The run does not touch the clock, the cache, the upstream log or any existing
   refresh thread, and appends at most one refresh thread.

   What ties "enabled in the model" to "does not block in the implementation" is the kind `prefetchfan` of
   bin/check C19 (harness/cmd/implrun/c19_fan.go): N distinct (question, group) entries inside their last
   quarter, upstream stalled, one hit per entry in quick succession and concurrently through the real
   listeners, N over 1, 2, 63, 64, 65, 128, 300, ...; every hit must be answered from the cache within 1 s
   while N refreshes are in flight (observed, not proved: an implementation whose spawn can block — e.g.
   errgroup.Go with SetLimit — is NOT an instance of this LTS, and only that kind can tell). *)
Theorem C19_hit_enabled_whatever_in_flight : forall (hash : N -> N) s i h e,
  nth_error (p_hits s) i = Some h -> h_pc h = HLookup -> p_lookup (h_q h) (p_cache s) = Some e ->
  exists s' h', p_run hash (repeat (PlHit i) (hit_steps (p_now s) e)) s = Some s' /\
    nth_error (p_hits s') i = Some h' /\ h_pc h' = HDone e /\ h_q h' = h_q h /\ h_tw h' = p_now s /\
    p_now s' = p_now s /\ p_cache s' = p_cache s /\ p_sent s' = p_sent s /\
    (forall j r, nth_error (p_refs s) j = Some r -> nth_error (p_refs s') j = Some r) /\
    (length (p_refs s') <= S (length (p_refs s)))%nat.
Proof. exact hit_total. Qed.
Print Assumptions C19_hit_enabled_whatever_in_flight.

(* ... and its response does not depend on them: two states that agree on the clock, the cache and the hit
   thread, and differ ARBITRARILY in refresh threads, in-flight set and upstream log, give the same number of
   steps, the same response e and the same window-test instant. *)
Theorem C19_hit_independent_of_refreshes : forall (hash : N -> N) s1 s2 i h e,
  p_now s1 = p_now s2 -> p_cache s1 = p_cache s2 ->
  nth_error (p_hits s1) i = Some h -> nth_error (p_hits s2) i = Some h ->
  h_pc h = HLookup -> p_lookup (h_q h) (p_cache s1) = Some e ->
  exists n s1' s2' h1 h2, (n <= 4)%nat /\
    p_run hash (repeat (PlHit i) n) s1 = Some s1' /\ p_run hash (repeat (PlHit i) n) s2 = Some s2' /\
    nth_error (p_hits s1') i = Some h1 /\ nth_error (p_hits s2') i = Some h2 /\
    h_pc h1 = HDone e /\ h_pc h2 = HDone e /\ h_tw h1 = h_tw h2 /\
    p_cache s1' = p_cache s2' /\ p_now s1' = p_now s2'.
Proof. exact hit_independent_of_refreshes. Qed.
Print Assumptions C19_hit_independent_of_refreshes.

(* ------------------------------------------------------------------ window *)

(* exact arithmetic of needPrefetch (ns, integers): with remaining = expire - now, lifetime = expire - stored,
     need  <=>  remaining < floor(lifetime / 4)  <=>  4 * (remaining + 1) <= lifetime
           <=>  now >= expire + 1 - floor(lifetime / 4)
   (floor towards minus infinity, which is what >> 2 does on a negative int64). Consequences: with more
   than a quarter left there is no refresh; expire <= stored asks for one only once overdue; an overdue
   entry of non-negative lifetime always asks for one. *)
Theorem C19_window_arith : forall s e n,
  (need_prefetch s e n = true <-> e - n < (e - s) / 4) /\
  (need_prefetch s e n = true <-> 4 * (e - n) + 4 <= e - s) /\
  (need_prefetch s e n = true <-> prefetch_threshold s e <= n) /\
  (e - s <= 4 * (e - n) -> need_prefetch s e n = false) /\
  (e <= s -> need_prefetch s e n = true -> e < n) /\
  (s <= e -> e < n -> need_prefetch s e n = true).
Proof.
  intros s e n. split; [apply need_prefetch_spec|]. split; [apply need_prefetch_lin|].
  split; [apply need_prefetch_threshold|]. split; [apply need_prefetch_early|].
  split; [apply need_prefetch_degenerate|apply need_prefetch_overdue].
Qed.
Print Assumptions C19_window_arith.

(* the window action: the thread goes on to the reserve attempt iff need_prefetch holds at that instant *)
Theorem C19_window_step : forall (hash : N -> N) s i h e s',
  nth_error (p_hits s) i = Some h -> h_pc h = HWindow e -> p_step hash s (PlHit i) = Some s' ->
  exists h', nth_error (p_hits s') i = Some h' /\ h_tw h' = p_now s /\
    p_refs s' = p_refs s /\ p_inflight s' = p_inflight s /\ p_cache s' = p_cache s /\
    ((need_prefetch (pe_stored e) (pe_expire e) (p_now s) = true /\ h_pc h' = HReserve e) \/
     (need_prefetch (pe_stored e) (pe_expire e) (p_now s) = false /\ h_pc h' = HRespond e /\ h_att h' = None)).
Proof. exact window_step. Qed.
Print Assumptions C19_window_step.

(* the reserve action: refused iff the key is in flight, otherwise exactly one new refresh thread *)
Theorem C19_reserve_step : forall (hash : N -> N) s i h e s',
  nth_error (p_hits s) i = Some h -> h_pc h = HReserve e -> p_step hash s (PlHit i) = Some s' ->
  p_cache s' = p_cache s /\
  ((In (hash (h_q h)) (p_inflight s) /\ p_refs s' = p_refs s /\ p_inflight s' = p_inflight s) \/
   (~ In (hash (h_q h)) (p_inflight s) /\
    p_refs s' = p_refs s ++ [mkRef (h_q h) (hash (h_q h)) i RfSend None] /\
    p_inflight s' = hash (h_q h) :: p_inflight s)).
Proof. exact reserve_step. Qed.
Print Assumptions C19_reserve_step.

(* over all reachable states: (1) a hit that has passed the window made a reserve attempt iff the window
   test held at the instant it was evaluated; (2) every refresh thread was started by a hit thread for the
   same question whose window test held and whose reserve succeeded, and carries key = hash question;
   (3) every successful reserve has its refresh thread; and refresh threads appear by no other action. *)
Theorem C19_window : forall (hash : N -> N) s,
  (exists t0 ls, p_run hash ls (p_init t0) = Some s) ->
  (forall i h e, nth_error (p_hits s) i = Some h -> (h_pc h = HRespond e \/ h_pc h = HDone e) ->
      (h_att h <> None <-> need_prefetch (pe_stored e) (pe_expire e) (h_tw h) = true)) /\
  (forall j r, nth_error (p_refs s) j = Some r ->
      r_key r = hash (r_q r) /\
      exists h e, nth_error (p_hits s) (r_by r) = Some h /\ h_q h = r_q r /\ h_att h = Some true /\
                  (h_pc h = HRespond e \/ h_pc h = HDone e) /\
                  need_prefetch (pe_stored e) (pe_expire e) (h_tw h) = true) /\
  (forall i h, nth_error (p_hits s) i = Some h -> h_att h = Some true ->
      exists j r, nth_error (p_refs s) j = Some r /\ r_by r = i).
Proof. exact window_global. Qed.
Print Assumptions C19_window.

Theorem C19_refresh_only_by_reserve : forall (hash : N -> N) s l s',
  p_step hash s l = Some s' -> length (p_refs s') <> length (p_refs s) ->
  exists i h e, l = PlHit i /\ nth_error (p_hits s) i = Some h /\ h_pc h = HReserve e.
Proof. exact refs_grow_only_by_reserve. Qed.
Print Assumptions C19_refresh_only_by_reserve.

(* ------------------------------------------------------------------ effect of the refresh *)

(* the store action of a refresh: a positive answer REPLACES the entry (stored = now, expire = now + ttl);
   a negative one is set-if-absent; other questions are untouched; the thread goes on to done *)
Theorem C19_refresh_store : forall (hash : N -> N) s j r v ttl neg s',
  nth_error (p_refs s) j = Some r -> r_pc r = RfStore v ttl neg -> p_step hash s (PlRef j) = Some s' ->
  p_cache s' = p_cache_store (r_q r) (mkPentry (p_now s) (p_now s + ttl) v neg) (p_cache s) /\
  (neg = false -> p_lookup (r_q r) (p_cache s') = Some (mkPentry (p_now s) (p_now s + ttl) v false)) /\
  (neg = true -> forall e0, p_lookup (r_q r) (p_cache s) = Some e0 -> p_cache s' = p_cache s) /\
  (neg = true -> p_lookup (r_q r) (p_cache s) = None ->
                 p_lookup (r_q r) (p_cache s') = Some (mkPentry (p_now s) (p_now s + ttl) v true)) /\
  (forall q', q' <> r_q r -> p_lookup q' (p_cache s') = p_lookup q' (p_cache s)) /\
  p_inflight s' = p_inflight s /\
  exists r', nth_error (p_refs s') j = Some r' /\ r_pc r' = RfRelease /\ r_key r' = r_key r.
Proof. exact refresh_store_step. Qed.
Print Assumptions C19_refresh_store.

(* later hits see the renewed entry *)
Theorem C19_later_hit_sees : forall (hash : N -> N) s i h e,
  nth_error (p_hits s) i = Some h -> h_pc h = HLookup -> p_lookup (h_q h) (p_cache s) = Some e ->
  exists s' h', p_step hash s (PlHit i) = Some s' /\ nth_error (p_hits s') i = Some h' /\ h_pc h' = HWindow e.
Proof. exact later_hit_sees. Qed.
Print Assumptions C19_later_hit_sees.

(* a failed refresh stores nothing: no step of a refresh thread whose exchange failed changes the cache *)
Theorem C19_failed_refresh_stores_nothing : forall (hash : N -> N) s j r l s',
  (exists t0 ls, p_run hash ls (p_init t0) = Some s) ->
  nth_error (p_refs s) j = Some r -> r_out r = Some RfFail ->
  (l = PlRef j \/ exists o, l = PlUp j o) -> p_step hash s l = Some s' -> p_cache s' = p_cache s.
Proof. exact failed_refresh_stores_nothing. Qed.
Print Assumptions C19_failed_refresh_stores_nothing.

(* ... and the old entry stays usable until it expires: apart from a store or a capacity eviction, the
   only step that removes an entry is the backend's expiry, enabled only once now >= expire *)
Theorem C19_entry_survives : forall (hash : N -> N) s l s' q e,
  p_step hash s l = Some s' -> stores_or_evicts s l = false ->
  p_lookup q (p_cache s) = Some e -> p_now s < pe_expire e -> p_lookup q (p_cache s') = Some e.
Proof. exact entry_survives. Qed.
Print Assumptions C19_entry_survives.

(* done always runs.  (a) witness: from any state, a refresh thread that is not finished runs to RfFin by
   <= 4 steps that are its own or "its exchange returns o" — for EVERY outcome o — and then its key is
   out of the in-flight set; (b) it is never stuck; (c) each of its steps strictly decreases a measure;
   (d) no other thread or environment step can change it.  (b)-(d) = every weakly fair path on which the
   exchange returns (C14: by prefetchTimeout) reaches done. *)
Theorem C19_done_reached : forall (hash : N -> N) s j r o,
  nth_error (p_refs s) j = Some r -> r_pc r <> RfFin ->
  exists ls s' r', (length ls <= 4)%nat /\ Forall (fun l => l = PlRef j \/ l = PlUp j o) ls /\
                p_run hash ls s = Some s' /\ nth_error (p_refs s') j = Some r' /\ r_pc r' = RfFin /\
                ~ In (r_key r) (p_inflight s').
Proof. exact done_reached. Qed.
Print Assumptions C19_done_reached.

Theorem C19_done_inevitable : forall (hash : N -> N) s j r,
  nth_error (p_refs s) j = Some r ->
  match r_pc r with
  | RfFin => True
  | RfWait => forall o, exists s', p_step hash s (PlUp j o) = Some s'
  | _ => exists s', p_step hash s (PlRef j) = Some s'
  end /\
  (forall l s', (l = PlRef j \/ exists o, l = PlUp j o) -> p_step hash s l = Some s' ->
     exists r', nth_error (p_refs s') j = Some r' /\ (rmeasure (r_pc r') < rmeasure (r_pc r))%nat /\
                r_key r' = r_key r /\ r_q r' = r_q r) /\
  (forall l s', l <> PlRef j -> (forall o, l <> PlUp j o) -> p_step hash s l = Some s' ->
     nth_error (p_refs s') j = Some r).
Proof.
  intros hash s j r N. split; [exact (refresh_progress hash s j r N)|]. split.
  - intros l s' Hl H. exact (refresh_own_step_decreases hash s l s' j r N Hl H).
  - intros l s' N1 N2 H. exact (refresh_other_step_keeps hash s l s' j r N N1 N2 H).
Qed.
Print Assumptions C19_done_inevitable.

(* once the key is released the next hit in the window starts a new refresh *)
Theorem C19_reserve_after_release : forall (hash : N -> N) s i h e s',
  nth_error (p_hits s) i = Some h -> h_pc h = HReserve e -> ~ In (hash (h_q h)) (p_inflight s) ->
  p_step hash s (PlHit i) = Some s' ->
  p_refs s' = p_refs s ++ [mkRef (h_q h) (hash (h_q h)) i RfSend None].
Proof. exact reserve_after_release. Qed.
Print Assumptions C19_reserve_after_release.

(* the scripted big-step runs used by the correspondence check are schedules of the small-step system,
   hence covered by everything above *)
Theorem C19_big_refines_small : forall (hash : N -> N) es t0,
  exists ls, p_run hash ls (p_init t0) = Some (p_big hash es (p_init t0)).
Proof. intros hash es t0. exact (big_refines_small hash es (p_init t0)). Qed.
Print Assumptions C19_big_refines_small.

(* ------------------------------------------------------------------ client groups (round 3)

   The key of the LTS is the cache key (question, client group).  Router/PrefetchGroups.v makes the two components
   explicit: a client is an address or "no valid address", its group is the ip-marker label of the address
   (Cache/Netlist.v mark_of = cacheCtl.ipMark, C07's model), the key is pg_key mk question client.

   The refresh goroutine gets the client ADDRESS — a value — when it is spawned; the request context of the hit
   is a pooled object that is zeroed and recycled as soon as the hit is written out, i.e. long before the
   upstream answers.  In the model: the (question, group) key, the 64-bit key and the spawning hit of a refresh
   thread are fields of the thread that no step of anybody changes ... *)
Theorem C19_refresh_key_immutable : forall (hash : N -> N) s l s' j r,
  nth_error (p_refs s) j = Some r -> p_step hash s l = Some s' ->
  exists r', nth_error (p_refs s') j = Some r' /\ r_q r' = r_q r /\ r_key r' = r_key r /\ r_by r' = r_by r.
Proof. exact refresh_key_immutable. Qed.
Print Assumptions C19_refresh_key_immutable.

(* ... hence: a successful refresh stores under the key of the hit that started it — the hit thread r_by r, whose
   reserve succeeded — and under no other key. *)
Theorem C19_refresh_stores_under_hit_key : forall (hash : N -> N) s j r v ttl s',
  (exists t0 ls, p_run hash ls (p_init t0) = Some s) ->
  nth_error (p_refs s) j = Some r -> r_pc r = RfStore v ttl false -> p_step hash s (PlRef j) = Some s' ->
  exists h, nth_error (p_hits s) (r_by r) = Some h /\ h_q h = r_q r /\ h_att h = Some true /\
    r_key r = hash (h_q h) /\
    p_lookup (h_q h) (p_cache s') = Some (mkPentry (p_now s) (p_now s + ttl) v false) /\
    (forall k, k <> h_q h -> p_lookup k (p_cache s') = p_lookup k (p_cache s)).
Proof. exact refresh_stores_under_hit_key. Qed.
Print Assumptions C19_refresh_stores_under_hit_key.

(* the key code is injective: one key = one (question, group); clients of one group share it *)
Theorem C19_group_key : forall mk q1 c1 q2 c2,
  pg_marker_bytes mk -> (q1 < 4294967296)%N -> (q2 < 4294967296)%N ->
  (pg_key mk q1 c1 = pg_key mk q2 c2 <-> q1 = q2 /\ pg_group mk c1 = pg_group mk c2).
Proof.
  intros mk q1 c1 q2 c2 MB L1 L2. split.
  - apply pg_key_inj; auto.
  - intros [-> G]. apply pg_key_same_group. exact G.
Qed.
Print Assumptions C19_group_key.

(* With clients (C19: "later hits see renewed TTLs"; C07: "cached answers go only to the same client group"):
   the refresh was started by a hit of client c for question q.  After its store (1) EVERY client of c's group
   finds the renewed entry for q; (2) for every other question or every client of any other group — labelled,
   unlabelled, or without a valid address — the cache holds exactly what it held before: nothing appeared,
   nothing changed.  Tied to the code by kind `prefetchgrp` (ip marker configured, clients of several groups). *)
Theorem C19_refresh_store_grouped : forall (hash : N -> N) mk s j r v ttl s' q c,
  (exists t0 ls, p_run hash ls (p_init t0) = Some s) ->
  nth_error (p_refs s) j = Some r -> r_pc r = RfStore v ttl false -> p_step hash s (PlRef j) = Some s' ->
  pg_marker_bytes mk -> (q < 4294967296)%N ->
  (forall h, nth_error (p_hits s) (r_by r) = Some h -> h_q h = pg_key mk q c) ->
  (forall c2, pg_group mk c2 = pg_group mk c ->
     pg_lookup mk (p_cache s') q c2 = Some (mkPentry (p_now s) (p_now s + ttl) v false)) /\
  (forall q2 c2, (q2 < 4294967296)%N -> (q2 <> q \/ pg_group mk c2 <> pg_group mk c) ->
     pg_lookup mk (p_cache s') q2 c2 = pg_lookup mk (p_cache s) q2 c2).
Proof. exact refresh_store_grouped. Qed.
Print Assumptions C19_refresh_store_grouped.

(* (2) for ANY answer of the upstream (a negative one is set-if-absent under the hit's key, nowhere else) *)
Theorem C19_refresh_other_groups_untouched : forall (hash : N -> N) mk s j r v ttl neg s' q c,
  (exists t0 ls, p_run hash ls (p_init t0) = Some s) ->
  nth_error (p_refs s) j = Some r -> r_pc r = RfStore v ttl neg -> p_step hash s (PlRef j) = Some s' ->
  pg_marker_bytes mk -> (q < 4294967296)%N ->
  (forall h, nth_error (p_hits s) (r_by r) = Some h -> h_q h = pg_key mk q c) ->
  forall q2 c2, (q2 < 4294967296)%N -> (q2 <> q \/ pg_group mk c2 <> pg_group mk c) ->
     pg_lookup mk (p_cache s') q2 c2 = pg_lookup mk (p_cache s) q2 c2.
Proof. exact refresh_store_other_groups. Qed.
Print Assumptions C19_refresh_other_groups_untouched.

(* at most one refresh in flight per (question, group), whichever clients of the group hit *)
Theorem C19_single_flight_per_group : forall (hash : N -> N) mk s j1 j2 r1 r2 q c1 c2,
  (exists t0 ls, p_run hash ls (p_init t0) = Some s) ->
  nth_error (p_refs s) j1 = Some r1 -> nth_error (p_refs s) j2 = Some r2 ->
  r_pc r1 <> RfFin -> r_pc r2 <> RfFin ->
  r_q r1 = pg_key mk q c1 -> r_q r2 = pg_key mk q c2 -> pg_group mk c1 = pg_group mk c2 -> j1 = j2.
Proof. exact single_flight_grouped. Qed.
Print Assumptions C19_single_flight_per_group.

(* The design of the code: the client address is copied when the goroutine is spawned, so the state of the
   hit's (pooled) request context when the upstream answers — still live, zeroed, or reused by a request of any
   other client — does not matter. *)
Theorem C19_refresh_by_value : forall mk q c sl e cache,
  pg_refresh_store false mk q c sl e cache = p_cache_store (pg_key mk q c) e cache /\
  pg_refresh_client false c sl = c.
Proof. intros. split; [apply refresh_by_value_ignores_slot|reflexivity]. Qed.
Print Assumptions C19_refresh_by_value.

(* The other design — keep the *RequestContext and read rc.RemoteAddr when the upstream has answered — is
   REFUTED: marker {10.0.0.0-10.255.255.255 = "lan", 192.168.0.0-192.168.255.255 = "guest"}, question 1, hit by
   10.1.2.3 on lan's entry; by the time the upstream answers the context is zeroed (-> the renewed entry lands in
   group "", lan keeps the old one) or belongs to a request of 192.168.1.1 (-> it lands in group guest).  On the
   same inputs the by-value design renews lan's entry and leaves the other groups without one. *)
Definition ex_mk : option (list range) := Eval vm_compute in
  load_marker [MRange (NlA4 167772160) (NlA4 184549375) [108; 97; 110]%N;
               MRange (NlA4 3232235520) (NlA4 3232301055) [103; 117; 101; 115; 116]%N].
Definition ex_lan1 : option nl_addr := Some (NlA4 167838211).     (* 10.1.2.3 *)
Definition ex_lan2 : option nl_addr := Some (NlA4 168364297).     (* 10.9.9.9 *)
Definition ex_guest : option nl_addr := Some (NlA4 3232235777).   (* 192.168.1.1 *)
Definition ex_out : option nl_addr := Some (NlA4 134744072).      (* 8.8.8.8 *)
Definition ex_old : pentry := mkPentry 0 120 7 false.
Definition ex_new : pentry := mkPentry 100 220 8 false.
Definition ex_cache : list (N * pentry) := [(pg_key ex_mk 1 ex_lan1, ex_old)].

Theorem C19_refresh_reread_refuted :
  exists mk q c c' cache e_old e_new,
    pg_marker_bytes mk /\ e_old <> e_new /\
    pg_group mk c <> [] /\ pg_group mk c' <> [] /\ pg_group mk c <> pg_group mk c' /\
    pg_lookup mk cache q c = Some e_old /\ pg_lookup mk cache q None = None /\ pg_lookup mk cache q c' = None /\
    (pg_lookup mk (pg_refresh_store true mk q c PgRcZeroed e_new cache) q c = Some e_old /\
     pg_lookup mk (pg_refresh_store true mk q c PgRcZeroed e_new cache) q None = Some e_new) /\
    (pg_lookup mk (pg_refresh_store true mk q c (PgRcReused c') e_new cache) q c = Some e_old /\
     pg_lookup mk (pg_refresh_store true mk q c (PgRcReused c') e_new cache) q c' = Some e_new) /\
    (forall sl, pg_lookup mk (pg_refresh_store false mk q c sl e_new cache) q c = Some e_new /\
                pg_lookup mk (pg_refresh_store false mk q c sl e_new cache) q None = None /\
                pg_lookup mk (pg_refresh_store false mk q c sl e_new cache) q c' = None).
Proof.
  exists ex_mk, 1%N, ex_lan1, ex_guest, ex_cache, ex_old, ex_new.
  split; [repeat (constructor; try reflexivity)|].
  split; [discriminate|].
  split; [vm_compute; discriminate|]. split; [vm_compute; discriminate|]. split; [vm_compute; discriminate|].
  split; [vm_compute; reflexivity|]. split; [vm_compute; reflexivity|]. split; [vm_compute; reflexivity|].
  split; [split; vm_compute; reflexivity|]. split; [split; vm_compute; reflexivity|].
  intros sl. rewrite refresh_by_value_ignores_slot. repeat split; vm_compute; reflexivity.
Qed.
Print Assumptions C19_refresh_reread_refuted.

(* ------------------------------------------------------------------ the limiter and the prefetch (round 6)

   Router/PrefetchCost.v: what the resource limiter charges for a run of client queries (connection, query, hit = 1 /
   miss = 3) and background refreshes; token buckets without refill, the global bucket in front of the client's.
   "The hit is answered immediately from cache" and "a failed refresh leaves the old entry usable" include the budget
   that lets in the client's next hit: a refresh must be invisible to it.

   (1) The cost charged to a client is a function of ITS OWN requests only.  Two runs with the same requests in the same
   order and ARBITRARY background refreshes in between — any number, started by anybody, at any point, with any result —
   leave every bucket (and the global one) in the same state and give every request the same fate.  No assumption on
   the budget. *)
Theorem C19_cost_own_requests_only : forall burst st evs1 evs2,
  filter pco_is_req evs1 = filter pco_is_req evs2 ->
  fst (pco_run false burst st evs1) = fst (pco_run false burst st evs2) /\
  filter (fun r => negb (pco_is_bg r)) (snd (pco_run false burst st evs1)) =
  filter (fun r => negb (pco_is_bg r)) (snd (pco_run false burst st evs2)).
Proof. exact pco_run_same_requests. Qed.
Print Assumptions C19_cost_own_requests_only.

(* (2) the amount: when the buckets can pay the own requests (pco_total ignores refreshes), every request is answered and
   every bucket ends at exactly  burst - (connections it opened * 3 + its queries' cost + 1 per hit + 3 per miss) *)
Theorem C19_cost_formula : forall burst gburst evs,
  (forall b, pco_total b evs <= burst) ->
  (forall g, gburst = Some g -> pco_gtotal evs <= g) ->
  pco_all_answered (snd (pco_run false burst (pco_init gburst) evs)) /\
  (forall b, pco_tok burst (fst (pco_run false burst (pco_init gburst) evs)) b = burst - pco_total b evs) /\
  pco_g (fst (pco_run false burst (pco_init gburst) evs)) = option_map (fun g => g - pco_gtotal evs) gburst.
Proof.
  intros burst gburst evs Hb Hg.
  destruct (pco_run_ample burst evs (pco_init gburst)) as [A [T G]]; auto.
Qed.
Print Assumptions C19_cost_formula.

(* (3) a budget sized exactly for n hits of a client lets in and answers these n hits, whatever refreshes they start
   and however these end (kind prefetchcost, mode budget: n hits inside the window against a failing upstream) *)
Theorem C19_budget_for_own_hits : forall burst l peer client n evs,
  filter pco_is_req evs = repeat (PcoReq l peer client PcoHit) n ->
  (forall b, Z.of_nat n * pco_own b (PcoReq l peer client PcoHit) <= burst) ->
  pco_all_answered (snd (pco_run false burst (pco_init None) evs)).
Proof. exact pco_budget_for_hits. Qed.
Print Assumptions C19_budget_for_own_hits.

(* The variant that charges costFromUpstream inside forward() — the same for a miss, but forward() is also what the
   background refresh calls — is REFUTED: client 1 over udp, bucket of 10 = five hits (1 + 1 each); every hit is
   inside the window and starts a refresh that fails, so the next hit starts another: the third hit is REFUSED,
   and the first hit with its refresh costs the client 5 tokens instead of 2. *)
Definition ex_cost_evs : list pco_ev :=
  flat_map (fun _ => [PcoReq PcoUdp (Some 1%N) (Some 1%N) PcoHit; PcoRefresh (Some 1%N)]) (seq 0 5).
Theorem C19_cost_charge_in_forward_refuted :
  exists burst evs,
    (forall b, pco_total b evs <= burst) /\
    pco_all_answered (snd (pco_run false burst (pco_init None) evs)) /\
    ~ pco_all_answered (snd (pco_run true burst (pco_init None) evs)) /\
    (* already the first hit + its refresh take 5 tokens where the client's own request costs 2 *)
    pco_tok burst (fst (pco_run true burst (pco_init None) (firstn 2 evs))) 1 = burst - 5 /\
    pco_total 1 (firstn 2 evs) = 2.
Proof.
  exists 10, ex_cost_evs. split; [|split; [|split]].
  - intros b. destruct (N.eq_dec b 1) as [->|Nb]; [vm_compute; discriminate|].
    assert (E : (1 =? b)%N = false) by (apply N.eqb_neq; congruence).
    unfold ex_cost_evs, pco_total. cbn [flat_map seq app fold_right pco_own pco_is]. rewrite E. cbn. lia.
  - vm_compute. repeat constructor.
  - intros H. apply Forall_forall with (x := PcoRefused) in H; [discriminate H|]. vm_compute. tauto.
  - vm_compute. split; reflexivity.
Qed.
Print Assumptions C19_cost_charge_in_forward_refuted.

(* ------------------------------------------------------------------ non-vacuity *)
Definition s_ns : Z := 1000000000.

(* entry stored at 0 with 4 s lifetime: window opens strictly after 3 s *)
Example C19_example_boundary :
  need_prefetch 0 (4 * s_ns) (3 * s_ns) = false /\          (* exactly 1/4 left: no *)
  need_prefetch 0 (4 * s_ns) (3 * s_ns + 1) = true /\       (* 1 ns later: yes *)
  need_prefetch 0 (4 * s_ns + 3) (3 * s_ns + 3) = false /\  (* floor(lifetime/4) rounding *)
  need_prefetch 0 (4 * s_ns + 3) (3 * s_ns + 4) = true /\
  need_prefetch 5 5 5 = false /\ need_prefetch 5 5 6 = true /\   (* expire = stored *)
  need_prefetch 0 (-1) (-1) = false /\ need_prefetch 0 (-1) 0 = false /\ need_prefetch 0 (-1) 1 = true /\
  prefetch_threshold 0 (4 * s_ns) = 3 * s_ns + 1.
Proof. vm_compute. repeat split; reflexivity. Qed.

(* 50 concurrent hits (round-robin interleaving) inside the window: ONE refresh query, all 50 answered
   with the cached value 7, at most one holder at any time; after the refresh returns value 8 a later
   hit gets 8 with renewed stored/expire; a 51st..: none in flight at the end *)
Definition ex_ok : psummary := Eval vm_compute in
  pf_scenario false 0 [PfStore 1 7 (4 * s_ns) false; PfTick (3 * s_ns + 300000000); PfBurst 1 50;
                    PfSend 0; PfTick (1500000000); PfUp 0 (RfOk 8 (4 * s_ns) false);
                    PfTick 500000000; PfHit 1].
Example C19_example_ok :
  pfs_sent ex_ok = [1%N] /\ pfs_max ex_ok = 1%nat /\ pfs_inflight ex_ok = [] /\
  length (pfs_answers ex_ok) = 51%nat /\
  firstn 50 (pfs_answers ex_ok) = repeat (Some (mkPentry 0 (4 * s_ns) 7 false)) 50 /\
  nth_error (pfs_answers ex_ok) 50 = Some (Some (mkPentry 4800000000 8800000000 8 false)) /\
  nth_error (pfs_atts ex_ok) 0 = Some (Some true) /\ nth_error (pfs_atts ex_ok) 1 = Some (Some false) /\
  nth_error (pfs_atts ex_ok) 50 = Some None.
Proof. vm_compute. repeat split; reflexivity. Qed.

(* failing refresh: nothing stored, old entry still served, key released, next hit refreshes again *)
Definition ex_fail : psummary := Eval vm_compute in
  pf_scenario false 0 [PfStore 1 7 (4 * s_ns) false; PfTick (3 * s_ns + 300000000); PfHit 1;
                    PfSend 0; PfUp 0 RfFail; PfTick 300000000; PfHit 1; PfSend 1].
Example C19_example_fail :
  pfs_sent ex_fail = [1%N; 1%N] /\ pfs_max ex_fail = 1%nat /\ pfs_inflight ex_fail = [1%N] /\
  pfs_answers ex_fail = repeat (Some (mkPentry 0 (4 * s_ns) 7 false)) 2 /\
  pfs_atts ex_fail = [Some true; Some true].
Proof. vm_compute. repeat split; reflexivity. Qed.

(* negative refresh while the entry is present: set-if-absent keeps the old positive entry *)
Definition ex_neg : psummary := Eval vm_compute in
  pf_scenario false 0 [PfStore 1 7 (4 * s_ns) false; PfTick (3 * s_ns + 300000000); PfHit 1;
                    PfSend 0; PfUp 0 (RfOk 9 (30 * s_ns) true); PfHit 1].
Example C19_example_neg :
  pfs_answers ex_neg = repeat (Some (mkPentry 0 (4 * s_ns) 7 false)) 2 /\ pfs_sent ex_neg = [1%N] /\
  pfs_atts ex_neg = [Some true; Some true].
Proof. vm_compute. repeat split; reflexivity. Qed.

(* outside the window nothing is attempted *)
Definition ex_early : psummary := Eval vm_compute in
  pf_scenario false 0 [PfStore 1 7 (4 * s_ns) false; PfTick (3 * s_ns); PfBurst 1 5].
Example C19_example_early :
  pfs_sent ex_early = [] /\ pfs_atts ex_early = repeat None 5 /\ pfs_max ex_early = 0%nat /\
  pfs_answers ex_early = repeat (Some (mkPentry 0 (4 * s_ns) 7 false)) 5.
Proof. vm_compute. repeat split; reflexivity. Qed.

(* hash collision (questions 1 and 9 under hash_mod8): they share ONE flight — fewer refreshes, not more *)
Definition ex_collision : psummary := Eval vm_compute in
  pf_scenario true 0 [PfStore 1 7 (4 * s_ns) false; PfStore 9 6 (4 * s_ns) false;
                   PfTick (3 * s_ns + 300000000); PfHit 1; PfHit 9].
Example C19_example_collision :
  pfs_atts ex_collision = [Some true; Some false] /\ pfs_inflight ex_collision = [1%N] /\
  pfs_max ex_collision = 1%nat /\
  pfs_answers ex_collision = [Some (mkPentry 0 (4 * s_ns) 7 false); Some (mkPentry 0 (4 * s_ns) 6 false)].
Proof. vm_compute. repeat split; reflexivity. Qed.

(* 129 different questions inside their last quarter, one hit each (round-robin interleaving), upstream stalled:
   129 refreshes in flight, one per key; a hit for a 130th key is answered and spawns the 130th; a second hit
   per key is answered and spawns nothing (the scripted run of kind prefetchfan) *)
Definition ex_fan_keys (n : nat) : list N := map N.of_nat (seq 1 n).
Definition ex_fan : psummary := Eval vm_compute in
  pf_scenario false 0 (map (fun q => PfStore q 7 (120 * s_ns) false) (ex_fan_keys 130) ++
                       [PfTick (100 * s_ns); PfFan (ex_fan_keys 129); PfSendN 0 129; PfHit 130%N;
                        PfFan (ex_fan_keys 129)]).
Example C19_example_fan :
  pfs_sent ex_fan = ex_fan_keys 129 /\ length (pfs_inflight ex_fan) = 130%nat /\ pfs_max ex_fan = 1%nat /\
  pfs_answers ex_fan = repeat (Some (mkPentry 0 (120 * s_ns) 7 false)) 259 /\
  firstn 130 (pfs_atts ex_fan) = repeat (Some true) 130 /\
  skipn 130 (pfs_atts ex_fan) = repeat (Some false) 129.
Proof. vm_compute. repeat split; reflexivity. Qed.

(* client groups (the scripted run of kind prefetchgrp): lan's entry for question 1 is in its last quarter, guest's is
   fresh, the unlabelled space and "no valid address" have none.  Five clients ask together: the two lan clients
   are answered 7 and ONE of them reserves, guest is answered its own 9 without a refresh, the other two miss.
   The upstream answers 8: afterwards the OTHER lan client gets 8 with renewed instants, guest still its 9, the
   unlabelled clients still miss; one refresh query, for lan's key; nothing in flight. *)
Definition ex_groups : psummary := Eval vm_compute in
  pg_scenario ex_mk 0 [PgStore 1 ex_lan1 7 (120 * s_ns) false; PgTick (90 * s_ns);
                       PgStore 1 ex_guest 9 (120 * s_ns) false; PgTick (10 * s_ns);
                       PgBurst 1 [ex_lan1; ex_lan2; ex_guest; ex_out; None]; PgSend 0; PgTick s_ns;
                       PgUp 0 (RfOk 8 (120 * s_ns) false); PgTick 100000000;
                       PgHit 1 ex_lan2; PgHit 1 ex_guest; PgHit 1 ex_out; PgHit 1 None].
Example C19_example_groups :
  pfs_sent ex_groups = [pg_key ex_mk 1 ex_lan1] /\ pfs_max ex_groups = 1%nat /\ pfs_inflight ex_groups = [] /\
  pfs_atts ex_groups = [Some true; Some false; None; None; None; None; None; None; None] /\
  pfs_answers ex_groups =
    [Some (mkPentry 0 (120 * s_ns) 7 false); Some (mkPentry 0 (120 * s_ns) 7 false);
     Some (mkPentry (90 * s_ns) (210 * s_ns) 9 false); None; None;
     Some (mkPentry (101 * s_ns) (221 * s_ns) 8 false); Some (mkPentry (90 * s_ns) (210 * s_ns) 9 false); None; None] /\
  pg_key ex_mk 1 ex_lan1 = pg_key ex_mk 1 ex_lan2 /\ pg_key ex_mk 1 ex_lan1 <> pg_key ex_mk 1 ex_guest /\
  pg_key ex_mk 1 ex_out = pg_key ex_mk 1 None.
Proof. vm_compute. repeat split; try reflexivity; discriminate. Qed.

(* the limiter (the scripted run of kind prefetchcost): client 7 asks through DoH (connection peer 9), client 9 over udp
   and tcp; a miss, a hit, two hits inside the window whose refreshes run in the background, with a global bucket:
   bucket 7 pays 2+3, 2+1, 2+1, 2+1 = 14; bucket 9 pays four connections (12) + its udp hit (2) + its tcp miss (3+2+3) = 22 *)
Example C19_example_cost :
  let evs := [PcoReq PcoHttp (Some 9%N) (Some 7%N) PcoMiss; PcoReq PcoHttp (Some 9%N) (Some 7%N) PcoHit;
              PcoReq PcoHttp (Some 9%N) (Some 7%N) PcoHit; PcoRefresh (Some 7%N); PcoReq PcoUdp (Some 9%N) (Some 9%N) PcoHit;
              PcoReq PcoHttp (Some 9%N) (Some 7%N) PcoHit; PcoRefresh (Some 7%N); PcoReq PcoTcp (Some 9%N) (Some 9%N) PcoMiss] in
  let st := fst (pco_run false 1000 (pco_init (Some 5000)) evs) in
  pco_tok 1000 st 7 = 1000 - 14 /\ pco_tok 1000 st 9 = 1000 - 22 /\ pco_tok 1000 st 8 = 1000 /\ pco_g st = Some (5000 - 36) /\
  pco_total 7 evs = 14 /\ pco_total 9 evs = 22 /\ pco_gtotal evs = 36.
Proof. vm_compute. repeat split; reflexivity. Qed.
