(* C13 — stream listeners frame correctly under any segmentation and pipelining
   (and the stream clause of C01: C01_stream_safe).
   Only statements; the model is Net/Framing.v, the proofs are in Net/FramingProofs.v. *)
From Mos Require Import Base.Prelude Codec.Msg Net.Framing Net.FramingProofs Net.FramingTimed Net.FramingTimedProofs.
From Coq Require Import Permutation.

(* ---------------------------------------------------------------------------------------------------
   C13_decode_once.  For EVERY list of frames whose bodies are queries (1..65535 octets; k >= 1 is the
   non-empty case of the same statement, k = 0 holds too), EVERY decoder verdict [ok] and EVERY segmentation
   of their stream (any list of chunks whose concatenation is the stream: cuts inside the prefix, inside
   bodies, several frames per chunk, 1-octet chunks, empty chunks), each reader hands to the handler exactly
   [rd_expect ok frames]: the frames, in order, each once, up to the first one the decoder rejects (which closes
   the connection).  In particular, when every frame decodes, the decoded sequence IS the list of frames and
   the reader is left waiting for more input.
   TCP reader: for every bufio capacity >= 1 (the code uses 1024). *)
Theorem C13_decode_once_tcp : forall (ok : list N -> bool) (cap : nat) (frames : list (list N)) (segs : list (list N)),
  1 <= cap ->
  Forall (fun f => 1 <= length f /\ (N.of_nat (length f) < 65536)%N) frames ->
  concat segs = stream_of frames ->
  tcp_run ok cap segs = Ok (rd_expect ok frames) /\
  (forallb ok frames = true -> tcp_run ok cap segs = Ok (frames, RdNeedMore)).
Proof.
  intros ok cap frames segs Hc Hg E.
  assert (tcp_run ok cap segs = Ok (rd_expect ok frames)) as H.
  { apply tcp_decode_once; auto. eapply Forall_impl; [|exact Hg]. intros f [_ Hf]. exact Hf. }
  split; [exact H|]. intros Ha. rewrite H. f_equal. now apply expect_all.
Qed.
Print Assumptions C13_decode_once_tcp.

Theorem C13_decode_once_gnet : forall (ok : list N -> bool) (frames : list (list N)) (segs : list (list N)),
  Forall (fun f => 1 <= length f /\ (N.of_nat (length f) < 65536)%N) frames ->
  concat segs = stream_of frames ->
  gnet_run ok segs = Ok (rd_expect ok frames) /\
  (forallb ok frames = true -> gnet_run ok segs = Ok (frames, RdNeedMore)).
Proof.
  intros ok frames segs Hg E.
  assert (gnet_run ok segs = Ok (rd_expect ok frames)) as H by (apply gnet_decode_once; auto).
  split; [exact H|]. intros Ha. rewrite H. f_equal. now apply expect_all.
Qed.
Print Assumptions C13_decode_once_gnet.

(* the instance the correspondence check runs (decoder = the model of dnsmsg.UnpackMsg, bufio of 1024 octets) *)
Theorem C13_decode_once : forall (frames : list (list N)) (segs : list (list N)),
  Forall (fun f => 1 <= length f /\ (N.of_nat (length f) < 65536)%N) frames ->
  forallb dns_ok frames = true ->
  concat segs = stream_of frames ->
  tcp_run_dns segs = Ok (frames, RdNeedMore) /\ gnet_run_dns segs = Ok (frames, RdNeedMore).
Proof.
  intros frames segs Hg Ha E. split.
  - apply (C13_decode_once_tcp dns_ok cap1k frames segs cap1k_pos Hg E). exact Ha.
  - apply (C13_decode_once_gnet dns_ok frames segs Hg E). exact Ha.
Qed.
Print Assumptions C13_decode_once.

(* what [rd_expect] delivers is a prefix of what was sent: nothing twice, nothing invented, nothing reordered *)
Theorem C13_expect_prefix : forall ok frames, exists rest, frames = fst (rd_expect ok frames) ++ rest.
Proof. exact expect_prefix. Qed.
Print Assumptions C13_expect_prefix.

(* ---------------------------------------------------------------------------------------------------
   C13_contiguous.  In every reachable state of the writers of one connection — handlers started in any
   number, each response emitted by ONE atomic write of  be16 |body| ++ body,  in ANY completion order —
   the octets written so far are the concatenation of whole units of the responses written (w, in write order),
   (written ++ still pending) is a permutation of the responses started, and the client-side parse of the
   octets returns exactly w: every prefix equals its body length and no response is interleaved with another. *)
Theorem C13_contiguous : forall (started pending : list (list N)) (out : list N) (written : list (list N)),
  wreach started (pending, out, written) ->
  Forall (fun b => (N.of_nat (length b) < 65536)%N) started ->
  out = stream_of written /\ Permutation (written ++ pending) started /\ parse_stream out = Some written.
Proof. exact writers_contiguous. Qed.
Print Assumptions C13_contiguous.

(* the executable scheduler used by the runner is a run of that system *)
Theorem C13_sched_is_run : forall sched resps,
  exists p' w', wreach resps (p', write_sched resps sched [], w').
Proof.
  intros sched resps.
  assert (wreach resps (resps, [], [])) as H.
  { induction resps as [|b r IH]; [constructor|]. now apply wr_start. }
  exact (write_sched_reach sched resps resps [] [] H).
Qed.
Print Assumptions C13_sched_is_run.

(* ---------------------------------------------------------------------------------------------------
   C13_over_limit.  For every limit L and every history of arrivals and handler completions on a connection:
   the atomic counter equals the number of running handlers and never exceeds L; a query arriving while the
   counter is n with n+1 > L is answered REFUSED in that very step and leaves the state (counter included)
   unchanged — it is neither dropped nor counted permanently; below the limit it is accepted; and for every
   query, arrivals = refusals + answers + still running (nothing is dropped, nothing answered twice). *)
Theorem C13_over_limit : forall (L : nat) (evs : list infl_ev) (st : infl_state) (outs : list infl_out),
  infl_run L infl_init evs = Some (st, outs) ->
  (infl_n st = length (infl_fl st) /\ infl_n st <= L) /\
  (forall q, L < infl_n st + 1 -> infl_step L st (InflArrive q) = Some (st, [InflRefused q])) /\
  (forall q, infl_n st + 1 <= L -> infl_step L st (InflArrive q) = Some (mkInfl (S (infl_n st)) (q :: infl_fl st), [InflAccepted q])) /\
  (forall q, n_arrive q evs = n_refused q outs + n_answer q outs + count_nat q (infl_fl st)).
Proof.
  intros L evs st outs H. split; [|split; [|split]].
  - exact (crun_inv L evs infl_init st outs (cinit_inv L) H).
  - intros q. apply over_limit_refused.
  - intros q. apply within_limit_accepted.
  - intros q. exact (crun_account L q evs infl_init st outs H).
Qed.
Print Assumptions C13_over_limit.

(* ---------------------------------------------------------------------------------------------------
   C13_zero_len_note.  A zero-length frame is OUTSIDE the property (it speaks of queries).  Under gnet,
   Next(0) returns everything buffered: the octets FOLLOWING a zero-length prefix in the same read event are
   taken as one message body, whatever they are.  Here the stream  00 00 | 00 01 07 | 00 01 08  (an empty frame
   and two 1-octet frames) delivered in one segment yields ONE "message" of 6 octets; the TCP reader instead
   closes on the empty frame. *)
Example C13_zero_len_note :
  let okk := fun b : list N => match b with [] => false | _ => true end in
  gnet_run okk [[0; 0; 0; 1; 7; 0; 1; 8]%N] = Ok ([[0; 1; 7; 0; 1; 8]%N], RdNeedMore) /\
  gnet_run okk [[0; 0]%N; [0; 1; 7; 0; 1; 8]%N] = Ok ([], RdClosed) /\
  tcp_run okk 4 [[0; 0; 0; 1; 7; 0; 1; 8]%N] = Ok ([], RdClosed).
Proof. vm_compute. auto. Qed.

(* ---------------------------------------------------------------------------------------------------
   C01_stream_safe (stream clause of C01).  For EVERY list of segments of ARBITRARY octets and every decoder
   verdict, both readers yield a list of frames and then RdNeedMore or RdClosed: never Panic (the slice expressions
   of OnTraffic are never out of range), never out of fuel (the loops terminate). *)
Theorem C01_stream_safe : forall (ok : list N -> bool) (cap : nat) (segs : list (list N)),
  1 <= cap ->
  (exists fs st, tcp_run ok cap segs = Ok (fs, st)) /\
  (exists fs st, gnet_run ok segs = Ok (fs, st)).
Proof.
  intros ok cap segs Hc. split; [apply tcp_stream_safe; exact Hc|apply gnet_stream_safe].
Qed.
Print Assumptions C01_stream_safe.

(* ---------------------------------------------------------------------------------------------------
   C13_deadline_*  (round 3: segmentation x TIME).  The readers of Net/FramingTimed.v carry their idle timer; a timed
   segment (g, s) arrives g after the one before it (the first: g after the accept).

   TCP / DoT (handleConn): the read deadline is re-armed once per MESSAGE, at the top of the loop, whatever the
   bufio reader still holds.  For EVERY decoder verdict, bufio capacity >= 1, idle time, list of frames and EVERY
   timed segmentation of their stream in which the last octet of each frame arrives less than [idle] after the last
   octet of the frame before it (ft_paced; the first frame: after the accept) — whatever the cuts (inside the
   prefix, inside bodies, whole frames followed by a partial one in the same segment) and however long the
   connection has been open in total — the reader NEVER times out and hands over exactly [rd_expect ok frames]:
   every frame once, in order. *)
Theorem C13_deadline_tcp : forall (ok : list N -> bool) (cap idle : nat) (frames : list (list N)) (tsegs : list (nat * list N)),
  1 <= cap ->
  Forall (fun f => 1 <= length f /\ (N.of_nat (length f) < 65536)%N) frames ->
  Forall (fun ts : nat * list N => snd ts <> []) tsegs ->
  ft_octets tsegs = stream_of frames ->
  ft_paced idle (ft_sizes frames) (ft_ogaps tsegs) = true ->
  ft_tcp_run ok cap idle FtEveryMsg tsegs = Ok (ft_lift (rd_expect ok frames)) /\
  (forallb ok frames = true -> ft_tcp_run ok cap idle FtEveryMsg tsegs = Ok (frames, FtNeedMore)).
Proof.
  intros ok cap idle frames tsegs Hc Hg Hne E Hp.
  assert (ft_tcp_run ok cap idle FtEveryMsg tsegs = Ok (ft_lift (rd_expect ok frames))) as H.
  { apply ft_tcp_paced; auto. eapply Forall_impl; [|exact Hg]. intros f [_ Hf]. exact Hf. }
  split; [exact H|]. intros Ha. rewrite H. now rewrite (expect_all ok frames Ha).
Qed.
Print Assumptions C13_deadline_tcp.

(* gnet (OnTraffic): the timer is re-armed once per READ EVENT.  Every timed segmentation in which every segment
   arrives less than [idle] after the one before: never timed out, exactly [rd_expect ok frames] — in fact the
   timed run IS the untimed one (second conjunct, for arbitrary octets). *)
Theorem C13_idle_timer_gnet : forall (ok : list N -> bool) (idle : nat) (frames : list (list N)) (tsegs : list (nat * list N)),
  Forall (fun f => 1 <= length f /\ (N.of_nat (length f) < 65536)%N) frames ->
  Forall (fun ts : nat * list N => snd ts <> []) tsegs ->
  ft_octets tsegs = stream_of frames ->
  ft_gaps_below idle tsegs = true ->
  ft_gnet_run ok idle tsegs = Ok (ft_lift (rd_expect ok frames)) /\
  (forallb ok frames = true -> ft_gnet_run ok idle tsegs = Ok (frames, FtNeedMore)).
Proof.
  intros ok idle frames tsegs Hg Hne E Hb.
  assert (ft_gnet_run ok idle tsegs = Ok (ft_lift (rd_expect ok frames))) as H by (apply ft_gnet_paced; auto).
  split; [exact H|]. intros Ha. rewrite H. now rewrite (expect_all ok frames Ha).
Qed.
Print Assumptions C13_idle_timer_gnet.

Theorem C13_idle_timer_gnet_any : forall (ok : list N -> bool) (idle : nat) (tsegs : list (nat * list N)),
  Forall (fun ts : nat * list N => snd ts <> []) tsegs -> ft_gaps_below idle tsegs = true ->
  ft_gnet_run ok idle tsegs = ft_lift_res (gnet_run ok (map snd tsegs)).
Proof. exact ft_gnet_untimed. Qed.
Print Assumptions C13_idle_timer_gnet_any.

(* the per-message pacing implies the per-event one; hence ONE hypothesis for the instances the runner executes
   (kind streamtimed: decoder = the model of UnpackMsg, bufio of 1024 octets, time in milliseconds) *)
Theorem C13_deadline : forall (idle : nat) (frames : list (list N)) (tsegs : list (nat * list N)),
  Forall (fun f => 1 <= length f /\ (N.of_nat (length f) < 65536)%N) frames ->
  forallb dns_ok frames = true ->
  Forall (fun ts : nat * list N => snd ts <> []) tsegs ->
  ft_octets tsegs = stream_of frames ->
  ft_paced_segs idle frames tsegs = true ->
  ft_tcp_run_dns idle tsegs = Ok (frames, FtNeedMore) /\ ft_gnet_run_dns idle tsegs = Ok (frames, FtNeedMore).
Proof.
  intros idle frames tsegs Hg Ha Hne E Hp. split.
  - apply (C13_deadline_tcp dns_ok cap1k idle frames tsegs cap1k_pos Hg Hne E Hp). exact Ha.
  - apply (C13_idle_timer_gnet dns_ok idle frames tsegs Hg Hne E); [|exact Ha].
    exact (ft_paced_gaps idle frames tsegs Hne E Hp).
Qed.
Print Assumptions C13_deadline.

(* the VARIANT "re-arm the deadline only when the bufio reader is empty" (not what the code does) is refuted: a
   client that is never silent for [idle], sending one whole frame followed by the first half of the next and the
   rest one second later, is cut mid-frame by the deadline armed at the accept — the second query is never
   decoded.  idle = 2000; segment 1 at 1500, segment 2 at 2500. *)
Definition c13_stale_frames : list (list N) := [[1; 2; 3]; [4; 5; 6; 7]]%N.
Definition c13_stale_segs : list (nat * list N) := [(1500, [0; 3; 1; 2; 3; 0; 4; 4]%N); (1000, [5; 6; 7]%N)].
Theorem C13_rearm_when_drained_refuted :
  exists (ok : list N -> bool) (cap idle : nat) (frames : list (list N)) (tsegs : list (nat * list N)),
    1 <= cap /\
    Forall (fun f => 1 <= length f /\ (N.of_nat (length f) < 65536)%N) frames /\
    Forall (fun ts : nat * list N => snd ts <> []) tsegs /\
    ft_octets tsegs = stream_of frames /\
    ft_paced idle (ft_sizes frames) (ft_ogaps tsegs) = true /\
    forallb ok frames = true /\
    ft_tcp_run ok cap idle FtWhenDrained tsegs = Ok ([[1; 2; 3]%N], FtTimedOut) /\
    ft_tcp_run ok cap idle FtEveryMsg tsegs = Ok (frames, FtNeedMore).
Proof.
  exists (fun _ => true), 1024, 2000, c13_stale_frames, c13_stale_segs.
  split; [lia|]. split; [unfold c13_stale_frames; repeat constructor; cbn; lia|].
  split; [unfold c13_stale_segs; repeat constructor; discriminate|].
  repeat split; vm_compute; reflexivity.
Qed.
Print Assumptions C13_rearm_when_drained_refuted.

(* C13_slow_frame_note.  What the per-message deadline does NOT give (outside the property, which does not speak of
   time): ONE frame trickling in over more than [idle] is cut by handleConn although no single gap reaches [idle];
   gnet, whose timer is reset by every read event, decodes it. *)
Example C13_slow_frame_note :
  let segs := [(700, [0; 4]%N); (700, [9]%N); (700, [9]%N); (700, [9; 9]%N)] in
  ft_gaps_below 2000 segs = true /\
  ft_paced 2000 (ft_sizes [[9; 9; 9; 9]%N]) (ft_ogaps segs) = false /\
  ft_tcp_run (fun _ => true) 1024 2000 FtEveryMsg segs = Ok ([], FtTimedOut) /\
  ft_gnet_run (fun _ => true) 2000 segs = Ok ([[9; 9; 9; 9]%N], FtNeedMore).
Proof. vm_compute. auto. Qed.

(* ---------------------------------------------------------------------------------------------------
   non-vacuity *)
Definition ex_frames : list (list N) := [[1; 2; 3]; [4]; [5; 6]]%N.
Definition ex_ok (b : list N) : bool := match b with 99%N :: _ => false | [] => false | _ => true end.

(* hypotheses of decode_once are met; 1-octet segments, a cut inside a prefix, several frames in one segment *)
Example C13_example_decode :
  Forall (fun f => 1 <= length f /\ (N.of_nat (length f) < 65536)%N) ex_frames /\
  forallb ex_ok ex_frames = true /\
  gnet_run ex_ok (cut_at (repeat 1 12) (stream_of ex_frames)) = Ok (ex_frames, RdNeedMore) /\
  tcp_run ex_ok 4 (cut_at [1; 3; 2; 4] (stream_of ex_frames)) = Ok (ex_frames, RdNeedMore) /\
  gnet_run ex_ok [stream_of ex_frames] = Ok (ex_frames, RdNeedMore) /\
  gnet_run ex_ok (cut_at [1; 3; 2; 4] (stream_of [[1; 2; 3]; [99]; [5; 6]]%N)) = Ok ([[1; 2; 3]%N], RdClosed).
Proof.
  split; [|vm_compute; auto]. unfold ex_frames. repeat constructor; cbn; lia.
Qed.

(* a completion order different from the start order; and what the property excludes: with TWO writes per
   response (prefix, then body) an interleaving exists whose octets do not parse back to the responses *)
Example C13_example_contiguous :
  write_sched [[7]; [8; 9]; [10]]%N [2; 0; 0] [] = stream_of [[10]; [7]; [8; 9]]%N /\
  parse_stream (write_sched [[7]; [8; 9]; [10]]%N [2; 0; 0] []) = Some [[10]; [7]; [8; 9]]%N /\
  parse_stream (two_writes_interleaved [7]%N [8; 9]%N) <> Some [[7]; [8; 9]]%N /\
  parse_stream (two_writes_interleaved [7]%N [8; 9]%N) <> Some [[8; 9]; [7]]%N.
Proof. vm_compute. repeat split; discriminate. Qed.

(* limit 2, five pipelined queries while no handler finishes: two accepted, three REFUSED, then the two answers;
   at the end the counter is back to 0 *)
Example C13_example_over_limit :
  burst_refused 2 5 = [false; false; true; true; true] /\
  infl_run 2 infl_init [InflArrive 0; InflArrive 1; InflArrive 2; InflFinish 0; InflArrive 3; InflArrive 4; InflFinish 1; InflFinish 3] =
    Some (mkInfl 0 [], [InflAccepted 0; InflAccepted 1; InflRefused 2; InflAnswer 0; InflAccepted 3; InflRefused 4; InflAnswer 1; InflAnswer 3]).
Proof. vm_compute. auto. Qed.

(* the hypotheses of C13_deadline are met although the connection has been open for 3 x idle/2 + ...: whole frame +
   partial frame per segment, a cut inside a prefix; and a gap >= idle does time out (both readers) *)
Example C13_example_deadline :
  let segs := [(1500, [0; 3; 1; 2; 3; 0]%N); (1500, [1; 4; 0; 2; 5]%N); (1500, [6]%N)] in
  ft_octets segs = stream_of ex_frames /\
  ft_paced 2000 (ft_sizes ex_frames) (ft_ogaps segs) = true /\
  ft_tcp_run ex_ok 4 2000 FtEveryMsg segs = Ok (ex_frames, FtNeedMore) /\
  ft_gnet_run ex_ok 2000 segs = Ok (ex_frames, FtNeedMore) /\
  ft_tcp_run ex_ok 4 2000 FtWhenDrained segs = Ok ([[1; 2; 3]%N], FtTimedOut) /\
  ft_tcp_run ex_ok 4 2000 FtEveryMsg [(1500, [0; 3; 1; 2; 3]%N); (2000, [0; 1; 4]%N)] = Ok ([[1; 2; 3]%N], FtTimedOut) /\
  ft_gnet_run ex_ok 2000 [(1500, [0; 3; 1; 2; 3]%N); (2000, [0; 1; 4]%N)] = Ok ([[1; 2; 3]%N], FtTimedOut).
Proof. vm_compute. repeat split; reflexivity. Qed.
