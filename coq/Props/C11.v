(* C11 — domain sets match by label suffix, independent of load order.
   Only statements; proofs live in Match/MatcherProofs.v and Match/ReadableProofs.v.
   Model: Match/Matcher.v (trie, full set, regexp list, MixMatcher.Add, loader) over Codec/Name.v
   (scan, to_lower_name, to_readable, parse_readable).
   [entry_ok e] = no empty label in the entry; it holds of every label list NameScanner produces
   (C11_scanned_entries_ok), i.e. of every entry MixMatcher.Add hands to the trie. *)
From Mos Require Import Base.Prelude Codec.Name Codec.NameProofs Match.Matcher Match.MatcherProofs Match.ReadableProofs.
From Coq Require Import Permutation.

(* ---------------------------------------------------------------- the label trie *)
(* For ALL entry lists (any order, duplicates, parents before or after children, the root = []) and all
   names that scan: the trie built by the successive Add calls matches n iff some entry is a suffix of
   n on a label boundary. The root entry is a suffix of everything. *)
Theorem C11_match_iff : forall (es : list (list (list N))) (n : list N) (nl : list (list N)),
  Forall entry_ok es -> scan n = Ok nl ->
  (dm_match (fold_left (fun m e => dm_add e m) es dm_empty) n = true
   <-> exists e, In e es /\ label_suffix e nl).
Proof. exact dm_match_iff. Qed.
Print Assumptions C11_match_iff.

(* names that are not well formed are matched only when the root is an entry *)
Theorem C11_match_invalid : forall (es : list (list (list N))) (n : list N),
  Forall entry_ok es -> (forall nl, scan n <> Ok nl) ->
  (dm_match (fold_left (fun m e => dm_add e m) es dm_empty) n = true <-> In [] es).
Proof. exact dm_match_invalid. Qed.
Print Assumptions C11_match_invalid.

(* the result depends only on the SET of entries: order and duplicates are irrelevant (all names) *)
Theorem C11_order_independent : forall (es es' : list (list (list N))) (n : list N),
  Forall entry_ok es -> Forall entry_ok es' -> (forall e, In e es <-> In e es') ->
  dm_match (fold_left (fun m e => dm_add e m) es dm_empty) n
  = dm_match (fold_left (fun m e => dm_add e m) es' dm_empty) n.
Proof. exact dm_order_independent. Qed.
Print Assumptions C11_order_independent.

Theorem C11_permutation : forall (es es' : list (list (list N))) (n : list N),
  Forall entry_ok es -> Permutation es es' ->
  dm_match (fold_left (fun m e => dm_add e m) es dm_empty) n
  = dm_match (fold_left (fun m e => dm_add e m) es' dm_empty) n.
Proof. exact dm_permutation. Qed.
Print Assumptions C11_permutation.

(* adding an entry never stops a matched name from matching — from ANY matcher state *)
Theorem C11_monotone : forall (e : list (list N)) (m : dmatcher) (n : list N),
  entry_ok e -> dm_match m n = true -> dm_match (dm_add e m) n = true.
Proof. exact dm_monotone. Qed.
Print Assumptions C11_monotone.

(* the map key of a label determines the label (zero padding cannot conflate labels) *)
Theorem C11_key_injective : forall a b : list N, key_of a = key_of b -> a = b.
Proof. exact key_of_inj. Qed.
Print Assumptions C11_key_injective.

(* what the scanner hands to Add never contains an empty label *)
Theorem C11_scanned_entries_ok : forall (n : list N) (ls : list (list N)), scan n = Ok ls -> entry_ok ls.
Proof. exact scan_nonnil. Qed.
Print Assumptions C11_scanned_entries_ok.

(* ---------------------------------------------------------------- the mix matcher *)
(* mix = full \/ domain \/ regexp on the text form; Go's regexp engine is the parameter re_match *)
Theorem C11_mix : forall (re_match : list N -> list N -> bool) (es : list entry) (n : list N),
  Forall wf_entry es ->
  (mix_match re_match (fold_left (fun m e => mix_add_entry e m) es mix_empty) n = true <->
   (exists d, In (EFull d) es /\ n = d) \/
   (exists ls, In (EDomain ls) es /\ (ls = [] \/ exists nl, scan n = Ok nl /\ label_suffix ls nl)) \/
   (exists x t, In (ERegexp x) es /\ to_readable n = Ok t /\ re_match x t = true)).
Proof. exact mix_match_iff. Qed.
Print Assumptions C11_mix.

(* text rules through MixMatcher.Add (rejected rules skipped): the matcher equals the set-based
   reference over the entries the rules denote — for every rule list, no side condition *)
Theorem C11_mix_rules : forall (re_valid : list N -> bool) (re_match : list N -> list N -> bool)
    (rules : list (list N)) (n : list N),
  mix_match re_match (fst (mix_add_all re_valid rules mix_empty)) n
  = spec_mix re_match (entries_of re_valid rules) n.
Proof. exact mix_rules_spec. Qed.
Print Assumptions C11_mix_rules.

(* the loader: only the cleaned (comment stripped, trimmed) non-blank lines count, up to the first
   rejected one; blank and comment-only lines contribute nothing *)
Theorem C11_loader : forall (re_valid : list N -> bool) (re_match : list N -> list N -> bool)
    (text n : list N),
  mix_match re_match (fst (load_text re_valid text mix_empty)) n
  = spec_mix re_match (entries_of re_valid (ok_prefix re_valid (clean_rules text))) n.
Proof. exact load_text_spec. Qed.
Print Assumptions C11_loader.

Theorem C11_comment_ignored : forall a c : list N, ~ In 35%N a -> clean_line (a ++ 35%N :: c) = clean_line a.
Proof. exact comment_ignored. Qed.
Print Assumptions C11_comment_ignored.

(* entries are case-insensitive: whatever the case of the rule text, what MixMatcher.Add stores (and the
   matcher compares octet by octet with the lower-cased query name) contains no upper-case letter.
   (Not proved: that two rule texts differing only in case denote the SAME entry — ParseReadable
   commuting with lower-casing; exercised by the differential check, corpus case_fold*.) *)
Theorem C11_entries_lowercase : forall (re_valid : list N -> bool) (r : list N) (e : entry),
  parse_rule re_valid r = Ok e ->
  match e with
  | EDomain ls => Forall (Forall not_upper) ls
  | EFull d => forall ls, scan d = Ok ls -> Forall (Forall not_upper) ls
  | ERegexp _ => True
  end.
Proof. exact parse_rule_lower. Qed.
Print Assumptions C11_entries_lowercase.

(* ---------------------------------------------------------------- the text form *)
(* letters/digits/hyphen verbatim, '.' -> "\.", '\' -> "\\", every other octet "\DDD" *)
Theorem C11_readable : forall b : N,
  (ldh b -> escape_byte b = [b]) /\
  (b = 46%N -> escape_byte b = [92; 46]%N) /\
  (b = 92%N -> escape_byte b = [92; 92]%N) /\
  ((b < 256)%N -> ~ ldh b -> b <> 46%N -> b <> 92%N ->
   exists d2 d1 d0, escape_byte b = [92; 48 + d2; 48 + d1; 48 + d0]%N /\
                    (d2 < 10 /\ d1 < 10 /\ d0 < 10 /\ b = 100 * d2 + 10 * d1 + d0)%N).
Proof.
  intros b. split; [apply escape_byte_ldh|]. split; [intros ->; reflexivity|].
  split; [intros ->; reflexivity|]. apply escape_byte_other.
Qed.
Print Assumptions C11_readable.

(* labels escaped octet by octet, joined by '.', the root is "." *)
Theorem C11_readable_form : forall ls : list (list N), wf_labels ls ->
  to_readable (raw ls) = Ok (match ls with [] => [46%N] | _ => join_dot (map escape_label ls) end).
Proof. exact to_readable_raw. Qed.
Print Assumptions C11_readable_form.

(* the text form is injective on well-formed names *)
Theorem C11_readable_injective : forall n1 n2 t : list N, wf_name n1 -> wf_name n2 ->
  to_readable n1 = Ok t -> to_readable n2 = Ok t -> n1 = n2.
Proof. exact readable_injective. Qed.
Print Assumptions C11_readable_injective.

(* ---------------------------------------------------------------- non-vacuity *)
Definition com := [99; 111; 109]%N.
Definition n_com := (3 :: com)%N.
Definition n_a_com := (1 :: 97 :: 3 :: com)%N.
Definition n_b_com := (1 :: 98 :: 3 :: com)%N.
Definition n_org := [3; 111; 114; 103]%N.

(* D4 scenario: the broader entry first, the narrower later; and the other order *)
Example C11_example_trie :
  let m1 := fold_left (fun m e => dm_add e m) [[com]; [[97%N]; com]] dm_empty in
  let m2 := fold_left (fun m e => dm_add e m) [[[97%N]; com]; [com]; [com]] dm_empty in
  map (dm_match m1) [n_com; n_a_com; n_b_com; n_org] = [true; true; true; false] /\
  map (dm_match m2) [n_com; n_a_com; n_b_com; n_org] = [true; true; true; false] /\
  dm_match (dm_add [] m1) n_org = true /\
  entry_ok [[97%N]; com] /\ scan n_b_com = Ok [[98%N]; com] /\ label_suffix [com] [[98%N]; com].
Proof. vm_compute. repeat split; try (intros H; discriminate H). constructor; [discriminate|constructor; [discriminate|constructor]]. now exists [[98%N]]. Qed.

(* D5 scenario: "example" vs "example\000" *)
Example C11_example_key :
  let ex := [101; 120; 97; 109; 112; 108; 101]%N in
  key_eqb (key_of ex) (key_of (ex ++ [0%N])) = false /\
  dm_match (dm_add [ex] dm_empty) (8 :: ex ++ [0])%N = false /\
  dm_match (dm_add [ex] dm_empty) (7 :: ex)%N = true.
Proof. vm_compute. auto. Qed.

(* text rules: "full:A.com", "COM" (upper case), "regexp:^b\.org$", one rejected rule, a comment *)
Example C11_example_mix :
  let rules := [[102;117;108;108;58;65;46;99;111;109]; [67;79;77]; [98;111;103;117;115;58;120];
                [114;101;103;101;120;112;58;94;98;92;46;111;114;103;36]]%N in
  run_add rules [n_a_com; n_b_com; n_org; (1 :: 98 :: n_org)%N]
  = ([true; true; false; true], [true; true; false; true], [true; true; false; true]) /\
  run_load ([35; 120; 10; 10; 32; 67; 79; 77; 32; 35; 99; 10]%N) [n_b_com; n_org]
  = (true, [true; false], [true; false]).
Proof. vm_compute. auto. Qed.

(* D6 / D7 scenarios: "_dmarc" renders as "\095dmarc"; the empty expression is the root *)
Example C11_example_readable :
  to_readable [6; 95; 100; 109; 97; 114; 99]%N = Ok [92; 48; 57; 53; 100; 109; 97; 114; 99]%N /\
  to_readable [2; 97; 0]%N = Ok [97; 92; 48; 48; 48]%N /\
  to_readable [3; 46; 92; 45]%N = Ok [92; 46; 92; 92; 45]%N /\
  parse_readable [] = Ok [] /\
  wf_name [6; 95; 100; 109; 97; 114; 99]%N.
Proof.
  vm_compute. repeat split.
  exists [[95; 100; 109; 97; 114; 99]%N]. split; [reflexivity|]. split; [|cbn; lia].
  constructor; [|constructor]. split; [cbn; lia|]. repeat constructor.
Qed.
