(* placeholder while the pipeline is brought up *)
From Mos Require Import Base.Prelude Codec.Name Match.Matcher.
Theorem C11_placeholder : True. Proof. exact I. Qed.
Print Assumptions C11_placeholder.
