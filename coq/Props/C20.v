(* C20 — recycled memory is exclusively owned.  Only statements; the model is Own/Ownership.v (an executable LTS of
   the recycling protocols at atomic-action granularity, with a ghost owner per recyclable object and an adversarial
   environment that recycles every released pooled object), the proofs are in Own/OwnershipProofs.v.

   [reach P s] = s is reachable from the initial state of protocol P by ANY interleaving of its threads' atomic
   actions and of the environment's recycling steps (any length).  [viol s] is the sticky ghost record of the first
   violating action of the execution that led to s:  1 = use after release, 2 = access by a thread that is not the
   owner (the object belongs to another thread, to "another request" = the environment, or sits in a channel),
   3 = double/foreign release, 4 = a cache Get returned the value of a different key.

   [protocols] = UDP, TCP and HTTP server handlers, the gnet handler (packing succeeds), the pipeline exchange
   (reply crosses the 1-buffered channel), the reuse exchange AFTER the D14 fix, the QUIC exchange (with quic-go's
   CancelWrite contract), the cache entry recycling (entry lock + key re-check), the DoH exchange (make-allocated query
   string handed over to the round-trip goroutine).

   PARTIAL with respect to the property text: data-race freedom of arbitrary Go code is a runtime property; these
   theorems cover the ownership protocols as modelled; the poison hook and the race detector sample real schedules
   of the real code (see docs/notes/C20.md). *)
From Mos Require Import Base.Prelude Codec.Msg Codec.WfProofs Own.Ownership Own.OwnershipProofs Props.C09.

(* no read, write or release-time access of an object that is back in its pool — in every interleaving *)
Theorem C20_no_use_after_release : forall (P : proto) (s : mstate),
  In P protocols -> reach P s -> viol s <> 1.
Proof. exact no_use_after_release. Qed.
Print Assumptions C20_no_use_after_release.

(* no access by a thread that is not the owner (nor a borrower of a still-live owner), no double release, no release
   of somebody else's object — in every interleaving *)
Theorem C20_single_owner : forall (P : proto) (s : mstate),
  In P protocols -> reach P s -> viol s <> 2 /\ viol s <> 3.
Proof. exact single_owner. Qed.
Print Assumptions C20_single_owner.

(* recycled cache entries: Get never returns the value of another key (entry lock + key re-check) *)
Theorem C20_no_foreign_data : forall (P : proto) (s : mstate),
  In P protocols -> reach P s -> viol s <> 4.
Proof. exact no_foreign_data. Qed.
Print Assumptions C20_no_foreign_data.

(* the ghost field really records: an access without ownership (and without a valid loan) sets it *)
Theorem C20_access_is_recorded : forall (s : mstate) (t o : nat),
  viol s = 0 -> owner s o <> owned t ->
  ~ (nth o (lent s) 0 = S t /\ owner s o < owned ENV /\ is_free (owner s o) = false) ->
  viol (access s t o) = (if is_free (owner s o) then 1 else 2).
Proof. exact access_records. Qed.
Print Assumptions C20_access_is_recorded.

Theorem C20_bad_release_is_recorded : forall (s : mstate) (t o : nat),
  viol s = 0 -> owner s o <> owned t -> viol (release s t o) = 3.
Proof. exact release_records. Qed.
Print Assumptions C20_bad_release_is_recorded.

(* the decoded message shares no region with the receive buffer: in the region-annotated abstraction of UnpackMsg
   every block of the result is freshly allocated (and distinct).  The abstraction lists the decoder's allocation
   sites (see Ownership.v); its tie to the code is the harness's poison-the-input-after-decode check (kind decode). *)
Theorem C20_decode_copies : forall (bs : list N) (m : msg),
  unpack_msg bs = Ok m ->
  ~ In RBuf (decode_regions m) /\ NoDup (decode_regions m) /\ length (decode_regions m) = msg_blocks m.
Proof. exact decode_regions_fresh. Qed.
Print Assumptions C20_decode_copies.

(* ... and it is load-bearing: with a decoder that aliased the receive buffer, the UDP handler would read memory that
   the read loop is overwriting with the next datagram *)
Theorem C20_decode_alias_refuted : exists s, reach Pown_udp_alias s /\ viol s = 2.
Proof. exact udp_alias_refuted. Qed.
Print Assumptions C20_decode_alias_refuted.

(* gnet: the handler releases the query before mustHaveRespB; its only later read of the query is the fallback taken
   when packing the response fails.  C09_pack_total (packing a well-formed message into a Len-sized buffer never
   fails) excludes that: for every well-formed response the handler protocol is violation-free in every interleaving. *)
Theorem C20_gnet_fallback_unreachable : forall (resp : msg) (size : nat), wf_msg resp ->
  forall s, reach (Pown_gnet (is_ok (pack_msg (msg_len resp) true size resp))) s -> viol s = 0.
Proof. exact (gnet_fallback_unreachable C09_pack_total). Qed.
Print Assumptions C20_gnet_fallback_unreachable.

(* the link is needed: if packing could fail, the released query would be read *)
Theorem C20_gnet_pack_failure_refuted : exists s, reach (Pown_gnet false) s /\ viol s = 1.
Proof. exact gnet_pack_failure_reads_released. Qed.
Print Assumptions C20_gnet_pack_failure_refuted.

(* D14 on the pinned tree: the explicit schedule
     caller: acquire payload, fill it, start the worker;  context ends;  caller's select takes the Done arm;
     deferred ReleaseBuf(payload);  [another request takes the buffer;]  worker: Write(payload)
   reaches a use-after-release (without the bracketed step) / an access to another owner's buffer (with it). *)
Theorem C20_reuse_payload_refuted :
  (exists s, own_run Pown_reuse_pinned (own_init Pown_reuse_pinned) d14_schedule = Some s /\ reach Pown_reuse_pinned s /\ viol s = 1) /\
  (exists s, own_run Pown_reuse_pinned (own_init Pown_reuse_pinned) d14_schedule_env = Some s /\ reach Pown_reuse_pinned s /\ viol s = 2).
Proof. exact reuse_pinned_refuted. Qed.
Print Assumptions C20_reuse_payload_refuted.

(* after the fix (the worker owns a private copy that it releases itself) both invariants hold in every interleaving *)
Theorem C20_reuse_payload_fixed : forall s, reach Pown_reuse_fixed s -> viol s = 0.
Proof. exact reuse_fixed_safe. Qed.
Print Assumptions C20_reuse_payload_fixed.

(* DoH: in the code as it is, the query string handed to the HTTP round-trip goroutine is make()-allocated and handed over
   ([Pown_doh false] is a member of [protocols]: violation-free in every interleaving).  If that buffer came from the pool
   with a deferred release in ExchangeContext ("pooling optimisation"), the explicit schedule
     caller builds rawQuery and starts the goroutine;  context ends while the dial is pending;  Done arm;  deferred
     ReleaseBuf(rawQuery);  [another request takes the buffer;]  connection ready: net/http writes the request from it
   reaches a use-after-release / an access to another owner's buffer: the goroutine outlives the call, exactly as in D14. *)
Theorem C20_doh_pooled_query_refuted :
  (exists s, own_run (Pown_doh true) (own_init (Pown_doh true)) doh_schedule = Some s /\ reach (Pown_doh true) s /\ viol s = 1) /\
  (exists s, own_run (Pown_doh true) (own_init (Pown_doh true)) doh_schedule_env = Some s /\ reach (Pown_doh true) s /\ viol s = 2).
Proof. exact doh_pooled_refuted. Qed.
Print Assumptions C20_doh_pooled_query_refuted.

Theorem C20_doh_current_safe : forall s, reach (Pown_doh false) s -> viol s = 0.
Proof. exact doh_safe. Qed.
Print Assumptions C20_doh_current_safe.

(* the other two mechanisms named by the property are load-bearing as well *)
Theorem C20_cache_recheck_needed_refuted : exists s, reach (Pown_cache false) s /\ viol s = 4.
Proof. exact cache_recheck_needed. Qed.
Print Assumptions C20_cache_recheck_needed_refuted.

Theorem C20_pipeline_double_release_refuted : exists s, reach (Pown_pipeline true) s /\ viol s = 3.
Proof. exact pipeline_double_release_refuted. Qed.
Print Assumptions C20_pipeline_double_release_refuted.

(* non-vacuity: the protocols really own_run to completion (complete runs exist, with every object acquired, used, handed
   over and released), the state spaces are not trivial, and the certificate check does reject the broken variants *)
Example C20_example_runs :
  own_verdict 1 0 = Some 0 /\ own_verdict 1 1 = Some 0 /\ own_verdict 1 3 = Some 0 /\
  own_verdict 0 0 = Some 0 /\ own_verdict 0 1 = Some 1 /\ own_verdict 0 2 = Some 2 /\
  own_verdict 2 1 = Some 0 /\ pipe_verdict false 0 = Some 0 /\ pipe_verdict false 1 = Some 0 /\
  doh_verdict false 0 = Some 0 /\ doh_verdict false 1 = Some 0 /\ doh_verdict false 3 = Some 0 /\
  doh_verdict true 0 = Some 0 /\ doh_verdict true 1 = Some 1 /\ doh_verdict true 2 = Some 2.
Proof. vm_compute. repeat split. Qed.

Example C20_example_state_spaces :
  map (fun P => 80 <? length (states P)) protocols = [true; true; true; true; true; true; true; true; true] /\
  check Pown_reuse_pinned (states Pown_reuse_pinned) = false /\ check Pown_udp_alias (states Pown_udp_alias) = false /\
  check (Pown_gnet false) (states (Pown_gnet false)) = false /\ check (Pown_cache false) (states (Pown_cache false)) = false /\
  check (Pown_doh true) (states (Pown_doh true)) = false.
Proof. vm_compute. repeat split. Qed.

(* ------------------------------------------------------------------ round 4: fault paths and pooled OBJECTS
   [protocols4] = the stream reader ReadMsgFromTCP with failing header / body reads (two pool buffers + the message),
   the UDP upstream's TCP fallback with failing legs (two pooled messages), the hand-over of the reply of the reuse
   exchange against the caller's cancellation, the header-only reply of makeEmptyRespM (two pooled messages and their
   pooled Question objects), and the prefetch goroutine that outlives the handler of a cache hit (it owns a copy of the
   question made before it starts) — each as the code is.  Objects are pool buffers AND sync.Pool structs (Msg, Question);
   the environment recycles every released one. *)
Theorem C20_fault_paths_and_objects_safe : forall (P : proto) (s : mstate),
  In P protocols4 -> reach P s -> viol s = 0.
Proof. exact protocols4_safe. Qed.
Print Assumptions C20_fault_paths_and_objects_safe.

(* ... and each of them is load-bearing: the variant that releases the body buffer in the read-error branch on top of the
   deferred release double-releases it as soon as a body read fails (schedule: header read, body read fails, early release,
   [another request takes the buffer,] deferred release) *)
Theorem C20_stream_read_error_double_release_refuted :
  (exists s, own_run (Pown4_sread true) (own_init (Pown4_sread true)) (own4_sched 1 2) = Some s /\ reach (Pown4_sread true) s /\ viol s = 3) /\
  (exists s, own_run (Pown4_sread true) (own_init (Pown4_sread true)) (own4_sched 1 3) = Some s /\ reach (Pown4_sread true) s /\ viol s = 3).
Proof. exact own4_sread_double_release_refuted. Qed.
Print Assumptions C20_stream_read_error_double_release_refuted.

(* returning the truncated UDP reply when the TCP leg fails — after ReleaseMsg(r) (variant 1) or with a deferred
   ReleaseMsg(r) (variant 2) — hands the caller a released message: use after release, or (another request took it) an
   access to that request's message *)
Theorem C20_fallback_returns_released_refuted :
  (exists s, own_run (Pown4_fallback 1) (own_init (Pown4_fallback 1)) (own4_sched 3 2) = Some s /\ reach (Pown4_fallback 1) s /\ viol s = 1) /\
  (exists s, own_run (Pown4_fallback 1) (own_init (Pown4_fallback 1)) (own4_sched 3 4) = Some s /\ reach (Pown4_fallback 1) s /\ viol s = 2) /\
  (exists s, own_run (Pown4_fallback 2) (own_init (Pown4_fallback 2)) (own4_sched 4 2) = Some s /\ reach (Pown4_fallback 2) s /\ viol s = 1) /\
  (exists s, own_run (Pown4_fallback 2) (own_init (Pown4_fallback 2)) (own4_sched 4 4) = Some s /\ reach (Pown4_fallback 2) s /\ viol s = 2).
Proof. exact own4_fallback_returns_released_refuted. Qed.
Print Assumptions C20_fallback_returns_released_refuted.

(* a worker that releases the reply "when the caller's context is done" releases a message the caller owns: schedule
   reply handed over and received; the caller's context ends; the worker's epilogue *)
Theorem C20_reuse_reply_release_on_done_refuted :
  exists s, own_run (Pown4_reuse_reply true) (own_init (Pown4_reuse_reply true)) (own4_sched 6 1) = Some s /\
            reach (Pown4_reuse_reply true) s /\ viol s = 3.
Proof. exact own4_reuse_reply_release_refuted. Qed.
Print Assumptions C20_reuse_reply_release_on_done_refuted.

(* a header-only reply that references the query's Question instead of a copy: the Question is released with both messages *)
Theorem C20_emptyresp_shared_question_refuted :
  exists s, own_run (Pown4_emptyresp true) (own_init (Pown4_emptyresp true)) (own4_sched 8 0) = Some s /\
            reach (Pown4_emptyresp true) s /\ viol s = 3.
Proof. exact own4_emptyresp_shared_question_refuted. Qed.
Print Assumptions C20_emptyresp_shared_question_refuted.

(* a prefetch goroutine that makes its copy of the question itself ("off the hot path") reads the handler's question after
   the handler's deferred ReleaseQuestion: schedule hit, go, handler returns, [another request takes the Question,] copy *)
Theorem C20_prefetch_lazy_copy_refuted :
  (exists s, own_run (Pown4_prefetch true) (own_init (Pown4_prefetch true)) (own4_sched 10 1) = Some s /\
             reach (Pown4_prefetch true) s /\ viol s = 1) /\
  (exists s, own_run (Pown4_prefetch true) (own_init (Pown4_prefetch true)) (own4_sched 10 2) = Some s /\
             reach (Pown4_prefetch true) s /\ viol s = 2).
Proof. exact own4_prefetch_lazy_copy_refuted. Qed.
Print Assumptions C20_prefetch_lazy_copy_refuted.

(* non-vacuity: the named schedules run to completion on the code as it is, the state spaces are not trivial, and the
   certificate check rejects every variant *)
Example C20_example_round4 :
  map (own4_verdict 0) [0;1;2;3] = [Some 0; Some 0; Some 0; Some 0] /\
  map (own4_verdict 2) [0;1;2;3;4] = [Some 0; Some 0; Some 0; Some 0; Some 0] /\
  map (own4_verdict 5) [0;1;2] = [Some 0; Some 0; Some 0] /\
  map (own4_verdict 7) [0;1] = [Some 0; Some 0] /\
  map (own4_verdict 9) [0;1;2] = [Some 0; Some 0; Some 0] /\
  map (fun P => 30 <? length (states P)) protocols4 = [true; true; true; true; true] /\
  map (fun n => check (own4_proto n) (states (own4_proto n))) [1;3;4;6;8;10] = [false; false; false; false; false; false].
Proof. vm_compute. repeat split. Qed.
