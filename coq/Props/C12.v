(* C12 — EDNS0 ends at the proxy; ECS reveals only a truncated client prefix.
   Only statements; proofs in Router/RouterProofs.v. *)
From Mos Require Import Base.Prelude Codec.Name Codec.Msg Codec.WfProofs Codec.RoundtripProofs
  Router.Rules Router.Edns Router.Router Router.RouterSpec Router.RouterProofs Cache.CachePolicy Router.Cached
  Router.CachedProofs.

(* The OPT records of the additional section of EVERY response: none for an unsupported query; otherwise exactly the
   proxy's own fresh OPT (class = its UDP size, TTL 0, no options) iff the query carried one.  The statement does
   not mention the upstream reply's or the query's options: they are never relayed (non-interference).  Upstream
   replies are restricted, as in the property, to at most one OPT record (RFC 6891). *)
Theorem C12_resp_opt : forall matches rules ecs up,
  (forall u w r, up u w = UReply r -> count_opt (m_ar r) <= 1) ->
  forall (m : msg) (client : addr),
  filter is_opt (m_ar (fst (handle matches rules ecs up m client))) =
  if unsupported m then [] else if has_opt m then [new_opt udp_size []] else [].
Proof. exact handle_opt. Qed.
Print Assumptions C12_resp_opt.

Theorem C12_own_opt_form : is_own_opt (new_opt udp_size []) = true /\ r_class (new_opt udp_size []) = 1200%N /\
  r_data (new_opt udp_size []) = RRaw [] /\ r_ttl (new_opt udp_size []) = 0%N.
Proof. repeat split. Qed.
Print Assumptions C12_own_opt_form.

(* Every upstream query is well-formed wire data carrying exactly one OPT record, whose RDATA is the ECS option when
   ECS is enabled (empty when the client address is unknown) and empty otherwise. *)
Theorem C12_upstream_query : forall (e : bool) (q : question) (a : addr), wf_question q -> wf_addr a ->
  exists w, pack_req e q a = Ok w /\ unpack_msg w = Ok (relen (req_msg e q a)) /\
            map r_data (m_ar (relen (req_msg e q a))) = [RRaw (if e then ecs_option a else [])] /\
            count_opt (m_ar (relen (req_msg e q a))) = 1.
Proof.
  intros e q a Hq Ha. destruct (pack_req_decodes e q a Hq Ha) as (w & H1 & H2).
  exists w. repeat split; assumption.
Qed.
Print Assumptions C12_upstream_query.

(* The ECS option: code 8, family 1 / source prefix 24 / 3 address octets for IPv4 (IPv4-mapped IPv6 included),
   family 2 / source prefix 56 / 7 address octets for IPv6, scope 0; absent when the address is unknown. *)
Theorem C12_ecs_form :
  (forall a b c d, ecs_option (A4 [a; b; c; d]) = [0; 8; 0; 7; 0; 1; 24; 0; a; b; c]%N) /\
  (forall a b c d, ecs_option (A6 (v4_mapped_prefix ++ [a; b; c; d])) = [0; 8; 0; 7; 0; 1; 24; 0; a; b; c]%N) /\
  (forall bs, list_eqb (firstn 12 bs) v4_mapped_prefix = false ->
              ecs_option (A6 bs) = [0; 8; 0; 11; 0; 2; 56; 0]%N ++ firstn 7 bs) /\
  ecs_option ANone = [].
Proof. split; [exact ecs_form_v4|]. split; [exact ecs_form_mapped|]. split; [exact ecs_form_v6|reflexivity]. Qed.
Print Assumptions C12_ecs_form.

(* all host bits are absent: the option is 0, 11 or 15 octets long *)
Theorem C12_ecs_length : forall a, wf_addr a ->
  length (ecs_option a) = 0 \/ length (ecs_option a) = 11 \/ length (ecs_option a) = 15.
Proof. exact ecs_length. Qed.
Print Assumptions C12_ecs_length.

(* privacy: two client addresses that agree on the first 24 (IPv4) / 56 (IPv6) bits yield identical upstream queries *)
Theorem C12_ecs_privacy : forall a1 a2,
  match unmap a1, unmap a2 with
  | A4 b1, A4 b2 => firstn 3 b1 = firstn 3 b2
  | A6 b1, A6 b2 => firstn 7 b1 = firstn 7 b2
  | ANone, ANone => True
  | _, _ => False
  end -> forall e q, pack_req e q a1 = pack_req e q a2.
Proof. exact ecs_privacy. Qed.
Print Assumptions C12_ecs_privacy.

(* non-vacuity: an upstream reply with a cookie-laden OPT, a query with an ECS-laden OPT: the response's only OPT is
   the proxy's own *)
(* ... and on a CACHING proxy (Router/Cached.v = the request path composed with cacheCtl.Get/Store and the prefetch):
   in every state reachable by any history of (decoded, hence well-formed) requests, prefetches (for any question,
   client and upstream), clock ticks, collections and evictions, the response to any query — fresh, relayed or SERVED
   FROM CACHE — carries exactly the proxy's own OPT iff the query carried one.  (The cache invariant behind it: every
   cached message is what [forward] returned, hence OPT-free.)  The cache key is the real one: cacheKey(question,
   ipMark(client)) read as a number ([real_ckey]; [mark] = the ip-marker lookup, any function to octet strings). *)
Theorem C12_resp_opt_cached : forall matches rules ecs up (mark : addr -> list N) maxttl,
  (forall u w r, up u w = UReply r -> count_opt (m_ar r) <= 1) ->
  (forall c, bytes (mark c)) ->
  forall (clk : N) (evs : list cev) (t ts eps : Z) (m : msg) (client : addr),
  Forall cev_wf evs -> wf_msg m ->
  let st := fst (crun matches rules ecs up (real_ckey mark) maxttl (init_state clk) evs) in
  filter is_opt (m_ar (co_resp (snd (handle_c matches rules ecs up (real_ckey mark) maxttl st t ts eps m client)))) =
  if unsupported m then [] else if has_opt m then [new_opt udp_size []] else [].
Proof.
  intros matches rules ecs up mark maxttl H1 Hm clk evs t ts eps m client Hev Hwm st.
  pose proof (real_ckey_inj mark Hm) as Hinj.
  apply (handle_c_opt matches rules ecs up (real_ckey mark) maxttl H1 Hinj); [|exact Hwm].
  apply (crun_inv matches rules ecs up (real_ckey mark) maxttl H1 Hinj _ Hev). apply cinv_init.
Qed.
Print Assumptions C12_resp_opt_cached.

(* non-vacuity: an upstream reply WITH an OPT (cookie) is cached; a later client WITHOUT EDNS is served from cache and
   gets no OPT, a client WITH EDNS gets exactly the proxy's own *)
Definition c12_q (id : N) (edns : bool) : msg :=
  mkMsg (mkHeader id false 0 false false true false false false 0) [mkQuestion [1; 97]%N 1 1] [] []
        (if edns then [new_opt 4096 []] else []).
Definition c12_reply : msg :=
  mkMsg (mkHeader 0 true 0 false false true true false false 0) [mkQuestion [1; 97]%N 1 1]
        [mkRR [1; 97]%N 1 1 60 4 (RA [1; 2; 3; 4]%N)] [] [mkRR [] TypeOPT 4096 32768 12 (RRaw [0; 10; 0; 8; 1; 2; 3; 4; 5; 6; 7; 8]%N)].
Example C12_cached_example :
  let run := crun (fun _ _ => false) [mkRule None 0 (Some 0)] false (fun _ _ => UReply c12_reply)
                  (fun q _ => q_type q) (6 * 3600 * SECOND)%Z (init_state 100)
                  [CReq 0 0 1000 (c12_q 1 true) ANone; CReq 5 5 1000 (c12_q 2 false) ANone; CReq 9 9 1000 (c12_q 3 true) ANone] in
  map (fun o => match o with
                | Some o => (co_cached o, length (co_eff o), count_opt (m_ar (co_resp o)))
                | None => (false, 0, 0) end) (snd run) = [(false, 1, 1); (true, 0, 0); (true, 0, 1)].
Proof. vm_compute. reflexivity. Qed.

Example C12_example :
  let opt d := mkRR [] 41 4096 0 0 (RRaw d) in
  let m := mkMsg (mkHeader 9 false 0 false false true false false false 0) [mkQuestion [1; 97]%N 1 1] [] []
                 [opt [0; 8; 0; 4; 0; 1; 0; 0]%N] in
  let rep := mkMsg (mkHeader 0 true 0 false false true true false false 0) [mkQuestion [1; 97]%N 1 1] [] []
                   [opt [0; 10; 0; 8; 1; 2; 3; 4; 5; 6; 7; 8]%N] in
  m_ar (fst (handle (fun _ _ => false) [mkRule None 0 (Some 0)] true (fun _ _ => UReply rep) m (A4 [192; 0; 2; 55]%N)))
  = [new_opt udp_size []].
Proof. vm_compute. reflexivity. Qed.
