(* C12 — EDNS0 ends at the proxy; ECS reveals only a truncated client prefix.
   Only statements; proofs in Router/RouterProofs.v. *)
From Mos Require Import Base.Prelude Codec.Name Codec.Msg Codec.WfProofs Codec.RoundtripProofs
  Router.Rules Router.Edns Router.Router Router.RouterSpec Router.RouterProofs.

(* The OPT records of the additional section of EVERY response: none for an unsupported query; otherwise exactly the
   proxy's own fresh OPT (class = its UDP size, TTL 0, no options) iff the query carried one.  The statement does
   not mention the upstream reply's or the query's options: they are never relayed (non-interference).  Upstream
   replies are restricted, as in the property, to at most one OPT record (RFC 6891). *)
Theorem C12_resp_opt : forall matches rules ecs up,
  (forall u w r, up u w = UReply r -> count_opt (m_ar r) <= 1) ->
  forall (m : msg) (client : addr),
  filter is_opt (m_ar (fst (handle matches rules ecs up m client))) =
  if unsupported m then [] else if has_opt m then [new_opt udp_size []] else [].
Proof. exact handle_opt. Qed.
Print Assumptions C12_resp_opt.

Theorem C12_own_opt_form : is_own_opt (new_opt udp_size []) = true /\ r_class (new_opt udp_size []) = 1200%N /\
  r_data (new_opt udp_size []) = RRaw [] /\ r_ttl (new_opt udp_size []) = 0%N.
Proof. repeat split. Qed.
Print Assumptions C12_own_opt_form.

(* Every upstream query is well-formed wire data carrying exactly one OPT record, whose RDATA is the ECS option when
   ECS is enabled (empty when the client address is unknown) and empty otherwise. *)
Theorem C12_upstream_query : forall (e : bool) (q : question) (a : addr), wf_question q -> wf_addr a ->
  exists w, pack_req e q a = Ok w /\ unpack_msg w = Ok (relen (req_msg e q a)) /\
            map r_data (m_ar (relen (req_msg e q a))) = [RRaw (if e then ecs_option a else [])] /\
            count_opt (m_ar (relen (req_msg e q a))) = 1.
Proof.
  intros e q a Hq Ha. destruct (pack_req_decodes e q a Hq Ha) as (w & H1 & H2).
  exists w. repeat split; assumption.
Qed.
Print Assumptions C12_upstream_query.

(* The ECS option: code 8, family 1 / source prefix 24 / 3 address octets for IPv4 (IPv4-mapped IPv6 included),
   family 2 / source prefix 56 / 7 address octets for IPv6, scope 0; absent when the address is unknown. *)
Theorem C12_ecs_form :
  (forall a b c d, ecs_option (A4 [a; b; c; d]) = [0; 8; 0; 7; 0; 1; 24; 0; a; b; c]%N) /\
  (forall a b c d, ecs_option (A6 (v4_mapped_prefix ++ [a; b; c; d])) = [0; 8; 0; 7; 0; 1; 24; 0; a; b; c]%N) /\
  (forall bs, list_eqb (firstn 12 bs) v4_mapped_prefix = false ->
              ecs_option (A6 bs) = [0; 8; 0; 11; 0; 2; 56; 0]%N ++ firstn 7 bs) /\
  ecs_option ANone = [].
Proof. split; [exact ecs_form_v4|]. split; [exact ecs_form_mapped|]. split; [exact ecs_form_v6|reflexivity]. Qed.
Print Assumptions C12_ecs_form.

(* all host bits are absent: the option is 0, 11 or 15 octets long *)
Theorem C12_ecs_length : forall a, wf_addr a ->
  length (ecs_option a) = 0 \/ length (ecs_option a) = 11 \/ length (ecs_option a) = 15.
Proof. exact ecs_length. Qed.
Print Assumptions C12_ecs_length.

(* privacy: two client addresses that agree on the first 24 (IPv4) / 56 (IPv6) bits yield identical upstream queries *)
Theorem C12_ecs_privacy : forall a1 a2,
  match unmap a1, unmap a2 with
  | A4 b1, A4 b2 => firstn 3 b1 = firstn 3 b2
  | A6 b1, A6 b2 => firstn 7 b1 = firstn 7 b2
  | ANone, ANone => True
  | _, _ => False
  end -> forall e q, pack_req e q a1 = pack_req e q a2.
Proof. exact ecs_privacy. Qed.
Print Assumptions C12_ecs_privacy.

(* non-vacuity: an upstream reply with a cookie-laden OPT, a query with an ECS-laden OPT: the response's only OPT is
   the proxy's own *)
Example C12_example :
  let opt d := mkRR [] 41 4096 0 0 (RRaw d) in
  let m := mkMsg (mkHeader 9 false 0 false false true false false false 0) [mkQuestion [1; 97]%N 1 1] [] []
                 [opt [0; 8; 0; 4; 0; 1; 0; 0]%N] in
  let rep := mkMsg (mkHeader 0 true 0 false false true true false false 0) [mkQuestion [1; 97]%N 1 1] [] []
                   [opt [0; 10; 0; 8; 1; 2; 3; 4; 5; 6; 7; 8]%N] in
  m_ar (fst (handle (fun _ _ => false) [mkRule None 0 (Some 0)] true (fun _ _ => UReply rep) m (A4 [192; 0; 2; 55]%N)))
  = [new_opt udp_size []].
Proof. vm_compute. reflexivity. Qed.
