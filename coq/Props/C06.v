(* C06 — one-at-a-time upstream connections are reused only when clean.
   Only statements; the model is Net/Reuse.v (small-ru_step LTS of ReuseConnTransport at the granularity
   of the Go code's atomic actions + big-ru_step quiescent histories), proofs are in Net/ReuseProofs.v.
   [reachable s] = some finite sequence of labels leads from [ru_init] to [s]: every schedule of any
   number of callers, workers, dial goroutines, idle timers, cancellations, transport Close and of a
   server that owes one (tagged) reply per query and may delay, split or abort — at that granularity.

   [held p] (ReuseProofs.v) is the connection a goroutine at program counter p owns: from the
   hand-over (getIdleConn / dial) until its releaseConn has finished. *)
From Mos Require Import Base.Prelude Net.Reuse Net.ReuseProofs.

(* a connection never carries more than one outstanding query — counted at the client
   (written - consumed) and at the server (queries owed; no query arrives on a half-replied conn) *)
Theorem C06_single_outstanding : forall s c, reachable s ->
  i_written (io (conns s c)) <= S (i_consumed (io (conns s c))) /\
  s_maxout (srv (conns s c)) <= 1 /\ s_dirtyq (srv (conns s c)) = false.
Proof. exact c06_single_outstanding. Qed.
Print Assumptions C06_single_outstanding.

(* a connection offered for reuse has consumed exactly the replies to the queries written on it,
   without error, nothing is half read, nothing is owed or in flight, and nobody is serving on it *)
Theorem C06_idle_clean : forall s c, reachable s -> f_inidle (fl (conns s c)) = true ->
  f_serving (fl (conns s c)) = false /\
  i_written (io (conns s c)) = i_consumed (io (conns s c)) /\
  i_partial (io (conns s c)) = false /\ i_err (io (conns s c)) = false /\
  s_unans (srv (conns s c)) = [] /\ s_mid (srv (conns s c)) = None /\ s_inbox (srv (conns s c)) = [].
Proof. exact idle_clean. Qed.
Print Assumptions C06_idle_clean.

(* exitIdle / enterIdle never reach their panic branches, and a connection never has two owners *)
Theorem C06_exclusive : forall s, reachable s ->
  panicked s = false /\
  (forall l s', ru_step s l = Some s' -> panicked s' = false) /\
  (forall w1 w2 c, held (w_pc (works s w1)) = Some c -> held (w_pc (works s w2)) = Some c -> w1 = w2) /\
  (forall w c, held (w_pc (works s w)) = Some c -> f_inidle (fl (conns s c)) = false).
Proof. exact c06_exclusive. Qed.
Print Assumptions C06_exclusive.

(* against a one-reply-per-query server a message returned to a caller (and a message a worker
   puts on its result_ru channel) answers that caller's own query — in every reachable state_ru, i.e.
   for every placement of cancellations, timer expiries, aborts and split replies *)
Theorem C06_own_reply : forall s, reachable s ->
  (forall e q, x_pc (exchs s e) = CDone (OMsg q) -> q = e) /\
  (forall w q, w_sent (works s w) = Some (RMsg q) -> q = w_exch (works s w)).
Proof. exact c06_own_reply. Qed.
Print Assumptions C06_own_reply.

(* after the caller gave up: (a) its give-up ru_step touches neither connections nor goroutines;
   (b) as long as a goroutine still owns the connection it is outside the idle set, marked serving
   until enterIdle/close, and owned by nobody else; (c) the only ru_step that puts a connection into
   the idle set is the end of its owner's releaseConn on the success path, when the complete reply
   has been consumed; (d) a connection that saw an I/O error is never idle (it is closed instead) *)
Theorem C06_abandoned : forall s, reachable s ->
  (forall e s', ru_step s (LCallerCtxDone e) = Some s' ->
     conns s' = conns s /\ works s' = works s /\ nconn s' = nconn s /\ x_pc (exchs s' e) = CDone OCancel) /\
  (forall w c, held (w_pc (works s w)) = Some c ->
     f_inidle (fl (conns s c)) = false /\
     (hard (w_pc (works s w)) = true -> f_serving (fl (conns s c)) = true /\ f_closed (fl (conns s c)) = false) /\
     (forall w', held (w_pc (works s w')) = Some c -> w' = w)) /\
  (forall l s' c, ru_step s l = Some s' ->
     f_inidle (fl (conns s c)) = false -> f_inidle (fl (conns s' c)) = true ->
     exists w, l = LRel2 w /\ w_pc (works s w) = WRel2 c true /\
               f_serving (fl (conns s c)) = false /\ cleanc (conns s c)) /\
  (forall c, i_err (io (conns s c)) = true -> f_inidle (fl (conns s c)) = false).
Proof. exact c06_abandoned. Qed.
Print Assumptions C06_abandoned.

(* the histories replayed against the implementation are schedules of the small-ru_step system, so
   all of the above holds of every state_ru the model runner prints *)
Theorem C06_big_refines_small : forall evs s tr,
  run_trace evs = Some (s, tr) -> steps ru_init tr = Some s /\ reachable s.
Proof. exact c06_big_refines_small. Qed.
Print Assumptions C06_big_refines_small.

(* ---- non-vacuity ---- *)
Definition view_of (evs : list event_ru) :=
  match run_history evs with
  | Some s => Some (outcomes s, nconn s, obs_idle s, obs_maxout s, spec_ok s)
  | None => None
  end.

(* cancellation between write and reply; the abandoned worker drains the reply; the SAME connection
   (one dial) then serves exchange 1, which gets reply 1 *)
Example C06_ex_cancel_then_reuse :
  view_of [EStart false; ECancel 0; EReply 0; EStart false; EReply 1]
  = Some ([CDone OCancel; CDone (OMsg 1)], 1, 1, 1, true).
Proof. vm_compute. reflexivity. Qed.

(* while the abandoned worker is still waiting, the connection is NOT offered: exchange 1 dials a second one *)
Example C06_ex_cancel_not_yet_drained :
  view_of [EStart false; ECancel 0; EStart false; EReply 1; EReply 0]
  = Some ([CDone OCancel; CDone (OMsg 1)], 2, 2, 1, true).
Proof. vm_compute. reflexivity. Qed.

(* cancellation in the middle of a split reply; reuse after the rest arrived *)
Example C06_ex_cancel_mid_reply :
  view_of [EStart false; EReplyHalf 0; ECancel 0; EReplyRest 0; EStart false; EReply 1]
  = Some ([CDone OCancel; CDone (OMsg 1)], 1, 1, 1, true).
Proof. vm_compute. reflexivity. Qed.

(* abort in the middle of a reply: the connection is closed, never idle; idle-timer expiry and a
   server that closed an idle connection (retry on the reused connection, then a fresh dial) *)
Example C06_ex_abort_timer_retry :
  view_of [EStart false; EReplyHalf 0; EAbort 0; EStart false; EReply 1; EIdleTimeout; EStart false; EReply 2;
           EAbortIdle; EStart false; EReply 3]
  = Some ([CDone OErr; CDone (OMsg 1); CDone (OMsg 2); CDone (OMsg 3)], 4, 1, 1, true).
Proof. vm_compute. reflexivity. Qed.

(* the bound of C06_single_outstanding is tight: a reachable state_ru with one query outstanding *)
Example C06_ex_outstanding : exists s, reachable s /\ i_written (io (conns s 0)) = 1 /\ i_consumed (io (conns s 0)) = 0.
Proof.
  destruct (run_history [EStart false]) as [s|] eqn:E; [|vm_compute in E; discriminate].
  exists s. split; [apply (run_history_reachable [EStart false]); auto|].
  vm_compute in E. inversion E; subst. cbn. auto.
Qed.
