(* C14 — upstream exchanges end by their deadline and survive stale connections.
   Only statements; the model is Net/Exchange.v (one exchange goroutine of PipelineTransport / ReuseConnTransport /
   QuicTransport / DoHTransport against an adversarial environment), proofs are in Net/ExchangeProofs.v.
   "reachable tk s" = s is the result of ANY sequence of own steps and environment steps (ctx expiry, connection
   death, dial completion or not, reply delivery or not, any pool behaviour) from the initial state. *)
From Mos Require Import Base.Prelude Net.Exchange Net.ExchangeProofs.

(* ---- every wait has a ctx exit; progress after the deadline ----
   For every transport and every reachable state s (reached by the label sequence ls):
   (a) once ctx is done and the exchange has not returned, some own step is enabled, and at the two blocking points
       (dial wait, reply wait) that step is the ctx arm of the select;
   (b) the measure mu strictly decreases on every own step and never increases on an environment step;
   (c) so the exchange makes at most own_bound tk = 5*(retry_limit+1) own steps in total (30 pipeline/QUIC, 35 reuse,
       5 DoH), at most ctx_bound = 5 after ctx is done, and mu = 0 only when it has returned. *)
Theorem C14_ctx_exit : forall tk ls s,
  xexec tk ls xinit = Some s ->
  (ctxd s = true -> returned s = false ->
     (exists a s', is_own a = true /\ xstep tk s a = Some s') /\
     ((exists d, pcv s = PDialWait d) \/ (exists f r, pcv s = PWait f r) -> exists s', xstep tk s AArmCtx = Some s')) /\
  (forall l s', xstep tk s l = Some s' -> if is_own l then mu tk s' < mu tk s else mu tk s' <= mu tk s) /\
  count_own ls + mu tk s <= own_bound tk /\
  (ctxd s = true -> forall ls' s', xexec tk ls' s = Some s' -> count_own ls' <= ctx_bound) /\
  (mu tk s = 0 -> returned s = true).
Proof. exact ctx_exit. Qed.
Print Assumptions C14_ctx_exit.

(* outside the two blocking points the goroutine is never blocked at all (ctx done or not) *)
Theorem C14_only_waits_block : forall tk s,
  returned s = false ->
  (forall d, pcv s <> PDialWait d) -> (forall f r, pcv s <> PWait f r) ->
  exists a s', is_own a = true /\ xstep tk s a = Some s'.
Proof. exact nonblocking_pc_progress. Qed.
Print Assumptions C14_only_waits_block.

(* ---- bounded retries, only on reused connections, only while ctx is live ---- *)
(* in every reachable state: retry <= limit (5 pipeline, 6 reuse, 5 QUIC), hence at most limit+1 attempts; at most ONE
   dial per exchange, and none has happened whenever the loop is at its top *)
Theorem C14_retry_bound : forall tk s,
  reachable tk s ->
  retry s <= retry_limit tk /\ attempts s <= retry_limit tk + 1 /\ dials s <= 1 /\ (pcv s = PGet -> dials s = 0).
Proof. exact retry_bound. Qed.
Print Assumptions C14_retry_bound.

(* the only step that changes the retry counter is the check after a failure on a REUSED connection with ctx live and
   the counter below the limit; it increments by one and goes back to the top of the loop *)
Theorem C14_retry_only_reused : forall tk s l s',
  xstep tk s l = Some s' -> retry s' <> retry s ->
  l = ACheck /\ pcv s = PCheck false /\ ctxd s = false /\ retry s < retry_limit tk /\
  retry s' = S (retry s) /\ pcv s' = PGet.
Proof. exact retry_only_by_check. Qed.
Print Assumptions C14_retry_only_reused.

(* and the loop re-enters its top in no other way *)
Theorem C14_loop_only_by_retry : forall tk s l s',
  xstep tk s l = Some s' -> pcv s' = PGet -> pcv s <> PGet ->
  l = ACheck /\ pcv s = PCheck false /\ ctxd s = false /\ retry s < retry_limit tk /\ retry s' = S (retry s).
Proof. exact back_to_get_only_by_retry. Qed.
Print Assumptions C14_loop_only_by_retry.

(* a failure on a freshly dialled connection returns the error: no retry, no further dial *)
Theorem C14_fresh_failure_returns : forall tk s,
  pcv s = PCheck true ->
  exists s', xstep tk s ACheck = Some s' /\ pcv s' = PRet RErr /\ retry s' = retry s /\ dials s' = dials s.
Proof. exact fresh_failure_returns. Qed.
Print Assumptions C14_fresh_failure_returns.

Theorem C14_ctx_done_failure_returns : forall tk s f,
  pcv s = PCheck f -> ctxd s = true ->
  exists s', xstep tk s ACheck = Some s' /\ pcv s' = PRet RErr /\ retry s' = retry s.
Proof. exact ctx_done_failure_returns. Qed.
Print Assumptions C14_ctx_done_failure_returns.

(* the boundary both ways, for every transport *)
Theorem C14_retry_boundary : forall tk s,
  pcv s = PCheck false -> ctxd s = false ->
  (retry s < retry_limit tk -> exists s', xstep tk s ACheck = Some s' /\ pcv s' = PGet /\ retry s' = S (retry s)) /\
  (retry_limit tk <= retry s -> exists s', xstep tk s ACheck = Some s' /\ pcv s' = PRet RErr).
Proof. exact retry_boundary. Qed.
Print Assumptions C14_retry_boundary.

(* ---- connection death wakes every waiter ---- *)
(* pipelined connections: closeWithErr (one cancellation of the connection context = the label EKill in every waiter)
   enables, in EVERY exchange waiting on that connection, the connection arm, which leaves the wait with an error
   whether or not a reply is queued *)
Theorem C14_conn_death : forall ws : list xstate,
  Forall waiting ws ->
  Forall (fun w => exists w1 w2 f, xstep TPipe w EKill = Some w1 /\ cdead w1 = true /\
                                   xstep TPipe w1 AArmConn = Some w2 /\ pcv w2 = PCheck f) ws.
Proof. exact pipe_kill_wakes_all. Qed.
Print Assumptions C14_conn_death.

(* and no sequence of environment steps can disable that arm again *)
Theorem C14_conn_death_stable : forall ls s,
  waiting s -> cdead s = true -> count_own ls = 0 ->
  forall s', xexec TPipe ls s = Some s' ->
  waiting s' /\ cdead s' = true /\ exists s2 f, xstep TPipe s' AArmConn = Some s2 /\ pcv s2 = PCheck f.
Proof. exact pipe_dead_arm_stable. Qed.
Print Assumptions C14_conn_death_stable.

(* worker-based transports (reuse, QUIC, DoH: one waiter per connection / stream): after the connection dies the
   worker's failing I/O — a step that needs no reply — posts the error, and the result arm then leaves the wait *)
Theorem C14_conn_death_worker : forall tk s f r,
  conn_arm tk = false -> pcv s = PWait f r ->
  exists s1, xstep tk s EKill = Some s1 /\ pcv s1 = PWait f r /\
    match r with
    | Some _ => exists s2, xstep tk s1 AArmRes = Some s2 /\
                           returned s2 || match pcv s2 with PCheck _ => true | _ => false end = true
    | None => exists s2 s3, xstep tk s1 (EDeliver false) = Some s2 /\ xstep tk s2 AArmRes = Some s3 /\
                            match pcv s3 with PCheck _ | PRet RErr => True | _ => False end
    end.
Proof. exact worker_kill_wakes. Qed.
Print Assumptions C14_conn_death_worker.

(* ---- stale pooled connections ---- *)
(* Every run that returns while ctx is live, in which no dial failed, the pool did not refuse, no freshly dialled
   connection failed, and at most retry_limit reused connections failed, returns the reply.
   The side condition "fails s <= retry_limit tk" (at most b stale pooled connections) is needed for the pipelined and
   QUIC transports (C14_budget_exhausted_pipe_quic); for the one-at-a-time transport see C14_stale_success_reuse. *)
Theorem C14_stale_success : forall tk s r,
  reachable tk s -> pcv s = PRet r ->
  ctxd s = false -> g_dial_fail s = false -> g_get_err s = false -> g_fresh_fail s = false ->
  fails s <= retry_limit tk ->
  r = RReply.
Proof. exact stale_success. Qed.
Print Assumptions C14_stale_success.

(* a healthy connection is not blocked: the reply can be queued and taken *)
Theorem C14_healthy_delivers : forall tk s f,
  pcv s = PWait f None ->
  exists s1 s2, xstep tk s (EDeliver true) = Some s1 /\ xstep tk s1 AArmRes = Some s2 /\ pcv s2 = PRet RReply.
Proof. exact healthy_wait_delivers. Qed.
Print Assumptions C14_healthy_delivers.

(* the scripted form the harness replays: k <= limit stale pooled connections and a healthy server:
   reply, after exactly one dial and k+1 attempts *)
Theorem C14_stale_success_script : forall tk k,
  tk <> TDoH -> k <= retry_limit tk ->
  run_script tk (repeat FDie k) [] = Some (mkOut RReply 1 (S k) false) /\
  run_script tk (repeat FWriteErr k) [] = Some (mkOut RReply 1 (S k) false).
Proof. exact script_stale_success_both. Qed.
Print Assumptions C14_stale_success_script.

(* Finding K7 (FIXED in /repo, commit "fix: reuse transport makes its last attempt on a fresh connection"):
   ReuseConnTransport.ExchangeContext used to retry on the NEXT IDLE connection and its idle set is unbounded, so with
   7 (or 12) stale idle connections the exchange failed after 7 attempts and ZERO dials while a dial would have
   succeeded (replay: corpus/C14/fixed-k7-many-stale.case; on the unfixed tree the check reports
   c14-stale-not-survived). After the fix the last attempt dials; for that transport the side condition of
   C14_stale_success disappears: ANY number of stale idle connections is survived. *)
Theorem C14_stale_success_reuse : forall s r,
  reachable TReuse s -> pcv s = PRet r ->
  ctxd s = false -> g_dial_fail s = false -> g_get_err s = false -> g_fresh_fail s = false ->
  r = RReply.
Proof. exact (fun s r => stale_success_unbounded TReuse s r eq_refl). Qed.
Print Assumptions C14_stale_success_reuse.

(* scripted form, for every n: n stale idle connections, healthy server: reply after min(n,6)+1 attempts, one dial *)
Theorem C14_many_stale_survived : forall n,
  run_script TReuse (repeat FDie n) [] = Some (mkOut RReply 1 (S (Nat.min n 6)) false).
Proof. exact script_many_stale_survived. Qed.
Print Assumptions C14_many_stale_survived.

(* The pipelined and the QUIC transport keep the side condition (their pools never hand out a connection they know
   to be closed, and hold few connections): 6 reused connections that each die only when used exhaust the budget
   without a dial. Not reachable with real sockets in a quiescent scenario (the pipelined read loop notices a dead
   connection at once); reproduced on the real loop only with injected failing Writes (tr=pfake). *)
Theorem C14_budget_exhausted_pipe_quic :
  run_script TPipe (repeat FDie 6) [] = Some (mkOut RErr 0 6 false) /\
  run_script TQuic (repeat FDie 6) [] = Some (mkOut RErr 0 6 false).
Proof. exact script_budget_exhausted. Qed.
Print Assumptions C14_budget_exhausted_pipe_quic.

(* the scripted runner the harness is compared with only produces executions of the LTS, within the bounds *)
Theorem C14_script_sound : forall tk pool dialf o,
  run_script tk pool dialf = Some o ->
  (exists ls s, xexec tk ls xinit = Some s /\ pcv s = PRet (o_class o) /\
                dials s = o_dials o /\ attempts s = o_attempts o /\ ctxd s = o_ctx o) /\
  o_attempts o <= retry_limit tk + 1 /\ o_dials o <= 1.
Proof. exact run_script_sound_bounds. Qed.
Print Assumptions C14_script_sound.

(* ---- a pooled pipelined connection that goes SILENT (no FIN, no RST) ----
   Model: [ix_step wr idle] — one pooled pipelined connection with the clock of its read loop ([ix_since] = time since
   the read deadline was last armed, i.e. since the last message was READ), shared by any number of exchange goroutines
   (instances of the exchange LTS on TPipe) that join, write, wait, time out and retry in any interleaving.
   The code is [wr = false]: pipelineConn.write touches no deadline. *)

(* nothing but a read from the connection lowers the time since the deadline was armed: no write, no join, no step of
   any exchange; time steps raise it *)
Theorem C14_idle_deadline_only_reads_rearm : forall idle s l s',
  ix_step false idle s l = Some s' -> ix_is_read s l = false ->
  ix_since (ix_conn s) + (match l with IxTick => 1 | _ => 0 end) <= ix_since (ix_conn s').
Proof. exact ix_since_monotone. Qed.
Print Assumptions C14_idle_deadline_only_reads_rearm.

(* so after an idle time-out of silence the idle deadline step is enabled WHATEVER the exchanges did meanwhile (it is
   never disabled by exchange activity) *)
Theorem C14_idle_deadline_enabled : forall idle ls s s',
  ix_exec false idle ls s = Some s' -> ix_silent false idle ls s = true ->
  idle <= ix_since (ix_conn s) + ix_ticks ls ->
  ix_dead (ix_conn s') = false ->
  exists s'', ix_step false idle s' IxIdleFire = Some s''.
Proof. exact ix_fire_enabled_after_silence. Qed.
Print Assumptions C14_idle_deadline_enabled.

(* and when it fires, the connection is dead for good and EVERY exchange waiting on it with a live context and retry
   budget left reaches the reply — connection arm, retry (reused connection, ctx live), ONE fresh dial to the healthy
   server, write, reply — by steps that no other exchange can disturb and that disturb no other exchange *)
Theorem C14_silent_pooled_conn_recovered : forall idle ls s0 s,
  ix_exec false idle ls s0 = Some s -> ix_silent false idle ls s0 = true ->
  idle <= ix_since (ix_conn s0) + ix_ticks ls ->
  ix_dead (ix_conn s) = false ->
  exists sf, ix_step false idle s IxIdleFire = Some sf /\ ix_dead (ix_conn sf) = true /\
    forall i w r, nth_error (ix_ws s) i = Some w ->
      pcv w = PWait false r -> ctxd w = false -> retry w < retry_limit TPipe ->
      exists s2 w2, ix_exec false idle (map (IxW i) ix_recovery) sf = Some s2 /\
                    nth_error (ix_ws s2) i = Some w2 /\ pcv w2 = PRet RReply /\
                    dials w2 = S (dials w) /\ retry w2 = S (retry w) /\
                    (forall j, j <> i -> nth_error (ix_ws s2) j = nth_error (ix_ws sf) j).
Proof. exact ix_silent_pooled_conn_recovered. Qed.
Print Assumptions C14_silent_pooled_conn_recovered.

Theorem C14_conn_stays_dead : forall wr idle s l s',
  ix_step wr idle s l = Some s' -> ix_dead (ix_conn s) = true -> ix_dead (ix_conn s') = true.
Proof. exact ix_dead_monotone. Qed.
Print Assumptions C14_conn_stays_dead.

(* sensitivity (the regression this guards against: SetDeadline instead of SetWriteDeadline in pipelineConn.write):
   if a write re-armed the read deadline, 10 exchanges arriving one time unit apart (idle = 3) keep a silent connection
   alive — all 10 are still on it, the deadline step is disabled — while under the code it is enabled *)
Theorem C14_write_rearm_would_starve :
  let ls := ix_busy_rounds 10 0 in
  ix_ticks ls = 10 /\
  ix_silent true 3 ls ix_init = true /\ ix_silent false 3 ls ix_init = true /\
  (exists s, ix_exec true 3 ls ix_init = Some s /\ ix_dead (ix_conn s) = false /\ ix_fire_enabled 3 s = false /\
             length (ix_ws s) = 10 /\ forallb ix_on_conn (ix_ws s) = true) /\
  (exists s, ix_exec false 3 ls ix_init = Some s /\ ix_dead (ix_conn s) = false /\ ix_fire_enabled 3 s = true).
Proof. exact ix_write_rearm_starves. Qed.
Print Assumptions C14_write_rearm_would_starve.

(* the scripted form the harness replays (exchange deadline beyond the idle time-out): reply after one dial and two
   attempts; with the deadline before the idle time-out the exchange ends at its deadline; a silent FRESH connection
   dies at the idle time-out and its error is returned *)
Theorem C14_silent_pooled_script : forall udp,
  run_case_idle TPipe udp true [SSilent] [SOk] = Some (mkOut RReply 1 2 false) /\
  run_case_idle TPipe udp true [SHalf] [SOk] = Some (mkOut RReply 1 2 false) /\
  run_case_idle TPipe udp false [SSilent] [SOk] = Some (mkOut RErr 0 1 true) /\
  run_case_idle TPipe udp true [] [SSilent] = Some (mkOut RErr 1 1 false).
Proof. exact script_silent_pooled_recovered. Qed.
Print Assumptions C14_silent_pooled_script.

(* ---- non-vacuity ---- *)
(* boundary of the retry constants: 5 stale -> reply / 6 stale -> error on the pipelined transport; on reuse 6 retries, then the 7th attempt always dials *)
Example C14_example_boundaries :
  run_script TPipe (repeat FDie 5) [] = Some (mkOut RReply 1 6 false) /\
  run_script TPipe (repeat FDie 6) [] = Some (mkOut RErr 0 6 false) /\
  run_script TQuic (repeat FDie 5) [] = Some (mkOut RReply 1 6 false) /\
  run_script TQuic (repeat FDie 6) [] = Some (mkOut RErr 0 6 false) /\
  run_script TReuse (repeat FDie 6) [] = Some (mkOut RReply 1 7 false) /\
  run_script TReuse (repeat FDie 7) [] = Some (mkOut RReply 1 7 false) /\
  run_script TReuse (repeat FDie 7) [FDialRefuse] = Some (mkOut RErr 1 7 false) /\
  run_script TReuse (repeat FDie 5) [FDialRefuse] = Some (mkOut RErr 1 6 false).
Proof. vm_compute. repeat split. Qed.

(* a failure on a fresh connection is not retried; a silent server / a dial that never completes ends at ctx *)
Example C14_example_fresh_and_ctx :
  run_script TPipe [] [FDie] = Some (mkOut RErr 1 1 false) /\
  run_script TReuse [] [FDialRefuse] = Some (mkOut RErr 1 1 false) /\
  run_script TReuse [] [FSilent] = Some (mkOut RErr 1 1 true) /\
  run_script TPipe [] [FDialHang] = Some (mkOut RErr 1 1 true) /\
  run_script TPipe [FSilent] [] = Some (mkOut RErr 0 1 true) /\
  run_script TDoH [] [FSilent] = Some (mkOut RErr 0 1 true) /\
  run_script TReuse [FDie; FNone] [] = Some (mkOut RReply 0 2 false).
Proof. vm_compute. repeat split. Qed.

(* a reachable blocked state with ctx done exists (so C14_ctx_exit (a) is not vacuous), and its ctx arm leaves it *)
Example C14_example_ctx_arm :
  exists s s', xexec TReuse [AGet true; AWrite true; ECtx] xinit = Some s /\
               pcv s = PWait false None /\ ctxd s = true /\ returned s = false /\
               xstep TReuse s AArmCtx = Some s' /\ pcv s' = PCheck false /\
               xstep TReuse s AArmRes = None.
Proof. eexists; eexists. vm_compute. repeat split. Qed.

(* the hypotheses of C14_silent_pooled_conn_recovered are met by a concrete execution: one exchange waits on the pooled
   connection, two more join and WRITE while time passes (idle = 3); the deadline fires and the first waiter recovers *)
Example C14_example_silent_pooled :
  let ls := [IxJoin; IxW 0 (AGet true); IxW 0 (AWrite true); IxTick;
             IxJoin; IxW 1 (AGet true); IxW 1 (AWrite true); IxTick;
             IxJoin; IxW 2 (AGet true); IxW 2 (AWrite true); IxTick] in
  ix_silent false 3 ls ix_init = true /\ ix_ticks ls = 3 /\
  exists s s2 w2, ix_exec false 3 (ls ++ [IxIdleFire] ++ map (IxW 0) ix_recovery) ix_init = Some s2 /\
                  ix_exec false 3 ls ix_init = Some s /\ ix_dead (ix_conn s) = false /\
                  nth_error (ix_ws s2) 0 = Some w2 /\ pcv w2 = PRet RReply /\ dials w2 = 1 /\ retry w2 = 1.
Proof. cbv zeta. split; [vm_compute; reflexivity|]. split; [reflexivity|]. eexists; eexists; eexists. vm_compute. repeat split. Qed.
