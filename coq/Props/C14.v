(* C14 — upstream exchanges end by their deadline and survive stale connections.
   Only statements; the model is Net/Exchange.v (one exchange goroutine of PipelineTransport / ReuseConnTransport /
   QuicTransport / DoHTransport against an adversarial environment), proofs are in Net/ExchangeProofs.v.
   "reachable tk s" = s is the result of ANY sequence of own steps and environment steps (ctx expiry, connection
   death, dial completion or not, reply delivery or not, any pool behaviour) from the initial state. *)
From Mos Require Import Base.Prelude Net.Exchange Net.ExchangeProofs.

(* ---- every wait has a ctx exit; progress after the deadline ----
   For every transport and every reachable state s (reached by the label sequence ls):
   (a) once ctx is done and the exchange has not returned, some own step is enabled, and at the two blocking points
       (dial wait, reply wait) that step is the ctx arm of the select;
   (b) the measure mu strictly decreases on every own step and never increases on an environment step;
   (c) so the exchange makes at most own_bound tk = 5*(retry_limit+1) own steps in total (30 pipeline/QUIC, 35 reuse,
       5 DoH), at most ctx_bound = 5 after ctx is done, and mu = 0 only when it has returned. *)
Theorem C14_ctx_exit : forall tk ls s,
  xexec tk ls xinit = Some s ->
  (ctxd s = true -> returned s = false ->
     (exists a s', is_own a = true /\ xstep tk s a = Some s') /\
     ((exists d, pcv s = PDialWait d) \/ (exists f r, pcv s = PWait f r) -> exists s', xstep tk s AArmCtx = Some s')) /\
  (forall l s', xstep tk s l = Some s' -> if is_own l then mu tk s' < mu tk s else mu tk s' <= mu tk s) /\
  count_own ls + mu tk s <= own_bound tk /\
  (ctxd s = true -> forall ls' s', xexec tk ls' s = Some s' -> count_own ls' <= ctx_bound) /\
  (mu tk s = 0 -> returned s = true).
Proof. exact ctx_exit. Qed.
Print Assumptions C14_ctx_exit.

(* outside the two blocking points the goroutine is never blocked at all (ctx done or not) *)
Theorem C14_only_waits_block : forall tk s,
  returned s = false ->
  (forall d, pcv s <> PDialWait d) -> (forall f r, pcv s <> PWait f r) ->
  exists a s', is_own a = true /\ xstep tk s a = Some s'.
Proof. exact nonblocking_pc_progress. Qed.
Print Assumptions C14_only_waits_block.

(* ---- bounded retries, only on reused connections, only while ctx is live ---- *)
(* in every reachable state: retry <= limit (5 pipeline, 6 reuse, 5 QUIC), hence at most limit+1 attempts; at most ONE
   dial per exchange, and none has happened whenever the loop is at its top *)
Theorem C14_retry_bound : forall tk s,
  reachable tk s ->
  retry s <= retry_limit tk /\ attempts s <= retry_limit tk + 1 /\ dials s <= 1 /\ (pcv s = PGet -> dials s = 0).
Proof. exact retry_bound. Qed.
Print Assumptions C14_retry_bound.

(* the only step that changes the retry counter is the check after a failure on a REUSED connection with ctx live and
   the counter below the limit; it increments by one and goes back to the top of the loop *)
Theorem C14_retry_only_reused : forall tk s l s',
  xstep tk s l = Some s' -> retry s' <> retry s ->
  l = ACheck /\ pcv s = PCheck false /\ ctxd s = false /\ retry s < retry_limit tk /\
  retry s' = S (retry s) /\ pcv s' = PGet.
Proof. exact retry_only_by_check. Qed.
Print Assumptions C14_retry_only_reused.

(* and the loop re-enters its top in no other way *)
Theorem C14_loop_only_by_retry : forall tk s l s',
  xstep tk s l = Some s' -> pcv s' = PGet -> pcv s <> PGet ->
  l = ACheck /\ pcv s = PCheck false /\ ctxd s = false /\ retry s < retry_limit tk /\ retry s' = S (retry s).
Proof. exact back_to_get_only_by_retry. Qed.
Print Assumptions C14_loop_only_by_retry.

(* a failure on a freshly dialled connection returns the error: no retry, no further dial *)
Theorem C14_fresh_failure_returns : forall tk s,
  pcv s = PCheck true ->
  exists s', xstep tk s ACheck = Some s' /\ pcv s' = PRet RErr /\ retry s' = retry s /\ dials s' = dials s.
Proof. exact fresh_failure_returns. Qed.
Print Assumptions C14_fresh_failure_returns.

Theorem C14_ctx_done_failure_returns : forall tk s f,
  pcv s = PCheck f -> ctxd s = true ->
  exists s', xstep tk s ACheck = Some s' /\ pcv s' = PRet RErr /\ retry s' = retry s.
Proof. exact ctx_done_failure_returns. Qed.
Print Assumptions C14_ctx_done_failure_returns.

(* the boundary both ways, for every transport *)
Theorem C14_retry_boundary : forall tk s,
  pcv s = PCheck false -> ctxd s = false ->
  (retry s < retry_limit tk -> exists s', xstep tk s ACheck = Some s' /\ pcv s' = PGet /\ retry s' = S (retry s)) /\
  (retry_limit tk <= retry s -> exists s', xstep tk s ACheck = Some s' /\ pcv s' = PRet RErr).
Proof. exact retry_boundary. Qed.
Print Assumptions C14_retry_boundary.

(* ---- connection death wakes every waiter ---- *)
(* pipelined connections: closeWithErr (one cancellation of the connection context = the label EKill in every waiter)
   enables, in EVERY exchange waiting on that connection, the connection arm, which leaves the wait with an error
   whether or not a reply is queued *)
Theorem C14_conn_death : forall ws : list xstate,
  Forall waiting ws ->
  Forall (fun w => exists w1 w2 f, xstep TPipe w EKill = Some w1 /\ cdead w1 = true /\
                                   xstep TPipe w1 AArmConn = Some w2 /\ pcv w2 = PCheck f) ws.
Proof. exact pipe_kill_wakes_all. Qed.
Print Assumptions C14_conn_death.

(* and no sequence of environment steps can disable that arm again *)
Theorem C14_conn_death_stable : forall ls s,
  waiting s -> cdead s = true -> count_own ls = 0 ->
  forall s', xexec TPipe ls s = Some s' ->
  waiting s' /\ cdead s' = true /\ exists s2 f, xstep TPipe s' AArmConn = Some s2 /\ pcv s2 = PCheck f.
Proof. exact pipe_dead_arm_stable. Qed.
Print Assumptions C14_conn_death_stable.

(* worker-based transports (reuse, QUIC, DoH: one waiter per connection / stream): after the connection dies the
   worker's failing I/O — a step that needs no reply — posts the error, and the result arm then leaves the wait *)
Theorem C14_conn_death_worker : forall tk s f r,
  conn_arm tk = false -> pcv s = PWait f r ->
  exists s1, xstep tk s EKill = Some s1 /\ pcv s1 = PWait f r /\
    match r with
    | Some _ => exists s2, xstep tk s1 AArmRes = Some s2 /\
                           returned s2 || match pcv s2 with PCheck _ => true | _ => false end = true
    | None => exists s2 s3, xstep tk s1 (EDeliver false) = Some s2 /\ xstep tk s2 AArmRes = Some s3 /\
                            match pcv s3 with PCheck _ | PRet RErr => True | _ => False end
    end.
Proof. exact worker_kill_wakes. Qed.
Print Assumptions C14_conn_death_worker.

(* ---- stale pooled connections ---- *)
(* Every run that returns while ctx is live, in which no dial failed, the pool did not refuse, no freshly dialled
   connection failed, and at most retry_limit reused connections failed, returns the reply.
   The side condition "fails s <= retry_limit tk" (at most b stale pooled connections) is needed for the pipelined and
   QUIC transports (C14_budget_exhausted_pipe_quic); for the one-at-a-time transport see C14_stale_success_reuse. *)
Theorem C14_stale_success : forall tk s r,
  reachable tk s -> pcv s = PRet r ->
  ctxd s = false -> g_dial_fail s = false -> g_get_err s = false -> g_fresh_fail s = false ->
  fails s <= retry_limit tk ->
  r = RReply.
Proof. exact stale_success. Qed.
Print Assumptions C14_stale_success.

(* a healthy connection is not blocked: the reply can be queued and taken *)
Theorem C14_healthy_delivers : forall tk s f,
  pcv s = PWait f None ->
  exists s1 s2, xstep tk s (EDeliver true) = Some s1 /\ xstep tk s1 AArmRes = Some s2 /\ pcv s2 = PRet RReply.
Proof. exact healthy_wait_delivers. Qed.
Print Assumptions C14_healthy_delivers.

(* the scripted form the harness replays: k <= limit stale pooled connections and a healthy server:
   reply, after exactly one dial and k+1 attempts *)
Theorem C14_stale_success_script : forall tk k,
  tk <> TDoH -> k <= retry_limit tk ->
  run_script tk (repeat FDie k) [] = Some (mkOut RReply 1 (S k) false) /\
  run_script tk (repeat FWriteErr k) [] = Some (mkOut RReply 1 (S k) false).
Proof. exact script_stale_success_both. Qed.
Print Assumptions C14_stale_success_script.

(* Finding K7 (FIXED in /repo, commit "fix: reuse transport makes its last attempt on a fresh connection"):
   ReuseConnTransport.ExchangeContext used to retry on the NEXT IDLE connection and its idle set is unbounded, so with
   7 (or 12) stale idle connections the exchange failed after 7 attempts and ZERO dials while a dial would have
   succeeded (replay: corpus/C14/fixed-k7-many-stale.case; on the unfixed tree the check reports
   c14-stale-not-survived). After the fix the last attempt dials; for that transport the side condition of
   C14_stale_success disappears: ANY number of stale idle connections is survived. *)
Theorem C14_stale_success_reuse : forall s r,
  reachable TReuse s -> pcv s = PRet r ->
  ctxd s = false -> g_dial_fail s = false -> g_get_err s = false -> g_fresh_fail s = false ->
  r = RReply.
Proof. exact (fun s r => stale_success_unbounded TReuse s r eq_refl). Qed.
Print Assumptions C14_stale_success_reuse.

(* scripted form, for every n: n stale idle connections, healthy server: reply after min(n,6)+1 attempts, one dial *)
Theorem C14_many_stale_survived : forall n,
  run_script TReuse (repeat FDie n) [] = Some (mkOut RReply 1 (S (Nat.min n 6)) false).
Proof. exact script_many_stale_survived. Qed.
Print Assumptions C14_many_stale_survived.

(* The pipelined and the QUIC transport keep the side condition (their pools never hand out a connection they know
   to be closed, and hold few connections): 6 reused connections that each die only when used exhaust the budget
   without a dial. Not reachable with real sockets in a quiescent scenario (the pipelined read loop notices a dead
   connection at once); reproduced on the real loop only with injected failing Writes (tr=pfake). *)
Theorem C14_budget_exhausted_pipe_quic :
  run_script TPipe (repeat FDie 6) [] = Some (mkOut RErr 0 6 false) /\
  run_script TQuic (repeat FDie 6) [] = Some (mkOut RErr 0 6 false).
Proof. exact script_budget_exhausted. Qed.
Print Assumptions C14_budget_exhausted_pipe_quic.

(* the scripted runner the harness is compared with only produces executions of the LTS, within the bounds *)
Theorem C14_script_sound : forall tk pool dialf o,
  run_script tk pool dialf = Some o ->
  (exists ls s, xexec tk ls xinit = Some s /\ pcv s = PRet (o_class o) /\
                dials s = o_dials o /\ attempts s = o_attempts o /\ ctxd s = o_ctx o) /\
  o_attempts o <= retry_limit tk + 1 /\ o_dials o <= 1.
Proof. exact run_script_sound_bounds. Qed.
Print Assumptions C14_script_sound.

(* ---- a pooled pipelined connection that goes SILENT (no FIN, no RST) ----
   Model: [ix_step wr idle] — one pooled pipelined connection with the clock of its read loop ([ix_since] = time since
   the read deadline was last armed, i.e. since the last message was READ), shared by any number of exchange goroutines
   (instances of the exchange LTS on TPipe) that join, write, wait, time out and retry in any interleaving.
   The code is [wr = false]: pipelineConn.write touches no deadline. *)

(* nothing but a read from the connection lowers the time since the deadline was armed: no write, no join, no step of
   any exchange; time steps raise it *)
Theorem C14_idle_deadline_only_reads_rearm : forall idle s l s',
  ix_step false idle s l = Some s' -> ix_is_read s l = false ->
  ix_since (ix_conn s) + (match l with IxTick => 1 | _ => 0 end) <= ix_since (ix_conn s').
Proof. exact ix_since_monotone. Qed.
Print Assumptions C14_idle_deadline_only_reads_rearm.

(* so after an idle time-out of silence the idle deadline step is enabled WHATEVER the exchanges did meanwhile (it is
   never disabled by exchange activity) *)
Theorem C14_idle_deadline_enabled : forall idle ls s s',
  ix_exec false idle ls s = Some s' -> ix_silent false idle ls s = true ->
  idle <= ix_since (ix_conn s) + ix_ticks ls ->
  ix_dead (ix_conn s') = false ->
  exists s'', ix_step false idle s' IxIdleFire = Some s''.
Proof. exact ix_fire_enabled_after_silence. Qed.
Print Assumptions C14_idle_deadline_enabled.

(* and when it fires, the connection is dead for good and EVERY exchange waiting on it with a live context and retry
   budget left reaches the reply — connection arm, retry (reused connection, ctx live), ONE fresh dial to the healthy
   server, write, reply — by steps that no other exchange can disturb and that disturb no other exchange *)
Theorem C14_silent_pooled_conn_recovered : forall idle ls s0 s,
  ix_exec false idle ls s0 = Some s -> ix_silent false idle ls s0 = true ->
  idle <= ix_since (ix_conn s0) + ix_ticks ls ->
  ix_dead (ix_conn s) = false ->
  exists sf, ix_step false idle s IxIdleFire = Some sf /\ ix_dead (ix_conn sf) = true /\
    forall i w r, nth_error (ix_ws s) i = Some w ->
      pcv w = PWait false r -> ctxd w = false -> retry w < retry_limit TPipe ->
      exists s2 w2, ix_exec false idle (map (IxW i) ix_recovery) sf = Some s2 /\
                    nth_error (ix_ws s2) i = Some w2 /\ pcv w2 = PRet RReply /\
                    dials w2 = S (dials w) /\ retry w2 = S (retry w) /\
                    (forall j, j <> i -> nth_error (ix_ws s2) j = nth_error (ix_ws sf) j).
Proof. exact ix_silent_pooled_conn_recovered. Qed.
Print Assumptions C14_silent_pooled_conn_recovered.

Theorem C14_conn_stays_dead : forall wr idle s l s',
  ix_step wr idle s l = Some s' -> ix_dead (ix_conn s) = true -> ix_dead (ix_conn s') = true.
Proof. exact ix_dead_monotone. Qed.
Print Assumptions C14_conn_stays_dead.

(* sensitivity (the regression this guards against: SetDeadline instead of SetWriteDeadline in pipelineConn.write):
   if a write re-armed the read deadline, 10 exchanges arriving one time unit apart (idle = 3) keep a silent connection
   alive — all 10 are still on it, the deadline step is disabled — while under the code it is enabled *)
Theorem C14_write_rearm_would_starve :
  let ls := ix_busy_rounds 10 0 in
  ix_ticks ls = 10 /\
  ix_silent true 3 ls ix_init = true /\ ix_silent false 3 ls ix_init = true /\
  (exists s, ix_exec true 3 ls ix_init = Some s /\ ix_dead (ix_conn s) = false /\ ix_fire_enabled 3 s = false /\
             length (ix_ws s) = 10 /\ forallb ix_on_conn (ix_ws s) = true) /\
  (exists s, ix_exec false 3 ls ix_init = Some s /\ ix_dead (ix_conn s) = false /\ ix_fire_enabled 3 s = true).
Proof. exact ix_write_rearm_starves. Qed.
Print Assumptions C14_write_rearm_would_starve.

(* the scripted form the harness replays (exchange deadline beyond the idle time-out): reply after one dial and two
   attempts; with the deadline before the idle time-out the exchange ends at its deadline; a silent FRESH connection
   dies at the idle time-out and its error is returned *)
Theorem C14_silent_pooled_script : forall udp,
  run_case_idle TPipe udp true [SSilent] [SOk] = Some (mkOut RReply 1 2 false) /\
  run_case_idle TPipe udp true [SHalf] [SOk] = Some (mkOut RReply 1 2 false) /\
  run_case_idle TPipe udp false [SSilent] [SOk] = Some (mkOut RErr 0 1 true) /\
  run_case_idle TPipe udp true [] [SSilent] = Some (mkOut RErr 1 1 false).
Proof. exact script_silent_pooled_recovered. Qed.
Print Assumptions C14_silent_pooled_script.

(* ---- non-vacuity ---- *)
(* boundary of the retry constants: 5 stale -> reply / 6 stale -> error on the pipelined transport; on reuse 6 retries, then the 7th attempt always dials *)
Example C14_example_boundaries :
  run_script TPipe (repeat FDie 5) [] = Some (mkOut RReply 1 6 false) /\
  run_script TPipe (repeat FDie 6) [] = Some (mkOut RErr 0 6 false) /\
  run_script TQuic (repeat FDie 5) [] = Some (mkOut RReply 1 6 false) /\
  run_script TQuic (repeat FDie 6) [] = Some (mkOut RErr 0 6 false) /\
  run_script TReuse (repeat FDie 6) [] = Some (mkOut RReply 1 7 false) /\
  run_script TReuse (repeat FDie 7) [] = Some (mkOut RReply 1 7 false) /\
  run_script TReuse (repeat FDie 7) [FDialRefuse] = Some (mkOut RErr 1 7 false) /\
  run_script TReuse (repeat FDie 5) [FDialRefuse] = Some (mkOut RErr 1 6 false).
Proof. vm_compute. repeat split. Qed.

(* a failure on a fresh connection is not retried; a silent server / a dial that never completes ends at ctx *)
Example C14_example_fresh_and_ctx :
  run_script TPipe [] [FDie] = Some (mkOut RErr 1 1 false) /\
  run_script TReuse [] [FDialRefuse] = Some (mkOut RErr 1 1 false) /\
  run_script TReuse [] [FSilent] = Some (mkOut RErr 1 1 true) /\
  run_script TPipe [] [FDialHang] = Some (mkOut RErr 1 1 true) /\
  run_script TPipe [FSilent] [] = Some (mkOut RErr 0 1 true) /\
  run_script TDoH [] [FSilent] = Some (mkOut RErr 0 1 true) /\
  run_script TReuse [FDie; FNone] [] = Some (mkOut RReply 0 2 false).
Proof. vm_compute. repeat split. Qed.

(* a reachable blocked state with ctx done exists (so C14_ctx_exit (a) is not vacuous), and its ctx arm leaves it *)
Example C14_example_ctx_arm :
  exists s s', xexec TReuse [AGet true; AWrite true; ECtx] xinit = Some s /\
               pcv s = PWait false None /\ ctxd s = true /\ returned s = false /\
               xstep TReuse s AArmCtx = Some s' /\ pcv s' = PCheck false /\
               xstep TReuse s AArmRes = None.
Proof. eexists; eexists. vm_compute. repeat split. Qed.

(* the hypotheses of C14_silent_pooled_conn_recovered are met by a concrete execution: one exchange waits on the pooled
   connection, two more join and WRITE while time passes (idle = 3); the deadline fires and the first waiter recovers *)
Example C14_example_silent_pooled :
  let ls := [IxJoin; IxW 0 (AGet true); IxW 0 (AWrite true); IxTick;
             IxJoin; IxW 1 (AGet true); IxW 1 (AWrite true); IxTick;
             IxJoin; IxW 2 (AGet true); IxW 2 (AWrite true); IxTick] in
  ix_silent false 3 ls ix_init = true /\ ix_ticks ls = 3 /\
  exists s s2 w2, ix_exec false 3 (ls ++ [IxIdleFire] ++ map (IxW 0) ix_recovery) ix_init = Some s2 /\
                  ix_exec false 3 ls ix_init = Some s /\ ix_dead (ix_conn s) = false /\
                  nth_error (ix_ws s2) 0 = Some w2 /\ pcv w2 = PRet RReply /\ dials w2 = 1 /\ retry w2 = 1.
Proof. cbv zeta. split; [vm_compute; reflexivity|]. split; [reflexivity|]. eexists; eexists; eexists. vm_compute. repeat split. Qed.

(* =====================================================================================================================
   Round 2 — what is carried from one exchange to the next: the connection mutex and the shared dialing call.
   Models: Net/ConnLock.v (every function of pipeline_conn.go that takes pipelineConn.m, any number of goroutines, any
   interleaving of their atomic actions), Net/Shutdown.v Part 5 (getConn / runDialingCall / dialingQuicCall.wait of
   QuicTransport: the LTS of C18, here used for what a FINISHED dialing call leaves behind), Net/Outage.v (sequences
   of exchanges across a server outage).  Proofs: Net/ConnLockProofs.v, Net/OutageProofs.v.
   ===================================================================================================================== *)
From Mos Require Import Net.Shutdown Net.ShutdownProofs Net.ConnLock Net.ConnLockProofs Net.Outage Net.OutageProofs.

(* ---- closeWithErr / deleteQueueC / Status / addQueueC: the connection mutex is never left locked ----
   In every state reachable by any interleaving of any goroutines running any sequences of the operations
   (closeWithErr any number of times, by the writer, the read loop, deleteQueueC at wire-id exhaustion, the pool):
   if c.m is held, its holder is a goroutine inside a critical section ("no reachable state has the connection lock
   held with no running action") ... *)
Theorem C14_conn_lock_never_orphaned : forall eol progs s,
  cl_reachable eol progs s -> cl_lock_orphaned s = false.
Proof. exact cl_lock_never_orphaned. Qed.
Print Assumptions C14_conn_lock_never_orphaned.

(* ... whose next action is enabled and releases it ... *)
Theorem C14_conn_lock_holder_releases : forall eol progs s a,
  cl_reachable eol progs s -> cc_lock (cs_conn s) = Some a ->
  exists s', cl_step true eol s a = Some s' /\ cc_lock (cs_conn s') = None.
Proof. exact cl_holder_releases. Qed.
Print Assumptions C14_conn_lock_holder_releases.

(* ... so no reachable state is a deadlock: while some call has not returned, some goroutine can move; every atomic
   action consumes the measure [cl_cost], hence every execution is at most [cl_cost] of its first state long: every
   exchange (its deleteQueueC, its pool.Release -> Status), every close and every Status call RETURNS, whatever the
   number of closeWithErr calls on the connection. *)
Theorem C14_conn_ops_no_deadlock : forall eol progs s,
  cl_reachable eol progs s -> cl_all_done s = false -> cl_can_move true eol s = true.
Proof. exact cl_reachable_no_deadlock. Qed.
Print Assumptions C14_conn_ops_no_deadlock.

Theorem C14_conn_ops_bounded : forall unl eol sched s s',
  cl_exec unl eol sched s = Some s' -> length sched + cl_cost eol s' <= cl_cost eol s.
Proof. exact cl_exec_bounded. Qed.
Print Assumptions C14_conn_ops_bounded.

(* the runner compared with the real pipelineConn on every run (kind "connlock"): all calls return, the mutex is free *)
Theorem C14_conn_ops_all_return : forall eol progs reader,
  let o := cl_case true eol progs reader in co_done o = co_total o /\ co_free o = true.
Proof. exact cl_case_all_return. Qed.
Print Assumptions C14_conn_ops_all_return.

(* "Subsequent calls are noop": a second closeWithErr is enabled, changes nothing and leaves the mutex free *)
Theorem C14_second_close_is_noop : forall eol s a rest,
  nth_error (cs_actors s) a = Some (mkClA (ClClose :: rest) ClIdle) ->
  cc_lock (cs_conn s) = None -> cc_closed (cs_conn s) = true ->
  cl_exec true eol [a; a] s = Some (cl_set s (cs_conn s) a (mkClA rest ClIdle)).
Proof. exact cl_second_close_noop. Qed.
Print Assumptions C14_second_close_is_noop.

(* sensitivity: WITHOUT the Unlock on the already-closed branch, an exchange on a refusing UDP port (addQueueC; the
   failing write closes; deleteQueueC; Release -> Status) plus the read loop's close reach a state where the mutex is
   held by a goroutine that has returned, nobody can move and the exchange never returns; with the code as it is the
   same goroutines under the same schedule leave the mutex free and all return *)
Theorem C14_lost_unlock_would_deadlock :
  cl_exec false false cl_leak_sched (cl_init cl_leak_progs) = Some cl_leak_state /\
  cl_lock_orphaned cl_leak_state = true /\
  cl_can_move false false cl_leak_state = false /\
  cl_all_done cl_leak_state = false /\
  cl_done_count (cl_round_robin false false 40 (cl_init cl_leak_progs)) < 3 /\
  cl_lock_orphaned (cl_run true false cl_leak_sched (cl_init cl_leak_progs)) = false /\
  cl_all_done (cl_round_robin true false 40 (cl_init cl_leak_progs)) = true.
Proof. exact cl_lost_unlock_deadlocks. Qed.
Print Assumptions C14_lost_unlock_would_deadlock.

(* ---- the shared dialing call of QuicTransport: a finished call is never joined ----
   In every reachable state of the transport, t.dialingCall points (if at all) at a call whose DialContext is still
   running or has just returned: the critical section of runDialingCall clears the slot on EVERY exit path ... *)
Theorem C14_dial_slot_only_inflight : forall ls s d,
  sdq_run sdq_init ls = Some s -> sq_call s = Some d ->
  exists dd, nth_error (sq_calls s) d = Some dd /\ qd_inflight (qd_stage dd) = true.
Proof. exact og_slot_only_inflight. Qed.
Print Assumptions C14_dial_slot_only_inflight.

Theorem C14_dial_slot_cleared_on_every_exit : forall s d s',
  sdq_step s (SqFinish d) = Some s' -> sq_call s' = None.
Proof. exact og_finish_clears. Qed.
Print Assumptions C14_dial_slot_cleared_on_every_exit.

(* ... so an exchange that getConn parks on a dialing call waits for a dial that is in flight (no result published
   yet), and after a dialing call has finished - success OR failure - no later getConn joins it, ever *)
Theorem C14_join_only_inflight_dial : forall ls s t s' k d,
  sdq_run sdq_init ls = Some s -> sdq_step s (SqGet t) = Some s' ->
  nth_error (sq_tasks s') t = Some k -> qt_stage k = QsWait d ->
  exists dd, nth_error (sq_calls s') d = Some dd /\ qd_inflight (qd_stage dd) = true /\ qd_result dd = None.
Proof. exact og_join_only_inflight. Qed.
Print Assumptions C14_join_only_inflight_dial.

Theorem C14_finished_dial_never_joined : forall ls ls' s s1 d dd t s' k,
  sdq_run sdq_init ls = Some s ->
  nth_error (sq_calls s) d = Some dd -> qd_inflight (qd_stage dd) = false ->
  sdq_run s ls' = Some s1 ->
  sdq_step s1 (SqGet t) = Some s' -> nth_error (sq_tasks s') t = Some k -> qt_stage k <> QsWait d.
Proof. exact og_finished_never_joined_later. Qed.
Print Assumptions C14_finished_dial_never_joined.

(* "the first dial (or the re-dial after a stale connection) fails, afterwards the server is healthy": whatever state
   the transport is in when the failed dial's critical section runs (any number of exchanges waiting, any history), the
   next exchange starts a NEW dialing call and, its dial succeeding and the stream working, returns the reply *)
Theorem C14_dial_fails_once_then_recovers : forall s d dd,
  nth_error (sq_calls s) d = Some dd -> qd_stage dd = QdGot false -> sq_closed s = false ->
  exists s1 s', sdq_step s (SqFinish d) = Some s1 /\
                sdq_run s1 (og_redial_path s1) = Some s' /\
                sdq_result s' (length (sq_tasks s)) = Some true /\
                length (sq_calls s') = S (length (sq_calls s)).
Proof. exact og_dial_fails_once_then_recovers. Qed.
Print Assumptions C14_dial_fails_once_then_recovers.

Theorem C14_empty_slot_redials : forall s,
  sq_closed s = false -> sq_call s = None ->
  (forall c, sq_cache s = Some c -> sdq_conn_open s c = false) ->
  exists s', sdq_run s (og_redial_path s) = Some s' /\
             sdq_result s' (length (sq_tasks s)) = Some true /\
             length (sq_calls s') = S (length (sq_calls s)) /\
             sq_call s' = None.
Proof. exact og_redial_recovers. Qed.
Print Assumptions C14_empty_slot_redials.

(* sensitivity: with a critical section that does NOT clear the slot when the dial failed, the second exchange of
   "refused once, then healthy" joins the finished call (no dial) and takes its stale error *)
Theorem C14_uncleared_slot_would_be_joined :
  (exists s, sdq_run sdq_init og_refused_once = Some s /\ length (sq_calls s) = 2 /\ sq_call s = Some 1) /\
  (exists s s', og_keep_run sdq_init og_refused_once = Some s /\ length (sq_calls s) = 1 /\ sq_call s = Some 0 /\
                (exists dd, nth_error (sq_calls s) 0 = Some dd /\ qd_inflight (qd_stage dd) = false) /\
                og_keep_run s [SqWake 1] = Some s' /\ sdq_result s' 1 = Some false).
Proof. exact og_uncleared_slot_is_joined_for_ever. Qed.
Print Assumptions C14_uncleared_slot_would_be_joined.

(* ---- sequences of exchanges across an outage (the scenarios replayed by the kind "outage") ----
   For every transport, every way the outage fails new connections (refusal, handshake failure, a connection whose
   Write and Read both fail; QUIC also: packets vanish and the dial stays in flight), 0-7 stale pooled connections
   (QUIC 0-2), 1-32 exchanges during the outage (QUIC 1-8) and 0-4 afterwards: every exchange of the outage fails,
   every exchange after the recovery gets its reply, and exactly one dial is made for them. *)
Theorem C14_outage_sessions_recover : og_grid_quic = true /\ og_grid_pooled = true.
Proof. exact og_sessions_recover. Qed.
Print Assumptions C14_outage_sessions_recover.

(* the one-at-a-time transport: ANY number of stale idle connections left over by the outage *)
Theorem C14_outage_reuse_any_leftover : forall n warm f conc after,
  oe_after (og_pooled_session TReuse false warm n f conc (S after)) = repeat (Some true) (S after) /\
  oe_newdials (og_pooled_session TReuse false warm n f conc (S after)) = 1.
Proof. exact og_reuse_recovers_any_left. Qed.
Print Assumptions C14_outage_reuse_any_leftover.

(* non-vacuity: a reachable state with the mutex held (its holder releases), and a double close that returns *)
Example C14_example_double_close :
  exists s, cl_exec true false [0; 0; 0; 0; 1] (cl_init [[ClClose; ClStatus]; [ClClose]]) = Some s /\
            cc_lock (cs_conn s) = Some 1 /\ cc_closed (cs_conn s) = true /\
            co_done (cl_case true false [[ClClose; ClStatus]; [ClClose]] true) = 3.
Proof. eexists. vm_compute. repeat split. Qed.

Example C14_example_quic_outage :
  og_session TQuic false true false 1 OgRefuse 3 2 =
    Some (mkOgE [Some false; Some false; Some false] [Some true; Some true] 1).
Proof. vm_compute. reflexivity. Qed.

(* =====================================================================================================================
   Round 3 — the I/O deadlines of a pooled connection (Net/Deadline.v, proofs Net/DeadlineProofs.v) and the hand-over of
   a reply from the pipelined read loop to the exchange (Net/HandOver.v over the LTS of Net/Pipeline.v, proofs
   Net/HandOverProofs.v).
   ===================================================================================================================== *)
From Mos Require Import Net.Pipeline Net.PipelineProofs Net.HandOver Net.HandOverProofs Net.Deadline Net.DeadlineProofs.

(* ---- no deadline set during dial / handshake survives into the pooled state ---- *)
Theorem C14_dial_leaves_no_deadline : forall hs k now,
  dk_rd (dk_dialled false hs k now) = None /\ dk_wd (dk_dialled false hs k now) = None.
Proof. exact dk_dial_leaves_no_deadline. Qed.
Print Assumptions C14_dial_leaves_no_deadline.

(* a pipelined connection's users (read loop re-arming its READ deadline, exchanges writing, time passing, in any
   order) never touch the write deadline: pooled without one, a query can be written at every age *)
Theorem C14_pipelined_write_never_times_out : forall c es,
  dk_wd c = None -> dk_can_write (dk_pipe_run c es) = true.
Proof. exact dk_pipe_write_never_times_out. Qed.
Print Assumptions C14_pipelined_write_never_times_out.

(* the one-at-a-time transport re-arms both deadlines before every exchange, whatever it finds *)
Theorem C14_reuse_overwrites_deadlines : forall io c,
  0 < io -> dk_can_write (dk_reuse_prepare io c) = true /\ dk_can_read (dk_reuse_prepare io c) = true.
Proof. exact dk_reuse_overwrites. Qed.
Print Assumptions C14_reuse_overwrites_deadlines.

(* healthy server, any sequence of ages below the idle time-out, every stream upstream kind: the first exchange dials,
   every later one gets its reply on the pooled connection (no dial) - the scenario of the kind "aged" *)
Theorem C14_healthy_at_every_age : forall hs idle io k ages,
  0 < io -> 0 < idle -> Forall (fun a => a < idle) ages ->
  dk_session false hs idle io k ages = (true, true) :: map (fun _ => (true, false)) ages.
Proof. exact dk_healthy_at_every_age. Qed.
Print Assumptions C14_healthy_at_every_age.

(* REFUTED for the variant that arms SetDeadline(now + handshake time-out) in dialTLS and leaves it armed: on
   tls+pipeline every exchange on a pooled connection at least that old (and younger than the idle time-out) fails
   against the healthy server without a dial; plain tls is immune; below the handshake time-out nothing shows *)
Theorem C14_leaked_handshake_deadline_refuted : forall hs idle io a,
  0 < hs -> 0 < io -> hs <= a -> a < idle ->
  dk_session true hs idle io DkTlsP [a] = [(true, true); (false, false)] /\
  dk_session true hs idle io DkTls [a] = [(true, true); (true, false)] /\
  (forall b, b < hs -> b < idle -> dk_session true hs idle io DkTlsP [b] = [(true, true); (true, false)]).
Proof. exact dk_leaked_handshake_deadline. Qed.
Print Assumptions C14_leaked_handshake_deadline_refuted.

(* ... because nothing on a pipelined connection ever clears a write deadline: once the clock has reached it, no write
   succeeds, whatever happens meanwhile *)
Theorem C14_leaked_write_deadline_is_permanent : forall c es d,
  dk_wd c = Some d -> d <= dk_now (dk_pipe_run c es) -> dk_can_write (dk_pipe_run c es) = false.
Proof. exact dk_pipe_leaked_write_deadline_is_permanent. Qed.
Print Assumptions C14_leaked_write_deadline_is_permanent.

(* ---- the read loop is never blocked by a full result channel ----
   In every reachable state of a pipelined connection (any exchanges, any replies: duplicates, unsolicited, late) the
   read loop's own next action is enabled; in particular the hand-over is enabled whether the one-slot channel is empty
   or full, and returns the loop to its read *)
Theorem C14_reader_never_blocked : forall tcp q0 s,
  (q0 <= 65536)%N -> reachable tcp q0 s ->
  match pl_rl s with
  | PlRIdle => pl_closed s = false -> forall i tag, (i < 65536)%N -> exists s', pl_step s (PlLRecv i tag) = Some s'
  | PlRHold _ => exists s', pl_step s PlLLookup = Some s'
  | PlRSend _ _ => exists s', pl_step s PlLSend = Some s' /\ pl_rl s' = PlRIdle
  end.
Proof. exact ho_reader_never_blocked. Qed.
Print Assumptions C14_reader_never_blocked.

Theorem C14_full_channel_reply_dropped : forall s m t th x,
  pl_rl s = PlRSend m t -> pl_tget s t = Some th -> pl_tchan th = Some x ->
  pl_step s PlLSend = Some (pl_set_rl PlRIdle s).
Proof. exact ho_full_channel_drops. Qed.
Print Assumptions C14_full_channel_reply_dropped.

(* REFUTED for the blocking hand-over (`resChan <- r`): THREE back-to-back copies of one reply wedge the read loop, and
   it stays wedged in EVERY continuation (it never receives again: no reply for any later exchange, no idle time-out,
   no close); two copies pass; the code drops the extra copies and serves the next exchange.  TCP and UDP framing. *)
Theorem C14_blocking_handover_refuted : forall tcp,
  ho_block_run (removelast (ho_copies 3)) (pl_init tcp 0) = Some (ho_wedge_state tcp) /\
  ho_wedged (ho_wedge_state tcp) = true /\
  ho_block_run (ho_copies 3) (pl_init tcp 0) = None /\
  (forall ls s', ho_block_run ls (ho_wedge_state tcp) = Some s' ->
     ho_wedged s' = true /\ ho_block_step s' PlLSend = None /\ ho_block_step s' PlLLookup = None /\
     ho_block_step s' PlLGarbage = None /\ forall i tag, ho_block_step s' (PlLRecv i tag) = None) /\
  (exists s2, ho_block_run (ho_copies 2 ++ ho_follow_up) (pl_init tcp 0) = Some s2 /\ pl_rl s2 = PlRIdle) /\
  (exists s3 th, pl_run (ho_copies 3 ++ ho_follow_up) (pl_init tcp 0) = Some s3 /\ pl_rl s3 = PlRIdle /\
                 pl_tget s3 1%N = Some th /\ pl_tpc th = PlPLeaving (PlRMsg (PlMkMsg 3 9 50))).
Proof. exact ho_blocking_handover_wedges. Qed.
Print Assumptions C14_blocking_handover_refuted.

(* non-vacuity with the constants of the code: a pooled tls+pipeline connection 3.4 s old *)
Example C14_example_aged :
  dk_session true dk_hs_ds dk_idle_ds dk_io_ds DkTlsP [34] = [(true, true); (false, false)] /\
  dk_case DkTlsP [34] = [(true, true); (true, false)].
Proof. exact dk_leak_witness. Qed.

(* =====================================================================================================================
   Round 4 — the stream capacity of a multiplexed connection across abandoned exchanges (Net/Streams.v) and what bounds
   a Write that blocks (Net/WriteBlock.v: the environment step "the write blocks until the kernel time-out, the peer
   reads, or the socket is closed"); proofs Net/StreamsProofs.v, Net/WriteBlockProofs.v.
   ===================================================================================================================== *)
From Mos Require Import Net.Streams Net.StreamsProofs Net.WriteBlock Net.WriteBlockProofs.

(* an exchange abandoned at its deadline cancels the read side of its stream: whatever sequence of answered and
   abandoned exchanges, the peer's count of open streams is what it was - nothing leaks capacity *)
Theorem C14_stream_capacity_never_leaks : forall es c, snd (sc_run true c es) = c.
Proof. exact sc_no_capacity_leaks. Qed.
Print Assumptions C14_stream_capacity_never_leaks.

(* ... so every exchange the server answers gets its reply, however many were abandoned before it *)
Theorem C14_answered_exchange_always_served : forall cap es,
  0 < cap -> forall i, nth_error es i = Some ScGood -> nth_error (fst (sc_run true (mkSc cap 0) es)) i = Some true.
Proof. exact sc_good_always_served. Qed.
Print Assumptions C14_answered_exchange_always_served.

(* the scenario of the kind "streams": any stream limit, any number of abandoned exchanges, then n answered ones *)
Theorem C14_abandoned_streams_then_healthy : forall cap k n, 0 < cap -> snd (sc_case true cap k n) = repeat true n.
Proof. exact sc_case_recovers. Qed.
Print Assumptions C14_abandoned_streams_then_healthy.

(* REFUTED for the variant whose ctx.Done() branch leaves the read side alone: after as many abandoned exchanges as the
   peer allows streams, EVERY later exchange on the (live, kept-alive) connection fails *)
Theorem C14_uncancelled_read_refuted : forall cap es,
  fst (sc_run false (snd (sc_run false (mkSc cap 0) (repeat ScAbandon cap))) es) = repeat false (length es).
Proof. exact sc_leaky_variant_wedges. Qed.
Print Assumptions C14_uncancelled_read_refuted.

(* ---- a Write that blocks ----
   Full statement (the property): the exchange returns by its deadline + slack whatever the server does.
   Proved (partial): it returns by its deadline + TCP_USER_TIMEOUT, because every attempt starts while the context is
   live and the kernel ends a blocked write after that time-out. *)
Theorem C14_blocked_write_bounded_partial : forall u idle dl cs retry t,
  t <= dl -> wb_return (Some u) idle dl retry t cs <= dl + u.
Proof. exact wb_bounded_by_deadline_plus_ut. Qed.
Print Assumptions C14_blocked_write_bounded_partial.

(* the server stops reading on one connection and refuses the others: back after exactly the kernel time-out *)
Theorem C14_one_stalled_connection : forall u idle dl retry,
  u <= idle -> wb_return (Some u) idle dl retry 0 [WbStall true; WbRefuse] = u.
Proof. exact wb_one_stalled_connection. Qed.
Print Assumptions C14_one_stalled_connection.

(* REFUTED without the kernel time-out on the upstream sockets: nothing but the idle read deadline ends the write *)
Theorem C14_no_user_timeout_refuted : forall idle dl retry cs,
  wb_return None idle dl retry 0 (WbStall true :: cs) >= idle.
Proof. exact wb_without_user_timeout. Qed.
Print Assumptions C14_no_user_timeout_refuted.

(* REFUTED on the code as it is (known finding K8): when EVERY connection of a pipelined upstream stalls, the retry after
   the first 5 s blocks for another 5 s: 10 s with a 6 s deadline.  With the constants of the code: *)
Theorem C14_every_connection_stalls_refuted :
  wb_case true false = true /\ wb_case false false = false /\ wb_case true true = false /\
  wb_return (Some wb_ut_ds) wb_idle_ds wb_dl_ds 0 0 [WbStall true; WbStall true; WbStall true] = 100.
Proof. exact wb_cases. Qed.
Print Assumptions C14_every_connection_stalls_refuted.

Example C14_example_streams :
  sc_case false 4 4 3 = (repeat false 4, repeat false 3) /\ sc_case true 4 4 3 = (repeat false 4, repeat true 3) /\
  sc_case false 4 3 3 = (repeat false 3, repeat true 3).
Proof. exact sc_witness. Qed.

(* =====================================================================================================================
   Round 6 — the release of the stream credit as an explicit step on EVERY exit of exchangeStream (Net/Streams.v,
   second part; proofs Net/StreamsProofs.v): reply read / read error / ctx done, against every way a server may treat
   ITS side of the stream (FIN with the reply, no FIN, late FIN, reset after the reply, reset, short frame, lying
   length, silence).
   ===================================================================================================================== *)

(* the code aborts the receive side (CancelRead = STOP_SENDING) on every exit ... *)
Theorem C14_cancel_read_on_every_exit : forall x, sc_cancels sc_code x = true.
Proof. exact sc_code_cancels_on_every_exit. Qed.
Print Assumptions C14_cancel_read_on_every_exit.

(* ... so the credit returns on every path: whatever the server does, the exit of an exchange leaves the peer's
   account of open streams as it was *)
Theorem C14_stream_credit_returns_on_every_path : forall v a, sc_release sc_code v a = a.
Proof. exact sc_credit_returns_on_every_path. Qed.
Print Assumptions C14_stream_credit_returns_on_every_path.

(* which exits need it (after a read error the server has already finished its side) *)
Theorem C14_sufficient_cancel_policy : forall p v a,
  pol_reply p = true -> pol_ctx p = true -> sc_release p v a = a.
Proof. exact sc_sufficient_policy. Qed.
Print Assumptions C14_sufficient_cancel_policy.

(* any sequence of exchanges (answered or not, any server behaviour) and pauses on one connection: every exchange a
   server answers gets its reply, and at the end the server counts no stream *)
Theorem C14_every_answered_exchange_delivered : forall ss a i v,
  0 < sa_cap a -> sa_stuck a = 0 -> sa_pending a = 0 ->
  nth_error ss i = Some (Sx v) ->
  nth_error (fst (sc_run2 sc_code a ss)) i = Some (Some (match sc_exit_of v with ScxReply => true | _ => false end)) /\
  sc_used (snd (sc_run2 sc_code a ss)) = 0.
Proof. exact sc_code_every_answer_delivered. Qed.
Print Assumptions C14_every_answered_exchange_delivered.

(* the scenarios of the kind "streams" for limits 1-6, every answering x every non-answering server behaviour, 0-8
   abandoned and 0-14 answered exchanges: abandoned fail, answered succeed, nothing is left at the server *)
Theorem C14_stream_scenarios : sc_grid_code = true.
Proof. exact sc_grid. Qed.
Print Assumptions C14_stream_scenarios.

(* REFUTED for the variant that cancels only when the read FAILED: after as many correctly answered exchanges as the
   peer allows streams - against a server that does not FIN - every later exchange on the connection fails, and no
   pause heals it *)
Theorem C14_cancel_only_on_error_refuted : forall cap ss,
  Forall (fun o => o = None \/ o = Some false)
         (fst (sc_run2 sc_only_on_error (snd (sc_run2 sc_only_on_error (mkAcct cap 0 0) (repeat (Sx SvNoFin) cap))) ss)).
Proof. exact sc_only_on_error_wedges. Qed.
Print Assumptions C14_cancel_only_on_error_refuted.

Example C14_example_release :
  sc_case2 sc_only_on_error 4 SvNoFin SvLie 0 8 = ([], [true; true; false; false; false; false; false; false], 4) /\
  sc_case2 sc_only_on_error 3 SvLateFin SvLie 0 7 = ([], [true; false; false; false; false; false; false], 0) /\
  sc_case2 sc_code 4 SvNoFin SvLie 0 8 = ([], repeat true 8, 0) /\
  sc_case2 sc_not_on_ctx 4 SvFin SvLie 4 3 = (repeat false 4, repeat false 3, 4).
Proof. exact sc_witness2. Qed.

(* =====================================================================================================================
   Round 9 — opening a stream with the peer's limit used up (Net/Streams.v, third part); idle time-outs of the upstreams
   built by NewUpstream (Net/Deadline.v, table [ut_idle]).
   ===================================================================================================================== *)

(* the code does not wait for stream credit (and a wait given the CALLER's context would end at its deadline): opening
   a stream never blocks beyond the caller's context *)
Theorem C14_stream_open_bounded_by_ctx : forall md dl free_at,
  md <> SoWaitTransport -> exists t, so_returns md dl free_at = Some t /\ t <= dl.
Proof. exact so_open_bounded. Qed.
Print Assumptions C14_stream_open_bounded_by_ctx.

(* REFUTED for the variant that waits on the TRANSPORT's context: with the limit used up by unanswered exchanges the
   open returns only when the peer frees a stream - later than any deadline + slack, or never *)
Theorem C14_stream_open_bounded_by_ctx_refuted : forall dl slack,
  so_within SoWaitTransport dl slack None = false /\
  (forall f, dl + slack < f -> so_within SoWaitTransport dl slack (Some f) = false) /\
  so_within SoNoWait dl slack None = true.
Proof. exact so_wait_on_transport_unbounded. Qed.
Print Assumptions C14_stream_open_bounded_by_ctx_refuted.

(* every upstream built by NewUpstream has a positive idle time-out: an unset option means the scheme's default (udp
   60 s, stream 10 s, https 30 s), never "no limit"; an explicit option wins (except on the pinned udp socket) *)
Theorem C14_idle_timeouts_defaulted : forall s opt,
  0 < ut_idle s opt /\ ut_idle s 0 = ut_default s /\ (s <> UtUdp -> 0 < opt -> ut_idle s opt = opt).
Proof. exact ut_idle_defaulted. Qed.
Print Assumptions C14_idle_timeouts_defaulted.
