(* C04 — answers are never mixed up between concurrent queries (composition).
   Only statements; proofs in Router/SystemProofs.v.  The system model (Router/System.v) has any number of concurrent
   requests; each looks its key up in a shared cache, starts an upstream exchange on a miss, stores and responds; the
   exchanges complete in ANY order and the cache may drop ANY entry at ANY time.  Components enter through their
   contracts: the key is injective on (question, group) (C07), an exchange returns the upstream's reply to its own
   query (C05/C06), a hit under k returns a value stored under k (C07), recycled objects behave as values (C20). *)
From Mos Require Import Base.Prelude Codec.Name Codec.NameProofs Cache.CacheKey Cache.CacheKeyProofs
  Router.System Router.SystemProofs.

(* for any key that is injective on the domain D of questions that can arrive *)
Theorem C04_own_answer : forall (Q A : Type) (key : Q -> list N) (ans : Q -> A) (D : Q -> Prop),
  (forall q1 q2, D q1 -> D q2 -> key q1 = key q2 -> q1 = q2) ->
  forall (ls : list (sys_label Q)) (s : sys_state Q A),
  Forall (label_ok Q D) ls ->
  sys_run Q A key ans (sys_init Q A) ls = Some s ->
  (forall i q a c, nth_error (sy_reqs Q A s) i = Some (mkSysReq Q A q (SpDone A a c)) -> a = ans q) /\
  (forall q a, D q -> sys_find A (key q) (sy_cache Q A s) = Some a -> a = ans q).
Proof. exact sys_own_answer. Qed.
Print Assumptions C04_own_answer.

(* ... instantiated with the router's real cache key (C07): questions are (lower-cased well-formed name, class, type,
   client-group label), the key is cacheKey's byte layout, whose injectivity is C07_cache_key_injective *)
Definition c04_question := (list N * N * N * list N)%type.
Definition c04_key (q : c04_question) : list N := let '(n, c, t, m) := q in cache_key n c t m.
Definition c04_dom (q : c04_question) : Prop :=
  let '(n, c, t, m) := q in wf_name n /\ (c < 65536)%N /\ (t < 65536)%N.

Theorem C04_own_answer_real_key : forall (A : Type) (ans : c04_question -> A)
  (ls : list (sys_label c04_question)) (s : sys_state c04_question A),
  Forall (label_ok c04_question c04_dom) ls ->
  sys_run c04_question A c04_key ans (sys_init c04_question A) ls = Some s ->
  forall i q a c, nth_error (sy_reqs c04_question A s) i = Some (mkSysReq c04_question A q (SpDone A a c)) -> a = ans q.
Proof.
  intros A ans ls s Hl Hr.
  refine (proj1 (sys_own_answer c04_question A c04_key ans c04_dom _ ls s Hl Hr)).
  intros [[[n1 c1] t1] m1] [[[n2 c2] t2] m2] (W1 & C1 & T1) (W2 & C2 & T2) H. cbn in H.
  destruct (cache_key_injective n1 c1 t1 m1 n2 c2 t2 m2 W1 W2 C1 C2 T1 T2 H) as (-> & -> & -> & ->). reflexivity.
Qed.
Print Assumptions C04_own_answer_real_key.

(* the injectivity hypothesis is necessary: with a colliding key the model DOES serve one question's answer to another *)
Theorem C04_needs_injective_key :
  exists (ls : list (sys_label bool)) (s : sys_state bool bool),
    sys_run bool bool (fun _ => [1%N]) (fun q => q) (sys_init bool bool) ls = Some s /\
    nth_error (sy_reqs bool bool s) 1 = Some (mkSysReq bool bool false (SpDone bool true true)).
Proof.
  exists [SlArrive true; SlArrive false; SlLookup 0; SlStart 0; SlReply 0; SlStore 0; SlLookup 1]. eexists.
  split; reflexivity.
Qed.
Print Assumptions C04_needs_injective_key.

(* non-vacuity: two interleaved requests, reply order reversed, an eviction in between, a later hit *)
Example C04_example :
  exists s, sys_run N N (fun q => [q]) (fun q => (q * 7)%N) (sys_init N N)
              [SlArrive 1%N; SlArrive 2%N; SlLookup 0; SlLookup 1; SlStart 1; SlStart 0; SlReply 1; SlReply 0;
               SlStore 0; SlEvict [1%N]; SlStore 1; SlArrive 2%N; SlLookup 2] = Some s /\
            nth_error (sy_reqs N N s) 2 = Some (mkSysReq N N 2%N (SpDone N 14%N true)).
Proof. eexists. split; reflexivity. Qed.

(* ------------------------------------------------------------------ with the data: the caching proxy ------------ *)
(* The theorems above are about every interleaving of an abstract system.  Router/Cached.v is the sequential
   composition with the DATA: rules, cacheCtl.Get/Store (real cache key), forward (the reply's question is checked),
   TTL ageing, EDNS and header fix-ups.  In every state reachable by any history of well-formed requests, prefetches
   (any question / client / upstream), clock ticks, collections and evictions, the response to a supported query [m] of
   [client] carries either no answer / authority records at all (REFUSED, a reject rule's rcode, SERVFAIL), or exactly
   the answer / authority records and the rcode of a reply that some upstream gave to a query carrying the client's OWN
   lower-cased question, asked on behalf of a client with the same group label — as received (a miss), or TTL-aged by
   SubtractTTL (a hit).  No other question's records can reach the client. *)
From Mos Require Import Codec.Msg Codec.WfProofs Router.Rules Router.Edns Router.Router Cache.CachePolicy Router.Cached
  Router.CachedProofs.
Theorem C04_own_answer_cached_proxy : forall matches rules ecs up (mark : addr -> list N) maxttl,
  (forall u w r, up u w = UReply r -> count_opt (m_ar r) <= 1) ->
  (forall c, bytes (mark c)) ->
  forall (clk : N) (evs : list cev) (t ts eps : Z) (m : msg) (client : addr),
  Forall cev_wf evs -> wf_msg m -> unsupported m = false ->
  let st := fst (crun matches rules ecs up (real_ckey mark) maxttl (init_state clk) evs) in
  let r := co_resp (snd (handle_c matches rules ecs up (real_ckey mark) maxttl st t ts eps m client)) in
  (m_an r = [] /\ m_ns r = []) \/
  exists q qs u c rep,
    m_qs m = q :: qs /\ mark c = mark client /\
    up u (pack_req ecs (lower_q q) c) = UReply rep /\ reply_question_ok (lower_q q) rep = true /\
    h_rcode (m_hdr r) = h_rcode (m_hdr rep) /\
    ((m_an r = m_an rep /\ m_ns r = m_ns rep) \/
     exists delta, m_an r = map (sub_rr delta) (m_an rep) /\ m_ns r = map (sub_rr delta) (m_ns rep)).
Proof.
  intros matches rules ecs up mark maxttl H1 Hm clk evs t ts eps m client Hev Hwm Hu st r.
  pose proof (real_ckey_inj mark Hm) as Hinj.
  assert (Hi : cinv ecs up (real_ckey mark) st)
    by (apply (crun_inv matches rules ecs up (real_ckey mark) maxttl H1 Hinj _ Hev); apply cinv_init).
  destruct (handle_c_own_answer matches rules ecs up (real_ckey mark) maxttl Hinj st t ts eps m client Hi Hwm Hu)
    as [L|(q & qs & u & c & rep & Hq & Hk & Hup & Hok & Hrc & Hrec)]; [left; exact L|].
  right. exists q, qs, u, c, rep. split; [exact Hq|]. split; [|tauto].
  apply (real_ckey_mark mark Hm (lower_q q) c client); [|exact Hk].
  destruct Hwm as (_ & Fq & _). rewrite Hq in Fq. apply Router.RouterProofs.lower_q_wf. now inversion Fq.
Qed.
Print Assumptions C04_own_answer_cached_proxy.
