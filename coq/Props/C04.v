(* C04 — answers are never mixed up between concurrent queries (composition).
   Only statements; proofs in Router/SystemProofs.v.  The system model (Router/System.v) has any number of concurrent
   requests; each looks its key up in a shared cache, starts an upstream exchange on a miss, stores and responds; the
   exchanges complete in ANY order and the cache may drop ANY entry at ANY time.  Components enter through their
   contracts: the key is injective on (question, group) (C07), an exchange returns the upstream's reply to its own
   query (C05/C06), a hit under k returns a value stored under k (C07), recycled objects behave as values (C20). *)
From Mos Require Import Base.Prelude Codec.Name Router.System Router.SystemProofs.

Theorem C04_own_answer : forall (Q A : Type) (key : Q -> list N) (ans : Q -> A),
  (forall q1 q2, key q1 = key q2 -> q1 = q2) ->
  forall (ls : list (sys_label Q)) (s : sys_state Q A),
  sys_run Q A key ans (sys_init Q A) ls = Some s ->
  (forall i q a c, nth_error (sy_reqs Q A s) i = Some (mkSysReq Q A q (SpDone A a c)) -> a = ans q) /\
  (forall q a, sys_find A (key q) (sy_cache Q A s) = Some a -> a = ans q).
Proof. exact sys_own_answer. Qed.
Print Assumptions C04_own_answer.

(* the injectivity hypothesis is necessary: with a colliding key the model DOES serve one question's answer to another *)
Theorem C04_needs_injective_key :
  exists (ls : list (sys_label bool)) (s : sys_state bool bool),
    sys_run bool bool (fun _ => [1%N]) (fun q => q) (sys_init bool bool) ls = Some s /\
    nth_error (sy_reqs bool bool s) 1 = Some (mkSysReq bool bool false (SpDone bool true true)).
Proof.
  exists [SlArrive true; SlArrive false; SlLookup 0; SlStart 0; SlReply 0; SlStore 0; SlLookup 1]. eexists.
  split; reflexivity.
Qed.
Print Assumptions C04_needs_injective_key.

(* non-vacuity: two interleaved requests, reply order reversed, an eviction in between, a later hit *)
Example C04_example :
  exists s, sys_run N N (fun q => [q]) (fun q => (q * 7)%N) (sys_init N N)
              [SlArrive 1%N; SlArrive 2%N; SlLookup 0; SlLookup 1; SlStart 1; SlStart 0; SlReply 1; SlReply 0;
               SlStore 0; SlEvict [1%N]; SlStore 1; SlArrive 2%N; SlLookup 2] = Some s /\
            nth_error (sy_reqs N N s) 2 = Some (mkSysReq N N 2%N (SpDone N 14%N true)).
Proof. eexists. split; reflexivity. Qed.
