(* C04 — answers are never mixed up between concurrent queries (composition).
   Only statements; proofs in Router/SystemProofs.v.  The system model (Router/System.v) has any number of concurrent
   requests; each looks its key up in a shared cache, starts an upstream exchange on a miss, stores and responds; the
   exchanges complete in ANY order and the cache may drop ANY entry at ANY time.  Components enter through their
   contracts: the key is injective on (question, group) (C07), an exchange returns the upstream's reply to its own
   query (C05/C06), a hit under k returns a value stored under k (C07), recycled objects behave as values (C20). *)
From Mos Require Import Base.Prelude Codec.Name Codec.NameProofs Cache.CacheKey Cache.CacheKeyProofs
  Router.System Router.SystemProofs.

(* for any key that is injective on the domain D of questions that can arrive *)
Theorem C04_own_answer : forall (Q A : Type) (key : Q -> list N) (ans : Q -> A) (D : Q -> Prop),
  (forall q1 q2, D q1 -> D q2 -> key q1 = key q2 -> q1 = q2) ->
  forall (ls : list (sys_label Q)) (s : sys_state Q A),
  Forall (label_ok Q D) ls ->
  sys_run Q A key ans (sys_init Q A) ls = Some s ->
  (forall i q a c, nth_error (sy_reqs Q A s) i = Some (mkSysReq Q A q (SpDone A a c)) -> a = ans q) /\
  (forall q a, D q -> sys_find A (key q) (sy_cache Q A s) = Some a -> a = ans q).
Proof. exact sys_own_answer. Qed.
Print Assumptions C04_own_answer.

(* ... instantiated with the router's real cache key (C07): questions are (lower-cased well-formed name, class, type,
   client-group label), the key is cacheKey's byte layout, whose injectivity is C07_cache_key_injective *)
Definition c04_question := (list N * N * N * list N)%type.
Definition c04_key (q : c04_question) : list N := let '(n, c, t, m) := q in cache_key n c t m.
Definition c04_dom (q : c04_question) : Prop :=
  let '(n, c, t, m) := q in wf_name n /\ (c < 65536)%N /\ (t < 65536)%N.

Theorem C04_own_answer_real_key : forall (A : Type) (ans : c04_question -> A)
  (ls : list (sys_label c04_question)) (s : sys_state c04_question A),
  Forall (label_ok c04_question c04_dom) ls ->
  sys_run c04_question A c04_key ans (sys_init c04_question A) ls = Some s ->
  forall i q a c, nth_error (sy_reqs c04_question A s) i = Some (mkSysReq c04_question A q (SpDone A a c)) -> a = ans q.
Proof.
  intros A ans ls s Hl Hr.
  refine (proj1 (sys_own_answer c04_question A c04_key ans c04_dom _ ls s Hl Hr)).
  intros [[[n1 c1] t1] m1] [[[n2 c2] t2] m2] (W1 & C1 & T1) (W2 & C2 & T2) H. cbn in H.
  destruct (cache_key_injective n1 c1 t1 m1 n2 c2 t2 m2 W1 W2 C1 C2 T1 T2 H) as (-> & -> & -> & ->). reflexivity.
Qed.
Print Assumptions C04_own_answer_real_key.

(* the injectivity hypothesis is necessary: with a colliding key the model DOES serve one question's answer to another *)
Theorem C04_needs_injective_key :
  exists (ls : list (sys_label bool)) (s : sys_state bool bool),
    sys_run bool bool (fun _ => [1%N]) (fun q => q) (sys_init bool bool) ls = Some s /\
    nth_error (sy_reqs bool bool s) 1 = Some (mkSysReq bool bool false (SpDone bool true true)).
Proof.
  exists [SlArrive true; SlArrive false; SlLookup 0; SlStart 0; SlReply 0; SlStore 0; SlLookup 1]. eexists.
  split; reflexivity.
Qed.
Print Assumptions C04_needs_injective_key.

(* non-vacuity: two interleaved requests, reply order reversed, an eviction in between, a later hit *)
Example C04_example :
  exists s, sys_run N N (fun q => [q]) (fun q => (q * 7)%N) (sys_init N N)
              [SlArrive 1%N; SlArrive 2%N; SlLookup 0; SlLookup 1; SlStart 1; SlStart 0; SlReply 1; SlReply 0;
               SlStore 0; SlEvict [1%N]; SlStore 1; SlArrive 2%N; SlLookup 2] = Some s /\
            nth_error (sy_reqs N N s) 2 = Some (mkSysReq N N 2%N (SpDone N 14%N true)).
Proof. eexists. split; reflexivity. Qed.
