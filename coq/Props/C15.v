(* C15 — rate limiting is a per-client-subnet token bucket isolating clients.
   Only statements; the model is Limit/Limiter.v, the proofs are in Limit/LimiterProofs.v.

   Units: time in ns, tokens scaled by SCALE = 10^9 (see Limiter.v).  [lim_decisions o [] h] are the decisions the
   ClientLimiter takes on the history h (arrivals (time, address, cost) and collector runs) starting
   with an empty table; [lim_granted o k t0 t1 h ds] is the total cost granted for subnet key k at times
   within [t0, t1]. *)
From Mos Require Import Base.Prelude Limit.Limiter Limit.LimiterProofs.
Local Open Scope Z_scope.

(* Window bound, histories without a collector run.  For every arrival sequence with non-decreasing
   timestamps, every key and every window:
       granted * 10^9  <=  burst * 10^9 + rate * (t1 - t0) + (rate - 1)
   i.e. strictly less than  burst + rate * (window + 1 ns).  The last summand (< one nanosecond of refill)
   is x/time/rate's truncation of the wait time to whole nanoseconds; it is attained (C15_bound_slack_attained),
   so the literal  burst + rate * window  can be exceeded by less than rate * 10^-9 token. *)
Theorem C15_bound : forall (o : opts) (k : lim_addr) (t0 t1 : Z) (h : list lev),
  0 < o_limit o -> 0 <= o_burst o -> lim_sorted h = true -> has_gc h = false -> t0 <= t1 ->
  lim_granted o k t0 t1 h (lim_decisions o [] h) * SCALE
    <= o_burst o * SCALE + o_limit o * (t1 - t0) + (o_limit o - 1).
Proof. exact bound_nogc. Qed.
Print Assumptions C15_bound.

(* The same bound with arbitrary collector runs interleaved, provided burst <= 60 * rate
   (entryTtl = 60 s: an entry idle for longer than a minute has refilled completely, so dropping it
   loses nothing). *)
Theorem C15_bound_gc : forall (o : opts) (k : lim_addr) (t0 t1 : Z) (h : list lev),
  0 < o_limit o -> 0 <= o_burst o -> lim_sorted h = true -> o_burst o <= 60 * o_limit o -> t0 <= t1 ->
  lim_granted o k t0 t1 h (lim_decisions o [] h) * SCALE
    <= o_burst o * SCALE + o_limit o * (t1 - t0) + (o_limit o - 1).
Proof. exact bound_gc. Qed.
Print Assumptions C15_bound_gc.

(* The bound for the options as configured (after setDefault), whatever was omitted. *)
Theorem C15_bound_configured : forall (cfg : opts) (k : lim_addr) (t0 t1 : Z) (h : list lev),
  let o := set_default cfg in
  lim_sorted h = true -> (has_gc h = true -> o_burst o <= 60 * o_limit o) -> t0 <= t1 ->
  lim_granted o k t0 t1 h (lim_decisions o [] h) * SCALE
    <= o_burst o * SCALE + o_limit o * (t1 - t0) + (o_limit o - 1).
Proof.
  intros cfg k t0 t1 h o S G T. pose proof (default_wf cfg) as W. cbn zeta in W.
  apply bound_general; auto; fold o in W; lia.
Qed.
Print Assumptions C15_bound_configured.

(* Finding K3: with burst > 60 * rate the bound fails once the collector runs: a collected bucket is
   reborn full.  Witness: rate 1, burst 1000; 2000 granted within 60.000000001 s, and the second
   arrival is refused when the collector does not run. *)
Theorem C15_gc_refuted : exists (o : opts) (k : lim_addr) (t0 t1 : Z) (h : list lev),
  0 < o_limit o /\ 0 <= o_burst o /\ lim_sorted h = true /\ t0 <= t1 /\ 60 * o_limit o < o_burst o /\
  ~ (lim_granted o k t0 t1 h (lim_decisions o [] h) * SCALE
       <= o_burst o * SCALE + o_limit o * (t1 - t0) + (o_limit o - 1)).
Proof.
  exists k3_opts, k3_key, 0, k3_t, k3_history.
  destruct k3_witness as (S & _ & B & _).
  split; [reflexivity|]. split; [discriminate|]. split; [exact S|]. split; [discriminate|].
  split; [reflexivity|].
  intros H. apply Z.leb_le in H. unfold bound_ok, bound_ok_ds in B. rewrite H in B. discriminate.
Qed.
Print Assumptions C15_gc_refuted.

(* The slack of one nanosecond of refill is attained (rate 3, burst 1): the literal bound
   burst + rate * window is exceeded by 10^-9 token. *)
Theorem C15_bound_slack_attained : exists (o : opts) (k : lim_addr) (t0 t1 : Z) (h : list lev),
  0 < o_limit o /\ lim_sorted h = true /\ has_gc h = false /\ t0 <= t1 /\
  lim_granted o k t0 t1 h (lim_decisions o [] h) * SCALE = o_burst o * SCALE + o_limit o * (t1 - t0) + 1.
Proof.
  exists slack_opts, (mask_addr slack_opts k3_client), 0, 333333333, slack_history.
  destruct slack_witness as (_ & E).
  split; [reflexivity|]. split; [reflexivity|]. split; [reflexivity|]. split; [discriminate|]. exact E.
Qed.
Print Assumptions C15_bound_slack_attained.

(* Isolation: the decisions taken for key k under ANY history (any order, any timestamps, collector
   runs included) are the decisions taken when only k's own arrivals (and the collector runs) happen:
   no traffic of another subnet can cause a refusal. *)
Theorem C15_isolation : forall (o : opts) (k : lim_addr) (h : list lev),
  lim_decisions_for o k h (lim_decisions o [] h) =
  lim_decisions_for o k (filter (touches o k) h) (lim_decisions o [] (filter (touches o k) h)).
Proof. exact isolation. Qed.
Print Assumptions C15_isolation.

(* Defaults: omitted masks mean /24 and /48, omitted burst = rate; configured values in range are kept;
   default keys are the /24 resp. /48 prefixes; v4-mapped addresses share the bucket of the IPv4 address;
   two addresses share a bucket iff they agree on the prefix. *)
Theorem C15_defaults :
  (forall l b, o_v4 (set_default (mkOpts l b 0 0)) = 24 /\ o_v6 (set_default (mkOpts l b 0 0)) = 48) /\
  (forall o, o_v4 (set_default o) = if (o_v4 o <=? 0) || (32 <? o_v4 o) then 24 else o_v4 o) /\
  (forall o, o_v6 (set_default o) = if (o_v6 o <=? 0) || (128 <? o_v6 o) then 48 else o_v6 o) /\
  (forall o, o_burst o <= 0 -> o_burst (set_default o) = o_limit (set_default o)) /\
  (forall o, 0 < o_limit o -> 0 < o_burst o -> 1 <= o_v4 o <= 32 -> 1 <= o_v6 o <= 128 -> set_default o = o) /\
  (forall o x, o_v4 o = 24 -> mask_addr o (LA4 x) = LA4 (x / 256 * 256)%N) /\
  (forall o x, o_v6 o = 48 -> (x / two32 <> 65535)%N -> mask_addr o (LA6 x) = LA6 (x / 2 ^ 80 * 2 ^ 80)%N) /\
  (forall o x, (x < two32)%N -> mask_addr o (LA6 (65535 * two32 + x)) = mask_addr o (LA4 x)) /\
  (forall w bits x y, mask_bits w bits x = mask_bits w bits y <-> (x / 2 ^ (w - bits) = y / 2 ^ (w - bits))%N).
Proof.
  split; [exact default_masks_omitted|]. split; [exact default_v4|]. split; [exact default_v6|].
  split; [exact default_burst|]. split; [exact default_keeps|]. split; [exact mask_v4_24|].
  split; [exact mask_v6_48|]. split; [exact mask_mapped|]. exact mask_bits_eq.
Qed.
Print Assumptions C15_defaults.

(* Decision rule at the listeners: a query the limiter refuses is answered REFUSED on UDP/TCP/TLS and
   503 on HTTP(S) (QUIC: the stream is closed), is not forwarded, and costs nothing more; without a
   global limit the refusal is exactly the client limiter's decision for that address. *)
Theorem C15_refusal : forall (r : rl) (now : Z) (l : lim_listener) (a : lim_addr) (hit : bool) (c : Z),
  query_cost l = Some c -> rl_is_ok (snd (rl_allow r now a c)) = false ->
  accept_query r now l a hit = (fst (rl_allow r now a c), refusal l) /\
  forwards (refusal l) = false /\
  (l = LmUdp \/ l = LmTcp \/ l = LTls -> refusal l = ORefused) /\
  (l = LmHttp \/ l = LHttps -> refusal l = O503).
Proof.
  intros r now l a hit c Q H. split; [now apply (refusal_rule r now l a hit c)|].
  split; [apply forwards_refusal|].
  split; intros X; repeat destruct X as [X|X]; subst; reflexivity.
Qed.
Print Assumptions C15_refusal.

Theorem C15_refusal_is_client_decision : forall (o : opts) (t : lim_table) (now : Z) (a : lim_addr) (n : Z),
  a <> LANone ->
  rl_allow (mkRl None (Some (o, t))) now a n =
  (mkRl None (Some (o, fst (lim_step o t (EvAllow now a n)))),
   match snd (lim_step o t (EvAllow now a n)) with Some false => RlClient | _ => RlOk end).
Proof. exact rl_allow_client. Qed.
Print Assumptions C15_refusal_is_client_decision.

(* ---- non-vacuity ---- *)

(* 192.168.1.1 and 192.168.1.200 share a bucket, 192.168.2.1 does not; ::ffff:192.168.1.7 is charged to
   192.168.1.0/24; 2001:db8:1:2::1 and 2001:db8:1:ffff::9 share 2001:db8:1::/48.  rate 10/s, burst 10. *)
Definition ex_o : opts := set_default (mkOpts 10 0 0 0).
Definition ex_a1 : lim_addr := LA4 3232235777%N.
Definition ex_a2 : lim_addr := LA4 3232235976%N.
Definition ex_b : lim_addr := LA4 3232236033%N.
Definition ex_m : lim_addr := LA6 (65535 * two32 + 3232235783)%N.
Definition ex_h : list lev :=
  [EvAllow 0 ex_a1 6; EvAllow 0 ex_b 10; EvAllow 0 ex_a2 5; EvAllow 0 ex_m 4; EvAllow 0 ex_m 1;
   EvAllow 100000000 ex_a2 1; EvAllow 100000000 ex_a1 1; EvGc 200000000; EvAllow 61000000000 ex_b 10].

Example C15_example :
  ex_o = mkOpts 10 10 24 48 /\
  lim_decisions ex_o [] ex_h =
    [Some true; Some true; Some false; Some true; Some false; Some true; Some false; None; Some true] /\
  lim_decisions_for ex_o (mask_addr ex_o ex_a1) ex_h (lim_decisions ex_o [] ex_h) = [true; false; true; false; true; false] /\
  lim_granted ex_o (mask_addr ex_o ex_a1) 0 100000000 ex_h (lim_decisions ex_o [] ex_h) = 11 /\
  lim_sorted ex_h = true /\
  mask_addr ex_o ex_m = mask_addr ex_o ex_a1 /\ mask_addr ex_o ex_a2 = mask_addr ex_o ex_a1 /\ mask_addr ex_o ex_b <> mask_addr ex_o ex_a1 /\
  mask_addr ex_o (LA6 (42540766411283801819617087728247635969)) = mask_addr ex_o (LA6 (42540766411285010690096470136293687305)) /\
  listener_run (rl_init 0 0 (mkOpts 1 5 0 0)) 0
    [AQuery LmUdp ex_a1 false; AQuery LmUdp ex_a1 false; AQuery LmUdp ex_a1 false;
     AQuery LmHttp ex_a1 false; AQuery LmTcp ex_b false; AConn LQuic ex_a1]
    = [OAnswered; OAnswered; ORefused; O503; OAnswered; OConnClosed].
Proof. vm_compute. repeat split; try reflexivity. intros H; discriminate. Qed.
