(* C15 — rate limiting is a per-client-subnet token bucket isolating clients.
   Only statements; the model is Limit/Limiter.v, the proofs are in Limit/LimiterProofs.v.

   Units: time in ns, tokens scaled by SCALE = 10^9 (see Limiter.v).  [lim_decisions o [] h] are the decisions the
   ClientLimiter takes on the history h (arrivals (time, address, cost) and collector runs) starting
   with an empty table; [lim_granted o k t0 t1 h ds] is the total cost granted for subnet key k at times
   within [t0, t1]. *)
From Mos Require Import Base.Prelude Limit.Limiter Limit.LimiterProofs Limit.LimiterConc Limit.LimiterConcProofs.
Local Open Scope Z_scope.

(* Window bound.  For every history of arrivals AND collector runs with non-decreasing timestamps, every
   rate > 0 and burst >= 0, every key and every window:
       granted * 10^9  <=  burst * 10^9 + rate * (t1 - t0) + (rate - 1)
   i.e. strictly less than  burst + rate * (window + 1 ns).  The last summand (< one nanosecond of refill)
   is x/time/rate's truncation of the wait time to whole nanoseconds; it is attained (C15_bound_slack_attained),
   so the literal  burst + rate * window  can be exceeded by less than rate * 10^-9 token.
   The collector (gc) is part of the history: it may run at any time.  It drops an entry only when the entry is
   idle for more than entryTtl AND its bucket has refilled completely, so a dropped bucket and the full bucket
   created at the subnet's next arrival are indistinguishable.  (Before the repair of finding K3 the collector
   dropped every idle entry and the bound failed for burst > 60 * rate: the former statement C15_gc_refuted.) *)
Theorem C15_bound : forall (o : opts) (k : lim_addr) (t0 t1 : Z) (h : list lev),
  0 < o_limit o -> 0 <= o_burst o -> lim_sorted h = true -> t0 <= t1 ->
  lim_granted o k t0 t1 h (lim_decisions o [] h) * SCALE
    <= o_burst o * SCALE + o_limit o * (t1 - t0) + (o_limit o - 1).
Proof. exact bound_general. Qed.
Print Assumptions C15_bound.

(* The bound for the options as configured (after setDefault), whatever was omitted; no side condition. *)
Theorem C15_bound_configured : forall (cfg : opts) (k : lim_addr) (t0 t1 : Z) (h : list lev),
  let o := set_default cfg in
  lim_sorted h = true -> t0 <= t1 ->
  lim_granted o k t0 t1 h (lim_decisions o [] h) * SCALE
    <= o_burst o * SCALE + o_limit o * (t1 - t0) + (o_limit o - 1).
Proof.
  intros cfg k t0 t1 h o S T. pose proof (default_wf cfg) as W. cbn zeta in W.
  apply bound_general; auto; fold o in W; lia.
Qed.
Print Assumptions C15_bound_configured.

(* The collector is unobservable: for every history with non-decreasing timestamps the decisions taken for any
   subnet are the decisions taken on the same arrivals when the collector never runs ([filter not_gc h]): forgetting an
   idle, completely refilled entry loses nothing. *)
Theorem C15_gc_unobservable : forall (o : opts) (k : lim_addr) (h : list lev),
  0 < o_limit o -> 0 <= o_burst o -> lim_sorted h = true ->
  lim_decisions_for o k h (lim_decisions o [] h) =
  lim_decisions_for o k (filter not_gc h) (lim_decisions o [] (filter not_gc h)).
Proof. exact gc_unobservable. Qed.
Print Assumptions C15_gc_unobservable.

(* Non-vacuity of the bound across collector runs, on the parameters of the former finding K3 (rate 1, burst 1000 >
   60 * rate): the history  spend 1000 at t = 0, collector at 60.000000001 s, ask 1000 again  contains a collector
   run, the entry survives it (only 60 of 1000 tokens have refilled), the second arrival is refused exactly as
   without the collector, and the window bound holds (it did not before the repair: 2000 granted);
   after 1000 s of silence the bucket is full again, the collector drops the entry, and the client is
   rightly granted a new burst. *)
Theorem C15_gc_keeps_unrefilled_entries :
  lim_sorted k3_history = true /\ has_gc k3_history = true /\ 60 * o_limit k3_opts < o_burst k3_opts /\
  lim_decisions k3_opts [] k3_history = [Some true; None; Some false] /\
  lim_granted k3_opts k3_key 0 k3_t k3_history (lim_decisions k3_opts [] k3_history) * SCALE
    <= o_burst k3_opts * SCALE + o_limit k3_opts * (k3_t - 0) + (o_limit k3_opts - 1) /\
  lim_lookup k3_key (lim_final k3_opts [] [EvAllow 0 k3_client 1000; EvGc k3_t]) <> None /\
  lim_lookup k3_key (lim_final k3_opts [] [EvAllow 0 k3_client 1000; EvGc (1000 * SCALE)]) = None /\
  lim_decisions k3_opts [] [EvAllow 0 k3_client 1000; EvGc (1000 * SCALE); EvAllow (1000 * SCALE) k3_client 1000]
    = [Some true; None; Some true].
Proof.
  destruct k3_witness as (S & G & D & B & _ & K & C & R).
  split; [exact S|]. split; [exact G|]. split; [reflexivity|]. split; [exact D|].
  split; [|split; [exact K|split; [exact C|exact R]]].
  apply (C15_bound k3_opts k3_key 0 k3_t k3_history); [reflexivity|discriminate|exact S|discriminate].
Qed.
Print Assumptions C15_gc_keeps_unrefilled_entries.

(* The slack of one nanosecond of refill is attained (rate 3, burst 1): the literal bound
   burst + rate * window is exceeded by 10^-9 token. *)
Theorem C15_bound_slack_attained : exists (o : opts) (k : lim_addr) (t0 t1 : Z) (h : list lev),
  0 < o_limit o /\ lim_sorted h = true /\ has_gc h = false /\ t0 <= t1 /\
  lim_granted o k t0 t1 h (lim_decisions o [] h) * SCALE = o_burst o * SCALE + o_limit o * (t1 - t0) + 1.
Proof.
  exists slack_opts, (mask_addr slack_opts k3_client), 0, 333333333, slack_history.
  destruct slack_witness as (_ & E).
  split; [reflexivity|]. split; [reflexivity|]. split; [reflexivity|]. split; [discriminate|]. exact E.
Qed.
Print Assumptions C15_bound_slack_attained.

(* Isolation: the decisions taken for key k under ANY history (any order, any timestamps, collector
   runs included) are the decisions taken when only k's own arrivals (and the collector runs) happen:
   no traffic of another subnet can cause a refusal. *)
Theorem C15_isolation : forall (o : opts) (k : lim_addr) (h : list lev),
  lim_decisions_for o k h (lim_decisions o [] h) =
  lim_decisions_for o k (filter (touches o k) h) (lim_decisions o [] (filter (touches o k) h)).
Proof. exact isolation. Qed.
Print Assumptions C15_isolation.

(* Defaults: omitted masks mean /24 and /48, omitted burst = rate; configured values in range are kept;
   default keys are the /24 resp. /48 prefixes; v4-mapped addresses share the bucket of the IPv4 address;
   two addresses share a bucket iff they agree on the prefix. *)
Theorem C15_defaults :
  (forall l b, o_v4 (set_default (mkOpts l b 0 0)) = 24 /\ o_v6 (set_default (mkOpts l b 0 0)) = 48) /\
  (forall o, o_v4 (set_default o) = if (o_v4 o <=? 0) || (32 <? o_v4 o) then 24 else o_v4 o) /\
  (forall o, o_v6 (set_default o) = if (o_v6 o <=? 0) || (128 <? o_v6 o) then 48 else o_v6 o) /\
  (forall o, o_burst o <= 0 -> o_burst (set_default o) = o_limit (set_default o)) /\
  (forall o, 0 < o_limit o -> 0 < o_burst o -> 1 <= o_v4 o <= 32 -> 1 <= o_v6 o <= 128 -> set_default o = o) /\
  (forall o x, o_v4 o = 24 -> mask_addr o (LA4 x) = LA4 (x / 256 * 256)%N) /\
  (forall o x, o_v6 o = 48 -> (x / two32 <> 65535)%N -> mask_addr o (LA6 x) = LA6 (x / 2 ^ 80 * 2 ^ 80)%N) /\
  (forall o x, (x < two32)%N -> mask_addr o (LA6 (65535 * two32 + x)) = mask_addr o (LA4 x)) /\
  (forall w bits x y, mask_bits w bits x = mask_bits w bits y <-> (x / 2 ^ (w - bits) = y / 2 ^ (w - bits))%N).
Proof.
  split; [exact default_masks_omitted|]. split; [exact default_v4|]. split; [exact default_v6|].
  split; [exact default_burst|]. split; [exact default_keeps|]. split; [exact mask_v4_24|].
  split; [exact mask_v6_48|]. split; [exact mask_mapped|]. exact mask_bits_eq.
Qed.
Print Assumptions C15_defaults.

(* Decision rule at the listeners: a query the limiter refuses is answered REFUSED on UDP/TCP/TLS and
   503 on HTTP(S) (QUIC: the stream is closed), is not forwarded, and costs nothing more; without a
   global limit the refusal is exactly the client limiter's decision for that address. *)
Theorem C15_refusal : forall (r : rl) (now : Z) (l : lim_listener) (a : lim_addr) (hit : bool) (c : Z),
  query_cost l = Some c -> rl_is_ok (snd (rl_allow r now a c)) = false ->
  accept_query r now l a hit = (fst (rl_allow r now a c), refusal l) /\
  forwards (refusal l) = false /\
  (l = LmUdp \/ l = LmTcp \/ l = LTls -> refusal l = ORefused) /\
  (l = LmHttp \/ l = LHttps -> refusal l = O503).
Proof.
  intros r now l a hit c Q H. split; [now apply (refusal_rule r now l a hit c)|].
  split; [apply forwards_refusal|].
  split; intros X; repeat destruct X as [X|X]; subst; reflexivity.
Qed.
Print Assumptions C15_refusal.

Theorem C15_refusal_is_client_decision : forall (o : opts) (t : lim_table) (now : Z) (a : lim_addr) (n : Z),
  a <> LANone ->
  rl_allow (mkRl None (Some (o, t))) now a n =
  (mkRl None (Some (o, fst (lim_step o t (EvAllow now a n)))),
   match snd (lim_step o t (EvAllow now a n)) with Some false => RlClient | _ => RlOk end).
Proof. exact rl_allow_client. Qed.
Print Assumptions C15_refusal_is_client_decision.

(* ---- the limiter as the router configures it (app/router/limiter.go initResourceLimiter) ----

   [lim_config] is LimiterConfig (yaml: limiter.global_limit, limiter.client.{limit,burst,v4_mask,v6_mask}; 0 = omitted),
   [cfg_client c] the effective options of the client limiter the router builds from it (initResourceLimiter's
   struct literal, then NewClientLimiter/setDefault), [cfg_mask4/6 c] the prefix length the property assigns to a family
   ("IPv4 /24 and IPv6 /48 unless configured otherwise"), [cfg_subnet c a] the address truncated to the configured
   mask of ITS family (arithmetically: x / 2^(w-m) * 2^(w-m)). *)

(* The mapping: rate and burst as configured (omitted burst = rate); the v4 mask is v4_mask, the v6 mask is v6_mask,
   /24 resp. /48 when the field is omitted (0), negative or larger than the family's width; no client limiter
   without a positive limit. *)
Theorem C15_config_mapping : forall c : lim_config,
  (0 < lc_limit c ->
   cfg_client c = Some (mkOpts (lc_limit c) (if lc_burst c <=? 0 then lc_limit c else lc_burst c) (cfg_mask4 c) (cfg_mask6 c))) /\
  (lc_limit c <= 0 -> cfg_client c = None) /\
  (lc_v4 c = 0 -> cfg_mask4 c = 24) /\ (lc_v6 c = 0 -> cfg_mask6 c = 48) /\
  (1 <= lc_v4 c <= 32 -> cfg_mask4 c = lc_v4 c) /\ (1 <= lc_v6 c <= 128 -> cfg_mask6 c = lc_v6 c) /\
  (lc_v4 c < 0 \/ 32 < lc_v4 c -> cfg_mask4 c = 24) /\ (lc_v6 c < 0 \/ 128 < lc_v6 c -> cfg_mask6 c = 48).
Proof.
  intros c. split; [apply config_opts|]. split; [apply config_no_client|].
  unfold cfg_mask4, cfg_mask6.
  repeat split; intros H;
    try (destruct ((1 <=? lc_v4 c) && (lc_v4 c <=? 32)) eqn:E; lia);
    try (destruct ((1 <=? lc_v6 c) && (lc_v6 c <=? 128)) eqn:E; lia).
Qed.
Print Assumptions C15_config_mapping.

(* The subnet key of a client under a configuration is its address truncated to the CONFIGURED mask of ITS family:
   the key the router's limiter charges (mask_addr under the effective options) is cfg_subnet; an IPv4 client's
   subnet does not depend on v6_mask, an IPv6 client's subnet does not depend on v4_mask; a v4-mapped IPv6 client is
   an IPv4 client; two clients of one family share a bucket iff they agree on the first <mask of that family> bits. *)
Theorem C15_config_key : forall c : lim_config, 0 < lc_limit c ->
  (forall a, cfg_key c a = Some (cfg_subnet c a)) /\
  (forall o a, cfg_client c = Some o -> mask_addr o a = cfg_subnet c a) /\
  (forall c' x, lc_v4 c = lc_v4 c' -> cfg_subnet c (LA4 x) = cfg_subnet c' (LA4 x)) /\
  (forall c' x, lc_v6 c = lc_v6 c' -> (x / two32 <> 65535)%N -> cfg_subnet c (LA6 x) = cfg_subnet c' (LA6 x)) /\
  (forall x, (x < two32)%N -> cfg_subnet c (LA6 (65535 * two32 + x)) = cfg_subnet c (LA4 x)) /\
  (forall x y, cfg_subnet c (LA4 x) = cfg_subnet c (LA4 y) <->
               (x / 2 ^ (32 - Z.to_N (cfg_mask4 c)) = y / 2 ^ (32 - Z.to_N (cfg_mask4 c)))%N) /\
  (forall x y, (x / two32 <> 65535)%N -> (y / two32 <> 65535)%N ->
               (cfg_subnet c (LA6 x) = cfg_subnet c (LA6 y) <->
                (x / 2 ^ (128 - Z.to_N (cfg_mask6 c)) = y / 2 ^ (128 - Z.to_N (cfg_mask6 c)))%N)).
Proof.
  intros c L.
  split; [intros a; now apply config_key|].
  split; [intros o a; apply config_client_mask|].
  split; [intros c' x; apply config_subnet_v4|].
  split; [intros c' x; apply config_subnet_v6|].
  split; [apply config_subnet_mapped|].
  split; [apply config_same_v4|apply config_same_v6].
Qed.
Print Assumptions C15_config_key.

(* Isolation for the composed system (configuration -> initResourceLimiter -> router.limiterAllowN, no global limit):
   for every configuration, every subnet k (as the property defines subnets under that configuration) and every run
   of arrivals (any order, any timestamps, any addresses incl. the invalid one), what the clients of k are told is
   what they are told when only the arrivals from k happen. *)
Theorem C15_config_isolation : forall (c : lim_config) (k : lim_addr) (t0 : Z) (h : list rl_arrival),
  lc_global c <= 0 -> 0 < lc_limit c ->
  rl_results_for c k h (rl_decisions (rl_of_config c t0) h) =
  rl_results_for c k (filter (rl_from_subnet c k) h) (rl_decisions (rl_of_config c t0) (filter (rl_from_subnet c k) h)).
Proof. exact config_isolation. Qed.
Print Assumptions C15_config_isolation.

(* The window bound for the client limiter of any configuration (subnet keys = cfg_subnet by C15_config_key),
   collector runs included. *)
Theorem C15_config_bound : forall (c : lim_config) (o : opts) (k : lim_addr) (t0 t1 : Z) (h : list lev),
  cfg_client c = Some o -> lim_sorted h = true -> t0 <= t1 ->
  lim_granted o k t0 t1 h (lim_decisions o [] h) * SCALE
    <= o_burst o * SCALE + o_limit o * (t1 - t0) + (o_limit o - 1).
Proof. exact config_bound. Qed.
Print Assumptions C15_config_bound.

(* ---- the composed limiter: global bucket + per-subnet buckets (resourceLimiter.AllowN), round 4 ----

   [rl_of_config c t0] is the resourceLimiter of a configuration WITH its global bucket (rate = burst = global_limit, when
   > 0); [rl_allow] consults the global bucket first and only then the client limiter; [rl_decisions r h] are the results
   (RlOk | RlGlobal | RlClient) of a run of arrivals; [glob_verdicts g h] are the answers of the global bucket alone (it is
   charged by every arrival with a valid address and by nothing else); [rl_decisions_given o t h vs] is the limiter with
   the global answers GIVEN; [rl_granted] the cost granted (RlOk) for a subnet in a window. *)

(* A query refused by the global limit leaves every client bucket untouched. *)
Theorem C15_global_refusal_charges_no_client : forall (r : rl) (now : Z) (a : lim_addr) (n : Z),
  snd (rl_allow r now a n) = RlGlobal -> rl_client (fst (rl_allow r now a n)) = rl_client r.
Proof. exact global_refusal_no_client_charge. Qed.
Print Assumptions C15_global_refusal_charges_no_client.

(* The cost GRANTED for a subnet through the composed limiter is bounded by the subnet's own bucket, with or without
   a global limit, whatever the other subnets do. *)
Theorem C15_composed_bound : forall (c : lim_config) (k : lim_addr) (t0 t1 now0 : Z) (h : list rl_arrival),
  0 < lc_limit c -> k <> LANone -> lim_sorted (rl_events h) = true -> t0 <= t1 ->
  let o := set_default (cfg_opts c) in
  rl_granted o k t0 t1 h (rl_decisions (rl_of_config c now0) h) * SCALE
    <= o_burst o * SCALE + o_limit o * (t1 - t0) + (o_limit o - 1).
Proof. exact composed_bound. Qed.
Print Assumptions C15_composed_bound.

(* Isolation modulo the global limit ("only the global limit is shared").  For every configuration (global limit on or
   off), every subnet k and every run of arrivals (any order, any timestamps):
   (1) the composed limiter is the client limiter fed with the arrivals the global bucket lets through, the global
       bucket answering on its own;
   (2) what the clients of k are told = what they are told in the system in which ONLY k's arrivals exist and the
       global check gives them the answers the shared bucket gave them: other subnets influence k through these
       answers and through nothing else;
   (3) the client bucket of k after the run is the bucket after k's own globally passed arrivals alone. *)
Theorem C15_global_isolation : forall (c : lim_config) (k : lim_addr) (t0 : Z) (h : list rl_arrival),
  0 < lc_limit c ->
  let o := set_default (cfg_opts c) in
  let vs := glob_verdicts (rl_global (rl_of_config c t0)) h in
  rl_decisions (rl_of_config c t0) h = rl_decisions_given o [] h vs /\
  rl_results_for c k h (rl_decisions (rl_of_config c t0) h) =
    rl_results_for c k (filter (rl_from_subnet c k) h)
      (rl_decisions_given o [] (filter (rl_from_subnet c k) h) (rl_verdicts_for c k h vs)) /\
  lim_lookup k (rl_table (rl_final (rl_of_config c t0) h)) =
    lim_lookup k (lim_final o [] (filter (touches o k) (rl_passed h vs))).
Proof.
  intros c k t0 h L o vs. split; [|split].
  - rewrite (rl_of_config_shape c t0 L) at 1. apply rl_decompose.
  - now apply global_isolation.
  - now apply client_bucket_own.
Qed.
Print Assumptions C15_global_isolation.

(* The clause itself: "a client whose own subnet is within budget is never refused because of traffic from other
   subnets (only the global limit is shared)".  In any reachable state of the composed limiter (after any run h of
   arrivals with non-decreasing timestamps and non-negative costs, any subnets, global limit on or off), an arrival that
   is refused by the CLIENT limit exceeds the subnet's own budget: the cost granted for its subnet so far plus its own
   cost is more than the burst (no refill counted).  So a subnet for which nothing was granted is never refused by the
   client limit for a cost <= burst, however much was refused globally before. *)
Theorem C15_client_refusal_means_own_budget :
  forall (c : lim_config) (t0 : Z) (h : list rl_arrival) (now : Z) (a : lim_addr) (n tlow : Z),
  0 < lc_limit c -> lim_sorted (rl_events h) = true ->
  (forall e, In e h -> tlow <= fst (fst e) <= now /\ 0 <= snd e) -> tlow <= now -> 0 <= n ->
  snd (rl_allow (rl_final (rl_of_config c t0) h) now a n) = RlClient ->
  let o := set_default (cfg_opts c) in
  o_burst o < rl_granted o (cfg_subnet c a) tlow now h (rl_decisions (rl_of_config c t0) h) + n.
Proof. exact composed_refusal_own_budget. Qed.
Print Assumptions C15_client_refusal_means_own_budget.

(* With the WRONG order (client bucket first, then the global one: [rl_allow_client_first]) all of this fails.
   global 5/s, client 1/s burst 5: five other /24s use up the global bucket, the victim tries five times (refused by the
   global limit, but each try has consumed one token of its own bucket), 1.1 s later the victim's second query is refused
   by its CLIENT limit although a cost of 1 was ever granted for it (1 + 1 <= burst 5). *)
Theorem C15_client_first_refuted :
  (exists (r : rl) (now : Z) (a : lim_addr) (n : Z),
     snd (rl_allow_client_first r now a n) = RlGlobal /\
     rl_client (fst (rl_allow_client_first r now a n)) <> rl_client r) /\
  (exists (c : lim_config) (t0 : Z) (h : list rl_arrival) (now : Z) (a : lim_addr) (n tlow : Z),
     0 < lc_limit c /\ lim_sorted (rl_events (h ++ [(now, a, n)])) = true /\
     (forall e, In e h -> tlow <= fst (fst e) <= now /\ 0 <= snd e) /\ tlow <= now /\ 0 <= n /\
     last (rl_decisions_client_first (rl_of_config c t0) (h ++ [(now, a, n)])) RlOk = RlClient /\
     let o := set_default (cfg_opts c) in
     ~ (o_burst o < rl_granted o (cfg_subnet c a) tlow now h (rl_decisions_client_first (rl_of_config c t0) h) + n)).
Proof.
  split.
  - exists (rl_final (rl_of_config cfw_cfg 0) (firstn 5 cfw_history)), 0, cfw_victim, 1.
    destruct cfw_witness as (_ & _ & _ & _ & G & _). split; [exact G|exact cfw_charge].
  - exists cfw_cfg, 0, (firstn 11 cfw_history), 1100000000, cfw_victim, 1, 0.
    split; [reflexivity|]. split; [vm_compute; reflexivity|]. split.
    { assert (forallb (fun e : rl_arrival => (0 <=? fst (fst e)) && (fst (fst e) <=? 1100000000) && (0 <=? snd e))
                (firstn 11 cfw_history) = true) as F by (vm_compute; reflexivity).
      intros e I. pose proof (proj1 (forallb_forall _ _) F e I) as X. lia. }
    split; [discriminate|]. split; [discriminate|]. split; [vm_compute; reflexivity|].
    cbv zeta. vm_compute. intros H. discriminate H.
Qed.
Print Assumptions C15_client_first_refuted.

(* ---- concurrent arrivals (Limit/LimiterConc.v) ----

   AllowN is called from many goroutines.  [cc_run true] is the interleaving machine of the code: per call
   (1) get-or-create the subnet's entry, ONE atomic step (xsync LoadOrCompute), (2) the bucket decision under the
   entry's mutex.  For any number of simultaneous calls (one timestamp), any addresses and costs, and ANY schedule
   of the micro-steps, the cost granted to one subnet is below burst + one nanosecond of refill: a subnet's FIRST
   arrivals, however many race, share one bucket.
   The proof rests on the atomicity of step (1) (invariant: every pointer a call holds is the map's current entry
   of its subnet).  C15_split_create_refuted shows that it fails when (1) is a Load followed by a separate
   create+Store.  On the real code this clause is tested (kind `limrace`), not proved: the tie between
   xsync.MapOf.LoadOrCompute and the atomic step is the trusted part. *)
Theorem C15_concurrent_first_arrivals : forall (o : opts) (calls : list rl_arrival) (now : Z) (sched : list nat) (k : lim_addr),
  0 < o_limit o -> 0 <= o_burst o -> cc_at now calls ->
  cc_granted o k calls (cc_pcs (cc_run true o calls sched)) * SCALE <= o_burst o * SCALE + (o_limit o - 1).
Proof. intros o calls now sched k R B A. exact (atomic_bound o calls now R B A sched k). Qed.
Print Assumptions C15_concurrent_first_arrivals.

(* With a non-atomic get-or-create (Load, then create+Store on a miss) two racing first arrivals of one subnet are
   each granted a full burst: rate 1, burst 10, two calls of cost 10 at one instant, 20 granted. *)
Theorem C15_split_create_refuted : exists (o : opts) (calls : list rl_arrival) (now : Z) (sched : list nat) (k : lim_addr),
  0 < o_limit o /\ 0 <= o_burst o /\ cc_at now calls /\
  ~ (cc_granted o k calls (cc_pcs (cc_run false o calls sched)) * SCALE <= o_burst o * SCALE + (o_limit o - 1)).
Proof.
  exists ccw_opts, ccw_calls, 0, ccw_sched, ccw_key.
  split; [reflexivity|]. split; [discriminate|]. split; [exact ccw_at|].
  destruct cc_split_witness as (_ & G & _). rewrite G. vm_compute. intros H. apply H. reflexivity.
Qed.
Print Assumptions C15_split_create_refuted.

(* An HTTP request whose client address cannot be determined (the configured client_addr_header does not parse) is
   answered 400; it is not forwarded and it changes no bucket: it cannot be used to get queries past the limiter. *)
Theorem C15_unparsable_client_address : forall (r : rl) (now : Z) (l : lim_listener),
  listener_step r now (ABadAddr l) = (r, OBadRequest) /\ forwards OBadRequest = false.
Proof. intros r now l. split; reflexivity. Qed.
Print Assumptions C15_unparsable_client_address.

(* ---- one long-lived stream connection: limiter + in-flight counter (round 6) ----

   [lsc_run l maxc s es]: a tcp / tls / gnet / quic connection (state = the resourceLimiter and the per-connection counter of
   queries in flight) runs a script of events: [LscArrive now a hit] a query has been read, [LscDone] the reply of a handled query
   has been written.  tcp / tls / gnet refuse a query when counter + 1 > max_concurrent_queries, tcp / tls / quic when the
   limiter refuses it (Limit/Limiter.v lsc_step_gen). *)

(* The slot a query takes is given back on EVERY path: after any script the counter is the number of handled queries
   minus the number of replies written (a query refused by the cap or by the limiter holds nothing), so at quiescence
   it is back at its initial value (0 for a new connection). *)
Theorem C15_stream_slots_returned : forall (l : lim_listener) (maxc : Z) (s : lsconn) (es : list lsc_ev),
  lsc_inflight (fst (lsc_run l maxc s es)) =
    lsc_inflight s + lsc_count_answered (snd (lsc_run l maxc s es)) - lsc_count_done es /\
  (lsc_count_answered (snd (lsc_run l maxc s es)) = lsc_count_done es ->
   lsc_inflight (fst (lsc_run l maxc s es)) = lsc_inflight s).
Proof. intros l maxc s es. split; [apply lsc_inflight_run|apply lsc_quiescent]. Qed.
Print Assumptions C15_stream_slots_returned.

(* A query on a stream connection is refused only if the cap or the limiter says so AT THAT MOMENT; on a quiescent
   connection (after any script whose handled queries have all been answered; cap >= 1) the answer is the limiter's
   decision for the client's address alone: whatever was refused earlier on the connection, a client whose subnet is
   within budget (C15_client_refusal_means_own_budget) is served. *)
Theorem C15_stream_refusal_reasons : forall (l : lim_listener) (maxc : Z) (s : lsconn) (now : Z) (a : lim_addr) (hit : bool),
  (exists o, snd (lsc_step l maxc s (LscArrive now a hit)) = Some o /\
     (forwards o = false <->
      lsc_cap_hit l maxc s = true \/
      exists c, query_cost l = Some c /\ rl_is_ok (snd (rl_allow (lsc_rl s) now a c)) = false)) /\
  (forall s0 es, s = fst (lsc_run l maxc s0 es) -> lsc_inflight s0 = 0 -> 1 <= maxc ->
     lsc_count_answered (snd (lsc_run l maxc s0 es)) = lsc_count_done es ->
     snd (lsc_step l maxc s (LscArrive now a hit)) = Some (snd (accept_query (lsc_rl s) now l a hit))).
Proof.
  intros l maxc s now a hit. split; [apply lsc_refusal_reasons|].
  intros s0 es -> I M Q.
  rewrite lsc_quiescent_limiter_only; [reflexivity| |exact M].
  rewrite (lsc_quiescent l maxc es s0 Q). exact I.
Qed.
Print Assumptions C15_stream_refusal_reasons.

(* The variant in which a query refused by the LIMITER keeps its slot: rate 1/s, burst 7, cap 2, one tcp connection; two
   queries handled, two refused by the limiter, all replies written (quiescent), counter = 2; three seconds later the
   limiter would serve the client (3 tokens) and the connection is idle, yet the query is refused. *)
Theorem C15_stream_leak_refuted : exists (l : lim_listener) (maxc : Z) (s0 : lsconn) (es : list lsc_ev) (now : Z) (a : lim_addr),
  lsc_inflight s0 = 0 /\ 1 <= maxc /\
  let r := lsc_run_gen true l maxc s0 es in
  lsc_count_answered (snd r) = lsc_count_done es /\
  lsc_inflight (fst r) <> 0 /\
  snd (accept_query (lsc_rl (fst r)) now l a false) = OAnswered /\
  snd (lsc_step_gen true l maxc (fst r) (LscArrive now a false)) = Some ORefused.
Proof.
  exists LmTcp, 2, (mkLsconn scw_rl 0), scw_script, 3000000000, scw_client.
  destruct scw_witness as (_ & B & I & R & A & _).
  split; [reflexivity|]. split; [discriminate|]. cbv zeta.
  split; [exact B|]. split; [rewrite I; discriminate|]. split; [exact A|exact R].
Qed.
Print Assumptions C15_stream_leak_refuted.

(* A peer WITHOUT an IP address (http / https / tcp listener on a unix socket: the zero netip.Addr) is never charged:
   not the connection cost at accept, not a query cost; the state of the limiter is unchanged.  The clients behind such
   a connection are limited by the address in the client_addr_header, per request (accept_query with that address). *)
Theorem C15_no_address_no_charge : forall (r : rl) (now n : Z) (l : lim_listener),
  rl_allow r now LANone n = (r, RlOk) /\ accept_conn r now l LANone = (r, OAccepted).
Proof. exact no_address_no_charge. Qed.
Print Assumptions C15_no_address_no_charge.

(* ---- non-vacuity ---- *)

(* 192.168.1.1 and 192.168.1.200 share a bucket, 192.168.2.1 does not; ::ffff:192.168.1.7 is charged to
   192.168.1.0/24; 2001:db8:1:2::1 and 2001:db8:1:ffff::9 share 2001:db8:1::/48.  rate 10/s, burst 10. *)
Definition ex_o : opts := set_default (mkOpts 10 0 0 0).
Definition ex_a1 : lim_addr := LA4 3232235777%N.
Definition ex_a2 : lim_addr := LA4 3232235976%N.
Definition ex_b : lim_addr := LA4 3232236033%N.
Definition ex_m : lim_addr := LA6 (65535 * two32 + 3232235783)%N.
Definition ex_h : list lev :=
  [EvAllow 0 ex_a1 6; EvAllow 0 ex_b 10; EvAllow 0 ex_a2 5; EvAllow 0 ex_m 4; EvAllow 0 ex_m 1;
   EvAllow 100000000 ex_a2 1; EvAllow 100000000 ex_a1 1; EvGc 200000000; EvAllow 61000000000 ex_b 10].

Example C15_example :
  ex_o = mkOpts 10 10 24 48 /\
  lim_decisions ex_o [] ex_h =
    [Some true; Some true; Some false; Some true; Some false; Some true; Some false; None; Some true] /\
  lim_decisions_for ex_o (mask_addr ex_o ex_a1) ex_h (lim_decisions ex_o [] ex_h) = [true; false; true; false; true; false] /\
  lim_granted ex_o (mask_addr ex_o ex_a1) 0 100000000 ex_h (lim_decisions ex_o [] ex_h) = 11 /\
  lim_sorted ex_h = true /\
  mask_addr ex_o ex_m = mask_addr ex_o ex_a1 /\ mask_addr ex_o ex_a2 = mask_addr ex_o ex_a1 /\ mask_addr ex_o ex_b <> mask_addr ex_o ex_a1 /\
  mask_addr ex_o (LA6 (42540766411283801819617087728247635969)) = mask_addr ex_o (LA6 (42540766411285010690096470136293687305)) /\
  listener_run (rl_init 0 0 (mkOpts 1 5 0 0)) 0
    [AQuery LmUdp ex_a1 false; AQuery LmUdp ex_a1 false; AQuery LmUdp ex_a1 false;
     AQuery LmHttp ex_a1 false; AQuery LmTcp ex_b false; AConn LQuic ex_a1]
    = [OAnswered; OAnswered; ORefused; O503; OAnswered; OConnClosed].
Proof. vm_compute. repeat split; try reflexivity. intros H; discriminate. Qed.

(* v4_mask 32, v6_mask 56: 2001:db8:0:aa00::1 and 2001:db8:0:bb00::1 share the first 32 (and 48) bits but lie in
   different /56: separate buckets; 2001:db8:0:aa77::9 shares 2001:db8:0:aa00::/56.  10.1.2.3 and 10.1.2.4 are
   separate (/32).  With v4_mask 8, v6_mask 48 the IPv4 clients 10.1.2.3 and 10.200.0.1 share 10.0.0.0/8 while the
   IPv6 clients keep /48. *)
Definition ex_c : lim_config := mkLimCfg 0 1 5 32 56.
Definition ex_6a : lim_addr := LA6 42540766411283395659206072791340154881%N.
Definition ex_6b : lim_addr := LA6 42540766411283475939436281575308787713%N.
Definition ex_6c : lim_addr := LA6 42540766411283397854368617562776797193%N.
Example C15_config_example :
  cfg_client ex_c = Some (mkOpts 1 5 32 56) /\
  cfg_client (mkLimCfg 0 1 0 0 0) = Some (mkOpts 1 1 24 48) /\
  cfg_client (mkLimCfg 0 1 0 33 129) = Some (mkOpts 1 1 24 48) /\
  cfg_client (mkLimCfg 0 1 0 24 0) = Some (mkOpts 1 1 24 48) /\
  cfg_client (mkLimCfg 0 1 0 0 64) = Some (mkOpts 1 1 24 64) /\
  cfg_subnet ex_c ex_6a <> cfg_subnet ex_c ex_6b /\ cfg_subnet ex_c ex_6a = cfg_subnet ex_c ex_6c /\
  cfg_subnet ex_c (LA4 167838211) <> cfg_subnet ex_c (LA4 167838212) /\
  cfg_subnet (mkLimCfg 0 1 5 8 48) (LA4 167838211) = cfg_subnet (mkLimCfg 0 1 5 8 48) (LA4 180879361) /\
  cfg_subnet (mkLimCfg 0 1 5 8 48) ex_6a = cfg_subnet (mkLimCfg 0 1 5 8 48) ex_6b /\
  map rl_is_ok (rl_decisions (rl_of_config ex_c 0) [(0, ex_6a, 5); (0, ex_6a, 1); (0, ex_6c, 1); (0, ex_6b, 5); (0, ex_6b, 1)])
    = [true; false; false; true; false].
Proof. vm_compute. repeat split; try reflexivity; intros H; discriminate. Qed.

(* global 5/s, client 1/s burst 5 (the cfw witness): the victim's five tries during the overload are refused by the GLOBAL limit and
   cost it nothing; 1.1 s later both of its queries are granted; its bucket was never touched by the refusals. *)
Example C15_global_example :
  rl_results_for cfw_cfg cfw_key cfw_history (rl_decisions (rl_of_config cfw_cfg 0) cfw_history)
    = [RlGlobal; RlGlobal; RlGlobal; RlGlobal; RlGlobal; RlOk; RlOk] /\
  glob_verdicts (rl_global (rl_of_config cfw_cfg 0)) cfw_history
    = [true; true; true; true; true; false; false; false; false; false; true; true] /\
  lim_lookup cfw_key (rl_table (rl_final (rl_of_config cfw_cfg 0) (firstn 10 cfw_history))) = None /\
  rl_granted (set_default (cfg_opts cfw_cfg)) cfw_key 0 1100000000 cfw_history (rl_decisions (rl_of_config cfw_cfg 0) cfw_history) = 2.
Proof. vm_compute. repeat split; reflexivity. Qed.

(* the same script on the correct machine: the seventh query (3 s later, 3 tokens) is answered, the counter is 0 *)
Example C15_stream_example :
  snd (lsc_run LmTcp 2 (mkLsconn scw_rl 0) (scw_script ++ [LscArrive 3000000000 scw_client false]))
    = [Some OAnswered; Some OAnswered; None; None; Some ORefused; Some ORefused; Some OAnswered] /\
  lsc_inflight (fst (lsc_run LmTcp 2 (mkLsconn scw_rl 0) scw_script)) = 0 /\
  snd (lsc_run LmTcp 1 (mkLsconn (rl_of_config (mkLimCfg 0 1 50 24 48) 0) 0)
         [LscArrive 0 scw_client false; LscArrive 0 scw_client false; LscDone; LscArrive 0 scw_client false])
    = [Some OAnswered; Some ORefused; None; Some OAnswered].
Proof. vm_compute. repeat split; reflexivity. Qed.
