(* C07 — cached answers go only to the same question and client group, unchanged.  (stub; filled in below) *)
From Mos Require Import Base.Prelude Cache.Netlist Cache.NetlistProofs.

Theorem C07_lookup_spec : forall rs es ip, build rs = Some es -> lookup es ip = Ok (linear_spec rs ip).
Proof. exact lookup_spec. Qed.
Print Assumptions C07_lookup_spec.
