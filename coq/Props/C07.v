(* C07 — cached answers go only to the same question and client group, unchanged.
   Only statements; proofs live in Cache/CacheKeyProofs.v, Cache/NetlistProofs.v, Cache/CacheMemProofs.v. *)
From Mos Require Import Base.Prelude Codec.Name Codec.Msg Codec.NameProofs Codec.WfProofs
  Cache.CacheKey Cache.CacheKeyProofs Cache.Netlist Cache.NetlistProofs Cache.CacheMem Cache.CacheMemProofs
  Cache.CacheBuf Cache.CacheBufProofs.

(* ------------------------------------------------------------------ the key ------------------------------ *)
(* The key the router builds (ToLowerName, then cacheKey = name ‖ 0 ‖ class ‖ type ‖ group label_cm) determines
   the question name up to ASCII case, the class, the type and the group label_cm: two requests that find the
   same cache entry_cm are the same question from the same client group.  Names are the decoder's output, hence
   well-formed (unpack_name_wf); class and type are 16-bit.  No further side condition (full injectivity,
   after fix K2 put a terminating zero octet behind the name). *)
Theorem C07_key_injective : forall n1 c1 t1 m1 n2 c2 t2 m2,
  wf_name n1 -> wf_name n2 -> (c1 < 65536)%N -> (c2 < 65536)%N -> (t1 < 65536)%N -> (t2 < 65536)%N ->
  req_key n1 c1 t1 m1 = req_key n2 c2 t2 m2 ->
  to_lower_name n1 = to_lower_name n2 /\ c1 = c2 /\ t1 = t2 /\ m1 = m2.
Proof. exact req_key_injective. Qed.
Print Assumptions C07_key_injective.

(* the same for cacheKey itself on any (already lower-cased or not) well-formed name *)
Theorem C07_cache_key_injective : forall n1 c1 t1 m1 n2 c2 t2 m2,
  wf_name n1 -> wf_name n2 -> (c1 < 65536)%N -> (c2 < 65536)%N -> (t1 < 65536)%N -> (t2 < 65536)%N ->
  cache_key n1 c1 t1 m1 = cache_key n2 c2 t2 m2 -> n1 = n2 /\ c1 = c2 /\ t1 = t2 /\ m1 = m2.
Proof. exact cache_key_injective. Qed.
Print Assumptions C07_cache_key_injective.

(* conversely the key depends on nothing else: a repeat in any letter case builds the same key *)
Theorem C07_key_deterministic : forall n1 n2 c t m,
  to_lower_name n1 = to_lower_name n2 -> req_key n1 c t m = req_key n2 c t m.
Proof. exact req_key_complete. Qed.
Print Assumptions C07_key_deterministic.

(* the executable oracle cm_run by the correspondence check on every pair of requests is implied *)
Theorem C07_key_oracle : forall n1 c1 t1 m1 n2 c2 t2 m2,
  wf_name n1 -> wf_name n2 -> (c1 < 65536)%N -> (c2 < 65536)%N -> (t1 < 65536)%N -> (t2 < 65536)%N ->
  spec_keys n1 c1 t1 m1 n2 c2 t2 m2 (req_key n1 c1 t1 m1) (req_key n2 c2 t2 m2) = true.
Proof. exact spec_keys_sound. Qed.
Print Assumptions C07_key_oracle.

(* The layout of the pinned tree (name ‖ class ‖ type ‖ label_cm, no terminator; D3 repaired) is injective only
   when the high octet of the class cannot be read as a label_cm length ... *)
Theorem C07_key_injective_partial : forall n1 c1 t1 m1 n2 c2 t2 m2,
  wf_name n1 -> wf_name n2 -> (c1 < 65536)%N -> (c2 < 65536)%N -> (t1 < 65536)%N -> (t2 < 65536)%N ->
  ((c1 < 256)%N \/ (16384 <= c1)%N) -> ((c2 < 256)%N \/ (16384 <= c2)%N) ->
  cache_key_pinned n1 c1 t1 m1 = cache_key_pinned n2 c2 t2 m2 -> n1 = n2 /\ c1 = c2 /\ t1 = t2 /\ m1 = m2.
Proof. exact cache_key_pinned_injective_partial. Qed.
Print Assumptions C07_key_injective_partial.

(* ... and the full statement is FALSE of that layout (finding K2; reproduced on the real code, then fixed):
   root name / class 257 / type 5 / group "01"  and  name "\x01\x01" / class 5 / type 12337 / no group
   differ in all four components and share one key. *)
Theorem C07_key_refuted :
  exists n1 c1 t1 m1 n2 c2 t2 m2,
    wf_name n1 /\ wf_name n2 /\ (c1 < 65536)%N /\ (c2 < 65536)%N /\ (t1 < 65536)%N /\ (t2 < 65536)%N /\
    (n1 <> n2 /\ c1 <> c2 /\ t1 <> t2 /\ m1 <> m2) /\
    req_key_pinned n1 c1 t1 m1 = req_key_pinned n2 c2 t2 m2.
Proof. exact cache_key_pinned_refuted. Qed.
Print Assumptions C07_key_refuted.

(* ------------------------------------------------------------------ the client group --------------------- *)
(* Build succeeds iff no range is inverted and no two ranges (at different positions) share an address *)
Theorem C07_build_ok_iff : forall rs,
  (exists es, build rs = Some es) <-> (Forall valid rs /\ pairwise disjoint rs).
Proof. exact build_ok_iff. Qed.
Print Assumptions C07_build_ok_iff.

(* the binary search over the built list never panics or runs out of fuel and returns exactly the label_cm of
   the range of the INPUT file that contains the address (none: no label_cm) *)
Theorem C07_lookup_spec : forall rs es ip, build rs = Some es -> lookup es ip = Ok (linear_spec rs ip).
Proof. exact lookup_spec. Qed.
Print Assumptions C07_lookup_spec.

Theorem C07_lookup_sound : forall rs es ip lb, build rs = Some es -> lookup es ip = Ok (Some lb) ->
  exists r, In r rs /\ contains r ip = true /\ r_val r = lb.
Proof. exact lookup_sound. Qed.
Print Assumptions C07_lookup_sound.

Theorem C07_lookup_complete : forall rs es ip r, build rs = Some es -> In r rs -> contains r ip = true ->
  lookup es ip = Ok (Some (r_val r)).
Proof. exact lookup_complete. Qed.
Print Assumptions C07_lookup_complete.

(* on ANY list (even one that was not built) the search is total *)
Theorem C07_lookup_safe : forall es ip, exists r, lookup es ip = Ok r.
Proof. exact lookup_safe. Qed.
Print Assumptions C07_lookup_safe.

(* an IPv4 client and the same client seen as a v4-mapped IPv6 address are in the same group *)
Theorem C07_v4_mapped_same : forall m x,
  mark_of m (Some (NlA4 x)) = mark_of m (Some (NlA6 (v4_prefix + x)%N)).
Proof. exact v4_mapped_same. Qed.
Print Assumptions C07_v4_mapped_same.

(* ------------------------------------------------------------------ the memory cache --------------------- *)
(* In EVERY interleaving of any number of goroutines calling Store and Get with evictions, releases and
   recycling of entries at arbitrary points (all states reachable by [cm_run] from [cm_init]; each label_cm is one
   atomic action of cm_mem.go), every Get(k) that returned v was preceded by a call Store(k, v): the key
   re-check under the entry_cm's read lock turns a recycled or released entry_cm into a miss, never into the
   answer to another question.  (trace is newest first: l2 is the past of the hit.) *)
Theorem C07_hit_same_key : forall ls s, cm_run ls cm_init = Some s ->
  forall l1 k v l2, trace s = l1 ++ CmHit k v :: l2 -> In (CmStore k v) l2.
Proof. exact hit_same_key. Qed.
Print Assumptions C07_hit_same_key.

(* the lock discipline that the proof rests on, as facts about every reachable state_cm *)
Theorem C07_lock_excludes_readers : forall ls s, cm_run ls cm_init = Some s ->
  forall e, e_w (ents s e) <> None -> e_r (ents s e) = [].
Proof. exact lock_excludes_readers. Qed.
Print Assumptions C07_lock_excludes_readers.

Theorem C07_checked_key_stable : forall ls s, cm_run ls cm_init = Some s ->
  forall t k e, thr s t = GCopy k e -> e_k (ents s e) = k /\ e_v (ents s e) <> None /\ e_w (ents s e) = None.
Proof. exact checked_key_stable. Qed.
Print Assumptions C07_checked_key_stable.

(* Round 2 - "unchanged ... under concurrent stores, lookups and evictions", at the granularity of this LTS: the copy of
   the value is made AND finished while the goroutine holds the entry_cm's read lock.  In every reachable state a
   goroutine that is copying (GCopy) or has copied and not yet unlocked (GUnlockHit) holds a read lock of the entry_cm,
   no writer holds it (so releaseEntry cannot have cleared it nor a Store refilled it), the entry_cm still carries the
   looked-up key, and its value is the value being copied / returned, stored under that key. *)
Theorem C07_copy_under_lock : forall ls s, cm_run ls cm_init = Some s ->
  forall t k e,
    (thr s t = GCopy k e ->
       In t (e_r (ents s e)) /\ e_w (ents s e) = None /\ e_k (ents s e) = k /\
       exists v, e_v (ents s e) = Some v /\ In (CmStore k v) (trace s)) /\
    (forall v, thr s t = GUnlockHit k e v ->
       In t (e_r (ents s e)) /\ e_w (ents s e) = None /\ e_k (ents s e) = k /\
       e_v (ents s e) = Some v /\ In (CmStore k v) (trace s)).
Proof. exact copy_under_lock. Qed.
Print Assumptions C07_copy_under_lock.

(* the linearisation point of a hit is the RUnlock: the step that appends [CmHit k v] is taken from a state in which v
   is the entry_cm's value under key k and the read lock is still held.  (Values are immutable lists in this model: the
   pooled buffer UNDER the value - released by releaseEntry, handed to the next Store by the byte pool - is not
   modelled; that a reader never copies from a buffer after dropping the lock is what this theorem pins in the
   model, and kind cachechurn tests on the real code.  Tested, not proved: the byte pool itself.) *)
Theorem C07_hit_is_entry_value : forall ls s, cm_run ls cm_init = Some s ->
  forall t c k e v s', thr s t = GUnlockHit k e v -> cm_step s (LStep t c) = Some s' ->
    trace s' = CmHit k v :: trace s /\
    e_v (ents s e) = Some v /\ e_k (ents s e) = k /\ In t (e_r (ents s e)) /\ e_w (ents s e) = None.
Proof. exact hit_is_entry_value. Qed.
Print Assumptions C07_hit_is_entry_value.

(* the quiescent histories replayed against the real MemoryCache are schedules of that system *)
Theorem C07_big_refines_small : forall os s s', big_run os s = Some s' -> exists ls, cm_run ls s = Some s'.
Proof. exact big_refines_small. Qed.
Print Assumptions C07_big_refines_small.

(* ------------------------------------------------------------------ the value buffers (round 2) ---------- *)
(* Cache/CacheBuf.v: the layer UNDER the values of the system above.  A value is a slice (array, length) of a pooled
   byte array; arrays keep their old octets when the pool hands them out again; GetBuf returns ANY free array; Store
   fills its copy and Get copies ONE OCTET PER STEP; newCacheEntry and backend.Get return ARBITRARY entries;
   releaseEntry and the caller's release of a result buffer happen at arbitrary points; any number of goroutines.
   [cb_run false] is the code as it is: the copy is made under the entry's read lock.
   In EVERY interleaving every hit returns, octet for octet, a value that some Store call supplied for the looked-up
   key: never another key's value, never a torn mixture. *)
Theorem C07_buffers_hit_unchanged : forall ls s, cb_run false ls cb_init = Some s ->
  forall l1 k v l2, cb_trace s = l1 ++ CbHit k v :: l2 -> In (CbStore k v) l2.
Proof. exact cb_hit_unchanged. Qed.
Print Assumptions C07_buffers_hit_unchanged.

(* while a goroutine copies, the array it reads from belongs to the entry whose read lock it holds (it is not in the free
   list and in nobody else's hands), the entry still carries the looked-up key and that very slice, and nobody holds
   the write lock; the destination array is the goroutine's own *)
Theorem C07_copy_source_owned : forall ls s, cb_run false ls cb_init = Some s ->
  forall t k e b n d i, cb_thr s t = CbGCopy k e b n d i ->
    In t (cb_r (cb_ents s e)) /\ cb_w (cb_ents s e) = None /\ cb_k (cb_ents s e) = k /\
    cb_v (cb_ents s e) = Some (b, n) /\ cb_own s b = CbEnt e /\ cb_own s d = CbThr t.
Proof. exact cb_copy_source_owned. Qed.
Print Assumptions C07_copy_source_owned.

(* The variant that drops the read lock BEFORE the copy ("only grab the fields under the lock", [cb_run true]) is REFUTED:
   after Store([1], [10;11]) two concrete schedules make Get([1]) return [20;21] - the value of key [2] - and [20;11] - a
   torn mixture -; the same label lists are not schedules of the code as it is (releaseEntry's Lock waits for the
   reader). *)
Theorem C07_early_unlock_refuted :
  cb_trace_of true cb_early_witness =
    Some [CbHit [1] [20; 21]; CbStore [2] [20; 21]; CbStore [1] [10; 11]]%N /\
  cb_trace_of true cb_early_witness_torn =
    Some [CbHit [1] [20; 11]; CbStore [2] [20; 21]; CbStore [1] [10; 11]]%N /\
  cb_trace_of false cb_early_witness = None /\ cb_trace_of false cb_early_witness_torn = None.
Proof. exact cb_early_unlock_refuted. Qed.
Print Assumptions C07_early_unlock_refuted.

Theorem C07_early_unlock_breaks_property :
  exists ls tr, cb_trace_of true ls = Some tr /\ ~ cb_hits_ok tr.
Proof. exact cb_early_unlock_breaks_property. Qed.
Print Assumptions C07_early_unlock_breaks_property.

(* ------------------------------------------------------------------ repeat => hit ------------------------ *)
(* FULL statement (not proved in this generality): in a cm_run without eviction of k and with ample capacity, after
   Store(k, v) with lifetime L at time t0, ANY Get(k) issued while more than 1 s of the lifetime remains returns
   a hit — whatever other goroutines store or look up in between.
   PROVED: the same for quiescent histories in which, between the store of k and the repeat, only lookups (of
   any keys) and the passage of time occur (no other store, no eviction): from every quiescent state_cm s with the
   backend clock lagging less than 1 s (QU, clock_ok: true of cm_init and preserved by stores/lookups/sleeps,
   C07_quiescent), Store(k, v, ttl) succeeds and every later Get(k) issued while now + 1 s < t0 + ttl is a hit
   returning v.  With C07_key_deterministic (a repeat of the query builds the same key) and the request path of
   router.go (a hit returns before `forward`), the repeat causes no upstream exchange.  The gap (interleaved
   stores of other keys; concurrency) is covered by the correspondence kinds cache/cachestress only. *)
Theorem C07_repeat_hits_partial : forall s k v ttl, QU s -> clock_ok s ->
  exists s2, big_store k v ttl false s = Some s2 /\
    forall ops s3, Forall passive ops -> big_run ops s2 = Some s3 ->
      (now s3 + 1000 < now s + ttl)%N ->
      exists s4, big_get k s3 = Some s4 /\ trace s4 = CmHit k v :: trace s3.
Proof. exact repeat_hits. Qed.
Print Assumptions C07_repeat_hits_partial.

Theorem C07_quiescent : forall ops s s', Forall simple ops -> QU s -> clock_ok s ->
  big_run ops s = Some s' -> QU s' /\ clock_ok s'.
Proof. exact simple_history_quiescent. Qed.
Print Assumptions C07_quiescent.

Theorem C07_repeat_hits_history : forall ops1 s1 k v ttl,
  Forall simple ops1 -> big_run ops1 cm_init = Some s1 ->
  exists s2, big_store k v ttl false s1 = Some s2 /\
    forall ops2 s3, Forall passive ops2 -> big_run ops2 s2 = Some s3 ->
      (now s3 + 1000 < now s1 + ttl)%N ->
      exists s4, big_get k s3 = Some s4 /\ trace s4 = CmHit k v :: trace s3.
Proof. exact repeat_hits_history. Qed.
Print Assumptions C07_repeat_hits_history.

(* ------------------------------------------------------------------ the value ---------------------------- *)
(* packCacheMsg then unpackCacheMsg (uncompressed wire form, then s2 as an oracle pair with the round-trip
   law) gives back a message with the same view — header (rcode, flags, id), questions, and per record owner_cm,
   type, class, TTL and data in the same sections and order — for every response the decoder accepted.
   TTL ageing and the ID fix-up happen afterwards (C08 / C03). *)
Theorem C07_value_unchanged : forall (enc : list N -> list N) (dec : list N -> option (list N)),
  (forall x, dec (enc x) = Some x) ->
  forall (bs : list N) (m : msg), bytes bs -> unpack_msg bs = Ok m ->
  exists c m', pack_cache enc m = Ok c /\ unpack_cache dec c = Ok m' /\ view m' = view m.
Proof. exact value_unchanged_accepted. Qed.
Print Assumptions C07_value_unchanged.

(* ------------------------------------------------------------------ non-vacuity -------------------------- *)
Example C07_example_key :
  req_key [3;87;87;87]%N 1 28 [99;110]%N = [3;119;119;119;0;0;1;0;28;99;110]%N /\
  req_key [3;87;87;87]%N 1 28 [99;110]%N = req_key [3;119;119;119]%N 1 28 [99;110]%N /\
  req_key [3;119;119;119]%N 1 28 [99;110]%N <> req_key [3;119;119;119]%N 1 28 []%N.
Proof. vm_compute. repeat split; discriminate. Qed.

(* 10.0.0.0-10.0.0.255 -> "a", ::1-::2 -> "b" given out of order; plain and v4-mapped 10.0.0.7 agree *)
Example C07_example_marker :
  let m := load_marker [MRange (NlA6 1) (NlA6 2) [98]%N; MBlank; MRange (NlA4 167772160) (NlA4 167772415) [97]%N] in
  mark_of m (Some (NlA4 167772167)) = Ok [97]%N /\
  mark_of m (Some (NlA6 (v4_prefix + 167772167)%N)) = Ok [97]%N /\
  mark_of m (Some (NlA6 2)) = Ok [98]%N /\ mark_of m (Some (NlA6 3)) = Ok [] /\
  load_marker [MRange (NlA4 5) (NlA4 9) [97]%N; MRange (NlA4 9) (NlA4 12) [98]%N] = None /\
  load_marker [MRange (NlA4 9) (NlA4 5) [97]%N] = None.
Proof. vm_compute. repeat split. Qed.

(* a reader that obtained the entry_cm of k1 and then lost the race against eviction + recycling for k2 gets a
   miss; k2 is served its own value; the hypotheses of C07_hit_same_key are met by this schedule *)
Example C07_example_recycle :
  match big_run [OStore [1] [10] 60000 false; OGet [1]; ORace 2 [1] [2] [20]; OGet [2]; OGet [1]]%N cm_init with
  | Some s => returns s = [CmHit [1] [10]; CmMiss [1]; CmHit [2] [20]; CmMiss [1]]%N
  | None => False
  end.
Proof. vm_compute. reflexivity. Qed.

(* lifetime 4 s: hits at +0 s and +2.9 s (more than 1 s remains), whatever else is looked up in between *)
Example C07_example_repeat :
  match big_run [OStore [1] [10] 4000 false; OGet [1]; OSleep 999; OGet [2]; OSleep 999; OSleep 900; OGet [1]]%N cm_init with
  | Some s => returns s = [CmHit [1] [10]; CmMiss [2]; CmHit [1] [10]]%N /\ now s = 2898%N
  | None => False
  end.
Proof. vm_compute. split; reflexivity. Qed.

(* buffer level, the code as it is: Store([1],[10;11]) in array 0 / entry 0; a reader copies under the lock while a second
   Store([2],[20;21]) takes a fresh array 2 and recycles ENTRY 0 (its Lock waits for the reader); the reader gets [10;11];
   a later Get([1]) on entry 0 misses (key re-check), Get([2]) returns [20;21] *)
Example C07_example_buffers :
  cb_trace_of false
    [ CbLStore [1] [10; 11] 0; CbLStep 0 0; CbLStep 0 0; CbLStep 0 0; CbLStep 0 0; CbLStep 0 0;
      CbLGet [1] 0; CbLStep 1 0; CbLStep 1 0; CbLStep 1 1; CbLStep 1 0;
      CbLStore [2] [20; 21] 2; CbLStep 2 0; CbLStep 2 0; CbLStep 2 0;
      CbLStep 1 0; CbLStep 1 0;
      CbLStep 2 0; CbLStep 2 0;
      CbLGet [1] 0; CbLStep 3 0; CbLStep 3 0;
      CbLGet [2] 0; CbLStep 4 0; CbLStep 4 0; CbLStep 4 3; CbLStep 4 0; CbLStep 4 0; CbLStep 4 0 ]%N =
  Some [CbHit [2] [20; 21]; CbMiss [1]; CbHit [1] [10; 11]; CbStore [2] [20; 21]; CbStore [1] [10; 11]]%N.
Proof. vm_compute. reflexivity. Qed.

(* ------------------------------------------------------------------ end to end: the caching proxy ------------ *)
(* Router/Cached.v composes the request path (rules, forward, EDNS and header fix-ups) with cacheCtl.Get/Store and
   the prefetch.  In every state reachable by any history of (decoded, hence well-formed) requests, prefetches (any
   question, client, upstream), clock ticks, collections and evictions: a response SERVED FROM CACHE to query [m] of
   [client] is — apart from TTL ageing (SubtractTTL by some delta) and the per-request fix-ups (ID / RD / opcode copied
   from the query, own OPT iff the query had one) — exactly what [forward] returned for the same lower-cased question
   when it was asked for a client with the same cache key, i.e. (cache_key_injective) the same group label: same rcode
   and flags, same records in every section and order; and it costs no upstream query.  The cache key is the real
   one, cacheKey(question, ipMark(client)) read as a number ([real_ckey]). *)
From Mos Require Import Router.Rules Router.Edns Router.Router Cache.CachePolicy Router.Cached Router.CachedProofs.
Theorem C07_hit_is_relayed_answer : forall matches rules ecs up (mark : addr -> list N) maxttl,
  (forall u w r, up u w = UReply r -> count_opt (m_ar r) <= 1) ->
  (forall c, bytes (mark c)) ->
  forall (clk : N) (evs : list cev) (t ts eps : Z) (m : msg) (client : addr),
  Forall cev_wf evs -> wf_msg m ->
  let st := fst (crun matches rules ecs up (real_ckey mark) maxttl (init_state clk) evs) in
  let o := snd (handle_c matches rules ecs up (real_ckey mark) maxttl st t ts eps m client) in
  unsupported m = false -> co_cached o = true ->
  co_eff o = [] /\
  exists q qs u c r delta,
    m_qs m = q :: qs /\ mark c = mark client /\
    fst (forward_q ecs up u (lower_q q) c) = Some r /\
    co_resp o = fix_header m (let r' := subtract_ttl delta r in
                              if has_opt m then add_or_replace_opt r' else remove_opt r').
Proof.
  intros matches rules ecs up mark maxttl H1 Hm clk evs t ts eps m client Hev Hwm st o Hu Hc.
  pose proof (real_ckey_inj mark Hm) as Hinj.
  assert (Hi : cinv ecs up (real_ckey mark) st)
    by (apply (crun_inv matches rules ecs up (real_ckey mark) maxttl H1 Hinj _ Hev); apply cinv_init).
  split.
  - apply (handle_c_effects matches rules ecs up (real_ckey mark) maxttl H1 Hinj _ _ _ _ _ _ Hi Hwm). exact Hc.
  - destruct (handle_c_hit_source matches rules ecs up (real_ckey mark) maxttl Hinj _ _ _ _ _ _ Hi Hwm Hu Hc)
      as (q & qs & u & c & r & delta & Hq & Hk & Hf & Hr).
    exists q, qs, u, c, r, delta. split; [exact Hq|]. split; [|split; [exact Hf|exact Hr]].
    apply (real_ckey_mark mark Hm (lower_q q) c client); [|exact Hk].
    destruct Hwm as (_ & Fq & _). rewrite Hq in Fq. apply Router.RouterProofs.lower_q_wf. now inversion Fq.
Qed.
Print Assumptions C07_hit_is_relayed_answer.
