(* C01 — malformed input never crashes, hangs or wedges the proxy (decoder part).
   Only statements; proofs live in Codec/*Proofs.v. *)
From Mos Require Import Base.Prelude Codec.Name Codec.Msg Codec.NameProofs Codec.SafetyProofs Codec.WfProofs
  Router.Rules Router.Edns Router.Router Router.RouterProofs Net.DohGet Net.DohGetProofs.

(* Name decoding terminates for EVERY octet list and offset — pointer loops included — within a
   concrete fuel bound, and never indexes out of range (safe = not Panic and not OutOfFuel). *)
Theorem C01_name_terminates : forall (msg : list N) (off fuel : nat),
  381 < fuel -> safe (unpack_name_go fuel msg off 0 off []).
Proof. exact unpack_name_terminates. Qed.
Print Assumptions C01_name_terminates.

(* The message decoder is total on every list of octets, of any length: it returns a message or an
   error; it never panics (no slice/index out of range) and never runs out of fuel. *)
Theorem C01_decode_safe : forall bs : list N, safe (unpack_msg bs).
Proof. exact unpack_msg_safe. Qed.
Print Assumptions C01_decode_safe.

(* What it accepts is well-formed: names of 1..63-octet labels, at most 254 octets, all fields in
   range, typed RDATA of the right shape — the hypothesis every later codec theorem uses. *)
Theorem C01_decode_wf : forall (bs : list N) (m : msg), bytes bs -> unpack_msg bs = Ok m -> wf_msg m.
Proof. exact unpack_msg_wf. Qed.
Print Assumptions C01_decode_wf.

(* Name operations applied to query names before any other validation are total too. *)
Theorem C01_scan_total : forall n : list N, safe (scan n).
Proof. exact scan_total. Qed.
Print Assumptions C01_scan_total.

(* The request handler is total on decoded queries: whatever the upstream returns (a decoded reply — C01_decode_wf —
   or a failure), the response is a well-formed message, so Msg.Pack never fails on it and mustHaveRespB never needs
   its fallbacks: exactly the primary branch produces the bytes written, on every listener kind.  (reject codes are
   configured below 16; an upstream reply leaves room for the proxy's own OPT record.) *)
Theorem C01_handler_total : forall matches rules ecs up,
  rules_ok rules -> (forall u w r, up u w = UReply r -> wf_msg r /\ resp_room r) ->
  forall (l : listener) (m : msg) (client : addr), wf_msg m ->
  let r := fst (handle matches rules ecs up m client) in
  wf_msg r /\
  exists b, pack_msg (msg_len r) true (if match l with LTcp => true | _ => false end then max_size
                                       else Nat.min (size_limit l m) max_size) r = Ok b /\
            respond l m r = [if match l with LTcp => true | _ => false end then be16n (length b) ++ b else b].
Proof.
  intros matches rules ecs up Hr Hu l m client Hm. split; [now apply handle_wf|now apply handle_packs].
Qed.
Print Assumptions C01_handler_total.

(* ---- the `dns` parameter of a DoH GET request (Net/DohGet.v) ----
   The octets handed to the DNS decoder are EXACTLY what base64url decoding of the parameter yields: nothing is added
   (the handlers allocate DecodedLen(len(text)) octets, the decoder may fill fewer: it skips CR / LF), a parameter that
   is no base64url text is rejected (400).  Together with C01_decode_safe: every byte string presented as a GET
   parameter is either rejected or decoded as the message its sender encoded - never completed with other octets. *)
Theorem C01_doh_get_exact : forall k raw m,
  doh_get k raw = DohMsg m ->
  b64_decode (doh_value k raw) = Some m /\ length m <= b64_decoded_len (length (doh_value k raw)).
Proof.
  intros k raw m H. unfold doh_get, doh_get_value in H. destruct (doh_value k raw) as [|c v] eqn:V; [discriminate|].
  destruct (N.ltb 65535 _); [discriminate|]. destruct (b64_decode (c :: v)) as [m'|] eqn:D; [|discriminate].
  inversion H; subst. split; [reflexivity|]. now apply b64_decode_fits.
Qed.
Print Assumptions C01_doh_get_exact.

(* every message of 1..65535 octets reaches the decoder unchanged through the net/http listener (raw value) ... *)
Theorem C01_doh_get_roundtrip : forall m, byte_list m -> m <> [] -> (N.of_nat (length m) <= 65535)%N ->
  doh_get DohNetHttp (b64_text m) = DohMsg m.
Proof.
  intros m B Hne L. unfold doh_get, doh_get_value, doh_value.
  destruct (b64_text m) as [|c t] eqn:T.
  - exfalso. pose proof (b64_text_length m B) as E. rewrite T in E. cbn in E. destruct m; [now apply Hne|unfold b64_decoded_len in E; cbn in E; discriminate].
  - rewrite <- T. rewrite (b64_text_length m B).
    destruct (65535 <? N.of_nat (length m))%N eqn:C; [apply N.ltb_lt in C; lia|].
    rewrite (b64_roundtrip m B). reflexivity.
Qed.
Print Assumptions C01_doh_get_roundtrip.

(* ... and through the fasthttp listener (percent-decoded value) even with k percent-encoded line breaks behind it:
   the decoder skips them, the message is m itself - although the buffer is longer (defect D24: the whole buffer,
   i.e. m followed by stale octets of earlier requests, was parsed) *)
Theorem C01_doh_get_fasthttp_linebreaks : forall m k, byte_list m -> m <> [] ->
  (N.of_nat (b64_decoded_len (length (b64_text m) + k)) <= 65535)%N ->
  doh_get DohFastHttp (b64_text m ++ concat (repeat pct_lf k)) = DohMsg m.
Proof.
  intros m k B Hne L. unfold doh_get, doh_get_value, doh_value.
  pose proof (b64_enc_sextets (length m) m (le_n _) B) as S.
  assert (pct_decode (b64_text m ++ concat (repeat pct_lf k)) = b64_text m ++ repeat 10%N k) as P
    by (unfold b64_text; apply (pct_decode_text_lfs _ k S)).
  rewrite P. remember (b64_text m ++ repeat 10%N k) as v eqn:V.
  assert (length v = length (b64_text m) + k) as Lv by (subst v; rewrite app_length, repeat_length; reflexivity).
  assert (b64_decode v = Some m) as D by (subst v; apply (b64_decode_text_lfs m k B)).
  destruct v as [|c t].
  - exfalso. symmetry in V. apply app_eq_nil in V. destruct V as [T _]. pose proof (b64_text_length m B) as E. rewrite T in E.
    destruct m; [now apply Hne|unfold b64_decoded_len in E; cbn in E; discriminate].
  - rewrite Lv. destruct (65535 <? _)%N eqn:C; [apply N.ltb_lt in C; lia|]. rewrite D. reflexivity.
Qed.
Print Assumptions C01_doh_get_fasthttp_linebreaks.

(* line breaks anywhere in the text are invisible to the decoder *)
Theorem C01_doh_get_breaks_invisible : forall t1 t2 brk,
  forallb is_break brk = true -> b64_decode (t1 ++ brk ++ t2) = b64_decode (t1 ++ t2).
Proof. exact b64_decode_breaks. Qed.
Print Assumptions C01_doh_get_breaks_invisible.

(* the handler before the fix of D24: a query whose last two octets are missing, followed by four "%0A": the buffer
   holds three octets more than were decoded, the stale ones complete the query (class IN = 0,1 from the previous
   request) and the decoder ACCEPTS it; the handler as it is now hands over the cut query, which is rejected *)
Theorem C01_doh_get_pinned_refuted :
  exists stale raw m m',
    doh_get DohFastHttp raw = DohMsg m /\ is_ok (unpack_msg m) = false /\
    doh_get_pinned stale raw = DohMsg m' /\ m' <> m /\ is_ok (unpack_msg m') = true.
Proof.
  exists [0; 1; 7]%N, (b64_text [0;1;1;0;0;1;0;0;0;0;0;0; 1;97;0; 0;1]%N ++ concat (repeat pct_lf 4)),
         [0;1;1;0;0;1;0;0;0;0;0;0; 1;97;0; 0;1]%N, [0;1;1;0;0;1;0;0;0;0;0;0; 1;97;0; 0;1; 0;1;7]%N.
  vm_compute. repeat split; try reflexivity. discriminate.
Qed.
Print Assumptions C01_doh_get_pinned_refuted.

(* the query string: whatever pairs (empty ones included) stand in front of the dns pair - none of them with the key
   "dns" - and whatever stands behind it, the handler sees the value of the dns pair (net/http: raw; fasthttp: percent-
   decoded, keys compared after decoding).  [join_amp] writes the pairs with '&' between them. *)
Theorem C01_doh_query_decorated : forall ps v qs,
  Forall amp_free (ps ++ (dns_key ++ 61%N :: v) :: qs) ->
  ((forall p, In p ps -> key_of p <> dns_key) ->
   doh_query_value DohNetHttp (join_amp (ps ++ (dns_key ++ 61%N :: v) :: qs)) = v) /\
  ((forall p, In p ps -> pct_decode (key_of p) <> dns_key) ->
   doh_query_value DohFastHttp (join_amp (ps ++ (dns_key ++ 61%N :: v) :: qs)) = pct_decode v).
Proof.
  intros ps v qs F. unfold doh_query_value.
  rewrite split_join; [|destruct ps; discriminate|exact F].
  split; intros H; [now apply nethttp_value_decorated|now apply fasthttp_value_decorated].
Qed.
Print Assumptions C01_doh_query_decorated.

(* non-vacuity: a compression-pointer loop is rejected (not looped on); a valid query is accepted *)
Example C01_example_loop :
  unpack_msg [0;1;1;0;0;1;0;0;0;0;0;0; 192;12; 0;1;0;1]%N = Err ETooManyPtr.
Proof. vm_compute. reflexivity. Qed.
Example C01_example_ok :
  is_ok (unpack_msg [0;1;1;0;0;1;0;0;0;0;0;0; 1;97;0; 0;1;0;1]%N) = true.
Proof. vm_compute. reflexivity. Qed.
Example C01_example_doh_get :
  doh_get DohNetHttp (b64_text [0;1;1;0;0;1;0;0;0;0;0;0; 1;97;0; 0;1;0;1]%N) = DohMsg [0;1;1;0;0;1;0;0;0;0;0;0; 1;97;0; 0;1;0;1]%N /\
  doh_get DohNetHttp [65; 37; 48; 65]%N = DohReject /\            (* "A%0A" raw: '%' is no base64url character *)
  doh_get DohFastHttp [65; 66; 37; 48; 65]%N = DohMsg [0]%N /\     (* "AB%0A" percent-decoded: "AB" + LF *)
  doh_get DohFastHttp [65]%N = DohReject /\ doh_get DohFastHttp [65; 66; 61]%N = DohReject.   (* 1 character; padding *)
Proof. vm_compute. auto. Qed.
Example C01_example_doh_query :
  (* "&a=b&&dns=AB&x" *)
  doh_query_value DohNetHttp [38; 97; 61; 98; 38; 38; 100; 110; 115; 61; 65; 66; 38; 120]%N = [65; 66]%N /\
  (* "%64ns=AB": the key is compared after decoding on fasthttp only *)
  doh_query_value DohFastHttp [37; 54; 52; 110; 115; 61; 65; 66]%N = [65; 66]%N /\
  doh_query_value DohNetHttp [37; 54; 52; 110; 115; 61; 65; 66]%N = []%N /\
  (* "dns&dns=AB": the first dns pair has no value *)
  doh_query_value DohNetHttp [100; 110; 115; 38; 100; 110; 115; 61; 65; 66]%N = []%N.
Proof. vm_compute. auto. Qed.
