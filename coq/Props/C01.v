(* placeholder: theorems follow *)
From Mos Require Import Base.Prelude.
