(* C01 — malformed input never crashes, hangs or wedges the proxy (decoder part).
   Only statements; proofs live in Codec/*Proofs.v. *)
From Mos Require Import Base.Prelude Codec.Name Codec.Msg Codec.NameProofs Codec.SafetyProofs Codec.WfProofs
  Router.Rules Router.Edns Router.Router Router.RouterProofs.

(* Name decoding terminates for EVERY octet list and offset — pointer loops included — within a
   concrete fuel bound, and never indexes out of range (safe = not Panic and not OutOfFuel). *)
Theorem C01_name_terminates : forall (msg : list N) (off fuel : nat),
  381 < fuel -> safe (unpack_name_go fuel msg off 0 off []).
Proof. exact unpack_name_terminates. Qed.
Print Assumptions C01_name_terminates.

(* The message decoder is total on every list of octets, of any length: it returns a message or an
   error; it never panics (no slice/index out of range) and never runs out of fuel. *)
Theorem C01_decode_safe : forall bs : list N, safe (unpack_msg bs).
Proof. exact unpack_msg_safe. Qed.
Print Assumptions C01_decode_safe.

(* What it accepts is well-formed: names of 1..63-octet labels, at most 254 octets, all fields in
   range, typed RDATA of the right shape — the hypothesis every later codec theorem uses. *)
Theorem C01_decode_wf : forall (bs : list N) (m : msg), bytes bs -> unpack_msg bs = Ok m -> wf_msg m.
Proof. exact unpack_msg_wf. Qed.
Print Assumptions C01_decode_wf.

(* Name operations applied to query names before any other validation are total too. *)
Theorem C01_scan_total : forall n : list N, safe (scan n).
Proof. exact scan_total. Qed.
Print Assumptions C01_scan_total.

(* The request handler is total on decoded queries: whatever the upstream returns (a decoded reply — C01_decode_wf —
   or a failure), the response is a well-formed message, so Msg.Pack never fails on it and mustHaveRespB never needs
   its fallbacks: exactly the primary branch produces the bytes written, on every listener kind.  (reject codes are
   configured below 16; an upstream reply leaves room for the proxy's own OPT record.) *)
Theorem C01_handler_total : forall matches rules ecs up,
  rules_ok rules -> (forall u w r, up u w = UReply r -> wf_msg r /\ resp_room r) ->
  forall (l : listener) (m : msg) (client : addr), wf_msg m ->
  let r := fst (handle matches rules ecs up m client) in
  wf_msg r /\
  exists b, pack_msg (msg_len r) true (if match l with LTcp => true | _ => false end then max_size
                                       else Nat.min (size_limit l m) max_size) r = Ok b /\
            respond l m r = [if match l with LTcp => true | _ => false end then be16n (length b) ++ b else b].
Proof.
  intros matches rules ecs up Hr Hu l m client Hm. split; [now apply handle_wf|now apply handle_packs].
Qed.
Print Assumptions C01_handler_total.

(* non-vacuity: a compression-pointer loop is rejected (not looped on); a valid query is accepted *)
Example C01_example_loop :
  unpack_msg [0;1;1;0;0;1;0;0;0;0;0;0; 192;12; 0;1;0;1]%N = Err ETooManyPtr.
Proof. vm_compute. reflexivity. Qed.
Example C01_example_ok :
  is_ok (unpack_msg [0;1;1;0;0;1;0;0;0;0;0;0; 1;97;0; 0;1;0;1]%N) = true.
Proof. vm_compute. reflexivity. Qed.
