(* C02 — the wire codec preserves message content.  Only statements; proofs in Codec/RoundtripProofs.v. *)
From Mos Require Import Base.Prelude Codec.Name Codec.Msg Codec.Spec Codec.NameProofs Codec.SafetyProofs
  Codec.WfProofs Codec.RoundtripProofs Codec.TruncProofs Codec.CompressProofs.

(* The uncompressed encoding, packed into a buffer of the advertised length, succeeds and has exactly
   the advertised length (Msg.Len). *)
Theorem C02_len_exact : forall m : msg, wf_msg m ->
  exists out, pack_msg (msg_len m) false 0 m = Ok out /\ length out = msg_len m.
Proof.
  intros m Hw. exists (plain_bytes m). split; [now apply pack_msg_plain|now apply plain_bytes_len].
Qed.
Print Assumptions C02_len_exact.

(* Round trip without compression: the encoding decodes (whatever octets follow it) to a message with
   the same view: header fields, questions, and per record owner, type, class, TTL and RDATA fields
   (names octet-exact; unknown types byte for byte) in the same sections and order. *)
Theorem C02_roundtrip_plain : forall (m : msg) (trailing : list N), wf_msg m ->
  exists out m', pack_msg (msg_len m) false 0 m = Ok out /\
                 unpack_msg (out ++ trailing) = Ok m' /\ view m' = view m.
Proof.
  intros m post Hw. exists (plain_bytes m), (relen m).
  split; [now apply pack_msg_plain|]. split; [now apply unpack_plain|apply view_relen].
Qed.
Print Assumptions C02_roundtrip_plain.

(* ... hence for every message the proxy accepts (incoming compression pointers resolved by the decoder) *)
Theorem C02_accepted : forall (bs : list N) (m : msg), bytes bs -> unpack_msg bs = Ok m ->
  exists out m', pack_msg (msg_len m) false 0 m = Ok out /\ length out = msg_len m /\
                 unpack_msg out = Ok m' /\ view m' = view m.
Proof.
  intros bs m Hb Hu. pose proof (unpack_msg_wf bs m Hb Hu) as Hw.
  exists (plain_bytes m), (relen m). split; [now apply pack_msg_plain|].
  split; [now apply plain_bytes_len|]. split; [|apply view_relen].
  rewrite <- (app_nil_r (plain_bytes m)). now apply unpack_plain.
Qed.
Print Assumptions C02_accepted.

(* the executable oracle used by the correspondence check is implied by the theorem *)
Theorem C02_oracle_plain : forall m : msg, wf_msg m ->
  exists out, pack_msg (msg_len m) false 0 m = Ok out /\ spec_pack false m out = true.
Proof.
  intros m Hw. exists (plain_bytes m). split; [now apply pack_msg_plain|now apply spec_pack_plain].
Qed.
Print Assumptions C02_oracle_plain.

(* Round trip WITH name compression, for EVERY well-formed message: it is packed to wire data that decodes — whatever
   octets follow it — to a message with the same view, and the compressed encoding is never longer than the advertised
   (uncompressed) length.  A name of k labels needs at most k pointer hops (the compression-table invariant), a
   well-formed name has at most 127 labels (255 octets), and the decoder follows up to 127 pointers (the limit was 10
   before the fix of finding K1, when this statement was refuted by a chain of 12 names). *)
Theorem C02_roundtrip_compressed : forall (m : msg) (trailing : list N), wf_msg m ->
  exists out m', pack_msg (msg_len m) true 0 m = Ok out /\ unpack_msg (out ++ trailing) = Ok m' /\ view m' = view m /\
                 length out <= msg_len m.
Proof. exact compressed_roundtrip_all. Qed.
Print Assumptions C02_roundtrip_compressed.

(* ... hence for every message the proxy accepts, with compression *)
Theorem C02_accepted_compressed : forall (bs : list N) (m : msg), bytes bs -> unpack_msg bs = Ok m ->
  exists out m', pack_msg (msg_len m) true 0 m = Ok out /\ unpack_msg out = Ok m' /\ view m' = view m.
Proof.
  intros bs m Hb Hu. pose proof (unpack_msg_wf bs m Hb Hu) as Hw.
  destruct (compressed_roundtrip_all m [] Hw) as (out & m' & Hp & Hu' & Hv & _).
  exists out, m'. rewrite app_nil_r in Hu'. auto.
Qed.
Print Assumptions C02_accepted_compressed.

(* The former counterexample (K1) and the extreme case: 127 owner names, each extending the previous one by one label
   (the last has 127 labels = 255 octets and needs 126 hops), round-trip through the compressing encoder. *)
Fixpoint deep_names (k : nat) (acc : list N) : list (list N) :=
  match k with
  | O => []
  | S k' => let n := [1; 97 + N.of_nat (k mod 26)]%N ++ acc in n :: deep_names k' n
  end.
Definition deep_msg (k : nat) : msg :=
  mkMsg (mkHeader 1 true 0 false false true true false false 0) []
        (map (fun n => mkRR n 1 1 60 4 (RA [10;0;0;1]%N)) (deep_names k [])) [] [].
Definition deep_ok (k : nat) : bool :=
  match pack_msg (msg_len (deep_msg k)) true 0 (deep_msg k) with
  | Ok out => match unpack_msg out with Ok m' => view_eqb m' (deep_msg k) | _ => false end
  | _ => false
  end.
Example C02_deep_chain_ok : deep_ok 12 = true /\ deep_ok 127 = true.
Proof. split; vm_compute; reflexivity. Qed.

(* non-vacuity of the hypotheses: a concrete accepted message with a compression pointer *)
Example C02_example :
  exists m, unpack_msg [0;1;129;128;0;1;0;1;0;0;0;0; 1;97;0; 0;1;0;1; 192;12; 0;1;0;1; 0;0;0;60; 0;4; 1;2;3;4]%N = Ok m
            /\ length (m_an m) = 1 /\ msg_len m = 36.
Proof. eexists. split; [vm_compute; reflexivity|]. split; reflexivity. Qed.
