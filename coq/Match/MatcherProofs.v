(* Match/MatcherProofs.v — proofs about Match/Matcher.v: the trie built by any sequence of Add calls
   matches exactly the names having some entry as a label suffix; mix = full \/ domain \/ regexp;
   loader; text form. Qed only. *)
From Mos Require Import Base.Prelude Codec.Name Codec.NameProofs Match.Matcher.
From Coq Require Import Permutation.
From Coq Require Import ZifyN ZifyNat ZifyBool.

Definition nonnil (l : list N) : Prop := l <> [].
Definition entry_ok (e : list (list N)) : Prop := Forall nonnil e.

(* ------------------------------------------------------------------ booleans, list_eqb *)
Lemma bool_iff_eq (a b : bool) : (a = true <-> b = true) -> a = b.
Proof. destruct a, b; intros [H1 H2]; auto; try (symmetry; now apply H1); now apply H2. Qed.

Lemma leqb_eq a : forall b, list_eqb a b = true <-> a = b.
Proof.
  induction a as [|x a IH]; destruct b as [|y b]; cbn; split; try congruence; try discriminate.
  - intros H. apply andb_true_iff in H as [H1 H2]. apply N.eqb_eq in H1. apply IH in H2. congruence.
  - intros H. inversion H; subst. rewrite N.eqb_refl. cbn. now apply IH.
Qed.
Lemma leqb_refl a : list_eqb a a = true. Proof. now apply leqb_eq. Qed.
Lemma leqb_sym a b : list_eqb a b = list_eqb b a.
Proof. apply bool_iff_eq. rewrite !leqb_eq. split; congruence. Qed.
Lemma leqb_neq a b : list_eqb a b = false <-> a <> b.
Proof.
  split.
  - intros H E. apply leqb_eq in E. congruence.
  - intros H. destruct (list_eqb a b) eqn:E; auto. apply leqb_eq in E. contradiction.
Qed.

(* ------------------------------------------------------------------ keys (D5) *)
Lemma pad24_inj a b : length a = length b -> pad24 a = pad24 b -> a = b.
Proof. unfold pad24. intros L H. rewrite L in H. now apply app_inv_tail in H. Qed.

(* the map key determines the label: no two labels share a key *)
Lemma key_of_inj a b : key_of a = key_of b -> a = b.
Proof.
  unfold key_of. destruct (length a <=? 24), (length b <=? 24); intros H; inversion H; auto using pad24_inj.
Qed.

Lemma key_eqb_eq a b : key_eqb a b = true <-> a = b.
Proof.
  destruct a as [n x|x], b as [m y|y]; cbn; try (split; congruence).
  - rewrite andb_true_iff, Nat.eqb_eq, leqb_eq. split; [intros [-> ->]; auto|intros H; inversion H; auto].
  - rewrite leqb_eq. split; [intros ->; auto|intros H; inversion H; auto].
Qed.
Lemma key_eqb_refl a : key_eqb a a = true. Proof. now apply key_eqb_eq. Qed.

Lemma key_eqb_of a b : key_eqb (key_of a) (key_of b) = list_eqb a b.
Proof.
  apply bool_iff_eq. rewrite key_eqb_eq, leqb_eq. split; [apply key_of_inj|congruence].
Qed.

(* ------------------------------------------------------------------ the map *)
Lemma get_set k' k c nd :
  get_child_k k' (set_child_k k c nd) = if key_eqb k' k then Some c else get_child_k k' nd.
Proof.
  induction nd as [|[k1 c1] r IH]; cbn.
  - destruct (key_eqb k' k); reflexivity.
  - destruct (key_eqb k k1) eqn:E; cbn.
    + apply key_eqb_eq in E. subst k1. destruct (key_eqb k' k); reflexivity.
    + rewrite IH. destruct (key_eqb k' k1) eqn:E1; [|reflexivity].
      destruct (key_eqb k' k) eqn:E2; [|reflexivity].
      apply key_eqb_eq in E1, E2. subst. rewrite key_eqb_refl in E. discriminate.
Qed.

(* ------------------------------------------------------------------ insertion vs walk *)
Lemma ins_single l nd : l <> [] -> ins [l] nd = set_child_k (key_of l) Leaf nd.
Proof. destruct l; [congruence|reflexivity]. Qed.

Lemma ins_cons l l2 rest nd : l <> [] ->
  ins (l :: l2 :: rest) nd =
  match get_child_k (key_of l) nd with
  | Some Leaf => nd
  | Some (Sub c) => set_child_k (key_of l) (Sub (ins (l2 :: rest) c)) nd
  | None => set_child_k (key_of l) (Sub (ins (l2 :: rest) [])) nd
  end.
Proof. destruct l; [congruence|reflexivity]. Qed.

Lemma walk_nil rn : walk rn [] = false.
Proof. destruct rn; reflexivity. Qed.

Lemma walk_cons y rn nd :
  walk (y :: rn) nd = match get_child_k (key_of y) nd with
                      | None => false | Some Leaf => true | Some (Sub c) => walk rn c end.
Proof. reflexivity. Qed.

Lemma prefixb_cons l rest y rn : prefixb (l :: rest) (y :: rn) = list_eqb l y && prefixb rest rn.
Proof. reflexivity. Qed.

(* After inserting an entry the trie matches what it matched before, plus the names the entry is a
   (reversed) prefix of.  For EVERY node, entry and name: this is the whole content of D4. *)
Lemma walk_ins : forall re, Forall nonnil re -> re <> [] ->
  forall nd rn, walk rn (ins re nd) = walk rn nd || prefixb re rn.
Proof.
  induction re as [|l rest IH]; intros Hf Hne nd rn; [congruence|].
  inversion Hf as [|? ? Hl Hrest]; subst.
  destruct rest as [|l2 rest2].
  - rewrite ins_single by exact Hl.
    destruct rn as [|y rn]; [reflexivity|].
    rewrite !walk_cons, get_set, key_eqb_of, prefixb_cons. cbn [prefixb].
    rewrite (leqb_sym l y), andb_true_r.
    destruct (list_eqb y l) eqn:E.
    + now rewrite orb_true_r.
    + now rewrite orb_false_r.
  - assert (IH' := IH Hrest ltac:(discriminate)). clear IH.
    rewrite ins_cons by exact Hl.
    destruct rn as [|y rn].
    { cbn [walk prefixb]. destruct (get_child_k (key_of l) nd) as [[|c]|]; reflexivity. }
    rewrite prefixb_cons, (leqb_sym l y).
    destruct (get_child_k (key_of l) nd) as [[|c]|] eqn:G.
    + (* a broader entry is already terminal here: nothing changes, and it already matches *)
      destruct (list_eqb y l) eqn:E.
      * apply leqb_eq in E. subst y. rewrite walk_cons, G. reflexivity.
      * cbn. now rewrite orb_false_r.
    + rewrite !walk_cons, get_set, key_eqb_of.
      destruct (list_eqb y l) eqn:E.
      * apply leqb_eq in E. subst y. rewrite G. cbn [andb]. apply IH'.
      * cbn. now rewrite orb_false_r.
    + rewrite !walk_cons, get_set, key_eqb_of.
      destruct (list_eqb y l) eqn:E.
      * apply leqb_eq in E. subst y. rewrite G. cbn [andb orb]. rewrite IH', walk_nil. reflexivity.
      * cbn. now rewrite orb_false_r.
Qed.

(* ------------------------------------------------------------------ DomainMatcher *)
Definition dm_sem (m : dmatcher) (rn : list (list N)) : bool := dm_rootm m || walk rn (dm_root m).

Lemma has_label_ok e : entry_ok e -> has_label e = negb (is_nil e).
Proof.
  intros H. destruct e as [|l e]; [reflexivity|]. inversion H; subst.
  cbn. destruct l; [congruence|reflexivity].
Qed.

Lemma Forall_rev' {A} (P : A -> Prop) l : Forall P l -> Forall P (rev l).
Proof. intros H. apply Forall_forall. intros x Hx. apply in_rev in Hx. revert x Hx. now apply Forall_forall. Qed.

Lemma dm_add_sem e m rn : entry_ok e ->
  dm_sem (dm_add e m) rn = dm_sem m rn || prefixb (rev e) rn.
Proof.
  intros He. unfold dm_add, dm_sem. destruct (dm_rootm m) eqn:R; cbn; [now rewrite R|].
  rewrite (has_label_ok e He). destruct e as [|l e]; cbn [is_nil negb rev dm_rootm dm_root orb].
  - cbn. now rewrite orb_true_r.
  - apply walk_ins.
    + apply (Forall_rev' nonnil (l :: e) He).
    + intros H. apply (f_equal (@length _)) in H. rewrite app_length in H. cbn in H. lia.
Qed.

Lemma dm_add_rootm e m : entry_ok e -> dm_rootm (dm_add e m) = dm_rootm m || is_nil e.
Proof.
  intros He. unfold dm_add. destruct (dm_rootm m) eqn:R; cbn; [exact R|].
  rewrite (has_label_ok e He). destruct e; reflexivity.
Qed.

Definition dm_add_all (es : list (list (list N))) (m : dmatcher) : dmatcher :=
  fold_left (fun m e => dm_add e m) es m.

Lemma dm_fold_sem es : Forall entry_ok es -> forall m rn,
  dm_sem (dm_add_all es m) rn = dm_sem m rn || existsb (fun e => prefixb (rev e) rn) es.
Proof.
  unfold dm_add_all. induction es as [|e es IH]; intros Hf m rn; cbn.
  - now rewrite orb_false_r.
  - inversion Hf; subst. rewrite IH by assumption. rewrite dm_add_sem by assumption. now rewrite orb_assoc.
Qed.

Lemma dm_fold_rootm es : Forall entry_ok es -> forall m,
  dm_rootm (dm_add_all es m) = dm_rootm m || existsb (@is_nil _) es.
Proof.
  unfold dm_add_all. induction es as [|e es IH]; intros Hf m; cbn.
  - now rewrite orb_false_r.
  - inversion Hf; subst. rewrite IH by assumption. rewrite dm_add_rootm by assumption. now rewrite orb_assoc.
Qed.

Lemma dm_match_ok m n nl : scan n = Ok nl -> dm_match m n = dm_sem m (rev nl).
Proof. intros H. unfold dm_match, dm_sem. rewrite H. destruct (dm_rootm m); reflexivity. Qed.

Lemma dm_match_bad m n : (forall nl, scan n <> Ok nl) -> dm_match m n = dm_rootm m.
Proof.
  intros H. unfold dm_match. destruct (dm_rootm m); [reflexivity|].
  destruct (scan n) eqn:E; try reflexivity. exfalso. eapply H. reflexivity.
Qed.

(* ------------------------------------------------------------------ the declarative side *)
Lemma prefixb_iff a : forall b, prefixb a b = true <-> exists t, b = a ++ t.
Proof.
  induction a as [|x a IH]; intros b; cbn.
  - split; eauto.
  - destruct b as [|y b].
    + split; [discriminate|intros [t H]; discriminate].
    + rewrite andb_true_iff, leqb_eq, IH. split.
      * intros [-> [t ->]]. eauto.
      * intros [t H]. inversion H; subst. eauto.
Qed.

Lemma suffixb_iff e n : suffixb e n = true <-> label_suffix e n.
Proof.
  unfold suffixb, label_suffix. rewrite prefixb_iff. split.
  - intros [t H]. exists (rev t). apply (f_equal (@rev _)) in H. rewrite rev_involutive, rev_app_distr, rev_involutive in H. exact H.
  - intros [pre ->]. exists (rev pre). now rewrite rev_app_distr.
Qed.

Lemma is_nil_iff {A} (l : list A) : is_nil l = true <-> l = [].
Proof. destruct l; cbn; split; congruence. Qed.

Lemma dm_sem_empty rn : dm_sem dm_empty rn = false.
Proof. unfold dm_sem. cbn. apply walk_nil. Qed.

(* main theorem, boolean form: the trie built from ANY entry list equals the set-based reference *)
Theorem dm_match_spec es n nl : Forall entry_ok es -> scan n = Ok nl ->
  dm_match (dm_add_all es dm_empty) n = spec_domain es nl.
Proof.
  intros Hes Hn. rewrite (dm_match_ok _ _ _ Hn), dm_fold_sem by assumption.
  rewrite dm_sem_empty. reflexivity.
Qed.

Theorem dm_match_iff es n nl : Forall entry_ok es -> scan n = Ok nl ->
  (dm_match (dm_add_all es dm_empty) n = true <-> exists e, In e es /\ label_suffix e nl).
Proof.
  intros Hes Hn. rewrite (dm_match_spec es n nl Hes Hn). unfold spec_domain.
  rewrite existsb_exists. split; intros [e [H1 H2]]; exists e; split; auto; now apply suffixb_iff.
Qed.

(* names that do not scan are matched only by the root entry *)
Theorem dm_match_invalid es n : Forall entry_ok es -> (forall nl, scan n <> Ok nl) ->
  (dm_match (dm_add_all es dm_empty) n = true <-> In [] es).
Proof.
  intros Hes Hn. rewrite (dm_match_bad _ _ Hn), dm_fold_rootm by assumption. cbn.
  rewrite existsb_exists. split.
  - intros [e [H1 H2]]. apply is_nil_iff in H2. now subst.
  - intros H. exists []. auto.
Qed.

Theorem dm_order_independent es es' n : Forall entry_ok es -> Forall entry_ok es' ->
  (forall e, In e es <-> In e es') ->
  dm_match (dm_add_all es dm_empty) n = dm_match (dm_add_all es' dm_empty) n.
Proof.
  intros H1 H2 Hset. apply bool_iff_eq.
  destruct (scan n) as [nl| | |] eqn:E.
  - rewrite (dm_match_iff es n nl H1 E), (dm_match_iff es' n nl H2 E).
    split; intros [e [Hi Hs]]; exists e; split; auto; now apply Hset.
  - rewrite !dm_match_invalid by (assumption || (intros nl; congruence)). apply Hset.
  - rewrite !dm_match_invalid by (assumption || (intros nl; congruence)). apply Hset.
  - rewrite !dm_match_invalid by (assumption || (intros nl; congruence)). apply Hset.
Qed.

Theorem dm_permutation es es' n : Forall entry_ok es -> Permutation es es' ->
  dm_match (dm_add_all es dm_empty) n = dm_match (dm_add_all es' dm_empty) n.
Proof.
  intros H1 P. apply dm_order_independent; auto.
  - eapply Permutation_Forall; eauto.
  - intros e. split; [apply Permutation_in; auto|apply Permutation_in; now apply Permutation_sym].
Qed.

(* monotone, from ANY matcher state (not only reachable ones) *)
Theorem dm_monotone e m n : entry_ok e -> dm_match m n = true -> dm_match (dm_add e m) n = true.
Proof.
  intros He H. destruct (scan n) as [nl| | |] eqn:E.
  - rewrite (dm_match_ok m _ _ E) in H. rewrite (dm_match_ok (dm_add e m) _ _ E). rewrite dm_add_sem by assumption. now rewrite H.
  - rewrite (dm_match_bad m n) in H by (intros nl; congruence). rewrite (dm_match_bad (dm_add e m) n) by (intros nl; congruence). rewrite dm_add_rootm by assumption. now rewrite H.
  - rewrite (dm_match_bad m n) in H by (intros nl; congruence). rewrite (dm_match_bad (dm_add e m) n) by (intros nl; congruence). rewrite dm_add_rootm by assumption. now rewrite H.
  - rewrite (dm_match_bad m n) in H by (intros nl; congruence). rewrite (dm_match_bad (dm_add e m) n) by (intros nl; congruence). rewrite dm_add_rootm by assumption. now rewrite H.
Qed.

(* ------------------------------------------------------------------ labels produced by the scanner *)
Lemma scan_go_S f c tl : scan_go (S f) (c :: tl) =
  if (c =? 0)%N then Err EZeroSeg else if (63 <? c)%N then Err ELabelLen
  else if length tl <? N.to_nat c then Err ELabelLen
  else do ls <- scan_go f (skipn (N.to_nat c) tl); Ok (firstn (N.to_nat c) tl :: ls).
Proof. reflexivity. Qed.

Lemma scan_go_nonnil : forall fuel rest ls, scan_go fuel rest = Ok ls -> entry_ok ls.
Proof.
  induction fuel as [|f IH]; intros rest ls H.
  - destruct rest; cbn in H; [inversion H; constructor|discriminate].
  - destruct rest as [|c tl]; [cbn in H; inversion H; constructor|]. rewrite scan_go_S in H.
    destruct (c =? 0)%N eqn:E0; [discriminate|].
    destruct (63 <? c)%N; [discriminate|].
    destruct (length tl <? N.to_nat c) eqn:EL; [discriminate|].
    destruct (scan_go f (skipn (N.to_nat c) tl)) as [ls'| | |] eqn:ES; cbn in H; try discriminate.
    inversion H; subst. constructor; [|eapply IH; eauto].
    unfold nonnil. intros Hn. apply (f_equal (@length _)) in Hn. rewrite firstn_length in Hn. cbn in Hn.
    apply N.eqb_neq in E0. apply Nat.ltb_ge in EL. lia.
Qed.

Lemma scan_nonnil n ls : scan n = Ok ls -> entry_ok ls.
Proof. unfold scan. destruct (254 <? length n); [discriminate|]. apply scan_go_nonnil. Qed.

Lemma labels_of_ok d : entry_ok (labels_of d).
Proof.
  unfold labels_of. destruct (scan d) eqn:E; try constructor. eapply scan_nonnil; eauto.
Qed.

(* ------------------------------------------------------------------ MixMatcher *)
Section MixProofs.
Variable re_valid : list N -> bool.
Variable re_match : list N -> list N -> bool.

Definition wf_entry (e : entry) : Prop := match e with EDomain ls => entry_ok ls | _ => True end.

Lemma dm_match_add ls m n : entry_ok ls ->
  dm_match (dm_add ls m) n = dm_match m n || dm_entry_matches re_match n (EDomain ls).
Proof.
  intros He. cbn [dm_entry_matches]. destruct (scan n) as [nl| | |] eqn:E.
  - rewrite !(dm_match_ok _ _ _ E), dm_add_sem by assumption. unfold suffixb.
    destruct ls; cbn [is_nil]; [|reflexivity]. cbn. reflexivity.
  - rewrite !dm_match_bad by (intros nl; congruence). rewrite dm_add_rootm by assumption. now destruct ls.
  - rewrite !dm_match_bad by (intros nl; congruence). rewrite dm_add_rootm by assumption. now destruct ls.
  - rewrite !dm_match_bad by (intros nl; congruence). rewrite dm_add_rootm by assumption. now destruct ls.
Qed.

Lemma rx_match_cons x s n :
  rx_match re_match (x :: s) n = rx_match re_match s n || dm_entry_matches re_match n (ERegexp x).
Proof.
  cbn [dm_entry_matches]. unfold rx_match. destruct (to_readable n) as [t| | |]; cbn.
  - destruct s; cbn; [now rewrite orb_false_r|]. apply orb_comm.
  - destruct s; reflexivity.
  - destruct s; reflexivity.
  - destruct s; reflexivity.
Qed.

Lemma rx_match_dup x s n : existsb (list_eqb x) s = true ->
  rx_match re_match s n = rx_match re_match s n || dm_entry_matches re_match n (ERegexp x).
Proof.
  intros H. cbn [dm_entry_matches]. destruct (to_readable n) as [t| | |] eqn:T; try now rewrite orb_false_r.
  destruct (re_match x t) eqn:M; [|now rewrite orb_false_r].
  rewrite orb_true_r. unfold rx_match. rewrite T.
  apply existsb_exists in H. destruct H as [y [Hy Exy]]. apply leqb_eq in Exy. subst y.
  destruct s; [contradiction|]. apply existsb_exists. exists x. auto.
Qed.

Lemma mix_add_entry_sem e m n : wf_entry e ->
  mix_match re_match (mix_add_entry e m) n = mix_match re_match m n || dm_entry_matches re_match n e.
Proof.
  intros He. unfold mix_match. destruct e as [d|ls|x]; cbn [mix_add_entry mx_full mx_dom mx_re].
  - change (fm_match (fm_add d (mx_full m)) n) with (list_eqb n d || fm_match (mx_full m) n). cbn [dm_entry_matches].
    destruct (list_eqb n d), (fm_match (mx_full m) n), (dm_match (mx_dom m) n), (rx_match re_match (mx_re m) n); reflexivity.
  - rewrite (dm_match_add ls (mx_dom m) n He).
    destruct (dm_entry_matches re_match n (EDomain ls)), (fm_match (mx_full m) n), (dm_match (mx_dom m) n), (rx_match re_match (mx_re m) n); reflexivity.
  - destruct (existsb (list_eqb x) (mx_re m)) eqn:D.
    + rewrite (rx_match_dup x (mx_re m) n D) at 1.
      destruct (dm_entry_matches re_match n (ERegexp x)), (fm_match (mx_full m) n), (dm_match (mx_dom m) n), (rx_match re_match (mx_re m) n); reflexivity.
    + rewrite rx_match_cons.
      destruct (dm_entry_matches re_match n (ERegexp x)), (fm_match (mx_full m) n), (dm_match (mx_dom m) n), (rx_match re_match (mx_re m) n); reflexivity.
Qed.

Definition mix_add_entries (es : list entry) (m : mix) : mix := fold_left (fun m e => mix_add_entry e m) es m.

Lemma mix_fold_sem es : Forall wf_entry es -> forall m n,
  mix_match re_match (mix_add_entries es m) n = mix_match re_match m n || spec_mix re_match es n.
Proof.
  unfold mix_add_entries, spec_mix. induction es as [|e es IH]; intros Hf m n; cbn.
  - now rewrite orb_false_r.
  - inversion Hf; subst. rewrite IH by assumption. rewrite mix_add_entry_sem by assumption. now rewrite orb_assoc.
Qed.

Lemma mix_empty_sem n : mix_match re_match mix_empty n = false.
Proof.
  unfold mix_match, mix_empty. cbn [mx_full mx_dom mx_re fm_match existsb rx_match orb].
  unfold dm_match. cbn. destruct (scan n); try reflexivity. now rewrite walk_nil.
Qed.

Theorem mix_match_spec es n : Forall wf_entry es ->
  mix_match re_match (mix_add_entries es mix_empty) n = spec_mix re_match es n.
Proof. intros H. rewrite mix_fold_sem by assumption. now rewrite mix_empty_sem. Qed.

Lemma entry_matches_iff n e : dm_entry_matches re_match n e = true <->
  match e with
  | EFull d => n = d
  | EDomain ls => ls = [] \/ exists nl, scan n = Ok nl /\ label_suffix ls nl
  | ERegexp x => exists t, to_readable n = Ok t /\ re_match x t = true
  end.
Proof.
  destruct e as [d|ls|x]; cbn.
  - apply leqb_eq.
  - destruct ls as [|l ls]; cbn [is_nil]; [split; auto|].
    destruct (scan n) as [nl| | |]; (split; [intros H|intros [H|[nl' [H1 H2]]]]); try discriminate.
    + right. exists nl. split; auto. now apply suffixb_iff.
    + inversion H1; subst. now apply suffixb_iff.
  - destruct (to_readable n) as [t| | |]; (split; [intros H|intros [t' [H1 H2]]]); try discriminate.
    + eauto.
    + inversion H1; subst. exact H2.
Qed.

Theorem mix_match_iff es n : Forall wf_entry es ->
  (mix_match re_match (mix_add_entries es mix_empty) n = true <->
   (exists d, In (EFull d) es /\ n = d) \/
   (exists ls, In (EDomain ls) es /\ (ls = [] \/ exists nl, scan n = Ok nl /\ label_suffix ls nl)) \/
   (exists x t, In (ERegexp x) es /\ to_readable n = Ok t /\ re_match x t = true)).
Proof.
  intros H. rewrite mix_match_spec by assumption. unfold spec_mix. rewrite existsb_exists. split.
  - intros [e [Hi He]]. apply entry_matches_iff in He. destruct e as [d|ls|x].
    + left. eauto.
    + right. left. eauto.
    + right. right. destruct He as [t [H1 H2]]. eauto.
  - intros [[d [Hi He]]|[[ls [Hi He]]|[x [t [Hi He]]]]].
    + exists (EFull d). split; auto. now apply entry_matches_iff.
    + exists (EDomain ls). split; auto. now apply entry_matches_iff.
    + exists (ERegexp x). split; auto. apply entry_matches_iff. eauto.
Qed.

(* ---- rules: what MixMatcher.Add does with text rules ---- *)
Lemma parse_rule_wf r e : parse_rule re_valid r = Ok e -> wf_entry e.
Proof.
  unfold parse_rule. destruct (match index_byte 58 r with Some i => _ | None => _ end) as [typ exp].
  destruct (is_nil typ || list_eqb typ s_domain).
  - destruct (parse_readable exp); cbn; try discriminate. intros H. inversion H. cbn. apply labels_of_ok.
  - destruct (list_eqb typ s_full).
    + destruct (parse_readable exp); cbn; try discriminate. intros H. inversion H. exact I.
    + destruct (list_eqb typ s_regexp); [|discriminate].
      destruct (re_valid exp); [|discriminate]. intros H. inversion H. exact I.
Qed.

Lemma entries_of_wf rules : Forall wf_entry (entries_of re_valid rules).
Proof.
  induction rules as [|r rules IH]; cbn; [constructor|].
  destruct (parse_rule re_valid r) eqn:E; auto. constructor; auto. eapply parse_rule_wf; eauto.
Qed.

Lemma mix_add_all_entries rules : forall m,
  fst (mix_add_all re_valid rules m) = mix_add_entries (entries_of re_valid rules) m.
Proof.
  unfold mix_add_entries. induction rules as [|r rules IH]; intros m; cbn; [reflexivity|].
  unfold mix_add. destruct (parse_rule re_valid r) as [e| | |]; cbn.
  - specialize (IH (mix_add_entry e m)). destruct (mix_add_all re_valid rules (mix_add_entry e m)). exact IH.
  - specialize (IH m). destruct (mix_add_all re_valid rules m). exact IH.
  - specialize (IH m). destruct (mix_add_all re_valid rules m). exact IH.
  - specialize (IH m). destruct (mix_add_all re_valid rules m). exact IH.
Qed.

Theorem mix_rules_spec rules n :
  mix_match re_match (fst (mix_add_all re_valid rules mix_empty)) n
  = spec_mix re_match (entries_of re_valid rules) n.
Proof. rewrite mix_add_all_entries. apply mix_match_spec. apply entries_of_wf. Qed.

(* ---- loader ---- *)
Lemma load_lines_entries lines : forall m,
  fst (load_lines re_valid lines m) =
  mix_add_entries (entries_of re_valid (ok_prefix re_valid (filter (fun b => negb (is_nil b)) (map clean_line lines)))) m.
Proof.
  unfold mix_add_entries. induction lines as [|l lines IH]; intros m; cbn; [reflexivity|].
  destruct (clean_line l) as [|c b] eqn:C; cbn; [apply IH|].
  unfold mix_add. destruct (parse_rule re_valid (c :: b)) as [e| | |] eqn:P; cbn.
  - rewrite P. cbn. apply IH.
  - reflexivity.
  - reflexivity.
  - reflexivity.
Qed.

Theorem load_text_spec text n :
  mix_match re_match (fst (load_text re_valid text mix_empty)) n
  = spec_mix re_match (entries_of re_valid (ok_prefix re_valid (clean_rules text))) n.
Proof.
  unfold load_text, clean_rules. rewrite load_lines_entries. apply mix_match_spec. apply entries_of_wf.
Qed.

End MixProofs.

(* a comment does not influence the rule on its line *)
Lemma index_byte_app b a c : ~ In b a -> index_byte b (a ++ b :: c) = Some (length a).
Proof.
  induction a as [|x a IH]; intros H; cbn.
  - now rewrite N.eqb_refl.
  - destruct (x =? b)%N eqn:E.
    + apply N.eqb_eq in E. subst. exfalso. apply H. now left.
    + rewrite IH; [reflexivity|]. intros Hi. apply H. now right.
Qed.

Lemma index_byte_none b a : ~ In b a -> index_byte b a = None.
Proof.
  induction a as [|x a IH]; intros H; cbn; [reflexivity|].
  destruct (x =? b)%N eqn:E.
  - apply N.eqb_eq in E. subst. exfalso. apply H. now left.
  - rewrite IH; [reflexivity|]. intros Hi. apply H. now right.
Qed.

Theorem comment_ignored a c : ~ In 35%N a -> clean_line (a ++ 35%N :: c) = clean_line a.
Proof.
  intros H. unfold clean_line, strip_comment. rewrite index_byte_app, index_byte_none by assumption.
  rewrite firstn_app, firstn_all, Nat.sub_diag. cbn. now rewrite app_nil_r.
Qed.

(* ------------------------------------------------------------------ stored entries are lower case *)
Definition not_upper (c : N) : Prop := ~ (65 <= c <= 90)%N.

Lemma lower_not_upper c : not_upper (lower c).
Proof. unfold not_upper, lower. destruct ((65 <=? c)%N && (c <=? 90)%N) eqn:E; lia. Qed.

Lemma to_lower_go_S f c tl : to_lower_go (S f) (c :: tl) =
  if (c =? 0)%N then c :: tl else if (63 <? c)%N then c :: tl
  else if length tl <? N.to_nat c then c :: tl
  else c :: map lower (firstn (N.to_nat c) tl) ++ to_lower_go f (skipn (N.to_nat c) tl).
Proof. reflexivity. Qed.

Lemma scan_go_cons_inv f c tl ls : scan_go f (c :: tl) = Ok ls ->
  (c =? 0)%N = false /\ (63 <? c)%N = false /\ (length tl <? N.to_nat c) = false /\
  exists f' ls', f = S f' /\ scan_go f' (skipn (N.to_nat c) tl) = Ok ls' /\ ls = firstn (N.to_nat c) tl :: ls'.
Proof.
  destruct f as [|f']; [cbn; discriminate|]. rewrite scan_go_S.
  destruct (c =? 0)%N; [discriminate|]. destruct (63 <? c)%N; [discriminate|].
  destruct (length tl <? N.to_nat c); [discriminate|].
  destruct (scan_go f' (skipn (N.to_nat c) tl)) as [ls'| | |] eqn:E; cbn; try discriminate.
  intros H. inversion H. repeat split; auto. exists f', ls'. auto.
Qed.

Lemma scan_lower_go : forall f1 rest f2 ls, length rest <= f1 ->
  scan_go f2 (to_lower_go f1 rest) = Ok ls -> Forall (Forall not_upper) ls.
Proof.
  induction f1 as [|f IH]; intros rest f2 ls Hlen H.
  - destruct rest; [|cbn in Hlen; lia]. destruct f2; cbn in H; inversion H; constructor.
  - destruct rest as [|c tl]; [destruct f2; cbn in H; inversion H; constructor|].
    rewrite to_lower_go_S in H. cbn [length] in Hlen.
    destruct (c =? 0)%N eqn:E0.
    { apply scan_go_cons_inv in H. destruct H as [H _]. congruence. }
    destruct (63 <? c)%N eqn:E63.
    { apply scan_go_cons_inv in H. destruct H as [_ [H _]]. congruence. }
    destruct (length tl <? N.to_nat c) eqn:EL.
    { apply scan_go_cons_inv in H. destruct H as [_ [_ [H _]]]. congruence. }
    apply scan_go_cons_inv in H. destruct H as (_ & _ & _ & f' & ls' & -> & Hs & ->).
    apply Nat.ltb_ge in EL.
    assert (Hl : length (map lower (firstn (N.to_nat c) tl)) = N.to_nat c).
    { rewrite map_length, firstn_length. lia. }
    rewrite firstn_app, Hl, Nat.sub_diag in *. cbn [firstn] in *. rewrite app_nil_r in *.
    rewrite firstn_all2 in * by lia.
    rewrite skipn_app, Hl, Nat.sub_diag in Hs. cbn [skipn] in Hs.
    rewrite skipn_all2 in Hs by lia. cbn [app] in Hs.
    constructor.
    + apply Forall_forall. intros x Hx. apply in_map_iff in Hx. destruct Hx as [y [<- _]]. apply lower_not_upper.
    + eapply IH; [|exact Hs]. rewrite skipn_length. lia.
Qed.

(* every name that MixMatcher.Add stores has no upper-case letter in any label *)
Theorem scan_lower n ls : scan (to_lower_name n) = Ok ls -> Forall (Forall not_upper) ls.
Proof.
  unfold to_lower_name. destruct (254 <? length n) eqn:E.
  - unfold scan. rewrite E. discriminate.
  - unfold scan. destruct (254 <? length (to_lower_go (length n) n)); [discriminate|].
    apply scan_lower_go. lia.
Qed.

Theorem parse_rule_lower re_valid r e : parse_rule re_valid r = Ok e ->
  match e with
  | EDomain ls => Forall (Forall not_upper) ls
  | EFull d => forall ls, scan d = Ok ls -> Forall (Forall not_upper) ls
  | ERegexp _ => True
  end.
Proof.
  unfold parse_rule. destruct (match index_byte 58 r with Some i => _ | None => _ end) as [typ exp].
  destruct (is_nil typ || list_eqb typ s_domain).
  - destruct (parse_readable exp) as [d| | |]; cbn; try discriminate. intros H. inversion H.
    unfold labels_of. destruct (scan (to_lower_name d)) eqn:E; try constructor. eapply scan_lower; eauto.
  - destruct (list_eqb typ s_full).
    + destruct (parse_readable exp) as [d| | |]; cbn; try discriminate. intros H. inversion H.
      intros ls. apply scan_lower.
    + destruct (list_eqb typ s_regexp); [|discriminate].
      destruct (re_valid exp); [|discriminate]. intros H. inversion H. exact I.
Qed.
