(* Match/Matcher.v — executable model of internal/domain_matcher (sub_domain.go, full.go, regexp.go,
   mix.go, loader_helper.go) as the Go code builds and walks it AFTER the fixes D4 (a terminal marker is
   never replaced by a subtree) and D5 (the short-label map key carries the label length).
   Names are raw wire bytes ([list N]); the name functions (scan, to_lower_name, to_readable,
   parse_readable, index_byte, list_eqb) are the ones of Codec/Name.v — nothing is duplicated here.
   No proofs in this file (see MatcherProofs.v). *)
From Mos Require Import Base.Prelude Codec.Name.

(* ------------------------------------------------------------------ labelNode keys *)
(* labelNode has two maps: s (labels of <= 24 octets; key = struct{ length; [24]byte zero padded })
   and l (longer labels; key = the label as a string).  One association list with a tagged key is the
   disjoint union of the two maps. *)
Inductive key := KShort (len : nat) (arr : list N) | KLong (s : list N).

Definition pad24 (l : list N) : list N := l ++ repeat 0%N (24 - length l).

Definition key_of (l : list N) : key :=
  if length l <=? 24 then KShort (length l) (pad24 l) else KLong l.

Definition key_eqb (a b : key) : bool :=
  match a, b with
  | KShort n x, KShort m y => Nat.eqb n m && list_eqb x y
  | KLong x, KLong y => list_eqb x y
  | _, _ => false
  end.

(* a map value: nil pointer = terminal entry (Leaf), otherwise a sub node *)
Inductive child := Leaf | Sub (cs : list (key * child)).
Definition node := list (key * child).

(* map lookup n.s[key] / n.l[key]  (GetChild: [None] = absent, [Some Leaf] = present and nil) *)
Fixpoint get_child_k (k : key) (nd : node) : option child :=
  match nd with
  | [] => None
  | (k', c) :: r => if key_eqb k k' then Some c else get_child_k k r
  end.

(* map store n.s[key] = c *)
Fixpoint set_child_k (k : key) (c : child) (nd : node) : node :=
  match nd with
  | [] => [(k, c)]
  | (k', c') :: r => if key_eqb k k' then (k, c) :: r else (k', c') :: set_child_k k c r
  end.

Definition is_nil {A} (l : list A) : bool := match l with [] => true | _ => false end.

(* DomainMatcher.Add's loop, labels given right to left ([rl] = rev labels, so the head is the last
   label and the LAST element of [rl] is labels[0], "i == 0").
     len(label)==0            -> continue
     i == 0                   -> AddLeaf: the key is set to nil, replacing any subtree
     otherwise GetOrAddChild  -> existing subtree: descend; absent: new empty subtree, descend;
                                 existing terminal: stop (the broader entry subsumes this one — D4 fix) *)
Fixpoint ins (rl : list (list N)) (nd : node) : node :=
  match rl with
  | [] => nd
  | l :: rest =>
    match l with
    | [] => ins rest nd
    | _ :: _ =>
      match rest with
      | [] => set_child_k (key_of l) Leaf nd
      | _ :: _ =>
        match get_child_k (key_of l) nd with
        | Some Leaf => nd
        | Some (Sub c) => set_child_k (key_of l) (Sub (ins rest c)) nd
        | None => set_child_k (key_of l) (Sub (ins rest [])) nd
        end
      end
    end
  end.

Record dmatcher := { dm_root : node; dm_rootm : bool }.
Definition dm_empty : dmatcher := {| dm_root := []; dm_rootm := false |}.

Definition has_label (labels : list (list N)) : bool := existsb (fun l => negb (is_nil l)) labels.

(* DomainMatcher.Add *)
Definition dm_add (labels : list (list N)) (m : dmatcher) : dmatcher :=
  if dm_rootm m then m
  else if has_label labels then {| dm_root := ins (rev labels) (dm_root m); dm_rootm := false |}
  else {| dm_root := []; dm_rootm := true |}.

(* the walk of DomainMatcher.Match over the labels right to left *)
Fixpoint walk (rl : list (list N)) (nd : node) : bool :=
  match rl with
  | [] => false
  | l :: r =>
    match get_child_k (key_of l) nd with
    | None => false
    | Some Leaf => true
    | Some (Sub c) => walk r c
    end
  end.

(* DomainMatcher.Match: rootMatched is tested before the name is scanned *)
Definition dm_match (m : dmatcher) (n : list N) : bool :=
  if dm_rootm m then true
  else match scan n with
       | Ok ls => walk (rev ls) (dm_root m)
       | _ => false
       end.

(* ------------------------------------------------------------------ FullMatcher *)
Definition fm_add (n : list N) (s : list (list N)) : list (list N) := n :: s.
Definition fm_match (s : list (list N)) (n : list N) : bool := existsb (list_eqb n) s.

(* ------------------------------------------------------------------ RegexpMatcher *)
(* Go's regexp engine is an oracle: [re_valid e] = regexp.Compile(e) succeeds, [re_match e t] = the
   compiled expression matches the text t.  They are arguments (Section variables), never axioms. *)
Section Mix.
Variable re_valid : list N -> bool.
Variable re_match : list N -> list N -> bool.

Definition rx_add (e : list N) (s : list (list N)) : res (list (list N)) :=
  if existsb (list_eqb e) s then Ok s
  else if re_valid e then Ok (e :: s) else Err EOther.

Definition rx_match (s : list (list N)) (n : list N) : bool :=
  match s with
  | [] => false
  | _ => match to_readable n with
         | Ok t => existsb (fun e => re_match e t) s
         | _ => false
         end
  end.

(* ------------------------------------------------------------------ MixMatcher *)
Record mix := { mx_full : list (list N); mx_dom : dmatcher; mx_re : list (list N) }.
Definition mix_empty : mix := {| mx_full := []; mx_dom := dm_empty; mx_re := [] |}.

Definition mix_match (m : mix) (n : list N) : bool :=
  fm_match (mx_full m) n || dm_match (mx_dom m) n || rx_match (mx_re m) n.

(* a parsed rule *)
Inductive entry := EFull (d : list N) | EDomain (ls : list (list N)) | ERegexp (e : list N).

Definition s_domain : list N := [100; 111; 109; 97; 105; 110]%N.
Definition s_full : list N := [102; 117; 108; 108]%N.
Definition s_regexp : list N := [114; 101; 103; 101; 120; 112]%N.

(* the labels the Add loop collects with NameScanner from the (always valid) builder data *)
Definition labels_of (d : list N) : list (list N) :=
  match scan d with Ok ls => ls | _ => [] end.

(* the parsing half of MixMatcher.Add: <typ:><exp>, typ in {"", domain, full, regexp} *)
Definition parse_rule (rule : list N) : res entry :=
  let '(typ, exp) := match index_byte 58 rule with
                     | Some i => (firstn i rule, skipn (S i) rule)
                     | None => ([], rule)
                     end in
  if is_nil typ || list_eqb typ s_domain then
    do d <- parse_readable exp; Ok (EDomain (labels_of (to_lower_name d)))
  else if list_eqb typ s_full then
    do d <- parse_readable exp; Ok (EFull (to_lower_name d))
  else if list_eqb typ s_regexp then
    (if re_valid exp then Ok (ERegexp exp) else Err EOther)
  else Err EOther.

(* the storing half (cannot fail once the rule parsed: a regexp that compiled is stored unless dup) *)
Definition mix_add_entry (e : entry) (m : mix) : mix :=
  match e with
  | EFull d => {| mx_full := fm_add d (mx_full m); mx_dom := mx_dom m; mx_re := mx_re m |}
  | EDomain ls => {| mx_full := mx_full m; mx_dom := dm_add ls (mx_dom m); mx_re := mx_re m |}
  | ERegexp e => {| mx_full := mx_full m; mx_dom := mx_dom m;
                    mx_re := if existsb (list_eqb e) (mx_re m) then mx_re m else e :: mx_re m |}
  end.

(* MixMatcher.Add: on error the matcher is unchanged *)
Definition mix_add (rule : list N) (m : mix) : res mix :=
  do e <- parse_rule rule; Ok (mix_add_entry e m).

(* adding rules one by one, continuing after a rejected rule; the flags say which were rejected *)
Fixpoint mix_add_all (rules : list (list N)) (m : mix) : mix * list bool :=
  match rules with
  | [] => (m, [])
  | r :: rest =>
    match mix_add r m with
    | Ok m' => let '(m2, fl) := mix_add_all rest m' in (m2, true :: fl)
    | _ => let '(m2, fl) := mix_add_all rest m in (m2, false :: fl)
    end
  end.

(* ------------------------------------------------------------------ loader_helper.go *)
(* bufio.ScanLines: split at '\n', drop one trailing '\r' of each line, no final empty line *)
Definition drop_cr (l : list N) : list N :=
  match rev l with
  | c :: r => if (c =? 13)%N then rev r else l
  | [] => l
  end.

Fixpoint split_lines_go (text cur : list N) : list (list N) :=
  match text with
  | [] => match cur with [] => [] | _ => [drop_cr (rev cur)] end
  | c :: r => if (c =? 10)%N then drop_cr (rev cur) :: split_lines_go r []
              else split_lines_go r (c :: cur)
  end.
Definition split_lines (text : list N) : list (list N) := split_lines_go text [].

(* b[:IndexByte(b,'#')] *)
Definition strip_comment (b : list N) : list N :=
  match index_byte 35 b with Some i => firstn i b | None => b end.

(* bytes.TrimSpace restricted to ASCII white space (\t \n \v \f \r and space). Unicode white space
   (U+0085, U+00A0, ... encoded in UTF-8 at the edges of a line) is not modelled; the generator does not
   put octets >= 0x80 at the edges of a line in loader mode. *)
Definition is_space (c : N) : bool := ((9 <=? c) && (c <=? 13) || (c =? 32))%N.
Fixpoint drop_space (l : list N) : list N :=
  match l with
  | c :: r => if is_space c then drop_space r else l
  | [] => []
  end.
Definition trim_space (l : list N) : list N := rev (drop_space (rev (drop_space l))).

Definition clean_line (l : list N) : list N := trim_space (strip_comment l).

(* LoadMixMatcherFromReader: stops at the first rejected rule; [false] = an error was returned *)
Fixpoint load_lines (lines : list (list N)) (m : mix) : mix * bool :=
  match lines with
  | [] => (m, true)
  | l :: rest =>
    match clean_line l with
    | [] => load_lines rest m
    | b => match mix_add b m with
           | Ok m' => load_lines rest m'
           | _ => (m, false)
           end
    end
  end.
Definition load_text (text : list N) (m : mix) : mix * bool := load_lines (split_lines text) m.

End Mix.

(* ------------------------------------------------------------------ declarative specification *)
(* all on label lists; [e] is a suffix of [n] on a label boundary *)
Definition label_suffix (e n : list (list N)) : Prop := exists pre, n = pre ++ e.

Fixpoint prefixb (a b : list (list N)) : bool :=
  match a, b with
  | [], _ => true
  | x :: a', y :: b' => list_eqb x y && prefixb a' b'
  | _ :: _, [] => false
  end.
Definition suffixb (e n : list (list N)) : bool := prefixb (rev e) (rev n).

(* set-of-entries reference matchers (the oracle the model runner prints as spec=ok/FAIL) *)
Definition spec_domain (es : list (list (list N))) (nl : list (list N)) : bool :=
  existsb (fun e => suffixb e nl) es.

Definition dm_entry_matches (re_match : list N -> list N -> bool) (n : list N) (e : entry) : bool :=
  match e with
  | EFull d => list_eqb n d
  | EDomain ls => if is_nil ls then true
                  else match scan n with Ok nl => suffixb ls nl | _ => false end
  | ERegexp x => match to_readable n with Ok t => re_match x t | _ => false end
  end.
Definition spec_mix (re_match : list N -> list N -> bool) (es : list entry) (n : list N) : bool :=
  existsb (dm_entry_matches re_match n) es.

(* the entries a rule list denotes (rejected rules denote nothing) *)
Fixpoint entries_of (re_valid : list N -> bool) (rules : list (list N)) : list entry :=
  match rules with
  | [] => []
  | r :: rest => match parse_rule re_valid r with
                 | Ok e => e :: entries_of re_valid rest
                 | _ => entries_of re_valid rest
                 end
  end.

(* ------------------------------------------------------------------ literal regular expressions *)
(* The subset the correspondence check draws regexp rules from: [^] QuoteMeta(lit) [$].
   Evaluated on the text form as equality / prefix / suffix / substring. Everything else is the oracle's. *)
Definition is_meta (c : N) : bool :=
  existsb (N.eqb c) [92; 46; 43; 42; 63; 40; 41; 124; 91; 93; 123; 125; 94; 36]%N.

(* body -> (literal octets, anchored at the end, inside the subset) *)
Fixpoint lit_body (e : list N) : list N * bool * bool :=
  match e with
  | [] => ([], false, true)
  | c :: r =>
    if (c =? 92)%N then
      match r with
      | c2 :: r2 => let '(l, d, ok) := lit_body r2 in (c2 :: l, d, ok && is_meta c2)
      | [] => ([], false, false)
      end
    else if (c =? 36)%N && is_nil r then ([], true, true)
    else let '(l, d, ok) := lit_body r in (c :: l, d, ok && negb (is_meta c) && (c <? 128)%N)
  end.

Definition lit_parse (e : list N) : bool * (list N * bool * bool) :=
  match e with
  | c :: r => if (c =? 94)%N then (true, lit_body r) else (false, lit_body e)
  | [] => (false, lit_body [])
  end.

Definition lit_re_valid (e : list N) : bool := let '(_, (_, _, ok)) := lit_parse e in ok.

Fixpoint bprefixb (a b : list N) : bool :=
  match a, b with
  | [], _ => true
  | x :: a', y :: b' => (x =? y)%N && bprefixb a' b'
  | _ :: _, [] => false
  end.
Fixpoint containsb (a b : list N) : bool :=
  bprefixb a b || match b with [] => false | _ :: b' => containsb a b' end.

Definition lit_re_match (e t : list N) : bool :=
  let '(hd, (lit, tl, _)) := lit_parse e in
  match hd, tl with
  | true, true => list_eqb lit t
  | true, false => bprefixb lit t
  | false, true => bprefixb (rev lit) (rev t)
  | false, false => containsb lit t
  end.

(* ------------------------------------------------------------------ runner entry points *)
(* mode add: every rule through MixMatcher.Add (continuing after a rejected rule), then the probes.
   Returns the per-rule flags, the match results and the reference verdicts. *)
Definition run_add (rules probes : list (list N)) : list bool * list bool * list bool :=
  let '(m, fl) := mix_add_all lit_re_valid rules (mix_empty) in
  let es := entries_of lit_re_valid rules in
  (fl, map (mix_match lit_re_match m) probes, map (spec_mix lit_re_match es) probes).

(* mode load: the text through the loader; the reference reads the cleaned non-blank lines up to the
   first rejected one *)
Fixpoint ok_prefix (re_valid : list N -> bool) (rules : list (list N)) : list (list N) :=
  match rules with
  | [] => []
  | r :: rest => if is_ok (parse_rule re_valid r) then r :: ok_prefix re_valid rest else []
  end.
Definition clean_rules (text : list N) : list (list N) :=
  filter (fun b => negb (is_nil b)) (map clean_line (split_lines text)).

Definition run_load (text : list N) (probes : list (list N)) : bool * list bool * list bool :=
  let '(m, ok) := load_text lit_re_valid text (mix_empty) in
  let es := entries_of lit_re_valid (ok_prefix lit_re_valid (clean_rules text)) in
  (ok, map (mix_match lit_re_match m) probes, map (spec_mix lit_re_match es) probes).
