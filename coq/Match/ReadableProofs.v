(* Match/ReadableProofs.v — the text form of Codec/Name.v ([to_readable]) : shape of the escapes and
   injectivity on well-formed names (by an explicit decoder). Qed only. *)
From Mos Require Import Base.Prelude Codec.Name Codec.NameProofs.
From Coq Require Import ZifyN ZifyNat ZifyBool.

(* letters, digits, hyphen *)
Definition ldh (b : N) : Prop :=
  (97 <= b <= 122)%N \/ (65 <= b <= 90)%N \/ (48 <= b <= 57)%N \/ b = 45%N.

Lemma is_printable_ldh b : is_printable b = true <-> ldh b.
Proof. unfold is_printable, ldh. lia. Qed.

Lemma escape_byte_ldh b : ldh b -> escape_byte b = [b].
Proof. intros H. unfold escape_byte. apply is_printable_ldh in H. now rewrite H. Qed.

Lemma escape_byte_dot : escape_byte 46 = [92; 46]%N. Proof. reflexivity. Qed.
Lemma escape_byte_backslash : escape_byte 92 = [92; 92]%N. Proof. reflexivity. Qed.

Lemma escape_byte_other b : (b < 256)%N -> ~ ldh b -> b <> 46%N -> b <> 92%N ->
  exists d2 d1 d0, escape_byte b = [92; 48 + d2; 48 + d1; 48 + d0]%N /\
                   (d2 < 10 /\ d1 < 10 /\ d0 < 10 /\ b = 100 * d2 + 10 * d1 + d0)%N.
Proof.
  intros Hb Hl H46 H92. unfold escape_byte.
  destruct (is_printable b) eqn:P; [apply is_printable_ldh in P; contradiction|].
  destruct (b =? 46)%N eqn:E1; [apply N.eqb_eq in E1; contradiction|].
  destruct (b =? 92)%N eqn:E2; [apply N.eqb_eq in E2; contradiction|].
  exists (b / 100)%N, ((b / 10) mod 10)%N, (b mod 10)%N. split; [reflexivity|]. lia.
Qed.

(* ------------------------------------------------------------------ decoder *)
Fixpoint unescape (t : list N) (cur : list N) : option (list (list N)) :=
  match t with
  | [] => Some [rev cur]
  | c :: r =>
    if (c =? 46)%N then option_map (cons (rev cur)) (unescape r [])
    else if (c =? 92)%N then
      match r with
      | c2 :: r2 =>
        if (c2 =? 46)%N || (c2 =? 92)%N then unescape r2 (c2 :: cur)
        else match r2 with
             | c3 :: c4 :: r4 => unescape r4 (((c2 - 48) * 100 + (c3 - 48) * 10 + (c4 - 48))%N :: cur)
             | _ => None
             end
      | [] => None
      end
    else unescape r (c :: cur)
  end.

Lemma unescape_plain c r cur : (c =? 46)%N = false -> (c =? 92)%N = false ->
  unescape (c :: r) cur = unescape r (c :: cur).
Proof. intros H1 H2. cbn [unescape]. now rewrite H1, H2. Qed.

Lemma unescape_pair c2 r cur : (c2 =? 46)%N || (c2 =? 92)%N = true ->
  unescape (92%N :: c2 :: r) cur = unescape r (c2 :: cur).
Proof. intros H. cbn [unescape]. change (92 =? 46)%N with false. change (92 =? 92)%N with true. cbv iota. now rewrite H. Qed.

Lemma unescape_ddd c2 c3 c4 r cur : (c2 =? 46)%N || (c2 =? 92)%N = false ->
  unescape (92%N :: c2 :: c3 :: c4 :: r) cur
  = unescape r (((c2 - 48) * 100 + (c3 - 48) * 10 + (c4 - 48))%N :: cur).
Proof. intros H. cbn [unescape]. change (92 =? 46)%N with false. change (92 =? 92)%N with true. cbv iota. now rewrite H. Qed.

Lemma unescape_byte b t cur : (b < 256)%N ->
  unescape (escape_byte b ++ t) cur = unescape t (b :: cur).
Proof.
  intros Hb. unfold escape_byte.
  destruct (is_printable b) eqn:P.
  - cbn [app]. apply unescape_plain.
    + destruct (b =? 46)%N eqn:E; [|reflexivity]. apply N.eqb_eq in E. subst. discriminate.
    + destruct (b =? 92)%N eqn:E; [|reflexivity]. apply N.eqb_eq in E. subst. discriminate.
  - destruct (b =? 46)%N eqn:E1.
    { apply N.eqb_eq in E1. subst. cbn [app]. now rewrite unescape_pair. }
    destruct (b =? 92)%N eqn:E2.
    { apply N.eqb_eq in E2. subst. cbn [app]. now rewrite unescape_pair. }
    unfold ddd. cbn [app]. rewrite unescape_ddd.
    + f_equal. f_equal. lia.
    + apply orb_false_iff. split; apply N.eqb_neq; lia.
Qed.

Lemma unescape_label l : bytes l -> forall t cur,
  unescape (escape_label l ++ t) cur = unescape t (rev l ++ cur).
Proof.
  unfold escape_label. induction 1 as [|b l Hb _ IH]; intros t cur; cbn [flat_map rev app]; [reflexivity|].
  rewrite <- app_assoc, unescape_byte by exact Hb. rewrite IH, <- app_assoc. reflexivity.
Qed.

Lemma unescape_join ls : ls <> [] -> Forall (fun l => bytes l) ls ->
  unescape (join_dot (map escape_label ls)) [] = Some ls.
Proof.
  induction ls as [|l ls IH]; intros Hne Hb; [congruence|]. inversion Hb; subst.
  destruct ls as [|l2 ls].
  - cbn [map join_dot]. rewrite <- (app_nil_r (escape_label l)), unescape_label by assumption.
    cbn [unescape]. now rewrite app_nil_r, rev_involutive.
  - change (join_dot (map escape_label (l :: l2 :: ls)))
      with (escape_label l ++ 46%N :: join_dot (map escape_label (l2 :: ls))).
    rewrite unescape_label by assumption. cbn [unescape]. change (46 =? 46)%N with true. cbv iota.
    rewrite IH by (congruence || assumption). cbn. now rewrite app_nil_r, rev_involutive.
Qed.

(* ------------------------------------------------------------------ to_readable on well-formed names *)
Lemma to_readable_raw ls : wf_labels ls ->
  to_readable (raw ls) = Ok (match ls with [] => [46%N] | _ => join_dot (map escape_label ls) end).
Proof.
  intros H. destruct ls as [|l ls]; [reflexivity|].
  unfold to_readable. change (raw (l :: ls)) with (N.of_nat (length l) :: l ++ raw ls) at 1.
  cbv iota. change (N.of_nat (length l) :: l ++ raw ls) with (raw (l :: ls)).
  now rewrite (scan_raw _ H).
Qed.

Lemma wf_labels_bytes ls : wf_labels ls -> Forall (fun l => bytes l) ls.
Proof. intros [H _]. eapply Forall_impl; [|exact H]. intros l [_ Hb]. exact Hb. Qed.

(* the text form determines the name *)
Theorem readable_injective n1 n2 t : wf_name n1 -> wf_name n2 ->
  to_readable n1 = Ok t -> to_readable n2 = Ok t -> n1 = n2.
Proof.
  intros (ls1 & -> & W1) (ls2 & -> & W2). rewrite (to_readable_raw _ W1), (to_readable_raw _ W2).
  intros H1 H2. inversion H1 as [T1]. inversion H2 as [T2]. clear H1 H2.
  assert (B1 := wf_labels_bytes _ W1). assert (B2 := wf_labels_bytes _ W2).
  destruct ls1 as [|a ls1], ls2 as [|b ls2]; [reflexivity| | |].
  - (* "." against a non-root name: the decoder would give two empty labels *)
    exfalso. rewrite <- T1 in T2. assert (U := unescape_join (b :: ls2) ltac:(discriminate) B2). rewrite T2 in U.
    cbn in U. inversion U as [[Hb Hl]]. destruct W2 as [Wf _]. inversion Wf as [|? ? [Hlen _] _]; subst. cbn in Hlen. lia.
  - exfalso. rewrite <- T2 in T1. assert (U := unescape_join (a :: ls1) ltac:(discriminate) B1). rewrite T1 in U.
    cbn in U. inversion U as [[Ha Hl]]. destruct W1 as [Wf _]. inversion Wf as [|? ? [Hlen _] _]; subst. cbn in Hlen. lia.
  - assert (U1 := unescape_join (a :: ls1) ltac:(discriminate) B1).
    assert (U2 := unescape_join (b :: ls2) ltac:(discriminate) B2).
    rewrite T1 in U1. rewrite T2 in U2. rewrite U1 in U2. inversion U2. reflexivity.
Qed.

Lemma to_readable_wf n : wf_name n -> exists t, to_readable n = Ok t.
Proof. intros (ls & -> & W). rewrite (to_readable_raw _ W). eauto. Qed.
