(* Limit/LimiterConc.v — interleaving model of concurrent ClientLimiter.AllowN calls (C15).

   internal/limiter/client_limiter.go
       func (cl *ClientLimiter) AllowN(addr, now, n) bool {
           e, _ := cl.m.LoadOrCompute(cl.mask(addr), func() *e { return &e{l: rate.NewLimiter(...)} })   (1)
           e.m.Lock(); e.lastSeen = now; ok := e.l.AllowN(now, n); e.m.Unlock()                         (2)
           return ok
       }
   The servers call it from many goroutines.  A call is two micro-steps: (1) get-or-create the entry of the
   subnet in the shared map — ONE atomic step of xsync.MapOf — which yields a pointer to the entry, and (2) the
   token-bucket decision on that entry under the entry's mutex.  Entries are heap cells (pointers): two calls
   holding the same pointer spend from the same bucket.

   [cc_step true] is that machine.  [cc_step false] is the machine in which step (1) is split into a Load and,
   on a miss, a later create+Store (check-then-act): the window bound then fails (LimiterConcProofs.cc_split_witness):
   every call that saw the miss spends from a full bucket of its own.  The atomicity of (1) is what the proof of
   the bound for concurrent first arrivals rests on.

   A new rate.Limiter (tokens 0, last = year 1) is a full bucket at its first use: heap cell [None].
   No proofs in this file (LimiterConcProofs.v). *)
From Mos Require Import Base.Prelude Limit.Limiter.
Local Open Scope Z_scope.

(* program counter of one AllowN call *)
Inductive cc_pc :=
| CcStart                (* before (1) *)
| CcMiss                 (* split machine only: Load saw no entry; create+Store still to come *)
| CcHave (p : nat)       (* holds a pointer to entry p; (2) still to come *)
| CcDone (ok : bool).    (* returned *)

(* heap of entries, the shared map (subnet key -> pointer; the first binding of a key is the current one),
   one program counter per call *)
Record cc_state := mkCc { cc_heap : list (option bucket); cc_tbl : list (lim_addr * nat); cc_pcs : list cc_pc }.

Fixpoint cc_find (k : lim_addr) (t : list (lim_addr * nat)) : option nat :=
  match t with
  | [] => None
  | (k', p) :: t' => if addr_eqb k k' then Some p else cc_find k t'
  end.

Fixpoint cc_set {A : Type} (l : list A) (i : nat) (x : A) : list A :=
  match l, i with
  | [], _ => []
  | _ :: l', O => x :: l'
  | y :: l', S i' => y :: cc_set l' i' x
  end.

(* the bucket behind pointer p as the next AllowN(now, _) sees it *)
Definition cc_cell (o : opts) (now : Z) (heap : list (option bucket)) (p : nat) : bucket :=
  match nth p heap None with Some b => b | None => lim_fresh (o_burst o) now end.

(* one micro-step of call i.  atomic = true: LoadOrCompute; atomic = false: Load, then create+Store *)
Definition cc_step (atomic : bool) (o : opts) (calls : list rl_arrival) (st : cc_state) (i : nat) : cc_state :=
  match nth_error calls i, nth_error (cc_pcs st) i with
  | Some (now, a, n), Some pc =>
      let k := mask_addr o a in
      let create := mkCc (cc_heap st ++ [None]) ((k, length (cc_heap st)) :: cc_tbl st)
                         (cc_set (cc_pcs st) i (CcHave (length (cc_heap st)))) in
      match pc with
      | CcStart =>
          match cc_find k (cc_tbl st) with
          | Some p => mkCc (cc_heap st) (cc_tbl st) (cc_set (cc_pcs st) i (CcHave p))
          | None => if atomic then create else mkCc (cc_heap st) (cc_tbl st) (cc_set (cc_pcs st) i CcMiss)
          end
      | CcMiss => create
      | CcHave p =>
          let r := allow_bucket (o_limit o) (o_burst o) (cc_cell o now (cc_heap st) p) now n in
          mkCc (cc_set (cc_heap st) p (Some (snd r))) (cc_tbl st) (cc_set (cc_pcs st) i (CcDone (fst r)))
      | CcDone _ => st
      end
  | _, _ => st
  end.

Definition cc_init (calls : list rl_arrival) : cc_state := mkCc [] [] (map (fun _ => CcStart) calls).

(* a schedule = the sequence of call indices that take a micro-step (any list: fair or not, complete or not) *)
Definition cc_run (atomic : bool) (o : opts) (calls : list rl_arrival) (sched : list nat) : cc_state :=
  fold_left (cc_step atomic o calls) sched (cc_init calls).

(* total (unscaled) cost granted so far to the calls of subnet key k *)
Fixpoint cc_granted (o : opts) (k : lim_addr) (calls : list rl_arrival) (pcs : list cc_pc) : Z :=
  match calls, pcs with
  | (_, a, n) :: cs, pc :: ps =>
      (match pc with CcDone true => if addr_eqb (mask_addr o a) k then n else 0 | _ => 0 end) + cc_granted o k cs ps
  | _, _ => 0
  end.

Definition cc_all_done (pcs : list cc_pc) : bool :=
  forallb (fun pc => match pc with CcDone _ => true | _ => false end) pcs.

(* all calls carry the same timestamp (a burst of simultaneous arrivals) *)
Definition cc_at (now : Z) (calls : list rl_arrival) : Prop := forall e, In e calls -> fst (fst e) = now.
