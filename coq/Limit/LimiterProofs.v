(* Limit/LimiterProofs.v — proofs about Limit/Limiter.v (C15). *)
From Mos Require Import Base.Prelude Limit.Limiter.
From Coq Require Import ZifyN ZifyNat ZifyBool.
Local Open Scope Z_scope.

(* ------------------------------------------------------------------ addresses *)

Lemma addr_eqb_eq x y : addr_eqb x y = true <-> x = y.
Proof.
  destruct x, y; cbn; split; intros H; try discriminate; try reflexivity.
  - apply N.eqb_eq in H. congruence.
  - inversion H. apply N.eqb_refl.
  - apply N.eqb_eq in H. congruence.
  - inversion H. apply N.eqb_refl.
Qed.

Lemma addr_eqb_refl x : addr_eqb x x = true.
Proof. apply addr_eqb_eq. reflexivity. Qed.

Lemma addr_eqb_sym x y : addr_eqb x y = addr_eqb y x.
Proof.
  destruct (addr_eqb x y) eqn:E; destruct (addr_eqb y x) eqn:F; auto.
  - apply addr_eqb_eq in E. subst. rewrite addr_eqb_refl in F. discriminate.
  - apply addr_eqb_eq in F. subst. rewrite addr_eqb_refl in E. discriminate.
Qed.

Lemma addr_eqb_neq x y : addr_eqb x y = false <-> x <> y.
Proof.
  split.
  - intros H E. subst. rewrite addr_eqb_refl in H. discriminate.
  - intros H. destruct (addr_eqb x y) eqn:E; auto. apply addr_eqb_eq in E. contradiction.
Qed.

(* ------------------------------------------------------------------ the table *)

Definition nodup_keys (t : lim_table) : Prop := NoDup (map fst t).

Lemma lookup_notin k t : ~ In k (map fst t) -> lim_lookup k t = None.
Proof.
  induction t as [|[k' b] t IH]; cbn; intros H; auto.
  destruct (addr_eqb k k') eqn:E.
  - apply addr_eqb_eq in E. subst. exfalso. apply H. auto.
  - apply IH. intros X. apply H. auto.
Qed.

Lemma in_keys_filter k (p : lim_addr * bucket -> bool) t :
  In k (map fst (filter p t)) -> In k (map fst t).
Proof.
  induction t as [|e t IH]; cbn; auto.
  destruct (p e); cbn; intuition.
Qed.

Lemma nodup_filter (p : lim_addr * bucket -> bool) t : nodup_keys t -> nodup_keys (filter p t).
Proof.
  unfold nodup_keys. induction t as [|e t IH]; cbn; intros H; auto.
  inversion H; subst. destruct (p e); cbn; auto.
  constructor; auto. intros X. apply in_keys_filter in X. contradiction.
Qed.

Lemma notin_remove k t : ~ In k (map fst (lim_remove k t)).
Proof.
  unfold lim_remove. induction t as [|[k' b] t IH]; cbn; auto.
  destruct (addr_eqb k k') eqn:E; cbn; auto.
  intros [X|X]; auto. subst. rewrite addr_eqb_refl in E. discriminate.
Qed.

Lemma lookup_remove_neq k k' t : k <> k' -> lim_lookup k' (lim_remove k t) = lim_lookup k' t.
Proof.
  intros N. unfold lim_remove. induction t as [|[k2 b] t IH]; cbn; auto.
  destruct (addr_eqb k k2) eqn:E; cbn.
  - apply addr_eqb_eq in E. subst k2.
    assert (addr_eqb k' k = false) as -> by (apply addr_eqb_neq; congruence). exact IH.
  - destruct (addr_eqb k' k2); auto.
Qed.

Lemma lookup_upsert_eq k b t : lim_lookup k (lim_upsert k b t) = Some b.
Proof. unfold lim_upsert. cbn. now rewrite addr_eqb_refl. Qed.

Lemma lookup_upsert_neq k k' b t : k <> k' -> lim_lookup k' (lim_upsert k b t) = lim_lookup k' t.
Proof.
  intros N. unfold lim_upsert. cbn.
  assert (addr_eqb k' k = false) as -> by (apply addr_eqb_neq; congruence).
  now apply lookup_remove_neq.
Qed.

Lemma nodup_upsert k b t : nodup_keys t -> nodup_keys (lim_upsert k b t).
Proof.
  intros H. unfold lim_upsert, nodup_keys. cbn. constructor.
  - apply notin_remove.
  - apply (nodup_filter _ _ H).
Qed.

Definition gc_bucket (o : opts) (now : Z) (s : option bucket) : option bucket :=
  match s with Some b => if lim_collect o now b then None else Some b | None => None end.

Lemma lookup_gc k o now t : nodup_keys t -> lim_lookup k (lim_gc o now t) = gc_bucket o now (lim_lookup k t).
Proof.
  unfold lim_gc, nodup_keys. induction t as [|[k' b] t IH]; cbn; intros H; auto.
  inversion H; subst. cbn in *.
  destruct (lim_collect o now b) eqn:X; cbn.
  - destruct (addr_eqb k k') eqn:E.
    + apply addr_eqb_eq in E. subst k'. cbn. rewrite X.
      apply lookup_notin. intros Y. apply in_keys_filter in Y. contradiction.
    + auto.
  - destruct (addr_eqb k k') eqn:E; cbn; [now rewrite X | auto].
Qed.

(* ------------------------------------------------------------------ the view of one key *)

(* what one event does to the bucket of key k (None = no entry) *)
Definition kstep (o : opts) (k : lim_addr) (s : option bucket) (e : lev) : option bucket * option bool :=
  match e with
  | EvAllow now a n =>
      if addr_eqb (mask_addr o a) k then
        let r := allow_bucket (o_limit o) (o_burst o)
                   (match s with Some b => b | None => lim_fresh (o_burst o) now end) now n in
        (Some (snd r), Some (fst r))
      else (s, None)
  | EvGc now => (gc_bucket o now s, None)
  end.

Lemma step_nodup o t e : nodup_keys t -> nodup_keys (fst (lim_step o t e)).
Proof.
  intros H. destruct e; cbn.
  - now apply nodup_upsert.
  - now apply nodup_filter.
Qed.

Lemma step_lookup o k t e : nodup_keys t ->
  lim_lookup k (fst (lim_step o t e)) = fst (kstep o k (lim_lookup k t) e).
Proof.
  intros H. destruct e as [now a n|now]; cbn [lim_step kstep fst snd].
  - destruct (addr_eqb (mask_addr o a) k) eqn:E; cbn [fst snd].
    + apply addr_eqb_eq in E. subst k. rewrite lookup_upsert_eq. reflexivity.
    + apply addr_eqb_neq in E. now rewrite lookup_upsert_neq.
  - now apply lookup_gc.
Qed.

Lemma step_decision o k t e : touches o k e = true ->
  snd (lim_step o t e) = snd (kstep o k (lim_lookup k t) e).
Proof.
  destruct e as [now a n|now]; cbn; intros H; auto.
  rewrite H. apply addr_eqb_eq in H. subst k. reflexivity.
Qed.

Lemma kstep_untouched o k s e : touches o k e = false -> kstep o k s e = (s, None).
Proof. destruct e; cbn; intros H; [now rewrite H | discriminate]. Qed.

(* decisions for key k computed on its own bucket only *)
Fixpoint kdec (o : opts) (k : lim_addr) (s : option bucket) (h : list lev) : list bool :=
  match h with
  | [] => []
  | e :: h' =>
      match e, snd (kstep o k s e) with
      | EvAllow _ _ _, Some b => b :: kdec o k (fst (kstep o k s e)) h'
      | _, _ => kdec o k (fst (kstep o k s e)) h'
      end
  end.

Lemma decisions_for_kdec o k h : forall t, nodup_keys t ->
  lim_decisions_for o k h (lim_decisions o t h) = kdec o k (lim_lookup k t) h.
Proof.
  induction h as [|e h IH]; intros t H; cbn [lim_decisions lim_decisions_for kdec]; auto.
  rewrite (IH _ (step_nodup o t e H)), (step_lookup o k t e H).
  destruct e as [now a n|now].
  - destruct (addr_eqb (mask_addr o a) k) eqn:E.
    + rewrite (step_decision o k t (EvAllow now a n)) by exact E.
      cbn [kstep]. rewrite E. cbn [fst snd]. reflexivity.
    + rewrite (kstep_untouched o k _ (EvAllow now a n)) by exact E. cbn [fst snd].
      cbn [lim_step snd]. reflexivity.
  - reflexivity.
Qed.

Lemma kdec_filter o k h : forall s, kdec o k s h = kdec o k s (filter (touches o k) h).
Proof.
  induction h as [|e h IH]; intros s; cbn [filter]; auto.
  destruct (touches o k e) eqn:T.
  - cbn [kdec]. rewrite !IH. reflexivity.
  - pose proof (kstep_untouched o k s e T) as U.
    destruct e as [now a n|now]; cbn [kdec]; rewrite U; cbn [fst snd]; apply IH.
Qed.

Lemma nodup_nil : nodup_keys [].
Proof. constructor. Qed.

(* no interference: the decisions taken for key k depend only on k's own arrivals (and collector runs) *)
Lemma isolation o k h :
  lim_decisions_for o k h (lim_decisions o [] h) =
  lim_decisions_for o k (filter (touches o k) h) (lim_decisions o [] (filter (touches o k) h)).
Proof.
  rewrite !decisions_for_kdec by apply nodup_nil. apply kdec_filter.
Qed.

(* the bucket of key k after a history depends only on k's own arrivals *)
Lemma final_lookup o k h : forall t, nodup_keys t ->
  lim_lookup k (lim_final o t h) = fold_left (fun s e => fst (kstep o k s e)) h (lim_lookup k t).
Proof.
  induction h as [|e h IH]; intros t H; cbn; auto.
  rewrite (IH _ (step_nodup o t e H)), (step_lookup o k t e H). reflexivity.
Qed.

(* ------------------------------------------------------------------ the window bound *)

(* granted cost of key k in the window, computed on its own bucket *)
Definition gainw (o : opts) (k : lim_addr) (t0 t1 : Z) (s : option bucket) (e : lev) : Z :=
  match e, snd (kstep o k s e) with
  | EvAllow t a n, Some true => if (t0 <=? t) && (t <=? t1) then n else 0
  | _, _ => 0
  end.

Fixpoint kadm (o : opts) (k : lim_addr) (t0 t1 : Z) (s : option bucket) (h : list lev) : Z :=
  match h with
  | [] => 0
  | e :: h' => gainw o k t0 t1 s e + kadm o k t0 t1 (fst (kstep o k s e)) h'
  end.

Lemma granted_kadm o k t0 t1 h : forall t, nodup_keys t ->
  lim_granted o k t0 t1 h (lim_decisions o t h) = kadm o k t0 t1 (lim_lookup k t) h.
Proof.
  induction h as [|e h IH]; intros t H; cbn [lim_decisions lim_granted kadm]; auto.
  rewrite (IH _ (step_nodup o t e H)), (step_lookup o k t e H). f_equal.
  unfold gainw.
  destruct e as [now a n|now]; [|reflexivity].
  destruct (addr_eqb (mask_addr o a) k) eqn:E.
  - rewrite (step_decision o k t (EvAllow now a n)) by exact E.
    destruct (snd _) as [[|]|]; cbn [andb]; auto.
  - rewrite (kstep_untouched o k _ (EvAllow now a n)) by exact E. cbn [snd lim_step andb].
    destruct (fst _); reflexivity.
Qed.

Section Bound.
  Variable o : opts.
  Variable k : lim_addr.
  Let rate := o_limit o.
  Let burst := o_burst o.
  Hypothesis Hrate : 0 < rate.
  Hypothesis Hburst : 0 <= burst.

  (* tokens (scaled) the bucket would hold at time tau >= last *)
  Definition capb (b : bucket) (tau : Z) : Z := Z.min (burst * SCALE) (b_tok b + rate * (tau - b_last b)).
  Definition cap (s : option bucket) (tau : Z) : Z :=
    match s with Some b => capb b tau | None => burst * SCALE end.

  Definition wfb (b : bucket) (tau : Z) : Prop := b_last b <= b_seen b /\ b_seen b <= tau /\ - rate < b_tok b.
  Definition wf (s : option bucket) (tau : Z) : Prop :=
    match s with Some b => wfb b tau | None => True end.

  Lemma wf_mono s tau tau' : wf s tau -> tau <= tau' -> wf s tau'.
  Proof. destruct s; cbn; auto. unfold wfb. lia. Qed.

  Lemma capb_mono b tau tau' : tau <= tau' -> capb b tau' <= capb b tau + rate * (tau' - tau).
  Proof.
    intros H. unfold capb.
    assert (0 <= rate * (tau' - tau)) by (apply Z.mul_nonneg_nonneg; lia).
    lia.
  Qed.

  Lemma cap_mono s tau tau' : tau <= tau' -> cap s tau' <= cap s tau + rate * (tau' - tau).
  Proof.
    intros H. destruct s; cbn; [now apply capb_mono|].
    assert (0 <= rate * (tau' - tau)) by (apply Z.mul_nonneg_nonneg; lia). lia.
  Qed.

  Lemma cap_le_burst s tau : cap s tau <= burst * SCALE.
  Proof. destruct s; cbn; unfold capb; lia. Qed.

  Lemma cap_gt s tau : wf s tau -> - rate < cap s tau.
  Proof.
    destruct s as [b|]; cbn.
    - unfold wfb, capb. intros (A & B & C).
      assert (0 <= rate * (tau - b_last b)) by (apply Z.mul_nonneg_nonneg; lia).
      unfold SCALE. lia.
    - unfold SCALE. lia.
  Qed.

  (* one call of AllowN at time now >= last *)
  Lemma allow_capb b now n :
    b_last b <= b_seen b -> b_seen b <= now -> - rate < b_tok b ->
    let r := allow_bucket rate burst b now n in
    wfb (snd r) now /\
    (if fst r then n * SCALE else 0) + capb (snd r) now <= capb b now.
  Proof.
    intros A B C. unfold allow_bucket, lim_margin, lim_advance.
    assert (now <? b_last b = false) as -> by lia.
    fold (capb b now).
    destruct ((n <=? burst) && (0 <? capb b now - n * SCALE + rate)) eqn:E; cbn [fst snd].
    - split.
      + unfold wfb; cbn. lia.
      + unfold capb at 1. cbn [b_tok b_last]. lia.
    - split.
      + unfold wfb; cbn. lia.
      + unfold capb. cbn [b_tok b_last]. lia.
  Qed.

  Definition gain (s : option bucket) (e : lev) : Z :=
    match e, snd (kstep o k s e) with
    | EvAllow _ _ n, Some true => n
    | _, _ => 0
    end.

  Definition is_gc (e : lev) : bool := match e with EvGc _ => true | _ => false end.

  (* one event, seen from key k *)
  Lemma kstep_cap s e tau :
    wf s tau -> tau <= ev_time e ->
    wf (fst (kstep o k s e)) (ev_time e) /\
    gain s e * SCALE + cap (fst (kstep o k s e)) (ev_time e) <= cap s tau + rate * (ev_time e - tau).
  Proof.
    intros W T. destruct e as [now a n|now]; unfold gain; cbn [kstep ev_time] in *.
    - destruct (addr_eqb (mask_addr o a) k) eqn:E; cbn [fst snd].
      + destruct s as [b|].
        * cbn in W. destruct W as (A & B & C).
          pose proof (allow_capb b now n A ltac:(lia) C) as [W1 W2]. cbn zeta in W1, W2.
          fold rate burst.
          split; [exact W1|].
          pose proof (cap_mono (Some b) tau now T) as M. cbn [cap] in *.
          destruct (fst (allow_bucket rate burst b now n)); lia.
        * pose proof (allow_capb (lim_fresh burst now) now n) as X. cbn [lim_fresh b_last b_seen b_tok] in X.
          specialize (X ltac:(lia) ltac:(lia) ltac:(unfold SCALE; lia)). destruct X as [W1 W2].
          cbn zeta in W1, W2. fold rate burst.
          split; [exact W1|].
          assert (capb (lim_fresh burst now) now <= burst * SCALE) by (unfold capb; lia).
          assert (0 <= rate * (now - tau)) by (apply Z.mul_nonneg_nonneg; lia).
          cbn [cap]. destruct (fst (allow_bucket rate burst (lim_fresh burst now) now n)); lia.
      + split; [eapply wf_mono; eauto|].
        pose proof (cap_mono s tau now T). lia.
    - cbn [fst snd].
      destruct s as [b|]; cbn [gc_bucket].
      + destruct (lim_collect o now b) eqn:X.
        * (* collected: the bucket is full at now, so nothing is lost *)
          split; [exact I|]. cbn [cap].
          unfold lim_collect, lim_full, lim_advance in X. fold rate burst in X.
          cbn in W. destruct W as (A & B & C).
          assert (now <? b_last b = false) as E by lia. rewrite E in X.
          unfold capb.
          assert (0 <= rate * (now - tau)) by (apply Z.mul_nonneg_nonneg; lia).
          assert (rate * (now - b_last b) = rate * (tau - b_last b) + rate * (now - tau)) by lia.
          lia.
        * split; [eapply wf_mono; eauto|].
          pose proof (cap_mono (Some b) tau now T). lia.
      + split; [exact I|]. cbn [cap].
        assert (0 <= rate * (now - tau)) by (apply Z.mul_nonneg_nonneg; lia). lia.
  Qed.

  Variables t0 t1 : Z.

  Lemma gainw_in s e : t0 <= ev_time e -> ev_time e <= t1 -> gainw o k t0 t1 s e = gain s e.
  Proof.
    unfold gainw, gain. destruct e as [now a n|now]; [|reflexivity]. cbn [ev_time]. intros A B.
    destruct (snd _) as [[|]|]; auto.
    assert ((t0 <=? now) && (now <=? t1) = true) as -> by lia. reflexivity.
  Qed.

  Lemma gainw_out s e : ev_time e < t0 \/ t1 < ev_time e -> gainw o k t0 t1 s e = 0.
  Proof.
    unfold gainw. destruct e as [now a n|now]; [|reflexivity]. cbn [ev_time]. intros A.
    destruct (snd _) as [[|]|]; auto.
    assert ((t0 <=? now) && (now <=? t1) = false) as -> by lia. reflexivity.
  Qed.

  (* events after the window contribute nothing *)
  Lemma kadm_after h : forall s tau, lim_sorted_from tau h = true -> t1 < tau -> kadm o k t0 t1 s h = 0.
  Proof.
    induction h as [|e h IH]; intros s tau S T; cbn [kadm]; auto.
    cbn in S. apply andb_true_iff in S. destruct S as [S1 S2].
    rewrite (IH _ (ev_time e)) by (auto; lia).
    rewrite gainw_out by lia. reflexivity.
  Qed.

  (* inside the window *)
  Lemma kadm_window h : forall s tau,
    lim_sorted_from tau h = true -> t0 <= tau -> tau <= t1 -> wf s tau ->
    kadm o k t0 t1 s h * SCALE <= cap s tau + rate * (t1 - tau) + (rate - 1).
  Proof.
    induction h as [|e h IH]; intros s tau S T0 T1 W.
    - cbn [kadm]. pose proof (cap_gt s tau W).
      assert (0 <= rate * (t1 - tau)) by (apply Z.mul_nonneg_nonneg; lia). lia.
    - pose proof S as S'. cbn in S. apply andb_true_iff in S. destruct S as [S1 S2].
      destruct (Z_lt_le_dec t1 (ev_time e)) as [L|L].
      + rewrite (kadm_after (e :: h) s (ev_time e)); [| |exact L].
        * pose proof (cap_gt s tau W).
          assert (0 <= rate * (t1 - tau)) by (apply Z.mul_nonneg_nonneg; lia). lia.
        * cbn. rewrite S2. rewrite Z.leb_refl. reflexivity.
      + assert (tau <= ev_time e) as T by lia.
        destruct (kstep_cap s e tau W T) as [W1 C1].
        specialize (IH (fst (kstep o k s e)) (ev_time e) S2 ltac:(lia) L W1).
        cbn [kadm].
        rewrite gainw_in by lia.
        assert (rate * (t1 - tau) = rate * (ev_time e - tau) + rate * (t1 - ev_time e)) by lia.
        lia.
  Qed.

  (* the whole history: events before the window only move the state *)
  Lemma kadm_bound h : forall s tau,
    lim_sorted_from tau h = true -> wf s tau -> t0 <= t1 ->
    kadm o k t0 t1 s h * SCALE <= burst * SCALE + rate * (t1 - t0) + (rate - 1).
  Proof.
    induction h as [|e h IH]; intros s tau S W T01.
    - cbn [kadm]. assert (0 <= rate * (t1 - t0)) by (apply Z.mul_nonneg_nonneg; lia).
      unfold SCALE. lia.
    - pose proof S as S'. cbn in S. apply andb_true_iff in S. destruct S as [S1 S2].
      assert (tau <= ev_time e) as T by lia.
      destruct (Z_lt_le_dec (ev_time e) t0) as [L|L].
      + (* before the window *)
        destruct (kstep_cap s e tau W T) as [W1 _].
        specialize (IH (fst (kstep o k s e)) (ev_time e) S2 W1 T01).
        cbn [kadm].
        rewrite gainw_out by lia.
        lia.
      + destruct (Z_lt_le_dec t1 (ev_time e)) as [L1|L1].
        * rewrite (kadm_after (e :: h) s (ev_time e)); [| |exact L1].
          -- assert (0 <= rate * (t1 - t0)) by (apply Z.mul_nonneg_nonneg; lia). unfold SCALE. lia.
          -- cbn. rewrite S2. rewrite Z.leb_refl. reflexivity.
        * assert (lim_sorted_from (ev_time e) (e :: h) = true) as S3.
          { cbn. rewrite S2. rewrite Z.leb_refl. reflexivity. }
          pose proof (kadm_window (e :: h) s (ev_time e) S3 L L1 (wf_mono _ _ _ W T)) as B.
          pose proof (cap_le_burst s (ev_time e)).
          assert (rate * (t1 - ev_time e) <= rate * (t1 - t0)) by (apply Z.mul_le_mono_nonneg_l; lia).
          lia.
  Qed.
End Bound.

Lemma sorted_sorted_from h : lim_sorted h = true ->
  match h with [] => True | e :: _ => lim_sorted_from (ev_time e) h = true end.
Proof.
  destruct h as [|e h]; cbn; auto. intros H. rewrite H, Z.leb_refl. reflexivity.
Qed.

(* C15 window bound, for histories (arrivals and collector runs) from the empty table *)
Lemma bound_general o k t0 t1 h :
  0 < o_limit o -> 0 <= o_burst o -> lim_sorted h = true -> t0 <= t1 ->
  lim_granted o k t0 t1 h (lim_decisions o [] h) * SCALE
    <= o_burst o * SCALE + o_limit o * (t1 - t0) + (o_limit o - 1).
Proof.
  intros R B S T.
  rewrite granted_kadm by apply nodup_nil. cbn [lim_lookup].
  destruct h as [|e h].
  - cbn. assert (0 <= o_limit o * (t1 - t0)) by (apply Z.mul_nonneg_nonneg; lia). unfold SCALE. lia.
  - apply (kadm_bound o k R B t0 t1 (e :: h) None (ev_time e)); auto.
    + apply (sorted_sorted_from (e :: h) S).
    + exact I.
Qed.

(* ------------------------------------------------------------------ defaults and masking *)

Lemma default_masks_omitted l b : 
  o_v4 (set_default (mkOpts l b 0 0)) = 24 /\ o_v6 (set_default (mkOpts l b 0 0)) = 48.
Proof. split; reflexivity. Qed.

Lemma default_v4 o :
  o_v4 (set_default o) = if (o_v4 o <=? 0) || (32 <? o_v4 o) then 24 else o_v4 o.
Proof. reflexivity. Qed.

Lemma default_v6 o :
  o_v6 (set_default o) = if (o_v6 o <=? 0) || (128 <? o_v6 o) then 48 else o_v6 o.
Proof. reflexivity. Qed.

Lemma default_burst o : o_burst o <= 0 -> o_burst (set_default o) = o_limit (set_default o).
Proof. intros H. unfold set_default. cbn. assert (o_burst o <=? 0 = true) as -> by lia. reflexivity. Qed.

Lemma default_keeps o :
  0 < o_limit o -> 0 < o_burst o -> 1 <= o_v4 o <= 32 -> 1 <= o_v6 o <= 128 -> set_default o = o.
Proof.
  intros A B C D. unfold set_default. destruct o as [l b v4 v6]. cbn in *.
  assert (l <=? 0 = false) as -> by lia. assert (b <=? 0 = false) as -> by lia.
  assert ((v4 <=? 0) || (32 <? v4) = false) as -> by lia.
  assert ((v6 <=? 0) || (128 <? v6) = false) as -> by lia. reflexivity.
Qed.

Lemma default_wf o :
  let d := set_default o in
  0 < o_limit d /\ 0 < o_burst d /\ 1 <= o_v4 d <= 32 /\ 1 <= o_v6 d <= 128.
Proof.
  unfold set_default. cbn.
  destruct (o_limit o <=? 0) eqn:A; destruct (o_burst o <=? 0) eqn:B;
  destruct ((o_v4 o <=? 0) || (32 <? o_v4 o)) eqn:C; destruct ((o_v6 o <=? 0) || (128 <? o_v6 o)) eqn:D; lia.
Qed.

Lemma mask_bits_spec w bits x : mask_bits w bits x = (x / 2 ^ (w - bits) * 2 ^ (w - bits))%N.
Proof. unfold mask_bits. cbv zeta. now rewrite N.shiftl_mul_pow2, N.shiftr_div_pow2. Qed.

Lemma unmap_spec x :
  lim_unmap (LA6 x) = if (x / two32 =? 65535)%N then LA4 (x mod two32)%N else LA6 x.
Proof.
  unfold lim_unmap. rewrite N.shiftr_div_pow2. change (2 ^ 32)%N with two32.
  change 4294967295%N with (N.ones 32). rewrite N.land_ones. reflexivity.
Qed.

(* a v4-mapped IPv6 address ::ffff:a.b.c.d is charged to the bucket of a.b.c.d *)
Lemma mask_mapped o x : (x < two32)%N -> mask_addr o (LA6 (65535 * two32 + x)) = mask_addr o (LA4 x).
Proof.
  intros H. unfold mask_addr. rewrite unmap_spec.
  assert (((65535 * two32 + x) / two32 =? 65535)%N = true) as ->.
  { apply N.eqb_eq. unfold two32 in *. lia. }
  assert (((65535 * two32 + x) mod two32)%N = x) as ->.
  { unfold two32 in *. lia. }
  reflexivity.
Qed.

Lemma mask_v4_24 o x : o_v4 o = 24 -> mask_addr o (LA4 x) = LA4 (x / 256 * 256)%N.
Proof.
  intros H. unfold mask_addr, lim_unmap, prefix_addr4. rewrite H. cbn [Z.leb Z.compare andb Pos.compare Pos.compare_cont].
  rewrite mask_bits_spec. reflexivity.
Qed.

Lemma mask_v6_48 o x : o_v6 o = 48 -> (x / two32 <> 65535)%N ->
  mask_addr o (LA6 x) = LA6 (x / 2 ^ 80 * 2 ^ 80)%N.
Proof.
  intros H M. unfold mask_addr. rewrite unmap_spec.
  assert ((x / two32 =? 65535)%N = false) as -> by (apply N.eqb_neq; exact M).
  unfold prefix_addr6. rewrite H. cbn [Z.leb Z.compare andb Pos.compare Pos.compare_cont].
  rewrite mask_bits_spec. reflexivity.
Qed.

(* two addresses of one family share a bucket iff they agree on the first [bits] bits *)
Lemma mask_bits_eq w bits x y :
  mask_bits w bits x = mask_bits w bits y <-> (x / 2 ^ (w - bits) = y / 2 ^ (w - bits))%N.
Proof.
  rewrite !mask_bits_spec. split; intros H; [|now rewrite H].
  assert (2 ^ (w - bits) <> 0)%N as P by (apply N.pow_nonzero; discriminate).
  apply N.mul_cancel_r in H; auto.
Qed.

(* ------------------------------------------------------------------ acceptance rule *)

Lemma forwards_refusal l : forwards (refusal l) = false.
Proof. destruct l; reflexivity. Qed.

(* a query the limiter refuses gets the lim_listener's refusal reply; nothing is forwarded and the
   limiter is not charged any further *)
Lemma refusal_rule r now l a hit c :
  query_cost l = Some c -> rl_is_ok (snd (rl_allow r now a c)) = false ->
  accept_query r now l a hit = (fst (rl_allow r now a c), refusal l).
Proof. intros Q H. unfold accept_query. rewrite Q, H. reflexivity. Qed.

Lemma answered_rule r now l a hit c :
  query_cost l = Some c -> rl_is_ok (snd (rl_allow r now a c)) = true ->
  snd (accept_query r now l a hit) = OAnswered.
Proof. intros Q H. unfold accept_query. rewrite Q, H. reflexivity. Qed.

(* without a global limit the acceptance decision is exactly the client limiter's decision for that address *)
Lemma rl_allow_client o t now a n : a <> LANone ->
  rl_allow (mkRl None (Some (o, t))) now a n =
  (mkRl None (Some (o, fst (lim_step o t (EvAllow now a n)))),
   match snd (lim_step o t (EvAllow now a n)) with Some false => RlClient | _ => RlOk end).
Proof. intros H. destruct a; [reflexivity|reflexivity|contradiction]. Qed.

(* ------------------------------------------------------------------ witnesses *)

(* Former finding K3 (repaired): burst 1000 > 60 * rate 1.  The client spends its burst at t = 0 and comes back just
   after one minute of silence.  The collector, running in between, used to drop the idle entry, and the client got
   a second full burst; now the entry is kept (its bucket has refilled only 60 of 1000 tokens) and the second
   arrival is refused, exactly as without the collector.  After 1000 s of silence the entry is full and is dropped. *)
Definition k3_opts : opts := mkOpts 1 1000 24 48.
Definition k3_client : lim_addr := LA4 3232235777%N.                       (* 192.168.1.1 *)
Definition k3_t : Z := 60 * SCALE + 1.
Definition k3_history : list lev :=
  [EvAllow 0 k3_client 1000; EvGc k3_t; EvAllow k3_t k3_client 1000].
Definition k3_key : lim_addr := mask_addr k3_opts k3_client.

Lemma k3_witness :
  lim_sorted k3_history = true /\ has_gc k3_history = true /\
  lim_decisions k3_opts [] k3_history = [Some true; None; Some false] /\
  bound_ok k3_opts k3_key 0 k3_t k3_history = true /\
  lim_decisions k3_opts [] [EvAllow 0 k3_client 1000; EvAllow k3_t k3_client 1000] = [Some true; Some false] /\
  lim_lookup k3_key (lim_final k3_opts [] [EvAllow 0 k3_client 1000; EvGc k3_t]) <> None /\
  lim_lookup k3_key (lim_final k3_opts [] [EvAllow 0 k3_client 1000; EvGc (1000 * SCALE)]) = None /\
  lim_decisions k3_opts [] [EvAllow 0 k3_client 1000; EvGc (1000 * SCALE); EvAllow (1000 * SCALE) k3_client 1000]
    = [Some true; None; Some true].
Proof. vm_compute. repeat split; try reflexivity. discriminate. Qed.

(* the one-nanosecond slack of the bound is attained: rate 3/s, burst 1; after 333 333 333 ns the bucket
   holds 0.999999999 token and x/time/rate grants (the wait would be 1/3 ns, truncated to 0) *)
Definition slack_opts : opts := mkOpts 3 1 24 48.
Definition slack_history : list lev := [EvAllow 0 k3_client 1; EvAllow 333333333 k3_client 1].
Lemma slack_witness :
  lim_decisions slack_opts [] slack_history = [Some true; Some true] /\
  lim_granted slack_opts (mask_addr slack_opts k3_client) 0 333333333 slack_history (lim_decisions slack_opts [] slack_history) * SCALE
    = o_burst slack_opts * SCALE + o_limit slack_opts * (333333333 - 0) + 1.
Proof. vm_compute. auto. Qed.

(* ------------------------------------------------------------------ the router's configuration mapping *)

Lemma cfg_mask4_range c : 1 <= cfg_mask4 c <= 32.
Proof. unfold cfg_mask4. destruct ((1 <=? lc_v4 c) && (lc_v4 c <=? 32)) eqn:E; lia. Qed.

Lemma cfg_mask6_range c : 1 <= cfg_mask6 c <= 128.
Proof. unfold cfg_mask6. destruct ((1 <=? lc_v6 c) && (lc_v6 c <=? 128)) eqn:E; lia. Qed.

(* the effective options of the router's client limiter: rate and burst as configured (burst omitted = rate),
   the v4 mask from v4_mask, the v6 mask from v6_mask, /24 and /48 when omitted or out of range *)
Lemma config_opts c : 0 < lc_limit c ->
  cfg_client c = Some (mkOpts (lc_limit c) (if lc_burst c <=? 0 then lc_limit c else lc_burst c)
                              (cfg_mask4 c) (cfg_mask6 c)).
Proof.
  intros H. unfold cfg_client, init_client, cfg_opts, set_default, cfg_mask4, cfg_mask6. cbn [o_limit o_burst o_v4 o_v6].
  assert (0 <? lc_limit c = true) as -> by lia.
  assert (lc_limit c <=? 0 = false) as -> by lia.
  f_equal. f_equal.
  - destruct ((lc_v4 c <=? 0) || (32 <? lc_v4 c)) eqn:A; destruct ((1 <=? lc_v4 c) && (lc_v4 c <=? 32)) eqn:B; lia.
  - destruct ((lc_v6 c <=? 0) || (128 <? lc_v6 c)) eqn:A; destruct ((1 <=? lc_v6 c) && (lc_v6 c <=? 128)) eqn:B; lia.
Qed.

Lemma config_no_client c : lc_limit c <= 0 -> cfg_client c = None.
Proof. intros H. unfold cfg_client, init_client, cfg_opts. cbn. assert (0 <? lc_limit c = false) as -> by lia. reflexivity. Qed.

Lemma config_client_default c o : cfg_client c = Some o -> o = set_default (cfg_opts c).
Proof. unfold cfg_client, init_client. destruct (0 <? o_limit (cfg_opts c)); congruence. Qed.

(* masking with the effective options = truncation to the configured mask of the address's family *)
Lemma config_mask c o a : o_v4 o = cfg_mask4 c -> o_v6 o = cfg_mask6 c -> mask_addr o a = cfg_subnet c a.
Proof.
  intros A B. unfold mask_addr, cfg_subnet. destruct (lim_unmap a) as [x|x|]; auto.
  - unfold prefix_addr4. rewrite A. pose proof (cfg_mask4_range c).
    assert ((0 <=? cfg_mask4 c) && (cfg_mask4 c <=? 32) = true) as -> by lia.
    now rewrite mask_bits_spec.
  - unfold prefix_addr6. rewrite B. pose proof (cfg_mask6_range c).
    assert ((0 <=? cfg_mask6 c) && (cfg_mask6 c <=? 128) = true) as -> by lia.
    now rewrite mask_bits_spec.
Qed.

Lemma config_key c a : 0 < lc_limit c -> cfg_key c a = Some (cfg_subnet c a).
Proof.
  intros H. unfold cfg_key. rewrite (config_opts c H). f_equal. now apply config_mask.
Qed.

Lemma config_client_mask c o a : cfg_client c = Some o -> mask_addr o a = cfg_subnet c a.
Proof.
  intros H. destruct (Z_lt_le_dec 0 (lc_limit c)) as [L|L].
  - rewrite (config_opts c L) in H. inversion H; subst o. now apply config_mask.
  - rewrite (config_no_client c L) in H. discriminate.
Qed.

(* a client's subnet depends on the configured mask of its own family only *)
Lemma config_subnet_v4 c c' x : lc_v4 c = lc_v4 c' -> cfg_subnet c (LA4 x) = cfg_subnet c' (LA4 x).
Proof. intros H. unfold cfg_subnet, cfg_mask4. cbn [lim_unmap]. now rewrite H. Qed.

Lemma config_subnet_v6 c c' x : lc_v6 c = lc_v6 c' -> (x / two32 <> 65535)%N ->
  cfg_subnet c (LA6 x) = cfg_subnet c' (LA6 x).
Proof.
  intros H M. unfold cfg_subnet, cfg_mask6. rewrite unmap_spec.
  assert ((x / two32 =? 65535)%N = false) as -> by (apply N.eqb_neq; exact M). now rewrite H.
Qed.

Lemma config_subnet_mapped c x : (x < two32)%N -> cfg_subnet c (LA6 (65535 * two32 + x)) = cfg_subnet c (LA4 x).
Proof.
  intros H. unfold cfg_subnet. rewrite unmap_spec.
  assert (((65535 * two32 + x) / two32 =? 65535)%N = true) as ->.
  { apply N.eqb_eq. unfold two32 in *. lia. }
  assert (((65535 * two32 + x) mod two32)%N = x) as ->.
  { unfold two32 in *. lia. }
  reflexivity.
Qed.

Lemma trunc_eq (s x y : N) : (x / 2 ^ s * 2 ^ s = y / 2 ^ s * 2 ^ s <-> x / 2 ^ s = y / 2 ^ s)%N.
Proof.
  split; intros H; [|now rewrite H].
  assert (2 ^ s <> 0)%N as P by (apply N.pow_nonzero; discriminate).
  apply N.mul_cancel_r in H; auto.
Qed.

(* two clients of one family share a subnet iff they agree on the first <configured mask of that family> bits *)
Lemma config_same_v4 c x y :
  cfg_subnet c (LA4 x) = cfg_subnet c (LA4 y) <->
  (x / 2 ^ (32 - Z.to_N (cfg_mask4 c)) = y / 2 ^ (32 - Z.to_N (cfg_mask4 c)))%N.
Proof.
  unfold cfg_subnet. cbn [lim_unmap]. rewrite <- trunc_eq. split; intros H; [now inversion H|now rewrite H].
Qed.

Lemma config_same_v6 c x y : (x / two32 <> 65535)%N -> (y / two32 <> 65535)%N ->
  cfg_subnet c (LA6 x) = cfg_subnet c (LA6 y) <->
  (x / 2 ^ (128 - Z.to_N (cfg_mask6 c)) = y / 2 ^ (128 - Z.to_N (cfg_mask6 c)))%N.
Proof.
  intros A B. unfold cfg_subnet. rewrite !unmap_spec.
  assert ((x / two32 =? 65535)%N = false) as -> by (apply N.eqb_neq; exact A).
  assert ((y / two32 =? 65535)%N = false) as -> by (apply N.eqb_neq; exact B).
  rewrite <- trunc_eq. split; intros H; [now inversion H|now rewrite H].
Qed.

(* ---- the composed system: router.limiterAllowN over the limiter built from a configuration ---- *)


(* results for key k computed on its own bucket only *)
Fixpoint rl_kres (o : opts) (k : lim_addr) (s : option bucket) (h : list rl_arrival) : list rl_res :=
  match h with
  | [] => []
  | (now, a, n) :: h' =>
      if addr_eqb (mask_addr o a) k then
        match a with
        | LANone => RlOk :: rl_kres o k s h'
        | _ => rl_conv (snd (kstep o k s (EvAllow now a n))) :: rl_kres o k (fst (kstep o k s (EvAllow now a n))) h'
        end
      else rl_kres o k s h'
  end.

Lemma rl_results_kres c o k h : (forall a, mask_addr o a = cfg_subnet c a) ->
  forall t, nodup_keys t ->
  rl_results_for c k h (rl_decisions (mkRl None (Some (o, t))) h) = rl_kres o k (lim_lookup k t) h.
Proof.
  intros M. induction h as [|[[now a] n] h IH]; intros t H; cbn [rl_decisions rl_results_for rl_kres]; auto.
  rewrite <- M.
  destruct a as [x|x|].
  - rewrite rl_allow_client by discriminate. cbn [fst snd].
    rewrite (IH _ (step_nodup o t _ H)), (step_lookup o k t _ H).
    destruct (addr_eqb (mask_addr o (LA4 x)) k) eqn:E.
    + rewrite (step_decision o k t (EvAllow now (LA4 x) n)) by exact E. reflexivity.
    + rewrite (kstep_untouched o k _ (EvAllow now (LA4 x) n)) by exact E. reflexivity.
  - rewrite rl_allow_client by discriminate. cbn [fst snd].
    rewrite (IH _ (step_nodup o t _ H)), (step_lookup o k t _ H).
    destruct (addr_eqb (mask_addr o (LA6 x)) k) eqn:E.
    + rewrite (step_decision o k t (EvAllow now (LA6 x) n)) by exact E. reflexivity.
    + rewrite (kstep_untouched o k _ (EvAllow now (LA6 x) n)) by exact E. reflexivity.
  - cbn [rl_allow fst snd]. rewrite (IH _ H). reflexivity.
Qed.

Lemma rl_kres_filter o k h : forall s,
  rl_kres o k s h = rl_kres o k s (filter (fun e : rl_arrival => addr_eqb (mask_addr o (snd (fst e))) k) h).
Proof.
  induction h as [|[[now a] n] h IH]; intros s; cbn [filter rl_kres fst snd]; auto.
  destruct (addr_eqb (mask_addr o a) k) eqn:E.
  - cbn [rl_kres]. rewrite E. destruct a; rewrite <- !IH; reflexivity.
  - apply IH.
Qed.

Lemma rl_of_config_client c t0 : lc_global c <= 0 -> 0 < lc_limit c ->
  rl_of_config c t0 = mkRl None (Some (set_default (cfg_opts c), [])).
Proof.
  intros G L. unfold rl_of_config, rl_init, init_client, cfg_opts. cbn [o_limit].
  assert (0 <? lc_global c = false) as -> by lia.
  assert (0 <? lc_limit c = true) as -> by lia. reflexivity.
Qed.

(* isolation for the router's limiter as configured (no global limit): what the clients of subnet k are told
   depends only on the arrivals from subnet k, subnets being the property's (configured mask of the family) *)
Lemma config_isolation c k t0 h : lc_global c <= 0 -> 0 < lc_limit c ->
  rl_results_for c k h (rl_decisions (rl_of_config c t0) h) =
  rl_results_for c k (filter (rl_from_subnet c k) h) (rl_decisions (rl_of_config c t0) (filter (rl_from_subnet c k) h)).
Proof.
  intros G L. rewrite (rl_of_config_client c t0 G L).
  assert (forall a, mask_addr (set_default (cfg_opts c)) a = cfg_subnet c a) as M.
  { intros a. apply config_client_mask. unfold cfg_client, init_client, cfg_opts. cbn [o_limit].
    assert (0 <? lc_limit c = true) as -> by lia. reflexivity. }
  rewrite !(rl_results_kres c _ k _ M) by apply nodup_nil.
  rewrite rl_kres_filter.
  f_equal. apply filter_ext. intros [[now a] n]. unfold rl_from_subnet. cbn [fst snd]. now rewrite M.
Qed.

(* the window bound for the limiter as configured *)
Lemma config_bound c o k t0 t1 h : cfg_client c = Some o ->
  lim_sorted h = true -> t0 <= t1 ->
  lim_granted o k t0 t1 h (lim_decisions o [] h) * SCALE
    <= o_burst o * SCALE + o_limit o * (t1 - t0) + (o_limit o - 1).
Proof.
  intros C S T. apply config_client_default in C. subst o.
  pose proof (default_wf (cfg_opts c)) as W. cbn zeta in W.
  apply bound_general; auto; lia.
Qed.

(* ------------------------------------------------------------------ the collector is unobservable *)

Definition not_gc (e : lev) : bool := match e with EvGc _ => false | _ => true end.

Section GcUnobservable.
  Variable o : opts.
  Variable k : lim_addr.
  Hypothesis Hrate : 0 < o_limit o.
  Hypothesis Hburst : 0 <= o_burst o.

  (* two states of key k that no future arrival can tell apart: the same tokens at every later time *)
  Definition eqv (tau : Z) (s s' : option bucket) : Prop :=
    wf o s tau /\ wf o s' tau /\ forall t, tau <= t -> cap o s t = cap o s' t.

  Lemma eqv_mono tau tau' s s' : eqv tau s s' -> tau <= tau' -> eqv tau' s s'.
  Proof.
    intros (A & B & C) H. split; [eapply wf_mono; eauto|]. split; [eapply wf_mono; eauto|].
    intros t T. apply C. lia.
  Qed.

  Lemma advance_capb b now : b_last b <= now -> lim_advance (o_limit o) (o_burst o) b now = capb o b now.
  Proof. intros H. unfold lim_advance, capb. assert (now <? b_last b = false) as -> by lia. reflexivity. Qed.

  (* the bucket an arrival at [now] works on, and what it sees in it *)
  Definition the_bucket (s : option bucket) (now : Z) : bucket :=
    match s with Some b => b | None => lim_fresh (o_burst o) now end.

  Lemma the_bucket_adv s now : wf o s now ->
    lim_advance (o_limit o) (o_burst o) (the_bucket s now) now = cap o s now.
  Proof.
    destruct s as [b|]; cbn [the_bucket cap].
    - intros (A & B & C). apply advance_capb. lia.
    - intros _. rewrite advance_capb by (cbn; lia). unfold capb, lim_fresh. cbn [b_tok b_last]. lia.
  Qed.

  Lemma cap_some_after b t : capb o b t = cap o (Some b) t.
  Proof. reflexivity. Qed.

  (* an arrival of key k at now >= tau: same decision, indistinguishable states *)
  Lemma eqv_allow tau s s' now a n :
    eqv tau s s' -> tau <= now -> addr_eqb (mask_addr o a) k = true ->
    snd (kstep o k s (EvAllow now a n)) = snd (kstep o k s' (EvAllow now a n)) /\
    eqv now (fst (kstep o k s (EvAllow now a n))) (fst (kstep o k s' (EvAllow now a n))).
  Proof.
    intros E T K. pose proof (eqv_mono tau now s s' E T) as (W & W' & C).
    cbn [kstep]. rewrite K. cbn [fst snd]. fold (the_bucket s now) (the_bucket s' now).
    unfold allow_bucket, lim_margin.
    rewrite (the_bucket_adv s now W), (the_bucket_adv s' now W'), <- (C now (Z.le_refl _)).
    destruct ((n <=? o_burst o) && (0 <? cap o s now - n * SCALE + o_limit o)) eqn:D; cbn [fst snd].
    - split; [reflexivity|].
      assert (wf o (Some (mkBucket (cap o s now - n * SCALE) now now)) now) as X by (cbn; unfold wfb; cbn; lia).
      split; [exact X|]. split; [exact X|]. reflexivity.
    - split; [reflexivity|].
      assert (forall x, wf o x now -> wf o (Some (mkBucket (b_tok (the_bucket x now)) (b_last (the_bucket x now)) now)) now) as X.
      { intros [b|]; cbn; unfold wfb; cbn; [intros (P & Q & R); lia|unfold SCALE; lia]. }
      assert (forall x t, wf o x now -> now <= t ->
                cap o (Some (mkBucket (b_tok (the_bucket x now)) (b_last (the_bucket x now)) now)) t = cap o x t) as Y.
      { intros [b|] t Wx Tt; cbn [cap the_bucket]; unfold capb; cbn [b_tok b_last lim_fresh]; [reflexivity|].
        assert (0 <= o_limit o * (t - now)) by (apply Z.mul_nonneg_nonneg; lia). lia. }
      split; [now apply X|]. split; [now apply X|].
      intros t Tt. rewrite (Y s t W Tt), (Y s' t W' Tt). apply C. exact Tt.
  Qed.

  (* a collector run at now >= tau changes nothing a later arrival could see *)
  Lemma eqv_gc tau s s' now : eqv tau s s' -> tau <= now -> eqv now (gc_bucket o now s) s'.
  Proof.
    intros E0 T. pose proof (eqv_mono tau now s s' E0 T) as E. destruct s as [b|]; cbn [gc_bucket]; [|exact E].
    destruct (lim_collect o now b) eqn:X; [|exact E].
    destruct E as (W & W' & C). split; [exact I|]. split; [exact W'|].
    intros t Tt. rewrite <- (C t Tt). cbn [cap].
    unfold lim_collect, lim_full in X. destruct W as (P & Q & R).
    rewrite advance_capb in X by lia. unfold capb in *.
    assert (o_limit o * (now - b_last b) <= o_limit o * (t - b_last b)) by (apply Z.mul_le_mono_nonneg_l; lia).
    lia.
  Qed.

  Lemma kdec_gc_free h : forall tau s s', lim_sorted_from tau h = true -> eqv tau s s' ->
    kdec o k s h = kdec o k s' (filter not_gc h).
  Proof.
    induction h as [|e h IH]; intros tau s s' S E; [reflexivity|].
    cbn in S. apply andb_true_iff in S. destruct S as [S1 S2]. apply Z.leb_le in S1.
    destruct e as [now a n|now]; cbn [filter not_gc ev_time] in *.
    - destruct (addr_eqb (mask_addr o a) k) eqn:K.
      + destruct (eqv_allow tau s s' now a n E S1 K) as [D E'].
        cbn [kdec]. rewrite <- D.
        destruct (snd (kstep o k s (EvAllow now a n))); [f_equal|]; apply (IH now); auto.
      + cbn [kdec]. rewrite !(kstep_untouched o k _ (EvAllow now a n)) by (cbn; exact K). cbn [fst snd].
        apply (IH now); [exact S2|]. exact (eqv_mono tau now s s' E S1).
    - cbn [kdec kstep fst snd]. apply (IH now); [exact S2|]. exact (eqv_gc tau s s' now E S1).
  Qed.
End GcUnobservable.

Lemma touches_filter_not_gc o k h :
  lim_decisions_for o k (filter not_gc h) (lim_decisions o [] (filter not_gc h)) = kdec o k None (filter not_gc h).
Proof. rewrite decisions_for_kdec by apply nodup_nil. reflexivity. Qed.

(* the decisions taken for any subnet are the decisions taken when the collector never runs *)
Lemma gc_unobservable o k h : 0 < o_limit o -> 0 <= o_burst o -> lim_sorted h = true ->
  lim_decisions_for o k h (lim_decisions o [] h) =
  lim_decisions_for o k (filter not_gc h) (lim_decisions o [] (filter not_gc h)).
Proof.
  intros R B S. rewrite touches_filter_not_gc, decisions_for_kdec by apply nodup_nil. cbn [lim_lookup].
  destruct h as [|e h]; [reflexivity|].
  apply (kdec_gc_free o k R B (e :: h) (ev_time e)).
  - apply (sorted_sorted_from (e :: h) S).
  - split; [exact I|]. split; [exact I|]. reflexivity.
Qed.

(* ------------------------------------------------------------------ the composed limiter: global bucket + client limiter *)

(* the global bucket decides first and on its own; the client limiter sees only what it lets through *)
Lemma rl_decompose o : forall h g t,
  rl_decisions (mkRl g (Some (o, t))) h = rl_decisions_given o t h (glob_verdicts g h).
Proof.
  induction h as [|[[now a] n] h IH]; intros g t; [reflexivity|].
  cbn [rl_decisions glob_verdicts].
  destruct a as [x|x|]; destruct g as [[lim b]|]; cbn [rl_allow rl_global rl_client fst snd rl_decisions_given];
    try (rewrite IH; reflexivity);
    try (destruct (fst (allow_bucket lim lim b now n)); cbn [fst snd]; rewrite IH; reflexivity).
Qed.

Lemma rl_final_table o : forall h g t,
  rl_table (rl_final (mkRl g (Some (o, t))) h) = lim_final o t (rl_passed h (glob_verdicts g h)).
Proof.
  induction h as [|[[now a] n] h IH]; intros g t; [reflexivity|].
  cbn [rl_final glob_verdicts rl_passed].
  destruct a as [x|x|]; destruct g as [[lim b]|]; cbn [rl_allow rl_global rl_client fst snd rl_passed lim_final];
    try (rewrite IH; reflexivity);
    try (destruct (fst (allow_bucket lim lim b now n)); cbn [fst snd lim_final]; rewrite IH; reflexivity).
Qed.

(* a query the global limit refuses leaves every client bucket untouched *)
Lemma global_refusal_no_client_charge r now a n :
  snd (rl_allow r now a n) = RlGlobal -> rl_client (fst (rl_allow r now a n)) = rl_client r.
Proof.
  unfold rl_allow. destruct a as [x|x|]; [| |discriminate];
  (destruct (rl_global r) as [[lim b]|]; cbn [fst snd];
   [destruct (fst (allow_bucket lim lim b now n))|];
   [destruct (rl_client r) as [[o t]|]; cbn [fst snd]; [destruct (snd (lim_step o t _)) as [[|]|]|]; discriminate
   |reflexivity
   |destruct (rl_client r) as [[o t]|]; cbn [fst snd]; [destruct (snd (lim_step o t _)) as [[|]|]|]; discriminate]).
Qed.

(* ... while the wrong order charges the client first *)
Lemma mask_none o : mask_addr o LANone = LANone.
Proof. reflexivity. Qed.

(* the cost granted through the composed limiter is the cost the client limiter grants on the passed arrivals *)
Lemma rl_granted_passed o k t0 t1 : k <> LANone -> forall h vs t,
  rl_granted o k t0 t1 h (rl_decisions_given o t h vs) =
  lim_granted o k t0 t1 (rl_passed h vs) (lim_decisions o t (rl_passed h vs)).
Proof.
  intros K. induction h as [|[[now a] n] h IH]; intros vs t; [reflexivity|].
  destruct vs as [|v vs]; [reflexivity|].
  assert (addr_eqb LANone k = false) as NK by (apply addr_eqb_neq; congruence).
  destruct a as [x|x|].
  - cbn [rl_decisions_given rl_passed]. destruct v.
    + cbn [rl_granted lim_decisions lim_granted]. rewrite IH.
      cbn [lim_step snd fst]. destruct (fst (allow_bucket _ _ _ _ _)); reflexivity.
    + cbn [rl_granted]. rewrite IH. reflexivity.
  - cbn [rl_decisions_given rl_passed]. destruct v.
    + cbn [rl_granted lim_decisions lim_granted]. rewrite IH.
      cbn [lim_step snd fst]. destruct (fst (allow_bucket _ _ _ _ _)); reflexivity.
    + cbn [rl_granted]. rewrite IH. reflexivity.
  - cbn [rl_decisions_given rl_passed rl_granted]. rewrite IH, mask_none, NK. reflexivity.
Qed.

Lemma sorted_from_weaken h : forall tau tau', tau' <= tau -> lim_sorted_from tau h = true -> lim_sorted_from tau' h = true.
Proof. destruct h as [|e h]; intros tau tau' L H; [reflexivity|]. cbn in *. apply andb_true_iff in H. destruct H as [A B]. rewrite B. lia. Qed.

Lemma passed_sorted_from : forall h vs tau,
  lim_sorted_from tau (rl_events h) = true -> lim_sorted_from tau (rl_passed h vs) = true.
Proof.
  induction h as [|[[now a] n] h IH]; intros vs tau S; [reflexivity|].
  destruct vs as [|v vs]; [reflexivity|].
  cbn in S. apply andb_true_iff in S. destruct S as [S1 S2].
  assert (lim_sorted_from tau (rl_passed h vs) = true) as W.
  { apply (sorted_from_weaken _ now); [lia|]. now apply IH. }
  destruct a as [x|x|]; cbn [rl_passed]; try exact W;
    (destruct v; [|exact W]); cbn; rewrite S1; cbn; now apply IH.
Qed.

Lemma sorted_from_sorted h tau : lim_sorted_from tau h = true -> lim_sorted h = true.
Proof. destruct h as [|e h]; [reflexivity|]. cbn. intros H. apply andb_true_iff in H. apply H. Qed.

Lemma passed_sorted h vs : lim_sorted (rl_events h) = true -> lim_sorted (rl_passed h vs) = true.
Proof.
  intros S. destruct h as [|e h]; [reflexivity|].
  apply (sorted_from_sorted _ (ev_time (EvAllow (fst (fst e)) (snd (fst e)) (snd e)))).
  apply passed_sorted_from. exact (sorted_sorted_from _ S).
Qed.

Lemma rl_of_config_shape c t0 : 0 < lc_limit c ->
  rl_of_config c t0 = mkRl (rl_global (rl_of_config c t0)) (Some (set_default (cfg_opts c), [])).
Proof.
  intros L. unfold rl_of_config, rl_init, init_client, cfg_opts. cbn [o_limit rl_global].
  assert (0 <? lc_limit c = true) as -> by lia. reflexivity.
Qed.

(* window bound for the cost GRANTED through the composed limiter (global limit on or off) *)
Lemma composed_bound c k t0 t1 now0 h : 0 < lc_limit c -> k <> LANone ->
  lim_sorted (rl_events h) = true -> t0 <= t1 ->
  let o := set_default (cfg_opts c) in
  rl_granted o k t0 t1 h (rl_decisions (rl_of_config c now0) h) * SCALE
    <= o_burst o * SCALE + o_limit o * (t1 - t0) + (o_limit o - 1).
Proof.
  intros L K S T o. rewrite (rl_of_config_shape c now0 L), rl_decompose. fold o.
  rewrite rl_granted_passed by exact K.
  pose proof (default_wf (cfg_opts c)) as W. cbn zeta in W. fold o in W.
  apply bound_general; try lia. now apply passed_sorted.
Qed.

(* ---- isolation modulo the global limit ---- *)

(* results for key k computed on its own bucket, the global answers given *)
Fixpoint rl_kres_g (o : opts) (k : lim_addr) (s : option bucket) (h : list rl_arrival) (vs : list bool) : list rl_res :=
  match h, vs with
  | (now, a, n) :: h', v :: vs' =>
      if addr_eqb (mask_addr o a) k then
        match a with
        | LANone => RlOk :: rl_kres_g o k s h' vs'
        | _ => if v then rl_conv (snd (kstep o k s (EvAllow now a n)))
                           :: rl_kres_g o k (fst (kstep o k s (EvAllow now a n))) h' vs'
               else RlGlobal :: rl_kres_g o k s h' vs'
        end
      else rl_kres_g o k s h' vs'
  | _, _ => []
  end.

Lemma given_results_kres c o k : (forall a, mask_addr o a = cfg_subnet c a) ->
  forall h vs t, nodup_keys t ->
  rl_results_for c k h (rl_decisions_given o t h vs) = rl_kres_g o k (lim_lookup k t) h vs.
Proof.
  intros M. induction h as [|[[now a] n] h IH]; intros vs t H; [reflexivity|].
  destruct vs as [|v vs]; [reflexivity|].
  destruct a as [x|x|].
  - destruct v; cbn [rl_decisions_given rl_kres_g rl_results_for]; rewrite <- M.
    + rewrite (IH _ _ (step_nodup o t _ H)), (step_lookup o k t _ H).
      destruct (addr_eqb (mask_addr o (LA4 x)) k) eqn:E.
      * rewrite (step_decision o k t (EvAllow now (LA4 x) n)) by exact E. reflexivity.
      * rewrite (kstep_untouched o k _ (EvAllow now (LA4 x) n)) by exact E. reflexivity.
    + rewrite (IH _ _ H). reflexivity.
  - destruct v; cbn [rl_decisions_given rl_kres_g rl_results_for]; rewrite <- M.
    + rewrite (IH _ _ (step_nodup o t _ H)), (step_lookup o k t _ H).
      destruct (addr_eqb (mask_addr o (LA6 x)) k) eqn:E.
      * rewrite (step_decision o k t (EvAllow now (LA6 x) n)) by exact E. reflexivity.
      * rewrite (kstep_untouched o k _ (EvAllow now (LA6 x) n)) by exact E. reflexivity.
    + rewrite (IH _ _ H). reflexivity.
  - cbn [rl_decisions_given rl_kres_g rl_results_for]. rewrite <- M, (IH _ _ H). reflexivity.
Qed.

Lemma kres_g_nil o k s h : rl_kres_g o k s h [] = [].
Proof. destruct h as [|[[? ?] ?] ?]; reflexivity. Qed.

Lemma kres_g_filter c o k : (forall a, mask_addr o a = cfg_subnet c a) -> forall h vs s,
  rl_kres_g o k s h vs = rl_kres_g o k s (filter (rl_from_subnet c k) h) (rl_verdicts_for c k h vs).
Proof.
  intros M. induction h as [|[[now a] n] h IH]; intros vs s.
  - destruct vs; reflexivity.
  - destruct vs as [|v vs].
    + cbn [rl_verdicts_for]. now rewrite !kres_g_nil.
    + cbn [filter rl_verdicts_for rl_kres_g]. unfold rl_from_subnet at 1. cbn [fst snd]. rewrite <- M.
      destruct (addr_eqb (mask_addr o a) k) eqn:E.
      * cbn [rl_kres_g]. rewrite E. destruct a; [destruct v| destruct v|]; rewrite <- !IH; reflexivity.
      * apply IH.
Qed.

(* the results of subnet k in the full system = its results in the system where ONLY k's arrivals exist and the global
   check answers what the shared global bucket answered them *)
Lemma global_isolation c k t0 h : 0 < lc_limit c ->
  rl_results_for c k h (rl_decisions (rl_of_config c t0) h) =
  rl_results_for c k (filter (rl_from_subnet c k) h)
    (rl_decisions_given (set_default (cfg_opts c)) [] (filter (rl_from_subnet c k) h)
       (rl_verdicts_for c k h (glob_verdicts (rl_global (rl_of_config c t0)) h))).
Proof.
  intros L. rewrite (rl_of_config_shape c t0 L) at 1. rewrite rl_decompose.
  assert (forall a, mask_addr (set_default (cfg_opts c)) a = cfg_subnet c a) as M.
  { intros a. apply config_client_mask. unfold cfg_client, init_client, cfg_opts. cbn [o_limit].
    assert (0 <? lc_limit c = true) as -> by lia. reflexivity. }
  rewrite !(given_results_kres c _ k M) by apply nodup_nil.
  apply (kres_g_filter c _ k M).
Qed.

(* the client bucket of subnet k evolves exactly as if only k's globally passed arrivals existed *)
Lemma fold_kstep_filter o k h : forall s,
  fold_left (fun s e => fst (kstep o k s e)) h s = fold_left (fun s e => fst (kstep o k s e)) (filter (touches o k) h) s.
Proof.
  induction h as [|e h IH]; intros s; [reflexivity|]. cbn [filter fold_left].
  destruct (touches o k e) eqn:T; cbn [fold_left]; [apply IH|].
  rewrite (kstep_untouched o k s e T). apply IH.
Qed.

Lemma client_bucket_own c k t0 h : 0 < lc_limit c ->
  let o := set_default (cfg_opts c) in
  lim_lookup k (rl_table (rl_final (rl_of_config c t0) h)) =
  lim_lookup k (lim_final o [] (filter (touches o k) (rl_passed h (glob_verdicts (rl_global (rl_of_config c t0)) h)))).
Proof.
  intros L o. rewrite (rl_of_config_shape c t0 L) at 1. fold o. rewrite rl_final_table.
  rewrite !final_lookup by apply nodup_nil. apply fold_kstep_filter.
Qed.

(* ---- a client refusal means the subnet's OWN budget is exhausted ---- *)

Lemma last_cons_default (l : list Z) : forall x d, last (x :: l) d = last l x.
Proof.
  induction l as [|y l IH]; intros x d; [reflexivity|].
  change (last (x :: y :: l) d) with (last (y :: l) d). rewrite (IH y d), (IH y x). reflexivity.
Qed.

Section OwnBudget.
  Variable o : opts.
  Variable k : lim_addr.
  Hypothesis Hrate : 0 < o_limit o.
  Hypothesis Hburst : 0 <= o_burst o.

  Definition ev_cost_nonneg (e : lev) : Prop := match e with EvAllow _ _ n => 0 <= n | EvGc _ => True end.

  Lemma capb_nondecr b tau tau' : tau <= tau' -> capb o b tau <= capb o b tau'.
  Proof.
    intros H. unfold capb.
    assert (o_limit o * (tau - b_last b) <= o_limit o * (tau' - b_last b)) by (apply Z.mul_le_mono_nonneg_l; lia). lia.
  Qed.

  Lemma cap_nondecr s tau tau' : tau <= tau' -> cap o s tau <= cap o s tau'.
  Proof. destruct s; cbn [cap]; [apply capb_nondecr|lia]. Qed.

  (* the bucket of k holds at least burst minus everything ever granted to k (gc-free histories) *)
  Lemma own_budget_inv h : forall s tau G,
    lim_sorted_from tau h = true -> has_gc h = false -> Forall ev_cost_nonneg h ->
    wf o s tau -> 0 <= G -> o_burst o * SCALE - G * SCALE <= cap o s tau ->
    forall t0 t1, (forall e, In e h -> t0 <= ev_time e <= t1) ->
    let s' := fold_left (fun s e => fst (kstep o k s e)) h s in
    let tau' := last (map ev_time h) tau in
    wf o s' tau' /\ o_burst o * SCALE - (G + kadm o k t0 t1 s h) * SCALE <= cap o s' tau' /\ 0 <= G + kadm o k t0 t1 s h /\ tau <= tau'.
  Proof.
    induction h as [|e h IH]; intros s tau G S NG F W G0 C t0 t1 IN.
    - cbn. repeat split; try assumption; lia.
    - cbn in S. apply andb_true_iff in S. destruct S as [S1 S2]. apply Z.leb_le in S1.
      inversion F as [|? ? F1 F2]; subst.
      assert (has_gc h = false /\ is_gc e = false) as [NG2 NG1].
      { unfold has_gc in *. cbn [existsb] in NG. apply orb_false_iff in NG. destruct NG as [A B]. split; [exact B|].
        destruct e; [reflexivity|discriminate]. }
      destruct (kstep_cap o k Hrate Hburst s e tau W S1) as [W1 C1].
      assert (t0 <= ev_time e <= t1) as INe by (apply IN; left; reflexivity).
      assert (gain o k s e >= 0) as GN.
      { unfold gain. destruct e as [now a n|now]; [|lia]. cbn in F1. destruct (snd _) as [[|]|]; lia. }
      pose proof (cap_nondecr s tau (ev_time e) S1) as MON.
      assert (o_burst o * SCALE - (G + gain o k s e) * SCALE <= cap o (fst (kstep o k s e)) (ev_time e)) as C2.
      { (* either the step granted (the bucket paid) or the state is the old one at a later time *)
        destruct e as [now a n|now]; [|discriminate].
        unfold gain in *. cbn [kstep ev_time] in *.
        destruct (addr_eqb (mask_addr o a) k) eqn:E; cbn [fst snd] in *.
        - set (b0 := match s with Some b => b | None => lim_fresh (o_burst o) now end) in *.
          assert (b_last b0 <= b_seen b0 /\ b_seen b0 <= now /\ - o_limit o < b_tok b0 /\ capb o b0 now = cap o s now) as (P1 & P2 & P3 & P4).
          { destruct s as [b|]; subst b0; cbn [cap].
            - destruct W as (A & B & D). repeat split; try lia.
            - unfold capb, lim_fresh. cbn [b_last b_seen b_tok].
              assert (o_limit o * (now - now) = 0) by lia. unfold SCALE in *. repeat split; try lia. }
          unfold allow_bucket, lim_margin, lim_advance in *.
          assert (now <? b_last b0 = false) as Q by lia. rewrite Q in *.
          fold (capb o b0 now) in *.
          destruct ((n <=? o_burst o) && (0 <? capb o b0 now - n * SCALE + o_limit o)) eqn:D; cbn [fst snd cap] in *.
          + unfold capb at 1. cbn [b_tok b_last]. cbn in F1.
            assert (o_limit o * (now - now) = 0) by lia. cbv zeta. unfold SCALE in *. lia.
          + unfold capb at 1. cbv zeta. cbn [b_tok b_last]. fold (capb o b0 now). lia.
        - lia. }
      specialize (IH (fst (kstep o k s e)) (ev_time e) (G + gain o k s e) S2 NG2 F2 W1 ltac:(lia) C2 t0 t1
                    (fun e' H' => IN e' (or_intror H'))).
      cbn zeta in IH. destruct IH as (I1 & I2 & I3 & I4).
      cbn [fold_left map kadm]. rewrite (gainw_in o k t0 t1 s e) by lia.
      rewrite last_cons_default.
      replace (G + (gain o k s e + kadm o k t0 t1 (fst (kstep o k s e)) h)) with (G + gain o k s e + kadm o k t0 t1 (fst (kstep o k s e)) h) by lia.
      repeat split; try assumption. lia.
  Qed.
End OwnBudget.

(* ---- the property's clause: a client refusal means the subnet's own budget is used up ---- *)

Lemma last_in_cons (l : list Z) : forall x d, In (last (x :: l) d) (x :: l).
Proof.
  induction l as [|y l IH]; intros x d; [left; reflexivity|].
  change (last (x :: y :: l) d) with (last (y :: l) d). right. apply IH.
Qed.

Lemma last_in_or_default (l : list Z) d : last l d = d \/ In (last l d) l.
Proof. destruct l as [|x l]; [left; reflexivity|right; apply last_in_cons]. Qed.

Lemma sorted_from_lower l tlow : lim_sorted l = true -> (forall e, In e l -> tlow <= ev_time e) ->
  lim_sorted_from tlow l = true.
Proof.
  intros S L. destruct l as [|e l]; [reflexivity|].
  pose proof (sorted_sorted_from (e :: l) S) as S'. cbn in S'. cbn.
  apply andb_true_iff in S'. destruct S' as [_ S2]. rewrite S2.
  assert (tlow <= ev_time e) by (apply L; left; reflexivity). lia.
Qed.

Lemma passed_in h : forall vs e, In e (rl_passed h vs) ->
  exists now a n, e = EvAllow now a n /\ In (now, a, n) h.
Proof.
  induction h as [|[[now a] n] h IH]; intros vs e I; [destruct vs; contradiction|].
  destruct vs as [|v vs]; [contradiction|].
  assert (In e (rl_passed h vs) -> exists now0 a0 n0, e = EvAllow now0 a0 n0 /\ In (now0, a0, n0) ((now, a, n) :: h)) as R.
  { intros I'. destruct (IH _ _ I') as (x & y & z & E & J). exists x, y, z. split; [exact E|right; exact J]. }
  destruct a as [x|x|]; cbn [rl_passed] in I.
  - destruct v; [|apply R; exact I]. destruct I as [<-|I]; [|apply R; exact I].
    eexists _, _, _; split; [reflexivity|left; reflexivity].
  - destruct v; [|apply R; exact I]. destruct I as [<-|I]; [|apply R; exact I].
    eexists _, _, _; split; [reflexivity|left; reflexivity].
  - apply R; exact I.
Qed.

Lemma passed_no_gc h : forall vs, has_gc (rl_passed h vs) = false.
Proof.
  induction h as [|[[now a] n] h IH]; intros vs; [destruct vs; reflexivity|].
  destruct vs as [|v vs]; [reflexivity|].
  destruct a; cbn [rl_passed]; try apply IH; destruct v; try apply IH; unfold has_gc; cbn [existsb orb]; apply IH.
Qed.

Lemma rl_final_client o : forall h g t,
  rl_client (rl_final (mkRl g (Some (o, t))) h) = Some (o, lim_final o t (rl_passed h (glob_verdicts g h))).
Proof.
  induction h as [|[[now a] n] h IH]; intros g t; [reflexivity|].
  cbn [rl_final glob_verdicts rl_passed].
  destruct a as [x|x|]; destruct g as [[lim b]|]; cbn [rl_allow rl_global rl_client fst snd rl_passed lim_final];
    try (rewrite IH; reflexivity);
    try (destruct (fst (allow_bucket lim lim b now n)); cbn [fst snd lim_final]; rewrite IH; reflexivity).
Qed.

Lemma cfg_subnet_valid c a : a <> LANone -> cfg_subnet c a <> LANone.
Proof.
  intros H. unfold cfg_subnet. destruct a as [x|x|]; [discriminate| |contradiction].
  cbn [lim_unmap]. destruct (N.shiftr x 32 =? 65535)%N; discriminate.
Qed.

(* the client limiter alone: after a sorted, collector-free history of non-negative costs, an arrival of subnet k that
   is refused exceeds what k's own budget (burst minus everything ever granted to k) holds *)
Lemma own_budget_refusal o k h now a n tlow :
  0 < o_limit o -> 0 <= o_burst o ->
  lim_sorted h = true -> has_gc h = false -> Forall ev_cost_nonneg h ->
  (forall e, In e h -> tlow <= ev_time e <= now) -> tlow <= now -> 0 <= n ->
  mask_addr o a = k ->
  snd (lim_step o (lim_final o [] h) (EvAllow now a n)) = Some false ->
  o_burst o < lim_granted o k tlow now h (lim_decisions o [] h) + n.
Proof.
  intros R B S NG F IN TL N K D.
  rewrite granted_kadm by apply nodup_nil. cbn [lim_lookup].
  assert (lim_sorted_from tlow h = true) as SF by (apply sorted_from_lower; [exact S|intros e I; apply IN; exact I]).
  assert (wf o None tlow) as W0 by exact I.
  assert (o_burst o * SCALE - 0 * SCALE <= cap o None tlow) as C0 by (cbn [cap]; lia).
  destruct (own_budget_inv o k R B h None tlow 0 SF NG F W0 (Z.le_refl 0) C0 tlow now IN) as (W & C & G0 & T).
  set (s' := fold_left (fun s e => fst (kstep o k s e)) h None) in *.
  set (tau' := last (map ev_time h) tlow) in *.
  assert (tau' <= now) as TN.
  { subst tau'. destruct (last_in_or_default (map ev_time h) tlow) as [E|I0]; [rewrite E; exact TL|].
    apply in_map_iff in I0. destruct I0 as (e & E & I0). rewrite <- E. apply IN. exact I0. }
  pose proof (wf_mono o s' tau' now W TN) as Wn.
  pose proof (cap_nondecr o R s' tau' now TN) as MON.
  cbn [lim_step snd] in D. rewrite K in D. unfold lim_bucket_of in D.
  rewrite (final_lookup o k h [] nodup_nil) in D. cbn [lim_lookup] in D. fold s' in D.
  fold (the_bucket o s' now) in D.
  unfold allow_bucket, lim_margin in D. rewrite (the_bucket_adv o s' now Wn) in D.
  destruct ((n <=? o_burst o) && (0 <? cap o s' now - n * SCALE + o_limit o)) eqn:X; cbn [fst] in D; [discriminate|].
  apply andb_false_iff in X. destruct X as [X|X]; unfold SCALE in *; lia.
Qed.

(* the composed limiter: a refusal by the CLIENT limit means that the cost granted for the subnet so far plus this
   cost exceeds the subnet's burst -- whatever the other subnets did and whatever the global bucket refused *)
Lemma composed_refusal_own_budget c t0 h now a n tlow :
  0 < lc_limit c -> lim_sorted (rl_events h) = true ->
  (forall e, In e h -> tlow <= fst (fst e) <= now /\ 0 <= snd e) -> tlow <= now -> 0 <= n ->
  snd (rl_allow (rl_final (rl_of_config c t0) h) now a n) = RlClient ->
  let o := set_default (cfg_opts c) in
  o_burst o < rl_granted o (cfg_subnet c a) tlow now h (rl_decisions (rl_of_config c t0) h) + n.
Proof.
  intros L S IN TL N D o.
  assert (forall x, mask_addr o x = cfg_subnet c x) as M.
  { intros x. apply config_client_mask. unfold cfg_client, init_client, cfg_opts. cbn [o_limit].
    assert (0 <? lc_limit c = true) as -> by lia. reflexivity. }
  pose proof (default_wf (cfg_opts c)) as W. cbn zeta in W. fold o in W.
  rewrite (rl_of_config_shape c t0 L) in *. fold o in D |- *.
  set (g := rl_global (rl_of_config c t0)) in *.
  set (P := rl_passed h (glob_verdicts g h)).
  assert (a <> LANone) as NA.
  { intros ->. cbn in D. discriminate. }
  assert (snd (lim_step o (lim_final o [] P) (EvAllow now a n)) = Some false) as DC.
  { pose proof (rl_final_client o h g []) as C. fold P in C. unfold lim_table in *.
    destruct (rl_final {| rl_global := g; rl_client := Some (o, []) |} h) as [g' cl'].
    cbn [rl_client] in C. subst cl'.
    unfold rl_allow in D. cbn [rl_global rl_client] in D.
    destruct a as [x|x|]; [| |contradiction];
      (destruct g' as [[lim b]|]; cbn [fst snd] in D;
       [destruct (fst (allow_bucket lim lim b now n)); [|discriminate]|];
       destruct (snd (lim_step o (lim_final o [] P) _)) as [[|]|] eqn:Q; try discriminate; first [reflexivity|exact Q]). }
  rewrite rl_decompose, rl_granted_passed by (apply cfg_subnet_valid; exact NA). fold P.
  apply (own_budget_refusal o (cfg_subnet c a) P now a n tlow); try lia; auto.
  - now apply passed_sorted.
  - apply passed_no_gc.
  - apply Forall_forall. intros e I. destruct (passed_in _ _ _ I) as (x & y & z & -> & J).
    cbn. apply (IN _ J).
  - intros e I. destruct (passed_in _ _ _ I) as (x & y & z & -> & J). cbn. apply (IN _ J).
Qed.

(* ---- the wrong order: witness ---- *)
(* global 5/s, client 1/s burst 5.  Five other /24s use up the global bucket at t = 0; the victim 10.0.9.1 tries five
   times (all refused by the global limit); 1.1 s later (global bucket full again) the victim asks twice. *)
Definition cfw_cfg : lim_config := mkLimCfg 5 1 5 24 48.
Definition cfw_victim : lim_addr := LA4 167774465%N.          (* 10.0.9.1 *)
Definition cfw_history : list rl_arrival :=
  [(0, LA4 167772417%N, 1); (0, LA4 167772673%N, 1); (0, LA4 167772929%N, 1); (0, LA4 167773185%N, 1); (0, LA4 167773441%N, 1);
   (0, cfw_victim, 1); (0, cfw_victim, 1); (0, cfw_victim, 1); (0, cfw_victim, 1); (0, cfw_victim, 1);
   (1100000000, cfw_victim, 1); (1100000000, cfw_victim, 1)].
Definition cfw_key : lim_addr := cfg_subnet cfw_cfg cfw_victim.

Lemma cfw_witness :
  lim_sorted (rl_events cfw_history) = true /\
  rl_results_for cfw_cfg cfw_key cfw_history (rl_decisions (rl_of_config cfw_cfg 0) cfw_history)
    = [RlGlobal; RlGlobal; RlGlobal; RlGlobal; RlGlobal; RlOk; RlOk] /\
  rl_results_for cfw_cfg cfw_key cfw_history (rl_decisions_client_first (rl_of_config cfw_cfg 0) cfw_history)
    = [RlGlobal; RlGlobal; RlGlobal; RlGlobal; RlGlobal; RlOk; RlClient] /\
  rl_granted (set_default (cfg_opts cfw_cfg)) cfw_key 0 1100000000 cfw_history
    (rl_decisions_client_first (rl_of_config cfw_cfg 0) cfw_history) = 1 /\
  (* a global refusal charged the client: *)
  snd (rl_allow_client_first (rl_final (rl_of_config cfw_cfg 0) (firstn 5 cfw_history)) 0 cfw_victim 1) = RlGlobal /\
  lim_lookup cfw_key (rl_table (fst (rl_allow_client_first (rl_final (rl_of_config cfw_cfg 0) (firstn 5 cfw_history)) 0 cfw_victim 1)))
    = Some (mkBucket (4 * SCALE) 0 0) /\
  lim_lookup cfw_key (rl_table (rl_final (rl_of_config cfw_cfg 0) (firstn 5 cfw_history))) = None.
Proof. vm_compute. repeat split; reflexivity. Qed.

Lemma cfw_charge :
  rl_client (fst (rl_allow_client_first (rl_final (rl_of_config cfw_cfg 0) (firstn 5 cfw_history)) 0 cfw_victim 1))
  <> rl_client (rl_final (rl_of_config cfw_cfg 0) (firstn 5 cfw_history)).
Proof. vm_compute. intros H. discriminate H. Qed.

(* ------------------------------------------------------------------ one stream connection: the in-flight counter *)

Lemma refusal_not_answered l : refusal l <> OAnswered.
Proof. destruct l; discriminate. Qed.

Lemma forwards_answered o : forwards o = true <-> o = OAnswered.
Proof. destruct o; cbn; split; intros H; try discriminate; reflexivity. Qed.

(* the counter = slots taken by handled queries minus replies written: a refused query (by the cap or by the limiter)
   never keeps a slot *)
Lemma lsc_inflight_run l maxc : forall es s,
  lsc_inflight (fst (lsc_run l maxc s es)) =
  lsc_inflight s + lsc_count_answered (snd (lsc_run l maxc s es)) - lsc_count_done es.
Proof.
  induction es as [|e es IH]; intros s; [cbn; lia|].
  unfold lsc_run in *. cbn [lsc_run_gen fst snd lsc_count_answered lsc_count_done fold_right].
  rewrite IH. fold (lsc_count_answered (snd (lsc_run_gen false l maxc (fst (lsc_step_gen false l maxc s e)) es))).
  fold (lsc_count_done es).
  destruct e as [now a hit|]; cbn [lsc_step_gen].
  - destruct (lsc_cap_hit l maxc s); cbn [fst snd].
    + pose proof (refusal_not_answered l). destruct (refusal l); try contradiction; lia.
    + destruct (forwards (snd (accept_query (lsc_rl s) now l a hit))) eqn:F; cbn [fst snd lsc_inflight].
      * apply forwards_answered in F. rewrite F. lia.
      * destruct (snd (accept_query (lsc_rl s) now l a hit)); try discriminate; lia.
  - cbn [fst snd lsc_inflight]. lia.
Qed.

(* at quiescence (every handled query has had its reply written) the counter is back where it started *)
Lemma lsc_quiescent l maxc es s :
  lsc_count_answered (snd (lsc_run l maxc s es)) = lsc_count_done es ->
  lsc_inflight (fst (lsc_run l maxc s es)) = lsc_inflight s.
Proof. intros H. rewrite lsc_inflight_run. lia. Qed.

(* a query is refused only if the cap or the limiter says so at that moment *)
Lemma lsc_refusal_reasons l maxc s now a hit :
  exists o, snd (lsc_step l maxc s (LscArrive now a hit)) = Some o /\
  (forwards o = false <->
   lsc_cap_hit l maxc s = true \/
   exists c, query_cost l = Some c /\ rl_is_ok (snd (rl_allow (lsc_rl s) now a c)) = false).
Proof.
  unfold lsc_step. cbn [lsc_step_gen]. destruct (lsc_cap_hit l maxc s) eqn:C; cbn [snd].
  - exists (refusal l). split; [reflexivity|]. split; [intros _; left; reflexivity|intros _; apply forwards_refusal].
  - assert (forall o, snd (if forwards o then (mkLsconn (fst (accept_query (lsc_rl s) now l a hit)) (lsc_inflight s + 1), Some o)
                            else (mkLsconn (fst (accept_query (lsc_rl s) now l a hit)) (lsc_inflight s), Some o)) = Some o) as E
      by (intros o; destruct (forwards o); reflexivity).
    exists (snd (accept_query (lsc_rl s) now l a hit)). split; [apply E|].
    unfold accept_query. destruct (query_cost l) as [c|] eqn:Q.
    + destruct (rl_is_ok (snd (rl_allow (lsc_rl s) now a c))) eqn:R; cbn [snd].
      * split; [discriminate|]. intros [X|(c' & Qc & X)]; [discriminate|]. inversion Qc; subst c'. congruence.
      * split; [intros _; right; exists c; auto|intros _; apply forwards_refusal].
    + cbn [snd rl_is_ok]. split; [discriminate|]. intros [X|(c' & Qc & _)]; discriminate.
Qed.

(* on a quiescent connection (counter 0, cap >= 1) the answer is the limiter's decision alone *)
Lemma lsc_quiescent_limiter_only l maxc s now a hit : lsc_inflight s = 0 -> 1 <= maxc ->
  lsc_step l maxc s (LscArrive now a hit) =
  (let x := accept_query (lsc_rl s) now l a hit in
   (mkLsconn (fst x) (if forwards (snd x) then 1 else 0), Some (snd x))).
Proof.
  intros I M. unfold lsc_step. cbn [lsc_step_gen]. unfold lsc_cap_hit. rewrite I.
  assert (maxc <? 0 + 1 = false) as -> by lia. rewrite andb_false_r. cbn zeta.
  destruct (forwards (snd (accept_query (lsc_rl s) now l a hit))); reflexivity.
Qed.

(* the leaking variant: rate 1/s, burst 7, max_concurrent_queries 2, one tcp connection.  Two queries are handled (2 + 3 and
   2 tokens), two are refused by the limiter, all replies are written; three seconds later the bucket holds 3 tokens and the
   connection is idle, yet the query is refused: the two limiter refusals still hold both slots. *)
Definition scw_rl : rl := rl_of_config (mkLimCfg 0 1 7 24 48) 0.
Definition scw_client : lim_addr := LA4 3232235777%N.
Definition scw_script : list lsc_ev :=
  [LscArrive 0 scw_client false; LscArrive 0 scw_client false; LscDone; LscDone;
   LscArrive 0 scw_client false; LscArrive 0 scw_client false].
Lemma scw_witness :
  snd (lsc_run_gen true LmTcp 2 (mkLsconn scw_rl 0) scw_script)
    = [Some OAnswered; Some OAnswered; None; None; Some ORefused; Some ORefused] /\
  lsc_count_answered (snd (lsc_run_gen true LmTcp 2 (mkLsconn scw_rl 0) scw_script)) = lsc_count_done scw_script /\
  lsc_inflight (fst (lsc_run_gen true LmTcp 2 (mkLsconn scw_rl 0) scw_script)) = 2 /\
  snd (lsc_step_gen true LmTcp 2 (fst (lsc_run_gen true LmTcp 2 (mkLsconn scw_rl 0) scw_script)) (LscArrive 3000000000 scw_client false))
    = Some ORefused /\
  snd (accept_query (lsc_rl (fst (lsc_run_gen true LmTcp 2 (mkLsconn scw_rl 0) scw_script))) 3000000000 LmTcp scw_client false)
    = OAnswered /\
  snd (lsc_run LmTcp 2 (mkLsconn scw_rl 0) (scw_script ++ [LscArrive 3000000000 scw_client false]))
    = [Some OAnswered; Some OAnswered; None; None; Some ORefused; Some ORefused; Some OAnswered] /\
  lsc_inflight (fst (lsc_run LmTcp 2 (mkLsconn scw_rl 0) scw_script)) = 0.
Proof. vm_compute. repeat split; reflexivity. Qed.

(* a peer without an IP address (unix socket) is never charged, at accept or per query *)
Lemma no_address_no_charge r now n l :
  rl_allow r now LANone n = (r, RlOk) /\ accept_conn r now l LANone = (r, OAccepted).
Proof.
  split; [reflexivity|]. unfold accept_conn. destruct (conn_cost l); reflexivity.
Qed.
