(* Limit/Limiter.v — executable model of
     internal/limiter/client_limiter.go   ClientLimiterOpts.setDefault, ClientLimiter.mask / AllowN / gc
     golang.org/x/time/rate               Limiter.AllowN -> reserveN -> advance   (float64 tokens)
     app/router/limiter.go                cost table, resourceLimiter.AllowN, lim_listener.Accept
     app/router/server_*.go               the acceptance call sites (REFUSED / 503 / close)

   Units.  Time is an integer number of nanoseconds (Z).  Tokens are kept scaled by SCALE = 10^9
   ("nano-tokens"), so that the refill  limit[token/s] * elapsed[ns]  is an exact integer for the integer
   rates the configuration grants (LimiterConfig.Client.Limit is an int).  Everything is linear
   integer arithmetic.

   The bucket is the exact real-number semantics of rate.Limiter.reserveN(t, n, maxFutureReserve = 0):
       t, tokens := advance(t)                        last' = min(last, t); tokens + limit*(t-last'), capped at burst
       tokens -= n
       if tokens < 0 { waitDuration = durationFromTokens(-tokens) }     = trunc(1e9 * (-tokens) / limit)  [ns]
       ok := n <= burst && waitDuration <= 0
       if ok { last = t; tokens = tokens }            state changes only on success
   Note the truncation to whole nanoseconds: a deficit smaller than one nanosecond of refill
   (-tokens < limit * 1ns, i.e. scaled deficit < limit) is still granted and leaves the bucket
   (slightly) negative.  The model keeps that: ok <-> n <= burst /\ 0 < tokens_scaled + limit  (lim_margin).

   No proofs in this file (LimiterProofs.v). *)
From Mos Require Import Base.Prelude.
Local Open Scope Z_scope.

Definition SCALE : Z := 1000000000.                 (* ns per second = scaled units per token *)
Definition entry_ttl : Z := 60 * SCALE.             (* entryTtl = time.Minute *)

(* ------------------------------------------------------------------ options and defaults *)

(* ClientLimiterOpts; 0 (or negative) = omitted.  Limit is a float64 in Go but is always converted from
   the integer LimiterConfig.Client.Limit. *)
Record opts := mkOpts { o_limit : Z; o_burst : Z; o_v4 : Z; o_v6 : Z }.

Definition set_default (o : opts) : opts :=
  let limit := if o_limit o <=? 0 then 20 else o_limit o in
  let burst := if o_burst o <=? 0 then limit else o_burst o in
  let v4 := if (o_v4 o <=? 0) || (32 <? o_v4 o) then 24 else o_v4 o in
  let v6 := if (o_v6 o <=? 0) || (128 <? o_v6 o) then 48 else o_v6 o in
  mkOpts limit burst v4 v6.

(* initResourceLimiter: a client limiter exists only when limiter.client.limit > 0 *)
Definition init_client (cfg : opts) : option opts :=
  if 0 <? o_limit cfg then Some (set_default cfg) else None.

(* ------------------------------------------------------------------ addresses and masking *)

(* netip.Addr without zones: an IPv4 address (32 bit), an IPv6 address (128 bit; v4-mapped addresses are
   IPv6 addresses ::ffff:a.b.c.d), or the zero Addr (invalid). *)
Inductive lim_addr := LA4 (a : N) | LA6 (a : N) | LANone.

Definition addr_eqb (x y : lim_addr) : bool :=
  match x, y with
  | LA4 a, LA4 b => (a =? b)%N
  | LA6 a, LA6 b => (a =? b)%N
  | LANone, LANone => true
  | _, _ => false
  end.

Definition two32 : N := 4294967296%N.

(* Addr.Unmap *)
Definition lim_unmap (a : lim_addr) : lim_addr :=
  match a with
  | LA6 x => if (N.shiftr x 32 =? 65535)%N then LA4 (N.land x 4294967295)%N else a
  | _ => a
  end.

(* keep the top [bits] bits of a [w]-bit number:  x / 2^(w-bits) * 2^(w-bits)  (LimiterProofs.mask_bits_spec) *)
Definition mask_bits (w bits x : N) : N :=
  let sh := (w - bits)%N in N.shiftl (N.shiftr x sh) sh.

(* netip.PrefixFrom(lim_addr, bits).Masked().Addr(): the zero Addr when bits is outside 0..BitLen *)
Definition prefix_addr4 (bits : Z) (x : N) : lim_addr :=
  if (0 <=? bits) && (bits <=? 32) then LA4 (mask_bits 32 (Z.to_N bits) x) else LANone.
Definition prefix_addr6 (bits : Z) (x : N) : lim_addr :=
  if (0 <=? bits) && (bits <=? 128) then LA6 (mask_bits 128 (Z.to_N bits) x) else LANone.

(* ClientLimiter.mask (o = the effective options) *)
Definition mask_addr (o : opts) (a : lim_addr) : lim_addr :=
  match lim_unmap a with
  | LA4 x => prefix_addr4 (o_v4 o) x
  | LA6 x => prefix_addr6 (o_v6 o) x
  | LANone => LANone
  end.

(* ------------------------------------------------------------------ the router's configuration mapping *)

(* app/router/config.go  LimiterConfig{GlobalLimit, Client: ClientLimiterConfig{Limit, Burst, V4Mask, V6Mask}}:
   yaml ints, 0 = omitted.  A record of its own (not [opts]) so that the field-by-field mapping of
   initResourceLimiter is a modelled function and not an identity. *)
Record lim_config := mkLimCfg { lc_global : Z; lc_limit : Z; lc_burst : Z; lc_v4 : Z; lc_v6 : Z }.

(* the ClientLimiterOpts literal initResourceLimiter builds from the configuration
   (Limit: float64(cfg.Client.Limit), Burst: cfg.Client.Burst, V4Mask: cfg.Client.V4Mask, V6Mask: cfg.Client.V6Mask) *)
Definition cfg_opts (c : lim_config) : opts := mkOpts (lc_limit c) (lc_burst c) (lc_v4 c) (lc_v6 c).

(* initResourceLimiter + NewClientLimiter (setDefault): the effective options of the router's client limiter;
   None = no client limiter (limiter.client.limit <= 0) *)
Definition cfg_client (c : lim_config) : option opts := init_client (cfg_opts c).

(* the global bucket: rate = burst = global_limit, only when > 0 *)
Definition cfg_global (c : lim_config) : option Z := if 0 <? lc_global c then Some (lc_global c) else None.

(* the prefix length the PROPERTY assigns to each family under a configuration: the configured mask of that
   family, /24 resp. /48 when it is omitted (0) or not a prefix length of the family *)
Definition cfg_mask4 (c : lim_config) : Z := if (1 <=? lc_v4 c) && (lc_v4 c <=? 32) then lc_v4 c else 24.
Definition cfg_mask6 (c : lim_config) : Z := if (1 <=? lc_v6 c) && (lc_v6 c <=? 128) then lc_v6 c else 48.

(* the property's subnet of a client under a configuration: the address (a v4-mapped one as the IPv4 address)
   truncated to the configured mask of ITS family; arithmetic definition, independent of mask_bits/prefix_addr *)
Definition cfg_subnet (c : lim_config) (a : lim_addr) : lim_addr :=
  match lim_unmap a with
  | LA4 x => LA4 (x / 2 ^ (32 - Z.to_N (cfg_mask4 c)) * 2 ^ (32 - Z.to_N (cfg_mask4 c)))%N
  | LA6 x => LA6 (x / 2 ^ (128 - Z.to_N (cfg_mask6 c)) * 2 ^ (128 - Z.to_N (cfg_mask6 c)))%N
  | LANone => LANone
  end.

(* the key the router's limiter charges a client to (None = no client limiter) *)
Definition cfg_key (c : lim_config) (a : lim_addr) : option lim_addr :=
  match cfg_client c with Some o => Some (mask_addr o a) | None => None end.

(* ------------------------------------------------------------------ one bucket *)

(* e{l: *rate.Limiter, lastSeen}: tok = l.tokens * 10^9, last = l.last, seen = lastSeen *)
Record bucket := mkBucket { b_tok : Z; b_last : Z; b_seen : Z }.

(* A bucket created by LoadOrCompute at time [now].  rate.NewLimiter starts with tokens = 0 and
   last = the zero Time (year 1); at the first use the elapsed time saturates at 292 years and the
   bucket is full, so (burst, now) is the same state for every later call (also a call that fails
   and leaves the rate.Limiter untouched: a full bucket stays full). *)
Definition lim_fresh (burst now : Z) : bucket := mkBucket (burst * SCALE) now now.

(* Limiter.advance *)
Definition lim_advance (rate burst : Z) (b : bucket) (now : Z) : Z :=
  let l := if now <? b_last b then now else b_last b in
  Z.min (burst * SCALE) (b_tok b + rate * (now - l)).

(* the quantity the decision depends on: tokens left after taking n, plus one nanosecond of refill.
   granted <-> n <= burst /\ 0 < margin *)
Definition lim_margin (rate burst : Z) (b : bucket) (now n : Z) : Z :=
  lim_advance rate burst b now - n * SCALE + rate.

(* e.lastSeen = now; e.l.AllowN(now, n) *)
Definition allow_bucket (rate burst : Z) (b : bucket) (now n : Z) : bool * bucket :=
  if (n <=? burst) && (0 <? lim_margin rate burst b now n)
  then (true, mkBucket (lim_advance rate burst b now - n * SCALE) now now)
  else (false, mkBucket (b_tok b) (b_last b) now).

(* ------------------------------------------------------------------ the table *)

Definition lim_table := list (lim_addr * bucket).

Fixpoint lim_lookup (k : lim_addr) (t : lim_table) : option bucket :=
  match t with
  | [] => None
  | (k', b) :: t' => if addr_eqb k k' then Some b else lim_lookup k t'
  end.

Definition lim_remove (k : lim_addr) (t : lim_table) : lim_table :=
  filter (fun e => negb (addr_eqb k (fst e))) t.

Definition lim_upsert (k : lim_addr) (b : bucket) (t : lim_table) : lim_table := (k, b) :: lim_remove k t.

(* gc at time now: an entry is deleted when it is idle (lastSeen.Before(now - entryTtl)) AND its bucket has refilled
   completely at now (l.TokensAt(now) >= burst): forgetting such an entry loses nothing, the bucket created at the
   subnet's next arrival is full as well.  (Before the K3 repair idleness alone decided, and with burst > 60*rate a
   subnet got a second burst after a minute of silence.) *)
Definition lim_expired (now : Z) (b : bucket) : bool := b_seen b <? now - entry_ttl.
Definition lim_full (o : opts) (now : Z) (b : bucket) : bool :=
  o_burst o * SCALE <=? lim_advance (o_limit o) (o_burst o) b now.
Definition lim_collect (o : opts) (now : Z) (b : bucket) : bool := lim_expired now b && lim_full o now b.
Definition lim_gc (o : opts) (now : Z) (t : lim_table) : lim_table :=
  filter (fun e => negb (lim_collect o now (snd e))) t.

(* ------------------------------------------------------------------ histories *)

(* an arrival (time, client address, cost) or a run of the collector (environment step) *)
Inductive lev := EvAllow (t : Z) (a : lim_addr) (n : Z) | EvGc (t : Z).

Definition ev_time (e : lev) : Z := match e with EvAllow t _ _ => t | EvGc t => t end.

Definition lim_bucket_of (o : opts) (k : lim_addr) (t : lim_table) (now : Z) : bucket :=
  match lim_lookup k t with Some b => b | None => lim_fresh (o_burst o) now end.

(* ClientLimiter.AllowN / gc; o = effective options; output = the decision of an arrival *)
Definition lim_step (o : opts) (t : lim_table) (e : lev) : lim_table * option bool :=
  match e with
  | EvAllow now a n =>
      let k := mask_addr o a in
      let r := allow_bucket (o_limit o) (o_burst o) (lim_bucket_of o k t now) now n in
      (lim_upsert k (snd r) t, Some (fst r))
  | EvGc now => (lim_gc o now t, None)
  end.

(* margin of an arrival in the current state (for the comparison's epsilon band); None for gc and for n > burst *)
Definition step_margin (o : opts) (t : lim_table) (e : lev) : option Z :=
  match e with
  | EvAllow now a n =>
      if n <=? o_burst o
      then Some (lim_margin (o_limit o) (o_burst o) (lim_bucket_of o (mask_addr o a) t now) now n)
      else None
  | EvGc _ => None
  end.

Fixpoint lim_final (o : opts) (t : lim_table) (h : list lev) : lim_table :=
  match h with [] => t | e :: h' => lim_final o (fst (lim_step o t e)) h' end.

Fixpoint lim_decisions (o : opts) (t : lim_table) (h : list lev) : list (option bool) :=
  match h with [] => [] | e :: h' => snd (lim_step o t e) :: lim_decisions o (fst (lim_step o t e)) h' end.

(* events that concern key k: its own arrivals, and every collector run *)
Definition touches (o : opts) (k : lim_addr) (e : lev) : bool :=
  match e with EvAllow _ a _ => addr_eqb (mask_addr o a) k | EvGc _ => true end.

(* the decisions taken for key k, in order *)
Fixpoint lim_decisions_for (o : opts) (k : lim_addr) (h : list lev) (ds : list (option bool)) : list bool :=
  match h, ds with
  | e :: h', d :: ds' =>
      match e, d with
      | EvAllow _ a _, Some b => if addr_eqb (mask_addr o a) k then b :: lim_decisions_for o k h' ds' else lim_decisions_for o k h' ds'
      | _, _ => lim_decisions_for o k h' ds'
      end
  | _, _ => []
  end.

(* total (unscaled) cost granted for key k at times within [t0, t1] *)
Fixpoint lim_granted (o : opts) (k : lim_addr) (t0 t1 : Z) (h : list lev) (ds : list (option bool)) : Z :=
  match h, ds with
  | e :: h', d :: ds' =>
      (match e, d with
       | EvAllow t a n, Some true =>
           if addr_eqb (mask_addr o a) k && (t0 <=? t) && (t <=? t1) then n else 0
       | _, _ => 0
       end) + lim_granted o k t0 t1 h' ds'
  | _, _ => 0
  end.

Fixpoint lim_sorted_from (t : Z) (h : list lev) : bool :=
  match h with [] => true | e :: h' => (t <=? ev_time e) && lim_sorted_from (ev_time e) h' end.
Definition lim_sorted (h : list lev) : bool :=
  match h with [] => true | e :: h' => lim_sorted_from (ev_time e) h' end.

Definition has_gc (h : list lev) : bool := existsb (fun e => match e with EvGc _ => true | _ => false end) h.

(* the executable statement of the window bound for one history (the spec oracle of kind `limiter`):
   scaled cost granted for k in [t0,t1]  <  burst + rate*(t1 - t0) + one nanosecond of refill *)
Definition bound_ok_ds (o : opts) (k : lim_addr) (t0 t1 : Z) (h : list lev) (ds : list (option bool)) : bool :=
  lim_granted o k t0 t1 h ds * SCALE <=? o_burst o * SCALE + o_limit o * (t1 - t0) + (o_limit o - 1).
Definition bound_ok (o : opts) (k : lim_addr) (t0 t1 : Z) (h : list lev) : bool :=
  bound_ok_ds o k t0 t1 h (lim_decisions o [] h).

(* ------------------------------------------------------------------ acceptance at the listeners *)

(* cost table, app/router/limiter.go *)
Definition costUDPQuery : Z := 1.
Definition costTCPQuery : Z := 2.
Definition costHTTPQuery : Z := 2.
Definition costQUICQuery : Z := 2.
Definition costTCPConn : Z := 3.
Definition costTLSConn : Z := 15.
Definition costQuicConn : Z := 15.
Definition costFromCache : Z := 1.
Definition costFromUpstream : Z := 3.

Inductive lim_listener := LmUdp | LmTcp | LTls | LGnet | LmHttp | LHttps | LFastHttp | LQuic.

(* cost charged to the client's address when a connection is accepted *)
Definition conn_cost (l : lim_listener) : option Z :=
  match l with
  | LmUdp => None
  | LmTcp => Some costTCPConn          (* tcpServer.run *)
  | LTls => Some costTLSConn
  | LGnet => Some costTCPConn         (* gnetServer.OnOpen *)
  | LmHttp => Some costTCPConn         (* lim_listener.Accept *)
  | LHttps => Some costTLSConn
  | LFastHttp => None                 (* startFastHttpServer never consults the limiter *)
  | LQuic => Some costQuicConn        (* quicServer.run *)
  end.

(* cost checked before a query is handled *)
Definition query_cost (l : lim_listener) : option Z :=
  match l with
  | LmUdp => Some costUDPQuery         (* udpServer.handleMsg *)
  | LmTcp | LTls => Some costTCPQuery  (* tcpServer.handleConn *)
  | LGnet => None                     (* gnetServer.OnTraffic has no per-query check *)
  | LmHttp | LHttps => Some costHTTPQuery
  | LFastHttp => None
  | LQuic => Some costQUICQuery       (* quicServer.handleConn *)
  end.

(* resourceLimiter: optional global bucket (rate = burst = global_limit), optional client limiter *)
Record rl := mkRl { rl_global : option (Z * bucket); rl_client : option (opts * lim_table) }.

Definition rl_init (global_limit : Z) (now : Z) (cfg : opts) : rl :=
  mkRl (if 0 <? global_limit then Some (global_limit, lim_fresh global_limit now) else None)
       (match init_client cfg with Some o => Some (o, []) | None => None end).

Inductive rl_res := RlOk | RlGlobal | RlClient.

(* router.limiterAllowN + resourceLimiter.AllowN: an invalid address is never charged; the global bucket is
   charged first (and stays charged when the client bucket then refuses) *)
Definition rl_allow (r : rl) (now : Z) (a : lim_addr) (n : Z) : rl * rl_res :=
  match a with
  | LANone => (r, RlOk)
  | _ =>
    let g := match rl_global r with
             | Some (lim, b) => let x := allow_bucket lim lim b now n in (Some (lim, snd x), fst x)
             | None => (None, true)
             end in
    if snd g then
      match rl_client r with
      | Some (o, t) =>
          let s := lim_step o t (EvAllow now a n) in
          (mkRl (fst g) (Some (o, fst s)),
           match snd s with Some false => RlClient | _ => RlOk end)
      | None => (mkRl (fst g) (rl_client r), RlOk)
      end
    else (mkRl (fst g) (rl_client r), RlGlobal)
  end.

(* the resourceLimiter the router builds from its configuration at time [now] *)
Definition rl_of_config (c : lim_config) (now : Z) : rl := rl_init (lc_global c) now (cfg_opts c).

(* a run of arrivals (time, client address, cost) through router.limiterAllowN *)
Definition rl_arrival := (Z * lim_addr * Z)%type.
Fixpoint rl_decisions (r : rl) (h : list rl_arrival) : list rl_res :=
  match h with
  | [] => []
  | (now, a, n) :: h' => snd (rl_allow r now a n) :: rl_decisions (fst (rl_allow r now a n)) h'
  end.

(* the results seen by the clients of subnet k (subnets as the property defines them: cfg_subnet) *)
Fixpoint rl_results_for (c : lim_config) (k : lim_addr) (h : list rl_arrival) (ds : list rl_res) : list rl_res :=
  match h, ds with
  | (_, a, _) :: h', d :: ds' =>
      if addr_eqb (cfg_subnet c a) k then d :: rl_results_for c k h' ds' else rl_results_for c k h' ds'
  | _, _ => []
  end.

Definition rl_from_subnet (c : lim_config) (k : lim_addr) (e : rl_arrival) : bool :=
  addr_eqb (cfg_subnet c (snd (fst e))) k.

(* ---- the composed limiter seen in two layers (round 4) ----
   The global bucket is consulted FIRST and evolves on its own: it is charged by every arrival with a valid address,
   whatever the client limiter then says.  [glob_verdicts g h] = its answers (true = passes). *)
Fixpoint glob_verdicts (g : option (Z * bucket)) (h : list rl_arrival) : list bool :=
  match h with
  | [] => []
  | (now, a, n) :: h' =>
      match a, g with
      | LANone, _ => true :: glob_verdicts g h'
      | _, None => true :: glob_verdicts None h'
      | _, Some (lim, b) =>
          let x := allow_bucket lim lim b now n in fst x :: glob_verdicts (Some (lim, snd x)) h'
      end
  end.

Definition rl_conv (d : option bool) : rl_res := match d with Some false => RlClient | _ => RlOk end.

(* resourceLimiter.AllowN with the global bucket's answers GIVEN: an arrival the global bucket refuses never reaches the
   client limiter *)
Fixpoint rl_decisions_given (o : opts) (t : lim_table) (h : list rl_arrival) (vs : list bool) : list rl_res :=
  match h, vs with
  | (now, a, n) :: h', v :: vs' =>
      match a with
      | LANone => RlOk :: rl_decisions_given o t h' vs'
      | _ => if v then rl_conv (snd (lim_step o t (EvAllow now a n)))
                         :: rl_decisions_given o (fst (lim_step o t (EvAllow now a n))) h' vs'
             else RlGlobal :: rl_decisions_given o t h' vs'
      end
  | _, _ => []
  end.

(* the arrivals that reach the client limiter, as limiter events *)
Fixpoint rl_passed (h : list rl_arrival) (vs : list bool) : list lev :=
  match h, vs with
  | (now, a, n) :: h', v :: vs' =>
      match a with
      | LANone => rl_passed h' vs'
      | _ => if v then EvAllow now a n :: rl_passed h' vs' else rl_passed h' vs'
      end
  | _, _ => []
  end.

(* the global answers given to the arrivals of subnet k *)
Fixpoint rl_verdicts_for (c : lim_config) (k : lim_addr) (h : list rl_arrival) (vs : list bool) : list bool :=
  match h, vs with
  | (_, a, _) :: h', v :: vs' =>
      if addr_eqb (cfg_subnet c a) k then v :: rl_verdicts_for c k h' vs' else rl_verdicts_for c k h' vs'
  | _, _ => []
  end.

(* total (unscaled) cost GRANTED (result RlOk) for subnet key k at times within [t0, t1] *)
Fixpoint rl_granted (o : opts) (k : lim_addr) (t0 t1 : Z) (h : list rl_arrival) (ds : list rl_res) : Z :=
  match h, ds with
  | (t, a, n) :: h', d :: ds' =>
      (match d with
       | RlOk => if addr_eqb (mask_addr o a) k && (t0 <=? t) && (t <=? t1) then n else 0
       | _ => 0
       end) + rl_granted o k t0 t1 h' ds'
  | _, _ => 0
  end.

Definition rl_events (h : list rl_arrival) : list lev := map (fun e : rl_arrival => EvAllow (fst (fst e)) (snd (fst e)) (snd e)) h.

(* the client limiter's table inside a resourceLimiter *)
Definition rl_table (r : rl) : lim_table := match rl_client r with Some (_, t) => t | None => [] end.
Fixpoint rl_final (r : rl) (h : list rl_arrival) : rl :=
  match h with [] => r | (now, a, n) :: h' => rl_final (fst (rl_allow r now a n)) h' end.

(* The WRONG order (client bucket first, then the global one): what the code must not do.  A query the global bucket
   refuses has then already consumed the tokens of its subnet (Props: C15_client_first_refuted). *)
Definition rl_allow_client_first (r : rl) (now : Z) (a : lim_addr) (n : Z) : rl * rl_res :=
  match a with
  | LANone => (r, RlOk)
  | _ =>
    let c := match rl_client r with
             | Some (o, t) => let s := lim_step o t (EvAllow now a n) in
                              (Some (o, fst s), match snd s with Some false => false | _ => true end)
             | None => (None, true)
             end in
    if snd c then
      match rl_global r with
      | Some (lim, b) => let x := allow_bucket lim lim b now n in
                         (mkRl (Some (lim, snd x)) (fst c), if fst x then RlOk else RlGlobal)
      | None => (mkRl None (fst c), RlOk)
      end
    else (mkRl (rl_global r) (fst c), RlClient)
  end.

Fixpoint rl_decisions_client_first (r : rl) (h : list rl_arrival) : list rl_res :=
  match h with
  | [] => []
  | (now, a, n) :: h' => snd (rl_allow_client_first r now a n)
                         :: rl_decisions_client_first (fst (rl_allow_client_first r now a n)) h'
  end.

(* what a client observes *)
Inductive lim_outcome :=
| OAccepted        (* connection accepted *)
| OConnClosed      (* connection closed at accept *)
| OAnswered        (* query handled: forwarded (or served from cache), reply written *)
| ORefused         (* DNS reply with RCODE 5, nothing else done *)
| O503             (* HTTP status 503, nothing else done *)
| OStreamClosed    (* QUIC: stream closed without a reply *)
| OBadRequest.     (* HTTP status 400: the client address header does not parse; nothing else done *)

Definition forwards (x : lim_outcome) : bool := match x with OAnswered => true | _ => false end.

Definition rl_is_ok (x : rl_res) : bool := match x with RlOk => true | _ => false end.

(* a connection from client [a] arrives at lim_listener l *)
Definition accept_conn (r : rl) (now : Z) (l : lim_listener) (a : lim_addr) : rl * lim_outcome :=
  match conn_cost l with
  | None => (r, OAccepted)
  | Some c => let x := rl_allow r now a c in
              (fst x, if rl_is_ok (snd x) then OAccepted else OConnClosed)
  end.

(* the reply to a query the limiter refused *)
Definition refusal (l : lim_listener) : lim_outcome :=
  match l with
  | LmUdp | LmTcp | LTls => ORefused
  | LmHttp | LHttps => O503
  | LQuic => OStreamClosed
  | LGnet | LFastHttp => ORefused      (* unreachable: query_cost = None *)
  end.

(* a query from client [a] arrives at lim_listener l; [hit] = answered from the cache.
   After acceptance handleReq charges costFromCache / costFromUpstream and ignores the result. *)
Definition accept_query (r : rl) (now : Z) (l : lim_listener) (a : lim_addr) (hit : bool) : rl * lim_outcome :=
  let x := match query_cost l with
           | Some c => rl_allow r now a c
           | None => (r, RlOk)
           end in
  if rl_is_ok (snd x)
  then (fst (rl_allow (fst x) now a (if hit then costFromCache else costFromUpstream)), OAnswered)
  else (fst x, refusal l).

(* ABadAddr: an HTTP request whose client_addr_header value does not parse as an address (ServeHTTP answers 400 and
   returns before the limiter, the handler and the upstream are involved) *)
Inductive aev := AConn (l : lim_listener) (a : lim_addr) | AQuery (l : lim_listener) (a : lim_addr) (hit : bool)
               | ABadAddr (l : lim_listener).

Definition listener_step (r : rl) (now : Z) (e : aev) : rl * lim_outcome :=
  match e with
  | AConn l a => accept_conn r now l a
  | AQuery l a hit => accept_query r now l a hit
  | ABadAddr _ => (r, OBadRequest)
  end.

(* a script of lim_listener events, all at time [now] (the e2e scenario is shorter than one refill) *)
Fixpoint listener_run (r : rl) (now : Z) (es : list aev) : list lim_outcome :=
  match es with
  | [] => []
  | e :: es' => snd (listener_step r now e) :: listener_run (fst (listener_step r now e)) now es'
  end.

(* ------------------------------------------------------------------ one stream connection (round 6) *)

(* app/router/server_tcp.go handleConn (tcp, tls), server_tcp_gnet_linux.go OnTraffic, server_quic.go handleConn:
   a long-lived connection carries many queries.  tcp / tls / gnet keep a per-connection counter of queries in flight
   (concurrent.Add(1) when a query has been read; max_concurrent_queries, default 100); the query is refused when the
   counter exceeds the cap OR (tcp, tls; quic without a counter) the limiter refuses it; the slot is given back on EVERY
   path: at once when the query is refused (by the cap or by the limiter), after the reply has been written otherwise. *)
Record lsconn := mkLsconn { lsc_rl : rl; lsc_inflight : Z }.

Inductive lsc_ev :=
| LscArrive (now : Z) (a : lim_addr) (hit : bool)     (* a query has been read from the connection *)
| LscDone.                                            (* the reply of a handled query has been written *)

Definition lsc_has_cap (l : lim_listener) : bool := match l with LmTcp | LTls | LGnet => true | _ => false end.

(* the cap's verdict on the next query: cc := counter + 1 > max_concurrent_queries *)
Definition lsc_cap_hit (l : lim_listener) (maxc : Z) (s : lsconn) : bool := lsc_has_cap l && (maxc <? lsc_inflight s + 1).

(* [leak] = the faulty variant in which a query refused by the LIMITER keeps its slot (Props: C15_stream_leak_refuted) *)
Definition lsc_step_gen (leak : bool) (l : lim_listener) (maxc : Z) (s : lsconn) (e : lsc_ev) : lsconn * option lim_outcome :=
  match e with
  | LscArrive now a hit =>
      if lsc_cap_hit l maxc s then (s, Some (refusal l))                       (* Add(1); refused; Add(-1) *)
      else let x := accept_query (lsc_rl s) now l a hit in
           if forwards (snd x) then (mkLsconn (fst x) (lsc_inflight s + 1), Some (snd x))       (* slot kept until LscDone *)
           else (mkLsconn (fst x) (if leak then lsc_inflight s + 1 else lsc_inflight s), Some (snd x))
  | LscDone => (mkLsconn (lsc_rl s) (lsc_inflight s - 1), None)
  end.

Definition lsc_step := lsc_step_gen false.

Fixpoint lsc_run_gen (leak : bool) (l : lim_listener) (maxc : Z) (s : lsconn) (es : list lsc_ev) : lsconn * list (option lim_outcome) :=
  match es with
  | [] => (s, [])
  | e :: es' => let x := lsc_step_gen leak l maxc s e in
                let y := lsc_run_gen leak l maxc (fst x) es' in (fst y, snd x :: snd y)
  end.
Definition lsc_run := lsc_run_gen false.

(* queries handled (slot taken) and replies written in a script *)
Definition lsc_count_answered (os : list (option lim_outcome)) : Z :=
  fold_right (fun o n => match o with Some OAnswered => n + 1 | _ => n end) 0 os.
Definition lsc_count_done (es : list lsc_ev) : Z :=
  fold_right (fun e n => match e with LscDone => n + 1 | _ => n end) 0 es.
