(* Limit/LimiterConcProofs.v — proofs about Limit/LimiterConc.v (C15, concurrent first arrivals). *)
From Mos Require Import Base.Prelude Limit.Limiter Limit.LimiterProofs Limit.LimiterConc.
From Coq Require Import ZifyN ZifyNat ZifyBool.
Local Open Scope Z_scope.

(* ------------------------------------------------------------------ list update *)

Lemma cc_set_length {A} (l : list A) i x : length (cc_set l i x) = length l.
Proof. revert i. induction l as [|y l IH]; intros [|i]; cbn; auto. Qed.

Lemma cc_set_nth_error_eq {A} (l : list A) i x : (i < length l)%nat -> nth_error (cc_set l i x) i = Some x.
Proof. revert i. induction l as [|y l IH]; intros [|i]; cbn; intros H; try lia; auto. apply IH. lia. Qed.

Lemma cc_set_nth_error_neq {A} (l : list A) i j x : i <> j -> nth_error (cc_set l i x) j = nth_error l j.
Proof.
  revert i j. induction l as [|y l IH]; intros [|i] [|j]; cbn; intros H; auto; try congruence.
Qed.

Lemma cc_set_nth_eq {A} (l : list A) i x d : (i < length l)%nat -> nth i (cc_set l i x) d = x.
Proof. revert i. induction l as [|y l IH]; intros [|i]; cbn; intros H; try lia; auto. apply IH. lia. Qed.

Lemma cc_set_nth_neq {A} (l : list A) i j x d : i <> j -> nth j (cc_set l i x) d = nth j l d.
Proof.
  revert i j. induction l as [|y l IH]; intros [|i] [|j]; cbn; intros H; auto; try congruence.
Qed.

Lemma nth_error_lt {A} (l : list A) i x : nth_error l i = Some x -> (i < length l)%nat.
Proof. intros H. apply nth_error_Some. congruence. Qed.

(* ------------------------------------------------------------------ granted cost under an update *)

Definition cc_contrib (o : opts) (k : lim_addr) (e : rl_arrival) (pc : cc_pc) : Z :=
  match pc with CcDone true => if addr_eqb (mask_addr o (snd (fst e))) k then snd e else 0 | _ => 0 end.

Lemma granted_set o k : forall calls pcs i e pc pc',
  nth_error calls i = Some e -> nth_error pcs i = Some pc ->
  cc_granted o k calls (cc_set pcs i pc') = cc_granted o k calls pcs - cc_contrib o k e pc + cc_contrib o k e pc'.
Proof.
  induction calls as [|[[t a] n] calls IH]; intros pcs i e pc pc' Hc Hp.
  - destruct i; discriminate.
  - destruct pcs as [|q pcs]; [destruct i; discriminate|].
    destruct i as [|i]; cbn in Hc, Hp.
    + inversion Hc; inversion Hp; subst. unfold cc_contrib. cbn [cc_set cc_granted fst snd].
      destruct pc as [| | |[|]]; destruct pc' as [| | |[|]]; lia.
    + cbn [cc_set cc_granted]. rewrite (IH pcs i e pc pc' Hc Hp). lia.
Qed.

Lemma granted_init o k calls : cc_granted o k calls (map (fun _ => CcStart) calls) = 0.
Proof. induction calls as [|[[t a] n] calls IH]; cbn; auto. Qed.

Lemma init_pcs_length (cs : list rl_arrival) : length (map (fun _ : rl_arrival => CcStart) cs) = length cs.
Proof. induction cs; cbn; congruence. Qed.

Lemma init_pcs_nth (cs : list rl_arrival) i pc :
  nth_error (map (fun _ : rl_arrival => CcStart) cs) i = Some pc -> pc = CcStart.
Proof. revert i. induction cs as [|c cs IH]; intros [|i]; cbn; intros H; try discriminate; [congruence|eauto]. Qed.

(* ------------------------------------------------------------------ the atomic machine *)

Section Atomic.
  Variable o : opts.
  Variable calls : list rl_arrival.
  Variable now : Z.
  Hypothesis Hrate : 0 < o_limit o.
  Hypothesis Hburst : 0 <= o_burst o.
  Hypothesis Hat : cc_at now calls.

  Let key (e : rl_arrival) : lim_addr := mask_addr o (snd (fst e)).

  Record cc_inv (st : cc_state) : Prop := mkCcInv {
    ci_len : length (cc_pcs st) = length calls;
    ci_rng : forall k p, cc_find k (cc_tbl st) = Some p -> (p < length (cc_heap st))%nat;
    ci_inj : forall k k' p, cc_find k (cc_tbl st) = Some p -> cc_find k' (cc_tbl st) = Some p -> k = k';
    ci_have : forall i p e, nth_error (cc_pcs st) i = Some (CcHave p) -> nth_error calls i = Some e ->
                cc_find (key e) (cc_tbl st) = Some p;
    ci_nomiss : forall i, nth_error (cc_pcs st) i <> Some CcMiss;
    ci_acct : forall k,
      match cc_find k (cc_tbl st) with
      | Some p => wfb o (cc_cell o now (cc_heap st) p) now /\
                  cc_granted o k calls (cc_pcs st) * SCALE + capb o (cc_cell o now (cc_heap st) p) now <= o_burst o * SCALE
      | None => cc_granted o k calls (cc_pcs st) = 0
      end }.

  Lemma inv_init : cc_inv (cc_init calls).
  Proof.
    constructor; cbn [cc_init cc_heap cc_tbl cc_pcs cc_find].
    - apply init_pcs_length.
    - discriminate.
    - discriminate.
    - intros i p e H. apply init_pcs_nth in H. discriminate.
    - intros i H. apply init_pcs_nth in H. discriminate.
    - intros k. apply granted_init.
  Qed.

  (* an update of call i's program counter that does not change its contribution *)
  Lemma granted_set_same k st i e pc pc' :
    nth_error calls i = Some e -> nth_error (cc_pcs st) i = Some pc ->
    cc_contrib o k e pc = cc_contrib o k e pc' ->
    cc_granted o k calls (cc_set (cc_pcs st) i pc') = cc_granted o k calls (cc_pcs st).
  Proof. intros A B C. rewrite (granted_set o k calls _ i e pc pc' A B). lia. Qed.

  Lemma step_inv st i : cc_inv st -> cc_inv (cc_step true o calls st i).
  Proof.
    intros I. unfold cc_step.
    destruct (nth_error calls i) as [[[t a] n]|] eqn:Ec; [|exact I].
    destruct (nth_error (cc_pcs st) i) as [pc|] eqn:Ep; [|exact I].
    assert (t = now) as -> by (apply (Hat (t, a, n)); eapply nth_error_In; eauto).
    pose proof (nth_error_lt _ _ _ Ep) as Li.
    destruct I as [ILen IRng IInj IHave INomiss IAcct].
    destruct pc as [| |p|ok].
    - (* CcStart *)
      destruct (cc_find (mask_addr o a) (cc_tbl st)) as [p|] eqn:Ef.
      + (* the entry exists *)
        constructor; cbn [cc_heap cc_tbl cc_pcs].
        * now rewrite cc_set_length.
        * exact IRng.
        * exact IInj.
        * intros j p' e Hj He. destruct (Nat.eq_dec i j) as [<-|N].
          -- rewrite cc_set_nth_error_eq in Hj by exact Li. inversion Hj; subst p'.
             rewrite Ec in He. inversion He; subst e. exact Ef.
          -- rewrite cc_set_nth_error_neq in Hj by exact N. eapply IHave; eauto.
        * intros j. destruct (Nat.eq_dec i j) as [<-|N].
          -- rewrite cc_set_nth_error_eq by exact Li. discriminate.
          -- rewrite cc_set_nth_error_neq by exact N. apply INomiss.
        * intros k. rewrite (granted_set_same k st i (now, a, n) CcStart (CcHave p) Ec Ep eq_refl). apply IAcct.
      + (* LoadOrCompute creates the entry *)
        constructor; cbn [cc_heap cc_tbl cc_pcs].
        * now rewrite cc_set_length.
        * intros k p. cbn [cc_find]. rewrite app_length. cbn [length].
          destruct (addr_eqb k (mask_addr o a)).
          -- intros H. inversion H. lia.
          -- intros H. apply IRng in H. lia.
        * intros k k' p. cbn [cc_find].
          destruct (addr_eqb k (mask_addr o a)) eqn:E1; destruct (addr_eqb k' (mask_addr o a)) eqn:E2; intros H1 H2.
          -- apply addr_eqb_eq in E1, E2. congruence.
          -- inversion H1; subst p. apply IRng in H2. lia.
          -- inversion H2; subst p. apply IRng in H1. lia.
          -- eapply IInj; eauto.
        * intros j p' e Hj He. cbn [cc_find]. destruct (Nat.eq_dec i j) as [<-|N].
          -- rewrite cc_set_nth_error_eq in Hj by exact Li. inversion Hj; subst p'.
             rewrite Ec in He. inversion He; subst e. unfold key. cbn [fst snd]. now rewrite addr_eqb_refl.
          -- rewrite cc_set_nth_error_neq in Hj by exact N.
             pose proof (IHave j p' e Hj He) as F.
             destruct (addr_eqb (key e) (mask_addr o a)) eqn:E; [|exact F].
             apply addr_eqb_eq in E. rewrite E in F. congruence.
        * intros j. destruct (Nat.eq_dec i j) as [<-|N].
          -- rewrite cc_set_nth_error_eq by exact Li. discriminate.
          -- rewrite cc_set_nth_error_neq by exact N. apply INomiss.
        * intros k. rewrite (granted_set_same k st i (now, a, n) CcStart (CcHave (length (cc_heap st))) Ec Ep eq_refl).
          cbn [cc_find]. specialize (IAcct k).
          destruct (addr_eqb k (mask_addr o a)) eqn:E.
          -- apply addr_eqb_eq in E. subst k. rewrite Ef in IAcct.
             unfold cc_cell. rewrite app_nth2 by lia. rewrite Nat.sub_diag. cbn [nth].
             unfold wfb, capb, lim_fresh. cbn [b_tok b_last b_seen]. unfold SCALE in *. lia.
          -- destruct (cc_find k (cc_tbl st)) as [p|] eqn:F; [|exact IAcct].
             unfold cc_cell in *. rewrite app_nth1 by (eapply IRng; eauto). exact IAcct.
    - (* CcMiss: unreachable in the atomic machine *)
      exfalso. eapply INomiss; eauto.
    - (* CcHave p: the decision under the entry's mutex *)
      pose proof (IHave i p (now, a, n) Ep Ec) as Ef. unfold key in Ef. cbn [fst snd] in Ef.
      pose proof (IRng _ _ Ef) as Lp.
      set (r := allow_bucket (o_limit o) (o_burst o) (cc_cell o now (cc_heap st) p) now n).
      constructor; cbn [cc_heap cc_tbl cc_pcs].
      + now rewrite cc_set_length.
      + intros k p'. rewrite cc_set_length. apply IRng.
      + exact IInj.
      + intros j p' e Hj He. destruct (Nat.eq_dec i j) as [<-|N].
        * rewrite cc_set_nth_error_eq in Hj by exact Li. discriminate.
        * rewrite cc_set_nth_error_neq in Hj by exact N. eapply IHave; eauto.
      + intros j. destruct (Nat.eq_dec i j) as [<-|N].
        * rewrite cc_set_nth_error_eq by exact Li. discriminate.
        * rewrite cc_set_nth_error_neq by exact N. apply INomiss.
      + intros k.
        rewrite (granted_set o k calls (cc_pcs st) i (now, a, n) (CcHave p) (CcDone (fst r)) Ec Ep).
        cbn [cc_contrib fst snd].
        pose proof (IAcct k) as Ak. pose proof (IAcct (mask_addr o a)) as Aa. rewrite Ef in Aa.
        destruct Aa as [[W1 [W2 W3]] Ab].
        pose proof (allow_capb o (cc_cell o now (cc_heap st) p) now n W1 W2 W3) as X. cbn zeta in X. fold r in X.
        destruct X as [X1 X2].
        destruct (addr_eqb (mask_addr o a) k) eqn:E.
        * apply addr_eqb_eq in E. subst k. rewrite Ef.
          unfold cc_cell at 1 2. rewrite cc_set_nth_eq by exact Lp.
          split; [exact X1|]. destruct (fst r); lia.
        * assert (cc_granted o k calls (cc_pcs st) - 0 + (if fst r then 0 else 0) = cc_granted o k calls (cc_pcs st)) as ->
            by (destruct (fst r); lia).
          destruct (cc_find k (cc_tbl st)) as [p'|] eqn:F; [|exact Ak].
          assert (p <> p') as Np.
          { intros ->. apply addr_eqb_neq in E. apply E. eapply IInj; eauto. }
          unfold cc_cell in *. rewrite cc_set_nth_neq by exact Np. exact Ak.
    - (* CcDone *)
      constructor; assumption.
  Qed.

  Lemma run_inv sched : forall st, cc_inv st -> cc_inv (fold_left (cc_step true o calls) sched st).
  Proof. induction sched as [|i s IH]; intros st I; cbn; auto. apply IH. now apply step_inv. Qed.

  (* simultaneous arrivals, any number of goroutines, any schedule (complete or not): the cost granted to one
     subnet stays below burst + one nanosecond of refill *)
  Lemma atomic_bound sched k :
    cc_granted o k calls (cc_pcs (cc_run true o calls sched)) * SCALE <= o_burst o * SCALE + (o_limit o - 1).
  Proof.
    pose proof (run_inv sched _ inv_init) as I. fold (cc_run true o calls sched) in I.
    pose proof (ci_acct _ I k) as A.
    destruct (cc_find k (cc_tbl (cc_run true o calls sched))) as [p|].
    - destruct A as [W B].
      pose proof (cap_gt o Hrate Hburst (Some (cc_cell o now (cc_heap (cc_run true o calls sched)) p)) now W) as G.
      cbn [cap] in G. lia.
    - rewrite A. unfold SCALE. lia.
  Qed.
End Atomic.

(* ------------------------------------------------------------------ the split machine: witness *)

(* rate 1/s, burst 10; two goroutines, first packets of 192.168.1.1 and 192.168.1.2 (one /24), cost 10 each,
   same instant.  Schedule: both Load (miss), both create+Store, both decide. *)
Definition ccw_opts : opts := mkOpts 1 10 24 48.
Definition ccw_calls : list rl_arrival := [(0, LA4 3232235777%N, 10); (0, LA4 3232235778%N, 10)].
Definition ccw_sched : list nat := [0; 1; 0; 1; 0; 1]%nat.
Definition ccw_key : lim_addr := mask_addr ccw_opts (LA4 3232235777%N).

Lemma cc_split_witness :
  cc_all_done (cc_pcs (cc_run false ccw_opts ccw_calls ccw_sched)) = true /\
  cc_granted ccw_opts ccw_key ccw_calls (cc_pcs (cc_run false ccw_opts ccw_calls ccw_sched)) = 20 /\
  cc_all_done (cc_pcs (cc_run true ccw_opts ccw_calls ccw_sched)) = true /\
  cc_granted ccw_opts ccw_key ccw_calls (cc_pcs (cc_run true ccw_opts ccw_calls ccw_sched)) = 10.
Proof. vm_compute. auto. Qed.

Lemma ccw_at : cc_at 0 ccw_calls.
Proof. intros e [<-|[<-|[]]]; reflexivity. Qed.
