open Model
open Drv_common

(* ---------- kind: ownership (C20) ----------
   case:   <id> sc=<reuse|quic|pipeline> sched=<name> mode=.. seed=..
   result: viol=<0|1> code=<model violation code> pinned=<code of the pinned reuse protocol under the same schedule|->
           all=<safe|unsafe>   (all = the certificate check over ALL interleavings of that protocol, recomputed here)
   The model of record is the protocol of the tree after the D14 fix (proto 1); proto 0 is the pinned one. *)

let all_cache : (int, bool) Hashtbl.t = Hashtbl.create 8
let all_safe (p : int) : bool =
  match Hashtbl.find_opt all_cache p with
  | Some b -> b
  | None ->
    let pr = proto_of (nat_of_int p) in
    let b = check pr (states pr) in
    Hashtbl.add all_cache p b; b

let code_str = function None -> "invalid-schedule" | Some c -> string_of_int (int_of_nat c)

let stream_k (sched : string) : int =
  match sched with
  | "reply-first" | "retry-after-write-error" -> 0
  | "cancel-before-write" | "deadline-before-write" -> 1
  | "cancel-before-write-overlap" -> 2
  | "cancel-during-read" -> 3
  | s -> failwith ("unknown schedule " ^ s)

let run_ownership (parts : string list) : string =
  let f = fields parts in
  let sched = fld f "sched" in
  match fld f "sc" with
  | "reuse" | "quic" as sc ->
    let p = if sc = "reuse" then 1 else 2 in
    let k = stream_k sched in
    let v = own_verdict (nat_of_int p) (nat_of_int k) in
    let pinned = if sc = "reuse" then code_str (own_verdict (nat_of_int 0) (nat_of_int k)) else "-" in
    let viol = match v with Some O -> "0" | Some _ -> "1" | None -> "?" in
    Printf.sprintf "viol=%s code=%s pinned=%s all=%s" viol (code_str v) pinned (if all_safe p then "safe" else "unsafe")
  | "pipeline" ->
    let k = (match sched with "reply" | "dup-reply" -> 0 | "late-reply" -> 1 | s -> failwith ("unknown schedule " ^ s)) in
    let v = pipe_verdict false (nat_of_int k) in
    let viol = match v with Some O -> "0" | Some _ -> "1" | None -> "?" in
    Printf.sprintf "viol=%s code=%s pinned=%s all=%s" viol (code_str v) (code_str (pipe_verdict true (nat_of_int k)))
      (if all_safe 3 then "safe" else "unsafe")
  | "doh" | "doh2" ->
    (* model of record: the code as it is (make-allocated rawQuery handed over); pinned column: the pooled variant *)
    let k = (match sched with
      | "reply-first" -> 0 | "cancel-during-dial" | "deadline-during-dial" -> 1
      | "cancel-during-dial-overlap" -> 2 | "cancel-during-read" -> 3
      | s -> failwith ("unknown schedule " ^ s)) in
    let v = doh_verdict false (nat_of_int k) in
    let viol = match v with Some O -> "0" | Some _ -> "1" | None -> "?" in
    Printf.sprintf "viol=%s code=%s pinned=%s all=%s" viol (code_str v) (code_str (doh_verdict true (nat_of_int k)))
      (if all_safe 13 then "safe" else "unsafe")
  | "rdfault" | "listen" | "fallback" | "handover" | "emptyresp" | "prefetch" as sc ->
    (* round 4: fault paths and pooled objects. model of record = the code as it is (even protocol numbers);
       pinned column = the verdicts of the variants for the same named schedule *)
    let p, k, variants = (match sc, sched with
      | ("rdfault" | "listen"), ("complete" | "two-frames") -> 0, 0, [1]
      | ("rdfault" | "listen"), ("eof-before-frame" | "short-prefix") -> 0, 1, [1]
      | ("rdfault" | "listen"), ("short-body" | "reset-mid-body" | "stall-mid-body") -> 0, 2, [1]
      | ("rdfault" | "listen"), "short-body-overlap" -> 0, 3, [1]
      | "fallback", "plain" -> 2, 0, [3; 4]
      | "fallback", "tc-tcp-ok" -> 2, 1, [3; 4]
      | "fallback", ("tc-tcp-close" | "tc-tcp-refused" | "tc-tcp-short" | "tc-tcp-garbage" | "tc-tcp-timeout") -> 2, 2, [3; 4]
      | "fallback", "tc-tcp-close-overlap" -> 2, 4, [3; 4]
      | "fallback", "udp-timeout" -> 2, 3, [3; 4]
      | "handover", "reply-no-cancel" -> 5, 0, [6]
      | "handover", ("cancel-after-reply" | "deadline-after-reply") -> 5, 1, [6]
      | "handover", "cancel-before-reply" -> 5, 2, [6]
      | "emptyresp", _ -> 7, 0, [8]
      | "prefetch", "hit-fresh" -> 9, 0, [10]
      | "prefetch", "hit-last-quarter" -> 9, 1, [10]
      | _, s -> failwith ("unknown schedule " ^ s)) in
    let v = own4_verdict (nat_of_int p) (nat_of_int k) in
    let viol = match v with Some O -> "0" | Some _ -> "1" | None -> "?" in
    let pinned = String.concat "/" (List.map (fun q -> code_str (own4_verdict (nat_of_int q) (nat_of_int k))) variants) in
    let safe =
      (match Hashtbl.find_opt all_cache (100 + p) with
       | Some b -> b
       | None -> let pr = own4_proto (nat_of_int p) in let b = check pr (states pr) in Hashtbl.add all_cache (100 + p) b; b) in
    Printf.sprintf "viol=%s code=%s pinned=%s all=%s" viol (code_str v) pinned (if safe then "safe" else "unsafe")
  | s -> failwith ("unknown scenario " ^ s)

let () = register "ownership" run_ownership
