open Model
open Drv_common

(* ---------- canonical message dump (same format as harness/cmd/implrun/codec.go) ---------- *)
let dump_rr (r : rr) : string =
  let hd = Printf.sprintf "%s,%s,%s,%s,%s," (hex_of_bytes r.r_name) (istr r.r_type) (istr r.r_class) (istr r.r_ttl) (istr r.r_len) in
  hd ^ (match r.r_data with
    | RA a -> "A:" ^ hex_of_bytes a
    | RAAAA a -> "AAAA:" ^ hex_of_bytes a
    | RName nm -> "N:" ^ hex_of_bytes nm
    | RSOA (ns, mb, a, b, c, d, e) -> Printf.sprintf "SOA:%s,%s,%s,%s,%s,%s,%s" (hex_of_bytes ns) (hex_of_bytes mb) (istr a) (istr b) (istr c) (istr d) (istr e)
    | RMX (p, mx) -> Printf.sprintf "MX:%s,%s" (istr p) (hex_of_bytes mx)
    | RSRV (a, b, c, t) -> Printf.sprintf "SRV:%s,%s,%s,%s" (istr a) (istr b) (istr c) (hex_of_bytes t)
    | RRaw d -> "RAW:" ^ hex_of_bytes d)
let dump_msg (m : msg) : string =
  let h = m.m_hdr in
  let hs = Printf.sprintf "H%s,%d,%s,%d,%d,%d,%d,%d,%d,%s" (istr h.h_id) (b2i h.h_resp) (istr h.h_opcode) (b2i h.h_aa)
      (b2i h.h_tc) (b2i h.h_rd) (b2i h.h_ra) (b2i h.h_ad) (b2i h.h_cd) (istr h.h_rcode) in
  let qs = String.concat ";" (List.map (fun q -> Printf.sprintf "%s,%s,%s" (hex_of_bytes q.q_name) (istr q.q_type) (istr q.q_class)) m.m_qs) in
  let sec l = String.concat ";" (List.map dump_rr l) in
  hs ^ "|Q" ^ qs ^ "|AN" ^ sec m.m_an ^ "|NS" ^ sec m.m_ns ^ "|AR" ^ sec m.m_ar

(* ---------- kind: decode (C01) ---------- *)
let run_decode parts =
  let f = fields parts in
  let bs = bytes_of_hex (fld f "msg") in
  res_class (unpack_msg bs) (fun m -> "OK " ^ dump_msg m)

let spec_reason (ok : bool) (out : n list) : string =
  if ok then "ok" else
  match unpack_msg out with
  | Err ETooManyPtr -> "FAIL:redecode-toomanyptr"
  | Err _ -> "FAIL:redecode-err"
  | Ok _ -> "FAIL:content"
  | _ -> "FAIL:redecode-unsafe"

(* ---------- kind: pack (C02 / C09) ---------- *)
let run_pack parts =
  let f = fields parts in
  let bs = bytes_of_hex (fld f "msg") in
  let c = fld f "c" = "1" in
  let size = ifld f "size" in
  match unpack_msg bs with
  | Ok m ->
    let r = pack_msg (msg_len m) c (nat_of_int size) m in
    let out = res_class r (fun o -> "OK " ^ hex_of_bytes o) in
    let spec = (match r with
      | Ok o -> spec_reason (if size = 0 then spec_pack c m o else spec_packsize c (nat_of_int size) m o) o
      | _ -> "ok") in
    out ^ " || spec=" ^ spec
  | Err _ -> "UNDECODABLE"
  | Panic -> "PANIC!" | OutOfFuel -> "HANG"

(* oracle on bytes produced by the implementation *)
let run_packspec parts =
  let f = fields parts in
  let bs = bytes_of_hex (fld f "msg") in
  let out = bytes_of_hex (fld f "out") in
  let c = fld f "c" = "1" in
  let size = ifld f "size" in
  match unpack_msg bs with
  | Ok m -> let ok = if size = 0 then spec_pack c m out else spec_packsize c (nat_of_int size) m out in
    "spec=" ^ spec_reason ok out
  | _ -> "spec=ok"


let () =
  register "decode" run_decode;
  register "pack" run_pack;
  register "packspec" run_packspec
