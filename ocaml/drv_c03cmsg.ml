open Model
open Drv_common

(* ---------- kind: cmsg (C03; internal/udpcmsg) ----------
   case:   <id> op=parse oob=<hex>            -> none | 4:<hex> | 6:<hex> | ERR | UNSAFE
           <id> op=pack b=<hex> addr=<hex|->  -> size=<n> out=<hex|nil> src=<...>
           <id> op=reply b=<hex> oob=<hex>    -> out=<hex|nil> src=<...>            *)
let addr_str (a : cm_addr) : string =
  match a with CmNone -> "none" | Cm4 x -> "4:" ^ hex_of_bytes x | Cm6 x -> "6:" ^ hex_of_bytes x
let src_str (c : n list) : string =
  match cm_kernel_src c with None -> "?" | Some (a, i) -> addr_str a ^ "/" ^ istr i
let addr_of_hex (s : string) : cm_addr =
  let l = bytes_of_hex s in
  match List.length l with 4 -> Cm4 l | 16 -> Cm6 l | _ -> CmNone

let run_cmsg (parts : string list) : string =
  let f = fields parts in
  match fld f "op" with
  | "parse" ->
    (match cm_parse (bytes_of_hex (fld f "oob")) with
     | CmOk a -> addr_str a | CmErr -> "ERR" | CmUnsafe -> "UNSAFE" | CmFuel -> "HANG")
  | "pack" ->
    let a = addr_of_hex (fld f "addr") in
    let b = bytes_of_hex (fld f "b") in
    (match cm_pktinfo b a with
     | None -> Printf.sprintf "size=%d out=nil src=-" (int_of_nat (cm_size a))
     | Some c -> Printf.sprintf "size=%d out=%s src=%s" (int_of_nat (cm_size a)) (hex_of_bytes c) (src_str c))
  | "reply" ->
    (* the recycled pool buffer holds b's octets repeated *)
    let pat = bytes_of_hex (fld f "b") in
    let dirty = if pat = [] then [] else List.init 64 (fun i -> List.nth pat (i mod List.length pat)) in
    (match cm_reply_oob dirty (bytes_of_hex (fld f "oob")) with
     | None -> "out=nil src=-"
     | Some c -> Printf.sprintf "out=%s src=%s" (hex_of_bytes c) (src_str c))
  | _ -> "HARNESS-ERROR op"

let () = register "cmsg" run_cmsg
