open Drv_common

(* ---------- kind: owndecode (C20) ----------
   the decoder's release discipline with both hooks on: the implementation prints "ev=<events> <decode result>", the
   decode result is compared with the model's decode (the same function as kind decode).
   (this file sorts after drv_codec.ml, whose run_decode it uses) *)
let () = register "owndecode" Drv_codec.run_decode
